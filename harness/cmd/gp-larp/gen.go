package main

import (
	"fmt"
	"go/ast"
	goparser "go/parser"
	"go/token"
	"net"
	"os"
	"path/filepath"
	"sort"
	"strconv"

	"github.com/gopacket/gopacket"
	"github.com/gopacket/gopacket/layers"
	"verif/harness/lib"
)

// ---------------------------------------------------------------- fixtures

// literals collects every `[]byte{…}` literal (all elements literal) from the repository's own
// layers/*_test.go files.
func literals() [][]byte {
	repo := os.Getenv("VERIF_REPO")
	if repo == "" {
		repo = "/repo"
	}
	files, _ := filepath.Glob(filepath.Join(repo, "layers", "*_test.go"))
	sort.Strings(files)
	var out [][]byte
	fset := token.NewFileSet()
	for _, fn := range files {
		f, err := goparser.ParseFile(fset, fn, nil, 0)
		if err != nil {
			continue
		}
		ast.Inspect(f, func(n ast.Node) bool {
			cl, ok := n.(*ast.CompositeLit)
			if !ok {
				return true
			}
			at, ok := cl.Type.(*ast.ArrayType)
			if !ok || at.Len != nil {
				return true
			}
			id, ok := at.Elt.(*ast.Ident)
			if !ok || (id.Name != "byte" && id.Name != "uint8") {
				return true
			}
			b := make([]byte, 0, len(cl.Elts))
			for _, e := range cl.Elts {
				bl, ok := e.(*ast.BasicLit)
				if !ok {
					return true
				}
				switch bl.Kind {
				case token.INT:
					v, err := strconv.ParseUint(bl.Value, 0, 8)
					if err != nil {
						return true
					}
					b = append(b, byte(v))
				case token.CHAR:
					s, err := strconv.Unquote(bl.Value)
					if err != nil || len(s) != 1 {
						return true
					}
					b = append(b, s[0])
				default:
					return true
				}
			}
			if len(b) >= 4 && len(b) <= 1600 {
				out = append(out, b)
			}
			return true
		})
	}
	return out
}

type fixtures struct{ arp, lo, er [][]byte }

func (f *fixtures) of(kind string) [][]byte {
	switch kind {
	case "arp":
		return f.arp
	case "loopback":
		return f.lo
	}
	return f.er
}

// harvest decodes every test literal of the repository with several first decoders (recovery on) and
// keeps the bytes (contents ++ payload) of every ARP / Loopback / ERSPANII layer found in them.
func harvest(fx *fixtures) {
	seen := map[string]bool{}
	add := func(dst *[][]byte, b []byte) {
		if len(b) > 600 {
			b = b[:600]
		}
		k := string(b)
		if !seen[k] {
			seen[k] = true
			*dst = append(*dst, append([]byte(nil), b...))
		}
	}
	firsts := []gopacket.Decoder{layers.LayerTypeEthernet, layers.LayerTypeLoopback, layers.LayerTypeRadioTap, layers.LayerTypeLinuxSLL,
		layers.LayerTypeGRE, layers.LayerTypeIPv4}
	for _, lit := range literals() {
		for _, first := range firsts {
			func() {
				defer func() { recover() }()
				p := gopacket.NewPacket(lit, first, gopacket.DecodeOptions{})
				for _, l := range p.Layers() {
					all := append(append([]byte(nil), l.LayerContents()...), l.LayerPayload()...)
					switch l.LayerType() {
					case layers.LayerTypeARP:
						add(&fx.arp, all)
					case layers.LayerTypeLoopback:
						add(&fx.lo, all)
					case layers.LayerTypeERSPANII:
						add(&fx.er, all)
					}
				}
			}()
		}
	}
}

var (
	macA = []byte{0x00, 0x1b, 0x21, 0x3c, 0xab, 0x10}
	macB = []byte{0x52, 0x54, 0x00, 0x12, 0x35, 0x02}
)

// built fixtures: packets produced by the repository's own serializers (+ hand-made byte-order variants).
func built(r *lib.Rand, fx *fixtures) {
	ser := func(ls ...gopacket.SerializableLayer) (out []byte) {
		defer func() { // a panicking serializer must not kill the generator: the executor's monitors report it
			if recover() != nil {
				out = nil
			}
		}()
		b := gopacket.NewSerializeBuffer()
		if err := gopacket.SerializeLayers(b, gopacket.SerializeOptions{FixLengths: true, ComputeChecksums: true}, ls...); err != nil {
			return nil
		}
		return append([]byte(nil), b.Bytes()...)
	}
	arp := func(op uint16, hw, pr int) *layers.ARP {
		return &layers.ARP{AddrType: layers.LinkTypeEthernet, Protocol: layers.EthernetTypeIPv4, Operation: op,
			SourceHwAddress: r.Bytes(hw), SourceProtAddress: r.Bytes(pr), DstHwAddress: r.Bytes(hw), DstProtAddress: r.Bytes(pr)}
	}
	for _, n := range []int{0, 1, 18, 33} {
		fx.arp = append(fx.arp, ser(arp(layers.ARPRequest, 6, 4), gopacket.Payload(r.Bytes(n))))
		fx.arp = append(fx.arp, ser(arp(layers.ARPReply, 6, 4), gopacket.Payload(r.Bytes(n))))
		fx.arp = append(fx.arp, ser(arp(layers.ARPRequest, 6, 16), gopacket.Payload(r.Bytes(n))))
		fx.arp = append(fx.arp, ser(arp(3, 20, 4), gopacket.Payload(r.Bytes(n)))) // InfiniBand-sized hardware addresses
		fx.arp = append(fx.arp, ser(arp(layers.ARPReply, 0, 0), gopacket.Payload(r.Bytes(n))))
		fx.arp = append(fx.arp, ser(arp(layers.ARPReply, 1, 0), gopacket.Payload(r.Bytes(n))))
		fx.arp = append(fx.arp, ser(arp(layers.ARPReply, 0, 3), gopacket.Payload(r.Bytes(n))))
	}
	fx.arp = append(fx.arp, ser(arp(9, 255, 255), gopacket.Payload(r.Bytes(5))))
	fx.arp = append(fx.arp, ser(arp(9, 255, 0)), ser(arp(9, 0, 255)), ser(arp(9, 128, 127), gopacket.Payload(r.Bytes(2))))

	ip4 := &layers.IPv4{Version: 4, IHL: 5, TTL: 64, Protocol: layers.IPProtocolUDP, SrcIP: net.IP{10, 0, 0, 1}, DstIP: net.IP{10, 0, 0, 2}}
	udp4 := &layers.UDP{SrcPort: 1000, DstPort: 2000}
	udp4.SetNetworkLayerForChecksum(ip4)
	ip6 := &layers.IPv6{Version: 6, HopLimit: 64, NextHeader: layers.IPProtocolUDP, SrcIP: net.ParseIP("fe80::1"), DstIP: net.ParseIP("fe80::2")}
	udp6 := &layers.UDP{SrcPort: 1000, DstPort: 2000}
	udp6.SetNetworkLayerForChecksum(ip6)
	for _, n := range []int{0, 1, 17} {
		v4 := ser(ip4, udp4, gopacket.Payload(r.Bytes(n)))
		v6 := ser(ip6, udp6, gopacket.Payload(r.Bytes(n)))
		fx.lo = append(fx.lo, ser(&layers.Loopback{Family: layers.ProtocolFamilyIPv4}, ip4, udp4, gopacket.Payload(r.Bytes(n))))
		fx.lo = append(fx.lo, append([]byte{0, 0, 0, 2}, v4...)) // big-endian header (DLT_LOOP)
		for _, f := range []layers.ProtocolFamily{layers.ProtocolFamilyIPv6BSD, layers.ProtocolFamilyIPv6FreeBSD, layers.ProtocolFamilyIPv6Darwin, layers.ProtocolFamilyIPv6Linux} {
			fx.lo = append(fx.lo, ser(&layers.Loopback{Family: f}, ip6, udp6, gopacket.Payload(r.Bytes(n))))
			fx.lo = append(fx.lo, append([]byte{0, 0, 0, byte(f)}, v6...))
		}
		fx.lo = append(fx.lo, append([]byte{7, 0, 0, 0}, r.Bytes(n)...), append([]byte{0, 0, 0, 0}, r.Bytes(n)...),
			append([]byte{0, 0, 0, 0xff}, r.Bytes(n)...), append([]byte{0xff, 0, 0, 0}, r.Bytes(n)...))
	}
	eth := &layers.Ethernet{SrcMAC: net.HardwareAddr(macA), DstMAC: net.HardwareAddr(macB), EthernetType: layers.EthernetTypeIPv4}
	for _, n := range []int{0, 1, 30} {
		fx.er = append(fx.er, ser(&layers.ERSPANII{Version: layers.ERSPANIIVersion, VLANIdentifier: 0x2aa, CoS: 4, TrunkEncap: 2, IsTruncated: true,
			SessionID: 0x2aa, Reserved: 0x155, Index: 0xF0F0F}, eth, ip4, udp4, gopacket.Payload(r.Bytes(n))))
		fx.er = append(fx.er, ser(&layers.ERSPANII{Version: layers.ERSPANIIVersionObsolete, VLANIdentifier: 1, SessionID: 1023, Index: 1}, eth, ip4, udp4, gopacket.Payload(r.Bytes(n))))
		fx.er = append(fx.er, ser(&layers.ERSPANII{Version: 15, VLANIdentifier: 0xfff, CoS: 7, TrunkEncap: 3, SessionID: 0, Reserved: 0xfff, Index: 0xfffff}, gopacket.Payload(r.Bytes(n))))
	}
	fx.er = append(fx.er, []byte{0x12, 0xaa, 0x96, 0xaa, 0x15, 0x5F, 0x0F, 0x0F})
}

func hx(b []byte) string { return lib.Hex(b) }

func setByte(b []byte, off int, v int) []byte {
	c := append([]byte(nil), b...)
	if off < len(c) {
		c[off] = byte(v)
	}
	return c
}

// ---------------------------------------------------------------- generator

func gen(r *lib.Rand, tier string, emit func(string)) {
	thorough := tier == "thorough"
	emit("reset")
	emit("larp pftab")

	fx := &fixtures{}
	built(r, fx)
	harvest(fx)
	for _, k := range kinds { // drop fixtures the (possibly broken) serializers could not build; never leave a kind empty
		var keep [][]byte
		for _, f := range fx.of(k) {
			if len(f) >= 4 {
				keep = append(keep, f)
			}
		}
		if len(keep) == 0 {
			keep = [][]byte{{0, 1, 8, 0, 0, 0, 0, 1, 0xaa}}
		}
		switch k {
		case "arp":
			fx.arp = keep
		case "loopback":
			fx.lo = keep
		default:
			fx.er = keep
		}
	}
	foreignOf := func(n int) []byte { return r.Bytes(n) }
	for _, k := range kinds {
		fs := fx.of(k)
		for i := len(fs) - 1; i > 0; i-- { // seeded shuffle: different seeds favour different fixtures
			j := r.Intn(i + 1)
			fs[i], fs[j] = fs[j], fs[i]
		}
	}
	lim := func(n, quick int) int {
		if !thorough && n > quick {
			return quick
		}
		return n
	}

	// A. every fixture through every decode path
	for _, k := range kinds {
		fs := fx.of(k)
		for i := 0; i < lim(len(fs), 60); i++ {
			f := fs[i]
			emit("reset")
			emit(fmt.Sprintf("larp dec %s 0 - %s", k, hx(f)))
			n := 1 + r.Intn(40)
			emit(fmt.Sprintf("larp dec %s %d %s %s", k, n, hx(foreignOf(n)), hx(f)))
			emit(fmt.Sprintf("larp pb %s %s", k, hx(f)))
			emit(fmt.Sprintf("larp pkt %s copy 0 - %s", k, hx(f)))
			emit(fmt.Sprintf("larp pkt %s nocopy %d %s %s", k, n, hx(foreignOf(n)), hx(f)))
			emit(fmt.Sprintf("larp pkt %s lazy 0 - %s", k, hx(f)))
			emit(fmt.Sprintf("larp dlp %s %s", k, hx(f)))
			emit(fmt.Sprintf("larp rtdec %s %s", k, hx(f)))
			// the same bytes as every other type of this engine
			for _, k2 := range kinds {
				if k2 != k {
					emit(fmt.Sprintf("larp dec %s %d %s %s", k2, n, hx(foreignOf(n)), hx(f)))
					emit(fmt.Sprintf("larp rtdec %s %s", k2, hx(f)))
				}
			}
		}
	}

	// B. truncations 0…len of each fixture (all for short ones, head and tail otherwise), with spare capacity
	for _, k := range kinds {
		fs := fx.of(k)
		for i := 0; i < lim(len(fs), 40); i++ {
			f := fs[i]
			emit("reset")
			for n := 0; n <= len(f); n++ {
				if !(n <= 64 || n >= len(f)-2 || (thorough && len(f) <= 600) || r.Chance(3)) {
					continue
				}
				t := f[:n]
				c := r.Intn(12)
				emit(fmt.Sprintf("larp dec %s %d %s %s", k, c, hx(foreignOf(c)), hx(t)))
				if n <= 12 || r.Chance(25) {
					emit(fmt.Sprintf("larp pb %s %s", k, hx(t)))
					emit(fmt.Sprintf("larp pkt %s nocopy %d %s %s", k, c, hx(foreignOf(c)), hx(t)))
					emit(fmt.Sprintf("larp redlp %s %s", k, hx(t)))
					emit(fmt.Sprintf("larp redec %s %s", k, hx(t)))
				}
			}
		}
	}

	// C. single-field mutations to boundary values
	// ARP: the two size bytes, relative to the bytes that follow the 8-byte header
	sizes := []int{0, 1, 2, 3, 4, 5, 6, 7, 8, 15, 16, 17, 20, 63, 64, 127, 128, 129, 254, 255}
	for i := 0; i < lim(len(fx.arp), 25); i++ {
		f := fx.arp[i]
		if len(f) < 8 {
			continue
		}
		emit("reset")
		rest := len(f) - 8
		for _, off := range []int{4, 5} {
			other := int(f[9-off])
			cand := append(append([]int(nil), sizes...), (rest-2*other)/2-1, (rest-2*other)/2, (rest-2*other)/2+1, rest/2, rest/4, rest)
			for _, v := range cand {
				if v < 0 || v > 255 {
					continue
				}
				m := setByte(f, off, v)
				c := r.Intn(9)
				emit(fmt.Sprintf("larp dec arp %d %s %s", c, hx(foreignOf(c)), hx(m)))
				emit("larp redec arp " + hx(m))
				emit("larp rtdec arp " + hx(m))
				if r.Chance(30) {
					emit("larp redlp arp " + hx(m))
					emit("larp pb arp " + hx(m))
					emit(fmt.Sprintf("larp pkt arp nocopy %d %s %s", c, hx(foreignOf(c)), hx(m)))
				}
			}
		}
		// every (hw, prot) pair on a small grid
		for _, hw := range []int{0, 1, 6, 255} {
			for _, pr := range []int{0, 4, 16, 255} {
				m := setByte(setByte(f, 4, hw), 5, pr)
				emit("larp redec arp " + hx(m))
			}
		}
	}
	// exhaustive size bytes against one 40-byte input (thorough: all 65536 pairs; quick: the region around the limit + a sample)
	{
		base := append([]byte{0, 1, 8, 0, 0, 0, 0, 1}, r.Bytes(32)...)
		emit("reset")
		for hw := 0; hw < 256; hw++ {
			for pr := 0; pr < 256; pr++ {
				if thorough || (hw+pr >= 14 && hw+pr <= 18) || (hw < 3 && pr < 3) || r.Chance(1) {
					emit("larp redec arp " + hx(setByte(setByte(base, 4, hw), 5, pr)))
				}
			}
		}
	}
	// Loopback: every 4-byte header over a byte alphabet, and each single byte exhaustively
	{
		alpha := []int{0, 1, 2, 10, 24, 28, 30, 0x7f, 0x80, 0xfe, 0xff}
		emit("reset")
		for _, a := range alpha {
			for _, b := range alpha {
				for _, c := range alpha {
					for _, d := range alpha {
						if !thorough && !r.Chance(12) && !(a+b == 0 || b+c+d == 0) {
							continue
						}
						h := []byte{byte(a), byte(b), byte(c), byte(d), 0x45, 0x00}
						emit("larp redec loopback " + hx(h))
						if r.Chance(10) {
							emit("larp rtdec loopback " + hx(h))
							emit("larp pb loopback " + hx(h))
							emit("larp redlp loopback " + hx(h))
						}
					}
				}
			}
		}
		emit("reset")
		for v := 0; v < 256; v++ {
			emit("larp redec loopback " + hx([]byte{byte(v), 0, 0, 0, 0x60}))
			emit("larp redec loopback " + hx([]byte{0, 0, 0, byte(v), 0x60}))
			emit("larp pb loopback " + hx([]byte{byte(v), 0, 0, 0, 0x60}))
			if v%16 == 2 || thorough {
				emit("larp redec loopback " + hx([]byte{0, byte(v), 0, 0}))
				emit("larp redec loopback " + hx([]byte{0, 0, byte(v), 0}))
				emit("larp redec loopback " + hx([]byte{2, byte(v), 0, 0}))
				emit("larp rtdec loopback " + hx([]byte{byte(v), 0, 0, 0, 0x60}))
			}
		}
	}
	// ERSPAN II: every value of each header byte, over two backgrounds
	for _, bg := range [][]byte{{0, 0, 0, 0, 0, 0, 0, 0, 0xde, 0xad}, {0xff, 0xff, 0xff, 0xff, 0xff, 0xff, 0xff, 0xff}, r.Bytes(11)} {
		emit("reset")
		for off := 0; off < 8; off++ {
			for v := 0; v < 256; v++ {
				if !thorough && !(v < 4 || v > 251 || v&(v-1) == 0 || r.Chance(12)) {
					continue
				}
				m := setByte(bg, off, v)
				emit("larp redec erspan2 " + hx(m))
				if thorough || r.Chance(40) {
					emit("larp rtdec erspan2 " + hx(m))
				}
			}
		}
	}

	// D. stale-state sequences: ordered pairs…quintuples into the same objects (direct and via the parser)
	nseq := 150
	if thorough {
		nseq = 3000
	}
	pick := func(k string) []byte {
		fs := fx.of(k)
		f := fs[r.Intn(len(fs))]
		switch r.Intn(8) {
		case 0:
			return f[:r.Intn(len(f)+1)] // truncated (maybe an error)
		case 1:
			if k == "arp" && len(f) >= 8 {
				return setByte(f, 4+r.Intn(2), r.Pick(sizes)) // sizes changed: often the second error path
			}
			if len(f) >= 8 {
				return f[:r.Intn(9)]
			}
			return f[:r.Intn(len(f)+1)]
		case 2:
			return f[:r.Intn(4)] // always an error
		case 3:
			return r.Bytes(r.Intn(40))
		}
		return f
	}
	for c := 0; c < nseq; c++ {
		emit("reset")
		n := 2 + r.Intn(4)
		for i := 0; i < n; i++ {
			k := kinds[r.Intn(3)]
			f := pick(k)
			if len(f) > 400 {
				f = f[:400]
			}
			emit(fmt.Sprintf("larp redec %s %s", k, hx(f)))
			emit(fmt.Sprintf("larp redlp %s %s", k, hx(f)))
		}
	}

	// E. serialisation: in-range and out-of-range layer values, all four option sets, buffer histories
	psizes := []int{0, 1, 2, 3, 17, 18, 19, 101, 1480, 1499, 1500, 1501, 1520}
	hists := []string{"fresh", "dirty165", "dirty90", "dirty255", "sized0", "sized8", "sized60", "sized3000"}
	nser := 500
	if thorough {
		nser = 15000
	}
	payloadTok := func(n int) string {
		if n > 200 && r.Chance(70) {
			return fmt.Sprintf("z%dx%02x", n, r.Intn(256))
		}
		return hx(r.Bytes(n))
	}
	alen := func() int {
		switch r.Intn(10) {
		case 0:
			return 0
		case 1:
			return r.Pick([]int{1, 4, 16, 20, 254, 255})
		case 2:
			return r.Pick([]int{256, 257, 300, 511, 512}) // beyond uint8: FixLengths wraps
		case 3:
			return r.Intn(40)
		}
		return -1
	}
	arpFields := func() string {
		hw, pr := 6, 4
		if v := alen(); v >= 0 {
			hw = v
		}
		if v := alen(); v >= 0 {
			pr = v
		}
		dhw, dpr := hw, pr
		if r.Chance(12) {
			dhw = r.Pick([]int{0, hw + 1, 6, r.Intn(30)})
		}
		if r.Chance(12) {
			dpr = r.Pick([]int{0, pr + 1, 4, r.Intn(30)})
		}
		hs, ps := hw%256, pr%256
		if r.Chance(35) { // size fields that disagree with the slices (FixLengths must repair them)
			hs, ps = r.Intn(256), r.Intn(256)
		}
		at, proto, op := 1, 0x0800, 1+r.Intn(2)
		if r.Chance(25) {
			at, proto, op = r.Intn(65536), r.Intn(65536), r.Intn(65536)
		}
		return fmt.Sprintf("%d %d %d %d %d %s %s %s %s", at, proto, hs, ps, op, hx(r.Bytes(hw)), hx(r.Bytes(pr)), hx(r.Bytes(dhw)), hx(r.Bytes(dpr)))
	}
	erFields := func() string {
		ver, vlan, cos, te, sid, res, idx := r.Intn(16), r.Intn(4096), r.Intn(8), r.Intn(4), r.Intn(1024), r.Intn(4096), r.Intn(1<<20)
		if r.Chance(25) { // out of range: silently masked by the serializer
			switch r.Intn(7) {
			case 0:
				ver = 16 + r.Intn(240)
			case 1:
				vlan = 4096 + r.Intn(61440)
			case 2:
				cos = 8 + r.Intn(248)
			case 3:
				te = 4 + r.Intn(252)
			case 4:
				sid = 1024 + r.Intn(64512)
			case 5:
				res = 4096 + r.Intn(61440)
			case 6:
				idx = 1<<20 + r.Intn(1<<30)
			}
		}
		if r.Chance(10) {
			ver, vlan, cos, te, sid, res, idx = r.Pick([]int{0, 15}), r.Pick([]int{0, 4095}), r.Pick([]int{0, 7}), r.Pick([]int{0, 3}), r.Pick([]int{0, 1023}), r.Pick([]int{0, 4095}), r.Pick([]int{0, 1<<20 - 1})
		}
		return fmt.Sprintf("%d %d %d %d %d %d %d %d", ver, vlan, cos, te, r.Intn(2), sid, res, idx)
	}
	for c := 0; c < nser; c++ {
		emit("reset")
		n := r.Pick(psizes)
		if r.Chance(25) {
			n = r.Intn(1600)
		}
		af := arpFields()
		emit(fmt.Sprintf("larp ser arp %d %d %s %s %s", r.Intn(2), r.Intn(2), hists[r.Intn(len(hists))], af, payloadTok(n)))
		if r.Chance(70) {
			emit(fmt.Sprintf("larp rt arp %s %s", af, payloadTok(n)))
		}
		fam := r.Pick([]int{0, 2, 10, 24, 28, 30, 1, 255, r.Intn(256)})
		emit(fmt.Sprintf("larp ser loopback %d %d %s %d %s", r.Intn(2), r.Intn(2), hists[r.Intn(len(hists))], fam, payloadTok(r.Pick(psizes))))
		if r.Chance(50) {
			emit(fmt.Sprintf("larp rt loopback %d %s", fam, payloadTok(r.Pick(psizes))))
		}
		ef := erFields()
		emit(fmt.Sprintf("larp ser erspan2 %d %d %s %s %s", r.Intn(2), r.Intn(2), hists[r.Intn(len(hists))], ef, payloadTok(r.Pick(psizes))))
		if r.Chance(70) {
			emit(fmt.Sprintf("larp rt erspan2 %s %s", ef, payloadTok(r.Pick(psizes))))
		}
	}
	// every Loopback family value
	emit("reset")
	for v := 0; v < 256; v++ {
		emit(fmt.Sprintf("larp rt loopback %d %s", v, hx(r.Bytes(r.Intn(4)))))
	}
	// every {fix,csum} x every history on fixed shapes
	for _, shape := range []string{
		"1 2048 6 4 1 001b213cab10 0a000001 525400123502 0a000002",   // consistent Ethernet/IPv4
		"1 2048 9 9 2 001b213cab10 0a000001 525400123502 0a000002",   // size fields disagree with the slices
		"1 2048 6 4 1 001b213cab10 0a000001 5254001235 0a000002",     // hardware address lengths differ
		"1 2048 6 4 1 001b213cab10 0a000001 525400123502 0a0000",     // protocol address lengths differ
		"65535 65535 255 255 65535 - - - -",                          // no addresses at all
	} {
		for _, n := range []int{0, 5, 1500} {
			for fix := 0; fix < 2; fix++ {
				for cs := 0; cs < 2; cs++ {
					emit("reset")
					for _, h := range hists {
						emit(fmt.Sprintf("larp ser arp %d %d %s %s %s", fix, cs, h, shape, payloadTok(n)))
					}
					emit(fmt.Sprintf("larp ser loopback %d %d %s 30 %s", fix, cs, hists[r.Intn(len(hists))], payloadTok(n)))
					emit(fmt.Sprintf("larp ser erspan2 %d %d %s 1 682 4 2 1 682 341 986895 %s", fix, cs, hists[r.Intn(len(hists))], payloadTok(n)))
				}
			}
		}
	}
	// payloads beyond 64 KiB (none of the three headers has a length field: every size is allowed)
	big := []int{65535, 65536, 65537, 70000}
	if !thorough {
		big = []int{65537}
	}
	for _, n := range big {
		emit("reset")
		emit(fmt.Sprintf("larp ser arp 1 1 dirty165 1 2048 0 0 1 001b213cab10 0a000001 525400123502 0a000002 z%dx5a", n))
		emit(fmt.Sprintf("larp rt arp 1 2048 0 0 1 001b213cab10 0a000001 525400123502 0a000002 z%dx5a", n))
		emit(fmt.Sprintf("larp rt loopback 2 z%dx5a", n))
		emit(fmt.Sprintf("larp rt erspan2 1 682 4 2 1 682 341 986895 z%dx5a", n))
	}

	// F. malformed stream: random bytes of every small length, as every type
	nmal := 300
	if thorough {
		nmal = 10000
	}
	for c := 0; c < nmal; c++ {
		emit("reset")
		n := r.Intn(40)
		if r.Chance(10) {
			n = r.Intn(1100)
		}
		d := r.Bytes(n)
		if n >= 8 && r.Chance(60) { // plausible ARP sizes
			d[4], d[5] = byte(r.Intn(12)), byte(r.Intn(12))
		}
		if n >= 4 && r.Chance(30) { // plausible loopback family
			d[0], d[1], d[2], d[3] = byte(r.Pick([]int{0, 2, 24, 30})), 0, 0, byte(r.Pick([]int{0, 0, 2, 30}))
		}
		sp := r.Intn(20)
		for _, k := range kinds {
			emit(fmt.Sprintf("larp dec %s %d %s %s", k, sp, hx(foreignOf(sp)), hx(d)))
			emit(fmt.Sprintf("larp dlp %s %s", k, hx(d)))
			emit(fmt.Sprintf("larp rtdec %s %s", k, hx(d)))
			if r.Chance(30) {
				emit(fmt.Sprintf("larp pkt %s nocopy %d %s %s", k, sp, hx(foreignOf(sp)), hx(d)))
				emit(fmt.Sprintf("larp pb %s %s", k, hx(d)))
			}
		}
	}
	// unparseable ops: both sides answer bad-op
	emit("reset")
	emit("larp dec arp x - 00")
	emit("larp dec fddi 0 - 00")
	emit("larp ser arp 1 1 fresh 1 2 3")
	emit("larp nonsense")
}
