// gp-larp: correspondence adapter + monitors for engine `larp`
// (layers/arp.go, layers/loopback.go, layers/erspan2.go: DecodeFromBytes, SerializeTo, NextLayerType,
// CanDecode, decodeARP/decodeLoopback/decodeERSPANII, and the DecodingLayerParser over these layers).
//
// Properties served: C19 (no panics), C05 (no stale state / capacity independence / packet path =
// preallocated path), C06 (round trip), C07 (serializer totality, buffer independence, idempotence).
// None of the three layers exposes a flow (C17 has no instance here).
package main

import (
	"bytes"
	"errors"
	"fmt"
	"os"
	"runtime/debug"
	"sort"
	"strings"

	"github.com/gopacket/gopacket"
	"github.com/gopacket/gopacket/layers"
	"verif/harness/lib"
)

// ---------------------------------------------------------------- state of one case

type codec interface {
	gopacket.DecodingLayer
	gopacket.SerializableLayer
}

var (
	cur     map[string]codec // objects re-used by `redec`
	pArp    *layers.ARP      // objects owned by the DecodingLayerParsers
	pLo     *layers.Loopback
	pEr     *layers.ERSPANII
	parsers map[string]*gopacket.DecodingLayerParser
)

var kinds = []string{"arp", "loopback", "erspan2"}

func newObj(kind string) codec {
	switch kind {
	case "arp":
		return &layers.ARP{}
	case "loopback":
		return &layers.Loopback{}
	case "erspan2":
		return &layers.ERSPANII{}
	}
	return nil
}

func layerTypeOf(kind string) gopacket.LayerType {
	switch kind {
	case "arp":
		return layers.LayerTypeARP
	case "loopback":
		return layers.LayerTypeLoopback
	}
	return layers.LayerTypeERSPANII
}

func reset() {
	cur = map[string]codec{}
	for _, k := range kinds {
		cur[k] = newObj(k)
	}
	newParser()
}

func newParser() {
	pArp, pLo, pEr = &layers.ARP{}, &layers.Loopback{}, &layers.ERSPANII{}
	parsers = map[string]*gopacket.DecodingLayerParser{}
	for _, k := range kinds {
		p := gopacket.NewDecodingLayerParser(layerTypeOf(k), pArp, pLo, pEr)
		p.IgnorePanic = true // let panics through (C19: "a layer parser that lets panics through")
		parsers[k] = p
	}
}

type feedback struct{ truncated bool }

func (f *feedback) SetTruncated() { f.truncated = true }

func b01(b bool) string {
	if b {
		return "1"
	}
	return "0"
}

func render(l gopacket.Layer) string {
	switch l := l.(type) {
	case *layers.ARP:
		return fmt.Sprintf("at=%d proto=%d hs=%d ps=%d op=%d shw=%s sp=%s dhw=%s dp=%s contents=%s payload=%s next=%d",
			uint16(l.AddrType), uint16(l.Protocol), l.HwAddressSize, l.ProtAddressSize, l.Operation,
			lib.Hex(l.SourceHwAddress), lib.Hex(l.SourceProtAddress), lib.Hex(l.DstHwAddress), lib.Hex(l.DstProtAddress),
			lib.Hex(l.Contents), lib.Hex(l.Payload), int(l.NextLayerType()))
	case *layers.Loopback:
		return fmt.Sprintf("family=%d contents=%s payload=%s next=%d", uint8(l.Family), lib.Hex(l.Contents), lib.Hex(l.Payload), int(l.NextLayerType()))
	case *layers.ERSPANII:
		return fmt.Sprintf("ver=%d vlan=%d cos=%d te=%d t=%s sid=%d res=%d idx=%d contents=%s payload=%s next=%d",
			l.Version, l.VLANIdentifier, l.CoS, l.TrunkEncap, b01(l.IsTruncated), l.SessionID, l.Reserved, l.Index,
			lib.Hex(l.Contents), lib.Hex(l.Payload), int(l.NextLayerType()))
	}
	return "?"
}

// differingField names the first public field (incl. Contents/Payload) in which two layers differ.
func differingField(a, b gopacket.Layer) string {
	switch x := a.(type) {
	case *layers.ARP:
		y, ok := b.(*layers.ARP)
		switch {
		case !ok:
			return "type"
		case x.AddrType != y.AddrType:
			return "AddrType"
		case x.Protocol != y.Protocol:
			return "Protocol"
		case x.HwAddressSize != y.HwAddressSize:
			return "HwAddressSize"
		case x.ProtAddressSize != y.ProtAddressSize:
			return "ProtAddressSize"
		case x.Operation != y.Operation:
			return "Operation"
		case !bytes.Equal(x.SourceHwAddress, y.SourceHwAddress):
			return "SourceHwAddress"
		case !bytes.Equal(x.SourceProtAddress, y.SourceProtAddress):
			return "SourceProtAddress"
		case !bytes.Equal(x.DstHwAddress, y.DstHwAddress):
			return "DstHwAddress"
		case !bytes.Equal(x.DstProtAddress, y.DstProtAddress):
			return "DstProtAddress"
		case !bytes.Equal(x.Contents, y.Contents):
			return "Contents"
		case !bytes.Equal(x.Payload, y.Payload):
			return "Payload"
		}
	case *layers.Loopback:
		y, ok := b.(*layers.Loopback)
		switch {
		case !ok:
			return "type"
		case x.Family != y.Family:
			return "Family"
		case !bytes.Equal(x.Contents, y.Contents):
			return "Contents"
		case !bytes.Equal(x.Payload, y.Payload):
			return "Payload"
		}
	case *layers.ERSPANII:
		y, ok := b.(*layers.ERSPANII)
		switch {
		case !ok:
			return "type"
		case x.IsTruncated != y.IsTruncated:
			return "IsTruncated"
		case x.Version != y.Version:
			return "Version"
		case x.CoS != y.CoS:
			return "CoS"
		case x.TrunkEncap != y.TrunkEncap:
			return "TrunkEncap"
		case x.VLANIdentifier != y.VLANIdentifier:
			return "VLANIdentifier"
		case x.SessionID != y.SessionID:
			return "SessionID"
		case x.Reserved != y.Reserved:
			return "Reserved"
		case x.Index != y.Index:
			return "Index"
		case !bytes.Equal(x.Contents, y.Contents):
			return "Contents"
		case !bytes.Equal(x.Payload, y.Payload):
			return "Payload"
		}
	default:
		return "type"
	}
	return ""
}

// inBuf places data at the start of a backing array with `len(foreign)` spare bytes of capacity holding
// the foreign bytes, and returns the slice data[:len] with cap = len + len(foreign).
func inBuf(data, foreign []byte) []byte {
	back := make([]byte, len(data)+len(foreign))
	copy(back, data)
	copy(back[len(data):], foreign)
	return back[:len(data)]
}

func exact(data []byte) []byte { // cap == len
	c := make([]byte, len(data))
	copy(c, data)
	return c[:len(data):len(data)]
}

func isOurSite(site string) bool {
	return strings.HasPrefix(site, "layers/arp.go") || strings.HasPrefix(site, "layers/loopback.go") ||
		strings.HasPrefix(site, "layers/erspan2.go") || strings.HasPrefix(site, "layers/base.go")
}

// protect is lib.Protect with a panic-site extraction that also works when the repository under test
// is a scratch tree (VERIF_REPO): the site is the top-most stack frame inside the repository.
var lastSite, lastMsg string

func protect(f func() string) (reply string, panicked bool) {
	defer func() {
		if v := recover(); v != nil {
			lastMsg = fmt.Sprint(v)
			lastSite = siteOf(string(debug.Stack()))
			reply = "panic " + lib.PanicKind(v)
			panicked = true
		}
	}()
	return f(), false
}

func siteOf(stack string) string {
	root := os.Getenv("VERIF_REPO")
	if root == "" {
		root = "/repo"
	}
	root = strings.TrimRight(root, "/") + "/"
	for _, l := range strings.Split(stack, "\n") {
		l = strings.TrimSpace(l)
		if !strings.Contains(l, ".go:") {
			continue
		}
		f := strings.Fields(l)[0]
		if strings.HasPrefix(f, root) {
			return f[len(root):]
		}
		if j := strings.LastIndex(f, "gopacket/"); j >= 0 && !strings.Contains(f, "/verif/") {
			return f[j+len("gopacket/"):]
		}
	}
	return "?"
}

// guarded runs f; a panic is reported as a C19 finding with its site and returned as "panic <kind>".
func guarded(what string, f func() string) string {
	reply, panicked := protect(f)
	if panicked {
		lib.Finding("C19", "larp:panic:"+lastSite, what+" panicked: "+lastMsg)
		lib.Stat("panic")
	}
	return reply
}

// ---------------------------------------------------------------- decode ops

// decInto: DecodeFromBytes into obj; the reply renders the receiver on an error too (what the failed call left).
func decInto(obj codec, data []byte) (string, error, bool) {
	fb := &feedback{}
	err := obj.DecodeFromBytes(data, fb)
	if err != nil {
		return "err trunc=" + b01(fb.truncated) + " | " + render(obj.(gopacket.Layer)), err, fb.truncated
	}
	return "ok " + render(obj.(gopacket.Layer)) + " trunc=" + b01(fb.truncated), nil, fb.truncated
}

func statDec(kind string, obj codec, err error) {
	if err != nil {
		lib.Stat(kind + ":dec:err")
		return
	}
	lib.Stat(kind + ":dec:ok")
	lib.Nontrivial()
	switch l := obj.(type) {
	case *layers.ARP:
		switch {
		case l.HwAddressSize == 6 && l.ProtAddressSize == 4:
			lib.Stat("arp:dec:eth-ipv4")
		case l.HwAddressSize == 0 && l.ProtAddressSize == 0:
			lib.Stat("arp:dec:sizes-0")
		default:
			lib.Stat("arp:dec:other-sizes")
		}
		if len(l.Payload) > 0 {
			lib.Stat("arp:dec:with-payload")
		}
	case *layers.Loopback:
		if len(l.Contents) == 4 && l.Contents[0] == 0 && l.Contents[1] == 0 && l.Family != 0 {
			lib.Stat("loopback:dec:big-endian")
		} else {
			lib.Stat("loopback:dec:little-endian")
		}
		if l.NextLayerType() != gopacket.LayerTypeZero {
			lib.Stat("loopback:dec:known-family")
		}
	case *layers.ERSPANII:
		if l.IsTruncated {
			lib.Stat("erspan2:dec:T")
		}
	}
}

func opDec(kind string, extra int, foreign, data []byte) string {
	if len(foreign) != extra || newObj(kind) == nil {
		return "bad-op"
	}
	return guarded(kind+".DecodeFromBytes", func() string {
		obj := newObj(kind)
		cur[kind] = obj
		reply, err, _ := decInto(obj, inBuf(data, foreign))
		statDec(kind, obj, err)
		if got := obj.CanDecode(); got != gopacket.LayerClass(layerTypeOf(kind)) {
			lib.Finding("C05", "larp:candecode:"+kind, "CanDecode is not the layer's own type")
		}
		// C05/C04 oracle: the same bytes in a buffer with cap == len
		ref := newObj(kind)
		refReply, _, _ := decInto(ref, exact(data))
		if reply != refReply {
			lib.Finding("C05", "larp:cap-dependent", kind+" decode depends on spare capacity / foreign bytes: "+reply+" vs "+refReply)
		}
		if extra > 0 {
			lib.Stat(kind + ":dec:spare-cap")
		}
		return reply
	})
}

func opRedec(kind string, data []byte) string {
	if newObj(kind) == nil {
		return "bad-op"
	}
	return guarded(kind+".DecodeFromBytes", func() string {
		obj := cur[kind]
		reply, err, tr := decInto(obj, exact(data))
		statDec(kind, obj, err)
		lib.Stat(kind + ":redec")
		fresh := newObj(kind)
		fb := &feedback{}
		ferr := fresh.DecodeFromBytes(exact(data), fb)
		if (ferr != nil) != (err != nil) {
			lib.Finding("C05", "larp:stale:error", kind+": reused object and fresh object disagree on the error")
		} else {
			if err == nil {
				if f := differingField(obj.(gopacket.Layer), fresh.(gopacket.Layer)); f != "" {
					lib.Finding("C05", "larp:stale:"+f, kind+"."+f+" differs between a reused and a fresh object")
				}
			}
			if fb.truncated != tr {
				lib.Finding("C05", "larp:stale:Truncated", kind+": truncation flag differs between a reused and a fresh object")
			}
		}
		return reply
	})
}

// ---------------------------------------------------------------- serialize ops

func mkBuffer(hist string) (gopacket.SerializeBuffer, bool) {
	switch {
	case hist == "fresh":
		return gopacket.NewSerializeBuffer(), true
	case strings.HasPrefix(hist, "dirty"):
		v, ok := lib.Atoi(hist[5:])
		if !ok || v < 0 || v > 255 {
			return nil, false
		}
		b := gopacket.NewSerializeBuffer()
		s, _ := b.AppendBytes(64)
		for i := range s {
			s[i] = byte(v)
		}
		s, _ = b.PrependBytes(64)
		for i := range s {
			s[i] = byte(v)
		}
		b.Clear()
		return b, true
	case strings.HasPrefix(hist, "sized"):
		n, ok := lib.Atoi(hist[5:])
		if !ok || n < 0 || n >= 100000 {
			return nil, false
		}
		return gopacket.NewSerializeBufferExpectedSize(n, n), true
	}
	return nil, false
}

func parsePayload(s string) ([]byte, bool) {
	if strings.HasPrefix(s, "z") {
		parts := strings.Split(s[1:], "x")
		if len(parts) != 2 {
			return nil, false
		}
		n, ok := lib.Atoi(parts[0])
		v, ok2 := lib.UnHex(parts[1])
		if !ok || !ok2 || len(v) != 1 || n < 0 || n > 200000 {
			return nil, false
		}
		return bytes.Repeat(v, n), true
	}
	return lib.UnHex(s)
}

func parseBool(s string) (bool, bool) {
	switch s {
	case "1":
		return true, true
	case "0":
		return false, true
	}
	return false, false
}

func atoiBelow(s string, bound int64) (int64, bool) {
	n, ok := lib.Atou(s)
	if !ok || int64(n) < 0 || int64(n) >= bound {
		return 0, false
	}
	return int64(n), true
}

func putPayload(b gopacket.SerializeBuffer, p []byte) {
	gopacket.Payload(p).SerializeTo(b, gopacket.SerializeOptions{})
}

// serOnce serialises layer l over payload p into buffer b; returns (bytes, error?) and converts a
// panic into a C07 finding.
func serOnce(l gopacket.SerializableLayer, b gopacket.SerializeBuffer, p []byte, opts gopacket.SerializeOptions) (out []byte, failed bool, panicked bool) {
	reply, pk := protect(func() string {
		putPayload(b, p)
		if err := l.SerializeTo(b, opts); err != nil {
			return "err"
		}
		return "ok"
	})
	if pk {
		lib.Finding("C07", "larp:ser-panic:"+lastSite, "SerializeTo panicked: "+lastMsg)
		return nil, false, true
	}
	if reply == "err" {
		return nil, true, false
	}
	return append([]byte(nil), b.Bytes()...), false, false
}

// serMonitors: the C07 oracles on the real code for one (layer, payload, options).
// mk must return a NEW layer object with the same public field values on every call.
func serMonitors(name string, mk func() gopacket.SerializableLayer, p []byte, opts gopacket.SerializeOptions, got []byte, gotErr bool) {
	// (a) buffer independence: fresh, dirty 0xA5 / 0x5A, pre-sized
	for _, h := range []string{"fresh", "dirty165", "dirty90", "sized7", "sized2000"} {
		b, _ := mkBuffer(h)
		out, failed, pk := serOnce(mk(), b, p, opts)
		if pk {
			return
		}
		if failed != gotErr || (!failed && !bytes.Equal(out, got)) {
			lib.Finding("C07", "larp:dirty-buffer", name+": output differs between buffer histories ("+h+")")
			return
		}
	}
	// (b) idempotence: the same (mutated) object again over the same payload
	l := mk()
	o1, f1, pk := serOnce(l, gopacket.NewSerializeBuffer(), p, opts)
	if pk {
		return
	}
	o2, f2, pk := serOnce(l, gopacket.NewSerializeBuffer(), p, opts)
	if pk {
		return
	}
	if f1 != f2 || !bytes.Equal(o1, o2) {
		what := "bytes differ"
		if f1 != f2 {
			what = fmt.Sprintf("first call error=%v, second call error=%v", f1, f2)
		}
		lib.Finding("C07", "larp:not-idempotent", name+": serialising the same layer twice differs: "+what)
	}
}

// parseArp: at proto hs ps op shw sp dhw dp
func parseArp(a []string) (func() *layers.ARP, bool) {
	if len(a) != 9 {
		return nil, false
	}
	at, ok1 := atoiBelow(a[0], 65536)
	pr, ok2 := atoiBelow(a[1], 65536)
	hs, ok3 := atoiBelow(a[2], 256)
	ps, ok4 := atoiBelow(a[3], 256)
	op, ok5 := atoiBelow(a[4], 65536)
	shw, ok6 := lib.UnHex(a[5])
	sp, ok7 := lib.UnHex(a[6])
	dhw, ok8 := lib.UnHex(a[7])
	dp, ok9 := lib.UnHex(a[8])
	if !(ok1 && ok2 && ok3 && ok4 && ok5 && ok6 && ok7 && ok8 && ok9) {
		return nil, false
	}
	cp := func(b []byte) []byte { return append([]byte{}, b...) }
	return func() *layers.ARP {
		return &layers.ARP{AddrType: layers.LinkType(at), Protocol: layers.EthernetType(pr), HwAddressSize: uint8(hs),
			ProtAddressSize: uint8(ps), Operation: uint16(op), SourceHwAddress: cp(shw), SourceProtAddress: cp(sp),
			DstHwAddress: cp(dhw), DstProtAddress: cp(dp)}
	}, true
}

// parseEr: ver vlan cos te t sid res idx
func parseEr(a []string) (func() *layers.ERSPANII, bool) {
	if len(a) != 8 {
		return nil, false
	}
	ver, ok1 := atoiBelow(a[0], 256)
	vlan, ok2 := atoiBelow(a[1], 65536)
	cos, ok3 := atoiBelow(a[2], 256)
	te, ok4 := atoiBelow(a[3], 256)
	t, ok5 := parseBool(a[4])
	sid, ok6 := atoiBelow(a[5], 65536)
	res, ok7 := atoiBelow(a[6], 65536)
	idx, ok8 := atoiBelow(a[7], 1<<32)
	if !(ok1 && ok2 && ok3 && ok4 && ok5 && ok6 && ok7 && ok8) {
		return nil, false
	}
	return func() *layers.ERSPANII {
		return &layers.ERSPANII{IsTruncated: t, Version: uint8(ver), CoS: uint8(cos), TrunkEncap: uint8(te),
			VLANIdentifier: uint16(vlan), SessionID: uint16(sid), Reserved: uint16(res), Index: uint32(idx)}
	}, true
}

func opSer(kind string, a []string) string {
	// fix csum hist <fields…> payload
	if len(a) < 5 {
		return "bad-op"
	}
	fix, ok1 := parseBool(a[0])
	csum, ok2 := parseBool(a[1])
	b, ok3 := mkBuffer(a[2])
	p, ok4 := parsePayload(a[len(a)-1])
	if !(ok1 && ok2 && ok3 && ok4) {
		return "bad-op"
	}
	fields := a[3 : len(a)-1]
	opts := gopacket.SerializeOptions{FixLengths: fix, ComputeChecksums: csum}
	var mk func() gopacket.SerializableLayer
	switch kind {
	case "arp":
		f, ok := parseArp(fields)
		if !ok {
			return "bad-op"
		}
		mk = func() gopacket.SerializableLayer { return f() }
	case "loopback":
		if len(fields) != 1 {
			return "bad-op"
		}
		fam, ok := atoiBelow(fields[0], 256)
		if !ok {
			return "bad-op"
		}
		mk = func() gopacket.SerializableLayer { return &layers.Loopback{Family: layers.ProtocolFamily(fam)} }
	case "erspan2":
		f, ok := parseEr(fields)
		if !ok {
			return "bad-op"
		}
		mk = func() gopacket.SerializableLayer { return f() }
	default:
		return "bad-op"
	}
	l := mk()
	out, failed, pk := serOnce(l, b, p, opts)
	if pk {
		return "panic " + lib.PanicKind(lastMsg)
	}
	serMonitors(kind, mk, p, opts, out, failed)
	if a[2] != "fresh" {
		lib.Stat("ser:buf:" + strings.TrimRight(a[2], "0123456789"))
	}
	lib.Stat(fmt.Sprintf("ser:opts:fix%s-csum%s", a[0], a[1]))
	tail := ""
	if arp, ok := l.(*layers.ARP); ok {
		// the receiver after the call (FixLengths mutates it, also on the second error path)
		tail = fmt.Sprintf(" hs=%d ps=%d", arp.HwAddressSize, arp.ProtAddressSize)
	}
	if failed {
		lib.Stat(kind + ":ser:err")
		return "err" + tail
	}
	lib.Stat(kind + ":ser:ok")
	lib.Nontrivial()
	return "ok bytes=" + lib.Hex(out) + tail
}

// ---------------------------------------------------------------- round trip

var rtOpts = gopacket.SerializeOptions{FixLengths: true, ComputeChecksums: true}

func copyLayer(l codec) codec {
	switch x := l.(type) {
	case *layers.ARP:
		c := *x
		cp := func(b []byte) []byte { return append([]byte{}, b...) }
		c.SourceHwAddress, c.SourceProtAddress, c.DstHwAddress, c.DstProtAddress = cp(x.SourceHwAddress), cp(x.SourceProtAddress), cp(x.DstHwAddress), cp(x.DstProtAddress)
		return &c
	case *layers.Loopback:
		c := *x
		return &c
	case *layers.ERSPANII:
		c := *x
		return &c
	}
	return nil
}

// wfExpect: is the layer inside the round-trip claim, and what must come back (the layer after FixLengths).
func wfExpect(l codec) (bool, codec) {
	w := copyLayer(l)
	switch x := w.(type) {
	case *layers.ARP:
		ok := len(x.SourceHwAddress) == len(x.DstHwAddress) && len(x.SourceHwAddress) <= 255 &&
			len(x.SourceProtAddress) == len(x.DstProtAddress) && len(x.SourceProtAddress) <= 255
		x.HwAddressSize, x.ProtAddressSize = uint8(len(x.SourceHwAddress)), uint8(len(x.SourceProtAddress))
		return ok, x
	case *layers.Loopback:
		return true, x
	case *layers.ERSPANII:
		return x.Version <= 0xF && x.VLANIdentifier <= 0xFFF && x.CoS <= 7 && x.TrunkEncap <= 3 && x.SessionID <= 0x3FF &&
			x.Reserved <= 0xFFF && x.Index <= 0xFFFFF, x
	}
	return false, nil
}

// publicDiff compares the public protocol fields only (≈ of the property: Contents/Payload are ignored).
func publicDiff(a, b codec) string {
	ca, cb := copyLayer(a), copyLayer(b)
	clear := func(c codec) {
		switch x := c.(type) {
		case *layers.ARP:
			x.BaseLayer = layers.BaseLayer{}
		case *layers.Loopback:
			x.BaseLayer = layers.BaseLayer{}
		case *layers.ERSPANII:
			x.BaseLayer = layers.BaseLayer{}
		}
	}
	clear(ca)
	clear(cb)
	return differingField(ca.(gopacket.Layer), cb.(gopacket.Layer))
}

// rt: SerializeLayers(layer, payload) with fix+csum, decode, serialise the decoded layer again.
func rt(kind string, l codec, p []byte, decoded bool) string {
	wf, want := wfExpect(l)
	buf := gopacket.NewSerializeBuffer()
	if err := gopacket.SerializeLayers(buf, rtOpts, l, gopacket.Payload(p)); err != nil {
		lib.Stat(kind + ":rt:ser-err")
		if wf {
			lib.Finding("C06", "larp:roundtrip:ser-error", kind+": serialising a well-formed layer fails")
		}
		return "ser-err"
	}
	out := append([]byte(nil), buf.Bytes()...)
	d := newObj(kind)
	dreply, derr, dtr := decInto(d, exact(out))
	again := "none"
	if derr == nil {
		buf2 := gopacket.NewSerializeBuffer()
		pl := d.(gopacket.Layer).LayerPayload()
		if err := gopacket.SerializeLayers(buf2, rtOpts, d, gopacket.Payload(pl)); err != nil {
			again = "err"
		} else if bytes.Equal(buf2.Bytes(), out) {
			again = "same"
		} else {
			again = "diff"
		}
	}
	// C06 oracle (independent statement of the property for this layer)
	if wf {
		lib.Stat(kind + ":rt:wf")
		lib.Nontrivial()
		switch {
		case derr != nil:
			lib.Finding("C06", "larp:roundtrip:error", kind+": decoding the serialised well-formed layer fails")
		case dtr:
			lib.Finding("C06", "larp:roundtrip:Truncated", kind+": truncation flag set on a round trip")
		case publicDiff(d, want) != "":
			lib.Finding("C06", "larp:roundtrip:"+publicDiff(d, want), kind+"."+publicDiff(d, want)+" changed on a round trip")
		case !bytes.Equal(d.(gopacket.Layer).LayerPayload(), p):
			lib.Finding("C06", "larp:roundtrip:Payload", kind+": payload changed on a round trip")
		case again != "same":
			lib.Finding("C06", "larp:roundtrip:reserialize", kind+": serialising the decoded layer again gives "+again)
		}
	} else if decoded {
		// every decoded layer must be inside the claim
		lib.Finding("C06", "larp:roundtrip:decoded-not-wf", kind+": a decoded layer is outside the well-formedness predicate")
	} else {
		lib.Stat(kind + ":rt:not-wf")
	}
	return "ok bytes=" + lib.Hex(out) + " | " + dreply + " | again=" + again
}

func opRt(kind string, a []string) string {
	if len(a) < 2 {
		return "bad-op"
	}
	p, ok := parsePayload(a[len(a)-1])
	if !ok {
		return "bad-op"
	}
	fields := a[:len(a)-1]
	var l codec
	switch kind {
	case "arp":
		f, ok := parseArp(fields)
		if !ok {
			return "bad-op"
		}
		l = f()
	case "loopback":
		if len(fields) != 1 {
			return "bad-op"
		}
		fam, ok := atoiBelow(fields[0], 256)
		if !ok {
			return "bad-op"
		}
		l = &layers.Loopback{Family: layers.ProtocolFamily(fam)}
	case "erspan2":
		f, ok := parseEr(fields)
		if !ok {
			return "bad-op"
		}
		l = f()
	default:
		return "bad-op"
	}
	r, pk := protect(func() string { return rt(kind, l, p, false) })
	if pk {
		lib.Finding("C07", "larp:ser-panic:"+lastSite, "round trip panicked: "+lastMsg)
	}
	return r
}

func opRtDec(kind string, data []byte) string {
	if newObj(kind) == nil {
		return "bad-op"
	}
	return guarded("decode+round trip", func() string {
		l := newObj(kind)
		if err := l.DecodeFromBytes(exact(data), &feedback{}); err != nil {
			return "dec-err"
		}
		lib.Stat(kind + ":rtdec")
		return rt(kind, l, l.(gopacket.Layer).LayerPayload(), true)
	})
}

// ---------------------------------------------------------------- tracing PacketBuilder

type tracer struct {
	acts  []string
	tail  string
	added gopacket.Layer
}

func (t *tracer) SetTruncated() { t.acts = append(t.acts, "trunc") }
func (t *tracer) AddLayer(l gopacket.Layer) {
	t.acts = append(t.acts, fmt.Sprintf("add:%d", int(l.LayerType())))
	t.added = l
}
func (t *tracer) SetLinkLayer(gopacket.LinkLayer)               { t.acts = append(t.acts, "link") }
func (t *tracer) SetNetworkLayer(gopacket.NetworkLayer)         { t.acts = append(t.acts, "net") }
func (t *tracer) SetTransportLayer(gopacket.TransportLayer)     { t.acts = append(t.acts, "transport") }
func (t *tracer) SetApplicationLayer(gopacket.ApplicationLayer) { t.acts = append(t.acts, "app") }
func (t *tracer) SetErrorLayer(gopacket.ErrorLayer)             { t.acts = append(t.acts, "errlayer") }
func (t *tracer) DumpPacketData()                               {}
func (t *tracer) DecodeOptions() *gopacket.DecodeOptions        { return &gopacket.DecodeOptions{} }
func (t *tracer) NextDecoder(next gopacket.Decoder) error {
	switch d := next.(type) {
	case layers.ProtocolFamily:
		t.tail = fmt.Sprintf("pf:%d", uint8(d))
	case layers.EthernetType:
		t.tail = fmt.Sprintf("eth:%d", uint16(d))
	case gopacket.LayerType:
		t.tail = fmt.Sprintf("lt:%d", int(d))
	case nil:
		t.tail = "nil"
	default:
		t.tail = "other"
	}
	return nil
}

func opPb(kind string, data []byte) string {
	if newObj(kind) == nil {
		return "bad-op"
	}
	dec := layerTypeOf(kind)
	return guarded("decode function of "+kind, func() string {
		t := &tracer{}
		err := dec.Decode(exact(data), t)
		tail := t.tail
		if err != nil {
			tail = "fail"
		} else if tail == "" {
			tail = "done"
		}
		acts := "-"
		if len(t.acts) > 0 {
			acts = strings.Join(t.acts, ",")
		}
		lib.Stat("pb:" + kind + ":" + strings.SplitN(tail, ":", 2)[0])
		s := "acts=" + acts + " tail=" + tail
		if t.added != nil {
			s += " | " + render(t.added)
			// C05 oracle: the layer added to the packet = a direct fresh DecodeFromBytes
			ref := newObj(kind)
			if rerr := ref.DecodeFromBytes(exact(data), &feedback{}); rerr != nil || differingField(t.added, ref.(gopacket.Layer)) != "" {
				lib.Finding("C05", "larp:pkt-differs", kind+": layer added by the registered decoder differs from a direct fresh DecodeFromBytes")
			}
			lib.Nontrivial()
		}
		return s
	})
}

// ---------------------------------------------------------------- NewPacket / DecodingLayerParser

func opPkt(kind, mode string, extra int, foreign, data []byte) string {
	if len(foreign) != extra || (mode != "copy" && mode != "nocopy" && mode != "lazy") || newObj(kind) == nil {
		return "bad-op"
	}
	first := layerTypeOf(kind)
	if len(data) == 0 {
		return "empty"
	}
	build := func(skipRecovery bool) (gopacket.Packet, []gopacket.Layer) {
		opts := gopacket.DecodeOptions{SkipDecodeRecovery: skipRecovery}
		in := exact(data)
		switch mode {
		case "nocopy":
			opts.NoCopy = true
			in = inBuf(data, foreign)
		case "lazy":
			opts.Lazy = true
		}
		p := gopacket.NewPacket(in, first, opts)
		return p, p.Layers()
	}
	var p gopacket.Packet
	var ls []gopacket.Layer
	_, panicked := protect(func() string { p, ls = build(true); return "" })
	if panicked {
		if isOurSite(lastSite) {
			lib.Finding("C19", "larp:panic:"+lastSite, "NewPacket(SkipDecodeRecovery) panicked in this layer: "+lastMsg)
			return "panic " + lib.PanicKind(lastMsg)
		}
		// a decoder of a LATER layer panicked (other engines' business): observe this layer with recovery on
		lib.Stat("pkt:later-layer-panic:" + lastSite)
		p, ls = build(false)
	}
	_ = p
	lib.Stat("pkt:" + kind + ":" + mode)
	if len(ls) == 0 || ls[0].LayerType() != first {
		return "fail"
	}
	// oracle: the first layer equals a direct fresh decode
	ref := newObj(kind)
	if err := ref.DecodeFromBytes(exact(data), &feedback{}); err != nil || differingField(ls[0], ref.(gopacket.Layer)) != "" {
		lib.Finding("C05", "larp:pkt-differs", "first layer built by NewPacket("+mode+") differs from a direct fresh DecodeFromBytes")
	}
	lib.Nontrivial()
	return "ok " + render(ls[0])
}

func opDlp(re bool, kind string, data []byte) string {
	if newObj(kind) == nil {
		return "bad-op"
	}
	if !re {
		newParser()
	}
	parser := parsers[kind]
	first := layerTypeOf(kind)
	return guarded("DecodingLayerParser.DecodeLayers", func() string {
		var decoded []gopacket.LayerType
		err := parser.DecodeLayers(exact(data), &decoded)
		code := 0
		var unsup gopacket.UnsupportedLayerType
		if errors.As(err, &unsup) {
			code = 2
		} else if err != nil {
			code = 1
		}
		ds := make([]string, len(decoded))
		for i, t := range decoded {
			ds[i] = lib.Itoa(int(t))
		}
		dec := "-"
		if len(ds) > 0 {
			dec = strings.Join(ds, ",")
		}
		lib.Stat(fmt.Sprintf("dlp:%s:layers=%d:code=%d", kind, len(decoded), code))
		if len(decoded) >= 1 {
			lib.Nontrivial()
		}
		// C05 oracle: the run equals the leading run of NewPacket's layers with equal fields
		if len(data) > 0 {
			var pl []gopacket.Layer
			var ptr bool
			_, pk := protect(func() string {
				pk := gopacket.NewPacket(exact(data), first, gopacket.DecodeOptions{})
				pl = pk.Layers()
				ptr = pk.Metadata().Truncated
				return ""
			})
			if !pk {
				objs := map[gopacket.LayerType]gopacket.Layer{layers.LayerTypeARP: pArp, layers.LayerTypeLoopback: pLo, layers.LayerTypeERSPANII: pEr}
				for i, t := range decoded {
					if i >= len(pl) || pl[i].LayerType() != t {
						lib.Finding("C05", "larp:dlp-differs", "parser run is not a prefix of the packet's layers")
						break
					}
					if f := differingField(pl[i], objs[t]); f != "" {
						lib.Finding("C05", "larp:dlp-differs", "parser's layer differs from the packet's: "+f)
					}
				}
				// the truncation flag of the run: these layers set it only together with an error, and a packet
				// accumulates flags of later layers too, so only "parser truncated => packet truncated" is demanded
				if parser.Truncated && !ptr {
					lib.Finding("C05", "larp:dlp-differs", "parser reports truncation, the packet does not")
				}
			}
		}
		return fmt.Sprintf("code=%d decoded=%s trunc=%s | %s | %s | %s", code, dec, b01(parser.Truncated), render(pArp), render(pLo), render(pEr))
	})
}

func opPfTab() string {
	type row struct{ k, v int }
	var rs []row
	for i := 0; i < 256; i++ {
		if layers.ProtocolFamilyMetadata[i].DecodeWith != nil {
			rs = append(rs, row{i, int(layers.ProtocolFamily(i).LayerType())})
		} else if layers.ProtocolFamily(i).LayerType() != gopacket.LayerTypeZero {
			rs = append(rs, row{i, -1})
		}
	}
	sort.Slice(rs, func(a, b int) bool { return rs[a].k < rs[b].k })
	var rows []string
	for _, r := range rs {
		rows = append(rows, fmt.Sprintf("%d:%d", r.k, r.v))
	}
	lib.Stat("pftab")
	return "ok " + strings.Join(rows, ",")
}

// ---------------------------------------------------------------- dispatcher

func exec(a []string) string {
	if len(a) < 2 || a[0] != "larp" {
		return "bad-op"
	}
	switch a[1] {
	case "dec":
		if len(a) != 6 {
			return "bad-op"
		}
		extra, ok1 := lib.Atoi(a[3])
		foreign, ok2 := lib.UnHex(a[4])
		data, ok3 := lib.UnHex(a[5])
		if !ok1 || !ok2 || !ok3 || extra < 0 {
			return "bad-op"
		}
		return opDec(a[2], extra, foreign, data)
	case "redec":
		if len(a) != 4 {
			return "bad-op"
		}
		data, ok := lib.UnHex(a[3])
		if !ok {
			return "bad-op"
		}
		return opRedec(a[2], data)
	case "ser":
		if len(a) < 4 {
			return "bad-op"
		}
		return opSer(a[2], a[3:])
	case "rt":
		if len(a) < 4 {
			return "bad-op"
		}
		return opRt(a[2], a[3:])
	case "rtdec":
		if len(a) != 4 {
			return "bad-op"
		}
		data, ok := lib.UnHex(a[3])
		if !ok {
			return "bad-op"
		}
		return opRtDec(a[2], data)
	case "pb":
		if len(a) != 4 {
			return "bad-op"
		}
		data, ok := lib.UnHex(a[3])
		if !ok {
			return "bad-op"
		}
		return opPb(a[2], data)
	case "pkt":
		if len(a) != 7 {
			return "bad-op"
		}
		extra, ok1 := lib.Atoi(a[4])
		foreign, ok2 := lib.UnHex(a[5])
		data, ok3 := lib.UnHex(a[6])
		if !ok1 || !ok2 || !ok3 || extra < 0 {
			return "bad-op"
		}
		return opPkt(a[2], a[3], extra, foreign, data)
	case "dlp", "redlp":
		if len(a) != 4 {
			return "bad-op"
		}
		data, ok := lib.UnHex(a[3])
		if !ok {
			return "bad-op"
		}
		return opDlp(a[1] == "redlp", a[2], data)
	case "pftab":
		if len(a) != 2 {
			return "bad-op"
		}
		return opPfTab()
	}
	return "bad-op"
}

func main() {
	reset()
	lib.Main(lib.Engine{Name: "larp", Gen: gen, Reset: reset, Exec: exec})
}
