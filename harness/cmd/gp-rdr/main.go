// gp-rdr: correspondence adapter for engine `rdr` (C20): drives the real
// tcpreader.ReaderStream with a scripted assembler goroutine (Reassembled(batch)… then
// ReassemblyComplete) and a consumer goroutine executing a program of Read/Close calls.
//
// One op per case:
//
//	rdr run <loss 0|1> deliver=<batch>|<batch>|…  prog=<op>,<op>,…
//	   batch = <slice>,<slice>,… | e (a batch with no slices)       deliver=none: no batch
//	   slice = <hex|->[^<skip>]                                      (- is an empty slice)
//	   op    = r<n> (one Read with an n-byte buffer) | d<n> (n>=1: Read(n) until io.EOF) | c (Close)
//
// reply: the results of the reads in order (<hex> | - | eof | lost | err), then
// asm=done|blocked|panic and cons=done|blocked|panic.  Real scheduling is not controlled:
// everything in the reply is schedule independent (that is what Gp.C20 proves of the model).
//
// "blocked" is decided without guessing a timeout: a stop-the-world goroutine dump
// (runtime.Stack(all)) shows each of the two goroutines either finished or parked in a channel
// operation; two goroutines parked on the stream's channels with nobody else holding them can
// never be woken.  A hard 2 s limit is the fallback (the case is then re-run once).
package main

import (
	"bytes"
	"fmt"
	"io"
	"reflect"
	"runtime"
	"strconv"
	"strings"
	"sync"
	"sync/atomic"
	"time"
	"unsafe"

	"github.com/gopacket/gopacket/tcpassembly"
	"github.com/gopacket/gopacket/tcpassembly/tcpreader"
	"verif/harness/lib"
)

type slice struct {
	b    []byte
	skip int
}
type cop struct {
	kind byte // 'r', 'd', 'c'
	n    int
}

const (
	maxBuf       = 1 << 16
	maxDrainIter = 1 << 14
)

// ---------------------------------------------------------------- parsing

func parseDeliver(s string) ([][]slice, bool) {
	if !strings.HasPrefix(s, "deliver=") {
		return nil, false
	}
	s = s[len("deliver="):]
	if s == "none" {
		return nil, true
	}
	var out [][]slice
	for _, bs := range strings.Split(s, "|") {
		if bs == "e" {
			out = append(out, []slice{})
			continue
		}
		var b []slice
		for _, ss := range strings.Split(bs, ",") {
			h, sk := ss, "0"
			if i := strings.IndexByte(ss, '^'); i >= 0 {
				h, sk = ss[:i], ss[i+1:]
			}
			by, ok := lib.UnHex(h)
			if !ok || h == "" || h != strings.ToLower(h) {
				return nil, false
			}
			k, ok := lib.Atoi(sk)
			if !ok || k < -1000000 || k > 1000000 || strings.HasPrefix(sk, "+") {
				return nil, false
			}
			b = append(b, slice{by, k})
		}
		out = append(out, b)
	}
	return out, true
}

func parseProg(s string) ([]cop, bool) {
	if !strings.HasPrefix(s, "prog=") {
		return nil, false
	}
	s = s[len("prog="):]
	if s == "none" {
		return nil, true
	}
	var out []cop
	for _, t := range strings.Split(s, ",") {
		if t == "c" {
			out = append(out, cop{'c', 0})
			continue
		}
		if len(t) < 2 || (t[0] != 'r' && t[0] != 'd') {
			return nil, false
		}
		for _, ch := range t[1:] {
			if ch < '0' || ch > '9' {
				return nil, false
			}
		}
		n, ok := lib.Atoi(t[1:])
		if !ok || n < 0 || n > maxBuf || (t[0] == 'd' && n == 0) {
			return nil, false
		}
		out = append(out, cop{t[0], n})
	}
	return out, true
}

// ---------------------------------------------------------------- one run on the real code

func gid() int64 {
	var b [64]byte
	n := runtime.Stack(b[:], false)
	f := strings.Fields(string(b[:n]))
	if len(f) >= 2 {
		id, _ := strconv.ParseInt(f[1], 10, 64)
		return id
	}
	return -1
}

// goroutine states in a consistent (stop-the-world) snapshot
const (
	gGone    = iota // finished (not in the dump)
	gChan           // parked in a channel send/receive
	gRunning        // anything else
)

var dumpBuf = make([]byte, 1<<20)

func snapshot(ids ...int64) []int {
	n := runtime.Stack(dumpBuf, true)
	for n == len(dumpBuf) && len(dumpBuf) < 1<<28 {
		dumpBuf = make([]byte, 2*len(dumpBuf))
		n = runtime.Stack(dumpBuf, true)
	}
	d := dumpBuf[:n]
	out := make([]int, len(ids))
	for i, id := range ids {
		key := []byte("goroutine " + strconv.FormatInt(id, 10) + " [")
		p := bytes.Index(d, key)
		for p > 0 && d[p-1] != '\n' {
			q := bytes.Index(d[p+1:], key)
			if q < 0 {
				p = -1
				break
			}
			p += 1 + q
		}
		if p < 0 {
			out[i] = gGone
			continue
		}
		st := d[p+len(key):]
		if bytes.HasPrefix(st, []byte("chan send")) || bytes.HasPrefix(st, []byte("chan receive")) {
			out[i] = gChan
		} else {
			out[i] = gRunning
		}
	}
	return out
}

type result struct {
	obs        []string
	asm, cons  string // done | blocked | panic | timeout
	panicSite  string
	consAt     int  // index of the op the consumer was in when it blocked (or len(prog))
	sawEOF     bool // a Read returned io.EOF
	closedCall bool // Close was entered
}

// channels of a ReaderStream, for releasing goroutines left blocked AFTER the verdict.
func streamChans(r *tcpreader.ReaderStream) (chan []tcpassembly.Reassembly, chan bool) {
	defer func() { recover() }()
	v := reflect.ValueOf(r).Elem()
	f1, f2 := v.FieldByName("reassembled"), v.FieldByName("done")
	if !f1.IsValid() || !f2.IsValid() {
		return nil, nil
	}
	re, ok1 := reflect.NewAt(f1.Type(), unsafe.Pointer(f1.UnsafeAddr())).Elem().Interface().(chan []tcpassembly.Reassembly)
	dn, ok2 := reflect.NewAt(f2.Type(), unsafe.Pointer(f2.UnsafeAddr())).Elem().Interface().(chan bool)
	if !ok1 || !ok2 {
		return nil, nil
	}
	return re, dn
}

func runOnce(loss bool, batches [][]slice, prog []cop) result {
	rs := tcpreader.NewReaderStream()
	r := &rs
	r.LossErrors = loss
	var mu sync.Mutex
	var res result
	var asmFin, consFin, asmPan, consPan atomic.Int32
	var asmG, consG atomic.Int64
	var consAt atomic.Int32
	asmDone, consDone := make(chan struct{}), make(chan struct{})
	var quit atomic.Bool // set after the verdict: goroutines being released stop recording

	go func() { // the assembler
		defer close(asmDone)
		defer func() {
			if v := recover(); v != nil {
				if !quit.Load() {
					mu.Lock()
					res.panicSite = "asm:" + fmt.Sprint(v)
					mu.Unlock()
					asmPan.Store(1)
				}
			}
			asmFin.Store(1)
		}()
		asmG.Store(gid())
		for _, b := range batches {
			rb := make([]tcpassembly.Reassembly, len(b))
			for i, s := range b {
				rb[i] = tcpassembly.Reassembly{Bytes: append([]byte{}, s.b...), Skip: s.skip}
			}
			r.Reassembled(rb)
		}
		r.ReassemblyComplete()
	}()
	go func() { // the consumer
		defer close(consDone)
		defer func() {
			if v := recover(); v != nil {
				if !quit.Load() {
					mu.Lock()
					res.panicSite = "cons:" + fmt.Sprint(v)
					mu.Unlock()
					consPan.Store(1)
				}
			}
			consFin.Store(1)
		}()
		consG.Store(gid())
		record := func(s string) {
			if quit.Load() {
				return
			}
			mu.Lock()
			res.obs = append(res.obs, s)
			mu.Unlock()
		}
		read := func(buf []byte) bool { // true when io.EOF
			for i := range buf {
				buf[i] = 0xEE
			}
			k, err := r.Read(buf)
			switch {
			case err == nil && k >= 0 && k <= len(buf):
				record(lib.Hex(buf[:k]))
			case err == io.EOF && k == 0:
				mu.Lock()
				res.sawEOF = true
				mu.Unlock()
				record("eof")
				return true
			case err == tcpreader.DataLost && k == 0:
				record("lost")
			default:
				record("err")
			}
			return false
		}
		for i, op := range prog {
			consAt.Store(int32(i))
			switch op.kind {
			case 'r':
				read(make([]byte, op.n))
			case 'd':
				buf := make([]byte, op.n)
				for it := 0; ; it++ {
					if read(buf) {
						break
					}
					if it > maxDrainIter || quit.Load() {
						record("livelock")
						break
					}
				}
			case 'c':
				mu.Lock()
				res.closedCall = true
				mu.Unlock()
				if err := r.Close(); err != nil {
					record("err")
				}
			}
		}
		consAt.Store(int32(len(prog)))
	}()

	// wait for the verdict
	deadline := time.Now().Add(2 * time.Second)
	decided := false
	var sa, sc int
	for it := 0; ; it++ {
		if asmFin.Load() == 1 && consFin.Load() == 1 {
			sa, sc, decided = gGone, gGone, true
			break
		}
		if it < 20 {
			runtime.Gosched()
			continue
		}
		ga, gc := asmG.Load(), consG.Load()
		if ga != 0 && gc != 0 {
			st := snapshot(ga, gc)
			sa, sc = st[0], st[1]
			if sa != gRunning && sc != gRunning {
				decided = true
				break
			}
		}
		if time.Now().After(deadline) {
			break
		}
		if it < 200 {
			runtime.Gosched()
		} else {
			time.Sleep(100 * time.Microsecond)
		}
	}
	name := func(st int, fin, pan *atomic.Int32) string {
		switch {
		case pan.Load() == 1:
			return "panic"
		case !decided && fin.Load() == 0:
			return "timeout"
		case st == gGone || fin.Load() == 1:
			return "done"
		default:
			return "blocked"
		}
	}
	mu.Lock()
	res.asm, res.cons = name(sa, &asmFin, &asmPan), name(sc, &consFin, &consPan)
	res.obs = append([]string(nil), res.obs...)
	res.consAt = int(consAt.Load())
	mu.Unlock()
	quit.Store(true)

	// release whatever is still parked (bookkeeping only, after the verdict)
	if res.asm != "done" && res.asm != "panic" || res.cons != "done" && res.cons != "panic" {
		re, dn := streamChans(r)
		if re != nil {
			func() {
				defer func() { recover() }()
				t := time.NewTimer(200 * time.Millisecond)
				defer t.Stop()
				aD, cD := asmDone, consDone
				for aD != nil || cD != nil {
					select {
					case <-aD:
						aD = nil
					case <-cD:
						cD = nil
					case _, ok := <-re:
						if !ok {
							re = nil
						}
					case dn <- true:
					case <-t.C:
						lib.Stat("leaked-goroutines")
						return
					}
				}
			}()
		} else {
			lib.Stat("leaked-goroutines")
		}
	}
	return res
}

// ---------------------------------------------------------------- monitors (independent oracles)

type ev struct {
	gap bool
	b   byte
}

func monitor(loss bool, batches [][]slice, prog []cop, res result, line string) {
	// the ideal transcript: for every delivered slice, a gap mark if Skip != 0 (only when loss
	// errors were asked for) followed by its bytes
	var ideal []ev
	for _, b := range batches {
		for _, s := range b {
			if loss && s.skip != 0 {
				ideal = append(ideal, ev{gap: true})
			}
			for _, c := range s.b {
				ideal = append(ideal, ev{b: c})
			}
		}
	}
	var got []ev
	eofAt, afterEOFBad, zeroRead, closedBeforeEOF := -1, false, false, false
	// which reads happened after a Close?  reconstruct by walking the program with the observations
	oi := 0
	closed := false
	walk := func(bufn int) (eof bool) {
		if oi >= len(res.obs) {
			return true
		}
		o := res.obs[oi]
		oi++
		switch o {
		case "eof":
			if eofAt < 0 {
				eofAt = oi - 1
				closedBeforeEOF = closed
			}
			return true
		case "lost":
			if eofAt >= 0 {
				afterEOFBad = true
			}
			got = append(got, ev{gap: true})
		case "err", "livelock":
			afterEOFBad = afterEOFBad || eofAt >= 0
		default:
			if eofAt >= 0 {
				afterEOFBad = true
			}
			by, _ := lib.UnHex(o)
			if len(by) == 0 && bufn > 0 {
				zeroRead = true
			}
			if len(by) > bufn {
				lib.Finding("C20", "rdr:bytes", "Read returned more bytes than the buffer holds: "+line)
			}
			for _, c := range by {
				got = append(got, ev{b: c})
			}
		}
		return false
	}
	for _, op := range prog {
		if oi >= len(res.obs) && op.kind != 'c' {
			break
		}
		switch op.kind {
		case 'r':
			walk(op.n)
		case 'd':
			for !walk(op.n) {
			}
		case 'c':
			closed = true
		}
	}
	for _, o := range res.obs {
		if o == "err" {
			lib.Finding("C20", "rdr:err", "Read/Close returned an unexpected error: "+line)
		}
		if o == "livelock" {
			lib.Finding("C20", "rdr:livelock", "reading until EOF does not end: "+line)
		}
	}
	strip := func(e []ev) []ev {
		var o []ev
		for _, x := range e {
			if !x.gap {
				o = append(o, x)
			}
		}
		return o
	}
	isPrefix := func(a, b []ev) bool {
		if len(a) > len(b) {
			return false
		}
		for i := range a {
			if a[i] != b[i] {
				return false
			}
		}
		return true
	}
	completeWanted := eofAt >= 0 && !closedBeforeEOF // EOF reached by reading: everything must have been returned
	okAll := isPrefix(got, ideal) && (!completeWanted || len(got) == len(ideal))
	if !okAll {
		gb, ib := strip(got), strip(ideal)
		if isPrefix(gb, ib) && (!completeWanted || len(gb) == len(ib)) {
			lib.Finding("C20", "rdr:loss", fmt.Sprintf("DataLost reports differ from the gaps delivered (one per non-zero Skip, before the bytes that follow it): %s -> %s", line, strings.Join(res.obs, " ")))
		} else {
			lib.Finding("C20", "rdr:bytes", fmt.Sprintf("bytes returned by Read are not the concatenation of the delivered slices: %s -> %s", line, strings.Join(res.obs, " ")))
		}
	}
	if afterEOFBad {
		lib.Finding("C20", "rdr:eof-not-sticky", "a Read after io.EOF returned something else: "+line)
	}
	if zeroRead {
		lib.Finding("C20", "rdr:zero-read", "Read into a non-empty buffer returned 0 bytes and no error: "+line)
	}
	// wedge: the assembler script always completes, so the consumer can never legitimately stay
	// blocked; the assembler may stay blocked only while delivered data is unread (no EOF seen, no Close)
	if res.asm == "panic" || res.cons == "panic" {
		site := lib.LastPanicSite
		if site == "" {
			site = "?"
		}
		lib.Finding("C20", "rdr:panic:"+strings.SplitN(res.panicSite, ":", 2)[0], "panic in "+res.panicSite+": "+line)
		return
	}
	if res.cons != "done" {
		shape := "read"
		if res.consAt < len(prog) && prog[res.consAt].kind == 'c' {
			// how much of the delivered data had been read when Close was called?
			nb := len(strip(got))
			shape = "close-after-partial-read"
			if nb == 0 && oi == 0 {
				shape = "close-first"
			} else {
				tot := 0
				for _, b := range batches {
					for _, s := range b {
						tot += len(s.b)
					}
					if tot == nb {
						shape = "close-after-read"
					}
				}
			}
		}
		lib.Finding("C20", "rdr:wedge:"+shape, fmt.Sprintf("consumer blocked forever (%s, assembler %s): %s", res.cons, res.asm, line))
	} else if res.asm != "done" && (res.sawEOF || res.closedCall) {
		lib.Finding("C20", "rdr:wedge:asm-after-end", fmt.Sprintf("assembler %s although the consumer saw EOF / closed: %s", res.asm, line))
	}
}

// ---------------------------------------------------------------- exec

func exec(a []string) string {
	if len(a) != 5 || a[0] != "rdr" || a[1] != "run" || (a[2] != "0" && a[2] != "1") {
		return "bad-op"
	}
	batches, ok1 := parseDeliver(a[3])
	prog, ok2 := parseProg(a[4])
	if !ok1 || !ok2 {
		return "bad-op"
	}
	loss := a[2] == "1"
	res := runOnce(loss, batches, prog)
	if res.asm == "timeout" || res.cons == "timeout" {
		lib.Stat("watchdog-timeout-rerun")
		time.Sleep(50 * time.Millisecond)
		res = runOnce(loss, batches, prog)
	}
	line := strings.Join(a, " ")
	monitor(loss, batches, prog, res, line)
	stats(loss, batches, prog, res)
	return strings.TrimSpace(strings.Join(res.obs, " ") + " asm=" + res.asm + " cons=" + res.cons)
}

func stats(loss bool, batches [][]slice, prog []cop, res result) {
	nbytes, gaps, empties := 0, 0, 0
	for _, b := range batches {
		if len(b) == 0 {
			empties++
		}
		for _, s := range b {
			nbytes += len(s.b)
			if s.skip != 0 {
				gaps++
			}
			if len(s.b) == 0 {
				empties++
			}
		}
	}
	closes, reads, drains := 0, 0, 0
	got := 0
	for _, o := range res.obs {
		switch o {
		case "eof":
			lib.Stat("obs:eof")
		case "lost":
			lib.Stat("obs:lost")
		case "err", "livelock":
			lib.Stat("obs:" + o)
		default:
			if o != "-" {
				got += len(o) / 2
			}
			lib.Stat("obs:data")
		}
	}
	seenRead := false
	for i, op := range prog {
		switch op.kind {
		case 'c':
			closes++
			switch {
			case closes > 1:
				lib.Stat("close:again")
			case !seenRead:
				lib.Stat("close:before-any-read")
			default:
				lib.Stat("close:after-read")
			}
			if i == len(prog)-1 {
				lib.Stat("close:last-op")
			}
		case 'r':
			reads++
			seenRead = true
			if closes > 0 {
				lib.Stat("read:after-close")
			}
		case 'd':
			drains++
			seenRead = true
		}
	}
	if closes > 0 && got > 0 && got < nbytes {
		lib.Stat("close:with-data-unread")
	}
	lib.Stat("end:asm=" + res.asm + ",cons=" + res.cons)
	if loss && gaps > 0 {
		lib.Stat("loss-errors-with-gaps")
	}
	if empties > 0 {
		lib.Stat("history:has-empty")
	}
	lib.Stat("history:batches=" + lib.Itoa(min(len(batches), 4)))
	// non-trivial: data was delivered, at least two consumer calls, and the consumer either
	// reached EOF or closed (i.e. the full hand-shake incl. completion was exercised)
	if nbytes > 0 && len(prog) >= 2 && (res.sawEOF || res.closedCall) {
		lib.Nontrivial()
	}
}

// ---------------------------------------------------------------- generator

func sliceTok(s slice) string {
	t := lib.Hex(s.b)
	if s.skip != 0 {
		t += "^" + lib.Itoa(s.skip)
	}
	return t
}

func deliverTok(bs [][]slice) string {
	if len(bs) == 0 {
		return "deliver=none"
	}
	var parts []string
	for _, b := range bs {
		if len(b) == 0 {
			parts = append(parts, "e")
			continue
		}
		var ss []string
		for _, s := range b {
			ss = append(ss, sliceTok(s))
		}
		parts = append(parts, strings.Join(ss, ","))
	}
	return "deliver=" + strings.Join(parts, "|")
}

func progTok(p []cop) string {
	if len(p) == 0 {
		return "prog=none"
	}
	var ss []string
	for _, o := range p {
		if o.kind == 'c' {
			ss = append(ss, "c")
		} else {
			ss = append(ss, string(o.kind)+lib.Itoa(o.n))
		}
	}
	return "prog=" + strings.Join(ss, ",")
}

func emitCase(emit func(string), loss int, bs [][]slice, p []cop) {
	emit("reset")
	emit(fmt.Sprintf("rdr run %d %s %s", loss, deliverTok(bs), progTok(p)))
}

// all sequences over alpha of length exactly n
func seqs[T any](alpha []T, n int, f func([]T)) {
	cur := make([]T, n)
	var rec func(i int)
	rec = func(i int) {
		if i == n {
			f(cur)
			return
		}
		for _, x := range alpha {
			cur[i] = x
			rec(i + 1)
		}
	}
	rec(0)
}

func gen(r *lib.Rand, tier string, emit func(string)) {
	// slice kinds of the exhaustive scope: empty, empty with a gap, 1 byte, 3 bytes after a gap
	kinds := []slice{{nil, 0}, {nil, 2}, {[]byte{0xa1}, 0}, {[]byte{0xb1, 0xb2, 0xb3}, -1}}
	var batchAlpha [][]slice // every batch of <= 2 slices
	for n := 0; n <= 2; n++ {
		seqs(kinds, n, func(s []slice) { batchAlpha = append(batchAlpha, append([]slice(nil), s...)) })
	}
	ops := []cop{{'r', 1}, {'r', 2}, {'r', 4096}, {'c', 0}}
	var progs [][][]cop // progs[n] = all programs of length n
	for n := 0; n <= 5; n++ {
		var ps [][]cop
		seqs(ops, n, func(p []cop) { ps = append(ps, append([]cop(nil), p...)) })
		progs = append(progs, ps)
	}
	var hist [][][][]slice // hist[n] = all histories of n batches
	for n := 0; n <= 3; n++ {
		var hs [][][]slice
		seqs(batchAlpha, n, func(h [][]slice) { hs = append(hs, append([][]slice(nil), h...)) })
		hist = append(hist, hs)
	}
	hasGap := func(h [][]slice) bool {
		for _, b := range h {
			for _, s := range b {
				if s.skip != 0 {
					return true
				}
			}
		}
		return false
	}
	// exhaustive product of program lengths <= pl with histories of <= hl batches; every `keep`-th
	// case when thinning (offset chosen by the seed); loss=1 only where it can matter
	cnt := 0
	product := func(plLo, plHi, hlLo, hlHi, keep int) {
		off := 0
		if keep > 1 {
			off = r.Intn(keep)
		}
		for hl := hlLo; hl <= hlHi; hl++ {
			for _, h := range hist[hl] {
				for pl := plLo; pl <= plHi; pl++ {
					for _, p := range progs[pl] {
						for loss := 0; loss <= 1; loss++ {
							if loss == 1 && !hasGap(h) {
								continue
							}
							cnt++
							if keep > 1 && (cnt+off)%keep != 0 {
								continue
							}
							emitCase(emit, loss, h, p)
						}
					}
				}
			}
		}
	}
	if tier == "thorough" {
		product(0, 4, 0, 2, 1) // 463 histories x 341 programs, all
		product(5, 5, 0, 2, 3) // x 1024 programs of 5 calls, every 3rd
		product(0, 3, 3, 3, 7) // 9261 histories x 85 programs, every 7th
		product(4, 5, 3, 3, 307)
	} else {
		product(0, 3, 0, 2, 1) // 463 histories x 85 programs, all
		product(4, 4, 0, 2, 3)
		product(5, 5, 0, 2, 23)
		product(0, 3, 3, 3, 37)
		product(4, 5, 3, 3, 1009)
	}
	// random: longer programs (with read-until-EOF), more batches, bigger slices, odd read sizes
	n := 20000
	if tier == "thorough" {
		n = 100000
	}
	sizes := []int{0, 1, 1, 2, 3, 4, 7, 8, 16, 4096}
	bigSizes := []int{16, 100, 4095, 4096, 4097, 5000}
	for i := 0; i < n; i++ {
		q := r.Fork()
		nb := q.Intn(7)
		var h [][]slice
		tag := byte(0)
		big := false
		for j := 0; j < nb; j++ {
			ns := q.Intn(4)
			var b []slice
			for k := 0; k < ns; k++ {
				var s slice
				if !q.Chance(30) {
					l := 1 + q.Intn(12)
					if q.Chance(4) {
						l = 4000 + q.Intn(300) // around the 4096-byte discard buffer
						big = true
					}
					s.b = make([]byte, l)
					for x := range s.b {
						tag++
						s.b[x] = tag
					}
				}
				if q.Chance(25) {
					s.skip = q.Pick([]int{-1, 1, 5, 1460})
				}
				b = append(b, s)
			}
			h = append(h, b)
		}
		np := q.Intn(9)
		var p []cop
		sz := sizes
		if big { // keep the number of Read calls (and the reply line) small
			sz = bigSizes
		}
		for j := 0; j < np; j++ {
			switch x := q.Intn(10); {
			case x < 6:
				p = append(p, cop{'r', q.Pick(sz)})
			case x < 8:
				p = append(p, cop{'c', 0})
			default:
				p = append(p, cop{'d', q.Pick(sz[1:])})
			}
		}
		emitCase(emit, q.Intn(2), h, p)
	}
	// malformed lines: both sides must answer bad-op
	for _, l := range []string{"rdr run 2 deliver=none prog=none", "rdr run 0 deliver=zz prog=c", "rdr run 0 deliver=aa prog=r", "rdr run 0 deliver=aa prog=d0",
		"rdr run 0 deliver=aa,|bb prog=c", "rdr run 0 deliver=aa prog=x1", "rdr walk", "rdr run 1 deliver=a prog=c", "rdr run 0 deliver=aa^x prog=c", "rdr run 0 prog=c deliver=aa"} {
		emit("reset")
		emit(l)
	}
}

func main() {
	lib.Main(lib.Engine{Name: "rdr", Gen: gen, Reset: func() {}, Exec: exec})
}
