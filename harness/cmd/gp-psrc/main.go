// gp-psrc: correspondence adapter for engine `psrc` (C16): drives the real
// gopacket.PacketSource (packet.go: NextPacket, packetsToChannel, Packets/PacketsCtx,
// NewPacketSource, NewZeroCopyPacketSource, ConcatFinitePacketDataSources) with scripted data
// sources whose reads are gated by a controller, so that data-source histories, consumer
// speeds and cancellation points are deterministic.
//
// Ops (see notes/psrc.md):
//
//	psrc cap
//	psrc pull   <zero 0|1> <opts> <n> <hist>
//	psrc chan   <zero 0|1> <opts> <consumer f|z|g<k>> <cancel -|pre|r<i>> <hist>
//	psrc concat <opts> <n> <hist>|<hist>|...
//
// hist = comma separated events ("-" = empty); after the scripted events every source returns
// io.EOF.  Events: p<hex>:<caplen>:<len>:<tag>  t (timeout)  e (temporary net error)
// o (other error)  T<k> terminal kind k  W<k> the same wrapped with %w  X<k> a net timeout
// error wrapping terminal kind k.   k: 0 io.EOF 1 io.ErrUnexpectedEOF 2 io.ErrNoProgress
// 3 io.ErrClosedPipe 4 io.ErrShortBuffer 5 syscall.EBADF 6 "use of closed file".
package main

import (
	"bytes"
	"context"
	"errors"
	"fmt"
	"io"
	"runtime"
	"strings"
	"syscall"
	"time"

	"github.com/gopacket/gopacket"
	"verif/harness/lib"
)

const maxData = 64

// ---------------------------------------------------------------- events

type event struct {
	tok            string
	isPkt          bool
	data           []byte
	caplen, length int
	tag            int
	err            error
	netTimeout     bool
	term           int  // -1: none
	plainTerminal  bool // T/W token (what the property calls end of input / unrecoverable)
}

type netErr struct {
	timeout, temporary bool
	wrapped            error
}

func (e *netErr) Error() string {
	if e.wrapped != nil {
		return "scripted net error: " + e.wrapped.Error()
	}
	return "scripted net error"
}
func (e *netErr) Timeout() bool   { return e.timeout }
func (e *netErr) Temporary() bool { return e.temporary }
func (e *netErr) Unwrap() error   { return e.wrapped }

func baseTerminal(k int) error {
	switch k {
	case 0:
		return io.EOF
	case 1:
		return io.ErrUnexpectedEOF
	case 2:
		return io.ErrNoProgress
	case 3:
		return io.ErrClosedPipe
	case 4:
		return io.ErrShortBuffer
	case 5:
		return syscall.EBADF
	case 6:
		return errors.New("read |0: use of closed file")
	}
	return nil
}

func parseEvent(tok string) (*event, bool) {
	ev := &event{tok: tok, term: -1}
	switch {
	case tok == "t":
		ev.err, ev.netTimeout = &netErr{timeout: true, temporary: true}, true
	case tok == "e":
		ev.err = &netErr{timeout: false, temporary: true}
	case tok == "o":
		ev.err = errors.New("scripted other error")
	case len(tok) == 2 && (tok[0] == 'T' || tok[0] == 'W' || tok[0] == 'X') && tok[1] >= '0' && tok[1] <= '6':
		k := int(tok[1] - '0')
		ev.term = k
		switch tok[0] {
		case 'T':
			ev.err, ev.plainTerminal = baseTerminal(k), true
		case 'W':
			ev.err, ev.plainTerminal = fmt.Errorf("scripted wrap: %w", baseTerminal(k)), true
		case 'X':
			ev.err, ev.netTimeout = &netErr{timeout: true, wrapped: baseTerminal(k)}, true
		}
	case strings.HasPrefix(tok, "p"):
		f := strings.Split(tok[1:], ":")
		if len(f) != 4 {
			return nil, false
		}
		d, ok := lib.UnHex(f[0])
		c, ok1 := lib.Atoi(f[1])
		l, ok2 := lib.Atoi(f[2])
		t, ok3 := lib.Atoi(f[3])
		if !ok || !ok1 || !ok2 || !ok3 || len(d) > maxData || t < 0 || t > 1<<30 {
			return nil, false
		}
		ev.isPkt, ev.data, ev.caplen, ev.length, ev.tag = true, d, c, l, t
	default:
		return nil, false
	}
	return ev, true
}

func parseHist(s string) ([]*event, bool) {
	if s == "-" {
		return nil, true
	}
	var out []*event
	for _, tok := range strings.Split(s, ",") {
		ev, ok := parseEvent(tok)
		if !ok {
			return nil, false
		}
		out = append(out, ev)
	}
	return out, true
}

func errClass(ev *event) string {
	to := "0"
	if ev.netTimeout {
		to = "1"
	}
	tm := "-"
	if ev.term >= 0 {
		tm = lib.Itoa(ev.term)
	}
	return "e:" + to + ":" + tm
}

var eofEvent = &event{tok: "T0", err: io.EOF, term: 0, plainTerminal: true}

// ---------------------------------------------------------------- scripted data sources

type source struct {
	evs   []*event
	zero  bool
	reuse bool // a plain (ReadPacketData) source that also hands out ONE reused buffer: legal, and invisible to a
	// copying decode ("a delivered packet is never altered by later reads of the data source")
	buf   [maxData]byte // the ONE buffer of a zero-copy / reusing source
	n     int           // reads started
	gated bool
	enter chan int
	rel   chan *event
	abort chan struct{}
}

func (s *source) deliver(ev *event) ([]byte, gopacket.CaptureInfo, error) {
	if !ev.isPkt {
		return nil, gopacket.CaptureInfo{}, ev.err
	}
	ci := gopacket.CaptureInfo{Timestamp: time.Unix(int64(ev.tag), 0), CaptureLength: ev.caplen, Length: ev.length,
		InterfaceIndex: ev.tag, AncillaryData: []interface{}{ev.tag}}
	if s.zero || s.reuse {
		copy(s.buf[:], ev.data)
		return s.buf[:len(ev.data)], ci, nil
	}
	return append([]byte{}, ev.data...), ci, nil
}

func (s *source) read() ([]byte, gopacket.CaptureInfo, error) {
	i := s.n
	s.n++
	if !s.gated {
		if i < len(s.evs) {
			return s.deliver(s.evs[i])
		}
		return nil, gopacket.CaptureInfo{}, io.EOF
	}
	select {
	case s.enter <- i:
	case <-s.abort:
		return nil, gopacket.CaptureInfo{}, io.EOF
	}
	select {
	case ev := <-s.rel:
		return s.deliver(ev)
	case <-s.abort:
		return nil, gopacket.CaptureInfo{}, io.EOF
	}
}

type plainSrc struct{ s *source }

func (p plainSrc) ReadPacketData() ([]byte, gopacket.CaptureInfo, error) { return p.s.read() }

type zcSrc struct{ s *source }

func (z zcSrc) ZeroCopyReadPacketData() ([]byte, gopacket.CaptureInfo, error) { return z.s.read() }

// the scripted decoder: truncated iff the first byte has its top bit set; one Payload layer.
var dec = gopacket.DecodeFunc(func(data []byte, p gopacket.PacketBuilder) error {
	if len(data) > 0 && data[0]&0x80 != 0 {
		p.SetTruncated()
	}
	return gopacket.DecodePayload.Decode(data, p)
})

func parseOpts(s string) ([]gopacket.PacketSourceOption, bool, bool) {
	var o []gopacket.PacketSourceOption
	nocopy := false
	if s == "-" {
		return o, false, true
	}
	for _, c := range s {
		switch c {
		case 'n':
			o, nocopy = append(o, gopacket.WithNoCopy(true)), true
		case 'l':
			o = append(o, gopacket.WithLazy(true))
		case 'p':
			o = append(o, gopacket.WithPool(true))
		case 's':
			o = append(o, gopacket.WithSkipDecodeRecovery(true))
		case 'd':
			o = append(o, gopacket.WithDecodeStreamsAsDatagrams(true))
		default:
			return nil, false, false
		}
	}
	return o, nocopy, true
}

func mkPS(s *source, opts []gopacket.PacketSourceOption) *gopacket.PacketSource {
	if s.zero {
		return gopacket.NewZeroCopyPacketSource(zcSrc{s}, dec, opts...)
	}
	return gopacket.NewPacketSource(plainSrc{s}, dec, opts...)
}

// ---------------------------------------------------------------- observation + oracles

type obs struct {
	pkt    gopacket.Packet
	now    []byte
	caplen int
	length int
	tag    int // -1: the three metadata carriers disagree
	trunc  bool
}

func observe(p gopacket.Packet) obs {
	p.Layers() // forces a lazy packet to decode
	md := p.Metadata()
	o := obs{pkt: p, now: append([]byte{}, p.Data()...), caplen: md.CaptureLength, length: md.Length,
		tag: md.InterfaceIndex, trunc: md.Truncated}
	if md.Timestamp.Unix() != int64(md.InterfaceIndex) || len(md.AncillaryData) != 1 || md.AncillaryData[0] != interface{}(md.InterfaceIndex) {
		o.tag = -1
	}
	return o
}

func b01(b bool) string {
	if b {
		return "1"
	}
	return "0"
}

func wantTrunc(ev *event) bool {
	return (len(ev.data) > 0 && ev.data[0]&0x80 != 0) || ev.caplen < ev.length
}

// checkPacket is the independent oracle for one delivered packet against the event it came from.
// stable: the property demands the data to be unaffected by later reads in this mode.
func checkPacket(o obs, ev *event, mode string, stable bool) {
	if !bytes.Equal(o.now, ev.data) {
		finding("C16", "psrc:data:"+mode, fmt.Sprintf("packet tag %d delivered with data %s, read was %s", ev.tag, lib.Hex(o.now), lib.Hex(ev.data)))
	}
	if stable && !bytes.Equal(o.pkt.Data(), ev.data) {
		finding("C16", "psrc:overwrite:"+mode, fmt.Sprintf("packet tag %d (data %s) reads %s after later reads of the data source", ev.tag, lib.Hex(ev.data), lib.Hex(o.pkt.Data())))
	}
	if o.caplen != ev.caplen || o.length != ev.length || o.tag != ev.tag {
		finding("C16", "psrc:meta", fmt.Sprintf("capture info of packet tag %d: got caplen=%d len=%d tag=%d", ev.tag, o.caplen, o.length, o.tag))
	}
	if o.trunc != wantTrunc(ev) {
		finding("C16", "psrc:truncated", fmt.Sprintf("packet tag %d caplen=%d len=%d data=%s: Truncated=%v", ev.tag, ev.caplen, ev.length, lib.Hex(ev.data), o.trunc))
	}
}

func pktEvents(evs []*event) []*event {
	var out []*event
	for _, e := range evs {
		if e.isPkt {
			out = append(out, e)
		}
	}
	return out
}

// ---------------------------------------------------------------- pull interface

func renderPull(o obs) string {
	return fmt.Sprintf("p:%s:%s:%d:%d:%d:%s", lib.Hex(o.now), lib.Hex(o.pkt.Data()), o.caplen, o.length, o.tag, b01(o.trunc))
}

func doPull(zero bool, optS string, n int, evs []*event) string {
	opts, nocopy, ok := parseOpts(optS)
	if !ok {
		return "bad-op"
	}
	s := &source{evs: evs, zero: zero, reuse: !zero && !nocopy}
	ps := mkPS(s, opts)
	mode := fmt.Sprintf("pull-zc%s-nocopy%s", b01(zero), b01(nocopy))
	type res struct {
		o   *obs
		ev  *event
		cls string
	}
	var rs []res
	npk, nerr := 0, 0
	for i := 0; i < n; i++ {
		ev := eofEvent
		if i < len(evs) {
			ev = evs[i]
		}
		p, err := ps.NextPacket()
		switch {
		case err != nil && p != nil:
			lib.Finding("C16", "psrc:pull-both", "NextPacket returned a packet AND an error")
			rs = append(rs, res{cls: "e:?"})
		case err != nil:
			nerr++
			cls := "e:?"
			if !ev.isPkt && err == ev.err {
				cls = errClass(ev)
			} else {
				lib.Finding("C16", "psrc:pull-err", fmt.Sprintf("read %d: data source returned %s, NextPacket returned a different result", i, ev.tok))
			}
			rs = append(rs, res{cls: cls})
		default:
			npk++
			o := observe(p)
			if !ev.isPkt {
				lib.Finding("C16", "psrc:dup", fmt.Sprintf("read %d returned error %s but NextPacket delivered a packet", i, ev.tok))
				ev = nil
			}
			rs = append(rs, res{o: &o, ev: ev})
		}
	}
	var sb strings.Builder
	sb.WriteString("ok")
	for _, r := range rs {
		sb.WriteByte(' ')
		if r.o == nil {
			sb.WriteString(r.cls)
			continue
		}
		if r.ev != nil {
			checkPacket(*r.o, r.ev, mode, !(zero && nocopy))
		}
		sb.WriteString(renderPull(*r.o))
	}
	lib.Stat("pull:" + mode)
	if npk >= 2 && nerr >= 1 {
		lib.Nontrivial()
	}
	return sb.String()
}

func doConcat(optS string, n int, hs [][]*event) string {
	opts, _, ok := parseOpts(optS)
	if !ok {
		return "bad-op"
	}
	var srcs []gopacket.PacketDataSource
	for _, evs := range hs {
		srcs = append(srcs, plainSrc{&source{evs: evs}})
	}
	ps := gopacket.NewPacketSource(gopacket.ConcatFinitePacketDataSources(srcs...), dec, opts...)
	// independent oracle: every source up to its first EOF-class token (T0/W0/X0), then EOF forever
	var want []*event
	for _, evs := range hs {
		for _, e := range evs {
			if !e.isPkt && e.term == 0 {
				break
			}
			want = append(want, e)
		}
	}
	var sb strings.Builder
	sb.WriteString("ok")
	npk := 0
	for i := 0; i < n; i++ {
		p, err := ps.NextPacket()
		sb.WriteByte(' ')
		if err != nil {
			switch {
			case i >= len(want) && err == io.EOF:
				sb.WriteString("e:0:0")
			case i < len(want) && !want[i].isPkt && err == want[i].err:
				sb.WriteString(errClass(want[i]))
			default:
				sb.WriteString("e:?")
				lib.Finding("C16", "psrc:concat", fmt.Sprintf("read %d of the concatenated source: unexpected error", i))
			}
			continue
		}
		o := observe(p)
		npk++
		if i < len(want) && want[i].isPkt {
			checkPacket(o, want[i], "concat", true)
		} else {
			lib.Finding("C16", "psrc:concat", fmt.Sprintf("read %d of the concatenated source: unexpected packet %s", i, lib.Hex(o.now)))
		}
		sb.WriteString(renderPull(o))
	}
	lib.Stat("concat")
	if npk >= 2 && len(hs) >= 2 {
		lib.Nontrivial()
	}
	return sb.String()
}

// ---------------------------------------------------------------- channel interface

var (
	hangs     int
	patience  = 1 // multiplier of the watchdog (raised for the isolated re-run of a hang)
	deferring bool
	pending   [][3]string
)

// finding reports a violation; while a channel op is running it is held back until the op's
// verdict is final (a watchdog expiry is re-run once in isolation before it counts, DESIGN §8.4).
func finding(prop, sig, what string) {
	if deferring {
		pending = append(pending, [3]string{prop, sig, what})
		return
	}
	lib.Finding(prop, sig, what)
}

func watchdog() time.Duration {
	if hangs > 20 {
		return 30 * time.Millisecond
	}
	return time.Duration(patience) * 1500 * time.Millisecond
}

func doChan(zero bool, optS, consumer, cancelS string, evs []*event) string {
	deferring, pending, patience = true, nil, 1
	r, byConstruction := doChanOnce(zero, optS, consumer, cancelS, evs)
	if r == "hang" && !byConstruction {
		lib.Stat("chan:hang-rerun")
		time.Sleep(20 * time.Millisecond)
		pending, patience = nil, 3
		r, _ = doChanOnce(zero, optS, consumer, cancelS, evs)
		patience = 1
	}
	if r == "hang" {
		hangs++
	}
	deferring = false
	for _, f := range pending {
		lib.Finding(f[0], f[1], f[2])
	}
	pending = nil
	return r
}

func waitGoroutines(baseline int, d time.Duration) bool {
	deadline := time.Now().Add(d)
	for {
		if runtime.NumGoroutine() <= baseline {
			return true
		}
		if time.Now().After(deadline) {
			return false
		}
		time.Sleep(50 * time.Microsecond)
	}
}

func doChanOnce(zero bool, optS, consumer, cancelS string, evs []*event) (string, bool) {
	opts, nocopy, ok := parseOpts(optS)
	if !ok {
		return "bad-op", false
	}
	lag := -1 // -1: stalled, 0: fast, k: stays k packets behind
	switch {
	case consumer == "f":
		lag = 0
	case consumer == "z":
	case strings.HasPrefix(consumer, "g"):
		k, ok := lib.Atoi(consumer[1:])
		if !ok || k < 1 || k > 100000 {
			return "bad-op", false
		}
		lag = k
	default:
		return "bad-op", false
	}
	cancelAt, pre := -1, false
	switch {
	case cancelS == "-":
	case cancelS == "pre":
		pre = true
	case strings.HasPrefix(cancelS, "r"):
		i, ok := lib.Atoi(cancelS[1:])
		if !ok || i < 0 {
			return "bad-op", false
		}
		cancelAt = i
	default:
		return "bad-op", false
	}
	mode := fmt.Sprintf("chan-zc%s-nocopy%s", b01(zero), b01(nocopy))

	baseline := runtime.NumGoroutine()
	s := &source{evs: evs, zero: zero, reuse: !zero && !nocopy, gated: true, enter: make(chan int), rel: make(chan *event), abort: make(chan struct{})}
	defer close(s.abort)
	ps := mkPS(s, opts)
	ctx, cancel := context.WithCancel(context.Background())
	defer cancel()
	if pre {
		cancel()
	}
	var ch chan gopacket.Packet
	if r, panicked := lib.Protect(func() string { ch = ps.PacketsCtx(ctx); return "" }); panicked {
		_ = r
		lib.Stat("chan:refused")
		if !(zero && nocopy) {
			finding("C16", "psrc:refused:"+mode, "PacketsCtx refused a combination the property allows")
		}
		return "refused", false
	}
	if zero && nocopy {
		finding("C16", "psrc:zerocopy-nocopy-not-refused", "zero-copy data source + NoCopy on the channel interface was not refused")
	}
	same := ps.Packets() == ch

	var got []obs
	cancelled := pre
	reads, relPk := 0, 0
	detCount, race := -1, false
	hang := false
	closed := false
	pendingEnter := -1

	// receive one packet that is known to have been sent (or find out that it was lost)
	recvOne := func() {
		for {
			select {
			case p, ok := <-ch:
				if !ok {
					closed = true
					return
				}
				got = append(got, observe(p))
				return
			case i := <-s.enter:
				// the producer is already in its next read: the packet was sent before that
				pendingEnter = i
				select {
				case p, ok := <-ch:
					if ok {
						got = append(got, observe(p))
					} else {
						closed = true
					}
				default: // lost
				}
				return
			case <-time.After(watchdog()):
				hang = true
				return
			}
		}
	}

	handleEnter := func(i int) {
		if cancelAt == i && !cancelled {
			detCount = len(got) + len(ch)
			full := len(ch) == cap(ch)
			cancel()
			cancelled = true
			ev := eofEvent
			if i < len(evs) {
				ev = evs[i]
			}
			race = ev.isPkt && !full
			if full {
				lib.Stat("chan:cancel-on-full-channel")
			}
		}
		ev := eofEvent
		if i < len(evs) {
			ev = evs[i]
		}
		s.rel <- ev
		reads++
		if ev.isPkt {
			relPk++
		}
	}

	tick := time.NewTicker(100 * time.Microsecond)
	defer tick.Stop()
	start := time.Now()
	// phase 1: the producer reads; the consumer follows its script
phase1:
	for !cancelled && !hang && !closed {
		var i int
		if pendingEnter >= 0 {
			i, pendingEnter = pendingEnter, -1
		} else {
			select {
			case i = <-s.enter:
			case <-tick.C:
				if runtime.NumGoroutine() <= baseline {
					break phase1 // producer goroutine is gone
				}
				if time.Since(start) > watchdog()+time.Duration(len(evs))*8*time.Millisecond {
					hang = true
				}
				continue
			}
		}
		handleEnter(i)
		if cancelled {
			break
		}
		if lag >= 0 {
			for relPk-len(got) > lag && !hang && !closed {
				before := len(got)
				recvOne()
				if len(got) == before {
					break // lost packet (or closed / hang)
				}
			}
		}
	}
	// phase 2: drain until the channel is closed.  After a cancellation the producer must leave
	// without any help from the consumer (it may be blocked on a full channel): wait for it first.
	extraReads := 0
	if cancelled && !hang && !closed {
		deadline := time.Now().Add(watchdog())
		for runtime.NumGoroutine() > baseline && !hang {
			select {
			case i := <-s.enter:
				extraReads++
				handleEnter(i)
			case <-tick.C:
				if time.Now().After(deadline) {
					hang = true
					finding("C16", "psrc:cancel-stuck", "producer goroutine did not exit after the context was cancelled (consumer not receiving)")
				}
			}
		}
	}
	for !hang && !closed {
		if pendingEnter >= 0 {
			i := pendingEnter
			pendingEnter = -1
			if cancelled {
				extraReads++
			}
			handleEnter(i)
			continue
		}
		select {
		case p, ok := <-ch:
			if !ok {
				closed = true
				break
			}
			got = append(got, observe(p))
		case i := <-s.enter:
			if cancelled {
				extraReads++
			}
			handleEnter(i)
		case <-time.After(watchdog()):
			hang = true
		}
	}
	if hang {
		lib.Stat("chan:hang")
		// is it a deadlock by construction of the script (stalled consumer, full channel, no cancel)?
		byConstruction := len(ch) == cap(ch) && !cancelled
		if !byConstruction {
			finding("C16", "psrc:not-closed", "channel not closed / producer stuck although the data source ended or the context was cancelled")
		}
		return "hang", byConstruction
	}
	leak := !waitGoroutines(baseline, 300*time.Millisecond)

	// ---- oracles (independent of the Lean model) ----
	pk := pktEvents(evs)
	// identify received packets by tag
	idx := map[int]int{}
	for k, e := range pk {
		idx[e.tag] = k
	}
	seen := map[int]bool{}
	last := -1
	for _, o := range got {
		k, ok := idx[o.tag]
		if !ok {
			finding("C16", "psrc:meta", "received a packet whose capture info matches no read")
			continue
		}
		if seen[k] {
			finding("C16", "psrc:dup", fmt.Sprintf("packet tag %d received twice", o.tag))
		}
		seen[k] = true
		if k < last {
			finding("C16", "psrc:order", fmt.Sprintf("packet tag %d received after a later one", o.tag))
		}
		if k > last {
			last = k
		}
		checkPacket(o, pk[k], mode, true)
	}
	// expected delivery: the packets before the first plain terminal event (histories with an
	// X token — a timeout that wraps a terminal error — are judged for order/dup/prefix only)
	hasX := false
	var before []*event
	for _, e := range evs {
		if !e.isPkt && e.netTimeout && e.term >= 0 {
			hasX = true
		}
	}
	for _, e := range evs {
		if e.plainTerminal {
			break
		}
		if e.isPkt {
			before = append(before, e)
		}
	}
	if !hasX {
		if !cancelled {
			for k := range before {
				if !seen[k] {
					finding("C16", "psrc:loss", fmt.Sprintf("packet tag %d read before end of input was never delivered", before[k].tag))
				}
			}
			if len(got) > len(before) {
				finding("C16", "psrc:past-eof", "packets delivered that were read after the terminal error")
			}
		} else if cancelAt >= 0 {
			for k := 0; k < detCount && k < len(pk); k++ {
				if !seen[k] {
					finding("C16", "psrc:loss", fmt.Sprintf("packet tag %d sent before cancellation was never delivered", pk[k].tag))
				}
			}
			if len(got) > detCount+1 {
				finding("C16", "psrc:read-after-cancel", "more than one packet delivered after cancellation")
			}
		}
	}
	if cancelled && (extraReads > 0 || (cancelAt >= 0 && reads > cancelAt+1) || (pre && reads > 0)) {
		finding("C16", "psrc:read-after-cancel", fmt.Sprintf("the producer started %d data-source read(s) after the context was cancelled", reads))
	}
	if leak {
		finding("C16", "psrc:leak", "producer goroutine still alive after the channel was closed")
	}
	if !same {
		finding("C16", "psrc:second-channel", "second Packets() call returned a different channel")
	}

	// ---- stats ----
	lib.Stat("chan:" + mode)
	lib.Stat("chan:consumer-" + consumer[:1])
	switch {
	case pre:
		lib.Stat("chan:cancel-pre")
	case cancelAt >= 0 && detCount >= 0:
		lib.Stat("chan:cancel-in-read")
		if race {
			lib.Stat("chan:cancel-select-race")
			if len(got) > detCount {
				lib.Stat("chan:cancel-race-sent")
			} else {
				lib.Stat("chan:cancel-race-dropped")
			}
		}
	case cancelAt >= 0:
		lib.Stat("chan:cancel-never-reached")
	default:
		lib.Stat("chan:no-cancel")
	}
	nerr := 0
	for i, e := range evs {
		if i < reads && !e.isPkt {
			nerr++
			lib.Stat("ev:" + e.tok[:1])
		}
	}
	if len(got) >= 2 && (nerr >= 1 || cancelled || lag != 0) {
		lib.Nontrivial()
	}

	// ---- canonical reply ----
	show := got
	if race && len(show) > detCount {
		show = show[:detCount]
	}
	var sb strings.Builder
	sb.WriteString("ok recv=")
	if len(show) == 0 {
		sb.WriteString("none")
	}
	for k, o := range show {
		if k > 0 {
			sb.WriteByte(',')
		}
		fmt.Fprintf(&sb, "%s:%d:%d:%d:%s", lib.Hex(o.pkt.Data()), o.caplen, o.length, o.tag, b01(o.trunc))
	}
	fmt.Fprintf(&sb, " closed=%s leak=%s reads=%d same=%s race=%s", b01(closed), b01(leak), reads, b01(same), b01(race))
	return sb.String(), false
}

// ---------------------------------------------------------------- exec

func exec(a []string) string {
	if len(a) < 2 || a[0] != "psrc" {
		return "bad-op"
	}
	switch a[1] {
	case "cap":
		if len(a) != 2 {
			return "bad-op"
		}
		baseline := runtime.NumGoroutine()
		ps := gopacket.NewPacketSource(plainSrc{&source{}}, dec)
		ch := ps.Packets()
		c := cap(ch)
		for range ch {
		}
		waitGoroutines(baseline, 300*time.Millisecond)
		lib.Stat("cap")
		return "ok " + lib.Itoa(c)
	case "pull":
		if len(a) != 6 || (a[2] != "0" && a[2] != "1") {
			return "bad-op"
		}
		n, ok := lib.Atoi(a[4])
		evs, ok2 := parseHist(a[5])
		if !ok || !ok2 || n < 0 || n > 5000 {
			return "bad-op"
		}
		return doPull(a[2] == "1", a[3], n, evs)
	case "chan":
		if len(a) != 7 || (a[2] != "0" && a[2] != "1") {
			return "bad-op"
		}
		evs, ok := parseHist(a[6])
		if !ok {
			return "bad-op"
		}
		return doChan(a[2] == "1", a[3], a[4], a[5], evs)
	case "concat":
		if len(a) != 5 {
			return "bad-op"
		}
		n, ok := lib.Atoi(a[3])
		if !ok || n < 0 || n > 5000 {
			return "bad-op"
		}
		var hs [][]*event
		for _, h := range strings.Split(a[4], "|") {
			evs, ok := parseHist(h)
			if !ok {
				return "bad-op"
			}
			hs = append(hs, evs)
		}
		return doConcat(a[2], n, hs)
	}
	return "bad-op"
}

func main() {
	lib.Main(lib.Engine{Name: "psrc", Gen: gen, Reset: func() {}, Exec: exec})
}
