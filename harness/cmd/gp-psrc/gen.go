package main

import (
	"fmt"
	"strings"

	"verif/harness/lib"
)

// ---------------------------------------------------------------- generator
//
// Every case is `reset` + one op.  Packets carry tag = position+1 (unique within a case) so that
// the monitors can identify them independently of their data.

type sym struct {
	kind string // "p" or an error token
	data string // hex
	cap  int
	len  int
}

func renderHist(syms []sym) string {
	if len(syms) == 0 {
		return "-"
	}
	var parts []string
	for i, s := range syms {
		if s.kind == "p" {
			parts = append(parts, fmt.Sprintf("p%s:%d:%d:%d", s.data, s.cap, s.len, i+1))
		} else {
			parts = append(parts, s.kind)
		}
	}
	return strings.Join(parts, ",")
}

var (
	pA      = sym{"p", "aaaa", 2, 2}     // plain
	pB      = sym{"p", "010203", 3, 9}   // truncated by caplen < len
	pC      = sym{"p", "80ff", 2, 2}     // truncated by the decoder
	pD      = sym{"p", "bb", 1, 1}       // shorter than its predecessor (stale tail in a reused buffer)
	pE      = sym{"p", "-", 0, 0}        // empty
	pF      = sym{"p", "7f00ccdd", 9, 4} // caplen > len
	optsAll = []string{"-", "n", "l", "p", "nl", "lp", "sd", "nsd"}
)

func randPkt(r *lib.Rand) sym {
	switch r.Intn(10) {
	case 0:
		return pB
	case 1:
		return pC
	case 2:
		return pD
	case 3:
		return pE
	case 4:
		return pF
	}
	n := 1 + r.Intn(6)
	if r.Chance(5) {
		n = maxData
	}
	d := r.Bytes(n)
	c, l := n, n
	switch r.Intn(6) {
	case 0:
		l = n + 1 + r.Intn(100)
	case 1:
		c = n + r.Intn(3)
		l = r.Intn(n + 3)
	}
	return sym{"p", lib.Hex(d), c, l}
}

func randErr(r *lib.Rand) sym {
	switch r.Intn(12) {
	case 0, 1, 2:
		return sym{kind: "t"}
	case 3, 4:
		return sym{kind: "e"}
	case 5, 6:
		return sym{kind: "o"}
	case 7, 8:
		return sym{kind: fmt.Sprintf("T%d", r.Intn(7))}
	case 9:
		return sym{kind: fmt.Sprintf("W%d", r.Intn(7))}
	default:
		return sym{kind: fmt.Sprintf("X%d", r.Intn(7))}
	}
}

func randHist(r *lib.Rand, n int) []sym {
	out := make([]sym, n)
	for i := range out {
		if r.Chance(60) {
			out[i] = randPkt(r)
		} else {
			out[i] = randErr(r)
		}
	}
	return out
}

func randConsumer(r *lib.Rand) string {
	switch r.Intn(5) {
	case 0, 1:
		return "f"
	case 2:
		return "z"
	default:
		return fmt.Sprintf("g%d", 1+r.Intn(3))
	}
}

func randCancel(r *lib.Rand, n int) string {
	switch r.Intn(10) {
	case 0:
		return "pre"
	case 1, 2, 3, 4:
		return fmt.Sprintf("r%d", r.Intn(n+2))
	}
	return "-"
}

func emitChan(emit func(string), zero int, opts, consumer, cancel string, h []sym) {
	emit("reset")
	emit(fmt.Sprintf("psrc chan %d %s %s %s %s", zero, opts, consumer, cancel, renderHist(h)))
}

func emitPull(emit func(string), zero int, opts string, n int, h []sym) {
	emit("reset")
	emit(fmt.Sprintf("psrc pull %d %s %d %s", zero, opts, n, renderHist(h)))
}

func repeatPkts(n int) []sym {
	out := make([]sym, n)
	for i := range out {
		out[i] = sym{"p", fmt.Sprintf("%04x", i&0x7fff), 2, 2}
	}
	return out
}

func gen(r *lib.Rand, tier string, emit func(string)) {
	thorough := tier == "thorough"
	emit("reset")
	emit("psrc cap")

	// 0. fixed scenarios: the zero-copy guard (DESIGN §7), pre-cancelled context, every cancel point
	abc := []sym{{"p", "aaaa", 2, 2}, {"p", "bbbb", 2, 2}, {"p", "cccc", 2, 2}}
	for _, zero := range []int{0, 1} {
		for _, o := range optsAll {
			for _, c := range []string{"f", "z", "g1"} {
				emitChan(emit, zero, o, c, "-", abc)
			}
			emitPull(emit, zero, o, 4, abc)
			emitChan(emit, zero, o, "f", "pre", abc)
		}
	}
	mix := []sym{pA, {kind: "t"}, pB, {kind: "e"}, pC, {kind: "o"}, pD, {kind: "T0"}, pA}
	for i := 0; i <= len(mix); i++ {
		for _, c := range []string{"f", "z", "g2"} {
			emitChan(emit, i%2, "-", c, fmt.Sprintf("r%d", i), mix)
		}
	}
	// every terminal kind, plain / wrapped / inside a timeout
	for k := 0; k < 7; k++ {
		for _, w := range []string{"T", "W", "X"} {
			h := []sym{pA, {kind: fmt.Sprintf("%s%d", w, k)}, pD}
			emitChan(emit, k%2, "-", "f", "-", h)
			emitChan(emit, 1-k%2, "l", "z", "-", h)
			emitPull(emit, k%2, "n", 4, h)
		}
	}

	// 1. exhaustive small scope over a 9-symbol alphabet
	alpha := []sym{pA, pB, pC, {kind: "t"}, {kind: "e"}, {kind: "o"}, {kind: "T0"}, {kind: "T3"}, {kind: "X0"}}
	depth := 3
	for d := 0; d <= depth; d++ {
		idx := make([]int, d)
		for {
			h := make([]sym, d)
			for i, k := range idx {
				h[i] = alpha[k]
			}
			nconf := 2
			if thorough {
				nconf = 6
			}
			if d <= 2 {
				nconf *= 3
			}
			for c := 0; c < nconf; c++ {
				emitChan(emit, r.Intn(2), optsAll[r.Intn(len(optsAll))], randConsumer(r), randCancel(r, d), h)
			}
			emitPull(emit, r.Intn(2), optsAll[r.Intn(len(optsAll))], d+1, h)
			i := d - 1
			for i >= 0 {
				idx[i]++
				if idx[i] < len(alpha) {
					break
				}
				idx[i] = 0
				i--
			}
			if i < 0 {
				break
			}
		}
	}

	// 2. random histories of length 4..6 (quick) / 4..12 (thorough)
	nrand, maxl := 700, 6
	if thorough {
		nrand, maxl = 9000, 12
	}
	for c := 0; c < nrand; c++ {
		h := randHist(r, 4+r.Intn(maxl-3))
		switch r.Intn(8) {
		case 0, 1:
			emitPull(emit, r.Intn(2), optsAll[r.Intn(len(optsAll))], r.Intn(len(h)+3), h)
		case 2:
			// concat: split the history into 1..4 finite sources
			var parts []string
			rest := h
			for len(rest) > 0 && len(parts) < 3 {
				k := r.Intn(len(rest) + 1)
				parts = append(parts, renderHistTags(rest[:k], len(h)-len(rest)))
				rest = rest[k:]
			}
			parts = append(parts, renderHistTags(rest, len(h)-len(rest)))
			emit("reset")
			emit(fmt.Sprintf("psrc concat %s %d %s", optsAll[r.Intn(len(optsAll))], r.Intn(len(h)+3), strings.Join(parts, "|")))
		default:
			emitChan(emit, r.Intn(2), optsAll[r.Intn(len(optsAll))], randConsumer(r), randCancel(r, len(h)), h)
		}
	}

	// 3. the 1000-slot buffer: fill it exactly, overflow it with a lagging consumer, cancel a
	//    producer blocked on the full channel with a stalled consumer
	capN := 1000
	emitChan(emit, 0, "-", "z", "-", repeatPkts(capN))
	emitChan(emit, 1, "-", "z", fmt.Sprintf("r%d", capN), repeatPkts(capN+1))
	emitChan(emit, 0, "n", "z", fmt.Sprintf("r%d", capN), append(repeatPkts(capN+1), sym{kind: "t"}, pA))
	emitChan(emit, 1, "l", "g3", "-", repeatPkts(capN+200))
	emitChan(emit, 0, "-", "f", fmt.Sprintf("r%d", capN+5), repeatPkts(capN+10))
	emitChan(emit, 0, "-", fmt.Sprintf("g%d", capN-1), "-", repeatPkts(capN+3))
	if thorough {
		for k := 0; k < 6; k++ {
			n := capN - 2 + r.Intn(5)
			h := repeatPkts(n)
			for j := 0; j < 3; j++ {
				h[r.Intn(len(h))] = randErr(r)
			}
			cancelS := "-"
			if n > capN {
				cancelS = fmt.Sprintf("r%d", capN+3) // may never be reached: see rule
			}
			emitChan(emit, k%2, optsAll[r.Intn(len(optsAll))], fmt.Sprintf("g%d", 1+r.Intn(5)), cancelS, h)
		}
	}
}

func renderHistTags(syms []sym, base int) string {
	if len(syms) == 0 {
		return "-"
	}
	var parts []string
	for i, s := range syms {
		if s.kind == "p" {
			parts = append(parts, fmt.Sprintf("p%s:%d:%d:%d", s.data, s.cap, s.len, base+i+1))
		} else {
			parts = append(parts, s.kind)
		}
	}
	return strings.Join(parts, ",")
}
