package main

import (
	"encoding/hex"
	"fmt"
	"os"
	"path/filepath"
	"regexp"
	"sort"
	"strconv"
	"strings"

	"github.com/gopacket/gopacket"
	"github.com/gopacket/gopacket/layers"
	"verif/harness/lib"
)

// ---------------------------------------------------------------- fixtures

var (
	reLit = regexp.MustCompile(`(?s)\[\]byte\{([^{}]*)\}`)
	reNum = regexp.MustCompile(`0[xX][0-9a-fA-F]{1,2}|\b[0-9]{1,3}\b`)
	reHex = regexp.MustCompile(`"(4[5-9a-fA-F][0-9a-fA-F]{38,})"`)
)

func ipv4Of(lit []byte) []byte {
	var out []byte
	lib.Protect(func() string {
		for _, first := range []gopacket.LayerType{layers.LayerTypeEthernet, layers.LayerTypeIPv4} {
			if first == layers.LayerTypeIPv4 && (len(lit) < 20 || lit[0]>>4 != 4) {
				continue
			}
			p := gopacket.NewPacket(lit, first, gopacket.Default)
			if l := p.Layer(layers.LayerTypeIPv4); l != nil {
				ip := l.(*layers.IPv4)
				if len(ip.Contents) >= 20 {
					out = append(append([]byte(nil), ip.Contents...), ip.Payload...)
					return ""
				}
			}
		}
		return ""
	})
	return out
}

// harvest []byte literals / hex strings holding IPv4 packets from the repository's own tests.
func harvest() [][]byte {
	repo := os.Getenv("VERIF_REPO")
	if repo == "" {
		repo = "/repo"
	}
	files, _ := filepath.Glob(filepath.Join(repo, "layers", "*_test.go"))
	sort.Strings(files)
	seen := map[string]bool{}
	var out [][]byte
	add := func(b []byte) {
		if len(b) >= 20 && len(b) <= 1600 && !seen[string(b)] {
			seen[string(b)] = true
			out = append(out, b)
		}
	}
	for _, f := range files {
		src, err := os.ReadFile(f)
		if err != nil {
			continue
		}
		for _, m := range reLit.FindAllSubmatch(src, -1) {
			body := regexp.MustCompile(`//[^\n]*`).ReplaceAll(m[1], nil)
			var lit []byte
			for _, t := range reNum.FindAll(body, -1) {
				v, err := strconv.ParseUint(string(t), 0, 8)
				if err != nil {
					lit = nil
					break
				}
				lit = append(lit, byte(v))
			}
			if len(lit) >= 20 {
				if ip := ipv4Of(lit); ip != nil {
					add(ip)
				}
			}
		}
		if strings.HasSuffix(f, "ip4_test.go") {
			for _, m := range reHex.FindAllSubmatch(src, -1) {
				if b, err := hex.DecodeString(string(m[1])); err == nil {
					add(b)
				}
			}
		}
	}
	return out
}

func mustSer(ls ...gopacket.SerializableLayer) []byte {
	buf := gopacket.NewSerializeBuffer()
	if err := gopacket.SerializeLayers(buf, gopacket.SerializeOptions{FixLengths: true, ComputeChecksums: true}, ls...); err != nil {
		return nil
	}
	return append([]byte(nil), buf.Bytes()...)
}

// packets built with the repository's own serialisers
func built() [][]byte {
	src, dst := []byte{10, 0, 0, 1}, []byte{192, 168, 1, 77}
	var out [][]byte
	ip := func(proto layers.IPProtocol, opts []layers.IPv4Option, flags layers.IPv4Flag, off uint16) *layers.IPv4 {
		return &layers.IPv4{Version: 4, TOS: 0x10, Id: 0x1234, Flags: flags, FragOffset: off, TTL: 64, Protocol: proto, SrcIP: src, DstIP: dst, Options: opts}
	}
	udp := &layers.UDP{SrcPort: 1000, DstPort: 2000}
	i1 := ip(layers.IPProtocolUDP, nil, layers.IPv4DontFragment, 0)
	udp.SetNetworkLayerForChecksum(i1)
	out = append(out, mustSer(i1, udp, gopacket.Payload([]byte("hello"))))
	tcp := &layers.TCP{SrcPort: 80, DstPort: 4242, Seq: 1, SYN: true, Window: 512}
	i2 := ip(layers.IPProtocolTCP, []layers.IPv4Option{{OptionType: 1, OptionLength: 1}, {OptionType: 7, OptionLength: 7, OptionData: []byte{4, 1, 2, 3, 4}}}, 0, 0)
	tcp.SetNetworkLayerForChecksum(i2)
	out = append(out, mustSer(i2, tcp))
	out = append(out, mustSer(ip(layers.IPProtocolICMPv4, []layers.IPv4Option{{OptionType: 0x94, OptionLength: 4, OptionData: []byte{0, 0}}}, 0, 0),
		&layers.ICMPv4{TypeCode: layers.CreateICMPv4TypeCode(8, 0), Id: 1, Seq: 1}, gopacket.Payload([]byte{1, 2, 3})))
	out = append(out, mustSer(ip(layers.IPProtocolUDP, nil, layers.IPv4MoreFragments, 0), gopacket.Payload([]byte{1, 2, 3, 4, 5, 6, 7, 8})))
	out = append(out, mustSer(ip(layers.IPProtocolUDP, nil, 0, 185), gopacket.Payload([]byte{9, 9, 9})))
	out = append(out, mustSer(ip(layers.IPProtocolUDP, []layers.IPv4Option{{OptionType: 0x83, OptionLength: 11, OptionData: []byte{4, 1, 1, 1, 1, 2, 2, 2, 2}}, {OptionType: 0, OptionLength: 1}}, 0, 0), gopacket.Payload([]byte{7})))
	var res [][]byte
	for _, b := range out {
		if b != nil {
			res = append(res, b)
		}
	}
	return res
}

// ---------------------------------------------------------------- emit helpers

type emitter struct {
	emit func(string)
	r    *lib.Rand
}

func (e *emitter) cas(lines ...string) {
	e.emit("reset")
	for _, l := range lines {
		e.emit(l)
	}
}

func decLine(op string, d, foreign []byte) string {
	return fmt.Sprintf("lip4 %s %d %s %s", op, len(foreign), lib.Hex(foreign), lib.Hex(d))
}

func (e *emitter) foreign() []byte {
	switch e.r.Intn(4) {
	case 0:
		return nil
	case 1:
		return []byte{0xee}
	default:
		return e.r.Bytes(1 + e.r.Intn(48))
	}
}

// all ops that take one packet
func (e *emitter) allOps(d []byte) {
	h := lib.Hex(d)
	e.cas(decLine("dec", d, nil), decLine("dec", d, e.r.Bytes(1+e.r.Intn(40))), "lip4 dlp "+h,
		fmt.Sprintf("lip4 np 0 0 - %s", h), fmt.Sprintf("lip4 np 1 %s", strings.TrimPrefix(decLine("x", d, e.r.Bytes(8)), "lip4 x ")),
		"lip4 next "+h, "lip4 flow "+h, "lip4 vc "+h, "lip4 rtd "+h)
}

func (e *emitter) decOnly(d []byte) {
	e.cas(decLine("dec", d, e.foreign()), "lip4 rtd "+lib.Hex(d))
}

func hdrLen(d []byte) int {
	if len(d) == 0 {
		return 0
	}
	n := int(d[0]&15) * 4
	if n < 20 {
		n = 20
	}
	if n > len(d) {
		n = len(d)
	}
	return n
}

func setLen(d []byte, n int) []byte {
	c := append([]byte(nil), d...)
	c[2], c[3] = byte(n>>8), byte(n)
	return c
}

// header with the given option area (multiple of 4 bytes), payload p
func withOptions(area, p []byte) []byte {
	ihl := 5 + len(area)/4
	h := []byte{byte(0x40 | ihl&15), 0, 0, 0, 0xab, 0xcd, 0, 0, 63, 17, 0, 0, 1, 2, 3, 4, 5, 6, 7, 8}
	h = append(h, area...)
	h = append(h, p...)
	return setLen(h, len(h))
}

// ---------------------------------------------------------------- random structured option lists

func (e *emitter) randOption(malformed bool) []byte {
	r := e.r
	switch k := r.Intn(10); {
	case k == 0:
		return []byte{0}
	case k <= 2:
		return []byte{1}
	default:
		typ := byte(r.Pick([]int{2, 7, 0x44, 0x82, 0x83, 0x88, 0x89, 0x94, 0xff, 3}))
		n := 3 + r.Intn(10)
		if malformed {
			n = r.Pick([]int{0, 1, 2, 40, 200, 255, n})
		}
		o := []byte{typ, byte(n)}
		body := n - 2
		if body < 0 || malformed && r.Bool() {
			body = r.Intn(4)
		}
		return append(o, r.Bytes(body)...)
	}
}

func (e *emitter) randArea(malformed bool) []byte {
	var area []byte
	for n := e.r.Intn(6); n >= 0; n-- {
		area = append(area, e.randOption(malformed && e.r.Chance(40))...)
	}
	for len(area)%4 != 0 {
		if e.r.Bool() {
			area = append(area, 0)
		} else {
			area = append(area, byte(e.r.Intn(256)))
		}
	}
	if len(area) > 40 {
		area = area[:40]
	}
	return area
}

// ---------------------------------------------------------------- random layers for SerializeTo

func (e *emitter) randLayer(inRange bool) (*layers.IPv4, int) {
	r := e.r
	ip := &layers.IPv4{Version: 4, TOS: uint8(r.Intn(256)), Id: uint16(r.Intn(65536)), Flags: layers.IPv4Flag(r.Intn(8)),
		FragOffset: uint16(r.Intn(8192)), TTL: uint8(r.Intn(256)), Protocol: layers.IPProtocol(r.Pick([]int{1, 6, 17, 47, 0, 255})),
		Checksum: uint16(r.Intn(65536)), SrcIP: r.Bytes(4), DstIP: r.Bytes(4)}
	if r.Chance(30) {
		ip.Version = uint8(r.Intn(16))
	}
	size := 0
	nopts := r.Pick([]int{0, 0, 1, 2, 3, 5})
	for i := 0; i < nopts; i++ {
		switch k := r.Intn(6); {
		case k <= 1:
			ip.Options = append(ip.Options, layers.IPv4Option{OptionType: 1, OptionLength: 1})
			size++
		default:
			n := 3 + r.Intn(9)
			ip.Options = append(ip.Options, layers.IPv4Option{OptionType: uint8(r.Pick([]int{2, 7, 0x44, 0x83, 0x94, 0xfe})), OptionLength: uint8(n), OptionData: r.Bytes(n - 2)})
			size += n
		}
	}
	if inRange {
		// make the list aligned: either NOPs or an end-of-list option followed by padding
		if size%4 != 0 || r.Chance(20) {
			if r.Bool() {
				for size%4 != 0 {
					ip.Options = append(ip.Options, layers.IPv4Option{OptionType: 1, OptionLength: 1})
					size++
				}
			} else {
				ip.Options = append(ip.Options, layers.IPv4Option{OptionType: 0, OptionLength: 1})
				size++
				for size%4 != 0 {
					ip.Padding = append(ip.Padding, 0)
					if r.Chance(30) {
						ip.Padding[len(ip.Padding)-1] = byte(r.Intn(256))
					}
					size++
				}
				if r.Chance(20) {
					ip.Padding = append(ip.Padding, r.Bytes(4)...)
					size += 4
				}
			}
		}
		return ip, size
	}
	// out-of-range / malformed values of the public fields
	switch r.Intn(12) {
	case 0:
		ip.SrcIP = r.Bytes(r.Pick([]int{0, 3, 5, 16, 17}))
	case 1:
		ip.DstIP = append(append(make([]byte, 10), 0xff, 0xff), r.Bytes(4)...) // IPv4-mapped 16-byte form
	case 2:
		ip.SrcIP = append(append(make([]byte, 10), 0xff, 0xff), r.Bytes(4)...)
		ip.DstIP = r.Bytes(16)
	case 3:
		ip.Version, ip.IHL = uint8(r.Intn(256)), uint8(r.Intn(256))
	case 4:
		ip.Options = append(ip.Options, layers.IPv4Option{OptionType: 9, OptionLength: uint8(r.Pick([]int{0, 1, 2})), OptionData: r.Bytes(r.Intn(2))})
	case 5:
		ip.Options = append(ip.Options, layers.IPv4Option{OptionType: 9, OptionLength: 6, OptionData: r.Bytes(r.Pick([]int{0, 1, 3, 5, 9}))}) // short / long data
	case 6:
		ip.Options = append(ip.Options, layers.IPv4Option{OptionType: 9, OptionLength: uint8(r.Pick([]int{38, 40, 41, 253, 254, 255})), OptionData: r.Bytes(3)})
	case 7:
		for i := r.Pick([]int{39, 40, 41, 44, 255, 256, 257}); i > 0; i-- {
			ip.Options = append(ip.Options, layers.IPv4Option{OptionType: uint8(r.Intn(2)), OptionLength: 1})
		}
	case 8:
		ip.Options = append([]layers.IPv4Option{{OptionType: 0, OptionLength: uint8(r.Intn(9)), OptionData: r.Bytes(r.Intn(3))}}, ip.Options...) // EOL first, odd length/data
	case 9:
		ip.Padding = r.Bytes(r.Pick([]int{1, 2, 3, 4, 7, 40, 41}))
	case 10:
		ip.Options = []layers.IPv4Option{{OptionType: 200, OptionLength: 200, OptionData: r.Bytes(198)}, {OptionType: 200, OptionLength: 200, OptionData: r.Bytes(198)}}
	default:
		ip.IHL, ip.Length = uint8(r.Intn(16)), uint16(r.Intn(65536))
	}
	return ip, 0
}

func (e *emitter) payloadSize(big bool) int {
	r := e.r
	switch r.Intn(8) {
	case 0:
		return 0
	case 1:
		return 1
	case 2:
		return 2*r.Intn(20) + 1
	case 3:
		return 1480 + r.Intn(41)
	case 4:
		if big {
			return r.Pick([]int{65474, 65475, 65495, 65496, 65515, 65516, 65536, 70000})
		}
		return r.Intn(64)
	default:
		return r.Intn(40)
	}
}

func (e *emitter) bufHist() string {
	r := e.r
	switch r.Intn(4) {
	case 0:
		return "fresh"
	case 1:
		return fmt.Sprintf("sized%d", r.Pick([]int{0, 1, 7, 20, 24, 64, 2000}))
	default:
		return fmt.Sprintf("dirty%02x", r.Pick([]int{0xa5, 0x5a, 0xff, 0x01, r.Intn(256)}))
	}
}

func (e *emitter) serCase(ip *layers.IPv4, payload []byte, combos [][2]int) {
	var lines []string
	for _, c := range combos {
		lines = append(lines, fmt.Sprintf("lip4 ser %d %d %s %s %s", c[0], c[1], e.bufHist(), layerArgs(ip), lib.Hex(payload)))
	}
	e.cas(lines...)
}

var allCombos = [][2]int{{1, 1}, {1, 0}, {0, 1}, {0, 0}}

// ---------------------------------------------------------------- the generator

// opGroup maps an op to the group named in the engine's gen_args ("ops=dec,rt,…"): each
// property runs the groups relevant to it (all groups when no ops= argument is given).
func opGroup(op string) string {
	switch op {
	case "dec", "redec", "dlp", "np", "next":
		return "dec"
	case "rtd":
		return "rt"
	case "ser":
		return "ser"
	case "flow", "vc":
		return "flow"
	}
	return op
}

// filtered drops the ops outside the wanted groups and the cases that become empty.
func filtered(emit func(string)) func(string) {
	var want map[string]bool
	for _, a := range os.Args {
		if strings.HasPrefix(a, "ops=") {
			want = map[string]bool{}
			for _, g := range strings.Split(a[4:], ",") {
				want[g] = true
			}
		}
	}
	if want == nil {
		return emit
	}
	pendingReset := false
	return func(l string) {
		f := strings.Fields(l)
		switch {
		case len(f) == 0 || f[0][0] == '#':
			emit(l)
		case f[0] == "reset":
			pendingReset = true
		case len(f) >= 2 && want[opGroup(f[1])]:
			if pendingReset {
				emit("reset")
				pendingReset = false
			}
			emit(l)
		}
	}
}

func gen(r *lib.Rand, tier string, emit func(string)) {
	emit = filtered(emit)
	e := &emitter{emit: emit, r: r}
	thorough := tier == "thorough"
	fixtures := append(built(), harvest()...)
	sort.SliceStable(fixtures, func(i, j int) bool { return len(fixtures[i]) < len(fixtures[j]) })
	maxFix := 30
	if thorough {
		maxFix = 400
	}
	if len(fixtures) > maxFix {
		// keep the shortest ones and a spread of the rest
		keep := fixtures[:maxFix*2/3]
		step := (len(fixtures) - len(keep)) / (maxFix / 3)
		for i := len(keep); i < len(fixtures) && len(keep) < maxFix; i += step {
			keep = append(keep, fixtures[i])
		}
		fixtures = keep
	}
	emit(fmt.Sprintf("# lip4 generator: %d fixtures, tier %s", len(fixtures), tier))

	// 1. fixtures: every op; every truncation 0…len; stale-state sequences
	for _, d := range fixtures {
		e.allOps(d)
	}
	for i, d := range fixtures {
		if !thorough && i >= 12 {
			break
		}
		hl := hdrLen(d)
		for n := 0; n <= len(d); n++ {
			if n > hl+8 && n < len(d)-4 && !(thorough && len(d) < 200) {
				continue
			}
			t := d[:n]
			e.cas(decLine("dec", t, e.foreign()), "lip4 dlp "+lib.Hex(t), fmt.Sprintf("lip4 np %d 0 - %s", r.Intn(2), lib.Hex(t)))
		}
	}
	// ordered pairs / triples decoded into the same object
	optPkts := [][]byte{
		withOptions([]byte{0, 0xaa, 0xbb, 0xcc}, []byte{1}),
		withOptions([]byte{1, 1, 1, 1}, nil),
		withOptions([]byte{7, 7, 4, 1, 2, 3, 4, 0}, []byte{5, 5}),
		withOptions([]byte{0x83, 3, 9, 0, 1, 2, 3, 4}, nil),
		withOptions([]byte{7, 9, 4, 1}, nil), // option longer than the header: error
	}
	pool := append(append([][]byte{}, optPkts...), fixtures...)
	if len(pool) > 14 && !thorough {
		pool = pool[:14]
	}
	for i, a := range pool {
		for j, b := range pool {
			if !thorough && i >= 6 && j >= 6 {
				continue
			}
			c := pool[r.Intn(len(pool))]
			e.cas(decLine("dec", a, nil), decLine("redec", b, e.foreign()), decLine("redec", c, nil),
				"lip4 dlp "+lib.Hex(a), "lip4 dlp "+lib.Hex(b), "lip4 dlp "+lib.Hex(c))
		}
	}

	// 2. single-field mutations to boundary values
	for i, d := range fixtures {
		if !thorough && i >= 8 {
			break
		}
		hl := hdrLen(d)
		for pos := 0; pos < hl; pos++ {
			for _, v := range []byte{0, 1, 0xff, d[pos] ^ 0x80, d[pos] + 1} {
				if v == d[pos] {
					continue
				}
				m := append([]byte(nil), d...)
				m[pos] = v
				e.decOnly(m)
			}
		}
		for _, n := range []int{0, 1, 19, 20, hl - 1, hl, hl + 1, len(d) - 1, len(d), len(d) + 1, 65535} {
			if n >= 0 {
				m := setLen(d, n)
				e.cas(decLine("dec", m, e.foreign()), "lip4 rtd "+lib.Hex(m), "lip4 flow "+lib.Hex(m), "lip4 vc "+lib.Hex(m))
			}
		}
		for ihl := 0; ihl < 16; ihl++ {
			m := append([]byte(nil), d...)
			m[0] = m[0]&0xf0 | byte(ihl)
			e.cas(decLine("dec", m, e.foreign()), "lip4 rtd "+lib.Hex(m), "lip4 next "+lib.Hex(m))
		}
		for _, ff := range []int{0x0000, 0x2000, 0x4000, 0x8000, 0x0001, 0x1fff, 0x3fff, 0xffff} {
			m := append([]byte(nil), d...)
			m[6], m[7] = byte(ff>>8), byte(ff)
			e.cas("lip4 next "+lib.Hex(m), "lip4 rtd "+lib.Hex(m), fmt.Sprintf("lip4 np 1 2 beef %s", lib.Hex(m)))
		}
	}

	// 3. option areas: exhaustive small scope over an alphabet, then structured random lists
	alpha := []byte{0, 1, 2, 3, 4, 0x83}
	if thorough {
		alpha = append(alpha, 7, 0xff)
	}
	var rec func(area []byte)
	rec = func(area []byte) {
		if len(area) == 4 {
			d := withOptions(area, []byte{0xde, 0xad})
			e.cas(decLine("dec", d, []byte{3, 3, 3, 3, 3, 3, 3, 3}), "lip4 rtd "+lib.Hex(d))
			return
		}
		for _, v := range alpha {
			rec(append(append([]byte(nil), area...), v))
		}
	}
	rec(nil)
	nrand := 1500
	if thorough {
		nrand = 30000
	}
	for i := 0; i < nrand; i++ {
		area := e.randArea(i%3 == 0)
		d := withOptions(area, r.Bytes(r.Intn(6)))
		switch r.Intn(6) {
		case 0:
			d = d[:20+r.Intn(len(d)-19)] // truncated inside options / payload
		case 1:
			d = append(d, r.Bytes(1+r.Intn(4))...) // trailing bytes beyond Length
		case 2:
			d = setLen(d, 0) // TSO
		}
		e.cas(decLine("dec", d, e.foreign()), decLine("redec", withOptions(e.randArea(false), nil), e.foreign()),
			"lip4 rtd "+lib.Hex(d), "lip4 dlp "+lib.Hex(d))
	}
	// malformed stream: random bytes with a plausible first byte
	for i := 0; i < nrand/3; i++ {
		d := r.Bytes(r.Intn(64))
		if len(d) > 0 && r.Chance(80) {
			d[0] = 0x40 | byte(r.Intn(16))
		}
		if len(d) > 3 && r.Chance(60) {
			d[2], d[3] = 0, byte(r.Intn(70))
		}
		e.cas(decLine("dec", d, e.foreign()), fmt.Sprintf("lip4 np %d 0 - %s", r.Intn(2), lib.Hex(d)), "lip4 dlp "+lib.Hex(d), "lip4 rtd "+lib.Hex(d))
	}

	// 4. serialisation
	nser := 500
	if thorough {
		nser = 8000
	}
	for i := 0; i < nser; i++ {
		ip, _ := e.randLayer(true)
		e.serCase(ip, r.Bytes(e.payloadSize(false)), allCombos)
	}
	for i := 0; i < nser; i++ {
		ip, _ := e.randLayer(false)
		e.serCase(ip, r.Bytes(e.payloadSize(false)), allCombos)
	}
	// alignment classes x dirty buffers (option bytes 1..12 without explicit alignment)
	for n := 0; n <= 12; n++ {
		ip := &layers.IPv4{Version: 4, TTL: 1, Protocol: 17, SrcIP: []byte{1, 1, 1, 1}, DstIP: []byte{2, 2, 2, 2}}
		left := n
		for left > 0 {
			if left >= 3 && r.Bool() {
				k := 3 + r.Intn(left-2)
				ip.Options = append(ip.Options, layers.IPv4Option{OptionType: 0x44, OptionLength: uint8(k), OptionData: r.Bytes(k - 2)})
				left -= k
			} else {
				ip.Options = append(ip.Options, layers.IPv4Option{OptionType: 1, OptionLength: 1})
				left--
			}
		}
		e.serCase(ip, []byte{0xca, 0xfe}, allCombos)
	}
	// big payloads (kept few: the lines are long)
	nbig := 3
	if thorough {
		nbig = 24
	}
	for i := 0; i < nbig; i++ {
		ip, _ := e.randLayer(true)
		n := e.payloadSize(true)
		for n < 1480 {
			n = e.payloadSize(true)
		}
		e.serCase(ip, r.Bytes(n), [][2]int{{1, 1}, {r.Intn(2), r.Intn(2)}})
	}
	// layers obtained by decoding, written with every option combination and history
	for i, d := range fixtures {
		if !thorough && i >= 20 {
			break
		}
		var ip layers.IPv4
		if res := decodeInto(&ip, append([]byte(nil), d...)); !res.panicked && !res.err {
			e.serCase(cloneIP(&ip), ip.Payload, allCombos)
		}
	}
}
