// gp-lip4: correspondence adapter + monitors for engine `lip4` (layers/ip4.go).
//
// Ops (identical file is fed to lean/Driver/Lip4.lean):
//
//	lip4 dec   <extra> <foreignhex> <hex>          DecodeFromBytes into a FRESH IPv4 inside a buffer with <extra> spare capacity
//	lip4 redec <extra> <foreignhex> <hex>          … into the object of the previous dec/redec of this case
//	lip4 dlp   <hex>                               DecodingLayerParser(IgnorePanic) over one IPv4 reused in this case
//	lip4 np    <nocopy> <extra> <foreignhex> <hex> NewPacket(Lazy, SkipDecodeRecovery[, NoCopy]) with IPv4 as first decoder
//	lip4 next  <hex>   lip4 flow <hex>   lip4 vc <hex>   lip4 rtd <hex>
//	lip4 ser   <fix> <csum> <bufhist> ver ihl tos len id flags frag ttl proto csum src dst opts pad <payloadhex>
//
// Replies are canonical `field=value` renderings of ALL public fields.
package main

import (
	"bytes"
	"fmt"
	"strings"
	"time"

	"github.com/gopacket/gopacket"
	"github.com/gopacket/gopacket/layers"
	"verif/harness/lib"
)

// ---------------------------------------------------------------- state

var (
	cur    *layers.IPv4 // object used by dec/redec
	dlpIP  *layers.IPv4
	parser *gopacket.DecodingLayerParser
)

func reset() {
	cur = &layers.IPv4{}
	dlpIP = &layers.IPv4{}
	parser = gopacket.NewDecodingLayerParser(layers.LayerTypeIPv4, dlpIP)
	parser.IgnorePanic = true
}

type feedback struct{ trunc bool }

func (f *feedback) SetTruncated() { f.trunc = true }

// ---------------------------------------------------------------- rendering

func optsStr(os []layers.IPv4Option) string {
	if len(os) == 0 {
		return "-"
	}
	parts := make([]string, len(os))
	for i, o := range os {
		parts[i] = fmt.Sprintf("%d:%d:%s", o.OptionType, o.OptionLength, lib.Hex(o.OptionData))
	}
	return strings.Join(parts, ",")
}

func renderHdr(ip *layers.IPv4) string {
	return fmt.Sprintf("ver=%d ihl=%d tos=%d len=%d id=%d flags=%d frag=%d ttl=%d proto=%d csum=%d src=%s dst=%s opts=%s pad=%s",
		ip.Version, ip.IHL, ip.TOS, ip.Length, ip.Id, uint8(ip.Flags), ip.FragOffset, ip.TTL, uint8(ip.Protocol), ip.Checksum,
		lib.Hex(ip.SrcIP), lib.Hex(ip.DstIP), optsStr(ip.Options), lib.Hex(ip.Padding))
}

func render(ip *layers.IPv4) string {
	return renderHdr(ip) + " contents=" + lib.Hex(ip.Contents) + " payload=" + lib.Hex(ip.Payload)
}

func b01(b bool) string {
	if b {
		return "1"
	}
	return "0"
}

// firstDiff names the first field in which two renderings differ.
func firstDiff(a, b string) string {
	fa, fb := strings.Fields(a), strings.Fields(b)
	for i := range fa {
		if i >= len(fb) || fa[i] != fb[i] {
			return fieldName(strings.SplitN(fa[i], "=", 2)[0])
		}
	}
	return "?"
}

func fieldName(k string) string {
	m := map[string]string{"ver": "Version", "ihl": "IHL", "tos": "TOS", "len": "Length", "id": "Id", "flags": "Flags",
		"frag": "FragOffset", "ttl": "TTL", "proto": "Protocol", "csum": "Checksum", "src": "SrcIP", "dst": "DstIP",
		"opts": "Options", "pad": "Padding", "contents": "Contents", "payload": "Payload", "trunc": "Truncated", "err": "Error"}
	if v, ok := m[k]; ok {
		return v
	}
	return k
}

// ---------------------------------------------------------------- decode helpers

// mkData returns d inside a buffer with len(foreign) bytes of spare capacity holding foreign.
func mkData(d, foreign []byte) []byte {
	buf := make([]byte, len(d)+len(foreign))
	copy(buf, d)
	copy(buf[len(d):], foreign)
	return buf[:len(d):len(buf)]
}

type decRes struct {
	panicked bool
	kind     string
	site     string
	err      bool
	trunc    bool
}

func decodeInto(ip *layers.IPv4, data []byte) decRes {
	fb := &feedback{}
	var e error
	reply, p := lib.Protect(func() string {
		e = ip.DecodeFromBytes(data, fb)
		return ""
	})
	if p {
		return decRes{panicked: true, kind: reply, site: lib.LastPanicSite}
	}
	return decRes{err: e != nil, trunc: fb.trunc}
}

func (r decRes) line(ip *layers.IPv4) string {
	if r.panicked {
		return r.kind
	}
	return "trunc=" + b01(r.trunc) + " err=" + b01(r.err) + " " + render(ip)
}

func reportPanic(where string, r decRes, data []byte) {
	lib.Finding("C19", "lip4:panic:"+r.site, fmt.Sprintf("%s panics (%s) on %s", where, r.kind, lib.Hex(data)))
}

// independent re-statement of the decode branches, for the evidence histogram only
func classify(d []byte) {
	if len(d) < 20 {
		lib.Stat("dec:short")
		return
	}
	lib.Nontrivial()
	length := int(d[2])<<8 | int(d[3])
	ihl := int(d[0] & 15)
	if length == 0 {
		lib.Stat("dec:tso-len0")
		length = len(d) & 0xffff
	}
	switch {
	case length < 20:
		lib.Stat("dec:len<20")
		return
	case ihl < 5:
		lib.Stat("dec:ihl<5")
		return
	case ihl*4 > length:
		lib.Stat("dec:ihl>len")
		return
	}
	if len(d) > length {
		lib.Stat("dec:trimmed")
	} else if len(d) < length {
		lib.Stat("dec:truncated")
		if ihl*4 > len(d) {
			lib.Stat("dec:hdr-missing")
			return
		}
	}
	if ihl > 5 {
		lib.Stat("dec:with-options")
	} else {
		lib.Stat("dec:no-options")
	}
}

func statResult(r decRes, ip *layers.IPv4) {
	switch {
	case r.panicked:
		lib.Stat("res:panic")
	case r.err:
		lib.Stat("res:err")
	default:
		lib.Stat("res:ok")
		for _, o := range ip.Options {
			switch o.OptionType {
			case 0:
				lib.Stat("opt:eol")
			case 1:
				lib.Stat("opt:nop")
			default:
				lib.Stat("opt:tlv")
			}
		}
		if len(ip.Padding) > 0 {
			lib.Stat("opt:padding")
		}
		if ip.Flags&layers.IPv4MoreFragments != 0 || ip.FragOffset != 0 {
			lib.Stat("res:fragment")
		}
	}
	if r.trunc {
		lib.Stat("res:trunc")
	}
}

// ---------------------------------------------------------------- serialisation helpers

func cloneIP(ip *layers.IPv4) *layers.IPv4 {
	c := *ip
	c.SrcIP = append([]byte(nil), ip.SrcIP...)
	c.DstIP = append([]byte(nil), ip.DstIP...)
	c.Padding = append([]byte(nil), ip.Padding...)
	c.Options = nil
	for _, o := range ip.Options {
		c.Options = append(c.Options, layers.IPv4Option{OptionType: o.OptionType, OptionLength: o.OptionLength, OptionData: append([]byte(nil), o.OptionData...)})
	}
	c.Contents, c.Payload = nil, nil
	return &c
}

func mkBuf(hist string) (gopacket.SerializeBuffer, bool) {
	switch {
	case hist == "fresh":
		return gopacket.NewSerializeBuffer(), true
	case strings.HasPrefix(hist, "dirty"):
		v, ok := lib.UnHex(hist[5:])
		if !ok || len(v) != 1 {
			return nil, false
		}
		b := gopacket.NewSerializeBuffer()
		p, _ := b.PrependBytes(48)
		for i := range p {
			p[i] = v[0]
		}
		a, _ := b.AppendBytes(8)
		for i := range a {
			a[i] = v[0]
		}
		b.Clear()
		return b, true
	case strings.HasPrefix(hist, "sized"):
		n, ok := lib.Atoi(hist[5:])
		if !ok || n < 0 || n > 100000 {
			return nil, false
		}
		return gopacket.NewSerializeBufferExpectedSize(n, n), true
	}
	return nil, false
}

type serRes struct {
	panicked bool
	kind     string
	site     string
	err      bool
	out      []byte
}

func serialize(ip *layers.IPv4, buf gopacket.SerializeBuffer, payload []byte, fix, csum bool) serRes {
	p, _ := buf.PrependBytes(len(payload))
	copy(p, payload)
	var e error
	reply, pan := lib.Protect(func() string {
		e = ip.SerializeTo(buf, gopacket.SerializeOptions{FixLengths: fix, ComputeChecksums: csum})
		return ""
	})
	if pan {
		return serRes{panicked: true, kind: reply, site: lib.LastPanicSite}
	}
	if e != nil {
		return serRes{err: true}
	}
	return serRes{out: append([]byte(nil), buf.Bytes()...)}
}

func (a serRes) same(b serRes) bool {
	return a.panicked == b.panicked && a.err == b.err && bytes.Equal(a.out, b.out)
}

// wfLayer: the in-range predicate of C06 (mirrors Gp.C06.Ip4.wf), stated independently.
func wfLayer(ip *layers.IPv4, payloadLen int) bool {
	if ip.Version > 15 || ip.Flags > 7 || ip.FragOffset > 8191 || len(ip.SrcIP) != 4 || len(ip.DstIP) != 4 {
		return false
	}
	size := 0
	for i, o := range ip.Options {
		switch o.OptionType {
		case 0:
			if i != len(ip.Options)-1 || o.OptionLength != 1 || len(o.OptionData) != 0 {
				return false
			}
			size++
		case 1:
			if o.OptionLength != 1 || len(o.OptionData) != 0 {
				return false
			}
			size++
		default:
			if o.OptionLength < 3 || len(o.OptionData) != int(o.OptionLength)-2 {
				return false
			}
			size += int(o.OptionLength)
		}
	}
	if len(ip.Padding) > 0 && (len(ip.Options) == 0 || ip.Options[len(ip.Options)-1].OptionType != 0) {
		return false
	}
	size += len(ip.Padding)
	return size%4 == 0 && size <= 40 && 20+size+payloadLen <= 65535
}

// roundTrip checks C06 on the real code for a layer that was just serialised (mutated ip) into out.
func roundTrip(ip *layers.IPv4, payload, out []byte, what string) {
	var back layers.IPv4
	r := decodeInto(&back, append([]byte(nil), out...))
	if r.panicked {
		reportPanic("DecodeFromBytes(serialised)", r, out)
		return
	}
	if r.err {
		lib.Finding("C06", "lip4:roundtrip:Error", what+": decoding the serialised layer fails: "+lib.Hex(out))
		return
	}
	if r.trunc {
		lib.Finding("C06", "lip4:roundtrip:Truncated", what+": decoding the serialised layer sets the truncation flag: "+lib.Hex(out))
		return
	}
	a, b := renderHdr(ip), renderHdr(&back)
	if a != b {
		lib.Finding("C06", "lip4:roundtrip:"+firstDiff(a, b), fmt.Sprintf("%s: wrote {%s} read {%s}", what, a, b))
		return
	}
	if !bytes.Equal(back.Payload, payload) {
		lib.Finding("C06", "lip4:roundtrip:Payload", what+": payload differs after round trip")
		return
	}
	// writing the decoded layer once more reproduces the same bytes
	again := serialize(cloneIP(&back), gopacket.NewSerializeBuffer(), back.Payload, true, true)
	if again.panicked || again.err || !bytes.Equal(again.out, out) {
		lib.Finding("C06", "lip4:reserialize", what+": serialising the decoded layer again gives different bytes")
	}
	lib.Stat("rt:ok")
}

// ---------------------------------------------------------------- parsing of the ser op

func parseOpts(s string) ([]layers.IPv4Option, bool) {
	if s == "-" {
		return nil, true
	}
	var out []layers.IPv4Option
	for _, p := range strings.Split(s, ",") {
		f := strings.Split(p, ":")
		if len(f) != 3 {
			return nil, false
		}
		t, ok1 := lib.Atoi(f[0])
		l, ok2 := lib.Atoi(f[1])
		d, ok3 := lib.UnHex(f[2])
		if !ok1 || !ok2 || !ok3 || t < 0 || t > 255 || l < 0 || l > 255 {
			return nil, false
		}
		out = append(out, layers.IPv4Option{OptionType: uint8(t), OptionLength: uint8(l), OptionData: d})
	}
	return out, true
}

func parseLayer(a []string) (*layers.IPv4, bool) {
	if len(a) != 14 {
		return nil, false
	}
	lim := []int{255, 255, 255, 65535, 65535, 255, 65535, 255, 255, 65535}
	var n [10]int
	for i := 0; i < 10; i++ {
		v, ok := lib.Atoi(a[i])
		if !ok || v < 0 || v > lim[i] {
			return nil, false
		}
		n[i] = v
	}
	src, ok1 := lib.UnHex(a[10])
	dst, ok2 := lib.UnHex(a[11])
	opts, ok3 := parseOpts(a[12])
	pad, ok4 := lib.UnHex(a[13])
	if !ok1 || !ok2 || !ok3 || !ok4 {
		return nil, false
	}
	return &layers.IPv4{Version: uint8(n[0]), IHL: uint8(n[1]), TOS: uint8(n[2]), Length: uint16(n[3]), Id: uint16(n[4]),
		Flags: layers.IPv4Flag(n[5]), FragOffset: uint16(n[6]), TTL: uint8(n[7]), Protocol: layers.IPProtocol(n[8]),
		Checksum: uint16(n[9]), SrcIP: src, DstIP: dst, Options: opts, Padding: pad}, true
}

func layerArgs(ip *layers.IPv4) string {
	return fmt.Sprintf("%d %d %d %d %d %d %d %d %d %d %s %s %s %s", ip.Version, ip.IHL, ip.TOS, ip.Length, ip.Id, uint8(ip.Flags),
		ip.FragOffset, ip.TTL, uint8(ip.Protocol), ip.Checksum, lib.Hex(ip.SrcIP), lib.Hex(ip.DstIP), optsStr(ip.Options), lib.Hex(ip.Padding))
}

func decArgs(a []string) (d, f []byte, ok bool) {
	if len(a) != 3 {
		return nil, nil, false
	}
	n, ok1 := lib.Atoi(a[0])
	f, ok2 := lib.UnHex(a[1])
	d, ok3 := lib.UnHex(a[2])
	if !ok1 || !ok2 || !ok3 || n != len(f) {
		return nil, nil, false
	}
	return d, f, true
}

// ---------------------------------------------------------------- exec

func exec(a []string) string {
	done := make(chan string, 1)
	go func() {
		reply, p := lib.Protect(func() string { return exec1(a) })
		if p {
			// a panic outside the guarded calls: report it like the runner would
			lib.Finding("*", "lip4:adapter-panic:"+lib.LastPanicSite, "panic outside the modelled calls: "+lib.LastPanicMsg)
		}
		done <- reply
	}()
	select {
	case r := <-done:
		return r
	case <-time.After(30 * time.Second):
		what := strings.Join(a, " ")
		if len(what) > 80 {
			what = what[:80]
		}
		lib.Finding("C19", "lip4:hang", "operation did not return within 30s: "+what)
		return "hang"
	}
}

func exec1(a []string) string {
	if len(a) < 2 || a[0] != "lip4" {
		return "bad-op"
	}
	switch a[1] {
	case "dec", "redec":
		d, f, ok := decArgs(a[2:])
		if !ok {
			return "bad-op"
		}
		data := mkData(d, f)
		if a[1] == "dec" {
			cur = &layers.IPv4{}
		}
		before := cloneIP(cur)
		classify(d)
		r := decodeInto(cur, data)
		statResult(r, cur)
		if r.panicked {
			reportPanic("DecodeFromBytes", r, d)
			cur = &layers.IPv4{}
			_ = before
			return r.line(cur)
		}
		line := r.line(cur)
		// the renderers must cope with whatever was decoded (C01)
		if _, p := lib.Protect(func() string { return gopacket.LayerString(cur) + gopacket.LayerDump(cur) + cur.Flags.String() }); p {
			lib.Finding("C01", "lip4:string-panic:"+lib.LastPanicSite, "rendering the decoded layer panics on "+lib.Hex(d))
		}
		// C05: fresh object, exact capacity
		var fr layers.IPv4
		rf := decodeInto(&fr, append([]byte(nil), d...))
		if !rf.panicked {
			fl := rf.line(&fr)
			same := rf.err == r.err && rf.trunc == r.trunc && (r.err || fl == line)
			if !same {
				if a[1] == "redec" {
					lib.Stat("mon:stale")
					lib.Finding("C05", "lip4:stale:"+firstDiff(fl, line), fmt.Sprintf("reused layer gives {%s}, fresh layer gives {%s}", line, fl))
				} else {
					lib.Finding("C05", "lip4:cap-dependent", fmt.Sprintf("spare capacity %s changes the result: {%s} vs {%s}", lib.Hex(f), line, fl))
				}
			}
			if a[1] == "redec" && len(f) > 0 {
				// also isolate the capacity effect on the reused path
				lib.Stat("dec:redec+cap")
			}
		}
		if len(f) > 0 {
			lib.Stat("dec:spare-cap")
		}
		return line
	case "dlp":
		if len(a) != 3 {
			return "bad-op"
		}
		d, ok := lib.UnHex(a[2])
		if !ok {
			return "bad-op"
		}
		classify(d)
		var decoded []gopacket.LayerType
		reply, p := lib.Protect(func() string {
			parser.DecodeLayers(append([]byte(nil), d...), &decoded)
			return ""
		})
		if p {
			lib.Finding("C19", "lip4:panic:"+lib.LastPanicSite, "DecodingLayerParser(IgnorePanic) panics on "+lib.Hex(d))
			return reply
		}
		n := 0
		if len(decoded) > 0 && decoded[0] == layers.LayerTypeIPv4 {
			n = 1
		}
		line := fmt.Sprintf("n=%d trunc=%s %s", n, b01(parser.Truncated), render(dlpIP))
		// C05: the parser's view equals a fresh direct decode
		var fr layers.IPv4
		rf := decodeInto(&fr, append([]byte(nil), d...))
		if !rf.panicked {
			if (n == 1) != !rf.err || parser.Truncated != rf.trunc {
				lib.Finding("C05", "lip4:dlp-differs", "parser result (decoded/truncated) differs from a fresh DecodeFromBytes on "+lib.Hex(d))
			} else if n == 1 && render(&fr) != render(dlpIP) {
				lib.Finding("C05", "lip4:stale:"+firstDiff(render(&fr), render(dlpIP)), fmt.Sprintf("parser-owned layer gives {%s}, fresh layer gives {%s}", render(dlpIP), render(&fr)))
			}
		}
		lib.Stat("dlp")
		return line
	case "np":
		if len(a) != 6 || (a[2] != "0" && a[2] != "1") {
			return "bad-op"
		}
		d, f, ok := decArgs(a[3:])
		if !ok {
			return "bad-op"
		}
		nc := a[2] == "1"
		classify(d)
		data := mkData(d, f)
		var ip *layers.IPv4
		var net, trunc bool
		reply, p := lib.Protect(func() string {
			pk := gopacket.NewPacket(data, layers.LayerTypeIPv4, gopacket.DecodeOptions{Lazy: true, NoCopy: nc, SkipDecodeRecovery: true})
			if l := pk.Layer(layers.LayerTypeIPv4); l != nil {
				ip = l.(*layers.IPv4)
			}
			net = pk.NetworkLayer() != nil
			trunc = pk.Metadata().Truncated
			return ""
		})
		if p {
			lib.Finding("C19", "lip4:panic:"+lib.LastPanicSite, "NewPacket(SkipDecodeRecovery) panics on "+lib.Hex(d))
			return reply
		}
		if ip == nil && len(d) == 0 {
			return "nolayer" // packet.go: a lazy packet runs no decoder on empty data
		}
		if ip == nil {
			lib.Finding("C05", "lip4:np-no-layer", "NewPacket produced no IPv4 layer for "+lib.Hex(d))
			return "nolayer"
		}
		var fr layers.IPv4
		rf := decodeInto(&fr, append([]byte(nil), d...))
		if !rf.panicked && (render(&fr) != render(ip) || rf.trunc != trunc) {
			lib.Finding("C05", "lip4:np-differs", fmt.Sprintf("packet layer {%s} differs from DecodeFromBytes into a fresh layer {%s}", render(ip), render(&fr)))
		}
		lib.Stat("np")
		if nc {
			lib.Stat("np:nocopy")
		}
		return fmt.Sprintf("net=%s trunc=%s %s", b01(net), b01(trunc), render(ip))
	case "next", "flow", "vc", "rtd":
		if len(a) != 3 {
			return "bad-op"
		}
		d, ok := lib.UnHex(a[2])
		if !ok {
			return "bad-op"
		}
		classify(d)
		var ip layers.IPv4
		r := decodeInto(&ip, append([]byte(nil), d...))
		if r.panicked {
			reportPanic("DecodeFromBytes", r, d)
			return r.kind
		}
		if r.err {
			return "err"
		}
		switch a[1] {
		case "next":
			lib.Stat("next")
			if ip.NextLayerType() == gopacket.LayerTypeFragment {
				return "next=frag"
			}
			return fmt.Sprintf("next=proto:%d", uint8(ip.Protocol))
		case "flow":
			return doFlow(&ip, d)
		case "vc":
			_, res := ip.VerifyChecksum()
			lib.Stat("vc")
			return fmt.Sprintf("vc valid=%s correct=%d actual=%d", b01(res.Valid), res.Correct, res.Actual)
		default:
			return doRtd(&ip, d)
		}
	case "ser":
		if len(a) != 20 || (a[2] != "0" && a[2] != "1") || (a[3] != "0" && a[3] != "1") {
			return "bad-op"
		}
		fix, csum := a[2] == "1", a[3] == "1"
		buf, ok1 := mkBuf(a[4])
		ip, ok2 := parseLayer(a[5:19])
		payload, ok3 := lib.UnHex(a[19])
		if !ok1 || !ok2 || !ok3 {
			return "bad-op"
		}
		return doSer(ip, buf, payload, fix, csum, a[4])
	}
	return "bad-op"
}

func doFlow(ip *layers.IPv4, d []byte) string {
	var f gopacket.Flow
	reply, p := lib.Protect(func() string { f = ip.NetworkFlow(); return "" })
	if p {
		lib.Finding("C17", "lip4:flow-panic", "NetworkFlow panics on a decoded layer: "+lib.Hex(d))
		return reply
	}
	src, dst := f.Endpoints()
	if !bytes.Equal(src.Raw(), d[12:16]) || !bytes.Equal(dst.Raw(), d[16:20]) || f.EndpointType() != layers.EndpointIPv4 {
		lib.Finding("C17", "lip4:flow-bytes", fmt.Sprintf("flow %v does not carry the address bytes of %s", f, lib.Hex(d[12:20])))
	}
	// the other direction of the conversation
	rev := append([]byte(nil), d...)
	copy(rev[12:16], d[16:20])
	copy(rev[16:20], d[12:16])
	var ip2 layers.IPv4
	if r := decodeInto(&ip2, rev); !r.panicked && !r.err {
		f2 := ip2.NetworkFlow()
		if f2 != f.Reverse() || f2.Reverse() != f {
			lib.Finding("C17", "lip4:flow-reverse", "flows of the two directions are not mutually reversed: "+lib.Hex(d[12:20]))
		}
		if f2.FastHash() != f.FastHash() {
			lib.Finding("C17", "lip4:flow-hash", "FastHash differs between the two directions: "+lib.Hex(d[12:20]))
		}
	}
	lib.Stat("flow")
	return fmt.Sprintf("flow typ=%d src=%s dst=%s", int64(f.EndpointType()), lib.Hex(src.Raw()), lib.Hex(dst.Raw()))
}

// doRtd: decode -> SerializeTo(fix, csum) over the decoded payload -> decode again.
func doRtd(ip *layers.IPv4, d []byte) string {
	l := cloneIP(ip)
	payload := append([]byte(nil), ip.Payload...)
	s := serialize(l, gopacket.NewSerializeBuffer(), payload, true, true)
	if s.panicked {
		lib.Finding("C07", "lip4:ser-panic:"+s.site, "SerializeTo panics on a decoded layer: "+lib.Hex(d))
		return s.kind
	}
	if s.err {
		lib.Finding("C06", "lip4:roundtrip:Error", "SerializeTo rejects a decoded layer: "+lib.Hex(d))
		return "sererr"
	}
	roundTrip(l, payload, s.out, "decoded from "+lib.Hex(d))
	var back layers.IPv4
	r := decodeInto(&back, append([]byte(nil), s.out...))
	lib.Stat("rtd")
	return "rtd " + r.line(&back)
}

func doSer(ip *layers.IPv4, buf gopacket.SerializeBuffer, payload []byte, fix, csum bool, hist string) string {
	orig := cloneIP(ip)
	if len(ip.Options) > 0 || hist != "fresh" {
		lib.Nontrivial()
	}
	lib.Stat("ser:" + hist[:5])
	lib.Stat(fmt.Sprintf("ser:fix=%s,csum=%s", b01(fix), b01(csum)))
	switch n := len(payload); {
	case n == 0:
		lib.Stat("ser:payload=0")
	case n > 65535:
		lib.Stat("ser:payload>64k")
	case n >= 1480:
		lib.Stat("ser:payload>=1480")
	case n%2 == 1:
		lib.Stat("ser:payload-odd")
	default:
		lib.Stat("ser:payload-even")
	}
	s := serialize(ip, buf, payload, fix, csum)
	// C07 monitors (independent of the history asked for): fresh / two dirty patterns / pre-sized
	variants := []string{"fresh", "dirtya5", "dirty5a", "sized7", "sized64"}
	var ref serRes
	var refIP *layers.IPv4
	for i, h := range variants {
		b, _ := mkBuf(h)
		c := cloneIP(orig)
		r := serialize(c, b, payload, fix, csum)
		if r.panicked {
			lib.Finding("C07", "lip4:ser-panic:"+r.site, fmt.Sprintf("SerializeTo panics (%s) on {%s}", r.kind, renderHdr(orig)))
			break
		}
		if i == 0 {
			ref, refIP = r, c
		} else if !r.same(ref) {
			lib.Stat("mon:dirty-buffer")
			lib.Finding("C07", "lip4:dirty-buffer", fmt.Sprintf("output depends on the buffer history (%s vs fresh): %s vs %s for {%s}", h, lib.Hex(r.out), lib.Hex(ref.out), renderHdr(orig)))
			break
		}
	}
	// idempotence: the (mutated) layer serialised again over the same payload, both times into a fresh buffer
	if refIP != nil && !ref.err && !ref.panicked {
		again := serialize(cloneIP(refIP), gopacket.NewSerializeBuffer(), payload, fix, csum)
		if again.panicked || again.err || !bytes.Equal(again.out, ref.out) {
			lib.Finding("C07", "lip4:not-idempotent", fmt.Sprintf("serialising {%s} twice gives different bytes", renderHdr(orig)))
		}
	}
	if s.panicked {
		lib.Stat("ser:panic")
		return s.kind
	}
	if s.err {
		lib.Stat("ser:err")
		return "err"
	}
	lib.Stat("ser:ok")
	if len(ip.Options) > 0 {
		lib.Stat("ser:with-options")
	}
	if len(ip.Padding) > 0 {
		lib.Stat("ser:with-padding")
	}
	// C06: in-range layers round-trip under fix+csum
	if fix && csum && wfLayer(orig, len(payload)) {
		lib.Stat("ser:wf")
		roundTrip(ip, payload, s.out, "built {"+renderHdr(orig)+"}")
	}
	return "ok out=" + lib.Hex(s.out) + " " + renderHdr(ip)
}

func main() {
	reset()
	lib.Main(lib.Engine{Name: "lip4", Gen: gen, Reset: reset, Exec: exec})
}
