package main

import "strings"

func splitLines(s string) []string { return strings.Split(s, "\n") }
func indexOf(s, sub string) int    { return strings.Index(s, sub) }

// trimSite turns "…/reassembly/memory.go:202 +0x1b4" into "reassembly/memory.go:202".
func trimSite(s string) string {
	s = strings.TrimSpace(s)
	if i := strings.IndexByte(s, ' '); i >= 0 {
		s = s[:i]
	}
	return s
}
