// gp-pool: correspondence adapter for engine `pool` (property C12).
//
// Drives the REAL tcpassembly / reassembly StreamPool with several Assembler goroutines under a
// controlled scheduler (sched.go) and prints the canonical observables of one schedule:
//
//	pool pkg asm|reasm|reasm0        package under test (reasm0 = reassembly with the upstream FIXME panic;
//	                                 same real code, the name only selects the Lean model variant)
//	pool threads n
//	pool prog <tid> <item>…          item = <pair>:<dir>:<syn|fin|rst|late<ts>> | flush | flushold:<T>:<c>
//	                                 (late<ts>: FIN, seq 1101, payload "late", seen at time ts — queued behind a
//	                                 gap; flushold: tcpassembly FlushWithOptions{T, CloseAll: c != 0},
//	                                 reassembly FlushWithOptions{T, TC: c}; times are ts0 + n seconds, 0..9;
//	                                 syn/fin/rst are seen at time 5)
//	pool sched t0 t1 …               -> ok <events…> | map=<n> | <status of each thread>
//
// events: n<sid>:<key>@<tid> (factory New), r<sid>@<tid>.<op>/<n> (Reassembled), a<sid>@<tid>.<op>
// (reassembly Accept), c<sid>@<tid> (ReassemblyComplete), P@<tid> (goroutine panicked).
// Monitors (independent of the Lean model): panic, overlapping callbacks on one stream, delivery to a
// stream created for another key, Reassembled/ReassembledSG on a stream after its ReassemblyComplete,
// ReassemblyComplete more than once, completion count ≠ 1 of a kept stream after the closing FlushAll,
// pages still (or doubly) accounted after it, an un-nested remove (reassembly FlushWithOptions) that deletes
// a map entry, deadlock, connection left in the pool after FlushAll.
package main

import (
	"fmt"
	"strings"
	"sync/atomic"
	"time"

	"github.com/gopacket/gopacket"
	"github.com/gopacket/gopacket/layers"
	"github.com/gopacket/gopacket/reassembly"
	"github.com/gopacket/gopacket/tcpassembly"
	"verif/harness/lib"
)

type item struct {
	flush bool
	old   bool // flushold
	T, C  int  // flushold: T and CloseAll (classic) / TC (reassembly)
	pair  int
	dir   int
	kind  string // syn fin rst late
	ts    int    // capture time of the packet (seconds after ts0)
}

const kindTs0 = 5 // syn / fin / rst are seen at this time

var (
	curPkg   = "asm"
	nThreads = 0
	progs    [][]item
)

func reset() {
	curPkg, nThreads, progs = "asm", 0, nil
}

// finding reports a monitor finding; after findingCap reports of one signature further ones are only
// counted (the check keeps the shortest replay per signature; millions of identical findings help nobody).
const findingCap = 400

var findingCount = map[string]int{}

func finding(sig, what string) {
	findingCount[sig]++
	lib.Stat("finding:" + sig)
	if findingCount[sig] <= findingCap {
		lib.Finding("C12", sig, what)
	}
}

func pkgTag() string {
	if curPkg == "asm" {
		return "asm"
	}
	return "reasm"
}

// ---------------------------------------------------------------- scripted streams

type stream struct {
	sid        int
	pair, dir  int // key the stream was created for
	inCb       int32
	callbacks  int // Accept/Reassembled/Complete calls received
	reassemb   int
	completes  int
	rec        *recorder
	finalPhase *bool
}

type recorder struct {
	events []string
	nextS  int
	all    []*stream
	final  bool // true during the adapter's own closing FlushAll (not part of the observables)
}

func (r *recorder) log(s string) {
	if !r.final {
		r.events = append(r.events, s)
	}
}

func curWorker() *worker { return running() }

func (s *stream) enter(what string) {
	if !atomic.CompareAndSwapInt32(&s.inCb, 0, 1) {
		finding("pool:"+pkgTag()+":callback-overlap", fmt.Sprintf("%s entered on stream s%d while another callback of the same stream is running", what, s.sid))
	}
	s.callbacks++
}
func (s *stream) leave() { atomic.StoreInt32(&s.inCb, 0) }

// staleSuffix: ":stale" when, in this case, some goroutine ran a stream callback on a connection
// object that was removed from the pool (and therefore recycled) after the goroutine had looked it up.
// It separates the known stale-pointer recycling defect from any other cause of the same symptom.
func staleSuffix() string {
	if sfxCtl != nil && sfxCtl.stale {
		return ":stale"
	}
	if sfxCtl != nil && sfxCtl.foreign {
		return ":frm"
	}
	return ""
}

// sfxCtl: controller of the case being executed, including its (uncontrolled) closing FlushAll.
var sfxCtl *controller

func (s *stream) checkKey(w *worker, what string) {
	if w == nil || w.inFlush {
		return
	}
	if ctl != nil && w.lastCon != nil && ctl.removed[w.lastCon] != w.lookupEpoch && !ctl.stale {
		ctl.stale = true
		finding("pool:"+pkgTag()+":stale-delivery", fmt.Sprintf("%s on stream s%d through a pointer to a connection object that was closed, removed and recycled after goroutine %d looked it up", what, s.sid, w.id))
	}
	ok := w.curKey[0] == s.pair && (w.curKey[1] == s.dir || curPkg != "asm")
	if !ok {
		finding("pool:"+pkgTag()+":wrong-stream"+staleSuffix(), fmt.Sprintf("%s: packet of key %d%s delivered to stream s%d created for key %d%s",
			what, w.curKey[0], dirName(w.curKey[1]), s.sid, s.pair, dirName(s.dir)))
	}
}

func dirName(d int) string {
	if d == 0 {
		return "a"
	}
	return "b"
}

func (s *stream) reassembled(n int) {
	s.enter("Reassembled")
	w := curWorker()
	s.reassemb++
	if w != nil {
		s.rec.log(fmt.Sprintf("r%d@%d.%d/%d", s.sid, w.id, w.opIdx, n))
		s.checkKey(w, "Reassembled")
	}
	if s.completes > 0 {
		finding("pool:"+pkgTag()+":callback-after-complete"+staleSuffix(), fmt.Sprintf("Reassembled on stream s%d (key %d%s) after its ReassemblyComplete", s.sid, s.pair, dirName(s.dir)))
	}
	if w != nil {
		yield("cb", nil) // scheduling point INSIDE the callback: other threads may run now
	}
	s.leave()
}

func (s *stream) complete() {
	s.enter("ReassemblyComplete")
	s.completes++
	w := curWorker()
	if w != nil {
		s.rec.log(fmt.Sprintf("c%d@%d", s.sid, w.id))
		w.segComplete = true
	}
	if s.completes > 1 {
		finding("pool:"+pkgTag()+":completed-twice"+staleSuffix(), fmt.Sprintf("stream s%d (key %d%s) completed %d times", s.sid, s.pair, dirName(s.dir), s.completes))
	}
	s.leave()
}

// classic
type asmStream struct{ *stream }

func (s asmStream) Reassembled(rs []tcpassembly.Reassembly) { s.reassembled(len(rs)) }
func (s asmStream) ReassemblyComplete()                     { s.complete() }

// reassembly
type reasmStream struct{ *stream }

func (s reasmStream) Accept(tcp *layers.TCP, ci gopacket.CaptureInfo, dir reassembly.TCPFlowDirection, nextSeq reassembly.Sequence, start *bool, ac reassembly.AssemblerContext) bool {
	s.enter("Accept")
	if w := curWorker(); w != nil {
		s.rec.log(fmt.Sprintf("a%d@%d.%d", s.sid, w.id, w.opIdx))
		s.checkKey(w, "Accept")
	}
	s.leave()
	return true
}
func (s reasmStream) ReassembledSG(sg reassembly.ScatterGather, ac reassembly.AssemblerContext) {
	s.reassembled(1)
}
func (s reasmStream) ReassemblyComplete(ac reassembly.AssemblerContext) bool {
	s.complete()
	return true
}

type factory struct{ rec *recorder }

func (f *factory) mk(netFlow gopacket.Flow) *stream {
	src := netFlow.Src().Raw()
	pair, dir := int(src[2]), int(src[3])-1
	s := &stream{sid: f.rec.nextS, pair: pair, dir: dir, rec: f.rec}
	f.rec.nextS++
	f.rec.all = append(f.rec.all, s)
	t := -1
	if w := curWorker(); w != nil {
		t = w.id
	}
	f.rec.log(fmt.Sprintf("n%d:%d%s@%d", s.sid, pair, dirName(dir), t))
	return s
}

type asmFactory struct{ *factory }

func (f *asmFactory) New(netFlow, tcpFlow gopacket.Flow) tcpassembly.Stream {
	return asmStream{f.mk(netFlow)}
}

type reasmFactory struct{ *factory }

func (f *reasmFactory) New(netFlow, tcpFlow gopacket.Flow, tcp *layers.TCP, ac reassembly.AssemblerContext) reassembly.Stream {
	return reasmStream{f.mk(netFlow)}
}

type ctx struct{ ci gopacket.CaptureInfo }

func (c *ctx) GetCaptureInfo() gopacket.CaptureInfo { return c.ci }

// ---------------------------------------------------------------- packets

var ts0 = time.Unix(1000000000, 0)

func mkPacket(it item) (gopacket.Flow, *layers.TCP) {
	a := []byte{1, 1, byte(it.pair), 1}
	b := []byte{1, 1, byte(it.pair), 2}
	t := &layers.TCP{}
	var nf gopacket.Flow
	if it.dir == 0 {
		nf = gopacket.NewFlow(layers.EndpointIPv4, a, b)
		t.SrcPort, t.DstPort = 1, 2
	} else {
		nf = gopacket.NewFlow(layers.EndpointIPv4, b, a)
		t.SrcPort, t.DstPort = 2, 1
	}
	t.SetInternalPortsForTesting()
	switch it.kind {
	case "syn":
		t.SYN, t.Seq = true, 1000
	case "fin":
		t.SYN, t.FIN, t.Seq = true, true, 1000
	case "rst":
		t.RST, t.Seq = true, 1001
	case "late":
		// out of order: behind the gap 1001..1100 whatever the connection has seen
		t.FIN, t.Seq = true, 1101
		t.BaseLayer = layers.BaseLayer{Payload: []byte("late")}
	}
	return nf, t
}

func tsOf(n int) time.Time { return ts0.Add(time.Duration(n) * time.Second) }

// ---------------------------------------------------------------- one controlled run

type assembler interface {
	assemble(it item)
	flushAll() int
	flushOld(T, C int)
	pagesUsed() int
	connCount() int
}

type asmA struct {
	a    *tcpassembly.Assembler
	pool *tcpassembly.StreamPool
}

func (x asmA) assemble(it item) {
	nf, t := mkPacket(it)
	x.a.AssembleWithTimestamp(nf, t, tsOf(it.ts))
}
func (x asmA) flushAll() int { return x.a.FlushAll() }
func (x asmA) flushOld(T, C int) {
	if C != 0 && T%2 == 1 {
		x.a.FlushOlderThan(tsOf(T)) // = FlushWithOptions{T, CloseAll: true}
		return
	}
	x.a.FlushWithOptions(tcpassembly.FlushOptions{T: tsOf(T), CloseAll: C != 0})
}
func (x asmA) pagesUsed() int { return x.a.VerifPagesUsed() }
func (x asmA) connCount() int { return x.pool.VerifConnCount() }

type reasmA struct {
	a    *reassembly.Assembler
	pool *reassembly.StreamPool
}

func (x reasmA) assemble(it item) {
	nf, t := mkPacket(it)
	x.a.AssembleWithContext(nf, t, &ctx{gopacket.CaptureInfo{Timestamp: tsOf(it.ts)}})
}
func (x reasmA) flushAll() int { return x.a.FlushAll() }
func (x reasmA) flushOld(T, C int) {
	if T == C && T%2 == 1 {
		x.a.FlushCloseOlderThan(tsOf(T)) // = FlushWithOptions{T, TC: T}
		return
	}
	x.a.FlushWithOptions(reassembly.FlushOptions{T: tsOf(T), TC: tsOf(C)})
}
func (x reasmA) pagesUsed() int { return x.a.VerifPagesUsed() }
func (x reasmA) connCount() int { return x.pool.VerifConnCount() }

// env is one StreamPool with its Assemblers.  Creating them is expensive (every classic Assembler
// allocates a 2 MB page cache), so an env is reused by the next case of the same package when the
// previous case ended *clean*: all goroutines finished without panic and the closing FlushAll left
// the pool empty.  Then every connection object is either unused or closed and in the free list,
// and a recycled object is fully re-initialised by connection.reset before use, so the next case
// cannot tell the difference from a fresh pool (a replay of a single case always starts fresh).
type env struct {
	pkg  string
	fac  *factory
	asms []assembler
	mk   func() assembler
}

var cached *env

func newEnv(pkg string) *env {
	e := &env{pkg: pkg, fac: &factory{}}
	if pkg == "asm" {
		pool := tcpassembly.NewStreamPool(&asmFactory{e.fac})
		e.mk = func() assembler { return asmA{tcpassembly.NewAssembler(pool), pool} }
	} else {
		pool := reassembly.NewStreamPool(&reasmFactory{e.fac})
		e.mk = func() assembler { return reasmA{reassembly.NewAssembler(pool), pool} }
	}
	return e
}

func (e *env) assembler(i int) assembler {
	for len(e.asms) <= i {
		e.asms = append(e.asms, e.mk())
	}
	return e.asms[i]
}

func runSchedule(sched []int) string {
	if timeouts > tooManyBlocked {
		lib.Stat("outcome:blocked-abort")
		return "blocked-abort"
	}
	lastTrace = nil
	rec := &recorder{}
	ev := cached
	cached = nil
	if ev == nil || ev.pkg != pkgTag() {
		ev = newEnv(pkgTag())
		lib.Stat("env:fresh")
	}
	ev.fac.rec = rec
	mk := func(i int) assembler { return ev.assembler(i) }
	closer := mk(0) // after the run (all goroutines ended): the closing FlushAll
	c := &controller{reports: make(chan report), dead: map[interface{}]bool{}, rec: rec, removed: map[interface{}]int{}, connCount: closer.connCount}
	for t := 0; t < nThreads; t++ {
		w := &worker{id: t, resume: make(chan bool)}
		c.ws = append(c.ws, w)
	}
	ctl, sfxCtl = c, c
	defer func() { ctl = nil }()
	// start every worker and let it run (alone) up to its first scheduling point: nothing shared is
	// touched before it
	for t, w := range c.ws {
		prog := progs[t]
		a := mk(t)
		c.spawn(w, func(w *worker) {
			for i, it := range prog {
				w.opIdx, w.inFlush, w.inOld, w.curKey = i, it.flush || it.old, it.old, [2]int{it.pair, it.dir}
				switch {
				case it.flush:
					a.flushAll()
				case it.old:
					a.flushOld(it.T, it.C)
				default:
					a.assemble(it)
				}
			}
		})
		if !c.release(w) {
			break
		}
	}
	if !c.blocked {
		c.run(sched)
	}
	lastTrace = c.trace
	// per-thread status
	var sts []string
	stuck := false
	for _, w := range c.ws {
		switch {
		case w.paniced:
			sts = append(sts, "panic")
		case w.ended:
			sts = append(sts, "done")
		default:
			sts = append(sts, "stuck")
			stuck = true
		}
	}
	clean := !stuck && !c.blocked
	for _, w := range c.ws {
		if w.paniced {
			clean = false
			sig := "pool:" + pkgTag() + ":panic:" + w.panSite
			if strings.Contains(w.panMsg, "FIXME: other dir added") {
				sig = "pool:reasm:fixme-panic"
			} else if w.panMsg == "why?" {
				sig = "pool:asm:why-panic"
			}
			finding(sig, fmt.Sprintf("assembler goroutine %d panicked: %s (%s)", w.id, w.panMsg, w.panSite))
			lib.Stat("outcome:panic")
		}
	}
	if c.blocked {
		finding("pool:"+pkgTag()+":blocked", "a released goroutine did not reach its next scheduling point (lock held that the controller believed free)")
	} else if stuck {
		finding("pool:"+pkgTag()+":deadlock", "no goroutine can move but some have not finished")
		lib.Stat("outcome:deadlock")
	}
	c.killAll()
	ctl = nil
	// closing FlushAll (uncontrolled, single goroutine): map size, exactly-once completion
	sfx := ""
	if c.stale {
		sfx = ":stale"
		lib.Stat("branch:stale-delivery")
	} else if c.foreign {
		sfx = ":frm"
	}
	mapSize := -1
	if clean {
		done := make(chan [2]int, 1)
		go func() {
			defer func() {
				if v := recover(); v != nil {
					done <- [2]int{-2, -2}
				}
			}()
			rec.final = true
			n1 := closer.flushAll()
			n2 := closer.flushAll()
			done <- [2]int{n1, n2}
		}()
		select {
		case r := <-done:
			mapSize = r[0]
			if r[0] == -2 {
				finding("pool:"+pkgTag()+":panic:closing-flush", "closing FlushAll panicked")
			} else {
				if r[1] != 0 {
					finding("pool:"+pkgTag()+":not-removed"+sfx, fmt.Sprintf("%d connection(s) still in the pool after FlushAll", r[1]))
				} else {
					cached = ev
				}
				for _, s := range rec.all {
					if s.completes == 0 && s.callbacks > 0 {
						finding("pool:"+pkgTag()+":not-completed"+sfx, fmt.Sprintf("stream s%d (key %d%s) received callbacks but was never completed, even by FlushAll", s.sid, s.pair, dirName(s.dir)))
					}
				}
				// page accounting: every connection is closed now, so every page taken from some
				// Assembler's page cache has been given back (to the cache of whichever Assembler
				// closed the connection): the `used` counters add up to zero.
				used := 0
				for _, a := range ev.asms {
					used += a.pagesUsed()
				}
				if used != 0 {
					cached = nil
				}
				if used != 0 && sfx == "" { // (a stale-pointer / foreign-remove history loses connections, hence pages: reported by its own findings)
					finding("pool:"+pkgTag()+":pages-unbalanced", fmt.Sprintf("after the closing FlushAll the page caches of the pool's Assemblers account for %d page(s) in use (want 0)", used))
				}
			}
		case <-time.After(watchdog()):
			timeouts++
			finding("pool:"+pkgTag()+":blocked", "closing FlushAll blocks: a connection mutex was left locked")
		}
	}
	if c.foreign {
		// after the double remove of reassembly's FlushWithOptions the free list may hold an object
		// twice although the case looks clean from outside: never hand such a pool on to the next case
		cached = nil
	}
	// reply
	var evs []string
	for _, e := range rec.events {
		if e != "" {
			evs = append(evs, e)
		}
	}
	out := "ok"
	if c.foreign {
		// Known defect pool:reasm:flush-remove-foreign: from the foreign remove on the free list holds a
		// live object, and what follows depends on byte-level state the model abstracts (the flusher
		// writes half.nextSeq into an object recycled while it held the mutex).  The case was run to the
		// end and monitored; the COMPARED observables are cut just before that remove (the model driver
		// does the same).
		var cutEvs []string
		for _, e := range rec.events[:c.frmCut] {
			if e != "" {
				cutEvs = append(cutEvs, e)
			}
		}
		if len(cutEvs) > 0 {
			out += " " + strings.Join(cutEvs, " ")
		}
		out += " FRM | map=? | cut"
		lib.Stat("pkg:" + curPkg)
		lib.Stat("outcome:cut-at-foreign-remove")
		lib.Nontrivial()
		return out
	}
	if len(evs) > 0 {
		out += " " + strings.Join(evs, " ")
	}
	ms := "?"
	if mapSize >= 0 {
		ms = lib.Itoa(mapSize)
	}
	out += " | map=" + ms + " | " + strings.Join(sts, " ")
	if c.blocked {
		out += " blocked"
	}
	// evidence
	lib.Stat("pkg:" + curPkg)
	lib.Stat(fmt.Sprintf("streams:%d", min(len(rec.all), 4)))
	dropped := 0
	for _, s := range rec.all {
		if s.callbacks == 0 {
			dropped++
		}
	}
	if dropped > 0 {
		lib.Stat("branch:stream-dropped-by-double-check")
		lib.Nontrivial()
	}
	// a connection was closed and a later one created (recycling), or a goroutine had to wait for a mutex
	seenC := false
	for _, e := range evs {
		if e[0] == 'c' {
			seenC = true
		} else if e[0] == 'n' && seenC {
			lib.Stat("branch:create-after-close")
			lib.Nontrivial()
			break
		}
	}
	if c.waited {
		lib.Stat("branch:waited-for-conn-mutex")
		lib.Nontrivial()
	}
	return out
}

func min(a, b int) int {
	if a < b {
		return a
	}
	return b
}

// ---------------------------------------------------------------- ops

func parseItem(s string) (item, bool) {
	if s == "flush" {
		return item{flush: true}, true
	}
	f := strings.Split(s, ":")
	if len(f) != 3 {
		return item{}, false
	}
	if f[0] == "flushold" {
		T, ok1 := atoiStrict(f[1])
		C, ok2 := atoiStrict(f[2])
		if !ok1 || !ok2 || T > 9 || C > 9 {
			return item{}, false
		}
		return item{old: true, T: T, C: C}, true
	}
	p, ok1 := atoiStrict(f[0])
	d, ok2 := atoiStrict(f[1])
	if !ok1 || !ok2 || p > 9 || d > 1 {
		return item{}, false
	}
	if strings.HasPrefix(f[2], "late") {
		ts, ok := atoiStrict(f[2][4:])
		if !ok || ts > 9 {
			return item{}, false
		}
		return item{pair: p, dir: d, kind: "late", ts: ts}, true
	}
	if f[2] != "syn" && f[2] != "fin" && f[2] != "rst" {
		return item{}, false
	}
	return item{pair: p, dir: d, kind: f[2], ts: kindTs0}, true
}

// atoiStrict: decimal digits only (what Lean's String.toNat? accepts).
func atoiStrict(s string) (int, bool) {
	if s == "" || len(s) > 6 {
		return 0, false
	}
	n := 0
	for _, ch := range s {
		if ch < '0' || ch > '9' {
			return 0, false
		}
		n = n*10 + int(ch-'0')
	}
	return n, true
}

func exec(a []string) string {
	if len(a) < 2 || a[0] != "pool" {
		return "bad-op"
	}
	switch a[1] {
	case "pkg":
		if len(a) != 3 || (a[2] != "asm" && a[2] != "reasm" && a[2] != "reasm0") {
			return "bad-op"
		}
		curPkg = a[2]
		return "ok"
	case "threads":
		if len(a) != 3 {
			return "bad-op"
		}
		n, ok := lib.Atoi(a[2])
		if !ok || n < 1 || n > 8 {
			return "bad-op"
		}
		nThreads = n
		progs = make([][]item, n)
		return "ok"
	case "prog":
		if len(a) < 3 {
			return "bad-op"
		}
		t, ok := lib.Atoi(a[2])
		if !ok || t < 0 {
			return "bad-op"
		}
		var p []item
		for _, s := range a[3:] {
			it, ok := parseItem(s)
			if !ok {
				return "bad-op"
			}
			p = append(p, it)
		}
		if t >= nThreads {
			return "bad-op"
		}
		progs[t] = p
		return "ok"
	case "sched":
		if nThreads == 0 {
			return "bad-op"
		}
		var sched []int
		for _, s := range a[2:] {
			t, ok := lib.Atoi(s)
			if !ok || t < 0 {
				return "bad-op"
			}
			sched = append(sched, t)
		}
		if curPkg != "asm" {
			for _, p := range progs {
				for _, it := range p {
					if it.kind == "rst" {
						return "bad-op"
					}
				}
			}
		}
		return runSchedule(sched)
	}
	return "bad-op"
}

func main() {
	tcpassembly.VerifYield = yield
	reassembly.VerifYield = yield
	lib.Main(lib.Engine{Name: "pool", Gen: gen, Reset: reset, Exec: exec})
}
