package main

// Generators of engine `pool`: programs (what each assembler goroutine feeds) × schedules.
//
//  A. exhaustive: 2 threads × 1 packet each, every key/kind combination up to symmetry, EVERY
//     interleaving (all 0/1 sequences with maxSteps entries per thread; entries of a thread that
//     cannot move are skipped on both sides);
//  B. 2 threads × (2+1) packets on one connection pair (both directions): every interleaving in the
//     thorough tier, every schedule with ≤ 2 preemptions in the quick tier;
//  C. curated lifecycle scenarios (create / close / recycle / flush) with every interleaving of a
//     short thread against a long one;
//  D. seeded random programs (2–3 threads, 4 in thorough; 2 pairs × 2 directions; FlushAll) with
//     random sticky schedules and with all ≤ 2-preemption schedules.

import (
	"fmt"
	"strings"

	"verif/harness/lib"
)

const stepsPerPkt = 5 // start, ins, lock, cb, rm

type caseEmitter struct {
	emit func(string)
	pkg  string
	n    int
}

func (e *caseEmitter) one(progs [][]string, sched []int) {
	e.emit("reset")
	e.emit("pool pkg " + e.pkg)
	e.emit(fmt.Sprintf("pool threads %d", len(progs)))
	for t, p := range progs {
		e.emit(fmt.Sprintf("pool prog %d %s", t, strings.Join(p, " ")))
	}
	var sb strings.Builder
	sb.WriteString("pool sched")
	for _, t := range sched {
		sb.WriteByte(' ')
		sb.WriteString(lib.Itoa(t))
	}
	e.emit(sb.String())
	e.n++
}

// interleavings calls f with every sequence containing cnt[t] copies of t.
func interleavings(cnt []int, f func([]int)) {
	total := 0
	for _, c := range cnt {
		total += c
	}
	cur := make([]int, 0, total)
	rem := append([]int(nil), cnt...)
	var rec func()
	rec = func() {
		if len(cur) == total {
			f(cur)
			return
		}
		for t := range rem {
			if rem[t] > 0 {
				rem[t]--
				cur = append(cur, t)
				rec()
				cur = cur[:len(cur)-1]
				rem[t]++
			}
		}
	}
	rec()
}

// twoPreempt: thread 0 runs i segments, thread 1 runs j segments, then thread 0 to the end, then 1
// (and the symmetric ones): all schedules of two threads with at most two preemptions.
func twoPreempt(l0, l1 int, f func([]int)) {
	for first := 0; first < 2; first++ {
		a, b := first, 1-first
		la, lb := l0, l1
		if first == 1 {
			la, lb = l1, l0
		}
		for i := 0; i <= la; i++ {
			for j := 1; j <= lb; j++ {
				var s []int
				for x := 0; x < i; x++ {
					s = append(s, a)
				}
				for x := 0; x < j; x++ {
					s = append(s, b)
				}
				for x := 0; x < la+2; x++ {
					s = append(s, a)
				}
				f(s)
			}
		}
	}
}

func kindsOf(pkg string) []string {
	if pkg == "asm" {
		return []string{"syn", "fin", "rst"}
	}
	return []string{"syn", "fin"}
}

func progLen(p []string) int {
	n := 0
	for _, it := range p {
		if it == "flush" {
			n += 2 + 3*2
		} else {
			n += stepsPerPkt
		}
	}
	return n
}

// probeReasmPkg runs the two-directions race on the real code: "reasm0" if the FIXME panic fires.
func probeReasmPkg() string {
	curPkg, nThreads = "reasm0", 2
	progs = [][]item{{{pair: 0, dir: 0, kind: "syn"}}, {{pair: 0, dir: 1, kind: "syn"}}}
	out := runSchedule([]int{0, 1, 0, 1})
	reset()
	if strings.Contains(out, "P@") {
		return "reasm0"
	}
	return "reasm"
}

func gen(r *lib.Rand, tier string, emit func(string)) {
	thorough := tier == "thorough"
	reasmPkg := probeReasmPkg()
	for _, pkg := range []string{"asm", reasmPkg} {
		e := &caseEmitter{emit: emit, pkg: pkg}
		kinds := kindsOf(pkg)
		keys3 := []string{"0:0", "0:1", "1:0"}
		// A
		for _, k0 := range kinds {
			for _, key1 := range keys3 {
				for _, k1 := range kinds {
					p := [][]string{{"0:0:" + k0}, {key1 + ":" + k1}}
					interleavings([]int{stepsPerPkt, stepsPerPkt}, func(s []int) { e.one(p, s) })
				}
			}
		}
		// B
		keys2 := []string{"0:0", "0:1"}
		for _, k0 := range kinds {
			for _, key0b := range keys2 {
				for _, k0b := range kinds {
					for _, key1 := range keys2 {
						for _, k1 := range kinds {
							p := [][]string{{"0:0:" + k0, key0b + ":" + k0b}, {key1 + ":" + k1}}
							if thorough {
								interleavings([]int{2 * stepsPerPkt, stepsPerPkt}, func(s []int) { e.one(p, s) })
							} else {
								twoPreempt(2*stepsPerPkt, stepsPerPkt, func(s []int) { e.one(p, s) })
							}
						}
					}
				}
			}
		}
		// C
		scen := [][][]string{
			{{"0:0:syn", "0:0:fin", "1:0:syn"}, {"0:0:syn"}},
			{{"0:0:syn", "0:0:fin", "1:0:syn"}, {"0:0:fin"}},
			{{"0:0:syn", "0:0:fin", "0:0:syn"}, {"0:0:syn"}},
			{{"0:0:syn", "0:0:fin", "0:1:fin", "1:0:syn"}, {"0:1:syn"}},
			{{"0:0:syn", "0:1:fin", "0:0:fin", "1:0:syn"}, {"0:0:fin"}},
			{{"0:0:syn", "1:0:syn", "flush"}, {"0:0:fin"}},
			{{"0:0:syn", "flush", "1:0:syn"}, {"0:0:syn"}},
		}
		if pkg == "asm" {
			scen = append(scen,
				[][]string{{"0:0:syn", "0:0:rst", "1:0:syn"}, {"0:0:rst"}},
				[][]string{{"0:0:rst", "0:0:fin", "0:0:rst", "flush"}, {"0:0:rst"}},
				[][]string{{"0:0:fin", "0:0:rst", "0:0:syn", "flush"}, {"0:0:syn"}},
			)
		}
		for _, p := range scen {
			l0, l1 := progLen(p[0]), progLen(p[1])
			if thorough || l0 <= 15 {
				interleavings([]int{l0, l1}, func(s []int) { e.one(p, s) })
			} else {
				twoPreempt(l0, l1, func(s []int) { e.one(p, s) })
			}
		}
		// D
		nRand := 1500
		if thorough {
			nRand = 20000
		}
		for i := 0; i < nRand; i++ {
			nt := 2 + r.Intn(2)
			if thorough && r.Chance(30) {
				nt = 4
			}
			p := make([][]string, nt)
			tot := 0
			for t := range p {
				n := 1 + r.Intn(4)
				for j := 0; j < n; j++ {
					if r.Chance(8) {
						p[t] = append(p[t], "flush")
					} else {
						pair := 0
						if r.Chance(30) {
							pair = 1
						}
						p[t] = append(p[t], fmt.Sprintf("%d:%d:%s", pair, r.Intn(2), kinds[r.Intn(len(kinds))]))
					}
				}
				tot += progLen(p[t])
			}
			if nt == 2 && r.Chance(25) {
				cnt := 0
				twoPreempt(progLen(p[0]), progLen(p[1]), func(s []int) {
					if cnt%7 == i%7 { // a seeded slice of the bounded schedules
						e.one(p, s)
					}
					cnt++
				})
				continue
			}
			reps := 4
			for q := 0; q < reps; q++ {
				var s []int
				cur := r.Intn(nt)
				stick := 30 + r.Intn(60)
				for len(s) < tot+4 {
					if !r.Chance(stick) {
						cur = r.Intn(nt)
					}
					s = append(s, cur)
				}
				e.one(p, s)
			}
		}
	}
}
