package main

// Generators of engine `pool`: programs (what each assembler goroutine feeds) × schedules.
//
//  A. exhaustive: 2 threads × 1 packet each, every key/kind combination up to symmetry, EVERY
//     interleaving (all 0/1 sequences with maxSteps entries per thread; entries of a thread that
//     cannot move are skipped on both sides);
//  B. 2 threads × (2+1) packets on one connection pair (both directions): every interleaving in the
//     thorough tier, every schedule with ≤ 2 preemptions in the quick tier;
//  C. curated lifecycle scenarios (create / close / recycle / flush) with every interleaving of a
//     short thread against a long one;
//  D. seeded random programs (2–3 threads, 4 in thorough; 2 pairs × 2 directions; FlushAll,
//     FlushWithOptions, out-of-order `late` segments) with random sticky schedules and with all
//     ≤ 2-preemption schedules;
//  E. age-based flush (`flushold`) against queued out-of-order segments and a concurrent closer /
//     creator / second flusher: 2 threads × ≤ 3 ops × 2 keys, EVERY schedule.  The schedules are
//     enumerated exactly (no duplicates, nothing skipped) by a depth-first search that runs the real
//     code: one run per maximal schedule, the alternatives at every step are the goroutines the
//     controller found enabled there.

import (
	"fmt"
	"os"
	"strings"

	"verif/harness/lib"
)

const stepsPerPkt = 5 // start, ins, lock, cb, rm

type caseEmitter struct {
	emit func(string)
	pkg  string
	n    int
}

func (e *caseEmitter) one(progs [][]string, sched []int) {
	e.emit("reset")
	e.emit("pool pkg " + e.pkg)
	e.emit(fmt.Sprintf("pool threads %d", len(progs)))
	for t, p := range progs {
		e.emit(fmt.Sprintf("pool prog %d %s", t, strings.Join(p, " ")))
	}
	var sb strings.Builder
	sb.WriteString("pool sched")
	for _, t := range sched {
		sb.WriteByte(' ')
		sb.WriteString(lib.Itoa(t))
	}
	e.emit(sb.String())
	e.n++
}

// interleavings calls f with every sequence containing cnt[t] copies of t.
func interleavings(cnt []int, f func([]int)) {
	total := 0
	for _, c := range cnt {
		total += c
	}
	cur := make([]int, 0, total)
	rem := append([]int(nil), cnt...)
	var rec func()
	rec = func() {
		if len(cur) == total {
			f(cur)
			return
		}
		for t := range rem {
			if rem[t] > 0 {
				rem[t]--
				cur = append(cur, t)
				rec()
				cur = cur[:len(cur)-1]
				rem[t]++
			}
		}
	}
	rec()
}

// twoPreempt: thread 0 runs i segments, thread 1 runs j segments, then thread 0 to the end, then 1
// (and the symmetric ones): all schedules of two threads with at most two preemptions.
func twoPreempt(l0, l1 int, f func([]int)) {
	for first := 0; first < 2; first++ {
		a, b := first, 1-first
		la, lb := l0, l1
		if first == 1 {
			la, lb = l1, l0
		}
		for i := 0; i <= la; i++ {
			for j := 1; j <= lb; j++ {
				var s []int
				for x := 0; x < i; x++ {
					s = append(s, a)
				}
				for x := 0; x < j; x++ {
					s = append(s, b)
				}
				for x := 0; x < la+2; x++ {
					s = append(s, a)
				}
				f(s)
			}
		}
	}
}

// exploreAll emits EVERY maximal schedule of the program pair `p` (any number of goroutines): a
// stateless depth-first search over the schedule tree of the real code.  A run with schedule prefix
// `pre` continues with the controller's fair round-robin; its trace tells, for every step, which
// goroutine ran and which others were enabled; every (step ≥ len(pre), other enabled goroutine) is a
// new prefix.  Each maximal schedule is the default continuation of exactly one prefix.  At most
// `max` schedules are emitted (0 = no bound); returns the number emitted and whether the bound cut.
func exploreAll(e *caseEmitter, p [][]string, max int) (int, bool) {
	curPkg, nThreads = e.pkg, len(p)
	progs = make([][]item, len(p))
	for t, pr := range p {
		for _, w := range pr {
			it, ok := parseItem(w)
			if !ok {
				panic("generator: bad item " + w)
			}
			progs[t] = append(progs[t], it)
		}
	}
	n := 0
	cut := false
	stack := [][]int{nil}
	for len(stack) > 0 {
		pre := stack[len(stack)-1]
		stack = stack[:len(stack)-1]
		if max > 0 && n >= max {
			cut = true
			break
		}
		func() {
			defer func() {
				if v := recover(); v != nil { // the controller gave up on a misbehaving (mutated) tree
					lastTrace = nil
					ctl = nil
					cached = nil
				}
			}()
			runSchedule(pre)
		}()
		tr := lastTrace
		full := make([]int, len(tr))
		for i, st := range tr {
			full[i] = st.tid
		}
		e.one(p, full)
		n++
		if len(tr) > 200 { // runaway (a mutated tree that loops): do not branch further
			continue
		}
		for i := len(tr) - 1; i >= len(pre); i-- {
			for t := len(p) - 1; t >= 0; t-- {
				if t != tr[i].tid && tr[i].enabled&(1<<uint(t)) != 0 {
					alt := make([]int, i+1)
					copy(alt, full[:i])
					alt[i] = t
					stack = append(stack, alt)
				}
			}
		}
	}
	reset()
	return n, cut
}

func kindsOf(pkg string) []string {
	if pkg == "asm" {
		return []string{"syn", "fin", "rst"}
	}
	return []string{"syn", "fin"}
}

func progLen(p []string) int {
	n := 0
	for _, it := range p {
		if it == "flush" {
			n += 2 + 3*2
		} else if strings.HasPrefix(it, "flushold") {
			n += 2 + 4*2
		} else {
			n += stepsPerPkt
		}
	}
	return n
}

// probeReasmPkg runs the two-directions race on the real code: "reasm0" if the FIXME panic fires.
func probeReasmPkg() string {
	curPkg, nThreads = "reasm0", 2
	progs = [][]item{{{pair: 0, dir: 0, kind: "syn", ts: kindTs0}}, {{pair: 0, dir: 1, kind: "syn", ts: kindTs0}}}
	out := runSchedule([]int{0, 1, 0, 1})
	reset()
	if strings.Contains(out, "P@") {
		return "reasm0"
	}
	return "reasm"
}

func gen(r *lib.Rand, tier string, emit func(string)) {
	thorough := tier == "thorough"
	dbgGen = os.Getenv("POOL_GEN_DEBUG") != ""
	reasmPkg := probeReasmPkg()
	for _, pkg := range []string{"asm", reasmPkg} {
		e := &caseEmitter{emit: emit, pkg: pkg}
		kinds := kindsOf(pkg)
		keys3 := []string{"0:0", "0:1", "1:0"}
		// A
		for _, k0 := range kinds {
			for _, key1 := range keys3 {
				for _, k1 := range kinds {
					p := [][]string{{"0:0:" + k0}, {key1 + ":" + k1}}
					interleavings([]int{stepsPerPkt, stepsPerPkt}, func(s []int) { e.one(p, s) })
				}
			}
		}
		// B
		keys2 := []string{"0:0", "0:1"}
		for _, k0 := range kinds {
			for _, key0b := range keys2 {
				for _, k0b := range kinds {
					for _, key1 := range keys2 {
						for _, k1 := range kinds {
							p := [][]string{{"0:0:" + k0, key0b + ":" + k0b}, {key1 + ":" + k1}}
							if thorough {
								interleavings([]int{2 * stepsPerPkt, stepsPerPkt}, func(s []int) { e.one(p, s) })
							} else {
								twoPreempt(2*stepsPerPkt, stepsPerPkt, func(s []int) { e.one(p, s) })
							}
						}
					}
				}
			}
		}
		// C
		scen := [][][]string{
			{{"0:0:syn", "0:0:fin", "1:0:syn"}, {"0:0:syn"}},
			{{"0:0:syn", "0:0:fin", "1:0:syn"}, {"0:0:fin"}},
			{{"0:0:syn", "0:0:fin", "0:0:syn"}, {"0:0:syn"}},
			{{"0:0:syn", "0:0:fin", "0:1:fin", "1:0:syn"}, {"0:1:syn"}},
			{{"0:0:syn", "0:1:fin", "0:0:fin", "1:0:syn"}, {"0:0:fin"}},
			{{"0:0:syn", "1:0:syn", "flush"}, {"0:0:fin"}},
			{{"0:0:syn", "flush", "1:0:syn"}, {"0:0:syn"}},
		}
		if pkg == "asm" {
			scen = append(scen,
				[][]string{{"0:0:syn", "0:0:rst", "1:0:syn"}, {"0:0:rst"}},
				[][]string{{"0:0:rst", "0:0:fin", "0:0:rst", "flush"}, {"0:0:rst"}},
				[][]string{{"0:0:fin", "0:0:rst", "0:0:syn", "flush"}, {"0:0:syn"}},
			)
		}
		for _, p := range scen {
			l0, l1 := progLen(p[0]), progLen(p[1])
			if thorough || l0 <= 15 {
				interleavings([]int{l0, l1}, func(s []int) { e.one(p, s) })
			} else {
				twoPreempt(l0, l1, func(s []int) { e.one(p, s) })
			}
		}
		// E
		genFlushOld(e, pkg, thorough)
		// D
		nRand := 1500
		if thorough {
			nRand = 20000
		}
		for i := 0; i < nRand; i++ {
			nt := 2 + r.Intn(2)
			if thorough && r.Chance(30) {
				nt = 4
			}
			p := make([][]string, nt)
			tot := 0
			for t := range p {
				n := 1 + r.Intn(4)
				for j := 0; j < n; j++ {
					if r.Chance(6) {
						p[t] = append(p[t], "flush")
					} else if r.Chance(10) {
						T := []int{2, 4, 5, 9}[r.Intn(4)]
						p[t] = append(p[t], fmt.Sprintf("flushold:%d:%d", T, []int{0, T, 9}[r.Intn(3)]))
					} else {
						pair := 0
						if r.Chance(30) {
							pair = 1
						}
						kind := kinds[r.Intn(len(kinds))]
						if r.Chance(22) {
							kind = []string{"late1", "late4", "late7"}[r.Intn(3)]
						}
						p[t] = append(p[t], fmt.Sprintf("%d:%d:%s", pair, r.Intn(2), kind))
					}
				}
				tot += progLen(p[t])
			}
			if nt == 2 && r.Chance(25) {
				cnt := 0
				twoPreempt(progLen(p[0]), progLen(p[1]), func(s []int) {
					if cnt%7 == i%7 { // a seeded slice of the bounded schedules
						e.one(p, s)
					}
					cnt++
				})
				continue
			}
			reps := 4
			for q := 0; q < reps; q++ {
				var s []int
				cur := r.Intn(nt)
				stick := 30 + r.Intn(60)
				for len(s) < tot+4 {
					if !r.Chance(stick) {
						cur = r.Intn(nt)
					}
					s = append(s, cur)
				}
				e.one(p, s)
			}
		}
	}
}

// genFlushOld: family E.  Keys: A = 0:0, A' = 0:1 (reassembly: the other direction of the same
// connection; classic: another connection), B = 1:0.
func genFlushOld(e *caseEmitter, pkg string, thorough bool) {
	asm := pkg == "asm"
	n0 := e.n
	cuts := 0
	run := func(p [][]string) {
		max := 1500
		if thorough {
			max = 60000
		}
		n, cut := exploreAll(e, p, max)
		if cut {
			cuts++
		}
		if dbgGen {
			println("  E", pkg, n, cut, fmt.Sprint(p))
		}
	}
	closers := []string{"0:0:fin", "0:0:syn", "0:0:late2", "1:0:syn"}
	if asm {
		closers = append(closers, "0:0:rst")
	} else {
		closers = append(closers, "0:1:fin", "0:1:late2")
	}
	flushers := []string{"flushold:9:0", "flushold:9:9", "flushold:2:9"}
	if thorough {
		flushers = append(flushers, "flushold:6:6", "flushold:2:0", "flushold:5:5", "flush")
	}
	// E1: thread 0 sets a connection up (started or not) with a queued out-of-order segment, then a
	// closer / another packet; thread 1 is the flusher.
	// (late2 against T = 2: a page seen exactly at T is NOT older than T)
	setups := [][]string{{"0:0:syn", "0:0:late1"}, {"0:0:late1", "0:0:syn"}, {"0:0:late1", "0:0:late2"}}
	if !asm {
		setups = append(setups, []string{"0:0:syn", "0:1:late1"}, []string{"0:0:late1", "0:1:late1"})
	} else {
		setups = append(setups, []string{"0:0:late1", "0:0:rst"}, []string{"0:0:late2", "0:0:syn"})
	}
	for _, su := range setups {
		for _, cl := range closers {
			for _, fl := range flushers {
				run([][]string{{su[0], su[1], cl}, {fl}})
			}
		}
	}
	// E2: the flusher's thread goes on (recycling the object it just closed) / two flushers.
	for _, su := range setups[:3] {
		run([][]string{{su[0], su[1], "flushold:9:9"}, {"flushold:9:0", "1:0:syn"}})
		run([][]string{{su[0], su[1]}, {"flushold:9:9", "0:0:syn"}})
		run([][]string{{su[0], su[1]}, {"flushold:2:9", "1:0:late1", "flushold:9:9"}})
		if thorough {
			run([][]string{{su[0], su[1], "1:0:late1"}, {"flushold:9:9", "flushold:9:9"}})
			run([][]string{{su[0], su[1], "flush"}, {"flushold:9:9", "1:0:syn"}})
		}
	}
	// E3: two keys, one flush visiting both connections while the other thread closes / re-creates.
	e3 := [][][]string{
		{{"0:0:late1", "1:0:late1", "flushold:9:9"}, {"0:0:syn"}},
		{{"0:0:late1", "1:0:late1", "flushold:9:9"}, {"1:0:fin"}},
		{{"0:0:late1", "1:0:late1"}, {"flushold:9:9", "0:0:syn"}},
		{{"0:0:syn", "1:0:syn", "flushold:9:9"}, {"1:0:late1"}},
		{{"0:0:syn", "1:0:syn", "flushold:9:9"}, {"0:0:fin"}},
		// lastSeen exactly at T / TC: not idle
		{{"0:0:syn", "1:0:late1", "flushold:5:5"}, {"flushold:6:6"}},
		{{"0:0:late2", "1:0:syn", "flushold:2:2"}, {"flushold:5:5", "0:0:late3"}},
	}
	if !asm {
		e3 = append(e3,
			[][]string{{"0:0:fin", "0:1:fin", "1:0:syn"}, {"flushold:9:9"}},
			[][]string{{"0:0:fin", "0:1:late1", "flushold:9:9"}, {"0:1:syn"}},
			[][]string{{"0:0:late1", "0:1:late1", "flushold:2:2"}, {"flushold:9:9"}},
		)
	} else {
		e3 = append(e3,
			[][]string{{"0:0:syn", "0:0:late1", "0:0:rst"}, {"flushold:9:0", "flushold:9:0"}},
			[][]string{{"0:0:late1", "0:0:rst", "flushold:6:0"}, {"flushold:9:9"}},
		)
	}
	for _, p := range e3 {
		run(p)
	}
	if dbgGen {
		println("gen E", pkg, e.n-n0, "cases,", cuts, "program pairs cut")
	}
}

var dbgGen = false
