package main

// Controlled scheduler for the verif yield hooks (DESIGN.md §5 C12).
//
// Every assembler goroutine ("worker") is stopped at each scheduling point (the verifYield hooks of
// tcpassembly / reassembly, plus a yield inside the scripted Stream's Reassembled callback).  The
// controller releases exactly one worker at a time and waits until it reports the next scheduling
// point (or that it finished / panicked).  Lock ownership is tracked from the scheduling points
// alone: the pool lock is never held at a scheduling point; a connection mutex is held by a worker
// exactly while it sits at "cb" or at a "remove.lock" reached from a connection lock.  A worker is
// released only if the lock it is about to take is free, so a released worker can always run to its
// next scheduling point; a watchdog reports `blocked` if it does not.

import (
	"fmt"
	"runtime/debug"
	"time"

	"verif/harness/lib"
)

type report struct {
	w     *worker
	point string      // scheduling point reached; "" = the goroutine ended
	lock  interface{} // identity of the lock about to be taken
	pan   interface{} // recovered panic value (goroutine ended by panic)
	site  string
}

type killed struct{}

type worker struct {
	id      int
	resume  chan bool // true = go on, false = unwind (end of case)
	point   string    // current scheduling point ("" before start / after end)
	lock    interface{}
	holds   interface{} // connection whose mutex this worker holds (nil = none)
	lastCon interface{} // connection of the last *.connlock point
	lookupEpoch int     // removed[lastCon] when the goroutine arrived at that point
	ended   bool
	paniced bool
	panMsg  string
	panSite string
	opIdx   int  // index of the op being executed
	inFlush bool // current op is FlushAll
	curKey  [2]int
}

type controller struct {
	ws      []*worker
	cur     *worker
	reports chan report
	blocked bool
	dead    map[interface{}]bool // connection mutexes left locked by a goroutine that panicked
	rec     *recorder
	waited  bool // some schedule entry named a goroutine that was waiting for a connection mutex
	removed map[interface{}]int // per connection object: completed `remove` segments (nested in its mutex)
	stale   bool                // a callback ran on a connection that was removed since the goroutine looked it up
}

var ctl *controller // nil outside a controlled run

// watchdog: a released goroutine must report within this time.  When many cases block (a mutation
// that really deadlocks), the timeout shrinks so that a run stays bounded; past tooManyBlocked the
// adapter stops executing schedules (every further case answers `blocked-abort`).
var timeouts int

const tooManyBlocked = 400

func watchdog() time.Duration {
	if timeouts > 10 {
		return 200 * time.Millisecond
	}
	return 3 * time.Second
}

// yield is called (through the hooks) by the running worker.
func yield(point string, lock interface{}) {
	c := ctl
	if c == nil || c.cur == nil {
		return
	}
	w := c.cur
	c.reports <- report{w: w, point: point, lock: lock}
	if ok := <-w.resume; !ok {
		panic(killed{})
	}
}

func (c *controller) spawn(w *worker, body func(w *worker)) {
	go func() {
		defer func() {
			v := recover()
			if _, isKill := v.(killed); isKill {
				v = nil
			}
			site := ""
			if v != nil {
				site = panicSiteOf(string(debug.Stack()))
			}
			c.reports <- report{w: w, point: "", pan: v, site: site}
		}()
		if ok := <-w.resume; !ok {
			return
		}
		body(w)
	}()
}

// release lets w run one segment and waits for its report.  Returns false on watchdog timeout.
func (c *controller) release(w *worker) bool {
	c.cur = w
	prevPoint := w.point
	w.resume <- true
	var r report
	select {
	case r = <-c.reports:
	case <-time.After(watchdog()):
		timeouts++
		c.blocked = true
		c.cur = nil
		return false
	}
	c.cur = nil
	if prevPoint == "remove.lock" && w.holds != nil {
		c.removed[w.holds]++ // the nested remove segment has run
	}
	if r.w != w {
		panic(fmt.Sprintf("scheduler: report from worker %d while %d was running", r.w.id, w.id))
	}
	w.point, w.lock = r.point, r.lock
	switch r.point {
	case "asm.connlock", "flush.connlock":
		w.lastCon = r.lock
		w.lookupEpoch = c.removed[r.lock]
		w.holds = nil
	case "cb":
		w.holds = w.lastCon
	case "remove.lock":
		// nested inside the connection's critical section when reached from connlock / cb
		if prevPoint == "asm.connlock" || prevPoint == "flush.connlock" || prevPoint == "cb" {
			w.holds = w.lastCon
		} else {
			w.holds = nil
		}
	case "":
		w.ended = true
		if r.pan != nil {
			w.paniced = true
			c.rec.log(fmt.Sprintf("P@%d", w.id))
			w.panMsg = fmt.Sprint(r.pan)
			w.panSite = r.site
			// A panic does not unlock a sync.Mutex unless the Unlock was deferred:
			// tcpassembly never defers; reassembly defers in AssembleWithContext only.
			held := w.holds
			if prevPoint == "asm.connlock" || prevPoint == "flush.connlock" {
				held = w.lastCon
			}
			if held != nil && (curPkg == "asm" || w.inFlush) {
				c.dead[held] = true
			}
		}
		w.holds = nil
	default:
		w.holds = nil
	}
	return true
}

func (c *controller) enabled(w *worker) bool {
	if w.ended {
		return false
	}
	if w.point == "asm.connlock" || w.point == "flush.connlock" {
		if c.dead[w.lock] {
			return false
		}
		for _, o := range c.ws {
			if o != w && o.holds != nil && o.holds == w.lock {
				return false
			}
		}
	}
	return true
}

// run executes the schedule, then fair round-robin until nobody can move.
func (c *controller) run(sched []int) {
	for _, t := range sched {
		if c.blocked {
			return
		}
		if t < 0 || t >= len(c.ws) {
			continue
		}
		if w := c.ws[t]; c.enabled(w) {
			lib.Stat("point:" + w.point)
			c.release(w)
		} else if !w.ended {
			lib.Stat("sched:skip-blocked")
			c.waited = true
		}
	}
	fuel := 20000
	for moved := true; moved && fuel > 0 && !c.blocked; {
		moved = false
		for _, w := range c.ws {
			if c.blocked {
				return
			}
			if c.enabled(w) {
				lib.Stat("point:" + w.point)
				c.release(w)
				moved = true
				fuel--
			}
		}
	}
}

// killAll unwinds the workers still parked at a scheduling point.
func (c *controller) killAll() {
	if c.blocked {
		return // a goroutine is wedged inside the library; leave everything as it is
	}
	for _, w := range c.ws {
		if !w.ended {
			c.cur = w
			w.resume <- false
			select {
			case <-c.reports:
			case <-time.After(watchdog()):
				timeouts++
				c.cur = nil
				return
			}
			c.cur = nil
			w.ended = true
		}
	}
}

func panicSiteOf(stack string) string {
	// first frame inside the gopacket module
	lines := splitLines(stack)
	for _, l := range lines {
		if i := indexOf(l, "/tcpassembly/"); i >= 0 && indexOf(l, ".go:") >= 0 && indexOf(l, "/verif/") < 0 {
			return trimSite(l[i+1:])
		}
		if i := indexOf(l, "/reassembly/"); i >= 0 && indexOf(l, ".go:") >= 0 && indexOf(l, "/verif/") < 0 {
			return trimSite(l[i+1:])
		}
	}
	return "?"
}
