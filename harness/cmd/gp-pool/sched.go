package main

// Controlled scheduler for the verif yield hooks (DESIGN.md §5 C12).
//
// Every assembler goroutine ("worker") is stopped at each scheduling point (the verifYield hooks of
// tcpassembly / reassembly, plus a yield inside the scripted Stream's Reassembled callback).  The
// controller releases exactly one worker at a time and waits until it reports the next scheduling
// point (or that it finished / panicked).  Lock ownership is tracked from the scheduling points
// alone: the pool lock is never held at a scheduling point; a connection mutex is held by a worker
// exactly while it sits at "cb" or at a "remove.lock" reached from a connection lock — except the
// second remove of reassembly's FlushWithOptions, which runs AFTER conn.mu.Unlock(): a "remove.lock"
// reached from "flush.connlock" without a ReassemblyComplete callback in the same segment
// (closeHalfConnection calls remove only directly after ReassemblyComplete), or from the nested
// "remove.lock".  A worker is released only if the lock it is about to take is free, so a released
// worker can always run to its next scheduling point; a watchdog reports `blocked` if it does not.

import (
	"fmt"
	"reflect"
	"runtime"
	"runtime/debug"
	"time"

	"verif/harness/lib"
)

type report struct {
	w     *worker
	point string      // scheduling point reached; "" = the goroutine ended
	lock  interface{} // identity of the lock about to be taken
	pan   interface{} // recovered panic value (goroutine ended by panic)
	site  string
}

type killed struct{}

type worker struct {
	id      int
	resume  chan bool // true = go on, false = unwind (end of case)
	point   string    // current scheduling point ("" before start / after end)
	lock    interface{}
	holds   interface{} // connection whose mutex this worker holds (nil = none)
	lastCon interface{} // connection of the last *.connlock point
	lookupEpoch int     // removed[lastCon] when the goroutine arrived at that point
	ended   bool
	paniced bool
	panMsg  string
	panSite string
	opIdx   int  // index of the op being executed
	inFlush bool // current op is FlushAll / FlushWithOptions
	inOld   bool // current op is FlushWithOptions
	curKey  [2]int
	segComplete bool        // a ReassemblyComplete callback ran in the segment being executed
	rmCon       interface{} // connection a "remove.lock" point belongs to
	rmNested    bool        // … reached inside that connection's critical section
	snapRemoved map[interface{}]int // `removed` counters at the time of the current Flush* call's snapshot
	gid         uint64              // goroutine id of the worker's goroutine
}

type controller struct {
	ws      []*worker
	cur     *worker
	reports chan report
	blocked bool
	dead    map[interface{}]bool // connection mutexes left locked by a goroutine that panicked
	rec     *recorder
	waited  bool // some schedule entry named a goroutine that was waiting for a connection mutex
	removed map[interface{}]int // per connection object: completed `remove` segments (nested in its mutex)
	stale   bool                // a callback ran on a connection that was removed since the goroutine looked it up
	foreign bool                // an un-nested remove (reassembly FlushWithOptions) deleted a map entry
	frmCut  int                 // number of recorded events before the first such remove
	connCount func() int        // number of entries of the pool's map (only called while no goroutine runs)
	trace   []traceStep         // every release: who ran, who could have run (used by the exhaustive generator)
}

type traceStep struct {
	tid     int
	enabled uint32 // bit t: goroutine t could have been released instead
}

// lastTrace is the trace of the most recent controlled run.
var lastTrace []traceStep

func (c *controller) note(w *worker) {
	var m uint32
	for i, o := range c.ws {
		if c.enabled(o) {
			m |= 1 << uint(i)
		}
	}
	c.trace = append(c.trace, traceStep{w.id, m})
}

var ctl *controller // nil outside a controlled run

// watchdog: a released goroutine must report within this time.  When many cases block (a mutation
// that really deadlocks), the timeout shrinks so that a run stays bounded; past tooManyBlocked the
// adapter stops executing schedules (every further case answers `blocked-abort`).
var timeouts int

const tooManyBlocked = 400

func watchdog() time.Duration {
	if timeouts > 10 {
		return 200 * time.Millisecond
	}
	if timeouts >= 3 {
		return 3 * time.Second
	}
	// generous for the first timeouts: on a heavily loaded machine a healthy goroutine has been seen to need
	// more than 3 s to be scheduled; a tree that really blocks costs 3 × 30 s before the timeout shrinks
	return 30 * time.Second
}

// zombies: some earlier case ended `blocked`, i.e. left a goroutine wedged inside the library.  Such a
// goroutine may come back to life later (a mutated tree that spins and then reaches a hook) while another
// case is running; from then on every hook call checks, by goroutine id, that it comes from the worker
// the controller released, and parks any other caller for good.
var zombies bool

func goid() uint64 {
	var buf [64]byte
	n := runtime.Stack(buf[:], false)
	// "goroutine 123 [running]:"
	var id uint64
	for _, ch := range buf[len("goroutine "):n] {
		if ch < '0' || ch > '9' {
			break
		}
		id = id*10 + uint64(ch-'0')
	}
	return id
}

// running returns the worker on whose behalf the calling goroutine executes (nil: none / a zombie).
func running() *worker {
	c := ctl
	if c == nil || c.cur == nil {
		return nil
	}
	w := c.cur
	if zombies && goid() != w.gid {
		return nil
	}
	return w
}

// yield is called (through the hooks) by the running worker.
func yield(point string, lock interface{}) {
	c := ctl
	if zombies {
		if w := running(); w == nil {
			if c != nil && c.cur != nil {
				select {} // a zombie of an earlier, blocked case: park it
			}
			return
		}
	}
	if c == nil || c.cur == nil {
		return
	}
	w := c.cur
	c.reports <- report{w: w, point: point, lock: lock}
	if ok := <-w.resume; !ok {
		panic(killed{})
	}
}

func (c *controller) spawn(w *worker, body func(w *worker)) {
	go func() {
		defer func() {
			v := recover()
			if _, isKill := v.(killed); isKill {
				v = nil
			}
			site := ""
			if v != nil {
				site = panicSiteOf(string(debug.Stack()))
			}
			c.reports <- report{w: w, point: "", pan: v, site: site}
		}()
		w.gid = goid()
		if ok := <-w.resume; !ok {
			return
		}
		body(w)
	}()
}

// release lets w run one segment and waits for its report.  Returns false on watchdog timeout.
func (c *controller) release(w *worker) bool {
	c.cur = w
	prevPoint := w.point
	w.segComplete = false
	if (prevPoint == "asm.connlock" || prevPoint == "flush.connlock") && w.lastCon != nil &&
		c.removed[w.lastCon] != w.lookupEpoch && connOpen(w.lastCon) {
		// w is about to lock a connection object that was removed from the pool after w obtained the
		// pointer, and the object is open again: it has been recycled (connection.reset) for another
		// connection.  Whatever w does now (deliver, queue, close, flush) it does to the wrong connection.
		lib.Stat("branch:stale-use")
		if !c.stale {
			c.stale = true
			finding("pool:"+pkgTag()+":stale-delivery", fmt.Sprintf("goroutine %d locks and uses a connection object that was closed, removed from the pool and recycled (connection.reset) after the goroutine obtained its pointer", w.id))
		}
	}
	before := -1
	evBefore := 0
	if prevPoint == "remove.lock" && !w.rmNested && c.connCount != nil {
		before = c.connCount()
		evBefore = len(c.rec.events)
	}
	w.resume <- true
	var r report
	select {
	case r = <-c.reports:
	case <-time.After(watchdog()):
		timeouts++
		zombies = true
		c.blocked = true
		c.cur = nil
		return false
	}
	c.cur = nil
	if prevPoint == "remove.lock" && w.holds != nil {
		c.removed[w.holds]++ // the nested remove segment has run
	}
	if before >= 0 {
		// The un-nested remove of reassembly's FlushWithOptions.  It is called only for a connection
		// whose halves are both closed; closeHalfConnection removed that connection from the pool
		// when its stream was completed (the scripted ReassemblyComplete returns true), so an entry
		// deleted now belongs to another connection stored under the same key, or to the same
		// object recycled for a new connection.
		lib.Stat("branch:unnested-remove")
		if after := c.connCount(); after < before {
			c.removed[w.rmCon]++
			if !c.foreign {
				c.foreign = true
				c.frmCut = evBefore
				finding("pool:"+pkgTag()+":flush-remove-foreign", "FlushWithOptions: the remove() after conn.mu.Unlock() deleted a map entry although the visited connection had already been removed from the pool when it was completed")
			}
		}
	}
	if r.w != w {
		panic(fmt.Sprintf("scheduler: report from worker %d while %d was running", r.w.id, w.id))
	}
	w.point, w.lock = r.point, r.lock
	switch r.point {
	case "asm.connlock":
		w.lastCon = r.lock
		w.lookupEpoch = c.removed[r.lock]
		w.holds = nil
	case "flush.connlock":
		// a Flush* call obtained ALL its pointers when it took the snapshot of the pool
		if prevPoint == "conns.rlock" || w.snapRemoved == nil {
			w.snapRemoved = make(map[interface{}]int, len(c.removed))
			for k, v := range c.removed {
				w.snapRemoved[k] = v
			}
		}
		w.lastCon = r.lock
		w.lookupEpoch = w.snapRemoved[r.lock]
		w.holds = nil
	case "cb":
		w.holds = w.lastCon
	case "remove.lock":
		// nested inside the connection's critical section when reached from connlock / cb
		w.rmCon = w.lastCon
		w.rmNested = prevPoint == "asm.connlock" || prevPoint == "flush.connlock" || prevPoint == "cb"
		if curPkg != "asm" && w.inOld && !w.segComplete {
			w.rmNested = false // FlushWithOptions: remove after conn.mu.Unlock()
		}
		if w.rmNested {
			w.holds = w.lastCon
		} else {
			w.holds = nil
		}
	case "":
		w.ended = true
		if r.pan != nil {
			w.paniced = true
			c.rec.log(fmt.Sprintf("P@%d", w.id))
			w.panMsg = fmt.Sprint(r.pan)
			w.panSite = r.site
			// A panic does not unlock a sync.Mutex unless the Unlock was deferred:
			// tcpassembly never defers; reassembly defers in AssembleWithContext only.
			held := w.holds
			if prevPoint == "asm.connlock" || prevPoint == "flush.connlock" {
				held = w.lastCon
			}
			if held != nil && (curPkg == "asm" || w.inFlush) {
				c.dead[held] = true
			}
		}
		w.holds = nil
	default:
		w.holds = nil
	}
	return true
}

func (c *controller) enabled(w *worker) bool {
	if w.ended {
		return false
	}
	if w.point == "asm.connlock" || w.point == "flush.connlock" {
		if c.dead[w.lock] {
			return false
		}
		for _, o := range c.ws {
			if o != w && o.holds != nil && o.holds == w.lock {
				return false
			}
		}
	}
	return true
}

// run executes the schedule, then fair round-robin until nobody can move.
func (c *controller) run(sched []int) {
	for _, t := range sched {
		if c.blocked {
			return
		}
		if t < 0 || t >= len(c.ws) {
			continue
		}
		if w := c.ws[t]; c.enabled(w) {
			lib.Stat("point:" + w.point)
			c.note(w)
			c.release(w)
		} else if !w.ended {
			lib.Stat("sched:skip-blocked")
			c.waited = true
		}
	}
	fuel := 20000
	for moved := true; moved && fuel > 0 && !c.blocked; {
		moved = false
		for _, w := range c.ws {
			if c.blocked {
				return
			}
			if c.enabled(w) {
				lib.Stat("point:" + w.point)
				c.note(w)
				c.release(w)
				moved = true
				fuel--
			}
		}
	}
}

// killAll unwinds the workers still parked at a scheduling point.
func (c *controller) killAll() {
	if c.blocked {
		return // a goroutine is wedged inside the library; leave everything as it is
	}
	for _, w := range c.ws {
		if !w.ended {
			c.cur = w
			w.resume <- false
			select {
			case <-c.reports:
			case <-time.After(watchdog()):
				timeouts++
				c.cur = nil
				return
			}
			c.cur = nil
			w.ended = true
		}
	}
}

func panicSiteOf(stack string) string {
	// first frame inside the gopacket module
	lines := splitLines(stack)
	for _, l := range lines {
		if i := indexOf(l, "/tcpassembly/"); i >= 0 && indexOf(l, ".go:") >= 0 && indexOf(l, "/verif/") < 0 {
			return trimSite(l[i+1:])
		}
		if i := indexOf(l, "/reassembly/"); i >= 0 && indexOf(l, ".go:") >= 0 && indexOf(l, "/verif/") < 0 {
			return trimSite(l[i+1:])
		}
	}
	return "?"
}

// connOpen reads, by reflection, whether the connection object behind a lock identity is open
// (tcpassembly: !closed; reassembly: not both halves closed).  Used only to classify a case as one of
// the known stale-pointer histories; called while no goroutine runs.
func connOpen(lock interface{}) bool {
	v := reflect.ValueOf(lock)
	if v.Kind() != reflect.Ptr || v.IsNil() || v.Elem().Kind() != reflect.Struct {
		return false
	}
	e := v.Elem()
	if f := e.FieldByName("closed"); f.IsValid() && f.Kind() == reflect.Bool {
		return !f.Bool()
	}
	open := false
	for _, n := range []string{"c2s", "s2c"} {
		h := e.FieldByName(n)
		if !h.IsValid() || h.Kind() != reflect.Struct {
			return false
		}
		if f := h.FieldByName("closed"); f.IsValid() && f.Kind() == reflect.Bool && !f.Bool() {
			open = true
		}
	}
	return open
}
