package main

import (
	"fmt"
	"go/ast"
	goparser "go/parser"
	"go/token"
	"net"
	"os"
	"path/filepath"
	"sort"
	"strconv"

	"github.com/gopacket/gopacket"
	"github.com/gopacket/gopacket/layers"
	"verif/harness/lib"
)

// ---------------------------------------------------------------- fixtures

// literals collects every `[]byte{…}` literal (all elements literal) from the repository's own
// layers/*_test.go files.
func literals() [][]byte {
	repo := os.Getenv("VERIF_REPO")
	if repo == "" {
		repo = "/repo"
	}
	files, _ := filepath.Glob(filepath.Join(repo, "layers", "*_test.go"))
	sort.Strings(files)
	var out [][]byte
	fset := token.NewFileSet()
	for _, fn := range files {
		f, err := goparser.ParseFile(fset, fn, nil, 0)
		if err != nil {
			continue
		}
		ast.Inspect(f, func(n ast.Node) bool {
			cl, ok := n.(*ast.CompositeLit)
			if !ok {
				return true
			}
			at, ok := cl.Type.(*ast.ArrayType)
			if !ok || at.Len != nil {
				return true
			}
			id, ok := at.Elt.(*ast.Ident)
			if !ok || (id.Name != "byte" && id.Name != "uint8") {
				return true
			}
			b := make([]byte, 0, len(cl.Elts))
			for _, e := range cl.Elts {
				bl, ok := e.(*ast.BasicLit)
				if !ok {
					return true
				}
				switch bl.Kind {
				case token.INT:
					v, err := strconv.ParseUint(bl.Value, 0, 8)
					if err != nil {
						return true
					}
					b = append(b, byte(v))
				case token.CHAR:
					s, err := strconv.Unquote(bl.Value)
					if err != nil || len(s) != 1 {
						return true
					}
					b = append(b, s[0])
				default:
					return true
				}
			}
			if len(b) >= 2 && len(b) <= 1600 {
				out = append(out, b)
			}
			return true
		})
	}
	return out
}

type fixtures map[string][][]byte

// harvest decodes every test literal of the repository with several first decoders (recovery on) and
// keeps the bytes (contents ++ payload) of every layer of this engine found in them.
func harvest(fx fixtures) {
	seen := map[string]bool{}
	add := func(kind string, b []byte) {
		if len(b) > 400 {
			b = b[:400]
		}
		k := kind + string(b)
		if !seen[k] {
			seen[k] = true
			fx[kind] = append(fx[kind], append([]byte(nil), b...))
		}
	}
	firsts := []gopacket.Decoder{layers.LayerTypeLinuxSLL, layers.LayerTypeLinuxSLL2, layers.LayerTypeEthernet, layers.LayerTypeIPv4,
		layers.LayerTypeIPv6, layers.LayerTypeEtherIP, layers.LayerTypeUDPLite, layers.LayerTypeRUDP}
	for _, lit := range literals() {
		for _, first := range firsts {
			func() {
				defer func() { recover() }()
				p := gopacket.NewPacket(lit, first, gopacket.DecodeOptions{})
				for _, l := range p.Layers() {
					if k := kindOf(l); k != "" {
						add(k, append(append([]byte(nil), l.LayerContents()...), l.LayerPayload()...))
					}
				}
			}()
		}
	}
}

func be16(v int) []byte { return []byte{byte(v >> 8), byte(v)} }
func be32(v uint32) []byte {
	return []byte{byte(v >> 24), byte(v >> 16), byte(v >> 8), byte(v)}
}

func cat(bs ...[]byte) []byte {
	var out []byte
	for _, b := range bs {
		out = append(out, b...)
	}
	return out
}

// built fixtures: none of the five layers can be serialised by the repository, so the headers are made by
// hand and the inner packets by the repository's own serializers.
func built(r *lib.Rand, fx fixtures) {
	ser := func(ls ...gopacket.SerializableLayer) (out []byte) {
		defer func() {
			if recover() != nil {
				out = nil
			}
		}()
		b := gopacket.NewSerializeBuffer()
		if err := gopacket.SerializeLayers(b, gopacket.SerializeOptions{FixLengths: true, ComputeChecksums: true}, ls...); err != nil {
			return nil
		}
		return append([]byte(nil), b.Bytes()...)
	}
	ip4 := &layers.IPv4{Version: 4, IHL: 5, TTL: 64, Protocol: layers.IPProtocolUDP, SrcIP: net.IP{10, 0, 0, 1}, DstIP: net.IP{10, 0, 0, 2}}
	udp4 := &layers.UDP{SrcPort: 1000, DstPort: 2000}
	udp4.SetNetworkLayerForChecksum(ip4)
	ip6 := &layers.IPv6{Version: 6, HopLimit: 64, NextHeader: layers.IPProtocolUDP, SrcIP: net.ParseIP("fe80::1"), DstIP: net.ParseIP("fe80::2")}
	udp6 := &layers.UDP{SrcPort: 1000, DstPort: 2000}
	udp6.SetNetworkLayerForChecksum(ip6)
	eth := &layers.Ethernet{SrcMAC: net.HardwareAddr{0, 0x1b, 0x21, 0x3c, 0xab, 0x10}, DstMAC: net.HardwareAddr{0x52, 0x54, 0, 0x12, 0x35, 2}, EthernetType: layers.EthernetTypeIPv4}
	arp := &layers.ARP{AddrType: layers.LinkTypeEthernet, Protocol: layers.EthernetTypeIPv4, Operation: 1, SourceHwAddress: r.Bytes(6),
		SourceProtAddress: r.Bytes(4), DstHwAddress: r.Bytes(6), DstProtAddress: r.Bytes(4)}
	v4 := ser(ip4, udp4, gopacket.Payload(r.Bytes(5)))
	v6 := ser(ip6, udp6, gopacket.Payload(r.Bytes(3)))
	ethv4 := ser(eth, ip4, udp4, gopacket.Payload(r.Bytes(2)))
	arpb := ser(arp)
	inner := map[int][]byte{0x0800: v4, 0x86dd: v6, 0x0806: arpb, 0x6558: ethv4, 0x1234: r.Bytes(7), 0x0004: {0xaa, 0xaa, 3, 0, 0, 0, 8, 0}, 0x0001: r.Bytes(4), 0: {}}
	etypes := []int{0x0800, 0x86dd, 0x0806, 0x6558, 0x1234, 0x0004, 0x0001, 0}

	// LinuxSLL: packet type, ARPHRD, address length, 8 address bytes, protocol
	sll := func(pt, hat, alen, et int, addr, payload []byte) []byte {
		return cat(be16(pt), be16(hat), be16(alen), addr, be16(et), payload)
	}
	for _, alen := range []int{6, 0, 1, 2, 7, 8, 9, 10, 16, 17, 255, 256, 0x0106, 0xfffa, 0xffff} {
		for _, et := range []int{0x0800, 0x1234} {
			fx["sll"] = append(fx["sll"], sll(r.Intn(5), 1, alen, et, r.Bytes(8), inner[et]))
		}
	}
	for _, et := range etypes {
		fx["sll"] = append(fx["sll"], sll(r.Intn(7), r.Pick([]int{1, 772, 803}), 6, et, r.Bytes(8), inner[et]))
	}
	fx["sll"] = append(fx["sll"], sll(4, 1, 6, 0x0800, r.Bytes(8), nil)) // header only

	// LinuxSLL2: protocol, reserved, ifindex, ARPHRD, packet type, address length, 8 address bytes
	sll2 := func(proto, hat, pt, alen int, payload []byte) []byte {
		return cat(be16(proto), r.Bytes(2), be32(uint32(r.U64())), be16(hat), []byte{byte(pt), byte(alen)}, r.Bytes(8), payload)
	}
	for _, alen := range []int{6, 0, 1, 7, 8, 9, 16, 17, 128, 255} {
		fx["sll2"] = append(fx["sll2"], sll2(0x0800, 1, r.Intn(5), alen, v4))
	}
	for _, hat := range []int{1, 770, 772, 778, 803, 0, 65535} {
		for _, proto := range []int{0x0800, 0x86dd, 1, 3, 4, 0xc, 0x0806, 0x1234, 0x6558} {
			p := inner[proto]
			if hat == 778 {
				p = ethv4
			}
			fx["sll2"] = append(fx["sll2"], sll2(proto, hat, r.Intn(7), 6, p))
		}
	}
	fx["sll2"] = append(fx["sll2"], sll2(0x0800, 1, 0, 6, nil)) // header only

	// EtherIP: version nibble, 12 reserved bits, an Ethernet frame
	for _, h := range [][]byte{{0x30, 0x00}, {0x3f, 0xff}, {0x00, 0x00}, {0xff, 0xff}, {0x12, 0x34}} {
		fx["etherip"] = append(fx["etherip"], cat(h, ethv4), cat(h, r.Bytes(3)), h)
	}

	// UDPLite: ports, checksum coverage, checksum
	for _, cov := range []int{0, 7, 8, 9, 20, 65535} {
		for _, n := range []int{0, 1, 12, 33} {
			fx["udplite"] = append(fx["udplite"], cat(be16(r.Intn(65536)), be16(r.Intn(65536)), be16(cov), r.Bytes(2), r.Bytes(n)))
		}
	}
	fx["udplite"] = append(fx["udplite"], cat(be16(0), be16(0), be16(0), be16(0)), cat(be16(65535), be16(65535), be16(8), be16(65535), r.Bytes(4)),
		cat(be16(53), be16(53), be16(8), be16(1), r.Bytes(4))) // equal ports: the flow is its own reverse

	// RUDP: flags|version, header length (16-bit words), ports, data length, seq, ack, checksum, variable part, data
	rudp := func(flags, hl, dl int, variable, data []byte) []byte {
		return cat([]byte{byte(flags), byte(hl), byte(r.Intn(256)), byte(r.Intn(256))}, be16(dl), r.Bytes(12), variable, data)
	}
	for _, n := range []int{0, 1, 9, 40} {
		fx["rudp"] = append(fx["rudp"], rudp(0x40|1, 9, n, nil, r.Bytes(n)))            // ACK, no variable part
		fx["rudp"] = append(fx["rudp"], rudp(0x80|1, 12, n, r.Bytes(6), r.Bytes(n)))     // SYN with its 6 bytes
		fx["rudp"] = append(fx["rudp"], rudp(0x80|0x40|1, 12, n, r.Bytes(6), r.Bytes(n))) // SYN+ACK
		fx["rudp"] = append(fx["rudp"], rudp(0x08, 9, n, nil, r.Bytes(n+3)))             // NUL, trailing bytes beyond DataLength
		for _, k := range []int{0, 1, 2, 3, 5} {
			fx["rudp"] = append(fx["rudp"], rudp(0x20|0x40|1, 9+2*k, n, r.Bytes(4*k), r.Bytes(n))) // EACK with k sequence numbers
		}
	}
	fx["rudp"] = append(fx["rudp"],
		rudp(0x80, 11, 0, r.Bytes(4), nil),          // SYN, variable part of 4 bytes: invalid
		rudp(0x80, 13, 0, r.Bytes(8), nil),          // SYN, 8 bytes: invalid
		rudp(0x80, 9, 0, nil, nil),                  // SYN, none: invalid
		rudp(0x20, 10, 0, r.Bytes(2), nil),          // EACK, 2 bytes: invalid
		rudp(0x20, 12, 0, r.Bytes(6), nil),          // EACK, 6 bytes: invalid
		rudp(0x80|0x20, 12, 2, r.Bytes(6), r.Bytes(2)), // SYN and EACK: SYN wins
		rudp(0x80|0x20, 11, 0, r.Bytes(4), nil),     // SYN and EACK, 4 bytes: SYN error although a valid EACK
		rudp(0x10, 10, 1, r.Bytes(2), r.Bytes(1)),   // RST, unparsed variable part
		rudp(0x00, 8, 0, nil, nil),                  // header length below 9
		rudp(0x00, 0, 0, nil, nil),
		rudp(0x20, 255, 0, r.Bytes(510-18), nil),    // largest header: 123 sequence numbers
		rudp(0x20, 255, 3, r.Bytes(510-18), r.Bytes(3)),
		rudp(0x40, 9, 65535, nil, r.Bytes(20)),      // data length beyond the packet
		rudp(0x40, 9, 5, nil, r.Bytes(4)),           // one byte short
		rudp(0x40, 40, 0, r.Bytes(10), nil),         // header length beyond the packet
	)
	// equal ports
	f := rudp(0x40, 9, 2, nil, r.Bytes(2))
	f[3] = f[2]
	fx["rudp"] = append(fx["rudp"], f)
}

func hx(b []byte) string { return lib.Hex(b) }

func setByte(b []byte, off int, v int) []byte {
	c := append([]byte(nil), b...)
	if off < len(c) {
		c[off] = byte(v)
	}
	return c
}

func isDL(k string) bool { return k == "sll" || k == "sll2" || k == "etherip" }

// ---------------------------------------------------------------- generator

func gen(r *lib.Rand, tier string, emit func(string)) {
	thorough := tier == "thorough"
	emit("reset")
	emit("lsll nlttab")

	fx := fixtures{}
	built(r, fx)
	harvest(fx)
	for _, k := range allKinds {
		var keep [][]byte
		for _, f := range fx[k] {
			if len(f) >= 2 {
				keep = append(keep, f)
			}
		}
		if len(keep) == 0 {
			keep = [][]byte{r.Bytes(24)}
		}
		fs := keep
		for i := len(fs) - 1; i > 0; i-- { // seeded shuffle: different seeds favour different fixtures
			j := r.Intn(i + 1)
			fs[i], fs[j] = fs[j], fs[i]
		}
		fx[k] = fs
	}
	foreignOf := func(n int) []byte { return r.Bytes(n) }
	lim := func(n, quick int) int {
		if !thorough && n > quick {
			return quick
		}
		return n
	}
	modes := []string{"copy", "nocopy", "lazy", "pool"}

	// A. every fixture through every decode path
	for _, k := range allKinds {
		fs := fx[k]
		for i := 0; i < lim(len(fs), 70); i++ {
			f := fs[i]
			emit("reset")
			emit(fmt.Sprintf("lsll dec %s 0 - %s", k, hx(f)))
			n := 1 + r.Intn(40)
			emit(fmt.Sprintf("lsll dec %s %d %s %s", k, n, hx(foreignOf(n)), hx(f)))
			emit(fmt.Sprintf("lsll fn %s %d %s %s", k, n, hx(foreignOf(n)), hx(f)))
			emit(fmt.Sprintf("lsll fn %s 0 - %s", k, hx(f)))
			for _, m := range modes {
				if m == "nocopy" {
					emit(fmt.Sprintf("lsll pkt %s nocopy %d %s %s", k, n, hx(foreignOf(n)), hx(f)))
				} else {
					emit(fmt.Sprintf("lsll pkt %s %s 0 - %s", k, m, hx(f)))
				}
			}
			if isDL(k) {
				emit(fmt.Sprintf("lsll dlp %s %s", k, hx(f)))
				emit(fmt.Sprintf("lsll redec %s %s", k, hx(f)))
			}
			emit(fmt.Sprintf("lsll flow %s %s", k, hx(f)))
			// the same bytes as every other type of this engine
			for _, k2 := range allKinds {
				if k2 != k {
					emit(fmt.Sprintf("lsll dec %s %d %s %s", k2, n, hx(foreignOf(n)), hx(f)))
					if r.Chance(30) {
						emit(fmt.Sprintf("lsll flow %s %s", k2, hx(f)))
						emit(fmt.Sprintf("lsll pkt %s nocopy %d %s %s", k2, n, hx(foreignOf(n)), hx(f)))
					}
				}
			}
		}
	}

	// B. truncations 0…len of each fixture (all for short ones, head and tail otherwise), with spare capacity
	// holding the REAL continuation of the fixture (what NoCopy / an inner layer would have behind the input)
	for _, k := range allKinds {
		fs := fx[k]
		for i := 0; i < lim(len(fs), 45); i++ {
			f := fs[i]
			emit("reset")
			for n := 0; n <= len(f); n++ {
				if !(n <= 64 || n >= len(f)-2 || (thorough && len(f) <= 600) || r.Chance(3)) {
					continue
				}
				t := f[:n]
				rest := f[n:]
				if len(rest) > 24 {
					rest = rest[:24]
				}
				if r.Chance(30) {
					rest = foreignOf(r.Intn(12))
				}
				emit(fmt.Sprintf("lsll dec %s %d %s %s", k, len(rest), hx(rest), hx(t)))
				if n <= 24 || r.Chance(25) {
					emit(fmt.Sprintf("lsll fn %s %d %s %s", k, len(rest), hx(rest), hx(t)))
					emit(fmt.Sprintf("lsll pkt %s nocopy %d %s %s", k, len(rest), hx(rest), hx(t)))
					if isDL(k) {
						emit(fmt.Sprintf("lsll redlp %s %s", k, hx(t)))
						emit(fmt.Sprintf("lsll redec %s %s", k, hx(t)))
					}
					if r.Chance(40) {
						emit(fmt.Sprintf("lsll flow %s %s", k, hx(t)))
					}
				}
			}
		}
	}

	// C. single-field mutations to boundary values
	// LinuxSLL: the 16-bit address length, the protocol
	alens := []int{0, 1, 2, 5, 6, 7, 8, 9, 10, 11, 15, 16, 17, 18, 255, 256, 257, 0x0106, 0x0800, 0x7fff, 0x8000, 0xfff9, 0xfffa, 0xfffb, 0xffff}
	for i := 0; i < lim(len(fx["sll"]), 12); i++ {
		f := fx["sll"][i]
		if len(f) < 16 {
			continue
		}
		emit("reset")
		for _, v := range alens {
			m := setByte(setByte(f, 4, v>>8), 5, v)
			c := r.Intn(30)
			emit(fmt.Sprintf("lsll dec sll %d %s %s", c, hx(foreignOf(c)), hx(m)))
			emit("lsll redec sll " + hx(m))
			emit("lsll flow sll " + hx(m))
			if r.Chance(30) {
				emit("lsll redlp sll " + hx(m))
				emit(fmt.Sprintf("lsll fn sll %d %s %s", c, hx(foreignOf(c)), hx(m)))
				emit(fmt.Sprintf("lsll pkt sll nocopy %d %s %s", c, hx(foreignOf(c)), hx(m)))
			}
			// exactly the 16 header bytes, with spare capacity that would cover a longer address
			emit(fmt.Sprintf("lsll dec sll %d %s %s", 40, hx(foreignOf(40)), hx(m[:16])))
		}
		for _, et := range []int{0, 1, 3, 4, 0x0800, 0x0806, 0x86dd, 0x8100, 0x88a8, 0x8847, 0x8863, 0x8864, 0x880b, 0x88cc, 0x2000, 0x01a2, 0x6558, 0x88be, 0x0712, 0x9000, 0x888e, 0xffff} {
			m := setByte(setByte(f, 14, et>>8), 15, et)
			emit("lsll redec sll " + hx(m))
			if r.Chance(40) {
				emit("lsll fn sll 0 - " + hx(m))
				emit("lsll redlp sll " + hx(m))
			}
		}
	}
	// LinuxSLL2: every value of the address length byte; ARPHRD / protocol boundary values
	for i := 0; i < lim(len(fx["sll2"]), 8); i++ {
		f := fx["sll2"][i]
		if len(f) < 20 {
			continue
		}
		emit("reset")
		for v := 0; v < 256; v++ {
			if !thorough && !(v <= 18 || v >= 250 || v&(v-1) == 0 || r.Chance(6)) {
				continue
			}
			m := setByte(f, 11, v)
			c := r.Intn(30)
			emit(fmt.Sprintf("lsll dec sll2 %d %s %s", c, hx(foreignOf(c)), hx(m)))
			emit("lsll redec sll2 " + hx(m))
			emit("lsll flow sll2 " + hx(m))
			if r.Chance(25) {
				emit("lsll redlp sll2 " + hx(m))
				emit(fmt.Sprintf("lsll fn sll2 %d %s %s", c, hx(foreignOf(c)), hx(m)))
				emit(fmt.Sprintf("lsll dec sll2 %d %s %s", 40, hx(foreignOf(40)), hx(m[:20])))
			}
		}
		for _, hat := range []int{0, 1, 769, 770, 771, 772, 777, 778, 779, 802, 803, 804, 65535} {
			for _, proto := range []int{0, 1, 2, 3, 4, 5, 11, 12, 13, 0x0800, 0x86dd, 0x0806, 0x6558, 0x1234} {
				if !thorough && !r.Chance(35) {
					continue
				}
				m := setByte(setByte(setByte(setByte(f, 8, hat>>8), 9, hat), 0, proto>>8), 1, proto)
				emit("lsll redec sll2 " + hx(m))
				if r.Chance(30) {
					emit("lsll fn sll2 0 - " + hx(m))
					emit("lsll redlp sll2 " + hx(m))
					emit("lsll pkt sll2 copy 0 - " + hx(m))
				}
			}
		}
	}
	// EtherIP: every value of the two header bytes
	{
		emit("reset")
		bg := append([]byte{0x30, 0x00}, fx["etherip"][0][min(2, len(fx["etherip"][0])):]...)
		for off := 0; off < 2; off++ {
			for v := 0; v < 256; v++ {
				if !thorough && !(v < 4 || v > 251 || v&(v-1) == 0 || v%16 == 15 || r.Chance(10)) {
					continue
				}
				m := setByte(bg, off, v)
				emit("lsll redec etherip " + hx(m))
				if r.Chance(20) {
					emit("lsll fn etherip 0 - " + hx(m))
					emit("lsll redlp etherip " + hx(m))
				}
			}
		}
	}
	// UDPLite: the checksum coverage field (any value is accepted by the decoder), the ports
	for i := 0; i < lim(len(fx["udplite"]), 6); i++ {
		f := fx["udplite"][i]
		if len(f) < 8 {
			continue
		}
		emit("reset")
		for _, cov := range []int{0, 1, 7, 8, 9, len(f) - 1, len(f), len(f) + 1, 0x7fff, 0x8000, 0xffff} {
			if cov < 0 {
				continue
			}
			m := setByte(setByte(f, 4, cov>>8), 5, cov)
			c := r.Intn(12)
			emit(fmt.Sprintf("lsll dec udplite %d %s %s", c, hx(foreignOf(c)), hx(m)))
			emit("lsll flow udplite " + hx(m))
		}
		for _, p := range []int{0, 1, 255, 256, 0x8000, 0xffff} {
			m := setByte(setByte(f, 0, p>>8), 1, p)
			emit("lsll flow udplite " + hx(m))
			m = setByte(setByte(f, 2, p>>8), 3, p)
			emit("lsll flow udplite " + hx(m))
			emit("lsll pkt udplite copy 0 - " + hx(m))
		}
	}
	// RUDP: every flag byte, every header length, data lengths around the bytes present
	for i := 0; i < lim(len(fx["rudp"]), 10); i++ {
		f := fx["rudp"][i]
		if len(f) < 18 {
			continue
		}
		emit("reset")
		for v := 0; v < 256; v++ {
			if !thorough && !(v&7 == 0 || v&7 == 1 || r.Chance(8)) {
				continue
			}
			m := setByte(f, 0, v)
			c := r.Intn(12)
			emit(fmt.Sprintf("lsll dec rudp %d %s %s", c, hx(foreignOf(c)), hx(m)))
			if r.Chance(15) {
				emit("lsll flow rudp " + hx(m))
				emit(fmt.Sprintf("lsll pkt rudp nocopy %d %s %s", c, hx(foreignOf(c)), hx(m)))
			}
		}
		for v := 0; v < 256; v++ {
			if !thorough && !(v <= 24 || v >= 250 || (v >= len(f)/2-3 && v <= len(f)/2+3) || r.Chance(8)) {
				continue
			}
			for _, fl := range []int{0x40, 0x80, 0x20} {
				m := setByte(setByte(f, 1, v), 0, fl|1)
				c := r.Pick([]int{0, 3, 40, 600})
				emit(fmt.Sprintf("lsll dec rudp %d %s %s", c, hx(foreignOf(c)), hx(m)))
			}
		}
		hl := 2 * int(f[1])
		for _, d := range []int{-2, -1, 0, 1, 2} {
			dl := len(f) - hl + d
			for _, v := range []int{dl, 0, 1, 0xffff, 0x8000} {
				if v < 0 || v > 0xffff {
					continue
				}
				m := setByte(setByte(f, 4, v>>8), 5, v)
				c := r.Pick([]int{0, 5, 70})
				emit(fmt.Sprintf("lsll dec rudp %d %s %s", c, hx(foreignOf(c)), hx(m)))
				emit("lsll pkt rudp copy 0 - " + hx(m))
			}
		}
		for _, p := range []int{0, 1, 127, 128, 255} {
			emit("lsll flow rudp " + hx(setByte(f, 2, p)))
			emit("lsll flow rudp " + hx(setByte(f, 3, p)))
		}
	}
	// RUDP exhaustive small scope: header length x flag set x number of bytes present
	{
		emit("reset")
		base := append([]byte{0, 0, 7, 9, 0, 0}, r.Bytes(60)...)
		for hl := 7; hl <= 20; hl++ {
			for _, fl := range []int{0x00, 0x80, 0x20, 0xa0, 0x40, 0xf8} {
				for _, n := range []int{17, 18, 2*hl - 1, 2 * hl, 2*hl + 1, 2*hl + 4} {
					if n < 0 || n > len(base) || (!thorough && !r.Chance(45)) {
						continue
					}
					for _, dl := range []int{0, n - 2*hl, n - 2*hl + 1} {
						if dl < 0 {
							continue
						}
						m := setByte(setByte(setByte(setByte(base[:n], 0, fl), 1, hl), 4, dl>>8), 5, dl)
						c := r.Pick([]int{0, 0, 9})
						emit(fmt.Sprintf("lsll dec rudp %d %s %s", c, hx(foreignOf(c)), hx(m)))
					}
				}
			}
		}
	}

	// D. stale-state sequences: ordered pairs…quintuples into the same objects (direct and via the parser);
	// for udplite / rudp (no DecodeFromBytes) sequences of decoder calls (hidden-state monitors)
	nseq := 200
	if thorough {
		nseq = 4000
	}
	pick := func(k string) []byte {
		fs := fx[k]
		f := fs[r.Intn(len(fs))]
		switch r.Intn(9) {
		case 0:
			return f[:r.Intn(len(f)+1)] // truncated (maybe an error)
		case 1:
			if k == "sll" && len(f) >= 16 {
				return setByte(setByte(f, 4, r.Pick([]int{0, 0, 1, 255})), 5, r.Pick(alens)) // often the second error path
			}
			if k == "sll2" && len(f) >= 20 {
				return setByte(f, 11, r.Pick([]int{0, 1, 6, 8, 9, 16, 255}))
			}
			return f[:r.Intn(len(f)+1)]
		case 2:
			return f[:r.Intn(2)] // always an error
		case 3:
			return r.Bytes(r.Intn(40))
		}
		return f
	}
	for c := 0; c < nseq; c++ {
		emit("reset")
		n := 2 + r.Intn(4)
		for i := 0; i < n; i++ {
			k := allKinds[r.Intn(5)]
			f := pick(k)
			if len(f) > 400 {
				f = f[:400]
			}
			if isDL(k) {
				emit(fmt.Sprintf("lsll redec %s %s", k, hx(f)))
				emit(fmt.Sprintf("lsll redlp %s %s", k, hx(f)))
			} else {
				emit(fmt.Sprintf("lsll fn %s 0 - %s", k, hx(f)))
			}
		}
	}

	// E. LinkFlow of hand-made layers with addresses of every length 0…40 (cut at MaxEndpointSize)
	emit("reset")
	for n := 0; n <= 40; n++ {
		emit("lsll flowraw sll " + hx(r.Bytes(n)))
		emit("lsll flowraw sll2 " + hx(r.Bytes(n)))
	}
	emit("lsll flowraw sll " + hx(r.Bytes(300)))
	emit("lsll flow etherip 3000")

	// F. LinuxSLL2.NextLayerType over (ARPHRD, protocol) pairs
	{
		emit("reset")
		hats := []int{0, 1, 769, 770, 771, 772, 777, 778, 779, 802, 803, 804, 65535}
		protos := []int{0, 1, 2, 3, 4, 5, 11, 12, 13, 0x01a2, 0x0712, 0x0800, 0x0806, 0x2000, 0x6558, 0x8100, 0x86dd, 0x880b, 0x8847, 0x8848,
			0x8863, 0x8864, 0x888e, 0x88a8, 0x88be, 0x88cc, 0x9000, 0xffff}
		for _, h := range hats {
			for _, p := range protos {
				emit(fmt.Sprintf("lsll sll2next %d %d", h, p))
			}
		}
		n := 300
		if thorough {
			n = 20000
		}
		for i := 0; i < n; i++ {
			emit(fmt.Sprintf("lsll sll2next %d %d", r.Pick([]int{1, 1, 772, r.Intn(65536)}), r.Intn(65536)))
		}
	}

	// G. malformed stream: random bytes of every small length, as every type
	nmal := 300
	if thorough {
		nmal = 10000
	}
	for c := 0; c < nmal; c++ {
		emit("reset")
		n := r.Intn(48)
		if r.Chance(10) {
			n = r.Intn(700)
		}
		d := r.Bytes(n)
		if n >= 6 && r.Chance(50) { // plausible SLL address length
			d[4], d[5] = 0, byte(r.Intn(12))
		}
		if n >= 12 && r.Chance(50) { // plausible SLL2 address length
			d[11] = byte(r.Intn(12))
		}
		if n >= 2 && r.Chance(50) { // plausible RUDP header length
			d[1] = byte(9 + r.Intn(6))
			d[0] = byte(r.Pick([]int{0x40, 0x80, 0x20, 0xa1, 0x08}))
			if n >= 6 {
				d[4], d[5] = 0, byte(r.Intn(n))
			}
		}
		sp := r.Intn(20)
		for _, k := range allKinds {
			emit(fmt.Sprintf("lsll dec %s %d %s %s", k, sp, hx(foreignOf(sp)), hx(d)))
			if isDL(k) {
				emit(fmt.Sprintf("lsll dlp %s %s", k, hx(d)))
			}
			if r.Chance(30) {
				emit(fmt.Sprintf("lsll pkt %s %s %d %s %s", k, modes[r.Intn(4)], 0, "-", hx(d)))
				emit(fmt.Sprintf("lsll fn %s %d %s %s", k, sp, hx(foreignOf(sp)), hx(d)))
				emit(fmt.Sprintf("lsll flow %s %s", k, hx(d)))
			}
		}
	}
	// unparseable ops: both sides answer bad-op
	emit("reset")
	emit("lsll dec sll x - 00")
	emit("lsll dec fddi 0 - 00")
	emit("lsll dec sll 2 00 00")
	emit("lsll redec udplite 00")
	emit("lsll dlp rudp 00")
	emit("lsll flowraw rudp 00")
	emit("lsll pkt sll weird 0 - 00")
	emit("lsll nonsense")
}
