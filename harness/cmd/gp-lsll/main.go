// gp-lsll: correspondence adapter + monitors for engine `lsll`
// (layers/linux_sll.go, layers/linux_sll2.go, layers/etherip.go: DecodeFromBytes, NextLayerType, CanDecode,
// LinkFlow, decodeLinuxSLL/decodeLinuxSLL2/decodeEtherIP and the DecodingLayerParser over these layers;
// layers/udplite.go, layers/rudp.go: the registered decoder functions decodeUDPLite / decodeRUDP and
// TransportFlow).
//
// None of the five layers has a SerializeTo method: there is nothing to drive for C06 / C07.
// Properties served: C19 (no panics), C05 (no stale state / capacity independence / packet path =
// preallocated path; for UDPLite and RUDP, which have no DecodeFromBytes: no hidden state between calls),
// C17 (flows of decoded layers).
package main

import (
	"bytes"
	"encoding/binary"
	"errors"
	"fmt"
	"os"
	"runtime/debug"
	"sort"
	"strconv"
	"strings"

	"github.com/gopacket/gopacket"
	"github.com/gopacket/gopacket/layers"
	"verif/harness/lib"
)

// ---------------------------------------------------------------- state of one case

type dlayer interface {
	gopacket.DecodingLayer
	gopacket.Layer
}

var (
	cur       map[string]dlayer // objects re-used by `redec`
	pSll      *layers.LinuxSLL  // objects owned by the DecodingLayerParsers
	pSll2     *layers.LinuxSLL2
	pEip      *layers.EtherIP
	parsers   map[string]*gopacket.DecodingLayerParser
	prevInput map[string][]byte // kind -> input of the previous fn op of this case (udplite, rudp)
)

var dlKinds = []string{"sll", "sll2", "etherip"}
var allKinds = []string{"sll", "sll2", "etherip", "udplite", "rudp"}

func newObj(kind string) dlayer {
	switch kind {
	case "sll":
		return &layers.LinuxSLL{}
	case "sll2":
		return &layers.LinuxSLL2{}
	case "etherip":
		return &layers.EtherIP{}
	}
	return nil
}

func layerTypeOf(kind string) (gopacket.LayerType, bool) {
	switch kind {
	case "sll":
		return layers.LayerTypeLinuxSLL, true
	case "sll2":
		return layers.LayerTypeLinuxSLL2, true
	case "etherip":
		return layers.LayerTypeEtherIP, true
	case "udplite":
		return layers.LayerTypeUDPLite, true
	case "rudp":
		return layers.LayerTypeRUDP, true
	}
	return 0, false
}

func kindOf(l gopacket.Layer) string {
	switch l.(type) {
	case *layers.LinuxSLL:
		return "sll"
	case *layers.LinuxSLL2:
		return "sll2"
	case *layers.EtherIP:
		return "etherip"
	case *layers.UDPLite:
		return "udplite"
	case *layers.RUDP:
		return "rudp"
	}
	return ""
}

func reset() {
	cur = map[string]dlayer{}
	for _, k := range dlKinds {
		cur[k] = newObj(k)
	}
	prevInput = map[string][]byte{}
	newParser()
}

func newParser() {
	pSll, pSll2, pEip = &layers.LinuxSLL{}, &layers.LinuxSLL2{}, &layers.EtherIP{}
	parsers = map[string]*gopacket.DecodingLayerParser{}
	for _, k := range dlKinds {
		lt, _ := layerTypeOf(k)
		p := gopacket.NewDecodingLayerParser(lt, pSll, pSll2, pEip)
		p.IgnorePanic = true // let panics through (C19: "a layer parser that lets panics through")
		parsers[k] = p
	}
}

type feedback struct{ truncated bool }

func (f *feedback) SetTruncated() { f.truncated = true }

func b01(b bool) string {
	if b {
		return "1"
	}
	return "0"
}

// flowBytes renders the two endpoints of a flow accessor ("panic-<kind>" when it panics).
func flowBytes(f func() gopacket.Flow) (src, dst string) {
	defer func() {
		if v := recover(); v != nil {
			k := lib.PanicKind(v)
			src, dst = "panic-"+k, "panic-"+k
		}
	}()
	s, d := f().Endpoints()
	return lib.Hex(s.Raw()), lib.Hex(d.Raw())
}

func render(l gopacket.Layer) string {
	switch l := l.(type) {
	case *layers.LinuxSLL:
		return fmt.Sprintf("pt=%d at=%d alen=%d addr=%s et=%d contents=%s payload=%s next=%d",
			uint16(l.PacketType), l.AddrType, l.AddrLen, lib.Hex(l.Addr), uint16(l.EthernetType),
			lib.Hex(l.Contents), lib.Hex(l.Payload), int(l.NextLayerType()))
	case *layers.LinuxSLL2:
		return fmt.Sprintf("proto=%d ifidx=%d hatype=%d pt=%d alen=%d addr=%s contents=%s payload=%s next=%d",
			uint16(l.ProtocolType), l.InterfaceIndex, uint16(l.ARPHardwareType), uint8(l.PacketType), l.AddrLength, lib.Hex(l.Addr),
			lib.Hex(l.Contents), lib.Hex(l.Payload), int(l.NextLayerType()))
	case *layers.EtherIP:
		return fmt.Sprintf("ver=%d res=%d contents=%s payload=%s next=%d", l.Version, l.Reserved,
			lib.Hex(l.Contents), lib.Hex(l.Payload), int(l.NextLayerType()))
	case *layers.UDPLite:
		fs, fd := flowBytes(l.TransportFlow)
		return fmt.Sprintf("sp=%d dp=%d cov=%d ck=%d fsrc=%s fdst=%s contents=%s payload=%s", uint16(l.SrcPort), uint16(l.DstPort),
			l.ChecksumCoverage, l.Checksum, fs, fd, lib.Hex(l.Contents), lib.Hex(l.Payload))
	case *layers.RUDP:
		synh, eackh := "-", "-"
		if l.RUDPHeaderSYN != nil {
			synh = fmt.Sprintf("%d/%d/%d", l.RUDPHeaderSYN.MaxOutstandingSegments, l.RUDPHeaderSYN.MaxSegmentSize, l.RUDPHeaderSYN.OptionFlags)
		}
		if l.RUDPHeaderEACK != nil {
			xs := make([]string, len(l.RUDPHeaderEACK.SeqsReceivedOK))
			for i, v := range l.RUDPHeaderEACK.SeqsReceivedOK {
				xs[i] = strconv.FormatUint(uint64(v), 10)
			}
			eackh = "[" + strings.Join(xs, ",") + "]"
		}
		return fmt.Sprintf("syn=%s ack=%s eack=%s rst=%s nul=%s ver=%d hl=%d sp=%d dp=%d dl=%d seq=%d acknum=%d ck=%d vha=%s synhdr=%s eackhdr=%s contents=%s payload=%s",
			b01(l.SYN), b01(l.ACK), b01(l.EACK), b01(l.RST), b01(l.NUL), l.Version, l.HeaderLength, uint8(l.SrcPort), uint8(l.DstPort),
			l.DataLength, l.Seq, l.Ack, l.Checksum, lib.Hex(l.VariableHeaderArea), synh, eackh, lib.Hex(l.Contents), lib.Hex(l.Payload))
	}
	return "?"
}

// differingField names the first public field (incl. Contents/Payload) in which two layers differ.
func differingField(a, b gopacket.Layer) string {
	switch x := a.(type) {
	case *layers.LinuxSLL:
		y, ok := b.(*layers.LinuxSLL)
		switch {
		case !ok:
			return "type"
		case x.PacketType != y.PacketType:
			return "PacketType"
		case x.AddrLen != y.AddrLen:
			return "AddrLen"
		case !bytes.Equal(x.Addr, y.Addr):
			return "Addr"
		case x.EthernetType != y.EthernetType:
			return "EthernetType"
		case x.AddrType != y.AddrType:
			return "AddrType"
		case !bytes.Equal(x.Contents, y.Contents):
			return "Contents"
		case !bytes.Equal(x.Payload, y.Payload):
			return "Payload"
		}
	case *layers.LinuxSLL2:
		y, ok := b.(*layers.LinuxSLL2)
		switch {
		case !ok:
			return "type"
		case x.ProtocolType != y.ProtocolType:
			return "ProtocolType"
		case x.InterfaceIndex != y.InterfaceIndex:
			return "InterfaceIndex"
		case x.ARPHardwareType != y.ARPHardwareType:
			return "ARPHardwareType"
		case x.PacketType != y.PacketType:
			return "PacketType"
		case x.AddrLength != y.AddrLength:
			return "AddrLength"
		case !bytes.Equal(x.Addr, y.Addr):
			return "Addr"
		case !bytes.Equal(x.Contents, y.Contents):
			return "Contents"
		case !bytes.Equal(x.Payload, y.Payload):
			return "Payload"
		}
	case *layers.EtherIP:
		y, ok := b.(*layers.EtherIP)
		switch {
		case !ok:
			return "type"
		case x.Version != y.Version:
			return "Version"
		case x.Reserved != y.Reserved:
			return "Reserved"
		case !bytes.Equal(x.Contents, y.Contents):
			return "Contents"
		case !bytes.Equal(x.Payload, y.Payload):
			return "Payload"
		}
	default:
		if render(a) != render(b) {
			return "render"
		}
	}
	return ""
}

// inBuf places data at the start of a backing array with `len(foreign)` spare bytes of capacity holding
// the foreign bytes, and returns the slice data[:len] with cap = len + len(foreign).
func inBuf(data, foreign []byte) []byte {
	back := make([]byte, len(data)+len(foreign))
	copy(back, data)
	copy(back[len(data):], foreign)
	return back[:len(data)]
}

func exact(data []byte) []byte { // cap == len
	c := make([]byte, len(data))
	copy(c, data)
	return c[:len(data):len(data)]
}

func isOurSite(site string) bool {
	for _, f := range []string{"layers/linux_sll.go", "layers/linux_sll2.go", "layers/etherip.go", "layers/udplite.go", "layers/rudp.go", "layers/base.go"} {
		if strings.HasPrefix(site, f) {
			return true
		}
	}
	return false
}

// protect is lib.Protect with a panic-site extraction that also works when the repository under test
// is a scratch tree (VERIF_REPO): the site is the top-most stack frame inside the repository.
var lastSite, lastMsg string

func protect(f func() string) (reply string, panicked bool) {
	defer func() {
		if v := recover(); v != nil {
			lastMsg = fmt.Sprint(v)
			lastSite = siteOf(string(debug.Stack()))
			reply = "panic " + lib.PanicKind(v)
			panicked = true
		}
	}()
	return f(), false
}

func siteOf(stack string) string {
	root := os.Getenv("VERIF_REPO")
	if root == "" {
		root = "/repo"
	}
	root = strings.TrimRight(root, "/") + "/"
	for _, l := range strings.Split(stack, "\n") {
		l = strings.TrimSpace(l)
		if !strings.Contains(l, ".go:") {
			continue
		}
		f := strings.Fields(l)[0]
		if strings.HasPrefix(f, root) {
			return f[len(root):]
		}
		if j := strings.LastIndex(f, "gopacket/"); j >= 0 && !strings.Contains(f, "/verif/") {
			return f[j+len("gopacket/"):]
		}
	}
	return "?"
}

// guarded runs f; a panic is reported as a C19 finding with its site and returned as "panic <kind>".
func guarded(what string, f func() string) string {
	reply, panicked := protect(f)
	if panicked {
		lib.Finding("C19", "lsll:panic:"+lastSite, what+" panicked: "+lastMsg)
		lib.Stat("panic")
	}
	return reply
}

// ---------------------------------------------------------------- DecodeFromBytes ops (sll, sll2, etherip)

// decInto: DecodeFromBytes into obj; the reply renders the receiver on an error too (what the failed call left).
func decInto(obj dlayer, data []byte) (string, error, bool) {
	fb := &feedback{}
	err := obj.DecodeFromBytes(data, fb)
	if err != nil {
		return "err trunc=" + b01(fb.truncated) + " | " + render(obj), err, fb.truncated
	}
	return "ok " + render(obj) + " trunc=" + b01(fb.truncated), nil, fb.truncated
}

func statDec(kind string, obj gopacket.Layer, err error, n int) {
	if err != nil {
		lib.Stat(kind + ":dec:err")
		switch l := obj.(type) {
		case *layers.LinuxSLL:
			if n >= 16 && l.AddrLen > 8 {
				lib.Stat("sll:dec:err:addrlen>8")
			}
		case *layers.LinuxSLL2:
			if n >= 20 && l.AddrLength > 8 {
				lib.Stat("sll2:dec:err:addrlen>8")
			}
		}
		return
	}
	lib.Stat(kind + ":dec:ok")
	lib.Nontrivial()
	switch l := obj.(type) {
	case *layers.LinuxSLL:
		lib.Stat(fmt.Sprintf("sll:dec:alen=%d", l.AddrLen))
		if l.NextLayerType() != gopacket.LayerTypeZero {
			lib.Stat("sll:dec:known-ethertype")
		}
	case *layers.LinuxSLL2:
		lib.Stat(fmt.Sprintf("sll2:dec:alen=%d", l.AddrLength))
		switch l.ARPHardwareType {
		case layers.ARPHardwareTypeFRAD, layers.ARPHardwareTypeDot11Radiotap, layers.ARPHardwareTypeIPGRE:
			lib.Stat(fmt.Sprintf("sll2:dec:hatype=%d", uint16(l.ARPHardwareType)))
		default:
			switch l.ProtocolType {
			case layers.LinuxSLL2EthernetTypeDot3, layers.LinuxSLL2EthernetTypeUnknown, layers.LinuxSLL2EthernetTypeLLC, layers.LinuxSLL2EthernetTypeCAN:
				lib.Stat(fmt.Sprintf("sll2:dec:special-proto=%d", uint16(l.ProtocolType)))
			default:
				if l.NextLayerType() != gopacket.LayerTypeZero {
					lib.Stat("sll2:dec:known-ethertype")
				}
			}
		}
	case *layers.RUDP:
		switch {
		case l.RUDPHeaderSYN != nil:
			lib.Stat("rudp:dec:syn")
		case l.RUDPHeaderEACK != nil:
			lib.Stat(fmt.Sprintf("rudp:dec:eack=%d", min(len(l.RUDPHeaderEACK.SeqsReceivedOK), 9)))
		default:
			lib.Stat("rudp:dec:plain")
		}
		if len(l.VariableHeaderArea) > 0 && l.RUDPHeaderSYN == nil && l.RUDPHeaderEACK == nil {
			lib.Stat("rudp:dec:vha-unparsed")
		}
	case *layers.UDPLite:
		if len(l.Payload) > 0 {
			lib.Stat("udplite:dec:with-payload")
		}
	}
}

func opDecDL(kind string, extra int, foreign, data []byte) string {
	return guarded(kind+".DecodeFromBytes", func() string {
		obj := newObj(kind)
		cur[kind] = obj
		reply, err, _ := decInto(obj, inBuf(data, foreign))
		statDec(kind, obj, err, len(data))
		lt, _ := layerTypeOf(kind)
		if got := obj.CanDecode(); got != gopacket.LayerClass(lt) {
			lib.Finding("C05", "lsll:candecode:"+kind, "CanDecode is not the layer's own type")
		}
		// C05/C04 oracle: the same bytes in a buffer with cap == len
		ref := newObj(kind)
		refReply, _, _ := decInto(ref, exact(data))
		if reply != refReply {
			lib.Finding("C05", "lsll:cap-dependent", kind+" decode depends on spare capacity / foreign bytes: "+reply+" vs "+refReply)
		}
		if extra > 0 {
			lib.Stat(kind + ":dec:spare-cap")
		}
		return reply
	})
}

func opRedec(kind string, data []byte) string {
	if newObj(kind) == nil {
		return "bad-op"
	}
	return guarded(kind+".DecodeFromBytes", func() string {
		obj := cur[kind]
		reply, err, tr := decInto(obj, exact(data))
		statDec(kind, obj, err, len(data))
		lib.Stat(kind + ":redec")
		fresh := newObj(kind)
		fb := &feedback{}
		ferr := fresh.DecodeFromBytes(exact(data), fb)
		if (ferr != nil) != (err != nil) {
			lib.Finding("C05", "lsll:stale:error", kind+": reused object and fresh object disagree on the error")
		} else {
			if err == nil {
				if f := differingField(obj, fresh); f != "" {
					lib.Finding("C05", "lsll:stale:"+f, kind+"."+f+" differs between a reused and a fresh object")
				}
			}
			if fb.truncated != tr {
				lib.Finding("C05", "lsll:stale:Truncated", kind+": truncation flag differs between a reused and a fresh object")
			}
		}
		return reply
	})
}

// ---------------------------------------------------------------- tracing PacketBuilder (does not recurse)

type tracer struct {
	acts  []string
	tail  string
	added gopacket.Layer
	nadd  int
}

func (t *tracer) SetTruncated() { t.acts = append(t.acts, "trunc") }
func (t *tracer) AddLayer(l gopacket.Layer) {
	t.acts = append(t.acts, fmt.Sprintf("add:%d", int(l.LayerType())))
	t.added = l
	t.nadd++
}
func (t *tracer) SetLinkLayer(gopacket.LinkLayer)               { t.acts = append(t.acts, "link") }
func (t *tracer) SetNetworkLayer(gopacket.NetworkLayer)         { t.acts = append(t.acts, "net") }
func (t *tracer) SetTransportLayer(gopacket.TransportLayer)     { t.acts = append(t.acts, "transport") }
func (t *tracer) SetApplicationLayer(gopacket.ApplicationLayer) { t.acts = append(t.acts, "app") }
func (t *tracer) SetErrorLayer(gopacket.ErrorLayer)             { t.acts = append(t.acts, "errlayer") }
func (t *tracer) DumpPacketData()                               {}
func (t *tracer) DecodeOptions() *gopacket.DecodeOptions        { return &gopacket.DecodeOptions{} }
func (t *tracer) NextDecoder(next gopacket.Decoder) error {
	switch d := next.(type) {
	case layers.EthernetType:
		t.tail = fmt.Sprintf("eth:%d", uint16(d))
	case gopacket.LayerType:
		t.tail = fmt.Sprintf("lt:%d", int(d))
	case nil:
		t.tail = "nil"
	default:
		t.tail = "other"
	}
	return nil
}

func (t *tracer) render(err error) string {
	tail := t.tail
	if err != nil {
		tail = "fail"
	} else if tail == "" {
		tail = "done"
	}
	acts := "-"
	if len(t.acts) > 0 {
		acts = strings.Join(t.acts, ",")
	}
	s := "acts=" + acts + " tail=" + tail
	if t.added != nil {
		s += " | " + render(t.added)
	}
	return s
}

func decodeWith(lt gopacket.LayerType, in []byte) (*tracer, error) {
	t := &tracer{}
	err := lt.Decode(in, t)
	return t, err
}

// opFn: the decoder function registered for the kind's LayerType, on a tracing builder, input in a buffer
// with spare capacity.
func opFn(kind string, extra int, foreign, data []byte) string {
	lt, ok := layerTypeOf(kind)
	if !ok {
		return "bad-op"
	}
	return guarded("decoder function of "+kind, func() string {
		t, err := decodeWith(lt, inBuf(data, foreign))
		reply := t.render(err)
		tail := "fail"
		if err == nil {
			tail = strings.SplitN(t.render(nil), "tail=", 2)[1]
			tail = strings.SplitN(strings.Fields(tail)[0], ":", 2)[0]
		}
		lib.Stat("fn:" + kind + ":" + tail)
		if t.added != nil {
			lib.Nontrivial()
			if kind == "udplite" || kind == "rudp" {
				statDec(kind, t.added, nil, len(data))
			}
		} else if kind == "udplite" || kind == "rudp" {
			lib.Stat(kind + ":dec:err")
			if len(t.acts) > 0 {
				lib.Stat(kind + ":dec:err:trunc")
			}
		}
		if extra > 0 {
			lib.Stat("fn:" + kind + ":spare-cap")
		}
		// C05/C04 oracle: the same bytes in a buffer with cap == len
		t2, err2 := decodeWith(lt, exact(data))
		ref := t2.render(err2)
		if ref != reply {
			lib.Finding("C05", "lsll:cap-dependent", kind+": decoder function depends on spare capacity / foreign bytes: "+reply+" vs "+ref)
		}
		if obj := newObj(kind); obj != nil {
			// C05 oracle: the layer added to the packet = a direct fresh DecodeFromBytes
			rerr := obj.DecodeFromBytes(exact(data), &feedback{})
			switch {
			case (rerr != nil) != (t.added == nil):
				lib.Finding("C05", "lsll:pkt-differs", kind+": the registered decoder adds a layer iff DecodeFromBytes succeeds — violated")
			case rerr == nil && differingField(t.added, obj) != "":
				lib.Finding("C05", "lsll:pkt-differs", kind+": layer added by the registered decoder differs from a direct fresh DecodeFromBytes: "+differingField(t.added, obj))
			}
		} else {
			// no DecodeFromBytes: no hidden state between calls (decode the previous input, then this one again)
			if prev, ok := prevInput[kind]; ok {
				decodeWith(lt, exact(prev))
				t3, err3 := decodeWith(lt, exact(data))
				if again := t3.render(err3); again != ref {
					lib.Finding("C05", "lsll:stale:history", kind+": the same bytes decode differently after another packet was decoded: "+ref+" vs "+again)
				}
				if t3.added != nil && (t3.added == t.added || t3.added == t2.added) {
					lib.Finding("C05", "lsll:stale:object", kind+": two decoder calls returned the same layer object")
				}
				lib.Stat(kind + ":dec:after-other")
			}
			prevInput[kind] = append([]byte(nil), data...)
		}
		return reply
	})
}

// ---------------------------------------------------------------- NewPacket / DecodingLayerParser

func opPkt(kind, mode string, extra int, foreign, data []byte) string {
	first, ok := layerTypeOf(kind)
	if !ok || len(foreign) != extra || (mode != "copy" && mode != "nocopy" && mode != "lazy" && mode != "pool") {
		return "bad-op"
	}
	if len(data) == 0 {
		return "empty"
	}
	type obs struct {
		ls              []gopacket.Layer
		link, transport bool
		trunc           bool
	}
	build := func(skipRecovery bool) obs {
		opts := gopacket.DecodeOptions{SkipDecodeRecovery: skipRecovery}
		in := exact(data)
		switch mode {
		case "nocopy":
			opts.NoCopy = true
			in = inBuf(data, foreign)
		case "lazy":
			opts.Lazy = true
		case "pool":
			opts.Pool = true
		}
		p := gopacket.NewPacket(in, first, opts)
		var o obs
		o.ls = p.Layers()
		if len(o.ls) > 0 {
			if ll := p.LinkLayer(); ll != nil && gopacket.Layer(ll) == o.ls[0] {
				o.link = true
			}
			if tl := p.TransportLayer(); tl != nil && gopacket.Layer(tl) == o.ls[0] {
				o.transport = true
			}
		}
		o.trunc = p.Metadata().Truncated
		// copy what is rendered before a pooled packet is disposed
		return o
	}
	var o obs
	_, panicked := protect(func() string { o = build(true); return "" })
	if panicked {
		if isOurSite(lastSite) {
			lib.Finding("C19", "lsll:panic:"+lastSite, "NewPacket(SkipDecodeRecovery) panicked in this layer: "+lastMsg)
			return "panic " + lib.PanicKind(lastMsg)
		}
		// a decoder of a LATER layer panicked (other engines' business): observe this layer with recovery on
		lib.Stat("pkt:later-layer-panic:" + lastSite)
		o = build(false)
	}
	lib.Stat("pkt:" + kind + ":" + mode)
	if len(o.ls) == 0 || o.ls[0].LayerType() != first {
		lib.Stat("pkt:fail")
		// oracle: the packet reports a failure exactly when the registered decoder (direct call) adds no layer
		if t, _ := decodeWith(first, exact(data)); t.added != nil {
			lib.Finding("C05", "lsll:pkt-differs", "NewPacket("+mode+") shows no "+kind+" layer although the registered decoder adds one")
		}
		return "fail trunc=" + b01(o.trunc)
	}
	// oracle: the first layer equals what a direct call of the registered decoder (fresh tracing builder) adds
	t, _ := decodeWith(first, exact(data))
	if t.added == nil || render(t.added) != render(o.ls[0]) {
		lib.Finding("C05", "lsll:pkt-differs", "first layer built by NewPacket("+mode+") differs from a direct call of the registered decoder")
	}
	if obj := newObj(kind); obj != nil {
		if err := obj.DecodeFromBytes(exact(data), &feedback{}); err != nil || differingField(o.ls[0], obj) != "" {
			lib.Finding("C05", "lsll:pkt-differs", "first layer built by NewPacket("+mode+") differs from a direct fresh DecodeFromBytes")
		}
	}
	lib.Nontrivial()
	return "ok " + render(o.ls[0]) + " link=" + b01(o.link) + " transport=" + b01(o.transport)
}

func opDlp(re bool, kind string, data []byte) string {
	if newObj(kind) == nil {
		return "bad-op"
	}
	if !re {
		newParser()
	}
	parser := parsers[kind]
	first, _ := layerTypeOf(kind)
	return guarded("DecodingLayerParser.DecodeLayers", func() string {
		var decoded []gopacket.LayerType
		err := parser.DecodeLayers(exact(data), &decoded)
		code := 0
		var unsup gopacket.UnsupportedLayerType
		if errors.As(err, &unsup) {
			code = 2
		} else if err != nil {
			code = 1
		}
		ds := make([]string, len(decoded))
		for i, t := range decoded {
			ds[i] = lib.Itoa(int(t))
		}
		dec := "-"
		if len(ds) > 0 {
			dec = strings.Join(ds, ",")
		}
		lib.Stat(fmt.Sprintf("dlp:%s:layers=%d:code=%d", kind, len(decoded), code))
		if len(decoded) >= 1 {
			lib.Nontrivial()
		}
		// C05 oracle: the run equals the leading run of NewPacket's layers with equal fields
		if len(data) > 0 {
			var pl []gopacket.Layer
			var ptr bool
			_, pk := protect(func() string {
				pk := gopacket.NewPacket(exact(data), first, gopacket.DecodeOptions{})
				pl = pk.Layers()
				ptr = pk.Metadata().Truncated
				return ""
			})
			if !pk {
				objs := map[gopacket.LayerType]gopacket.Layer{layers.LayerTypeLinuxSLL: pSll, layers.LayerTypeLinuxSLL2: pSll2, layers.LayerTypeEtherIP: pEip}
				for i, t := range decoded {
					if i >= len(pl) || pl[i].LayerType() != t {
						lib.Finding("C05", "lsll:dlp-differs", "parser run is not a prefix of the packet's layers")
						break
					}
					if f := differingField(pl[i], objs[t]); f != "" {
						lib.Finding("C05", "lsll:dlp-differs", "parser's layer differs from the packet's: "+f)
					}
				}
				// the run must not stop early: when the parser stopped without an error of its own (code 0 / 2) after n
				// layers, the packet's layer n (if any) is of a type outside the set
				if code != 1 && len(decoded) < len(pl) {
					if k := kindOf(pl[len(decoded)]); k == "sll" || k == "sll2" || k == "etherip" {
						lib.Finding("C05", "lsll:dlp-differs", "parser stopped before a layer of a type in its set")
					}
				}
				// these layers set the truncation flag only together with an error, and a packet accumulates flags of
				// later layers too, so only "parser truncated => packet truncated" is demanded
				if parser.Truncated && !ptr {
					lib.Finding("C05", "lsll:dlp-differs", "parser reports truncation, the packet does not")
				}
			}
		}
		return fmt.Sprintf("code=%d decoded=%s trunc=%s | %s | %s | %s", code, dec, b01(parser.Truncated), render(pSll), render(pSll2), render(pEip))
	})
}

// ---------------------------------------------------------------- flows

func renderFlow(f gopacket.Flow) string {
	src, dst := f.Endpoints()
	rs, rd := f.Reverse().Endpoints()
	return fmt.Sprintf("ok et=%d src=%s dst=%s rsrc=%s rdst=%s", int(f.EndpointType()), lib.Hex(src.Raw()), lib.Hex(dst.Raw()), lib.Hex(rs.Raw()), lib.Hex(rd.Raw()))
}

func sub(data []byte, a, b int) []byte {
	if a <= b && b <= len(data) {
		return data[a:b]
	}
	return nil
}

// flowOfPacket decodes data as kind with NewPacket (recovery on) and returns the flow reported through the
// packet's link / transport slot.
func flowOfPacket(kind string, data []byte) (f gopacket.Flow, ok bool) {
	lt, _ := layerTypeOf(kind)
	p := gopacket.NewPacket(exact(data), lt, gopacket.DecodeOptions{})
	ls := p.Layers()
	if len(ls) == 0 || ls[0].LayerType() != lt {
		return f, false
	}
	switch kind {
	case "sll", "sll2":
		ll := p.LinkLayer()
		if ll == nil || gopacket.Layer(ll) != ls[0] {
			lib.Finding("C17", "lsll:flow-slot", kind+": the decoded layer is not the packet's link layer")
			return f, false
		}
		return ll.LinkFlow(), true
	default:
		tl := p.TransportLayer()
		if tl == nil || gopacket.Layer(tl) != ls[0] {
			lib.Finding("C17", "lsll:flow-slot", kind+": the decoded layer is not the packet's transport layer")
			return f, false
		}
		return tl.TransportFlow(), true
	}
}

func opFlow(kind string, data []byte) string {
	if kind == "etherip" {
		var l interface{} = &layers.EtherIP{}
		_, a := l.(gopacket.LinkLayer)
		_, b := l.(gopacket.NetworkLayer)
		_, c := l.(gopacket.TransportLayer)
		if a || b || c {
			return "has-flow"
		}
		return "none"
	}
	if _, ok := layerTypeOf(kind); !ok {
		return "bad-op"
	}
	reply, pk := protect(func() string {
		f, ok := flowOfPacket(kind, data)
		if !ok {
			lib.Stat("flow:" + kind + ":err")
			return "err"
		}
		lib.Stat("flow:" + kind)
		lib.Nontrivial()
		// independent oracle: the address / port bytes at the protocol's fixed offsets of the input
		var et gopacket.EndpointType
		var wsrc, wdst []byte
		var swap [3]int
		switch kind {
		case "sll":
			et = layers.EndpointMAC
			wsrc = sub(data, 6, 6+int(binary.BigEndian.Uint16(data[4:6])))
		case "sll2":
			et = layers.EndpointMAC
			wsrc = sub(data, 12, 12+int(data[11]))
		case "udplite":
			et, wsrc, wdst, swap = layers.EndpointUDPLitePort, sub(data, 0, 2), sub(data, 2, 4), [3]int{0, 2, 2}
		case "rudp":
			et, wsrc, wdst, swap = layers.EndpointRUDPPort, sub(data, 2, 3), sub(data, 3, 4), [3]int{2, 3, 1}
		}
		src, dst := f.Endpoints()
		if f.EndpointType() != et || !bytes.Equal(src.Raw(), wsrc) || !bytes.Equal(dst.Raw(), wdst) || src.EndpointType() != et || dst.EndpointType() != et {
			lib.Finding("C17", "lsll:flow-bytes", fmt.Sprintf("%s flow carries %s>%s (type %d), the packet's address bytes are %s>%s", kind, lib.Hex(src.Raw()), lib.Hex(dst.Raw()), int(f.EndpointType()), lib.Hex(wsrc), lib.Hex(wdst)))
		}
		if f.Reverse().Reverse() != f || f.Reverse().FastHash() != f.FastHash() {
			lib.Finding("C17", "lsll:flow-reverse", kind+": Reverse is not an involution / FastHash not symmetric")
		}
		if swap[2] > 0 {
			// the packet of the opposite direction: the two port fields exchanged
			opp := append([]byte(nil), data...)
			copy(opp[swap[0]:swap[0]+swap[2]], data[swap[1]:swap[1]+swap[2]])
			copy(opp[swap[1]:swap[1]+swap[2]], data[swap[0]:swap[0]+swap[2]])
			g, ok := flowOfPacket(kind, opp)
			switch {
			case !ok:
				lib.Finding("C17", "lsll:flow-reverse", kind+": the packet of the opposite direction does not decode")
			case g != f.Reverse() || g.Reverse() != f:
				lib.Finding("C17", "lsll:flow-reverse", kind+": the two directions do not give mutually reversed flows")
			case g.FastHash() != f.FastHash():
				lib.Finding("C17", "lsll:flow-hash", kind+": the two directions have different FastHash")
			}
			lib.Stat("flow:" + kind + ":opposite")
		} else {
			// a cooked-capture header has ONE address (the sender's): the destination endpoint is empty
			if len(dst.Raw()) != 0 {
				lib.Finding("C17", "lsll:flow-bytes", kind+": destination endpoint is not empty")
			}
		}
		return renderFlow(f)
	})
	if pk {
		lib.Finding("C17", "lsll:flow-panic:"+lastSite, kind+": flow of a decoded layer panicked: "+lastMsg)
	}
	return reply
}

// opFlowRaw: LinkFlow of a hand-made LinuxSLL / LinuxSLL2 with an address of ANY length (the accessors cut
// it to MaxEndpointSize instead of letting NewFlow panic).
func opFlowRaw(kind string, addr []byte) string {
	var get func() gopacket.Flow
	switch kind {
	case "sll":
		get = (&layers.LinuxSLL{Addr: append([]byte(nil), addr...)}).LinkFlow
	case "sll2":
		get = (&layers.LinuxSLL2{Addr: append([]byte(nil), addr...)}).LinkFlow
	default:
		return "bad-op"
	}
	reply, pk := protect(func() string {
		f := get()
		src, dst := f.Endpoints()
		want := addr
		if len(want) > gopacket.MaxEndpointSize {
			want = want[:gopacket.MaxEndpointSize]
			lib.Stat("flowraw:truncated")
		}
		if f.EndpointType() != layers.EndpointMAC || !bytes.Equal(src.Raw(), want) || len(dst.Raw()) != 0 {
			lib.Finding("C17", "lsll:flow-bytes", kind+": LinkFlow of a hand-made layer does not carry its (cut) address")
		}
		lib.Stat("flowraw:" + kind)
		return renderFlow(f)
	})
	if pk {
		lib.Finding("C17", "lsll:flow-panic:"+lastSite, kind+": LinkFlow panicked: "+lastMsg)
	}
	return reply
}

// ---------------------------------------------------------------- tables

func sll2Next(ha, proto int) int {
	return int((&layers.LinuxSLL2{ARPHardwareType: layers.ARPHardwareType(ha), ProtocolType: layers.EthernetType(proto)}).NextLayerType())
}

func opNltTab() string {
	type row struct{ k, v int }
	var rs []row
	for i := 0; i < 65536; i++ {
		if layers.EthernetTypeMetadata[i].DecodeWith != nil {
			rs = append(rs, row{i, int(layers.EthernetType(i).LayerType())})
		} else if layers.EthernetType(i).LayerType() != gopacket.LayerTypeZero {
			rs = append(rs, row{i, -1})
		}
	}
	sort.Slice(rs, func(a, b int) bool { return rs[a].k < rs[b].k })
	var rows []string
	for _, r := range rs {
		rows = append(rows, fmt.Sprintf("%d:%d", r.k, r.v))
	}
	lib.Stat("nlttab")
	return fmt.Sprintf("ok %s lt=%d,%d,%d,%d,%d,%d ep=%d,%d,%d max=%d sll2=%d,%d,%d,%d,%d,%d,%d,%d", strings.Join(rows, ","),
		int(layers.LayerTypeLinuxSLL), int(layers.LayerTypeLinuxSLL2), int(layers.LayerTypeEtherIP), int(layers.LayerTypeUDPLite),
		int(layers.LayerTypeRUDP), int(gopacket.LayerTypePayload),
		int(layers.EndpointMAC), int(layers.EndpointUDPLitePort), int(layers.EndpointRUDPPort), gopacket.MaxEndpointSize,
		sll2Next(770, 2048), sll2Next(803, 2048), sll2Next(778, 2048), sll2Next(1, 1), sll2Next(1, 3), sll2Next(1, 4), sll2Next(1, 12), sll2Next(1, 2048))
}

// ---------------------------------------------------------------- dispatcher

func triple(a []string) (int, []byte, []byte, bool) {
	extra, ok1 := lib.Atoi(a[0])
	foreign, ok2 := lib.UnHex(a[1])
	data, ok3 := lib.UnHex(a[2])
	if !ok1 || !ok2 || !ok3 || extra < 0 || len(foreign) != extra {
		return 0, nil, nil, false
	}
	return extra, foreign, data, true
}

func exec(a []string) string {
	if len(a) < 2 || a[0] != "lsll" {
		return "bad-op"
	}
	switch a[1] {
	case "dec":
		if len(a) != 6 {
			return "bad-op"
		}
		extra, foreign, data, ok := triple(a[3:])
		if !ok {
			return "bad-op"
		}
		switch a[2] {
		case "sll", "sll2", "etherip":
			return opDecDL(a[2], extra, foreign, data)
		case "udplite", "rudp":
			return opFn(a[2], extra, foreign, data)
		}
		return "bad-op"
	case "redec":
		if len(a) != 4 {
			return "bad-op"
		}
		data, ok := lib.UnHex(a[3])
		if !ok {
			return "bad-op"
		}
		return opRedec(a[2], data)
	case "fn":
		if len(a) != 6 {
			return "bad-op"
		}
		extra, foreign, data, ok := triple(a[3:])
		if !ok {
			return "bad-op"
		}
		return opFn(a[2], extra, foreign, data)
	case "pkt":
		if len(a) != 7 {
			return "bad-op"
		}
		extra, foreign, data, ok := triple(a[4:])
		if !ok {
			return "bad-op"
		}
		return opPkt(a[2], a[3], extra, foreign, data)
	case "dlp", "redlp":
		if len(a) != 4 {
			return "bad-op"
		}
		data, ok := lib.UnHex(a[3])
		if !ok {
			return "bad-op"
		}
		return opDlp(a[1] == "redlp", a[2], data)
	case "flow":
		if len(a) != 4 {
			return "bad-op"
		}
		data, ok := lib.UnHex(a[3])
		if !ok {
			return "bad-op"
		}
		return opFlow(a[2], data)
	case "flowraw":
		if len(a) != 4 {
			return "bad-op"
		}
		addr, ok := lib.UnHex(a[3])
		if !ok {
			return "bad-op"
		}
		return opFlowRaw(a[2], addr)
	case "nlttab":
		if len(a) != 2 {
			return "bad-op"
		}
		return opNltTab()
	case "sll2next":
		if len(a) != 4 {
			return "bad-op"
		}
		ha, ok1 := lib.Atoi(a[2])
		pr, ok2 := lib.Atoi(a[3])
		if !ok1 || !ok2 || ha < 0 || ha > 65535 || pr < 0 || pr > 65535 {
			return "bad-op"
		}
		lib.Stat("sll2next")
		return fmt.Sprintf("ok %d", sll2Next(ha, pr))
	}
	return "bad-op"
}

func main() {
	reset()
	lib.Main(lib.Engine{Name: "lsll", Gen: gen, Reset: reset, Exec: exec})
}
