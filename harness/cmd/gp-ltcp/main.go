// gp-ltcp: correspondence adapter + monitors for engine `ltcp` — the codec of layers/tcp.go
// (DecodeFromBytes incl. the MPTCP branch, decodeTCP, SerializeTo, TCPOption.String,
// TransportFlow, NextLayerType, VerifyChecksum).  Contributes to C19, C05, C06, C07, C17, C01.
//
// Line protocol (first word `ltcp`; one reply line per op; a case starts with `reset`):
//
//	variant <m> <r> <n>        which defects the code under test still has (probed by `gen`): ok
//	dec <k> <foreign> <hex>    decode <hex> into a FRESH layer, the data living in a buffer with
//	                           k spare bytes of capacity holding <foreign>
//	redec <hex>                decode into the SAME object as the previous dec/redec/pb (cap = len)
//	pb <dsad> <k> <foreign> <hex>  run the registered decoder (decodeTCP) under a tracing PacketBuilder
//	str | flow | nlt | vcs     TCPOption.String of every option | TransportFlow | NextLayerType | VerifyChecksum
//	set <sp> <dp> <seq> <ack> <off> <flags9> <win> <ck> <urg> <opts> <pad>   build a layer from field values
//	pseudo 4:<src>:<dst> | 6:<src>:<dst>     SetNetworkLayerForChecksum
//	ser <fix> <csum> <bufhist> <payload|@>   SerializeTo over the payload in a buffer with the given history
//	rt <fix> <csum> <payload|@>              serialize, decode the bytes into a fresh layer, serialize that again
//
// Replies: `ok …` with a canonical `field=value` rendering of ALL public fields, `err`, `panic <kind>`.
package main

import (
	"bytes"
	"fmt"
	"net"
	"reflect"
	"strings"
	"time"

	"github.com/gopacket/gopacket"
	"github.com/gopacket/gopacket/layers"
	"verif/harness/lib"
)

// ---------------------------------------------------------------- canonical rendering

func b01(b bool) string {
	if b {
		return "1"
	}
	return "0"
}

func slashed(xs ...string) string { return "(" + strings.Join(xs, "/") + ")" }

func u(n uint64) string { return fmt.Sprintf("%d", n) }

// unexported bool field of a struct (Dss.m, Dss.a)
func privBool(p interface{}, name string) bool {
	return reflect.ValueOf(p).Elem().FieldByName(name).Bool()
}

func showOpt(o layers.TCPOption) string {
	f := []string{u(uint64(o.OptionType)), u(uint64(o.OptionLength)), lib.Hex(o.OptionData), u(uint64(o.OptionMultipath))}
	if c := o.OptionMPTCPMpCapable; c != nil {
		f = append(f, slashed(u(uint64(c.Version)), b01(c.A)+b01(c.B)+b01(c.C)+b01(c.D)+b01(c.E)+b01(c.F)+b01(c.G)+b01(c.H),
			lib.Hex(c.SendKey), lib.Hex(c.ReceivKey), u(uint64(c.DataLength)), u(uint64(c.Checksum))))
	} else {
		f = append(f, "-")
	}
	if d := o.OptionMPTCPDss; d != nil {
		f = append(f, slashed(b01(d.F)+b01(privBool(d, "m"))+b01(d.M)+b01(privBool(d, "a"))+b01(d.A),
			lib.Hex(d.DataAck), lib.Hex(d.DSN), u(uint64(d.SSN)), u(uint64(d.DataLength)), u(uint64(d.Checksum))))
	} else {
		f = append(f, "-")
	}
	if j := o.OptionMPTCPMpJoin; j != nil {
		f = append(f, slashed(b01(j.Backup), u(uint64(j.AddrID)), u(uint64(j.ReceivToken)), u(uint64(j.SendRandNum)), lib.Hex(j.SendHMAC)))
	} else {
		f = append(f, "-")
	}
	if p := o.OptionMPTCPMpPrio; p != nil {
		f = append(f, slashed(b01(p.Backup), u(uint64(p.AddrID))))
	} else {
		f = append(f, "-")
	}
	if a := o.OptionMPTCPAddAddr; a != nil {
		f = append(f, slashed(u(uint64(a.IPVer)), b01(a.E), u(uint64(a.AddrID)), lib.Hex(a.Address), u(uint64(a.Port)), lib.Hex(a.SendHMAC)))
	} else {
		f = append(f, "-")
	}
	if r := o.OptionMTCPRemAddr; r != nil {
		f = append(f, slashed(lib.Hex(r.AddrIDs)))
	} else {
		f = append(f, "-")
	}
	if c := o.OptionMTCPMPFastClose; c != nil {
		f = append(f, slashed(lib.Hex(c.ReceivKey)))
	} else {
		f = append(f, "-")
	}
	if t := o.OptionMPTCPMPTcpRst; t != nil {
		f = append(f, slashed(b01(t.U)+b01(t.V)+b01(t.W)+b01(t.T), u(uint64(t.Reason))))
	} else {
		f = append(f, "-")
	}
	if m := o.OptionMTCPMPFail; m != nil {
		f = append(f, slashed(u(m.DSN)))
	} else {
		f = append(f, "-")
	}
	return strings.Join(f, ":")
}

func showOpts(os []layers.TCPOption) string {
	if len(os) == 0 {
		return "-"
	}
	xs := make([]string, len(os))
	for i, o := range os {
		xs[i] = showOpt(o)
	}
	return strings.Join(xs, ",")
}

func flowStr(t *layers.TCP) string {
	s, d := t.TransportFlow().Endpoints()
	return lib.Hex(s.Raw()) + ">" + lib.Hex(d.Raw())
}

type field struct{ name, val string }

// every public field (plus the flow, which exposes the private sPort/dPort), by Go field name
func fields(t *layers.TCP) []field {
	return []field{
		{"SrcPort", "sp=" + u(uint64(t.SrcPort))}, {"DstPort", "dp=" + u(uint64(t.DstPort))},
		{"Seq", "seq=" + u(uint64(t.Seq))}, {"Ack", "ack=" + u(uint64(t.Ack))},
		{"DataOffset", "off=" + u(uint64(t.DataOffset))},
		{"Flags", "fl=" + b01(t.FIN) + b01(t.SYN) + b01(t.RST) + b01(t.PSH) + b01(t.ACK) + b01(t.URG) + b01(t.ECE) + b01(t.CWR) + b01(t.NS)},
		{"Window", "win=" + u(uint64(t.Window))}, {"Checksum", "ck=" + u(uint64(t.Checksum))},
		{"Urgent", "urg=" + u(uint64(t.Urgent))}, {"Options", "opts=" + showOpts(t.Options)},
		{"Padding", "pad=" + lib.Hex(t.Padding)}, {"Multipath", "mp=" + b01(t.Multipath)},
		{"Contents", "contents=" + lib.Hex(t.Contents)}, {"Payload", "payload=" + lib.Hex(t.Payload)},
		{"Flow", "flow=" + flowStr(t)},
	}
}

func showLayer(t *layers.TCP) string {
	fs := fields(t)
	xs := make([]string, len(fs))
	for i, f := range fs {
		xs[i] = f.val
	}
	return strings.Join(xs, " ")
}

func showDec(err error, trunc bool, t *layers.TCP) string {
	return "ok err=" + b01(err != nil) + " trunc=" + b01(trunc) + " " + showLayer(t)
}

// ---------------------------------------------------------------- state

type fb struct{ t bool }

func (f *fb) SetTruncated() { f.t = true }

var (
	cur        *layers.TCP
	curDecoded bool // cur is the result of a decode that returned no error
	curPseudo  gopacket.NetworkLayer
)

func reset() { cur, curDecoded, curPseudo = nil, false, nil }

// data in a buffer whose spare capacity holds `foreign`
func inBuffer(data, foreign []byte) []byte {
	buf := make([]byte, len(data)+len(foreign))
	copy(buf, data)
	copy(buf[len(data):], foreign)
	return buf[:len(data):len(buf)]
}

type decRes struct {
	t     *layers.TCP
	err   error
	trunc bool
	pan   string // "" or "panic <kind>"
	site  string
}

func decodeInto(t *layers.TCP, data []byte) decRes {
	f := &fb{}
	var err error
	rep, pan := lib.Protect(func() string { err = t.DecodeFromBytes(data, f); return "" })
	if pan {
		return decRes{t: t, pan: canonPanic(rep), site: lib.LastPanicSite}
	}
	return decRes{t: t, err: err, trunc: f.t}
}

func (r decRes) String() string {
	if r.pan != "" {
		return r.pan
	}
	return showDec(r.err, r.trunc, r.t)
}

// index and slice bounds panics are one kind (`oob`): Go leaves their relative order inside one
// expression to the compiler
func canonPanic(rep string) string {
	if rep == "panic index" || rep == "panic slice" {
		return "panic oob"
	}
	return rep
}

func tcpSite(site string) bool { return strings.HasPrefix(site, "layers/tcp.go") }

// ---------------------------------------------------------------- monitors on the other decode entry points

func monitorEntryPoints(data []byte, direct decRes) {
	// (1) gopacket.NewPacket with recovery switched off, TCP as first decoder
	for _, dsad := range []bool{false, true} {
		for _, nocopy := range []bool{false, true} {
			var p gopacket.Packet
			d := inBuffer(data, nil)
			rep, pan := lib.Protect(func() string {
				p = gopacket.NewPacket(d, layers.LayerTypeTCP, gopacket.DecodeOptions{SkipDecodeRecovery: true, DecodeStreamsAsDatagrams: dsad, NoCopy: nocopy})
				return ""
			})
			if pan {
				if tcpSite(lib.LastPanicSite) {
					lib.Finding("C19", "ltcp:panic:"+lib.LastPanicSite, "NewPacket(SkipDecodeRecovery) "+rep+": "+lib.LastPanicMsg)
				} else {
					lib.Stat("foreign-panic:" + lib.LastPanicSite)
				}
				continue
			}
			if direct.pan != "" || dsad {
				continue
			}
			l := p.Layer(layers.LayerTypeTCP)
			if l == nil {
				lib.Finding("C05", "ltcp:packet-vs-direct", "NewPacket did not add a TCP layer")
				continue
			}
			pt := l.(*layers.TCP)
			if showLayer(pt) != showLayer(direct.t) || (p.ErrorLayer() != nil) != (direct.err != nil) || p.Metadata().Truncated != direct.trunc {
				lib.Finding("C05", "ltcp:packet-vs-direct", "TCP layer built by NewPacket differs from direct DecodeFromBytes into a fresh layer")
			}
			if p.TransportLayer() != gopacket.TransportLayer(pt) {
				lib.Finding("C05", "ltcp:packet-vs-direct", "NewPacket did not set the transport layer")
			}
		}
	}
	// (2) DecodingLayerParser letting panics through
	{
		var t2 layers.TCP
		var pl gopacket.Payload
		parser := gopacket.NewDecodingLayerParser(layers.LayerTypeTCP, &t2, &pl)
		parser.IgnorePanic = true
		decoded := []gopacket.LayerType{}
		var err error
		d := inBuffer(data, nil)
		rep, pan := lib.Protect(func() string { err = parser.DecodeLayers(d, &decoded); return "" })
		if pan {
			if tcpSite(lib.LastPanicSite) {
				lib.Finding("C19", "ltcp:panic:"+lib.LastPanicSite, "DecodingLayerParser(IgnorePanic) "+rep+": "+lib.LastPanicMsg)
			}
		} else if direct.pan == "" {
			if direct.err != nil {
				if err == nil || len(decoded) != 0 {
					lib.Finding("C05", "ltcp:parser-vs-direct", "parser reports a TCP layer although DecodeFromBytes returns an error")
				}
			} else if len(decoded) == 0 || decoded[0] != layers.LayerTypeTCP || showLayer(&t2) != showLayer(direct.t) {
				lib.Finding("C05", "ltcp:parser-vs-direct", "parser result differs from direct DecodeFromBytes into a fresh layer")
			}
			if parser.Truncated != direct.trunc {
				lib.Finding("C05", "ltcp:parser-vs-direct", "parser.Truncated differs from the decode's truncation flag")
			}
		}
	}
	// (3) C01: with recovery on, the packet and every renderer must not panic
	if direct.pan != "" || direct.err != nil || len(direct.t.Options) > 0 {
		d := inBuffer(data, nil)
		rep, pan := lib.Protect(func() string {
			p := gopacket.NewPacket(d, layers.LayerTypeTCP, gopacket.Default)
			_ = p.String()
			_ = p.Dump()
			for _, l := range p.Layers() {
				_ = gopacket.LayerString(l)
				_ = gopacket.LayerGoString(l)
			}
			return ""
		})
		if pan {
			lib.Finding("C01", "ltcp:render-panic:"+lib.LastPanicSite, "packet.String()/Dump() after decoding as TCP "+rep+": "+lib.LastPanicMsg)
		}
	}
}

// ---------------------------------------------------------------- serialization helpers

func mkBuf(hist string) (gopacket.SerializeBuffer, bool) {
	switch {
	case hist == "fresh":
		return gopacket.NewSerializeBuffer(), true
	case strings.HasPrefix(hist, "dirty"):
		v, ok := lib.Atoi(hist[5:])
		if !ok || v < 0 || v > 255 {
			return nil, false
		}
		b := gopacket.NewSerializeBuffer()
		s, _ := b.AppendBytes(1600)
		for i := range s {
			s[i] = byte(v)
		}
		s, _ = b.PrependBytes(128)
		for i := range s {
			s[i] = byte(v)
		}
		b.Clear()
		return b, true
	case strings.HasPrefix(hist, "sized"):
		pa := strings.Split(hist[5:], "_")
		if len(pa) != 2 {
			return nil, false
		}
		p, ok1 := lib.Atoi(pa[0])
		a, ok2 := lib.Atoi(pa[1])
		if !ok1 || !ok2 || p < 0 || a < 0 || p > 100000 || a > 100000 {
			return nil, false
		}
		if p == 0 && a == 0 {
			return gopacket.NewSerializeBuffer(), true
		}
		return gopacket.NewSerializeBufferExpectedSize(p, a), true
	}
	return nil, false
}

type serRes struct {
	out  []byte
	err  error
	pan  string
	site string
}

func serialize(t *layers.TCP, hist string, fix, csum bool, payload []byte) serRes {
	b, _ := mkBuf(hist)
	s, _ := b.AppendBytes(len(payload))
	copy(s, payload)
	var err error
	rep, pan := lib.Protect(func() string {
		err = t.SerializeTo(b, gopacket.SerializeOptions{FixLengths: fix, ComputeChecksums: csum})
		return ""
	})
	if pan {
		return serRes{pan: canonPanic(rep), site: lib.LastPanicSite}
	}
	if err != nil {
		return serRes{err: err}
	}
	return serRes{out: append([]byte(nil), b.Bytes()...)}
}

// the in-range / well-formedness predicate of the round-trip property, written independently in Go
func wfGo(t *layers.TCP) (ok bool, mptcp bool) {
	n := 0
	for i, o := range t.Options {
		switch o.OptionType {
		case 0, 1:
			if len(o.OptionData) != 0 || o.OptionLength != 1 {
				return false, false
			}
			if o.OptionType == 0 && i != len(t.Options)-1 {
				return false, false
			}
			n++
		default:
			if int(o.OptionLength) != len(o.OptionData)+2 && o.OptionType != 30 {
				return false, false
			}
			if o.OptionType == 30 {
				mptcp = true
			}
			n += 2 + len(o.OptionData)
		}
	}
	if len(t.Padding) > 0 && (len(t.Options) == 0 || t.Options[len(t.Options)-1].OptionType != 0) {
		return false, mptcp
	}
	tot := 20 + n + len(t.Padding)
	if n%4 != 0 || tot%4 != 0 || tot > 60 {
		return false, mptcp
	}
	return true, mptcp
}

// ---------------------------------------------------------------- tracing PacketBuilder (decodeTCP behaviour)

type tracer struct {
	fb
	added     []gopacket.Layer
	transport gopacket.TransportLayer
	other     []string
	next      string
	opts      gopacket.DecodeOptions
}

func (t *tracer) AddLayer(l gopacket.Layer)                       { t.added = append(t.added, l) }
func (t *tracer) SetLinkLayer(gopacket.LinkLayer)                 { t.other = append(t.other, "link") }
func (t *tracer) SetNetworkLayer(gopacket.NetworkLayer)           { t.other = append(t.other, "network") }
func (t *tracer) SetTransportLayer(l gopacket.TransportLayer)     { t.transport = l }
func (t *tracer) SetApplicationLayer(gopacket.ApplicationLayer)   { t.other = append(t.other, "app") }
func (t *tracer) SetErrorLayer(gopacket.ErrorLayer)               { t.other = append(t.other, "error") }
func (t *tracer) DumpPacketData()                                 {}
func (t *tracer) DecodeOptions() *gopacket.DecodeOptions          { return &t.opts }
func (t *tracer) NextDecoder(d gopacket.Decoder) error {
	if lt, ok := d.(gopacket.LayerType); ok {
		t.next = lt.String()
	} else {
		t.next = "?"
	}
	return nil
}

// ---------------------------------------------------------------- exec

func parseBool(s string) (bool, bool) {
	switch s {
	case "1":
		return true, true
	case "0":
		return false, true
	}
	return false, false
}

func parseOpts(s string) ([]layers.TCPOption, bool) {
	if s == "-" {
		return nil, true
	}
	var out []layers.TCPOption
	for _, it := range strings.Split(s, ",") {
		p := strings.Split(it, ":")
		if len(p) != 3 {
			return nil, false
		}
		t, ok1 := lib.Atoi(p[0])
		n, ok2 := lib.Atoi(p[1])
		d, ok3 := lib.UnHex(p[2])
		if !ok1 || !ok2 || !ok3 || t < 0 || t > 255 || n < 0 || n > 255 {
			return nil, false
		}
		o := layers.TCPOption{OptionType: layers.TCPOptionKind(t), OptionLength: uint8(n)}
		if len(d) > 0 {
			o.OptionData = d
		}
		out = append(out, o)
	}
	return out, true
}

func payloadArg(s string) ([]byte, bool) {
	if s == "@" {
		if cur == nil {
			return nil, false
		}
		return append([]byte(nil), cur.Payload...), true
	}
	return lib.UnHex(s)
}

func exec(a []string) string {
	done := make(chan string, 1)
	go func() {
		r, _ := lib.Protect(func() string { return exec1(a) })
		done <- r
	}()
	select {
	case r := <-done:
		return r
	case <-time.After(30 * time.Second):
		lib.Finding("C19", "ltcp:hang", "operation did not return within 30 s: "+strings.Join(a, " "))
		return "hang"
	}
}

func exec1(a []string) string {
	if len(a) < 2 || a[0] != "ltcp" {
		return "bad-op"
	}
	switch a[1] {
	case "variant":
		if len(a) != 5 {
			return "bad-op"
		}
		for _, x := range a[2:] {
			if _, ok := parseBool(x); !ok {
				return "bad-op"
			}
		}
		lib.Stat("variant:" + a[2] + a[3] + a[4])
		return "ok"

	case "dec":
		if len(a) != 5 {
			return "bad-op"
		}
		n, ok1 := lib.Atoi(a[2])
		foreign, ok2 := lib.UnHex(a[3])
		data, ok3 := lib.UnHex(a[4])
		if !ok1 || !ok2 || !ok3 || n != len(foreign) {
			return "bad-op"
		}
		r := decodeInto(&layers.TCP{}, inBuffer(data, foreign))
		statDec(r)
		if r.pan != "" {
			lib.Finding("C19", "ltcp:panic:"+r.site, "DecodeFromBytes "+r.pan+" on "+lib.Hex(data)+": "+lib.LastPanicMsg)
			cur, curDecoded = nil, false
		} else {
			cur, curDecoded = r.t, r.err == nil
		}
		curPseudo = nil
		// C05/C04: a buffer with spare capacity (NoCopy/Pool) must give the result of the copying path
		exact := r
		if n > 0 {
			exact = decodeInto(&layers.TCP{}, inBuffer(data, nil))
			if exact.String() != r.String() {
				lib.Finding("C05", "ltcp:cap-dependent", "decode result depends on the bytes/capacity behind the data: "+lib.Hex(data)+" +"+lib.Hex(foreign))
			}
			other := make([]byte, len(foreign))
			for i := range other {
				other[i] = ^foreign[i]
			}
			if r2 := decodeInto(&layers.TCP{}, inBuffer(data, other)); r2.String() != r.String() {
				lib.Finding("C05", "ltcp:cap-dependent", "decode result depends on the foreign bytes behind the data: "+lib.Hex(data))
			}
		}
		monitorEntryPoints(data, exact)
		return r.String()

	case "redec":
		if len(a) != 3 {
			return "bad-op"
		}
		data, ok := lib.UnHex(a[2])
		if !ok {
			return "bad-op"
		}
		if cur == nil {
			cur, curPseudo = &layers.TCP{}, nil
		}
		r := decodeInto(cur, inBuffer(data, nil))
		statDec(r)
		lib.Stat("redec")
		fr := decodeInto(&layers.TCP{}, inBuffer(data, nil))
		if r.pan != "" {
			lib.Finding("C19", "ltcp:panic:"+r.site, "DecodeFromBytes (reused layer) "+r.pan+" on "+lib.Hex(data))
			cur, curDecoded, curPseudo = nil, false, nil
			return r.pan
		}
		curDecoded = r.err == nil
		if fr.pan == "" {
			if (r.err != nil) != (fr.err != nil) || r.trunc != fr.trunc {
				lib.Finding("C05", "ltcp:stale:result", "error/truncation result differs between a reused and a fresh layer")
			} else if r.err == nil {
				f1, f2 := fields(r.t), fields(fr.t)
				for i := range f1 {
					if f1[i].val != f2[i].val {
						lib.Finding("C05", "ltcp:stale:"+f1[i].name, "decoding into a reused layer gives "+f1[i].val+", into a fresh layer "+f2[i].val)
						break
					}
				}
			}
		}
		return r.String()

	case "pb":
		if len(a) != 6 {
			return "bad-op"
		}
		dsad, ok0 := parseBool(a[2])
		n, ok1 := lib.Atoi(a[3])
		foreign, ok2 := lib.UnHex(a[4])
		data, ok3 := lib.UnHex(a[5])
		if !ok0 || !ok1 || !ok2 || !ok3 || n != len(foreign) {
			return "bad-op"
		}
		tr := &tracer{opts: gopacket.DecodeOptions{DecodeStreamsAsDatagrams: dsad}}
		var err error
		rep, pan := lib.Protect(func() string { err = layers.LayerTypeTCP.Decode(inBuffer(data, foreign), tr); return "" })
		if pan {
			lib.Finding("C19", "ltcp:panic:"+lib.LastPanicSite, "decodeTCP "+rep+" on "+lib.Hex(data))
			cur, curDecoded = nil, false
			return canonPanic(rep)
		}
		if len(tr.added) != 1 {
			return fmt.Sprintf("ok add=%d", len(tr.added))
		}
		t, ok := tr.added[0].(*layers.TCP)
		if !ok {
			return "ok add=other"
		}
		cur, curDecoded, curPseudo = t, err == nil, nil
		next := tr.next
		if err != nil {
			next = "err"
			if tr.next != "" {
				next = "err+" + tr.next
			}
		}
		lib.Stat("pb:next:" + next)
		return "ok add=1 transport=" + b01(tr.transport == gopacket.TransportLayer(t) && len(tr.other) == 0) + " trunc=" + b01(tr.t) + " next=" + next + " " + showLayer(t)

	case "str":
		if len(a) != 2 || cur == nil {
			return "bad-op"
		}
		var ss []string
		for _, o := range cur.Options {
			o := o
			var s string
			rep, pan := lib.Protect(func() string { s = o.String(); return "" })
			if pan {
				lib.Finding("C01", "ltcp:render-panic:"+lib.LastPanicSite, "TCPOption.String() "+rep+" on option "+showOpt(o))
				lib.Stat("str:panic")
				return canonPanic(rep)
			}
			if o.OptionType == 30 && o.OptionMultipath == 3 && o.OptionMPTCPAddAddr != nil {
				// the net.IP text is outside the model
				if i := strings.Index(s, ";Address "); i >= 0 {
					s = s[:i+len(";Address ")]
				}
			}
			ss = append(ss, s)
		}
		lib.Stat("str:ok")
		return "ok " + strings.Join(ss, " | ")

	case "flow":
		if len(a) != 2 || cur == nil {
			return "bad-op"
		}
		f := cur.TransportFlow()
		s, d := f.Endpoints()
		rs, rd := f.Reverse().Endpoints()
		if curDecoded && len(cur.Contents) >= 4 {
			lib.Nontrivial()
			if !bytes.Equal(s.Raw(), cur.Contents[0:2]) || !bytes.Equal(d.Raw(), cur.Contents[2:4]) || f.EndpointType() != layers.EndpointTCPPort {
				lib.Finding("C17", "ltcp:flow-bytes", "TransportFlow does not carry the port bytes of the decoded header")
			}
			// the other direction of the conversation: ports swapped
			seg := append(append([]byte(nil), cur.Contents...), cur.Payload...)
			seg[0], seg[1], seg[2], seg[3] = seg[2], seg[3], seg[0], seg[1]
			o := decodeInto(&layers.TCP{}, seg)
			if o.pan == "" && len(o.t.Contents) >= 4 {
				of := o.t.TransportFlow()
				if of != f.Reverse() || of.FastHash() != f.FastHash() || of.Reverse() != f {
					lib.Finding("C17", "ltcp:flow-reverse", "flows of the two directions are not mutually reversed / hashes differ")
				}
			}
			lib.Stat("flow:decoded")
		}
		return "ok " + fmt.Sprint(int64(f.EndpointType())) + " " + lib.Hex(s.Raw()) + ">" + lib.Hex(d.Raw()) + " rev " + lib.Hex(rs.Raw()) + ">" + lib.Hex(rd.Raw()) +
			" hash=" + u(f.FastHash()) + " rhash=" + u(f.Reverse().FastHash())

	case "nlt":
		if len(a) != 2 || cur == nil {
			return "bad-op"
		}
		return "ok " + cur.NextLayerType().String()

	case "set":
		if len(a) != 13 {
			return "bad-op"
		}
		var v [9]uint64
		idx := []int{2, 3, 4, 5, 6, 8, 9, 10}
		lim := []uint64{65536, 65536, 1 << 32, 1 << 32, 256, 65536, 65536, 65536}
		for i, k := range idx {
			x, ok := lib.Atou(a[k])
			if !ok || x >= lim[i] {
				return "bad-op"
			}
			v[i] = x
		}
		fl := a[7]
		if len(fl) != 9 || strings.Trim(fl, "01") != "" {
			return "bad-op"
		}
		opts, ok1 := parseOpts(a[11])
		pad, ok2 := lib.UnHex(a[12])
		if !ok1 || !ok2 {
			return "bad-op"
		}
		t := &layers.TCP{SrcPort: layers.TCPPort(v[0]), DstPort: layers.TCPPort(v[1]), Seq: uint32(v[2]), Ack: uint32(v[3]),
			DataOffset: uint8(v[4]), Window: uint16(v[5]), Checksum: uint16(v[6]), Urgent: uint16(v[7]), Options: opts}
		t.FIN, t.SYN, t.RST, t.PSH, t.ACK, t.URG, t.ECE, t.CWR, t.NS = fl[0] == '1', fl[1] == '1', fl[2] == '1', fl[3] == '1', fl[4] == '1', fl[5] == '1', fl[6] == '1', fl[7] == '1', fl[8] == '1'
		if len(pad) > 0 {
			t.Padding = pad
		}
		cur, curDecoded, curPseudo = t, false, nil
		return "ok"

	case "pseudo":
		if len(a) != 3 || cur == nil {
			return "bad-op"
		}
		p := strings.Split(a[2], ":")
		if len(p) != 3 || (p[0] != "4" && p[0] != "6") {
			return "bad-op"
		}
		src, ok1 := lib.UnHex(p[1])
		dst, ok2 := lib.UnHex(p[2])
		if !ok1 || !ok2 {
			return "bad-op"
		}
		var nl gopacket.NetworkLayer
		if p[0] == "4" {
			nl = &layers.IPv4{SrcIP: net.IP(src), DstIP: net.IP(dst)}
		} else {
			nl = &layers.IPv6{SrcIP: net.IP(src), DstIP: net.IP(dst)}
		}
		if err := cur.SetNetworkLayerForChecksum(nl); err != nil {
			return "err"
		}
		curPseudo = nl
		return "ok"

	case "ser":
		if len(a) != 6 || cur == nil {
			return "bad-op"
		}
		fix, ok1 := parseBool(a[2])
		csum, ok2 := parseBool(a[3])
		_, ok3 := mkBuf(a[4])
		payload, ok4 := payloadArg(a[5])
		if !ok1 || !ok2 || !ok3 || !ok4 {
			return "bad-op"
		}
		before := *cur
		r := serialize(cur, a[4], fix, csum, payload)
		lib.Stat("ser:fix" + a[2] + "csum" + a[3])
		lib.Stat("ser:paylen:" + sizeClass(len(payload)))
		if len(cur.Options) > 0 {
			lib.Nontrivial()
		}
		if r.pan != "" {
			lib.Finding("C07", "ltcp:ser-panic:"+r.site, "SerializeTo "+r.pan)
			return r.pan
		}
		if r.err != nil {
			lib.Stat("ser:err")
			return "err"
		}
		// C07 monitors: other buffer histories and repetition must give the same bytes
		for _, h := range []string{"fresh", "dirty165", "dirty90", "sized7_3", "sized2000_0"} {
			c := before
			if o := serialize(&c, h, fix, csum, payload); o.pan != "" {
				lib.Finding("C07", "ltcp:ser-panic:"+o.site, "SerializeTo "+o.pan+" with buffer history "+h)
			} else if o.err != nil || !bytes.Equal(o.out, r.out) {
				lib.Finding("C07", "ltcp:dirty-buffer", "output differs between buffer history "+a[4]+" and "+h)
			}
		}
		if o := serialize(cur, "fresh", fix, csum, payload); o.pan != "" || o.err != nil || !bytes.Equal(o.out, r.out) {
			lib.Finding("C07", "ltcp:not-idempotent", "serialising the same layer again gives different bytes")
		}
		return "ok " + lib.Hex(r.out) + " off=" + u(uint64(cur.DataOffset)) + " ck=" + u(uint64(cur.Checksum)) + " pad=" + lib.Hex(cur.Padding)

	case "rt":
		if len(a) != 5 || cur == nil {
			return "bad-op"
		}
		fix, ok1 := parseBool(a[2])
		csum, ok2 := parseBool(a[3])
		payload, ok3 := payloadArg(a[4])
		if !ok1 || !ok2 || !ok3 {
			return "bad-op"
		}
		wf, mptcp := wfGo(cur)
		r := serialize(cur, "fresh", fix, csum, payload)
		if r.pan != "" {
			lib.Finding("C07", "ltcp:ser-panic:"+r.site, "SerializeTo "+r.pan)
			return r.pan
		}
		if r.err != nil {
			return "sererr"
		}
		src := cur
		d := decodeInto(&layers.TCP{}, inBuffer(r.out, nil))
		if d.pan != "" {
			lib.Finding("C19", "ltcp:panic:"+d.site, "DecodeFromBytes "+d.pan+" on serialised bytes "+lib.Hex(r.out))
			cur, curDecoded = nil, false
			return d.pan
		}
		// serialise the decoded layer once more
		refix := "0"
		if curPseudo != nil {
			d.t.SetNetworkLayerForChecksum(curPseudo)
		}
		clone := *d.t
		r2 := serialize(&clone, "fresh", fix, csum, d.t.Payload)
		if r2.pan == "" && r2.err == nil && bytes.Equal(r2.out, r.out) {
			refix = "1"
		}
		if wf && fix && csum {
			lib.Nontrivial()
			lib.Stat("rt:wf")
			sig := ""
			what := ""
			if d.err != nil || d.trunc {
				sig, what = "ltcp:roundtrip:error", "decoding the serialised layer reports an error / truncation"
			} else if !bytes.Equal(d.t.Payload, payload) {
				sig, what = "ltcp:roundtrip:Payload", "payload differs after the round trip"
			} else {
				f1, f2 := fields(src), fields(d.t)
				for i := range f1 {
					switch f1[i].name {
					case "Contents", "Payload", "Flow", "Multipath":
						continue // derived / internal
					}
					if f1[i].val != f2[i].val {
						sig, what = "ltcp:roundtrip:"+f1[i].name, "wrote "+f1[i].val+" read back "+f2[i].val
						break
					}
				}
			}
			if sig == "" && refix != "1" {
				sig, what = "ltcp:reserialize", "serialising the decoded layer again does not reproduce the bytes"
			}
			if sig != "" {
				if mptcp {
					sig = "ltcp:roundtrip:mptcp-option"
				}
				lib.Finding("C06", sig, what)
			}
		} else {
			lib.Stat("rt:other")
		}
		cur, curDecoded = d.t, d.err == nil
		return d.String() + " refix=" + refix

	case "vcs":
		if len(a) != 2 || cur == nil {
			return "bad-op"
		}
		// VerifyChecksum appends the payload behind Contents in place: give it private copies
		c := *cur
		c.Contents = append([]byte(nil), cur.Contents...)
		err, res := c.VerifyChecksum()
		if err != nil {
			return "err"
		}
		return "ok valid=" + b01(res.Valid) + " correct=" + u(uint64(res.Correct)) + " actual=" + u(uint64(res.Actual))
	}
	return "bad-op"
}

func sizeClass(n int) string {
	switch {
	case n == 0:
		return "0"
	case n == 1:
		return "1"
	case n < 1480:
		if n%2 == 1 {
			return "odd<1480"
		}
		return "even<1480"
	case n <= 1520:
		return "1480-1520"
	case n <= 65535:
		return "<=65535"
	}
	return ">65535"
}

func statDec(r decRes) {
	switch {
	case r.pan != "":
		lib.Stat("dec:" + strings.ReplaceAll(r.pan, " ", ":"))
	case r.err != nil && r.trunc:
		lib.Stat("dec:err+trunc")
	case r.err != nil:
		lib.Stat("dec:err")
	default:
		lib.Stat("dec:ok")
	}
	if r.pan == "" {
		if len(r.t.Options) > 0 {
			lib.Nontrivial()
		}
		for _, o := range r.t.Options {
			switch {
			case o.OptionType == 30:
				st := "ok"
				if r.err != nil {
					st = "in-failed-decode"
				}
				lib.Stat(fmt.Sprintf("opt:mptcp:sub%d:%s", o.OptionMultipath, st))
			case o.OptionType < 9:
				lib.Stat(fmt.Sprintf("opt:kind%d", o.OptionType))
			default:
				lib.Stat("opt:kind-other")
			}
		}
		if len(r.t.Padding) > 0 {
			lib.Stat("dec:padding")
		}
	}
}

func main() {
	lib.Main(lib.Engine{Name: "ltcp", Gen: gen, Reset: reset, Exec: exec})
}
