package main

import (
	"encoding/hex"
	"fmt"
	"strings"

	"github.com/gopacket/gopacket"
	"github.com/gopacket/gopacket/layers"
	"verif/harness/lib"
)

// ---------------------------------------------------------------- probing the code under test

// probe reports which of the three TCP defects are fixed in the tree the adapter was built against
// (1 = fixed).  The Lean model is parameterised accordingly, so that the correspondence run is
// meaningful on both trees; the monitors (and the theorems, stated for the fixed variant) decide.
func probe() string {
	hdr := func(opts string) []byte {
		b, _ := hex.DecodeString("30393039000000010000000260020000000000000101" + opts)
		return b
	}
	m, r, n := "1", "1", "1"
	if _, pan := lib.Protect(func() string { (&layers.TCP{}).DecodeFromBytes(hdr("011e"), gopacket.NilDecodeFeedback); return "" }); pan {
		m = "0"
	}
	t := &layers.TCP{}
	lib.Protect(func() string {
		t.DecodeFromBytes(hdr("0000"), gopacket.NilDecodeFeedback)
		t.Multipath = true
		t.DecodeFromBytes(hdr("0000"), gopacket.NilDecodeFeedback)
		return ""
	})
	if t.Multipath {
		r = "0"
	}
	if _, pan := lib.Protect(func() string { return layers.TCPOption{OptionType: 30}.String() }); pan {
		n = "0"
	}
	return "ltcp variant " + m + " " + r + " " + n
}

// ---------------------------------------------------------------- building segments

func be16(v int) []byte { return []byte{byte(v >> 8), byte(v)} }

// TCP segment with an explicit data-offset nibble (-1: computed from the option area)
func seg(sp, dp int, off int, flags int, opts, payload []byte) []byte {
	if off < 0 {
		off = (20 + len(opts)) / 4
	}
	b := append([]byte{}, be16(sp)...)
	b = append(b, be16(dp)...)
	b = append(b, 0xde, 0xad, 0xbe, 0xef, 0x01, 0x02, 0x03, 0x04)
	b = append(b, byte(off<<4)|byte(flags>>8&1), byte(flags))
	b = append(b, 0x20, 0x00, 0xab, 0xcd, 0x00, 0x07)
	b = append(b, opts...)
	return append(b, payload...)
}

func pad4(o []byte, with byte) []byte {
	for len(o)%4 != 0 {
		o = append(o, with)
	}
	return o
}

func unhex(s string) []byte {
	b, err := hex.DecodeString(s)
	if err != nil {
		panic(err)
	}
	return b
}

// well-formed MPTCP options, one or more per sub-type (RFC 8684 shapes accepted by the decoder)
func mptcpGood(r *lib.Rand) [][]byte {
	rb := func(n int) []byte { return r.Bytes(n) }
	cat := func(xs ...[]byte) []byte {
		var o []byte
		for _, x := range xs {
			o = append(o, x...)
		}
		return o
	}
	var out [][]byte
	for _, n := range []int{4, 12, 20, 22, 24} { // MP_CAPABLE
		out = append(out, cat([]byte{30, byte(n), 0x01, byte(r.Intn(256))}, rb(n-4)))
	}
	for _, n := range []int{12, 16, 24} { // MP_JOIN
		out = append(out, cat([]byte{30, byte(n), 0x10 | byte(r.Intn(2)), byte(r.Intn(256))}, rb(n-4)))
	}
	for fl := 0; fl < 32; fl++ { // DSS: flags F m M a A
		n := 4
		if fl&1 != 0 {
			n += 4
			if fl&2 != 0 {
				n += 4
			}
		}
		if fl&4 != 0 {
			n += 10
			if fl&8 != 0 {
				n += 4
			}
		}
		out = append(out, cat([]byte{30, byte(n), 0x20, byte(fl)}, rb(n-4)))
		if fl&4 != 0 {
			out = append(out, cat([]byte{30, byte(n + 2), 0x20, byte(fl)}, rb(n-2)))
		}
	}
	for _, n := range []int{8, 10, 20, 22} { // ADD_ADDR v0 (IPVer nibble 4/6), v1 with/without echo
		out = append(out, cat([]byte{30, byte(n), 0x34, byte(r.Intn(256))}, rb(n-4)))
		out = append(out, cat([]byte{30, byte(n), 0x36, byte(r.Intn(256))}, rb(n-4)))
		out = append(out, cat([]byte{30, byte(n), 0x31, byte(r.Intn(256))}, rb(n-4)))
		out = append(out, cat([]byte{30, byte(n + 8), 0x30, byte(r.Intn(256))}, rb(n+4)))
	}
	for _, n := range []int{4, 5, 8} { // REMOVE_ADDR
		out = append(out, cat([]byte{30, byte(n), 0x40}, rb(n-3)))
	}
	out = append(out, []byte{30, 3, 0x51}, []byte{30, 4, 0x50, 9})          // MP_PRIO
	out = append(out, cat([]byte{30, 12, 0x60, 0}, rb(8)))                  // MP_FAIL
	out = append(out, cat([]byte{30, 12, 0x70, 0}, rb(8)))                  // MP_FASTCLOSE
	out = append(out, []byte{30, 4, 0x80 | byte(r.Intn(16)), byte(r.Intn(256))}) // MP_TCPRST
	out = append(out, []byte{30, 4, 0x90, 1}, cat([]byte{30, 8, 0xf0, 1}, rb(4))) // unknown sub-types
	return out
}

// plain (non-MPTCP) option encodings
func plainOpt(r *lib.Rand) []byte {
	switch r.Intn(9) {
	case 0:
		return []byte{1}
	case 1:
		return append([]byte{2, 4}, r.Bytes(2)...)
	case 2:
		return []byte{3, 3, byte(r.Intn(15))}
	case 3:
		return []byte{4, 2}
	case 4:
		n := 1 + r.Intn(3)
		return append([]byte{5, byte(2 + 8*n)}, r.Bytes(8*n)...)
	case 5:
		return append([]byte{8, 10}, r.Bytes(8)...)
	case 6:
		n := r.Intn(7)
		return append([]byte{byte(9 + r.Intn(240)), byte(2 + n)}, r.Bytes(n)...)
	case 7:
		return append([]byte{2, 3}, r.Bytes(1)...) // MSS with 1 data byte
	default:
		return append([]byte{8, 9}, r.Bytes(7)...) // timestamps with 7 data bytes
	}
}

var pseudos = []string{
	"4:c0a80001:c0a80002", "4:01020304:05060708", "6:20010db8000000000000000000000001:20010db8000000000000000000000002",
	"4:00000000000000000000ffff0a000001:0a000002", // 16-byte v4-mapped source
	"4:0a0001:0a000002",                            // wrong length -> error
	"6:0a000001:20010db8000000000000000000000002",  // v4 address in an IPv6 layer -> error
	"4:20010db8000000000000000000000001:0a000002",  // v6 address in an IPv4 layer -> error
}

// ---------------------------------------------------------------- emitting

type emitter struct {
	emit    func(string)
	variant string
}

func (e *emitter) begin() { e.emit("reset"); e.emit(e.variant) }
func (e *emitter) op(f string, a ...interface{}) {
	e.emit("ltcp " + fmt.Sprintf(f, a...))
}

func (e *emitter) decAll(r *lib.Rand, s []byte) {
	e.begin()
	e.op("dec 0 - %s", lib.Hex(s))
	e.op("str")
	e.op("flow")
	e.op("nlt")
	k := 1 + r.Intn(12)
	e.op("dec %d %s %s", k, lib.Hex(r.Bytes(k)), lib.Hex(s))
	e.op("pb %d 0 - %s", r.Intn(2), lib.Hex(s))
	e.op("str")
}

func optsField(os []layers.TCPOption) string {
	if len(os) == 0 {
		return "-"
	}
	xs := make([]string, len(os))
	for i, o := range os {
		xs[i] = fmt.Sprintf("%d:%d:%s", o.OptionType, o.OptionLength, lib.Hex(o.OptionData))
	}
	return strings.Join(xs, ",")
}

func flagsField(r *lib.Rand) string {
	b := make([]byte, 9)
	for i := range b {
		b[i] = '0' + byte(r.Intn(2))
	}
	return string(b)
}

func boundary(r *lib.Rand, max uint64) uint64 {
	switch r.Intn(6) {
	case 0:
		return 0
	case 1:
		return max
	case 2:
		return max / 2
	case 3:
		return 1
	}
	return r.U64() % (max + 1)
}

func port(r *lib.Rand) uint64 {
	if r.Chance(25) {
		return uint64(r.Pick([]int{53, 443, 502, 636, 989, 995, 2222, 3868, 5061, 5083, 44818, 80}))
	}
	return boundary(r, 65535)
}

// random option list; aligned=true gives a well-formed list whose length is a multiple of 4
func optList(r *lib.Rand, aligned bool) (os []layers.TCPOption, pad []byte) {
	n := r.Intn(6)
	tot := 0
	for i := 0; i < n; i++ {
		e := plainOpt(r)
		if tot+len(e) > 36 {
			break
		}
		o := layers.TCPOption{OptionType: layers.TCPOptionKind(e[0]), OptionLength: 1}
		if len(e) > 1 {
			o.OptionLength = uint8(len(e))
			o.OptionData = e[2:]
		}
		os = append(os, o)
		tot += len(e)
	}
	if aligned {
		for tot%4 != 0 {
			os = append(os, layers.TCPOption{OptionType: 1, OptionLength: 1})
			tot++
		}
		if r.Chance(30) && tot <= 36 {
			// end-of-list followed by explicit padding
			os = append(os, layers.TCPOption{OptionType: 0, OptionLength: 1})
			pad = r.Bytes(3)
			if r.Chance(50) {
				pad = []byte{0, 0, 0}
			}
		}
	}
	return
}

func (e *emitter) setLayer(r *lib.Rand, os []layers.TCPOption, pad []byte, off uint64) {
	e.op("set %d %d %d %d %d %s %d %d %d %s %s", port(r), port(r), boundary(r, 1<<32-1), boundary(r, 1<<32-1), off,
		flagsField(r), boundary(r, 65535), boundary(r, 65535), boundary(r, 65535), optsField(os), lib.Hex(pad))
}

func payloadOf(r *lib.Rand, tier string) []byte {
	sizes := []int{0, 0, 1, 2, 3, 7, 20, 33, 100, 1479, 1480, 1481, 1499, 1500, 1501, 1519, 1520}
	n := r.Pick(sizes)
	if r.Chance(1) || (tier == "thorough" && r.Chance(3)) {
		n = 65536 + r.Intn(3000)
	}
	return r.Bytes(n)
}

var hists = []string{"fresh", "dirty165", "dirty90", "dirty255", "sized0_0", "sized60_1500", "sized8_0", "sized20_3", "sized2000_66000"}

// ---------------------------------------------------------------- the generator

func gen(r *lib.Rand, tier string, emit func(string)) {
	e := &emitter{emit: emit, variant: probe()}
	thorough := tier == "thorough"
	mul := 1
	if thorough {
		mul = 8
	}
	var fx [][]byte
	for _, f := range fixtures {
		fx = append(fx, unhex(f))
	}
	good := mptcpGood(r.Fork())
	// segments built around every well-formed MPTCP option
	for i, g := range good {
		o := pad4(append([]byte{}, g...), 1)
		if i%3 == 0 {
			o = pad4(append(append([]byte{2, 4, 5, 0xb4}, g...), 0), 0)
		}
		if len(o) <= 40 {
			fx = append(fx, seg(40000+i, []int{80, 443, 53, 5083}[i%4], -1, 0x10, o, r.Bytes(r.Intn(5))))
		}
	}

	// 0. reproducers of the defects found by reading (DESIGN §7) and regression seeds
	for _, s := range []string{
		"3039d431deadbeef0000000060020000000000001e030000",         // MP_CAPABLE bad length: error, then String()
		"3039d431deadbeef0000000060020000000000000101011e",         // kind 30 as the last header byte
		"3039d431deadbeef00000000600200000000000001011e02",         // length 2, no sub-type byte
		"3039d431deadbeef0000000060020000000000001e0c0000",         // MP_CAPABLE 12 with 4 bytes left
		"3039d431deadbeef0000000060020000000000001e032000",         // DSS length 3
		"3039d431deadbeef0000000060020000000000001e141000aabbccdd", // MP_JOIN 20: bad length
		"3039d431deadbeef0000000060020000000000001e0c6000aabbccdd", // MP_FAIL 12 reaching into the payload
		"3039d431deadbeef0000000060020000000000001e00a000",         // length 0
	} {
		b := unhex(s)
		e.begin()
		e.op("dec 0 - %s", lib.Hex(b))
		e.op("str")
		e.op("dec 16 %s %s", lib.Hex(r.Bytes(16)), lib.Hex(b))
		e.op("dec 32 %s %s", lib.Hex(r.Bytes(32)), lib.Hex(b))
		e.op("str")
		e.op("pb 0 20 %s %s", lib.Hex(r.Bytes(20)), lib.Hex(b))
		e.op("str")
	}

	// 1. fixtures: every observer, serialise again, round trip
	for i, f := range fx {
		e.decAll(r, f)
		e.begin()
		e.op("dec 0 - %s", lib.Hex(f))
		e.op("pseudo %s", pseudos[i%3])
		e.op("vcs")
		e.op("ser 1 1 %s @", hists[i%len(hists)])
		e.op("vcs")
		e.op("ser 0 0 %s @", hists[(i+1)%len(hists)])
		e.op("dec 0 - %s", lib.Hex(f))
		e.op("pseudo %s", pseudos[i%3])
		e.op("rt 1 1 @")
		e.op("str")
		e.op("rt 1 1 @")
	}

	// 2. every truncation 0…len of each fixture (with and without spare capacity)
	for _, f := range fx {
		hl := int(f[12]>>4) * 4
		lim := hl + 3
		if lim > len(f) {
			lim = len(f)
		}
		for k := 0; k <= lim; k++ {
			e.begin()
			e.op("dec 0 - %s", lib.Hex(f[:k]))
			e.op("str")
			e.op("dec %d %s %s", len(f)-k+4, lib.Hex(append(append([]byte{}, f[k:]...), 1, 2, 3, 4)), lib.Hex(f[:k]))
			e.op("str")
			if thorough {
				e.op("pb 1 0 - %s", lib.Hex(f[:k]))
			}
		}
	}

	// 3. single-field mutations to boundary values
	for _, f := range fx {
		hl := int(f[12]>>4) * 4
		if hl > len(f) {
			hl = len(f)
		}
		for off := 0; off < 16; off++ {
			m := append([]byte{}, f...)
			m[12] = byte(off<<4) | m[12]&0x0f
			e.begin()
			e.op("dec 0 - %s", lib.Hex(m))
			e.op("dec 5 0102030405 %s", lib.Hex(m))
			e.op("str")
		}
		for i := 20; i < hl; i++ {
			for _, v := range []int{0, 1, 2, 3, 4, 30, int(f[i]) + 1, int(f[i]) - 1, hl - i, hl - i + 1, 0x7f, 0x80, 0xff} {
				m := append([]byte{}, f...)
				m[i] = byte(v)
				if !thorough && r.Chance(50) && len(fx) > 40 {
					continue
				}
				e.begin()
				e.op("dec 0 - %s", lib.Hex(m))
				e.op("str")
				e.op("dec 7 a5a5a5a5a5a5a5 %s", lib.Hex(m))
			}
		}
		for i := 0; i < 20; i++ {
			for _, v := range []byte{0x00, 0xff} {
				m := append([]byte{}, f...)
				m[i] = v
				e.begin()
				e.op("dec 0 - %s", lib.Hex(m))
				e.op("nlt")
				e.op("flow")
			}
		}
	}

	// 4. exhaustive small scope: every 4-byte option area over an alphabet of interesting bytes
	alpha := []byte{0, 1, 2, 3, 4, 30, 0x10, 0x20, 0x50, 0xff}
	if thorough {
		alpha = append(alpha, 5, 8, 0x30, 0x40, 0x80)
	}
	var area [4]byte
	for _, a := range alpha {
		for _, b := range alpha {
			for _, c := range alpha {
				for _, d := range alpha {
					area = [4]byte{a, b, c, d}
					s := seg(1000, 2000, 6, 0x02, area[:], []byte{0xee})
					e.begin()
					e.op("dec 0 - %s", lib.Hex(s))
					if a == 30 || b == 30 || c == 30 || d == 30 {
						e.op("str")
						e.op("dec 9 0c00112233445566ff %s", lib.Hex(s))
					}
				}
			}
		}
	}

	// 5. MPTCP: every sub-type × every length 0…32 × area sizes (exact, short, long)
	for sub := 0; sub < 16; sub++ {
		for n := 0; n <= 32; n++ {
			for _, fl := range []int{0, 0x1f, 0x05, 0x01, r.Intn(256)} {
				body := append([]byte{30, byte(n), byte(sub<<4) | byte(fl&0x0f), byte(fl)}, r.Bytes(36)...)
				for _, sz := range []int{n, n - 1, n + 4, 4, 40} {
					if sz < 1 || sz > 40 || (!thorough && fl != 0 && sz != n && r.Chance(60)) {
						continue
					}
					o := pad4(append([]byte{}, body[:sz]...), 1)
					if len(o) > 40 {
						continue
					}
					s := seg(5000, 80, -1, 0x18, o, []byte{0xaa, 0xbb})
					e.begin()
					e.op("dec 0 - %s", lib.Hex(s))
					e.op("str")
					e.op("dec 24 %s %s", lib.Hex(r.Bytes(24)), lib.Hex(s))
					e.op("str")
				}
			}
		}
	}

	// 6. structured random option lists, mostly valid, with malformed lengths spliced in
	for c := 0; c < 1500*mul; c++ {
		var o []byte
		for len(o) < 36 && r.Chance(80) {
			var x []byte
			if r.Chance(30) {
				x = append([]byte{}, good[r.Intn(len(good))]...)
			} else {
				x = plainOpt(r)
			}
			if r.Chance(15) && len(x) > 1 {
				x[1] = byte(r.Pick([]int{0, 1, 2, 3, len(x) - 1, len(x) + 1, 40, 255}))
			}
			if r.Chance(5) && len(x) > 2 {
				x = x[:1+r.Intn(len(x)-1)]
			}
			if len(o)+len(x) > 40 {
				break
			}
			o = append(o, x...)
		}
		if r.Chance(30) {
			o = append(o, 0)
			for len(o)%4 != 0 {
				o = append(o, byte(r.Intn(3)))
			}
		}
		o = pad4(o, 1)
		if len(o) > 40 {
			o = o[:40]
		}
		off := -1
		if r.Chance(8) {
			off = r.Intn(16)
		}
		s := seg(int(port(r)), int(port(r)), off, r.Intn(512), o, r.Bytes(r.Intn(6)))
		if r.Chance(10) {
			s = s[:r.Intn(len(s)+1)]
		}
		e.begin()
		e.op("dec 0 - %s", lib.Hex(s))
		e.op("str")
		if r.Chance(50) {
			k := 1 + r.Intn(30)
			e.op("dec %d %s %s", k, lib.Hex(r.Bytes(k)), lib.Hex(s))
		}
		if r.Chance(30) {
			e.op("pb %d 0 - %s", r.Intn(2), lib.Hex(s))
			e.op("flow")
		}
		if r.Chance(30) {
			e.op("pseudo %s", pseudos[r.Intn(3)])
			e.op("rt 1 1 @")
			e.op("str")
		}
	}

	// 7. stale state: ordered pairs / triples decoded into the same object
	pool := append([][]byte{}, fx...)
	pool = append(pool,
		seg(1, 2, 5, 0x10, nil, []byte{1, 2, 3}),
		seg(1, 2, 7, 0x10, []byte{2, 4, 1, 2, 0, 9, 9, 9}, nil), // EOL + non-zero padding
		seg(1, 2, 4, 0x10, nil, nil),                            // data offset < 5
		seg(1, 2, 9, 0x10, []byte{1, 1, 1, 1}, nil),             // data offset beyond the data
		seg(1, 2, 6, 0x10, []byte{30, 3, 0, 0}, nil),            // MPTCP error
		seg(1, 2, 6, 0x10, []byte{2, 9, 0, 0}, nil),             // option length beyond the header
		[]byte{1, 2, 3},                                          // too short
	)
	npairs := 600 * mul
	for c := 0; c < npairs; c++ {
		e.begin()
		a, b := pool[r.Intn(len(pool))], pool[r.Intn(len(pool))]
		e.op("dec 0 - %s", lib.Hex(a))
		if r.Chance(30) {
			e.op("pseudo %s", pseudos[r.Intn(3)])
		}
		e.op("redec %s", lib.Hex(b))
		e.op("str")
		if r.Chance(50) {
			e.op("redec %s", lib.Hex(pool[r.Intn(len(pool))]))
			e.op("vcs")
		}
		e.op("redec %s", lib.Hex(a))
		e.op("flow")
	}

	// 8. serialisation of arbitrary field values: all four option combinations, buffer histories
	for c := 0; c < 700*mul; c++ {
		e.begin()
		os, pad := optList(r, r.Chance(50))
		switch r.Intn(12) {
		case 0: // oversized option data (uint8 wrap of the length byte)
			os = append(os, layers.TCPOption{OptionType: 254, OptionLength: 7, OptionData: r.Bytes(250 + r.Intn(20))})
		case 1: // one-byte kinds carrying data, stale OptionLength values
			os = append(os, layers.TCPOption{OptionType: 1, OptionLength: 9, OptionData: r.Bytes(3)}, layers.TCPOption{OptionType: 0, OptionLength: 0, OptionData: r.Bytes(1)})
		case 2: // many options
			for i := 0; i < 45; i++ {
				os = append(os, layers.TCPOption{OptionType: layers.TCPOptionKind(r.Intn(256)), OptionLength: uint8(r.Intn(256)), OptionData: r.Bytes(r.Intn(4))})
			}
		case 3: // raw MPTCP option data
			g := good[r.Intn(len(good))]
			os = append(os, layers.TCPOption{OptionType: 30, OptionLength: uint8(len(g)), OptionData: g[2:]})
		case 4: // arbitrary padding
			pad = r.Bytes(r.Intn(9))
		case 5:
			for i := range os {
				os[i].OptionLength = uint8(r.Intn(256))
			}
		}
		e.setLayer(r, os, pad, boundary(r, 255))
		if r.Chance(85) {
			e.op("pseudo %s", pseudos[r.Intn(len(pseudos))])
		}
		pl := payloadOf(r, tier)
		combos := []string{"0 0", "0 1", "1 0", "1 1"}
		first := r.Intn(4)
		for k := 0; k < 2+r.Intn(3); k++ {
			e.op("ser %s %s %s", combos[(first+k)%4], hists[r.Intn(len(hists))], lib.Hex(pl))
		}
		if r.Chance(40) {
			e.op("vcs")
			e.op("flow")
		}
	}

	// 9. round trips of in-range layers (aligned, well-formed option lists) and of unaligned ones
	for c := 0; c < 700*mul; c++ {
		e.begin()
		aligned := r.Chance(75)
		os, pad := optList(r, aligned)
		e.setLayer(r, os, pad, boundary(r, 15))
		e.op("pseudo %s", pseudos[r.Intn(3)])
		pl := payloadOf(r, tier)
		e.op("rt 1 1 %s", lib.Hex(pl))
		e.op("str")
		e.op("vcs")
		e.op("rt 1 1 @")
		e.op("ser 1 1 %s @", hists[r.Intn(len(hists))])
	}

	// 10. malformed stream: short random byte strings
	for c := 0; c < 1500*mul; c++ {
		n := r.Pick([]int{0, 1, 19, 20, 21, 24, 28, 40, 60, 61})
		b := r.Bytes(n)
		if n > 13 && r.Chance(70) {
			b[12] = byte(5+r.Intn(11))<<4 | b[12]&1
		}
		if n > 21 && r.Chance(60) {
			b[20] = 30
			b[21] = byte(r.Intn(26))
		}
		e.begin()
		e.op("dec 0 - %s", lib.Hex(b))
		e.op("str")
		k := r.Intn(40)
		e.op("dec %d %s %s", k, lib.Hex(r.Bytes(k)), lib.Hex(b))
		e.op("str")
	}
}
