// gp-flow: correspondence adapter for engine `flow` (C17): drives the real gopacket
// Endpoint/Flow value API (flows.go) and — in a second, model-less mode — the
// LinkFlow/NetworkFlow/TransportFlow accessors of every layer type that exposes one.
//
// Value ops (answered identically by the Lean model driver lean/Driver/Flow.lean):
//
//	flow ep <typ> <hex>                          -> ok <typ> <hex>            | panic explicit
//	flow flow <typ> <src> <dst>                  -> ok <typ> <src> <dst>      | panic explicit
//	flow fromeps <t1> <a> <t2> <b>               -> ok <typ> <src> <dst>      | err | panic explicit
//	flow split <typ> <src> <dst>                 -> ok <typ> <src> <typ> <dst>
//	flow reverse <typ> <src> <dst>               -> ok <typ> <dst> <src>
//	flow chain <typ> <src> <dst> <word over r,j> -> ok <typ> <src> <dst>
//	flow lt <t1> <a> <t2> <b>                    -> ok true|false
//	flow order <t1> <a> <t2> <b> <t3> <c>        -> ok <6 bits: ab ba bc cb ac ca>
//	flow eq ep <t1> <a> <t2> <b>                 -> ok <==> <found as map key>
//	flow eq flow <t1> <s1> <d1> <t2> <s2> <d2>   -> ok <==> <found as map key>
//	flow hash ep <typ> <a>                       -> ok <uint64>
//	flow hash flow <typ> <src> <dst>             -> ok <uint64>
//
// Monitor-only op (the model driver answers the constant `ok` as well):
//
//	flow layerflow <LayerTypeName> <hex>         -> ok
//
// Monitors (independent checks of the property on the real code) report under
// signatures flow:<law> and flow:layer:<Type>.
package main

import (
	"bytes"
	"encoding/binary"
	"fmt"
	"net"
	"strconv"
	"strings"
	"time"

	"github.com/gopacket/gopacket"
	"github.com/gopacket/gopacket/layers"
	"verif/harness/lib"
)

const P = "C17"

// ---------------------------------------------------------------- parsing helpers

func typOf(s string) (gopacket.EndpointType, bool) {
	n, err := strconv.ParseInt(s, 10, 64)
	return gopacket.EndpointType(n), err == nil
}

func showEp(e gopacket.Endpoint) string {
	return fmt.Sprintf("%d %s", int64(e.EndpointType()), lib.Hex(e.Raw()))
}

func showFlow(f gopacket.Flow) string {
	s, d := f.Endpoints()
	return fmt.Sprintf("%d %s %s", int64(f.EndpointType()), lib.Hex(s.Raw()), lib.Hex(d.Raw()))
}

// independent oracle for bytes.Compare(a,b) < 0
func lexLess(a, b []byte) bool {
	for i := 0; i < len(a) && i < len(b); i++ {
		if a[i] != b[i] {
			return a[i] < b[i]
		}
	}
	return len(a) < len(b)
}

// ---------------------------------------------------------------- monitors on values

// newEp builds an endpoint with the real constructor and checks acceptance/faithfulness.
// A panic for an over-long address propagates to the runner ("panic explicit").
func newEp(t gopacket.EndpointType, raw []byte) gopacket.Endpoint {
	var e gopacket.Endpoint
	_, panicked := lib.Protect(func() string { e = gopacket.NewEndpoint(t, raw); return "" })
	if panicked != (len(raw) > gopacket.MaxEndpointSize) {
		lib.Finding(P, "flow:reject", fmt.Sprintf("NewEndpoint with %d bytes: panicked=%v", len(raw), panicked))
	}
	if panicked {
		lib.Stat("ep:rejected")
		panic(lib.LastPanicMsg)
	}
	lib.Stat(fmt.Sprintf("ep:len=%02d", len(raw)))
	if e.EndpointType() != t || !bytes.Equal(e.Raw(), raw) {
		lib.Finding(P, "flow:faithful", fmt.Sprintf("NewEndpoint(%d,%s) holds (%d,%s)", int64(t), lib.Hex(raw), int64(e.EndpointType()), lib.Hex(e.Raw())))
	}
	if len(raw) > 0 {
		lib.Nontrivial()
	}
	return e
}

func newFl(t gopacket.EndpointType, s, d []byte) gopacket.Flow {
	var f gopacket.Flow
	_, panicked := lib.Protect(func() string { f = gopacket.NewFlow(t, s, d); return "" })
	want := len(s) > gopacket.MaxEndpointSize || len(d) > gopacket.MaxEndpointSize
	if panicked != want {
		lib.Finding(P, "flow:reject", fmt.Sprintf("NewFlow with %d/%d bytes: panicked=%v", len(s), len(d), panicked))
	}
	if panicked {
		lib.Stat("flow:rejected")
		panic(lib.LastPanicMsg)
	}
	lib.Stat("flow:accepted")
	a, b := f.Endpoints()
	if f.EndpointType() != t || a.EndpointType() != t || b.EndpointType() != t || !bytes.Equal(a.Raw(), s) || !bytes.Equal(b.Raw(), d) {
		lib.Finding(P, "flow:faithful", fmt.Sprintf("NewFlow(%d,%s,%s) holds %s", int64(t), lib.Hex(s), lib.Hex(d), showFlow(f)))
	}
	checkFlowLaws(f)
	if len(s) > 0 || len(d) > 0 {
		lib.Nontrivial()
	}
	return f
}

// checkFlowLaws: split/join, Src/Dst, reverse², hash symmetry on one real flow value.
func checkFlowLaws(f gopacket.Flow) {
	a, b := f.Endpoints()
	if f.Src() != a || f.Dst() != b {
		lib.Finding(P, "flow:src-dst", "Src()/Dst() differ from Endpoints() for "+showFlow(f))
	}
	g, err := gopacket.FlowFromEndpoints(a, b)
	if err != nil || g != f {
		lib.Finding(P, "flow:split-join", "FlowFromEndpoints(f.Endpoints()) != f for "+showFlow(f))
	}
	r := f.Reverse()
	if r.Reverse() != f {
		lib.Finding(P, "flow:reverse2", "Reverse().Reverse() != f for "+showFlow(f))
	}
	if r.Src() != b || r.Dst() != a || r.EndpointType() != f.EndpointType() {
		lib.Finding(P, "flow:reverse-endpoints", "Reverse() does not swap the endpoints of "+showFlow(f))
	}
	if r.FastHash() != f.FastHash() {
		lib.Finding(P, "flow:hash-symm", "FastHash differs from that of the reverse flow for "+showFlow(f))
	}
	if (r == f) != (a == b) {
		lib.Finding(P, "flow:reverse-self", "f.Reverse()==f does not coincide with Src()==Dst() for "+showFlow(f))
	}
	// map-key use of the flow and of its rebuilt twin
	m := map[gopacket.Flow]int{f: 1}
	if _, ok := m[g]; !ok && err == nil {
		lib.Finding(P, "flow:map-key", "rebuilt flow is a different map key: "+showFlow(f))
	}
}

func checkEpEq(a, b gopacket.Endpoint) (eq, found bool) {
	eq = a == b
	m := map[gopacket.Endpoint]int{a: 1}
	_, found = m[b]
	want := a.EndpointType() == b.EndpointType() && bytes.Equal(a.Raw(), b.Raw())
	if eq != want {
		lib.Finding(P, "flow:eq-law", fmt.Sprintf("(%s)==(%s) is %v, type/bytes equality is %v", showEp(a), showEp(b), eq, want))
	}
	if found != want {
		lib.Finding(P, "flow:map-key", fmt.Sprintf("map lookup of (%s) under key (%s) found=%v, type/bytes equality is %v", showEp(b), showEp(a), found, want))
	}
	if want && a.FastHash() != b.FastHash() {
		lib.Finding(P, "flow:hash-congr", "equal endpoints hash differently: "+showEp(a))
	}
	if want {
		lib.Stat("eq:equal")
	} else {
		lib.Stat("eq:different")
	}
	return
}

func checkFlowEq(f, g gopacket.Flow) (eq, found bool) {
	eq = f == g
	m := map[gopacket.Flow]int{f: 1}
	_, found = m[g]
	fs, fd := f.Endpoints()
	gs, gd := g.Endpoints()
	want := f.EndpointType() == g.EndpointType() && bytes.Equal(fs.Raw(), gs.Raw()) && bytes.Equal(fd.Raw(), gd.Raw())
	if eq != want {
		lib.Finding(P, "flow:eq-law", fmt.Sprintf("(%s)==(%s) is %v, type/bytes equality is %v", showFlow(f), showFlow(g), eq, want))
	}
	if found != want {
		lib.Finding(P, "flow:map-key", fmt.Sprintf("map lookup of flow (%s) under key (%s) found=%v, want %v", showFlow(g), showFlow(f), found, want))
	}
	if want && f.FastHash() != g.FastHash() {
		lib.Finding(P, "flow:hash-congr", "equal flows hash differently: "+showFlow(f))
	}
	return
}

// lt with the specification oracle "type first, then bytes lexicographically".
func lt(a, b gopacket.Endpoint) bool {
	r := a.LessThan(b)
	want := a.EndpointType() < b.EndpointType() || (a.EndpointType() == b.EndpointType() && lexLess(a.Raw(), b.Raw()))
	if r != want {
		lib.Finding(P, "flow:lt-spec", fmt.Sprintf("(%s).LessThan(%s)=%v, type-then-bytes order says %v", showEp(a), showEp(b), r, want))
	}
	return r
}

func checkOrder(a, b, c gopacket.Endpoint) [6]bool {
	ab, ba, bc, cb, ac, ca := lt(a, b), lt(b, a), lt(b, c), lt(c, b), lt(a, c), lt(c, a)
	for _, x := range []gopacket.Endpoint{a, b, c} {
		if x.LessThan(x) {
			lib.Finding(P, "flow:lt-irrefl", "x.LessThan(x) for "+showEp(x))
		}
	}
	tri := func(x, y gopacket.Endpoint, xy, yx bool) {
		n := 0
		for _, v := range []bool{xy, x == y, yx} {
			if v {
				n++
			}
		}
		if n != 1 {
			lib.Finding(P, "flow:lt-trichotomy", fmt.Sprintf("not exactly one of <,==,> for (%s) (%s): %v %v %v", showEp(x), showEp(y), xy, x == y, yx))
		}
	}
	tri(a, b, ab, ba)
	tri(b, c, bc, cb)
	tri(a, c, ac, ca)
	// transitivity over all orderings of the triple
	es := []gopacket.Endpoint{a, b, c}
	for i := 0; i < 3; i++ {
		for j := 0; j < 3; j++ {
			for k := 0; k < 3; k++ {
				if es[i].LessThan(es[j]) && es[j].LessThan(es[k]) {
					lib.Stat("order:chain")
					if !es[i].LessThan(es[k]) {
						lib.Finding(P, "flow:lt-trans", fmt.Sprintf("(%s)<(%s)<(%s) but not first<last", showEp(es[i]), showEp(es[j]), showEp(es[k])))
					}
				}
			}
		}
	}
	return [6]bool{ab, ba, bc, cb, ac, ca}
}

// ---------------------------------------------------------------- exec

func reset() {}

func parseEp(t, h string) (gopacket.EndpointType, []byte, bool) {
	ty, ok1 := typOf(t)
	b, ok2 := lib.UnHex(h)
	return ty, b, ok1 && ok2
}

func exec(a []string) string {
	if len(a) < 2 || a[0] != "flow" {
		return "bad-op"
	}
	switch a[1] {
	case "layerflow":
		if len(a) == 4 {
			layerflow(a[2], a[3])
		}
		return "ok"
	case "ep":
		if len(a) != 4 {
			return "bad-op"
		}
		t, b, ok := parseEp(a[2], a[3])
		if !ok {
			return "bad-op"
		}
		return "ok " + showEp(newEp(t, b))
	case "flow", "split", "reverse", "chain":
		want := 5
		if a[1] == "chain" {
			want = 6
		}
		if len(a) != want {
			return "bad-op"
		}
		t, s, ok := parseEp(a[2], a[3])
		d, ok2 := lib.UnHex(a[4])
		if !ok || !ok2 {
			return "bad-op"
		}
		if a[1] == "chain" && strings.Trim(a[5], "rj") != "" {
			return "bad-op"
		}
		f := newFl(t, s, d)
		switch a[1] {
		case "flow":
			return "ok " + showFlow(f)
		case "split":
			x, y := f.Endpoints()
			return "ok " + showEp(x) + " " + showEp(y)
		case "reverse":
			return "ok " + showFlow(f.Reverse())
		default:
			for _, c := range a[5] {
				if c == 'r' {
					f = f.Reverse()
				} else {
					x, y := f.Endpoints()
					g, err := gopacket.FlowFromEndpoints(x, y)
					if err != nil {
						return "err"
					}
					f = g
				}
				checkFlowLaws(f)
			}
			lib.Stat("chain")
			return "ok " + showFlow(f)
		}
	case "fromeps", "lt":
		if len(a) != 6 {
			return "bad-op"
		}
		t1, b1, ok1 := parseEp(a[2], a[3])
		t2, b2, ok2 := parseEp(a[4], a[5])
		if !ok1 || !ok2 {
			return "bad-op"
		}
		x := newEp(t1, b1)
		y := newEp(t2, b2)
		if a[1] == "lt" {
			checkOrder(x, y, x)
			return "ok " + strconv.FormatBool(lt(x, y))
		}
		f, err := gopacket.FlowFromEndpoints(x, y)
		if (err != nil) != (t1 != t2) {
			lib.Finding(P, "flow:fromeps-err", fmt.Sprintf("FlowFromEndpoints types %d,%d: err=%v", int64(t1), int64(t2), err))
		}
		if err != nil {
			lib.Stat("fromeps:mismatch")
			return "err"
		}
		lib.Stat("fromeps:ok")
		if f.Src() != x || f.Dst() != y {
			lib.Finding(P, "flow:join-split", "endpoints of FlowFromEndpoints(a,b) are not (a,b)")
		}
		if g := gopacket.NewFlow(t1, b1, b2); g != f {
			lib.Finding(P, "flow:join-newflow", "FlowFromEndpoints(NewEndpoint..) != NewFlow(..) for "+showFlow(f))
		}
		checkFlowLaws(f)
		return "ok " + showFlow(f)
	case "order":
		if len(a) != 8 {
			return "bad-op"
		}
		t1, b1, ok1 := parseEp(a[2], a[3])
		t2, b2, ok2 := parseEp(a[4], a[5])
		t3, b3, ok3 := parseEp(a[6], a[7])
		if !ok1 || !ok2 || !ok3 {
			return "bad-op"
		}
		x, y := newEp(t1, b1), newEp(t2, b2)
		z := newEp(t3, b3)
		r := checkOrder(x, y, z)
		lib.Stat("order")
		var sb strings.Builder
		sb.WriteString("ok ")
		for _, v := range r {
			if v {
				sb.WriteByte('1')
			} else {
				sb.WriteByte('0')
			}
		}
		return sb.String()
	case "eq":
		if len(a) < 3 {
			return "bad-op"
		}
		switch a[2] {
		case "ep":
			if len(a) != 7 {
				return "bad-op"
			}
			t1, b1, ok1 := parseEp(a[3], a[4])
			t2, b2, ok2 := parseEp(a[5], a[6])
			if !ok1 || !ok2 {
				return "bad-op"
			}
			x := newEp(t1, b1)
			y := newEp(t2, b2)
			eq, found := checkEpEq(x, y)
			return fmt.Sprintf("ok %v %v", eq, found)
		case "flow":
			if len(a) != 9 {
				return "bad-op"
			}
			t1, s1, ok1 := parseEp(a[3], a[4])
			d1, ok2 := lib.UnHex(a[5])
			t2, s2, ok3 := parseEp(a[6], a[7])
			d2, ok4 := lib.UnHex(a[8])
			if !ok1 || !ok2 || !ok3 || !ok4 {
				return "bad-op"
			}
			f := newFl(t1, s1, d1)
			g := newFl(t2, s2, d2)
			eq, found := checkFlowEq(f, g)
			return fmt.Sprintf("ok %v %v", eq, found)
		}
		return "bad-op"
	case "hash":
		if len(a) < 3 {
			return "bad-op"
		}
		switch a[2] {
		case "ep":
			if len(a) != 5 {
				return "bad-op"
			}
			t, b, ok := parseEp(a[3], a[4])
			if !ok {
				return "bad-op"
			}
			e := newEp(t, b)
			lib.Stat("hash:ep")
			return "ok " + strconv.FormatUint(e.FastHash(), 10)
		case "flow":
			if len(a) != 6 {
				return "bad-op"
			}
			t, s, ok := parseEp(a[3], a[4])
			d, ok2 := lib.UnHex(a[5])
			if !ok || !ok2 {
				return "bad-op"
			}
			f := newFl(t, s, d)
			lib.Stat("hash:flow")
			return "ok " + strconv.FormatUint(f.FastHash(), 10)
		}
		return "bad-op"
	}
	return "bad-op"
}

// ---------------------------------------------------------------- layer flows (model-less exploration)

var ltByName map[string]gopacket.LayerType

func normName(s string) string { return strings.ReplaceAll(s, " ", "") }

func layerTypes() map[string]gopacket.LayerType {
	if ltByName == nil {
		ltByName = map[string]gopacket.LayerType{}
		for i := 0; i < 2000; i++ {
			lt := gopacket.LayerType(i)
			if n := lt.String(); n != strconv.Itoa(i) {
				ltByName[normName(n)] = lt
			}
		}
	}
	return ltByName
}

// flowOf returns the flow a layer exposes (by interface assertion) and which accessor it was.
func flowOf(l gopacket.Layer) (f gopacket.Flow, kind string, ok bool) {
	switch x := l.(type) {
	case gopacket.LinkLayer:
		return x.LinkFlow(), "link", true
	case gopacket.NetworkLayer:
		return x.NetworkFlow(), "network", true
	case gopacket.TransportLayer:
		return x.TransportFlow(), "transport", true
	}
	return gopacket.Flow{}, "", false
}

// firstLayer decodes data as layer type lt with the real code (recovery on, lazily: only the
// first decoder runs) and returns the layer of that type, or nil if the decoder rejected the input.
func firstLayer(lt gopacket.LayerType, data []byte) (l gopacket.Layer) {
	type res struct {
		l    gopacket.Layer
		note string
	}
	done := make(chan res, 1)
	go func() {
		defer func() {
			if recover() != nil {
				done <- res{nil, "panic-escaped-recovery"}
			}
		}()
		p := gopacket.NewPacket(data, lt, gopacket.DecodeOptions{Lazy: true})
		x := p.Layer(lt)
		if x == nil {
			done <- res{}
			return
		}
		// the layer must be the outermost one and its own decoding must have succeeded
		// (decodeTCP/decodeSCTP add the layer to the packet even when DecodeFromBytes failed)
		if ls := p.Layers(); len(ls) == 0 || ls[0] != x {
			done <- res{}
			return
		}
		if fresh := freshLike(x); fresh != nil {
			cp := make([]byte, len(data))
			copy(cp, data)
			if err := fresh.DecodeFromBytes(cp, gopacket.NilDecodeFeedback); err != nil {
				done <- res{nil, "decode-error-but-layer-added"}
				return
			}
		}
		done <- res{x, ""}
	}()
	select {
	case r := <-done:
		if r.note != "" {
			lib.Stat("layer:" + normName(lt.String()) + ":" + r.note)
		}
		return r.l
	case <-time.After(10 * time.Second):
		lib.Stat("layer:timeout")
		return nil
	}
}

func freshLike(l gopacket.Layer) gopacket.DecodingLayer {
	switch l.(type) {
	case *layers.Ethernet:
		return &layers.Ethernet{}
	case *layers.IPv4:
		return &layers.IPv4{}
	case *layers.IPv6:
		return &layers.IPv6{}
	case *layers.TCP:
		return &layers.TCP{}
	case *layers.UDP:
		return &layers.UDP{}
	case *layers.SCTP:
		return &layers.SCTP{}
	case *layers.LinuxSLL:
		return &layers.LinuxSLL{}
	case *layers.LinuxSLL2:
		return &layers.LinuxSLL2{}
	}
	return nil
}

func be16(v uint16) []byte { return []byte{byte(v >> 8), byte(v)} }

func trunc16(b []byte) []byte {
	if len(b) > gopacket.MaxEndpointSize {
		return b[:gopacket.MaxEndpointSize]
	}
	return b
}

// expectation: what the flow of a decoded layer must carry, from the layer's own exported
// fields (fsrc/fdst) and from the raw input at the protocol's fixed offsets (rsrc/rdst), and
// the byte ranges to exchange to obtain the packet of the opposite direction.
type expectation struct {
	typ        gopacket.EndpointType
	fsrc, fdst []byte
	rsrc, rdst []byte
	swap       [3]int // offset of first field, offset of second field, width (0 = no opposite direction)
}

func sub(data []byte, a, b int) []byte {
	if a <= b && b <= len(data) {
		return data[a:b]
	}
	return nil
}

func expect(l gopacket.Layer, data []byte) (e expectation, known bool) {
	switch x := l.(type) {
	case *layers.Ethernet:
		return expectation{layers.EndpointMAC, x.SrcMAC, x.DstMAC, sub(data, 6, 12), sub(data, 0, 6), [3]int{0, 6, 6}}, true
	case *layers.FDDI:
		return expectation{layers.EndpointMAC, x.SrcMAC, x.DstMAC, sub(data, 1, 7), sub(data, 7, 13), [3]int{1, 7, 6}}, true
	case *layers.IPv4:
		return expectation{layers.EndpointIPv4, x.SrcIP, x.DstIP, sub(data, 12, 16), sub(data, 16, 20), [3]int{12, 16, 4}}, true
	case *layers.IPv6:
		return expectation{layers.EndpointIPv6, x.SrcIP, x.DstIP, sub(data, 8, 24), sub(data, 24, 40), [3]int{8, 24, 16}}, true
	case *layers.TCP:
		return expectation{layers.EndpointTCPPort, be16(uint16(x.SrcPort)), be16(uint16(x.DstPort)), sub(data, 0, 2), sub(data, 2, 4), [3]int{0, 2, 2}}, true
	case *layers.UDP:
		return expectation{layers.EndpointUDPPort, be16(uint16(x.SrcPort)), be16(uint16(x.DstPort)), sub(data, 0, 2), sub(data, 2, 4), [3]int{0, 2, 2}}, true
	case *layers.UDPLite:
		return expectation{layers.EndpointUDPLitePort, be16(uint16(x.SrcPort)), be16(uint16(x.DstPort)), sub(data, 0, 2), sub(data, 2, 4), [3]int{0, 2, 2}}, true
	case *layers.SCTP:
		return expectation{layers.EndpointSCTPPort, be16(uint16(x.SrcPort)), be16(uint16(x.DstPort)), sub(data, 0, 2), sub(data, 2, 4), [3]int{0, 2, 2}}, true
	case *layers.RUDP:
		return expectation{layers.EndpointRUDPPort, []byte{byte(x.SrcPort)}, []byte{byte(x.DstPort)}, sub(data, 2, 3), sub(data, 3, 4), [3]int{2, 3, 1}}, true
	case *layers.LinuxSLL:
		// one address only (the sender's); longer than MaxEndpointSize is truncated by design
		var r []byte
		if len(data) >= 6 {
			r = sub(data, 6, 6+int(binary.BigEndian.Uint16(data[4:6])))
		}
		if len(x.Addr) > gopacket.MaxEndpointSize {
			lib.Stat("layer:LinuxSLL:truncated-addr")
		}
		return expectation{layers.EndpointMAC, trunc16(x.Addr), nil, trunc16(r), nil, [3]int{}}, true
	case *layers.LinuxSLL2:
		var r []byte
		if len(data) >= 12 {
			r = sub(data, 12, 12+int(data[11]))
		}
		if len(x.Addr) > gopacket.MaxEndpointSize {
			lib.Stat("layer:LinuxSLL2:truncated-addr")
		}
		return expectation{layers.EndpointMAC, trunc16(x.Addr), nil, trunc16(r), nil, [3]int{}}, true
	case *layers.PPP:
		return expectation{layers.EndpointPPP, nil, nil, nil, nil, [3]int{}}, true
	}
	return expectation{}, false
}

func layerflow(name, hx string) {
	lt, ok := layerTypes()[name]
	data, ok2 := lib.UnHex(hx)
	if !ok || !ok2 || len(data) > 1<<16 {
		lib.Stat("layer:bad-op")
		return
	}
	l := firstLayer(lt, data)
	if l == nil {
		lib.Stat("layer:" + name + ":rejected")
		return
	}
	sig := "flow:layer:" + name
	var f gopacket.Flow
	var kind string
	var has bool
	if _, panicked := lib.Protect(func() string { f, kind, has = flowOf(l); return "" }); panicked {
		lib.Finding(P, sig, "flow accessor of a successfully decoded "+name+" layer panics: "+lib.LastPanicMsg+" input "+hx)
		return
	}
	if !has {
		lib.Stat("layer:" + name + ":no-flow-accessor")
		return
	}
	lib.Stat("layer:" + name + ":decoded:" + kind)
	lib.Nontrivial()
	// generic: the flow is a canonical value and obeys the value laws
	s, d := f.Endpoints()
	if g := gopacket.NewFlow(f.EndpointType(), s.Raw(), d.Raw()); g != f {
		lib.Finding(P, sig, "flow of decoded layer is not the canonical value of its (type, src, dst): "+showFlow(f))
	}
	checkFlowLaws(f)
	e, known := expect(l, data)
	if !known {
		lib.Stat("layer:" + name + ":no-field-table")
		return
	}
	if f.EndpointType() != e.typ || !bytes.Equal(s.Raw(), e.fsrc) || !bytes.Equal(d.Raw(), e.fdst) {
		lib.Finding(P, sig, fmt.Sprintf("flow %s does not carry the layer's fields type=%d src=%s dst=%s (input %s)", showFlow(f), int64(e.typ), lib.Hex(e.fsrc), lib.Hex(e.fdst), hx))
	}
	if !bytes.Equal(s.Raw(), e.rsrc) || !bytes.Equal(d.Raw(), e.rdst) {
		lib.Finding(P, sig, fmt.Sprintf("flow %s does not carry the input's address bytes src=%s dst=%s (input %s)", showFlow(f), lib.Hex(e.rsrc), lib.Hex(e.rdst), hx))
	}
	if e.swap[2] == 0 {
		return
	}
	// opposite direction: exchange the two address fields in the packet
	a, b, w := e.swap[0], e.swap[1], e.swap[2]
	if b+w > len(data) {
		return
	}
	rev := append([]byte(nil), data...)
	copy(rev[a:a+w], data[b:b+w])
	copy(rev[b:b+w], data[a:a+w])
	l2 := firstLayer(lt, rev)
	if l2 == nil {
		lib.Stat("layer:" + name + ":reverse-rejected") // not a statement of the property
		return
	}
	f2, _, _ := flowOf(l2)
	lib.Stat("layer:" + name + ":reversed")
	if f2 != f.Reverse() {
		lib.Finding(P, sig, fmt.Sprintf("opposite direction gives %s, not the reverse of %s", showFlow(f2), showFlow(f)))
	}
	if f2.FastHash() != f.FastHash() {
		lib.Finding(P, sig, fmt.Sprintf("the two directions hash differently: %s / %s", showFlow(f), showFlow(f2)))
	}
	if !bytes.Equal(s.Raw(), d.Raw()) {
		lib.Stat("layer:" + name + ":asymmetric")
		if f2 == f {
			lib.Finding(P, sig, "the two directions give the same flow: "+showFlow(f))
		}
	}
}

// ---------------------------------------------------------------- generator

var alphabet = []byte{0x00, 0x01, 0xff}

func smallStrings(maxLen int) [][]byte {
	out := [][]byte{{}}
	prev := [][]byte{{}}
	for l := 1; l <= maxLen; l++ {
		var cur [][]byte
		for _, p := range prev {
			for _, c := range alphabet {
				cur = append(cur, append(append([]byte(nil), p...), c))
			}
		}
		out = append(out, cur...)
		prev = cur
	}
	return out
}

type ep struct {
	t int64
	b []byte
}

func (e ep) String() string { return fmt.Sprintf("%d %s", e.t, lib.Hex(e.b)) }

var someTypes = []int64{0, 1, 2, 3, 4, 5, 6, 7, 8, 9, -1, 1000, 1 << 62, -1 << 63, 1<<63 - 1, 256, -256}

func randType(r *lib.Rand) int64 {
	if r.Chance(80) {
		return someTypes[r.Intn(len(someTypes))]
	}
	return int64(r.U64())
}

func randBytes(r *lib.Rand, n int) []byte {
	b := r.Bytes(n)
	switch r.Intn(4) {
	case 0: // low-entropy: mostly zeros / 0xff, exercises the zero tail and prefixes
		for i := range b {
			b[i] = []byte{0, 0, 0, 1, 0xff}[r.Intn(5)]
		}
	case 1:
		for i := range b {
			if r.Chance(50) {
				b[i] = 0
			}
		}
	}
	return b
}

func randLen(r *lib.Rand) int {
	switch r.Intn(10) {
	case 0:
		return 17 + r.Intn(24) // rejection path
	case 1:
		return []int{0, 1, 2, 4, 6, 8, 15, 16, 17}[r.Intn(9)]
	}
	return r.Intn(18)
}

// relative derives an endpoint close to e: equal, prefix, extension, one byte changed, other type.
func relative(r *lib.Rand, e ep) ep {
	b := append([]byte(nil), e.b...)
	t := e.t
	switch r.Intn(7) {
	case 0:
	case 1:
		if len(b) > 0 {
			b = b[:r.Intn(len(b))]
		}
	case 2:
		b = append(b, randBytes(r, 1+r.Intn(3))...)
	case 3:
		b = append(b, 0)
	case 4:
		if len(b) > 0 {
			b[r.Intn(len(b))] ^= byte(1 << uint(r.Intn(8)))
		}
	case 5:
		t = randType(r)
	case 6:
		if len(b) > 0 && b[len(b)-1] == 0 {
			b = b[:len(b)-1]
		} else if len(b) > 0 {
			b[len(b)-1] = 0
		}
	}
	return ep{t, b}
}

func gen(r *lib.Rand, tier string, emit func(string)) {
	thorough := tier == "thorough"
	// ---- 1. exhaustive small scope: strings of length ≤ 2 over {00,01,ff} × 3 types
	strs := smallStrings(2)
	types := []int64{-1, 1, 2}
	var eps []ep
	for _, t := range types {
		for _, s := range strs {
			eps = append(eps, ep{t, s})
		}
	}
	for _, a := range eps {
		emit("reset")
		emit("flow ep " + a.String())
		emit("flow hash ep " + a.String())
	}
	for _, a := range eps {
		for _, b := range eps {
			emit("reset")
			emit(fmt.Sprintf("flow lt %s %s", a, b))
			emit(fmt.Sprintf("flow eq ep %s %s", a, b))
			emit(fmt.Sprintf("flow fromeps %s %s", a, b))
			for _, c := range eps {
				emit(fmt.Sprintf("flow order %s %s %s", a, b, c))
			}
		}
	}
	type fl struct {
		t    int64
		s, d []byte
	}
	var fls []fl
	for _, t := range types {
		for _, s := range strs {
			for _, d := range strs {
				f := fl{t, s, d}
				fls = append(fls, f)
				emit("reset")
				arg := fmt.Sprintf("%d %s %s", t, lib.Hex(s), lib.Hex(d))
				emit("flow flow " + arg)
				emit("flow split " + arg)
				emit("flow reverse " + arg)
				emit("flow hash flow " + arg)
				emit(fmt.Sprintf("flow hash flow %d %s %s", t, lib.Hex(d), lib.Hex(s)))
				emit("flow chain " + arg + " " + []string{"r", "j", "rr", "rj", "jr", "rjrjr", "jjrr"}[(len(s)*3+len(d)+int(t)+8)%7])
			}
		}
	}
	// flow equality: all pairs of flows over strings of length ≤ 1 (thorough: every 7th pair of the ≤2 set too)
	s1 := smallStrings(1)
	var small []fl
	for _, t := range types {
		for _, s := range s1 {
			for _, d := range s1 {
				small = append(small, fl{t, s, d})
			}
		}
	}
	for _, f := range small {
		emit("reset")
		for _, g := range small {
			emit(fmt.Sprintf("flow eq flow %d %s %s %d %s %s", f.t, lib.Hex(f.s), lib.Hex(f.d), g.t, lib.Hex(g.s), lib.Hex(g.d)))
		}
	}
	if thorough {
		for i, f := range fls {
			emit("reset")
			for j := i % 7; j < len(fls); j += 7 {
				g := fls[j]
				emit(fmt.Sprintf("flow eq flow %d %s %s %d %s %s", f.t, lib.Hex(f.s), lib.Hex(f.d), g.t, lib.Hex(g.s), lib.Hex(g.d)))
			}
		}
	}
	// ---- 2. every length 0…17 (and a few beyond) for each constructor
	for n := 0; n <= 20; n++ {
		emit("reset")
		b := randBytes(r, n)
		c := randBytes(r, r.Intn(17))
		emit(fmt.Sprintf("flow ep %d %s", randType(r), lib.Hex(b)))
		emit(fmt.Sprintf("flow hash ep %d %s", randType(r), lib.Hex(b)))
		t := randType(r)
		emit(fmt.Sprintf("flow flow %d %s %s", t, lib.Hex(b), lib.Hex(c)))
		emit(fmt.Sprintf("flow flow %d %s %s", t, lib.Hex(c), lib.Hex(b)))
		emit(fmt.Sprintf("flow flow %d %s %s", t, lib.Hex(b), lib.Hex(b)))
		emit(fmt.Sprintf("flow fromeps %d %s %d %s", t, lib.Hex(b), t, lib.Hex(c)))
		emit(fmt.Sprintf("flow fromeps %d %s %d %s", t, lib.Hex(c), t, lib.Hex(b)))
		emit(fmt.Sprintf("flow hash flow %d %s %s", t, lib.Hex(b), lib.Hex(c)))
		emit(fmt.Sprintf("flow hash flow %d %s %s", t, lib.Hex(c), lib.Hex(b)))
		emit(fmt.Sprintf("flow chain %d %s %s rjr", t, lib.Hex(b), lib.Hex(c)))
		// zero tail: an address and the same address extended by zero bytes are different values
		z := append(append([]byte(nil), b...), 0)
		emit(fmt.Sprintf("flow eq ep %d %s %d %s", t, lib.Hex(b), t, lib.Hex(z)))
		emit(fmt.Sprintf("flow lt %d %s %d %s", t, lib.Hex(b), t, lib.Hex(z)))
		emit(fmt.Sprintf("flow lt %d %s %d %s", t, lib.Hex(z), t, lib.Hex(b)))
	}
	// ---- 3. random, length up to 17 and beyond, related pairs and triples
	n := 1500
	if thorough {
		n = 40000
	}
	for i := 0; i < n; i++ {
		emit("reset")
		a := ep{randType(r), randBytes(r, randLen(r))}
		b := relative(r, a)
		c := relative(r, b)
		if r.Chance(30) {
			c = ep{randType(r), randBytes(r, randLen(r))}
		}
		emit("flow ep " + a.String())
		emit("flow hash ep " + b.String())
		emit(fmt.Sprintf("flow lt %s %s", a, b))
		emit(fmt.Sprintf("flow eq ep %s %s", a, b))
		emit(fmt.Sprintf("flow eq ep %s %s", b, c))
		emit(fmt.Sprintf("flow order %s %s %s", a, b, c))
		emit(fmt.Sprintf("flow order %s %s %s", c, a, b))
		emit(fmt.Sprintf("flow fromeps %s %s", a, b))
		emit(fmt.Sprintf("flow fromeps %s %d %s", a, a.t, lib.Hex(c.b)))
		fa := fmt.Sprintf("%d %s %s", a.t, lib.Hex(a.b), lib.Hex(b.b))
		fb := fmt.Sprintf("%d %s %s", a.t, lib.Hex(b.b), lib.Hex(a.b))
		fc := fmt.Sprintf("%d %s %s", c.t, lib.Hex(a.b), lib.Hex(c.b))
		emit("flow flow " + fa)
		emit("flow split " + fa)
		emit("flow reverse " + fa)
		emit("flow hash flow " + fa)
		emit("flow hash flow " + fb)
		emit("flow eq flow " + fa + " " + fb)
		emit("flow eq flow " + fa + " " + fc)
		emit("flow eq flow " + fc + " " + fc)
		w := ""
		for k := r.Intn(6); k >= 0; k-- {
			w += []string{"r", "j"}[r.Intn(2)]
		}
		emit("flow chain " + fc + " " + w)
	}
	// ---- 4. malformed ops (both sides must answer bad-op)
	emit("reset")
	for _, l := range []string{"flow", "flow ep", "flow ep x 00", "flow ep 1 0", "flow ep 1 zz", "flow ep 9223372036854775808 00",
		"flow ep -9223372036854775808 00", "flow ep 1 00 00", "flow flow 1 00", "flow lt 1 00 2", "flow order 1 00 1 00 1",
		"flow eq", "flow eq ep 1 00 1", "flow eq what 1 00 1 00", "flow hash", "flow hash ep 1", "flow hash flow 1 00",
		"flow chain 1 00 00 rx", "flow chain 1 00 00", "flow nosuch 1 00", "flow ep 1 AB"} {
		emit(l)
	}
	// ---- 5. layer flows
	genLayers(r, thorough, emit)
}

// ---------------------------------------------------------------- layer packet generation

func ser(ls ...gopacket.SerializableLayer) []byte {
	buf := gopacket.NewSerializeBuffer()
	var out []byte
	lib.Protect(func() string {
		if err := gopacket.SerializeLayers(buf, gopacket.SerializeOptions{FixLengths: true, ComputeChecksums: false}, ls...); err == nil {
			out = append([]byte(nil), buf.Bytes()...)
		}
		return ""
	})
	return out
}

func randMAC(r *lib.Rand) net.HardwareAddr { return net.HardwareAddr(randBytes(r, 6)) }

// validPacket builds a mostly-valid packet whose first layer has the given (normalised) type name.
func validPacket(r *lib.Rand, name string) []byte {
	payload := randBytes(r, r.Intn(24))
	sp, dp := uint16(r.U64()), uint16(r.U64())
	if r.Chance(15) {
		dp = sp
	}
	switch name {
	case "Ethernet":
		et := []layers.EthernetType{layers.EthernetTypeIPv4, layers.EthernetTypeIPv6, layers.EthernetTypeARP, layers.EthernetType(r.U64()), layers.EthernetTypeLLC}[r.Intn(5)]
		e := &layers.Ethernet{SrcMAC: randMAC(r), DstMAC: randMAC(r), EthernetType: et}
		if et == layers.EthernetTypeLLC {
			e.Length = uint16(len(payload))
		}
		return ser(e, gopacket.Payload(payload))
	case "IPv4":
		ip := &layers.IPv4{Version: 4, IHL: 5, TTL: uint8(r.U64()), Protocol: layers.IPProtocol(r.Pick([]int{6, 17, 132, 1, 253})), SrcIP: net.IP(randBytes(r, 4)), DstIP: net.IP(randBytes(r, 4)), Id: uint16(r.U64())}
		if r.Chance(30) {
			ip.Options = []layers.IPv4Option{{OptionType: 7, OptionLength: 7, OptionData: randBytes(r, 5)}}
		}
		return ser(ip, gopacket.Payload(payload))
	case "IPv6":
		ip := &layers.IPv6{Version: 6, HopLimit: uint8(r.U64()), NextHeader: layers.IPProtocol(r.Pick([]int{6, 17, 59, 132})), SrcIP: net.IP(randBytes(r, 16)), DstIP: net.IP(randBytes(r, 16)), FlowLabel: uint32(r.U64() & 0xfffff)}
		return ser(ip, gopacket.Payload(payload))
	case "TCP":
		t := &layers.TCP{SrcPort: layers.TCPPort(sp), DstPort: layers.TCPPort(dp), Seq: uint32(r.U64()), Ack: uint32(r.U64()), SYN: r.Bool(), ACK: r.Bool(), Window: uint16(r.U64())}
		if r.Chance(40) {
			t.Options = []layers.TCPOption{{OptionType: layers.TCPOptionKindMSS, OptionLength: 4, OptionData: randBytes(r, 2)}, {OptionType: layers.TCPOptionKindNop, OptionLength: 1}}
		}
		return ser(t, gopacket.Payload(payload))
	case "UDP":
		return ser(&layers.UDP{SrcPort: layers.UDPPort(sp), DstPort: layers.UDPPort(dp)}, gopacket.Payload(payload))
	case "SCTP":
		return ser(&layers.SCTP{SrcPort: layers.SCTPPort(sp), DstPort: layers.SCTPPort(dp), VerificationTag: uint32(r.U64())}, gopacket.Payload(nil))
	case "UDPLite":
		h := append(append(be16(sp), be16(dp)...), be16(uint16(r.Intn(20)))...)
		h = append(h, randBytes(r, 2)...)
		return append(h, payload...)
	case "RUDP":
		// flags, header length (in 16-bit words, ≥ 9), src, dst, data length, seq, ack, checksum
		h := []byte{byte([]int{0x40, 0x00, 0x08, 0x10}[r.Intn(4)]) | 1, 9, byte(sp), byte(dp)}
		h = append(h, be16(uint16(len(payload)))...)
		h = append(h, randBytes(r, 12)...)
		return append(h, payload...)
	case "FDDI":
		h := append([]byte{byte([]int{0x50, 0x51, 0x57, 0x00}[r.Intn(4)])}, randBytes(r, 12)...)
		if h[0]&0xf8 == 0x50 { // LLC follows
			h = append(h, 0xaa, 0xaa, 0x03, 0, 0, 0, 0x08, 0x00)
		}
		return append(h, payload...)
	case "LinuxSLL":
		alen := []int{6, 6, 6, 8, 0, 1, 7, 8, 9, 16, 17, 20}[r.Intn(12)]
		h := append(be16(uint16(r.Intn(5))), be16(uint16(r.Pick([]int{1, 772, 803})))...)
		h = append(h, be16(uint16(alen))...)
		h = append(h, randBytes(r, 8)...)
		h = append(h, be16(uint16(r.Pick([]int{0x0800, 0x86dd, 0x0806, 0x1234})))...)
		// enough trailing bytes so that an over-long address length still finds bytes
		return append(h, randBytes(r, r.Intn(30))...)
	case "LinuxSLL2":
		alen := []int{6, 6, 6, 8, 0, 1, 7, 8, 9, 16, 17, 20}[r.Intn(12)]
		h := append(be16(uint16(r.Pick([]int{0x0800, 0x86dd, 0x0806, 0x1234}))), 0, 0)
		h = append(h, randBytes(r, 4)...)
		h = append(h, be16(uint16(r.Pick([]int{1, 772, 803})))...)
		h = append(h, byte(r.Intn(5)), byte(alen))
		h = append(h, randBytes(r, 8)...)
		return append(h, randBytes(r, r.Intn(30))...)
	case "PPP":
		h := []byte{}
		if r.Bool() {
			h = append(h, 0xff, 0x03)
		}
		switch r.Intn(3) {
		case 0:
			h = append(h, 0x00, 0x21)
		case 1:
			h = append(h, 0x00, 0x57)
		default:
			h = append(h, 0x21)
		}
		return append(h, payload...)
	}
	return nil
}

var knownFlowLayers = []string{"Ethernet", "FDDI", "LinuxSLL", "LinuxSLL2", "PPP", "IPv4", "IPv6", "TCP", "UDP", "UDPLite", "SCTP", "RUDP"}

// discover finds, by interface assertion on actually decoded layers, the layer types that
// expose a flow accessor; types outside knownFlowLayers are explored generically.
func discover(r *lib.Rand) (found []string, probes map[string][][]byte) {
	probes = map[string][][]byte{}
	bufs := [][]byte{make([]byte, 64), bytes.Repeat([]byte{0xff}, 64), bytes.Repeat([]byte{0x01}, 64), bytes.Repeat([]byte{0x45, 0x00, 0x00, 0x28}, 16)}
	for i := 0; i < 12; i++ {
		bufs = append(bufs, r.Bytes(64))
	}
	names := []string{}
	for n := range layerTypes() {
		names = append(names, n)
	}
	sortStrings(names)
	for _, n := range names {
		lt := layerTypes()[n]
		for _, b := range bufs {
			l := firstLayer(lt, b)
			if l == nil {
				continue
			}
			if _, _, ok := flowOf(l); ok {
				if len(probes[n]) == 0 {
					found = append(found, n)
				}
				probes[n] = append(probes[n], b)
			}
		}
	}
	return
}

func sortStrings(a []string) {
	for i := 1; i < len(a); i++ {
		for j := i; j > 0 && a[j] < a[j-1]; j-- {
			a[j], a[j-1] = a[j-1], a[j]
		}
	}
}

func mutate(r *lib.Rand, p []byte) []byte {
	q := append([]byte(nil), p...)
	switch r.Intn(6) {
	case 0, 1:
	case 2:
		if len(q) > 0 {
			q = q[:r.Intn(len(q)+1)]
		}
	case 3:
		for k := 0; k <= r.Intn(3) && len(q) > 0; k++ {
			q[r.Intn(len(q))] = byte(r.U64())
		}
	case 4:
		q = append(q, randBytes(r, r.Intn(8))...)
	case 5:
		if len(q) > 0 {
			q[r.Intn(len(q))] ^= byte(1 << uint(r.Intn(8)))
		}
	}
	return q
}

func genLayers(r *lib.Rand, thorough bool, emit func(string)) {
	found, probes := discover(r)
	all := append([]string(nil), knownFlowLayers...)
	for _, n := range found {
		isKnown := false
		for _, k := range knownFlowLayers {
			isKnown = isKnown || k == n
		}
		if !isKnown {
			all = append(all, n)
		}
	}
	per := 60
	if thorough {
		per = 1500
	}
	for _, n := range all {
		// every truncation of one valid packet
		if p := validPacket(r, n); p != nil {
			emit("reset")
			for k := 0; k <= len(p); k++ {
				emit("flow layerflow " + n + " " + lib.Hex(p[:k]))
			}
		}
		emit("reset")
		for _, b := range probes[n] {
			emit("flow layerflow " + n + " " + lib.Hex(b))
		}
		for i := 0; i < per; i++ {
			if i%10 == 0 {
				emit("reset")
			}
			p := validPacket(r, n)
			if p == nil {
				p = r.Bytes(r.Intn(64))
				if len(probes[n]) > 0 && r.Bool() {
					p = probes[n][r.Intn(len(probes[n]))]
				}
			}
			emit("flow layerflow " + n + " " + lib.Hex(mutate(r, p)))
		}
		// malformed stream
		emit("reset")
		for i := 0; i < per/4; i++ {
			emit("flow layerflow " + n + " " + lib.Hex(r.Bytes(r.Intn(80))))
		}
	}
	emit("reset")
	emit("flow layerflow NoSuchLayer 00")
	emit("flow layerflow Ethernet zz")
}

func main() {
	lib.Main(lib.Engine{Name: "flow", Gen: gen, Reset: reset, Exec: exec})
}
