package main

// Real decoders under a tracing PacketBuilder (DESIGN §5 C01 tie (2)).  gopacket.PacketBuilder is an
// interface, so no hook is needed: the first decoder is wrapped, the wrapper hands the real decoder a
// builder that records every call and forwards it to the real packet, and every decoder passed to
// NextDecoder is wrapped the same way.  The recorded behaviour is (i) checked against the discipline D
// of Gp.C03, (ii) printed as a decoder table for the Lean model, which predicts the packet that
// NewPacket builds (eagerly and lazily).

import (
	"fmt"
	"os"
	"path/filepath"
	"reflect"
	"regexp"
	"runtime"
	"sort"
	"strconv"
	"strings"
	"time"

	"github.com/gopacket/gopacket"
	"github.com/gopacket/gopacket/layers"
	"verif/harness/lib"
)

type trEvent struct {
	kind    byte // A L N T P E t n
	l       gopacket.Layer
	id      int
	child   int // 'n': invocation index of the callee, -1 not invoked, -2 nil decoder
	nextErr bool
	name    string
}

type trInv struct {
	name   string
	inLen  int
	events []trEvent
	ret    byte // 'n' returned nil, 'e' returned error, 'p' panicked
}

type tracer struct {
	invs      []*trInv
	ids       map[gopacket.Layer]int
	nextID    int
	base      []byte
	haveBase  bool
	topFailed bool
	depth     int
	viol      map[string]string // decoder name -> what
	hops      []string          // zero-progress hops decoder->callee
}

func newTracer() *tracer {
	return &tracer{ids: map[gopacket.Layer]int{}, nextID: 1, viol: map[string]string{}}
}

func (t *tracer) idOf(l gopacket.Layer) (int, bool) { n, ok := t.ids[l]; return n, ok }

func (t *tracer) idFor(l gopacket.Layer) int {
	if n, ok := t.ids[l]; ok {
		return n
	}
	n := t.nextID
	t.nextID++
	t.ids[l] = n
	return n
}

func decoderName(d gopacket.Decoder) string {
	switch x := d.(type) {
	case gopacket.LayerType:
		return "LayerType:" + x.String()
	case gopacket.DecodeFunc:
		n := runtime.FuncForPC(reflect.ValueOf(x).Pointer()).Name()
		if i := strings.LastIndex(n, "/"); i >= 0 {
			n = n[i+1:]
		}
		return n
	case *tracedDec:
		return x.name
	}
	if s, ok := d.(fmt.Stringer); ok {
		return fmt.Sprintf("%T:%s", d, s.String())
	}
	return fmt.Sprintf("%T", d)
}

type tracedDec struct {
	t    *tracer
	d    gopacket.Decoder
	name string
}

func (t *tracer) wrap(d gopacket.Decoder, _ string) gopacket.Decoder {
	return &tracedDec{t: t, d: d, name: decoderName(d)}
}

func (td *tracedDec) Decode(data []byte, p gopacket.PacketBuilder) (err error) {
	t := td.t
	if !t.haveBase {
		t.base, t.haveBase = data, true
	}
	inv := &trInv{name: td.name, inLen: len(data), ret: 'p'}
	t.invs = append(t.invs, inv)
	t.depth++
	top := t.depth == 1
	defer func() {
		t.depth--
		if top && inv.ret != 'n' {
			t.topFailed = true
		}
	}()
	err = td.d.Decode(data, &tracedBuilder{t: t, p: p, inv: inv})
	if err != nil {
		inv.ret = 'e'
	} else {
		inv.ret = 'n'
	}
	return err
}

type tracedBuilder struct {
	t   *tracer
	p   gopacket.PacketBuilder
	inv *trInv
}

func (b *tracedBuilder) ev(k byte, l gopacket.Layer) {
	b.inv.events = append(b.inv.events, trEvent{kind: k, l: l, id: b.t.idFor(l)})
}
func (b *tracedBuilder) SetTruncated() {
	b.inv.events = append(b.inv.events, trEvent{kind: 't'})
	b.p.SetTruncated()
}
func (b *tracedBuilder) AddLayer(l gopacket.Layer)             { b.ev('A', l); b.p.AddLayer(l) }
func (b *tracedBuilder) SetLinkLayer(l gopacket.LinkLayer)     { b.ev('L', l); b.p.SetLinkLayer(l) }
func (b *tracedBuilder) SetNetworkLayer(l gopacket.NetworkLayer) { b.ev('N', l); b.p.SetNetworkLayer(l) }
func (b *tracedBuilder) SetTransportLayer(l gopacket.TransportLayer) {
	b.ev('T', l)
	b.p.SetTransportLayer(l)
}
func (b *tracedBuilder) SetApplicationLayer(l gopacket.ApplicationLayer) {
	b.ev('P', l)
	b.p.SetApplicationLayer(l)
}
func (b *tracedBuilder) SetErrorLayer(l gopacket.ErrorLayer) { b.ev('E', l); b.p.SetErrorLayer(l) }
func (b *tracedBuilder) DumpPacketData()                     {}
func (b *tracedBuilder) DecodeOptions() *gopacket.DecodeOptions { return b.p.DecodeOptions() }
func (b *tracedBuilder) NextDecoder(next gopacket.Decoder) error {
	e := trEvent{kind: 'n', child: -1}
	idx := len(b.inv.events)
	b.inv.events = append(b.inv.events, e)
	var err error
	if next == nil || (reflect.ValueOf(next).Kind() == reflect.Ptr && reflect.ValueOf(next).IsNil()) {
		b.inv.events[idx].child = -2
		err = b.p.NextDecoder(nil)
	} else {
		b.inv.events[idx].name = decoderName(next)
		before := len(b.t.invs)
		// if the callee panics, the event keeps child = before (set first)
		b.inv.events[idx].child = -1
		defer func() {
			if len(b.t.invs) > before {
				b.inv.events[idx].child = before
			}
		}()
		err = b.p.NextDecoder(b.t.wrap(next, ""))
	}
	b.inv.events[idx].nextErr = err != nil
	return err
}

// ---------------------------------------------------------------- discipline on a trace

// disciplined: every invocation is `builder calls; then return / panic / return p.NextDecoder(d)`
// with an AddLayer of its own before NextDecoder whose payload is strictly shorter than the input.
func (t *tracer) disciplined() bool {
	ok := true
	// progress: along the chain no decoder may be re-entered on an input that is not shorter than at
	// its previous entry (otherwise no termination measure exists for the table)
	minLen := map[string]int{}
	for _, inv := range t.invs {
		if prev, seen := minLen[inv.name]; seen && inv.inLen >= prev && inv.inLen > 0 {
			t.viol[inv.name] = fmt.Sprintf("no progress: re-entered on %d bytes after an earlier entry on %d bytes", inv.inLen, prev)
			ok = false
		} else if !seen || inv.inLen < prev {
			minLen[inv.name] = inv.inLen
		}
	}
	for _, inv := range t.invs {
		lastAdd := -1
		for i, e := range inv.events {
			if e.kind == 'A' {
				lastAdd = i
			}
			if e.kind != 'n' {
				continue
			}
			if i != len(inv.events)-1 {
				t.viol[inv.name] = "builder calls after NextDecoder"
				ok = false
				break
			}
			if inv.ret != 'p' && (inv.ret == 'e') != e.nextErr {
				t.viol[inv.name] = "NextDecoder's result is not what the decoder returns"
				ok = false
			}
			if e.child == -2 {
				continue
			}
			if lastAdd < 0 {
				t.viol[inv.name] = "NextDecoder without a preceding AddLayer"
				ok = false
			} else if pl := len(inv.events[lastAdd].l.LayerPayload()); pl >= inv.inLen && inv.inLen > 0 {
				// hands on at least its whole input (a zero-length header, or RadioTap appending an FCS):
				// inside DM μ for a measure ranking this decoder above its callee
				// (Gp.C03.zero_progress_hop) unless a decoder is re-entered on a not-shorter input (checked above); counted
				t.hops = append(t.hops, inv.name+"->"+e.name)
			}
		}
	}
	return ok
}

func (t *tracer) report() {
	names := make([]string, 0, len(t.viol))
	for n := range t.viol {
		names = append(names, n)
	}
	sort.Strings(names)
	for _, n := range names {
		lib.Finding("C03", "pkt:discipline:"+n, "decoder "+n+" is outside the discipline D of Gp.C03.lazy_eq_eager: "+t.viol[n])
	}
	lib.Stat("real:invocations:" + strconv.Itoa(minInt(len(t.invs), 8)))
	for _, h := range t.hops {
		lib.Stat("real:zero-progress-hop:" + h)
	}
}

// tableLines renders the eager trace as decoder table ops for the model.
func (t *tracer) tableLines() []string {
	var out []string
	spec := func(e trEvent) string {
		l := e.l
		c, p := l.LayerContents(), l.LayerPayload()
		co, po := offIn(t.base, c), offIn(t.base, p)
		if co < 0 {
			co = 0
		}
		if po < 0 {
			po = 0
		}
		f := 0
		if _, ok := l.(*gopacket.DecodeFailure); ok {
			f = 1
		}
		return fmt.Sprintf("@%d:%d:%d:%d:%d:%d:%d", e.id, int(l.LayerType()), co, len(c), po, len(p), f)
	}
	for i, inv := range t.invs {
		toks := []string{"pkt", "dec", strconv.Itoa(i)}
		closed := false
		for j, e := range inv.events {
			switch e.kind {
			case 't':
				toks = append(toks, "t")
			case 'n':
				ref := "nil"
				if e.child >= 0 {
					ref = strconv.Itoa(e.child)
				} else if e.child == -1 {
					ref = strconv.Itoa(100000 + i) // never invoked: an undefined decoder
				}
				if j == len(inv.events)-1 && inv.ret != 'p' && (inv.ret == 'e') == e.nextErr {
					toks = append(toks, "nr", ref)
					closed = true
				} else if j == len(inv.events)-1 && inv.ret == 'p' && e.child >= 0 {
					// the callee panicked: the rest of this decoder never ran
					toks = append(toks, "nr", ref)
					closed = true
				} else {
					toks = append(toks, "ni", ref)
				}
			default:
				toks = append(toks, string(e.kind), spec(e))
			}
		}
		if !closed {
			switch inv.ret {
			case 'n':
				toks = append(toks, "r0")
			case 'e':
				toks = append(toks, "r1")
			default:
				toks = append(toks, "px")
			}
		}
		out = append(out, strings.Join(toks, " "))
	}
	return out
}

func errLayerName(p gopacket.Packet) string {
	if el := p.ErrorLayer(); el != nil {
		return el.LayerType().String()
	}
	for _, l := range p.Layers() {
		if _, ok := l.(*gopacket.DecodeFailure); ok {
			return "DecodeFailure"
		}
	}
	return "none"
}

// deepOf: contents, payload and rendered fields of a layer (C03: "same contents, payloads and field values").
func deepOf(l gopacket.Layer) string {
	if l == nil {
		return "-"
	}
	s := lib.Hex(l.LayerContents()) + "/" + lib.Hex(l.LayerPayload()) + "/"
	if _, isFail := l.(*gopacket.DecodeFailure); isFail {
		return s + "fail" // its text carries a stack trace
	}
	var r string
	if p, _ := protect(func() { r = gopacket.LayerString(l) }); p {
		r = "render-panic"
	}
	return s + r
}

// ---------------------------------------------------------------- fixtures

var reLit = regexp.MustCompile(`\[\]byte\{`)

// harvest collects the []byte{…} literals (>= 14 bytes) of the repository's own layer tests.
func harvest(repo string) [][]byte {
	var out [][]byte
	files, _ := filepath.Glob(filepath.Join(repo, "layers", "*_test.go"))
	more, _ := filepath.Glob(filepath.Join(repo, "*_test.go"))
	files = append(files, more...)
	sort.Strings(files)
	seen := map[string]bool{}
	for _, f := range files {
		src, err := os.ReadFile(f)
		if err != nil {
			continue
		}
		s := string(src)
		for _, loc := range reLit.FindAllStringIndex(s, -1) {
			end := strings.IndexByte(s[loc[1]:], '}')
			if end < 0 {
				continue
			}
			body := s[loc[1] : loc[1]+end]
			var b []byte
			okAll := true
			for _, line := range strings.Split(body, "\n") {
				if i := strings.Index(line, "//"); i >= 0 {
					line = line[:i]
				}
				for _, tok := range strings.FieldsFunc(line, func(r rune) bool { return r == ',' || r == ' ' || r == '\t' }) {
					n, err := strconv.ParseUint(tok, 0, 8)
					if err != nil {
						okAll = false
						break
					}
					b = append(b, byte(n))
				}
			}
			if okAll && len(b) >= 14 && len(b) <= 4000 && !seen[string(b)] {
				seen[string(b)] = true
				out = append(out, b)
			}
		}
	}
	return out
}

func repoPath() string {
	if p := os.Getenv("VERIF_REPO"); p != "" {
		return p
	}
	return "/repo"
}

// traceEager decodes data eagerly (default options) under the tracer, with a watchdog.
func traceEager(data []byte, lt gopacket.LayerType, dsad bool) (tr *tracer, p gopacket.Packet, ok bool) {
	done := make(chan struct{})
	go func() {
		defer close(done)
		t := newTracer()
		var pk gopacket.Packet
		panicked, _ := protect(func() {
			pk = gopacket.NewPacket(append([]byte(nil), data...), t.wrap(lt, ""), gopacket.DecodeOptions{DecodeStreamsAsDatagrams: dsad})
		})
		if !panicked && pk != nil {
			tr, p, ok = t, pk, true
		}
	}()
	select {
	case <-done:
	case <-time.After(3 * time.Second):
		return nil, nil, false
	}
	return
}

// crafted packets for the defects anticipated in DESIGN §7
func craftedPackets() []struct {
	name string
	lt   gopacket.LayerType
	data []byte
} {
	type cp = struct {
		name string
		lt   gopacket.LayerType
		data []byte
	}
	var out []cp
	// SCTP with an unknown chunk type followed by a known chunk
	sctp := []byte{0x03, 0xe8, 0x07, 0xd0, 0, 0, 0, 1, 0, 0, 0, 0,
		0x3f, 0x00, 0x00, 0x04,
		0x0e, 0x00, 0x00, 0x04}
	out = append(out, cp{"sctp-unknown-chunk", layers.LayerTypeSCTP, sctp})
	// Ethernet/IPv4/TCP serialised by the repo, then the TCP data offset is made too large
	buf := gopacket.NewSerializeBuffer()
	eth := &layers.Ethernet{SrcMAC: []byte{1, 2, 3, 4, 5, 6}, DstMAC: []byte{6, 5, 4, 3, 2, 1}, EthernetType: layers.EthernetTypeIPv4}
	ip := &layers.IPv4{Version: 4, IHL: 5, TTL: 64, Protocol: layers.IPProtocolTCP, SrcIP: []byte{1, 2, 3, 4}, DstIP: []byte{5, 6, 7, 8}}
	tcp := &layers.TCP{SrcPort: 1000, DstPort: 2000, Seq: 1, SYN: true, Window: 100}
	tcp.SetNetworkLayerForChecksum(ip)
	if err := gopacket.SerializeLayers(buf, gopacket.SerializeOptions{FixLengths: true, ComputeChecksums: true}, eth, ip, tcp, gopacket.Payload([]byte("hello"))); err == nil {
		good := append([]byte(nil), buf.Bytes()...)
		out = append(out, cp{"eth-ip-tcp", layers.LayerTypeEthernet, good})
		bad := append([]byte(nil), good...)
		bad[14+20+12] = 0xf0 // data offset 15 words > segment
		out = append(out, cp{"tcp-bad-offset", layers.LayerTypeEthernet, bad})
		out = append(out, cp{"tcp-truncated", layers.LayerTypeEthernet, append([]byte(nil), good[:14+20+10]...)})
		out = append(out, cp{"ip-truncated", layers.LayerTypeEthernet, append([]byte(nil), good[:14+8]...)})
	}
	udp := &layers.UDP{SrcPort: 1000, DstPort: 2000}
	udp.SetNetworkLayerForChecksum(ip)
	ip2 := *ip
	ip2.Protocol = layers.IPProtocolUDP
	buf2 := gopacket.NewSerializeBuffer()
	if err := gopacket.SerializeLayers(buf2, gopacket.SerializeOptions{FixLengths: true, ComputeChecksums: true}, eth, &ip2, udp, gopacket.Payload([]byte("payload!"))); err == nil {
		out = append(out, cp{"eth-ip-udp", layers.LayerTypeEthernet, append([]byte(nil), buf2.Bytes()...)})
	}
	return out
}

var firstTypes = []gopacket.LayerType{
	layers.LayerTypeEthernet, layers.LayerTypeIPv4, layers.LayerTypeIPv6, layers.LayerTypeTCP, layers.LayerTypeUDP,
	layers.LayerTypeSCTP, layers.LayerTypeICMPv4, layers.LayerTypeICMPv6, layers.LayerTypeDot11, layers.LayerTypeRadioTap,
	layers.LayerTypeLinuxSLL, layers.LayerTypePPP, layers.LayerTypeLoopback, layers.LayerTypeDNS, layers.LayerTypeGRE,
	layers.LayerTypeDot1Q, layers.LayerTypeMPLS, layers.LayerTypePPPoE, layers.LayerTypeARP, layers.LayerTypeLLC,
}

var realAccs = []string{"layers", "link", "net", "trans", "app", "err", "string", "dump", "trunc"}

// genReal emits one case per (fixture, first layer type): the trace table, the buffer, an eager and
// a lazy NewPacket under generated options, and a generated accessor program on each.
func genReal(r *lib.Rand, tier string, emit func(string)) {
	fixtures := harvest(repoPath())
	type job struct {
		data []byte
		lt   gopacket.LayerType
		tail []byte // bytes cut off by a truncation: placed in the spare capacity behind the input
	}
	var jobs []job
	for _, c := range craftedPackets() {
		jobs = append(jobs, job{c.data, c.lt, nil})
	}
	for _, f := range fixtures {
		jobs = append(jobs, job{f, layers.LayerTypeEthernet, nil})
		n := 1
		if tier == "thorough" {
			n = 4
		}
		for i := 0; i < n; i++ {
			jobs = append(jobs, job{f, firstTypes[r.Intn(len(firstTypes))], nil})
		}
		// truncations and a mutated byte: mostly-valid malformed inputs
		if len(f) > 20 {
			cut := 14 + r.Intn(len(f)-14)
			jobs = append(jobs, job{append([]byte(nil), f[:cut]...), layers.LayerTypeEthernet, append([]byte(nil), f[cut:]...)})
			// a second cut inside the last 40 bytes: a header of the innermost layers that claims more than is there
			if len(f) > 60 {
				cut2 := len(f) - 1 - r.Intn(40)
				jobs = append(jobs, job{append([]byte(nil), f[:cut2]...), layers.LayerTypeEthernet, append([]byte(nil), f[cut2:]...)})
			}
			m := append([]byte(nil), f...)
			m[r.Intn(len(m))] ^= byte(1 << uint(r.Intn(8)))
			jobs = append(jobs, job{m, layers.LayerTypeEthernet, nil})
		}
	}
	for _, j := range jobs {
		dsad := r.Chance(30)
		tr, p, ok := traceEager(j.data, j.lt, dsad)
		if !ok {
			continue
		}
		emit("reset")
		for _, l := range tr.tableLines() {
			emit(l)
		}
		if len(j.tail) > 0 {
			t := j.tail
			if len(t) > 64 {
				t = t[:64]
			}
			emit("pkt buf 0 " + lib.Hex(j.data) + " " + lib.Hex(t))
		} else {
			emit("pkt buf 0 " + lib.Hex(j.data))
		}
		// types present, for Layer(t)/LayerClass(c) arguments
		var tys []int
		for _, l := range p.Layers() {
			tys = append(tys, int(l.LayerType()))
		}
		tys = append(tys, 2, 1, 44)
		dsadBit := 0
		if dsad {
			dsadBit = optDSAD
		}
		// correspondence with the model: copying option sets (the decoders see exactly len bytes);
		// NoCopy/Pool on real decoders: implementation-side comparison with the default decode (rnewx)
		emit(fmt.Sprintf("pkt rnew 0 %d %d 0", dsadBit, int(j.lt)))
		emit(fmt.Sprintf("pkt rnew 1 %d %d 0", dsadBit|optLazy, int(j.lt)))
		emit(fmt.Sprintf("pkt rnewx %d %d 0", dsadBit|[]int{optNoCopy, optPool, optPool | optLazy, optNoCopy | optLazy}[r.Intn(4)], int(j.lt)))
		if len(j.tail) > 0 { // truncated input with its real continuation behind it: every aliasing option set
			for _, o := range []int{optNoCopy, optNoCopy | optLazy, optPool, optPool | optLazy} {
				emit(fmt.Sprintf("pkt rnewx %d %d 0", dsadBit|o, int(j.lt)))
			}
		}
		nacc := 2 + r.Intn(5)
		for i := 0; i < nacc; i++ {
			var a string
			switch r.Intn(4) {
			case 0:
				a = "layer " + strconv.Itoa(tys[r.Intn(len(tys))])
			case 1:
				a = fmt.Sprintf("class %d,%d", tys[r.Intn(len(tys))], tys[r.Intn(len(tys))])
			default:
				a = realAccs[r.Intn(len(realAccs))]
			}
			emit("pkt acc 1 " + a)
			if r.Chance(30) {
				emit("pkt acc 0 " + a)
			}
		}
		emit("pkt acc 1 string")
	}
}
