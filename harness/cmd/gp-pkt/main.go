// gp-pkt: correspondence adapter for engine `pkt` (C01 framework part, C03, C04): drives the REAL
// packet builder of packet.go (NewPacket, eagerPacket, lazyPacket, the data pool) through the public
// API, with scripted decoders (script.go), with the real decoders under a tracing PacketBuilder
// (real.go), and with concurrent New/Dispose histories (mem.go).
package main

import (
	"bytes"
	"fmt"
	"strconv"
	"strings"

	"github.com/gopacket/gopacket"
	"verif/harness/lib"
)

const (
	optLazy   = 1
	optNoCopy = 2
	optPool   = 4
	optSkip   = 8
	optDSAD   = 16
	guardLen  = 64 // spare capacity behind every input buffer: what an unclamped NoCopy decode can over-slice into
	guardByte = 0xEE
)

type slot struct {
	p        gopacket.Packet
	lazy     bool
	recover  bool
	real     bool
	built    bool
	k        int
	opts     int
	mem      string
	sig0     string
	twin     gopacket.Packet
	twinSig  string
	cmpLazy  bool // table in D and data non-empty: lazy must equal eager (C03)
	blk      *byte
	pooled   bool
	disposed bool
	idOf     func(gopacket.Layer) (int, bool)
	twinIdOf func(gopacket.Layer) (int, bool)
	first    string
}

var (
	tab      *table
	bufs     map[int][]byte
	slots    map[int]*slot
	liveBlks map[*byte]int
)

func reset() {
	// return pooled blocks of undisposed packets (keeps the pool from growing; not part of a case)
	for _, s := range slots {
		if s.pooled && !s.disposed && s.built {
			if pp, ok := s.p.(gopacket.PooledPacket); ok {
				pp.Dispose()
			}
		}
		if pp, ok := s.twin.(gopacket.PooledPacket); ok {
			pp.Dispose()
		}
	}
	tab = newTable()
	bufs = map[int][]byte{}
	slots = map[int]*slot{}
	liveBlks = map[*byte]int{}
}

func optsOf(o int) gopacket.DecodeOptions {
	return gopacket.DecodeOptions{Lazy: o&optLazy != 0, NoCopy: o&optNoCopy != 0, Pool: o&optPool != 0,
		SkipDecodeRecovery: o&optSkip != 0, DecodeStreamsAsDatagrams: o&optDSAD != 0}
}

// ---------------------------------------------------------------- canonical printing

// offIn returns the offset of s inside base's backing array (-1 if s is not a sub-slice of it).
func offIn(base, s []byte) int {
	if len(s) == 0 {
		return 0
	}
	if cap(base) == 0 {
		return -1
	}
	off := cap(base) - cap(s)
	full := base[:cap(base)]
	if off < 0 || off >= len(full) || &full[off] != &s[0] {
		// s may have been cap-limited; search by address
		for i := range full {
			if &full[i] == &s[0] {
				return i
			}
		}
		return -1
	}
	return off
}

func layerTok(l gopacket.Layer, base []byte, real bool, idOf func(gopacket.Layer) (int, bool)) string {
	if l == nil {
		return "-"
	}
	id := "?"
	if n, ok := idOf(l); ok {
		id = strconv.Itoa(n)
	} else if _, ok := l.(*gopacket.DecodeFailure); ok {
		id = "F"
	}
	c, p := l.LayerContents(), l.LayerPayload()
	if real {
		return fmt.Sprintf("%s:%d:%d:%d", id, int(l.LayerType()), len(c), len(p))
	}
	return fmt.Sprintf("%s:%d:%d:%d:%d:%d", id, int(l.LayerType()), offIn(base, c), len(c), offIn(base, p), len(p))
}

func layersTok(ls []gopacket.Layer, base []byte, real bool, idOf func(gopacket.Layer) (int, bool)) string {
	var b strings.Builder
	b.WriteByte('[')
	for i, l := range ls {
		if i > 0 {
			b.WriteByte(' ')
		}
		b.WriteString(layerTok(l, base, real, idOf))
	}
	b.WriteByte(']')
	return b.String()
}

func asLayer(x interface{}) gopacket.Layer {
	if x == nil {
		return nil
	}
	if l, ok := x.(gopacket.Layer); ok {
		return l
	}
	return nil
}

// fullSig forces a lazy packet (Layers()).
func fullSig(p gopacket.Packet, real bool, idOf func(gopacket.Layer) (int, bool)) string {
	base := p.Data()
	ls := p.Layers()
	tc := 0
	if p.Metadata().Truncated {
		tc = 1
	}
	tok := func(l gopacket.Layer) string { return layerTok(l, base, real, idOf) }
	var lk, nw, tr, ap, er gopacket.Layer
	if x := p.LinkLayer(); x != nil {
		lk = x
	}
	if x := p.NetworkLayer(); x != nil {
		nw = x
	}
	if x := p.TransportLayer(); x != nil {
		tr = x
	}
	if x := p.ApplicationLayer(); x != nil {
		ap = x
	}
	if x := p.ErrorLayer(); x != nil {
		er = x
	}
	return fmt.Sprintf("L=%s lk=%s nw=%s tr=%s ap=%s er=%s tc=%d", layersTok(ls, base, real, idOf), tok(lk), tok(nw), tok(tr), tok(ap), tok(er), tc)
}

func protect(f func()) (panicked bool, val interface{}) {
	defer func() {
		if v := recover(); v != nil {
			panicked, val = true, v
		}
	}()
	f()
	return
}

// ---------------------------------------------------------------- monitors

// failureContract checks C01's last sentence on a fully decoded packet, by pointer identity:
// at most one DecodeFailure layer; if present it is the last layer and it is ErrorLayer();
// if ErrorLayer() is non-nil it is the last layer; `failed` (some decoder failed) implies an error layer.
func failureContract(p gopacket.Packet, failed, knowFailed bool) string {
	ls := p.Layers()
	nFail, failIdx := 0, -1
	for i, l := range ls {
		if _, ok := l.(*gopacket.DecodeFailure); ok {
			nFail++
			failIdx = i
		}
	}
	el := p.ErrorLayer()
	if nFail > 1 {
		return "more than one DecodeFailure layer"
	}
	if nFail == 1 && failIdx != len(ls)-1 {
		return "a layer follows the DecodeFailure layer"
	}
	if nFail == 1 && (el == nil || gopacket.Layer(el) != ls[failIdx]) {
		return "ErrorLayer() is not the DecodeFailure layer"
	}
	if el != nil && (len(ls) == 0 || gopacket.Layer(el) != ls[len(ls)-1]) {
		return "ErrorLayer() is not the last layer"
	}
	if knowFailed && failed && el == nil {
		return "a decoder failed but ErrorLayer() is nil"
	}
	if knowFailed && !failed && el != nil {
		return "nothing failed but ErrorLayer() is non-nil"
	}
	return ""
}

// dataBlock identifies the backing array of a packet's data by the address of its first byte
// (nil for an empty packet whose slice has no capacity: nothing to alias).
func dataBlock(p gopacket.Packet) *byte {
	d := p.Data()
	d = d[:cap(d)]
	if len(d) == 0 {
		return nil
	}
	return &d[0]
}

// obsOf: Data() and every layer's contents/payload bytes (forces a lazy packet).
func obsOf(p gopacket.Packet) string {
	var b strings.Builder
	b.WriteString(lib.Hex(p.Data()))
	for _, l := range p.Layers() {
		b.WriteByte(' ')
		b.WriteString(lib.Hex(l.LayerContents()))
		b.WriteByte('/')
		b.WriteString(lib.Hex(l.LayerPayload()))
	}
	return b.String()
}

// ---------------------------------------------------------------- ops

func newBuf(data []byte) []byte { return newBufTail(data, nil) }

// newBufTail: the guard zone behind the input starts with `tail` (for a truncated fixture: the bytes that were
// cut off — the most plausible "foreign bytes" a decoder slicing past len(data) would pick up), then guardByte.
func newBufTail(data, tail []byte) []byte {
	b := make([]byte, len(data), len(data)+guardLen)
	copy(b, data)
	g := b[:cap(b)]
	for i := len(data); i < len(g); i++ {
		if j := i - len(data); j < len(tail) {
			g[i] = tail[j]
		} else {
			g[i] = guardByte
		}
	}
	return b
}

func snapshot(b []byte) []byte { return append([]byte(nil), b[:cap(b)]...) }

func doNew(sn, opts int, first string, k int, real bool) string {
	buf, ok := bufs[k]
	if !ok {
		return "bad-op"
	}
	o := optsOf(opts)
	s := &slot{lazy: o.Lazy, recover: !o.SkipDecodeRecovery, real: real, k: k, opts: opts, first: first}
	var mkDec func() (gopacket.Decoder, func(gopacket.Layer) (int, bool), *tracer)
	if real {
		lt, ok := lib.Atoi(first)
		if !ok {
			return "bad-op"
		}
		mkDec = func() (gopacket.Decoder, func(gopacket.Layer) (int, bool), *tracer) {
			tr := newTracer()
			return tr.wrap(gopacket.LayerType(lt), "first"), tr.idOf, tr
		}
	} else {
		d, ok := parseDecRef(first)
		if !ok {
			return "bad-op"
		}
		mkDec = func() (gopacket.Decoder, func(gopacket.Layer) (int, bool), *tracer) {
			idOf := func(l gopacket.Layer) (int, bool) { n, ok := tab.ids[l]; return n, ok }
			return tab.decoder(d), idOf, nil
		}
	}
	// reference packet, decoded eagerly.  For an eager packet under test: default options on a private
	// copy (C04: NoCopy/Pool change nothing).  For a lazy packet under test: the SAME NoCopy/Pool
	// setting and, with NoCopy, the same buffer (C03 compares lazy with eager "of the same bytes"; the
	// option sets are compared with each other on the eager packets).
	tab.resetCounters()
	twinDec, twinIdOf, twinTr := mkDec()
	var twin gopacket.Packet
	twinBuf := append([]byte(nil), buf...)
	twinOpts := gopacket.DecodeOptions{DecodeStreamsAsDatagrams: o.DecodeStreamsAsDatagrams}
	if o.Lazy {
		twinOpts.NoCopy, twinOpts.Pool = o.NoCopy, o.Pool
		if o.NoCopy {
			twinBuf = buf
		}
	}
	tp, _ := protect(func() { twin = gopacket.NewPacket(twinBuf, twinDec, twinOpts) })
	if tab.runaway {
		return "runaway"
	}
	if tp || twin == nil {
		lib.Finding("C01", "pkt:panic-escaped:new", "NewPacket (eager reference packet, recovery on) panicked")
		return "panic"
	}
	s.twin, s.twinIdOf = twin, twinIdOf
	s.twinSig = fullSig(twin, real, twinIdOf)
	failed := tab.sawPanic || tab.sawErr || (!real && first == "nil")
	if real {
		failed = twinTr.topFailed
		s.cmpLazy = len(buf) > 0 // real decoders: lazy is always compared with eager (C03 quantifies over them)
		if twinTr.disciplined() {
			lib.Stat("real:trace-in-D")
		} else {
			lib.Stat("real:trace-not-in-D")
		}
		twinTr.report()
	} else {
		s.cmpLazy = len(buf) > 0 && tab.inD() && first != "nil" // a nil first decoder is not a layer type (outside C03)
		if tab.inD() {
			lib.Stat("tab:D")
		} else {
			lib.Stat("tab:notD")
		}
	}
	// failure contract on the reference packet (scripted: only when no script calls SetErrorLayer
	// or adds a DecodeFailure itself, and errors propagate (D); real decoders: always)
	if real || (!tab.usesSetErrOrFail() && tab.inD()) {
		if msg := failureContract(twin, failed, true); msg != "" {
			who := "scripted"
			if real {
				who = errLayerName(twin)
			}
			lib.Finding("C01", "pkt:failure-contract:"+who, msg+" ("+s.twinSig+")")
		}
	} else if !real && !tab.usesSetErrOrFail() {
		if msg := failureContract(twin, false, false); msg != "" {
			lib.Finding("C01", "pkt:failure-contract:scripted", msg+" ("+s.twinSig+")")
		}
	}
	if failed {
		lib.Stat("decode:failed")
	} else {
		lib.Stat("decode:clean")
	}

	// the packet under test
	tab.resetCounters()
	dec, idOf, _ := mkDec()
	s.idOf = idOf
	before := snapshot(buf)
	var p gopacket.Packet
	panicked, _ := protect(func() { p = gopacket.NewPacket(buf, dec, o) })
	if tab.runaway {
		return "runaway"
	}
	if !bytes.Equal(before, snapshot(buf)) {
		lib.Finding("C04", "pkt:input-written", "NewPacket wrote into the caller's buffer")
	}
	slots[sn] = s
	if panicked || p == nil {
		if s.recover {
			lib.Finding("C01", "pkt:panic-escaped:new", fmt.Sprintf("NewPacket panicked with recovery on (opts=%d)", opts))
		}
		lib.Stat("new:panic-propagated")
		return "panic"
	}
	s.p, s.built = p, true
	// where do the bytes live?
	pp, isPooled := p.(gopacket.PooledPacket)
	_ = pp
	switch {
	case isPooled:
		s.mem, s.pooled = "pool", true
		s.blk = dataBlock(p)
		if s.blk != nil {
			if prev, dup := liveBlks[s.blk]; dup {
				lib.Finding("C04", "pkt:pool-alias", fmt.Sprintf("pooled packets in slots %d and %d share a block", prev, sn))
			}
			liveBlks[s.blk] = sn
		}
	case len(buf) == 0:
		s.mem = "-" // nothing to observe: an empty slice aliases nothing
	case &p.Data()[0] == &buf[0]:
		s.mem = "alias"
	default:
		s.mem = "copy"
	}
	lib.Stat("mem:" + s.mem)
	if len(buf) > 1500-8 && len(buf) < 1500+8 {
		lib.Stat("len:around-mtu")
	}
	if !bytes.Equal(p.Data(), buf) {
		lib.Finding("C04", "pkt:data-differs", "Data() differs from the input right after NewPacket")
	}
	if s.mem != "alias" && len(buf) > 0 && sameArray(p.Data(), buf) {
		lib.Finding("C04", "pkt:copy-aliases-input", "packet data shares memory with the caller's buffer without NoCopy")
	}
	if s.lazy {
		lib.Stat("new:lazy")
		return "ok mem=" + s.mem + " lazy"
	}
	lib.Stat("new:eager")
	s.sig0 = fullSig(p, real, idOf)
	if s.recover && s.sig0 != s.twinSig {
		lib.Finding("C04", "pkt:opts-differ:"+firstDiff(p, twin, real), fmt.Sprintf("opts=%d decoded %s, default options decoded %s", opts, s.sig0, s.twinSig))
	}
	if len(p.Layers()) >= 2 {
		lib.Nontrivial()
	}
	return "ok mem=" + s.mem + " " + s.sig0
}

// firstDiff names where two decodings of the same bytes part ways: the type of the first layer that
// differs (in the packet under test), or "scripted".
func firstDiff(p, ref gopacket.Packet, real bool) string {
	if !real {
		return "scripted"
	}
	a, b := p.Layers(), ref.Layers()
	for i := range a {
		if i >= len(b) || a[i].LayerType() != b[i].LayerType() || len(a[i].LayerContents()) != len(b[i].LayerContents()) || len(a[i].LayerPayload()) != len(b[i].LayerPayload()) {
			return a[i].LayerType().String()
		}
	}
	if len(b) > len(a) {
		return b[len(a)].LayerType().String()
	}
	return "meta"
}

func sameArray(a, b []byte) bool {
	if cap(a) == 0 || cap(b) == 0 {
		return false
	}
	fa, fb := a[:cap(a)], b[:cap(b)]
	return &fa[len(fa)-1] == &fb[len(fb)-1]
}

type accCall struct {
	name string
	ty   gopacket.LayerType
	cls  gopacket.LayerClass
}

func parseAcc(a []string) (accCall, bool) {
	if len(a) == 0 {
		return accCall{}, false
	}
	switch a[0] {
	case "layers", "link", "net", "trans", "app", "err", "string", "dump", "trunc":
		return accCall{name: a[0]}, len(a) == 1
	case "layer":
		if len(a) != 2 {
			return accCall{}, false
		}
		n, ok := lib.Atoi(a[1])
		return accCall{name: "layer", ty: gopacket.LayerType(n)}, ok && n >= 0
	case "class":
		if len(a) != 2 {
			return accCall{}, false
		}
		var ts []gopacket.LayerType
		for _, x := range strings.Split(a[1], ",") {
			n, ok := lib.Atoi(x)
			if !ok || n < 0 {
				return accCall{}, false
			}
			ts = append(ts, gopacket.LayerType(n))
		}
		return accCall{name: "class", cls: gopacket.NewLayerClass(ts)}, true
	}
	return accCall{}, false
}

// callAcc performs one accessor call and renders the answer canonically; text = rendered string.
func callAcc(p gopacket.Packet, c accCall, real bool, idOf func(gopacket.Layer) (int, bool)) (ans string, text string) {
	base := p.Data()
	tok := func(l gopacket.Layer) string { return layerTok(l, base, real, idOf) }
	switch c.name {
	case "layers":
		return layersTok(p.Layers(), base, real, idOf), ""
	case "layer":
		return tok(p.Layer(c.ty)), ""
	case "class":
		return tok(p.LayerClass(c.cls)), ""
	case "link":
		if x := p.LinkLayer(); x != nil {
			return tok(x), ""
		}
		return "-", ""
	case "net":
		if x := p.NetworkLayer(); x != nil {
			return tok(x), ""
		}
		return "-", ""
	case "trans":
		if x := p.TransportLayer(); x != nil {
			return tok(x), ""
		}
		return "-", ""
	case "app":
		if x := p.ApplicationLayer(); x != nil {
			return tok(x), ""
		}
		return "-", ""
	case "err":
		if x := p.ErrorLayer(); x != nil {
			return tok(x), ""
		}
		return "-", ""
	case "string":
		var t string
		if real {
			// rendering of real layers is C01's codec part; a renderer panic must not mask the framework check
			protect(func() { t = p.String() })
			p.Layers()
		} else {
			t = p.String()
		}
		return fullSig(p, real, idOf), t
	case "dump":
		var t string
		if real {
			protect(func() { t = p.Dump() })
			p.Layers()
		} else {
			t = p.Dump()
		}
		return fullSig(p, real, idOf), t
	case "trunc":
		if p.Metadata().Truncated {
			return "1", ""
		}
		return "0", ""
	}
	return "?", ""
}

// deepAcc renders bytes and fields of the layer(s) an accessor answers with (real decoders only).
func deepAcc(p gopacket.Packet, c accCall) string {
	one := func(l gopacket.Layer) string { return deepOf(l) }
	switch c.name {
	case "layers", "string", "dump":
		var b strings.Builder
		for _, l := range p.Layers() {
			b.WriteString(one(l))
			b.WriteByte(' ')
		}
		return b.String()
	case "layer":
		return one(p.Layer(c.ty))
	case "class":
		return one(p.LayerClass(c.cls))
	case "link":
		if x := p.LinkLayer(); x != nil {
			return one(x)
		}
	case "net":
		if x := p.NetworkLayer(); x != nil {
			return one(x)
		}
	case "trans":
		if x := p.TransportLayer(); x != nil {
			return one(x)
		}
	case "app":
		if x := p.ApplicationLayer(); x != nil {
			return one(x)
		}
	case "err":
		if x := p.ErrorLayer(); x != nil {
			return one(x)
		}
	}
	return "-"
}

func doAcc(sn int, rest []string) string {
	s, ok := slots[sn]
	if !ok {
		return "bad-op"
	}
	if !s.built {
		return "nopkt"
	}
	if s.disposed {
		return "disposed" // use after Dispose is outside the property
	}
	c, ok := parseAcc(rest)
	if !ok {
		return "bad-op"
	}
	tab.resetCounters()
	var ans, text string
	panicked, _ := protect(func() { ans, text = callAcc(s.p, c, s.real, s.idOf) })
	if tab.runaway {
		return "runaway"
	}
	lib.Stat("acc:" + c.name)
	if panicked {
		if s.recover {
			lib.Finding("C01", "pkt:panic-escaped:acc", "accessor "+c.name+" panicked with recovery on")
		}
		lib.Stat("acc:panic-propagated")
		return "panic"
	}
	if c.name == "trunc" {
		return "ok " + ans
	}
	if !s.lazy && s.recover {
		// accessors of an eager packet are read-only (C01/C02)
		if now := fullSig(s.p, s.real, s.idOf); now != s.sig0 {
			lib.Finding("C01", "pkt:eager-accessor-mutates", "after "+c.name+": "+now+" was "+s.sig0)
		}
	}
	if s.recover && s.cmpLazy {
		// C03 oracle: the same call on the eagerly decoded reference packet
		want, wtext := callAcc(s.twin, c, s.real, s.twinIdOf)
		if s.real && want == ans {
			// same contents, payloads and field values (deep comparison of the answered layers)
			if a, b := deepAcc(s.p, c), deepAcc(s.twin, c); a != b {
				ans, want = ans+" deep="+a, want+" deep="+b
			}
		}
		if want != ans || (c.name == "string" && !s.real && wtext != text) {
			who := "scripted"
			if s.real {
				who = s.first
				if n, ok := lib.Atoi(s.first); ok {
					who = gopacket.LayerType(n).String()
				}
			}
			mode := "eager"
			if s.lazy {
				mode = "lazy"
			}
			sig := "pkt:lazy-neq:" + who
			prop := "C03"
			if !s.lazy {
				sig, prop = "pkt:opts-differ:"+firstDiff(s.p, s.twin, s.real), "C04"
			}
			lib.Finding(prop, sig, fmt.Sprintf("%s packet (opts=%d) answered %s to %s, eager default packet %s", mode, s.opts, ans, strings.Join(rest, " "), want))
		}
		if s.lazy {
			lib.Nontrivial()
		}
	}
	return "ok " + ans
}

func exec(a []string) string {
	if len(a) < 2 || a[0] != "pkt" {
		return "bad-op"
	}
	switch a[1] {
	case "dec":
		if len(a) < 4 {
			return "bad-op"
		}
		i, ok := lib.Atoi(a[2])
		if !ok || i < 0 {
			return "bad-op"
		}
		b, rest, ok := parseBeh(a[3:])
		if !ok || len(rest) != 0 {
			return "bad-op"
		}
		tab.decs[i] = b
		return "ok"
	case "buf":
		if len(a) != 4 && len(a) != 5 {
			return "bad-op"
		}
		k, ok := lib.Atoi(a[2])
		d, ok2 := lib.UnHex(a[3])
		if !ok || !ok2 || k < 0 {
			return "bad-op"
		}
		var tail []byte
		if len(a) == 5 {
			t, ok3 := lib.UnHex(a[4])
			if !ok3 {
				return "bad-op"
			}
			tail = t
			lib.Stat("buf:with-tail")
		}
		bufs[k] = newBufTail(d, tail)
		return "ok"
	case "new", "rnew":
		if len(a) != 6 {
			return "bad-op"
		}
		sn, ok1 := lib.Atoi(a[2])
		o, ok2 := lib.Atoi(a[3])
		k, ok3 := lib.Atoi(a[5])
		if !ok1 || !ok2 || !ok3 || sn < 0 || o < 0 || k < 0 {
			return "bad-op"
		}
		if old, ok := slots[sn]; ok && old.pooled && !old.disposed {
			delete(liveBlks, old.blk) // slot overwritten: the old packet is unreachable for the script
			old.p.(gopacket.PooledPacket).Dispose()
			old.disposed = true
		}
		return doNew(sn, o, a[4], k, a[1] == "rnew")
	case "acc":
		if len(a) < 4 {
			return "bad-op"
		}
		sn, ok := lib.Atoi(a[2])
		if !ok {
			return "bad-op"
		}
		return doAcc(sn, a[3:])
	case "mut":
		if len(a) != 5 {
			return "bad-op"
		}
		k, ok1 := lib.Atoi(a[2])
		off, ok2 := lib.Atoi(a[3])
		v, ok3 := lib.Atoi(a[4])
		buf, ok4 := bufs[k]
		if !ok1 || !ok2 || !ok3 || !ok4 || off < 0 || off >= len(buf) || v < 0 || v > 255 {
			return "bad-op"
		}
		type ob struct {
			s *slot
			o string
		}
		var before []ob
		for _, s := range slots {
			if s.built && s.k == k && s.mem != "alias" && !s.lazy && !s.disposed {
				before = append(before, ob{s, obsOf(s.p)})
			}
		}
		buf[off] = byte(v)
		for _, b := range before {
			if now := obsOf(b.s.p); now != b.o {
				lib.Finding("C04", "pkt:copy-isolation", "a write to the input buffer changed a packet decoded without NoCopy")
			}
			lib.Stat("mut:checked-isolated")
		}
		return "ok"
	case "obs":
		if len(a) != 3 {
			return "bad-op"
		}
		sn, ok := lib.Atoi(a[2])
		s, ok2 := slots[sn]
		if !ok || !ok2 {
			return "bad-op"
		}
		if !s.built {
			return "nopkt"
		}
		if s.disposed {
			return "disposed"
		}
		var o string
		tab.resetCounters()
		panicked, _ := protect(func() { o = obsOf(s.p) })
		if panicked {
			return "panic"
		}
		return "ok " + o
	case "dispose":
		if len(a) != 3 {
			return "bad-op"
		}
		sn, ok := lib.Atoi(a[2])
		s, ok2 := slots[sn]
		if !ok || !ok2 || !s.built || !s.pooled || s.disposed {
			return "bad-op"
		}
		s.disposed = true
		delete(liveBlks, s.blk)
		s.p.(gopacket.PooledPacket).Dispose()
		lib.Stat("dispose")
		return "ok"
	case "rnewx":
		// real decoders under a non-default option set: implementation-side comparison only (C04);
		// the model cannot follow a real decoder that reads past len, so it only predicts the memory kind
		if len(a) != 5 {
			return "bad-op"
		}
		o, ok2 := lib.Atoi(a[2])
		k, ok3 := lib.Atoi(a[4])
		if !ok2 || !ok3 || o < 0 || k < 0 {
			return "bad-op"
		}
		const tmp = 1 << 20
		r := doNew(tmp, o, a[3], k, true)
		s := slots[tmp]
		if s == nil || !s.built {
			delete(slots, tmp)
			return r
		}
		for _, acc := range [][]string{{"link"}, {"err"}, {"layers"}, {"string"}} {
			doAcc(tmp, acc)
		}
		if s.pooled {
			delete(liveBlks, s.blk)
			s.p.(gopacket.PooledPacket).Dispose()
		}
		delete(slots, tmp)
		return "ok mem=" + s.mem
	case "conc":
		return doConc(a[2:])
	}
	return "bad-op"
}

func main() {
	reset()
	lib.Main(lib.Engine{Name: "pkt", Gen: gen, Reset: reset, Exec: exec})
}
