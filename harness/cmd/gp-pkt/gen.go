package main

// Generators (DESIGN §5 C01/C03/C04 ties):
//  1. exhaustive scripted tables: 3 decoders, decoder 0 ranging over ALL behaviours of up to K
//     builder calls + a tail over a 9-symbol alphabet, decoders 1 and 2 over fixed small sets;
//  2. exhaustive accessor programs (length <= 3, thorough 4) over a 10-symbol accessor alphabet on a
//     fixed set of <= 4-layer tables, inside and outside the discipline D;
//  3. random tables (general trees with mid-way NextDecoder), all 32 option sets, random accessor
//     programs, input mutation, observation, dispose/re-new;
//  4. memory: lengths 1490..1510 x option sets, New/Dispose histories, concurrent stress;
//  5. real decoders: fixtures harvested from the repository's tests, traced (real.go).
//
// Every candidate table is first run on the REAL builder inside the generator with an invocation
// budget; tables whose decoding does not terminate (unbounded recursion = fatal stack overflow in Go,
// lazy accessors spinning) are dropped and counted — the model calls these `diverge`.

import (
	"fmt"
	"strconv"
	"strings"

	"github.com/gopacket/gopacket"
	"verif/harness/lib"
)

type gctx struct {
	dec, pos int
	lastOwn  string // spec of the last own added layer
}

func (g *gctx) fresh(ty, c, skip, pl int, fail bool) string {
	g.pos++
	f := 0
	if fail {
		f = 1
	}
	return fmt.Sprintf("%d:%d:%d:%d:%d:%d", 10*g.dec+g.pos, ty, c, skip, pl, f)
}

// actTokens renders one symbolic action for decoder g.dec.
func (g *gctx) actTokens(sym string) string {
	switch sym {
	case "A1":
		g.lastOwn = g.fresh(50, 1, 1, 99, false)
		return "A " + g.lastOwn
	case "A2":
		g.lastOwn = g.fresh(51, 2, 2, 99, false)
		return "A " + g.lastOwn
	case "Az":
		g.lastOwn = g.fresh(52, 1, 1, 0, false)
		return "A " + g.lastOwn
	case "A0":
		g.lastOwn = g.fresh(50, 0, 0, 99, false)
		return "A " + g.lastOwn
	case "AF":
		g.lastOwn = ""
		return "A " + g.fresh(1, 0, 0, 0, true)
	case "L", "N", "T", "P", "E":
		s := g.lastOwn
		if s == "" {
			s = g.fresh(53, 1, 1, 99, false)
		}
		return sym + " " + s
	case "t":
		return "t"
	}
	if strings.HasPrefix(sym, "ni") {
		return "ni " + sym[2:]
	}
	if strings.HasPrefix(sym, "nr") {
		return "nr " + sym[2:]
	}
	return sym // r0 r1 px
}

func behText(dec int, syms []string) string {
	g := &gctx{dec: dec}
	var out []string
	for _, s := range syms {
		out = append(out, g.actTokens(s))
	}
	return strings.Join(out, " ")
}

// tryTable runs the candidate on the real builder (eager + fully forced lazy); false if it runs away.
func tryTable(decLines []string, data []byte, first int) bool {
	t := newTable()
	for i, l := range decLines {
		b, rest, ok := parseBeh(strings.Fields(l))
		if !ok || len(rest) != 0 {
			return false
		}
		t.decs[i] = b
	}
	bad := false
	protect(func() {
		gopacket.NewPacket(data, t.decoder(first), gopacket.Default)
	})
	if t.runaway {
		bad = true
	}
	t.resetCounters()
	protect(func() {
		p := gopacket.NewPacket(data, t.decoder(first), gopacket.Lazy)
		p.Layers()
	})
	if t.runaway {
		bad = true
	}
	// SkipDecodeRecovery: a panicking decoder does not freeze the lazy packet; later accessor calls go on
	// from whatever continuation it left behind
	t.resetCounters()
	p := gopacket.NewPacket(data, t.decoder(first), gopacket.DecodeOptions{Lazy: true, SkipDecodeRecovery: true})
	for i := 0; i < 64; i++ {
		panicked, _ := protect(func() { p.Layers() })
		if !panicked || t.runaway {
			break
		}
		if i == 63 {
			bad = true
		}
	}
	if t.runaway {
		bad = true
	}
	return !bad
}

var accAlphabet = []string{"layers", "layer 50", "layer 52", "class 51,52", "link", "net", "trans", "app", "err", "string"}
var accWide = []string{"layers", "layer 50", "layer 51", "layer 52", "layer 1", "layer 53", "class 50,51", "class 51,52", "class 1,53",
	"link", "net", "trans", "app", "err", "string", "dump", "trunc"}

func emitTable(emit func(string), decLines []string) {
	for i, l := range decLines {
		emit("pkt dec " + strconv.Itoa(i) + " " + l)
	}
}

func seqs(alpha []string, maxLen int) [][]string {
	out := [][]string{{}}
	level := [][]string{{}}
	for n := 0; n < maxLen; n++ {
		var next [][]string
		for _, s := range level {
			for _, a := range alpha {
				ns := append(append([]string(nil), s...), a)
				next = append(next, ns)
			}
		}
		out = append(out, next...)
		level = next
	}
	return out
}

func genExhaustiveTables(r *lib.Rand, tier string, emit func(string)) {
	acts := []string{"A1", "A2", "Az", "L", "E", "t", "ni1", "AF"}
	tails := []string{"r0", "r1", "px", "nr0", "nr1", "nr2", "nrnil"}
	k := 2
	s1 := [][]string{{"r0"}, {"r1"}, {"px"}, {"A1", "r0"}, {"A1", "r1"}, {"A1", "px"}, {"A1", "N", "nr2"}, {"A2", "t", "nr0"},
		{"nr2"}, {"A1", "ni2", "A2", "r0"}, {"Az", "nr2"}, {"A1", "nrnil"}, {"A1", "E", "r0"}}
	s2 := [][]string{{"r0"}, {"A1", "T", "r0"}, {"A1", "r1"}, {"px"}, {"A2", "P", "nr0"}, {"t", "A1", "nr2"}}
	if tier != "thorough" {
		s1 = s1[:9]
		s2 = s2[:4]
	} else {
		k = 3
		s1 = append(s1[:0:0], s1[3], s1[6], s1[7], s1[8], s1[9])
		s2 = append(s2[:0:0], s2[1], s2[2], s2[4])
	}
	data := []byte{0xa1, 0xa2, 0xa3, 0xa4}
	n := 0
	for _, pre := range seqs(acts, k) {
		for _, tl := range tails {
			d0 := behText(0, append(append([]string(nil), pre...), tl))
			for _, b1 := range s1 {
				d1 := behText(1, b1)
				for _, b2 := range s2 {
					d2 := behText(2, b2)
					lines := []string{d0, d1, d2}
					if !tryTable(lines, data, 0) {
						continue
					}
					n++
					emit("reset")
					emitTable(emit, lines)
					emit("pkt buf 0 " + lib.Hex(data))
					eo := []int{0, optNoCopy, optPool, optDSAD, optNoCopy | optPool, optPool | optDSAD}[n%6]
					lo := optLazy | []int{0, optNoCopy, optPool, optDSAD}[n%4]
					emit(fmt.Sprintf("pkt new 0 %d 0 0", eo))
					emit(fmt.Sprintf("pkt new 1 %d 0 0", lo))
					for i := 0; i < 3; i++ {
						emit("pkt acc 1 " + accWide[r.Intn(len(accWide))])
					}
					emit("pkt acc 1 string")
					if n%7 == 0 {
						emit(fmt.Sprintf("pkt new 2 %d 0 0", optSkip|(n/7%2)*optLazy))
						emit("pkt acc 2 " + accWide[r.Intn(len(accWide))])
						emit("pkt acc 2 layers")
					}
				}
			}
		}
	}
}

// fixed tables (<= 4 layers) for the exhaustive accessor programs
var progTables = [][]string{
	// D: link/net/trans/app chain
	{"A 1:50:1:1:99:0 L 1:50:1:1:99:0 nr 1", "A 11:51:1:1:99:0 N 11:51:1:1:99:0 nr 2", "A 21:52:1:1:99:0 T 21:52:1:1:99:0 nr 3", "A 31:50:1:1:99:0 P 31:50:1:1:99:0 r0"},
	// D: error at the third decoder
	{"A 1:50:1:1:99:0 L 1:50:1:1:99:0 nr 1", "A 11:52:2:2:99:0 t nr 2", "r1"},
	// D: panic after adding
	{"A 1:51:1:1:99:0 nr 1", "A 11:52:1:1:99:0 T 11:52:1:1:99:0 px"},
	// D: two layers from one decoder, empty payload ends the chain
	{"A 1:50:1:1:99:0 A 2:52:2:2:99:0 N 2:52:2:2:99:0 nr 1", "A 11:51:1:1:0:0 P 11:51:1:1:0:0 nr 2", "A 21:50:1:1:99:0 r0"},
	// D: SetErrorLayer by a decoder that goes on (the SCTP pattern)
	{"A 1:50:1:1:99:0 E 1:50:1:1:99:0 nr 1", "A 11:52:1:1:99:0 nr 2", "A 21:51:1:1:99:0 r0"},
	// D: nil next decoder
	{"A 1:50:1:1:99:0 nr 1", "A 11:52:1:1:99:0 L 11:52:1:1:99:0 nr nil"},
	// D: first decoder fails at once
	{"r1"},
	// D: truncated set late
	{"A 1:50:1:1:99:0 nr 1", "A 11:51:1:1:99:0 nr 2", "t A 21:52:1:1:99:0 T 21:52:1:1:99:0 r0"},
	// not D: NextDecoder before AddLayer
	{"nr 1", "A 11:52:1:1:99:0 L 11:52:1:1:99:0 r0"},
	// not D: builder calls after NextDecoder
	{"A 1:50:1:1:99:0 ni 1 A 2:52:1:1:99:0 N 2:52:1:1:99:0 r0", "A 11:51:1:1:99:0 T 11:51:1:1:99:0 r0"},
	// not D: error of the callee ignored
	{"A 1:50:1:1:99:0 ni 1 r0", "A 11:52:1:1:99:0 r1"},
	// not D: mid-way call, then continue differently on error
	{"A 1:50:1:1:99:0 n 1 r0 A 2:52:1:1:99:0 r1", "A 11:51:1:1:99:0 P 11:51:1:1:99:0 r1"},
	// not D: scripted DecodeFailure layer and more layers after it
	{"A 1:1:0:0:0:1 A 2:52:1:1:99:0 nr 1", "A 11:50:1:1:99:0 r0"},
	// D: panic in the first decoder before anything
	{"px"},
	// D: decoder 1 undefined (returns nil)
	{"A 1:50:1:1:99:0 L 1:50:1:1:99:0 nr 7"},
	// not D: two NextDecoder calls, the last wins in lazy mode
	{"A 1:50:1:1:99:0 ni 1 ni 2 r0", "A 11:52:1:1:99:0 r0", "A 21:51:1:1:99:0 T 21:51:1:1:99:0 r0"},
}

func genAccPrograms(r *lib.Rand, tier string, emit func(string)) {
	maxLen := 3
	if tier == "thorough" {
		maxLen = 4
	}
	progs := seqs(accAlphabet, maxLen)[1:]
	data := []byte{1, 2, 3, 4, 5}
	for ti, tb := range progTables {
		if !tryTable(tb, data, 0) {
			continue
		}
		for i := 0; i < len(progs); i += 8 {
			emit("reset")
			emitTable(emit, tb)
			emit("pkt buf 0 " + lib.Hex(data))
			emit("pkt new 0 0 0 0")
			for j := i; j < i+8 && j < len(progs); j++ {
				lo := optLazy | []int{0, optNoCopy, optDSAD, optNoCopy | optDSAD, optPool}[(ti+j)%5]
				emit(fmt.Sprintf("pkt new 1 %d 0 0", lo))
				for _, a := range progs[j] {
					emit("pkt acc 1 " + a)
				}
				if j%16 == 0 {
					emit("pkt acc 0 " + progs[j][0])
				}
			}
		}
	}
}

// ---------------------------------------------------------------- random tables

func randBeh(r *lib.Rand, g *gctx, ndec, budget int, disciplined bool) string {
	var out []string
	n := r.Intn(budget + 1)
	added := false
	for i := 0; i < n; i++ {
		switch x := r.Intn(20); {
		case x < 6:
			out = append(out, g.actTokens([]string{"A1", "A2", "A1", "Az"}[r.Intn(4)]))
			if i == n-1 || r.Chance(80) {
				added = true
			}
		case x < 7 && !disciplined:
			out = append(out, g.actTokens("A0"))
		case x < 8 && !disciplined:
			out = append(out, g.actTokens("AF"))
		case x < 13:
			out = append(out, g.actTokens([]string{"L", "N", "T", "P"}[r.Intn(4)]))
		case x < 14:
			out = append(out, g.actTokens("E"))
		case x < 15:
			out = append(out, "t")
		case x < 17 && !disciplined:
			out = append(out, "ni "+decRef(r, ndec))
		case x < 19 && !disciplined && budget > 1:
			// general node: n d <kOk> <kErr>
			kOk := randBeh(r, g, ndec, budget/2, false)
			kErr := randBeh(r, g, ndec, budget/2, false)
			out = append(out, "n "+decRef(r, ndec)+" "+kOk+" "+kErr)
			return strings.Join(out, " ")
		}
	}
	// tail
	lastIsProgress := g.lastOwn != "" && !strings.Contains(g.lastOwn, ":0:0:99:")
	switch x := r.Intn(10); {
	case x < 5 && (!disciplined || (added && lastIsProgress)):
		out = append(out, "nr "+decRef(r, ndec))
	case x < 5:
		out = append(out, g.actTokens("A1"), "nr "+decRef(r, ndec))
	case x < 7:
		out = append(out, "r0")
	case x < 9:
		out = append(out, "r1")
	default:
		out = append(out, "px")
	}
	return strings.Join(out, " ")
}

func decRef(r *lib.Rand, ndec int) string {
	if r.Chance(6) {
		return "nil"
	}
	if r.Chance(4) {
		return strconv.Itoa(ndec + 3) // undefined
	}
	return strconv.Itoa(r.Intn(ndec))
}

func randData(r *lib.Rand) []byte {
	switch x := r.Intn(100); {
	case x < 5:
		return []byte{}
	case x < 65:
		return r.Bytes(1 + r.Intn(8))
	case x < 95:
		return r.Bytes(9 + r.Intn(32))
	default:
		return r.Bytes(1490 + r.Intn(21))
	}
}

func randAcc(r *lib.Rand) string { return accWide[r.Intn(len(accWide))] }

func genRandom(r *lib.Rand, tier string, emit func(string)) {
	n := 5000
	if tier == "thorough" {
		n = 40000
	}
	for c := 0; c < n; c++ {
		ndec := 1 + r.Intn(5)
		disciplined := r.Chance(50)
		var lines []string
		for d := 0; d < ndec; d++ {
			lines = append(lines, randBeh(r, &gctx{dec: d}, ndec, 6, disciplined))
		}
		data := randData(r)
		first := 0
		if !tryTable(lines, data, first) {
			continue
		}
		emit("reset")
		emitTable(emit, lines)
		emit("pkt buf 0 " + lib.Hex(data))
		nslots := 1 + r.Intn(3)
		for s := 0; s < nslots; s++ {
			opts := r.Intn(32)
			if !r.Chance(15) {
				opts &^= optSkip
			}
			if s == 1 {
				opts |= optLazy
			}
			fs := "0"
			if r.Chance(3) {
				fs = "nil"
			}
			emit(fmt.Sprintf("pkt new %d %d %s 0", s, opts, fs))
		}
		nops := 2 + r.Intn(10)
		for i := 0; i < nops; i++ {
			s := r.Intn(nslots)
			switch x := r.Intn(20); {
			case x < 14:
				emit(fmt.Sprintf("pkt acc %d %s", s, randAcc(r)))
			case x < 16 && len(data) > 0:
				emit(fmt.Sprintf("pkt mut 0 %d %d", r.Intn(len(data)), r.Intn(256)))
			case x < 18 && len(data) <= 64:
				emit(fmt.Sprintf("pkt obs %d", s))
			case x < 19:
				emit(fmt.Sprintf("pkt dispose %d", s))
			default:
				emit(fmt.Sprintf("pkt new %d %d 0 0", s, r.Intn(8)))
			}
		}
		emit("pkt acc 0 string")
	}
}

// ---------------------------------------------------------------- memory (C04)

func genMem(r *lib.Rand, tier string, emit func(string)) {
	table := []string{"A 1:50:14:14:9999:0 L 1:50:14:14:9999:0 nr 1", "A 11:51:20:20:9999:0 N 11:51:20:20:9999:0 nr 2", "A 21:52:8:8:9999:0 T 21:52:8:8:9999:0 P 21:52:8:8:9999:0 r0"}
	// every length around the block size x every (Lazy, NoCopy, Pool) set
	for ln := 1488; ln <= 1512; ln++ {
		data := r.Bytes(ln)
		emit("reset")
		emitTable(emit, table)
		emit("pkt buf 0 " + lib.Hex(data))
		for o := 0; o < 8; o++ {
			emit(fmt.Sprintf("pkt new %d %d 0 0", o, o))
		}
		emit(fmt.Sprintf("pkt mut 0 %d %d", r.Intn(ln), r.Intn(256)))
		emit(fmt.Sprintf("pkt mut 0 %d %d", 14+r.Intn(20), r.Intn(256)))
		for o := 0; o < 8; o++ {
			emit(fmt.Sprintf("pkt acc %d %s", o, []string{"layers", "string", "trans", "layer 52"}[r.Intn(4)]))
		}
		for _, o := range []int{4, 5} {
			emit(fmt.Sprintf("pkt dispose %d", o))
		}
	}
	// small inputs: full byte-level observation before/after mutating the input
	nsmall := 300
	nhist := 200
	if tier == "thorough" {
		nsmall, nhist = 3000, 2000
	}
	small := []string{"A 1:50:2:2:99:0 L 1:50:2:2:99:0 nr 1", "A 11:51:1:1:3:0 N 11:51:1:1:3:0 nr 2", "A 21:52:1:1:99:0 r0"}
	for c := 0; c < nsmall; c++ {
		data := r.Bytes(1 + r.Intn(10))
		emit("reset")
		emitTable(emit, small)
		emit("pkt buf 0 " + lib.Hex(data))
		ns := 2 + r.Intn(3)
		for s := 0; s < ns; s++ {
			emit(fmt.Sprintf("pkt new %d %d 0 0", s, r.Intn(8)))
		}
		for i := 0; i < 6; i++ {
			switch r.Intn(3) {
			case 0:
				emit(fmt.Sprintf("pkt mut 0 %d %d", r.Intn(len(data)), r.Intn(256)))
			default:
				emit(fmt.Sprintf("pkt obs %d", r.Intn(ns)))
			}
		}
	}
	// sequential New/Dispose histories on the pool
	for c := 0; c < nhist; c++ {
		emit("reset")
		emitTable(emit, small)
		for k := 0; k < 3; k++ {
			emit(fmt.Sprintf("pkt buf %d %s", k, lib.Hex(r.Bytes(1+r.Intn(12)))))
		}
		for i := 0; i < 12+r.Intn(20); i++ {
			s := r.Intn(5)
			switch x := r.Intn(10); {
			case x < 5:
				emit(fmt.Sprintf("pkt new %d %d 0 %d", s, optPool|r.Intn(2), r.Intn(3)))
			case x < 8:
				emit(fmt.Sprintf("pkt dispose %d", s))
			case x < 9:
				emit(fmt.Sprintf("pkt obs %d", s))
			default:
				emit(fmt.Sprintf("pkt mut %d 0 %d", r.Intn(3), r.Intn(256)))
			}
		}
		for s := 0; s < 5; s++ {
			emit(fmt.Sprintf("pkt obs %d", s))
		}
	}
	// concurrent histories
	nconc, rounds := 4, 3000
	if tier == "thorough" {
		nconc, rounds = 12, 20000
	}
	for c := 0; c < nconc; c++ {
		emit("reset")
		emit(fmt.Sprintf("pkt conc %d %d %d %d", 2+r.Intn(7), rounds, []int{1500, 1498, 60, 1502}[c%4], r.U64()%100000))
	}
}

func gen(r *lib.Rand, tier string, emit func(string)) {
	genMem(r.Fork(), tier, emit)
	genReal(r.Fork(), tier, emit)
	genAccPrograms(r.Fork(), tier, emit)
	genRandom(r.Fork(), tier, emit)
	genExhaustiveTables(r.Fork(), tier, emit)
}
