package main

// Concurrent New/Dispose histories against the real block pool (C04): G goroutines decode with
// DecodeOptions{Pool:true}, hold a few packets, dispose them in arbitrary order.  Monitors: no two
// live pooled packets share a block (pointer identity of the backing array); a live packet's Data()
// still holds what was decoded when it is finally disposed (no foreign write); oversize inputs are
// not pooled and still decode.

import (
	"bytes"
	"fmt"
	"sync"
	"time"

	"github.com/gopacket/gopacket"
	"verif/harness/lib"
)

func doConc(a []string) string {
	if len(a) != 4 {
		return "bad-op"
	}
	g, ok1 := lib.Atoi(a[0])
	rounds, ok2 := lib.Atoi(a[1])
	ln, ok3 := lib.Atoi(a[2])
	seed, ok4 := lib.Atou(a[3])
	if !ok1 || !ok2 || !ok3 || !ok4 || g < 1 || g > 64 || rounds < 0 || rounds > 100000 || ln < 0 || ln > 4000 {
		return "bad-op"
	}
	var mu sync.Mutex
	live := map[*byte]int{}
	var found []string
	report := func(sig, what string) {
		mu.Lock()
		if len(found) < 10 {
			found = append(found, sig+"\x00"+what)
		}
		mu.Unlock()
	}
	var wg sync.WaitGroup
	for gi := 0; gi < g; gi++ {
		wg.Add(1)
		go func(gi int) {
			defer wg.Done()
			defer func() {
				if v := recover(); v != nil {
					report("pkt:conc-panic", fmt.Sprint(v))
				}
			}()
			r := lib.NewRand(seed*131 + uint64(gi))
			type held struct {
				p    gopacket.Packet
				want []byte
				blk  *byte
			}
			var hold []held
			release := func(i int) {
				h := hold[i]
				hold = append(hold[:i], hold[i+1:]...)
				if !bytes.Equal(h.p.Data(), h.want) {
					report("pkt:pool-corrupt", "a live pooled packet's data changed before it was disposed")
				}
				if ls := h.p.Layers(); len(ls) != 1 || !bytes.Equal(ls[0].LayerContents(), h.want) {
					report("pkt:pool-corrupt", "a live pooled packet's layer bytes changed before it was disposed")
				}
				if pp, ok := h.p.(gopacket.PooledPacket); ok {
					mu.Lock()
					delete(live, h.blk)
					mu.Unlock()
					pp.Dispose()
				}
			}
			for i := 0; i < rounds; i++ {
				n := ln
				if r.Chance(50) {
					n = ln - 5 + r.Intn(11)
					if n < 0 {
						n = 0
					}
				}
				data := bytes.Repeat([]byte{byte(gi*16 + i%16)}, n)
				if n > 0 {
					data[0] = byte(r.U64())
				}
				opts := gopacket.DecodeOptions{Pool: true, Lazy: r.Chance(30)}
				p := gopacket.NewPacket(data, gopacket.DecodePayload, opts)
				want := append([]byte(nil), data...)
				for j := range data { // the caller reuses its buffer at once
					data[j] = 0xAA
				}
				h := held{p: p, want: want}
				_, pooled := p.(gopacket.PooledPacket)
				if pooled != (n <= 1500) {
					report("pkt:pool-threshold", fmt.Sprintf("len=%d pooled=%v", n, pooled))
				}
				if pooled {
					h.blk = dataBlock(p)
					mu.Lock()
					if other, dup := live[h.blk]; dup {
						found = append(found, "pkt:pool-alias\x00"+fmt.Sprintf("goroutines %d and %d hold live pooled packets on one block", other, gi))
					}
					live[h.blk] = gi
					mu.Unlock()
				}
				hold = append(hold, h)
				for len(hold) > 0 && (len(hold) > 4 || r.Chance(40)) {
					release(r.Intn(len(hold)))
				}
			}
			for len(hold) > 0 {
				release(0)
			}
		}(gi)
	}
	done := make(chan struct{})
	go func() { wg.Wait(); close(done) }()
	select {
	case <-done:
	case <-time.After(60 * time.Second):
		lib.Finding("C04", "pkt:conc-hang", "concurrent New/Dispose did not finish")
		return "ok"
	}
	for _, f := range found {
		var sig, what string
		for i := 0; i < len(f); i++ {
			if f[i] == 0 {
				sig, what = f[:i], f[i+1:]
			}
		}
		lib.Finding("C04", sig, what)
	}
	lib.Stat("conc:runs")
	lib.Nontrivial()
	return "ok"
}
