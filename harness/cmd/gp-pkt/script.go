package main

// Scripted decoders: a decoder behaviour is data (DESIGN §5 C01).  The same behaviour text is
// interpreted by the Lean model (Gp/Model/Packet.lean: SBeh) and replayed here against the REAL
// packet builder through the public gopacket.Decoder / PacketBuilder interfaces.

import (
	"errors"
	"strconv"
	"strings"

	"github.com/gopacket/gopacket"
)

type lspec struct {
	abs        bool
	id, ty     int
	a, b, c, d int // rel: c=a skip=b pl=c ; abs: coff=a clen=b poff=c plen=d
	fail       bool
}

type beh struct {
	kind      byte // 'r' ret, 'p' panic, 'a' act, 'n' next
	err       bool
	act       byte // A L N T P E t
	ls        lspec
	k         *beh
	dec       int // -1 = nil decoder
	kOk, kErr *beh
}

func parseLSpec(s string) (lspec, bool) {
	var ls lspec
	if strings.HasPrefix(s, "@") {
		ls.abs = true
		s = s[1:]
	}
	parts := strings.Split(s, ":")
	nums := make([]int, len(parts))
	for i, p := range parts {
		n, err := strconv.ParseUint(p, 10, 31)
		if err != nil {
			return ls, false
		}
		nums[i] = int(n)
	}
	if !ls.abs && len(nums) == 6 && nums[5] <= 1 {
		ls.id, ls.ty, ls.a, ls.b, ls.c, ls.fail = nums[0], nums[1], nums[2], nums[3], nums[4], nums[5] == 1
		return ls, true
	}
	if ls.abs && len(nums) == 7 && nums[6] <= 1 {
		ls.id, ls.ty, ls.a, ls.b, ls.c, ls.d, ls.fail = nums[0], nums[1], nums[2], nums[3], nums[4], nums[5], nums[6] == 1
		return ls, true
	}
	return ls, false
}

func parseDecRef(s string) (int, bool) {
	if s == "nil" {
		return -1, true
	}
	n, err := strconv.ParseUint(s, 10, 31)
	return int(n), err == nil
}

// parseBeh parses prefix notation, returns the tree and the unread tokens.
func parseBeh(t []string) (*beh, []string, bool) {
	if len(t) == 0 {
		return nil, nil, false
	}
	switch t[0] {
	case "r0":
		return &beh{kind: 'r'}, t[1:], true
	case "r1":
		return &beh{kind: 'r', err: true}, t[1:], true
	case "px":
		return &beh{kind: 'p'}, t[1:], true
	case "A", "L", "N", "T", "P", "E":
		if len(t) < 2 {
			return nil, nil, false
		}
		ls, ok := parseLSpec(t[1])
		if !ok {
			return nil, nil, false
		}
		k, rest, ok := parseBeh(t[2:])
		if !ok {
			return nil, nil, false
		}
		return &beh{kind: 'a', act: t[0][0], ls: ls, k: k}, rest, true
	case "t":
		k, rest, ok := parseBeh(t[1:])
		if !ok {
			return nil, nil, false
		}
		return &beh{kind: 'a', act: 't', k: k}, rest, true
	case "nr":
		if len(t) < 2 {
			return nil, nil, false
		}
		d, ok := parseDecRef(t[1])
		if !ok {
			return nil, nil, false
		}
		return &beh{kind: 'n', dec: d, kOk: &beh{kind: 'r'}, kErr: &beh{kind: 'r', err: true}}, t[2:], true
	case "ni":
		if len(t) < 2 {
			return nil, nil, false
		}
		d, ok := parseDecRef(t[1])
		if !ok {
			return nil, nil, false
		}
		k, rest, ok := parseBeh(t[2:])
		if !ok {
			return nil, nil, false
		}
		return &beh{kind: 'n', dec: d, kOk: k, kErr: k}, rest, true
	case "n":
		if len(t) < 2 {
			return nil, nil, false
		}
		d, ok := parseDecRef(t[1])
		if !ok {
			return nil, nil, false
		}
		k1, r1, ok := parseBeh(t[2:])
		if !ok {
			return nil, nil, false
		}
		k2, r2, ok := parseBeh(r1)
		if !ok {
			return nil, nil, false
		}
		return &beh{kind: 'n', dec: d, kOk: k1, kErr: k2}, r2, true
	}
	return nil, nil, false
}

// ---------------------------------------------------------------- scripted layers

// sLayer implements Layer and all five special-layer interfaces.
type sLayer struct {
	id       int
	ty       gopacket.LayerType
	contents []byte
	payload  []byte
}

func (l *sLayer) LayerType() gopacket.LayerType { return l.ty }
func (l *sLayer) LayerContents() []byte         { return l.contents }
func (l *sLayer) LayerPayload() []byte          { return l.payload }
func (l *sLayer) LinkFlow() gopacket.Flow       { return gopacket.Flow{} }
func (l *sLayer) NetworkFlow() gopacket.Flow    { return gopacket.Flow{} }
func (l *sLayer) TransportFlow() gopacket.Flow  { return gopacket.Flow{} }
func (l *sLayer) Payload() []byte               { return l.payload }
func (l *sLayer) Error() error                  { return errScripted }

var errScripted = errors.New("scripted error")

type runawayPanic struct{}

const (
	maxInvocations = 4000
	maxDepth       = 400
)

// table is the decoder table of the current case plus the run-time bookkeeping.
type table struct {
	decs        map[int]*beh
	ids         map[gopacket.Layer]int // object identity -> scripted id
	invocations int
	depth       int
	runaway     bool
	sawPanic    bool
	sawErr      bool // some decoder invocation returned an error
}

func newTable() *table {
	return &table{decs: map[int]*beh{}, ids: map[gopacket.Layer]int{}}
}

func (t *table) resetCounters() {
	t.invocations, t.depth, t.runaway, t.sawPanic, t.sawErr = 0, 0, false, false, false
}

type sDec struct {
	t  *table
	id int
}

func (t *table) decoder(id int) gopacket.Decoder {
	if id < 0 {
		return nil
	}
	return &sDec{t, id}
}

func minInt(a, b int) int {
	if a < b {
		return a
	}
	return b
}

type invocation struct {
	t      *table
	data   []byte
	layers map[int]gopacket.Layer
}

func (iv *invocation) layer(ls lspec) gopacket.Layer {
	if l, ok := iv.layers[ls.id]; ok {
		return l
	}
	var l gopacket.Layer
	if ls.fail {
		l = properFailure()
	} else if ls.abs {
		// absolute windows are only used for trace tables on the model side
		l = &sLayer{id: ls.id, ty: gopacket.LayerType(ls.ty)}
	} else {
		n := len(iv.data)
		c := minInt(ls.a, n)
		sk := minInt(ls.b, n)
		pl := minInt(ls.c, n-sk)
		l = &sLayer{id: ls.id, ty: gopacket.LayerType(ls.ty), contents: iv.data[:c], payload: iv.data[sk : sk+pl]}
	}
	iv.layers[ls.id] = l
	iv.t.ids[l] = ls.id
	return l
}

func (d *sDec) Decode(data []byte, p gopacket.PacketBuilder) (err error) {
	t := d.t
	t.invocations++
	t.depth++
	defer func() {
		t.depth--
		if err != nil {
			t.sawErr = true
		}
	}()
	if t.invocations > maxInvocations || t.depth > maxDepth {
		t.runaway = true
		panic(runawayPanic{})
	}
	b := t.decs[d.id]
	if b == nil {
		return nil
	}
	iv := &invocation{t: t, data: data, layers: map[int]gopacket.Layer{}}
	return iv.run(b, p)
}

func (iv *invocation) run(b *beh, p gopacket.PacketBuilder) error {
	for {
		switch b.kind {
		case 'r':
			if b.err {
				return errScripted
			}
			return nil
		case 'p':
			iv.t.sawPanic = true
			panic("scripted panic")
		case 'a':
			switch b.act {
			case 't':
				p.SetTruncated()
			case 'A':
				p.AddLayer(iv.layer(b.ls))
			default:
				l := iv.layer(b.ls)
				sl, ok := l.(*sLayer)
				if b.act == 'E' {
					if ok {
						p.SetErrorLayer(sl)
					} else {
						p.SetErrorLayer(l.(gopacket.ErrorLayer))
					}
				} else if !ok {
					panic(badScript{})
				} else {
					switch b.act {
					case 'L':
						p.SetLinkLayer(sl)
					case 'N':
						p.SetNetworkLayer(sl)
					case 'T':
						p.SetTransportLayer(sl)
					case 'P':
						p.SetApplicationLayer(sl)
					}
				}
			}
			b = b.k
		case 'n':
			var err error
			if b.dec < 0 {
				err = p.NextDecoder(nil)
			} else {
				err = p.NextDecoder(iv.t.decoder(b.dec))
			}
			if err != nil {
				b = b.kErr
			} else {
				b = b.kOk
			}
		}
	}
}

type badScript struct{}

// properFailure returns a well-formed *gopacket.DecodeFailure (empty contents, nil payload, non-nil
// error): the error layer of a throw-away packet whose only decoder fails on empty input.
func properFailure() gopacket.Layer {
	p := gopacket.NewPacket([]byte{}, gopacket.DecodeFunc(func([]byte, gopacket.PacketBuilder) error { return errScripted }), gopacket.NoCopy)
	return p.ErrorLayer()
}

// ---------------------------------------------------------------- discipline D (C03), computed on scripts

// inD reports whether every defined behaviour is in the discipline of Gp.C03.D for inputs of
// length >= 1: builder calls, then ret / panic / `return p.NextDecoder(d)`, the latter preceded by
// an add whose payload is strictly shorter than the input (skip >= 1 for relative layers).
func (t *table) inD() bool {
	for _, b := range t.decs {
		var lastAdd *lspec
		for b.kind == 'a' {
			if b.act == 'A' {
				ls := b.ls
				lastAdd = &ls
			}
			b = b.k
		}
		if b.kind != 'n' {
			continue
		}
		if b.dec < 0 {
			if !(b.kErr.kind == 'r' && b.kErr.err) {
				return false
			}
			continue
		}
		if !(b.kOk.kind == 'r' && !b.kOk.err && b.kErr.kind == 'r' && b.kErr.err) {
			return false
		}
		if lastAdd == nil || lastAdd.abs {
			return false
		}
		if !(lastAdd.fail || lastAdd.b >= 1 || lastAdd.c == 0) {
			return false
		}
	}
	return true
}

func (t *table) usesSetErrOrFail() bool {
	var walk func(b *beh) bool
	walk = func(b *beh) bool {
		switch b.kind {
		case 'a':
			if b.act == 'E' || (b.act != 't' && b.ls.fail) {
				return true
			}
			return walk(b.k)
		case 'n':
			return walk(b.kOk) || walk(b.kErr)
		}
		return false
	}
	for _, b := range t.decs {
		if walk(b) {
			return true
		}
	}
	return false
}
