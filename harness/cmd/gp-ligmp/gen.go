package main

import (
	"fmt"
	"go/ast"
	goparser "go/parser"
	"go/token"
	"net"
	"os"
	"path/filepath"
	"sort"
	"strconv"

	"github.com/gopacket/gopacket"
	"github.com/gopacket/gopacket/layers"
	"verif/harness/lib"
)

// ---------------------------------------------------------------- fixtures

// literals collects every `[]byte{…}` literal (all elements literal) from the repository's own
// layers/*_test.go files.
func literals() [][]byte {
	repo := os.Getenv("VERIF_REPO")
	if repo == "" {
		repo = "/repo"
	}
	files, _ := filepath.Glob(filepath.Join(repo, "layers", "*_test.go"))
	sort.Strings(files)
	var out [][]byte
	fset := token.NewFileSet()
	for _, fn := range files {
		f, err := goparser.ParseFile(fset, fn, nil, 0)
		if err != nil {
			continue
		}
		ast.Inspect(f, func(n ast.Node) bool {
			cl, ok := n.(*ast.CompositeLit)
			if !ok {
				return true
			}
			at, ok := cl.Type.(*ast.ArrayType)
			if !ok || at.Len != nil {
				return true
			}
			id, ok := at.Elt.(*ast.Ident)
			if !ok || (id.Name != "byte" && id.Name != "uint8") {
				return true
			}
			b := make([]byte, 0, len(cl.Elts))
			for _, e := range cl.Elts {
				bl, ok := e.(*ast.BasicLit)
				if !ok {
					return true
				}
				switch bl.Kind {
				case token.INT:
					v, err := strconv.ParseUint(bl.Value, 0, 8)
					if err != nil {
						return true
					}
					b = append(b, byte(v))
				case token.CHAR:
					s, err := strconv.Unquote(bl.Value)
					if err != nil || len(s) != 1 {
						return true
					}
					b = append(b, s[0])
				default:
					return true
				}
			}
			if len(b) >= 2 && len(b) <= 1600 {
				out = append(out, b)
			}
			return true
		})
	}
	return out
}

type fixtures map[string][][]byte

// harvest decodes every test literal of the repository with several first decoders (recovery on) and keeps
// the bytes of every layer of this engine found in them (the input the layer's decoder was given).
func harvest(fx fixtures) {
	seen := map[string]bool{}
	add := func(kind string, b []byte) {
		if len(b) > 400 {
			b = b[:400]
		}
		k := kind + string(b)
		if !seen[k] && len(b) > 0 {
			seen[k] = true
			fx[kind] = append(fx[kind], append([]byte(nil), b...))
		}
	}
	firsts := []gopacket.Decoder{layers.LayerTypeEthernet, layers.LayerTypeIPv4, layers.LayerTypeIPv6, layers.LayerTypeIGMP,
		layers.LayerTypeIPSecAH, layers.LayerTypeIPSecESP, layers.LayerTypeGTPv2, layers.LayerTypeUDP}
	for _, lit := range literals() {
		for _, first := range firsts {
			func() {
				defer func() { recover() }()
				p := gopacket.NewPacket(lit, first, gopacket.DecodeOptions{})
				ls := p.Layers()
				for i, l := range ls {
					k := kindOf(l)
					if k == "" {
						continue
					}
					// the decoder's input = the payload of the previous layer (or the whole literal)
					in := lit
					if i > 0 {
						in = ls[i-1].LayerPayload()
					}
					add(k, in)
				}
			}()
		}
	}
}

func be16(v int) []byte { return []byte{byte(v >> 8), byte(v)} }
func be32(v uint32) []byte {
	return []byte{byte(v >> 24), byte(v >> 16), byte(v >> 8), byte(v)}
}

func cat(bs ...[]byte) []byte {
	var out []byte
	for _, b := range bs {
		out = append(out, b...)
	}
	return out
}

// built fixtures: none of the layers can be serialised by the repository, so the messages are made by hand and
// the inner packets (behind AH) by the repository's own serializers.
func built(r *lib.Rand, fx fixtures) {
	ser := func(ls ...gopacket.SerializableLayer) (out []byte) {
		defer func() {
			if recover() != nil {
				out = nil
			}
		}()
		b := gopacket.NewSerializeBuffer()
		if err := gopacket.SerializeLayers(b, gopacket.SerializeOptions{FixLengths: true, ComputeChecksums: true}, ls...); err != nil {
			return nil
		}
		return append([]byte(nil), b.Bytes()...)
	}
	ip4 := &layers.IPv4{Version: 4, IHL: 5, TTL: 64, Protocol: layers.IPProtocolUDP, SrcIP: net.IP{10, 0, 0, 1}, DstIP: net.IP{10, 0, 0, 2}}
	udp4 := &layers.UDP{SrcPort: 1000, DstPort: 2000}
	udp4.SetNetworkLayerForChecksum(ip4)
	tcp4 := &layers.TCP{SrcPort: 1, DstPort: 2, SYN: true, Window: 100}
	tcp4.SetNetworkLayerForChecksum(ip4)
	udpb := ser(udp4, gopacket.Payload(r.Bytes(5)))
	tcpb := ser(tcp4, gopacket.Payload(r.Bytes(3)))
	v4 := ser(ip4, udp4, gopacket.Payload(r.Bytes(4)))

	// IGMPv1/v2: type, max resp code, checksum, group
	for _, t := range []int{0x11, 0x12, 0x16, 0x17, 0x22, 0x13, 0x00, 0xff} {
		for _, mr := range []int{0, 1, 100, 0x7f, 0x80, 0x81, 0x8f, 0xff} {
			fx["igmp12"] = append(fx["igmp12"], cat([]byte{byte(t), byte(mr)}, r.Bytes(2), []byte{224, 0, 0, byte(r.Intn(256))}))
		}
		fx["igmp12"] = append(fx["igmp12"], cat([]byte{byte(t), 10}, r.Bytes(2), []byte{224, 0, 0, 1}, r.Bytes(1+r.Intn(6)))) // trailing bytes: 9…14
	}
	// IGMPv3 query: …, resv|S|QRV, QQIC, number of sources, sources
	query := func(mr, sqrv, qqic, nsrc, present int) []byte {
		return cat([]byte{0x11, byte(mr)}, r.Bytes(2), []byte{224, 0, 0, 251}, []byte{byte(sqrv), byte(qqic)}, be16(nsrc), r.Bytes(4*present))
	}
	for _, n := range []int{0, 1, 2, 3, 7} {
		fx["igmp3"] = append(fx["igmp3"], query(r.Intn(256), r.Intn(16), r.Intn(256), n, n))
		fx["igmp3"] = append(fx["igmp3"], cat(query(10, 0x0a, 125, n, n), r.Bytes(1+r.Intn(5)))) // trailing bytes
	}
	fx["igmp3"] = append(fx["igmp3"], query(10, 2, 125, 2, 1), query(10, 2, 125, 0xffff, 3), query(10, 2, 125, 1, 0), query(0x8f, 0xf, 0xff, 0x4000, 2))
	// IGMPv3 report: type, reserved, checksum, reserved, number of records, records (type, aux len, nsrc, mcast, sources)
	rec := func(t, aux, nsrc, present int) []byte {
		return cat([]byte{byte(t), byte(aux)}, be16(nsrc), []byte{239, 1, 2, byte(r.Intn(256))}, r.Bytes(4*present))
	}
	report := func(nrec int, recs ...[]byte) []byte {
		return cat([]byte{0x22, byte(r.Intn(256))}, r.Bytes(2), r.Bytes(2), be16(nrec), cat(recs...))
	}
	fx["igmp3"] = append(fx["igmp3"],
		report(0), report(1, rec(1, 0, 0, 0)), report(1, rec(2, 0, 1, 1)), report(2, rec(3, 0, 2, 2), rec(4, 0, 0, 0)),
		report(3, rec(5, 0, 1, 1), rec(6, 0, 3, 3), rec(1, 0, 0, 0)), report(1, rec(1, 1, 1, 1), r.Bytes(4)), // aux data announced (the decoder ignores it)
		report(2, rec(1, 0, 1, 1)),                      // second record missing
		report(1, rec(1, 0, 2, 1)),                      // second source missing
		report(0xffff, rec(1, 0, 0, 0), rec(2, 0, 0, 0)), // count far beyond the bytes
		report(1, rec(1, 0, 0xffff, 2)), report(1, []byte{1, 0, 0}), report(0, r.Bytes(9)), report(1, rec(1, 0, 0, 0), r.Bytes(5)),
		[]byte{0x22, 0, 0, 0, 0, 0, 0}, []byte{0x22}, []byte{0x11}, []byte{0x16, 1, 2, 3})

	// AH: next header, payload len (32-bit words - 2), reserved, SPI, seq, ICV, inner
	ah := func(nh, hl int, icv int, inner []byte) []byte {
		return cat([]byte{byte(nh), byte(hl)}, r.Bytes(2), be32(uint32(r.U64())), be32(uint32(r.U64())), r.Bytes(icv), inner)
	}
	fx["ah"] = append(fx["ah"],
		ah(17, 4, 12, udpb), ah(6, 4, 12, tcpb), ah(4, 1, 0, v4), ah(59, 1, 0, nil), ah(255, 2, 4, r.Bytes(3)), ah(17, 0, 0, udpb), // hl 0: ActualLength 8 < 12
		ah(50, 4, 12, cat(be32(7), be32(9), r.Bytes(11))),                   // AH, then ESP
		ah(51, 1, 0, ah(51, 2, 4, ah(50, 1, 0, cat(be32(1), be32(2))))),     // AH, AH, AH, ESP
		ah(2, 1, 0, []byte{0x16, 0, 1, 2, 224, 0, 0, 9}),                    // AH, then IGMPv2
		ah(2, 1, 0, cat([]byte{0x11, 10, 0, 0, 224, 0, 0, 1, 2, 125}, be16(1), r.Bytes(4))), // AH, then IGMPv3 query
		ah(2, 1, 0, []byte{0x11, 0, 1, 2, 224, 0, 0, 9, 1, 2}),              // AH, then a 10-byte IGMP query (undeterminable)
		ah(17, 255, 12, udpb), ah(17, 5, 12, udpb), ah(17, 3, 12, nil), ah(17, 4, 11, nil))
	// ESP: SPI, seq, data
	for _, n := range []int{0, 1, 7, 8, 40} {
		fx["esp"] = append(fx["esp"], cat(be32(uint32(r.U64())), be32(uint32(r.U64())), r.Bytes(n)))
	}
	fx["esp"] = append(fx["esp"], r.Bytes(7), r.Bytes(4))

	// GTPv2: flags (version, P, T, MP), type, length, [TEID], seq(3), spare, IEs (type, length, spare/instance, content)
	ie := func(t, n int) []byte { return cat([]byte{byte(t)}, be16(n), []byte{byte(r.Intn(16))}, r.Bytes(n)) }
	gtp := func(flags, mt int, teid bool, mlDelta int, ies ...[]byte) []byte {
		body := cat(r.Bytes(3), []byte{byte(r.Intn(256))}, cat(ies...))
		if teid {
			body = cat(be32(uint32(r.U64())), body)
		}
		ml := len(body) + mlDelta
		if ml < 0 {
			ml = 0
		}
		return cat([]byte{byte(flags), byte(mt)}, be16(ml), body)
	}
	fx["gtp2"] = append(fx["gtp2"],
		gtp(0x48, 32, true, 0, ie(1, 8), ie(82, 1), ie(93, 0)), gtp(0x40, 1, false, 0), gtp(0x40, 2, false, 0, ie(3, 1)),
		gtp(0x48, 33, true, 0), gtp(0x58, 34, true, 0, ie(1, 5), ie(2, 0), ie(3, 17), ie(4, 2)), gtp(0x4c, 35, true, 0, ie(255, 3)),
		gtp(0x48, 32, true, 1, ie(1, 8)),      // message length one beyond the bytes
		gtp(0x48, 32, true, -5, ie(1, 8)),     // message length short: the IE loop runs over len(data) anyway
		gtp(0x40, 1, false, 0, []byte{1, 0}),  // IE header cut
		gtp(0x40, 1, false, 0, []byte{1, 0, 9, 0, 1, 2}), // IE longer than the packet
		gtp(0x40, 1, false, 0, []byte{1, 0xff, 0xff, 0}), gtp(0x48, 1, false, 0), // T flag without TEID bytes
		cat([]byte{0x48, 1}, be16(65535), r.Bytes(8)), cat([]byte{0x40, 1}, be16(0xfffc), r.Bytes(4)), []byte{0x48, 1, 0, 0}, []byte{0x40, 1, 0, 0},
		[]byte{0x48, 1, 0, 4, 1, 2, 3, 4}, []byte{0x40, 1, 0, 3, 1, 2, 3}, []byte{0x40, 1, 0, 4, 1, 2, 3, 4})
}

func hx(b []byte) string { return lib.Hex(b) }

func setByte(b []byte, off int, v int) []byte {
	c := append([]byte(nil), b...)
	if off < len(c) {
		c[off] = byte(v)
	}
	return c
}

func fnKindOf(k string) string {
	if k == "igmp12" || k == "igmp3" {
		return "igmp"
	}
	return k
}

// ---------------------------------------------------------------- generator

func gen(r *lib.Rand, tier string, emit func(string)) {
	thorough := tier == "thorough"
	emit("reset")
	emit("ligmp iptab")
	emit("ligmp time")

	fx := fixtures{}
	built(r, fx)
	harvest(fx)
	for _, k := range decKinds {
		fs := fx[k]
		if len(fs) == 0 {
			fs = [][]byte{r.Bytes(24)}
		}
		for i := len(fs) - 1; i > 0; i-- { // seeded shuffle: different seeds favour different fixtures
			j := r.Intn(i + 1)
			fs[i], fs[j] = fs[j], fs[i]
		}
		fx[k] = fs
	}
	foreignOf := func(n int) []byte { return r.Bytes(n) }
	lim := func(n, quick int) int {
		if !thorough && n > quick {
			return quick
		}
		return n
	}
	modes := []string{"copy", "nocopy", "lazy", "pool"}
	variants := []string{"v3", "v12"}

	// A. every fixture through every decode path
	for _, k := range decKinds {
		fs := fx[k]
		fk := fnKindOf(k)
		for i := 0; i < lim(len(fs), 80); i++ {
			f := fs[i]
			emit("reset")
			emit(fmt.Sprintf("ligmp dec %s 0 - %s", k, hx(f)))
			n := 1 + r.Intn(40)
			emit(fmt.Sprintf("ligmp dec %s %d %s %s", k, n, hx(foreignOf(n)), hx(f)))
			emit(fmt.Sprintf("ligmp fn %s %d %s %s", fk, n, hx(foreignOf(n)), hx(f)))
			emit(fmt.Sprintf("ligmp fn %s 0 - %s", fk, hx(f)))
			for _, m := range modes {
				if m == "nocopy" {
					emit(fmt.Sprintf("ligmp pkt %s nocopy %d %s %s", fk, n, hx(foreignOf(n)), hx(f)))
				} else {
					emit(fmt.Sprintf("ligmp pkt %s %s 0 - %s", fk, m, hx(f)))
				}
			}
			for _, v := range variants {
				emit(fmt.Sprintf("ligmp dlp %s %s %s", v, fk, hx(f)))
			}
			emit(fmt.Sprintf("ligmp redec %s %s", k, hx(f)))
			// the same bytes as every other type of this engine
			for _, k2 := range decKinds {
				if k2 != k {
					emit(fmt.Sprintf("ligmp dec %s %d %s %s", k2, n, hx(foreignOf(n)), hx(f)))
					if r.Chance(25) {
						emit(fmt.Sprintf("ligmp pkt %s nocopy %d %s %s", fnKindOf(k2), n, hx(foreignOf(n)), hx(f)))
						emit(fmt.Sprintf("ligmp redlp %s %s %s", variants[r.Intn(2)], fnKindOf(k2), hx(f)))
					}
				}
			}
		}
	}

	// B. truncations 0…len of each fixture, with spare capacity holding the REAL continuation of the fixture
	// (what NoCopy / an inner layer would have behind the input)
	for _, k := range decKinds {
		fs := fx[k]
		fk := fnKindOf(k)
		for i := 0; i < lim(len(fs), 50); i++ {
			f := fs[i]
			emit("reset")
			for n := 0; n <= len(f); n++ {
				if !(n <= 64 || n >= len(f)-2 || (thorough && len(f) <= 600) || r.Chance(3)) {
					continue
				}
				t := f[:n]
				rest := f[n:]
				if len(rest) > 24 {
					rest = rest[:24]
				}
				if r.Chance(30) {
					rest = foreignOf(r.Intn(12))
				}
				emit(fmt.Sprintf("ligmp dec %s %d %s %s", k, len(rest), hx(rest), hx(t)))
				if n <= 24 || r.Chance(25) {
					emit(fmt.Sprintf("ligmp fn %s %d %s %s", fk, len(rest), hx(rest), hx(t)))
					emit(fmt.Sprintf("ligmp pkt %s nocopy %d %s %s", fk, len(rest), hx(rest), hx(t)))
					emit(fmt.Sprintf("ligmp redlp %s %s %s", variants[r.Intn(2)], fk, hx(t)))
					emit(fmt.Sprintf("ligmp redec %s %s", k, hx(t)))
				}
			}
		}
	}

	// C. single-field mutations to boundary values: every one of the first 16 bytes (the count / length fields
	// of all five formats live there) set to boundary values
	bvals := []int{0, 1, 2, 3, 4, 7, 8, 0x0f, 0x10, 0x11, 0x12, 0x16, 0x17, 0x22, 0x3f, 0x40, 0x48, 0x7f, 0x80, 0x81, 0xfe, 0xff}
	for _, k := range decKinds {
		fs := fx[k]
		fk := fnKindOf(k)
		for i := 0; i < lim(len(fs), 14); i++ {
			f := fs[i]
			emit("reset")
			for off := 0; off < 16 && off < len(f); off++ {
				for _, v := range bvals {
					if !thorough && !r.Chance(35) {
						continue
					}
					m := setByte(f, off, v)
					c := r.Pick([]int{0, 0, 5, 40})
					emit(fmt.Sprintf("ligmp dec %s %d %s %s", k, c, hx(foreignOf(c)), hx(m)))
					emit(fmt.Sprintf("ligmp redec %s %s", k, hx(m)))
					if r.Chance(20) {
						emit(fmt.Sprintf("ligmp fn %s %d %s %s", fk, c, hx(foreignOf(c)), hx(m)))
						emit(fmt.Sprintf("ligmp redlp %s %s %s", variants[r.Intn(2)], fk, hx(m)))
						emit(fmt.Sprintf("ligmp pkt %s %s 0 - %s", fk, modes[r.Intn(4)], hx(m)))
					}
				}
			}
		}
	}
	// IGMPv3 counts against the bytes present: number of sources / records / sources per record around the
	// value that fits, exhaustively for small messages
	{
		emit("reset")
		for nsrc := 0; nsrc <= 5; nsrc++ {
			for present := 0; present <= 4*5+1; present += 1 {
				if !thorough && !(present%4 == 0 || present%4 == 3 || r.Chance(20)) {
					continue
				}
				m := cat([]byte{0x11, 10, 0, 0, 224, 0, 0, 1, 0x0a, 125}, be16(nsrc), r.Bytes(present))
				c := r.Pick([]int{0, 8, 30})
				emit(fmt.Sprintf("ligmp dec igmp3 %d %s %s", c, hx(foreignOf(c)), hx(m)))
				emit("ligmp redec igmp3 " + hx(m))
			}
		}
		for nrec := 0; nrec <= 3; nrec++ {
			for ns := 0; ns <= 2; ns++ {
				var body []byte
				for j := 0; j < 3; j++ {
					body = cat(body, []byte{byte(1 + j), 0}, be16(ns), []byte{239, 0, 0, byte(j)}, r.Bytes(4*ns))
				}
				for present := 0; present <= len(body); present++ {
					if !thorough && !(present%4 == 0 || r.Chance(15)) {
						continue
					}
					m := cat([]byte{0x22, 0, 0, 0, 0, 0}, be16(nrec), body[:present])
					c := r.Pick([]int{0, 8, 30})
					emit(fmt.Sprintf("ligmp dec igmp3 %d %s %s", c, hx(foreignOf(c)), hx(m)))
					emit("ligmp redec igmp3 " + hx(m))
					if r.Chance(10) {
						emit(fmt.Sprintf("ligmp pkt igmp nocopy %d %s %s", c, hx(foreignOf(c)), hx(m)))
					}
				}
			}
		}
	}
	// AH: every value of the length byte against several input lengths
	{
		emit("reset")
		base := cat([]byte{17, 0}, r.Bytes(90))
		for hl := 0; hl < 256; hl++ {
			if !thorough && !(hl <= 12 || hl >= 250 || r.Chance(8)) {
				continue
			}
			al := (hl + 2) * 4
			for _, n := range []int{11, 12, al - 1, al, al + 1, al + 9} {
				if n < 0 || n > len(base) {
					continue
				}
				m := setByte(base[:n], 1, hl)
				c := r.Pick([]int{0, 4, 64})
				emit(fmt.Sprintf("ligmp dec ah %d %s %s", c, hx(foreignOf(c)), hx(m)))
				if r.Chance(30) {
					emit("ligmp redec ah " + hx(m))
					emit(fmt.Sprintf("ligmp pkt ah nocopy %d %s %s", c, hx(foreignOf(c)), hx(m)))
				}
			}
		}
		// every next-header value
		for nh := 0; nh < 256; nh++ {
			if !thorough && !r.Chance(25) {
				continue
			}
			m := cat([]byte{byte(nh), 1}, r.Bytes(10), r.Bytes(r.Intn(30)))
			emit("ligmp redec ah " + hx(m))
			emit("ligmp fn ah 0 - " + hx(m))
			if r.Chance(40) {
				emit(fmt.Sprintf("ligmp redlp %s ah %s", variants[r.Intn(2)], hx(m)))
			}
		}
	}
	// GTPv2: IE lengths around the bytes present, message length around the bytes present, flag bits
	{
		emit("reset")
		for _, teid := range []bool{false, true} {
			hdr := 8
			fl := 0x40
			if teid {
				hdr, fl = 12, 0x48
			}
			for nbody := 0; nbody <= 12; nbody++ {
				for _, il := range []int{0, 1, nbody - 5, nbody - 4, nbody - 3, 255, 256, 0xffff} {
					if il < 0 || (!thorough && !r.Chance(60)) {
						continue
					}
					body := r.Bytes(nbody)
					if nbody >= 3 {
						body[1], body[2] = byte(il>>8), byte(il)
					}
					for _, ml := range []int{hdr - 4 + nbody, hdr - 4 + nbody + 1, 0, 0xffff} {
						m := cat([]byte{byte(fl), 1}, be16(ml), r.Bytes(hdr-4), body)
						c := r.Pick([]int{0, 6, 300})
						emit(fmt.Sprintf("ligmp dec gtp2 %d %s %s", c, hx(foreignOf(c)), hx(m)))
						if r.Chance(25) {
							emit("ligmp redec gtp2 " + hx(m))
							emit(fmt.Sprintf("ligmp pkt gtp2 nocopy %d %s %s", c, hx(foreignOf(c)), hx(m)))
						}
					}
				}
			}
		}
		for v := 0; v < 256; v++ {
			if !thorough && !r.Chance(30) {
				continue
			}
			m := cat([]byte{byte(v), 1}, be16(12), r.Bytes(8), []byte{7, 0, 0, 0})
			emit("ligmp redec gtp2 " + hx(m))
		}
	}

	// D. stale-state sequences: ordered pairs…quintuples into the same objects (direct and via the parser)
	nseq := 250
	if thorough {
		nseq = 5000
	}
	pick := func(k string) []byte {
		fs := fx[k]
		f := fs[r.Intn(len(fs))]
		switch r.Intn(9) {
		case 0:
			return f[:r.Intn(len(f)+1)] // truncated (maybe an error)
		case 1:
			return setByte(f, r.Intn(12), r.Pick(bvals))
		case 2:
			return f[:r.Intn(2)] // always an error
		case 3:
			return r.Bytes(r.Intn(40))
		}
		return f
	}
	for c := 0; c < nseq; c++ {
		emit("reset")
		n := 2 + r.Intn(4)
		k := decKinds[r.Intn(5)]
		for i := 0; i < n; i++ {
			if r.Chance(25) {
				k = decKinds[r.Intn(5)]
			}
			f := pick(k)
			if len(f) > 400 {
				f = f[:400]
			}
			emit(fmt.Sprintf("ligmp redec %s %s", k, hx(f)))
			v := "v3"
			if k == "igmp12" || (k != "igmp3" && r.Bool()) {
				v = "v12"
			}
			emit(fmt.Sprintf("ligmp redlp %s %s %s", v, fnKindOf(k), hx(f)))
		}
	}

	// E. GTPv2 inputs of 64 KiB and more (offset arithmetic): decoded in a child process
	{
		emit("reset")
		emit("ligmp gtp2big 70000 0:40,8:01fde8,65012:021378")          // two IEs, the second one beyond offset 65535
		emit("ligmp gtp2big 131071 0:40,8:01ffff,65547:02fff0")        // IE at 8 with length 65535: 12+65535 wraps in uint16
		emit("ligmp gtp2big 131071 0:40,8:01fff0,65532:02fffc")        // IE header at 65532 with length 65532: 4+65532 = 0 mod 2^16
		emit("ligmp gtp2big 65536 0:48,2:fffc,12:01fff0")              // message length 0xfffc fits exactly
		emit("ligmp gtp2big 65544 0:40,2:ffff,8:07fffc")               // message length 0xffff: 4+0xffff wraps in uint16
		l1 := 60000 + r.Intn(5536)
		n := l1 + 16 + r.Intn(50000)
		emit(fmt.Sprintf("ligmp gtp2big %d 0:40,8:01%04x,%d:02%04x", n, l1, 12+l1, n-16-l1))
		emit(fmt.Sprintf("ligmp gtp2big %d 0:40,8:01%04x,%d:02%04x", n, l1, 12+l1, n-15-l1)) // one byte too long
	}

	// G. malformed stream: random bytes of every small length, as every type
	nmal := 300
	if thorough {
		nmal = 10000
	}
	for c := 0; c < nmal; c++ {
		emit("reset")
		n := r.Intn(48)
		if r.Chance(10) {
			n = r.Intn(700)
		}
		d := r.Bytes(n)
		if n >= 1 && r.Chance(60) {
			d[0] = byte(r.Pick([]int{0x11, 0x12, 0x16, 0x17, 0x22, 0x40, 0x48, 51, 50}))
		}
		if n >= 2 && r.Chance(50) {
			d[1] = byte(r.Intn(8))
		}
		if n >= 12 && r.Chance(50) { // plausible counts
			d[6], d[7], d[10], d[11] = 0, byte(r.Intn(4)), 0, byte(r.Intn(4))
		}
		sp := r.Intn(20)
		for _, k := range decKinds {
			emit(fmt.Sprintf("ligmp dec %s %d %s %s", k, sp, hx(foreignOf(sp)), hx(d)))
			if r.Chance(30) {
				emit(fmt.Sprintf("ligmp dlp %s %s %s", variants[r.Intn(2)], fnKindOf(k), hx(d)))
				emit(fmt.Sprintf("ligmp pkt %s %s %d %s %s", fnKindOf(k), modes[r.Intn(4)], 0, "-", hx(d)))
				emit(fmt.Sprintf("ligmp fn %s %d %s %s", fnKindOf(k), sp, hx(foreignOf(sp)), hx(d)))
			}
		}
	}
	// unparseable ops: both sides answer bad-op
	emit("reset")
	emit("ligmp dec igmp12 x - 00")
	emit("ligmp dec fddi 0 - 00")
	emit("ligmp dec ah 2 00 00")
	emit("ligmp redec igmp 00")
	emit("ligmp fn igmp3 0 - 00")
	emit("ligmp dlp v4 ah 00")
	emit("ligmp dlp v3 igmp3 00")
	emit("ligmp pkt ah weird 0 - 00")
	emit("ligmp gtp2big 10 20:00")
	emit("ligmp gtp2big 300000 -")
	emit("ligmp nonsense")
}
