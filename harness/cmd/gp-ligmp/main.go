// gp-ligmp: correspondence adapter + monitors for engine `ligmp`
// (layers/igmp.go: IGMPv1or2 / IGMP (v3) DecodeFromBytes, decodeIGMP; layers/ipsec.go: IPSecAH / IPSecESP
// DecodeFromBytes, decodeIPSecAH / decodeIPSecESP; layers/gtp2.go: GTPv2.DecodeFromBytes, decodeGTPv2; and the
// DecodingLayerParser over these layers).
//
// None of these layers has a SerializeTo method or a flow accessor: there is nothing to drive for C06 / C07 /
// C17.  Properties served: C19 (no panics, no runaway loops), C05 (no stale state / capacity independence /
// packet path = preallocated path).
package main

import (
	"bufio"
	"errors"
	"fmt"
	"os"
	"os/exec"
	"runtime"
	"runtime/debug"
	"strconv"
	"strings"
	"time"

	"github.com/gopacket/gopacket"
	"github.com/gopacket/gopacket/layers"
	"verif/harness/lib"
)

// ---------------------------------------------------------------- state of one case

type dlayer interface {
	gopacket.DecodingLayer
	gopacket.Layer
}

var (
	cur     map[string]dlayer // objects re-used by `redec`
	pIgmp3  *layers.IGMP      // objects owned by the DecodingLayerParsers
	pIgmp12 *layers.IGMPv1or2
	pAh     *layers.IPSecAH
	pEsp    *layers.IPSecESP
	pGtp    *layers.GTPv2
	parsers map[string]*gopacket.DecodingLayerParser // variant + "/" + first
)

var decKinds = []string{"igmp12", "igmp3", "ah", "esp", "gtp2"}
var fnKinds = []string{"igmp", "ah", "esp", "gtp2"}

func newObj(kind string) dlayer {
	switch kind {
	case "igmp12":
		return &layers.IGMPv1or2{}
	case "igmp3":
		return &layers.IGMP{}
	case "ah":
		return &layers.IPSecAH{}
	case "esp":
		return &layers.IPSecESP{}
	case "gtp2":
		return &layers.GTPv2{}
	}
	return nil
}

func fnLayerType(kind string) (gopacket.LayerType, bool) {
	switch kind {
	case "igmp", "igmp12", "igmp3":
		return layers.LayerTypeIGMP, true
	case "ah":
		return layers.LayerTypeIPSecAH, true
	case "esp":
		return layers.LayerTypeIPSecESP, true
	case "gtp2":
		return layers.LayerTypeGTPv2, true
	}
	return 0, false
}

func kindOf(l gopacket.Layer) string {
	switch l.(type) {
	case *layers.IGMPv1or2:
		return "igmp12"
	case *layers.IGMP:
		return "igmp3"
	case *layers.IPSecAH:
		return "ah"
	case *layers.IPSecESP:
		return "esp"
	case *layers.GTPv2:
		return "gtp2"
	}
	return ""
}

func reset() {
	cur = map[string]dlayer{}
	for _, k := range decKinds {
		cur[k] = newObj(k)
	}
	newParser()
}

func newParser() {
	pIgmp3, pIgmp12, pAh, pEsp, pGtp = &layers.IGMP{}, &layers.IGMPv1or2{}, &layers.IPSecAH{}, &layers.IPSecESP{}, &layers.GTPv2{}
	parsers = map[string]*gopacket.DecodingLayerParser{}
	for _, variant := range []string{"v3", "v12"} {
		for _, k := range fnKinds {
			lt, _ := fnLayerType(k)
			var ig gopacket.DecodingLayer = pIgmp3
			if variant == "v12" {
				ig = pIgmp12
			}
			p := gopacket.NewDecodingLayerParser(lt, ig, pAh, pEsp, pGtp)
			p.IgnorePanic = true // let panics through (C19: "a layer parser that lets panics through")
			parsers[variant+"/"+k] = p
		}
	}
}

type feedback struct{ truncated bool }

func (f *feedback) SetTruncated() { f.truncated = true }

func b01(b bool) string {
	if b {
		return "1"
	}
	return "0"
}

func listOr(xs []string, sep string) string {
	if len(xs) == 0 {
		return "-"
	}
	return strings.Join(xs, sep)
}

func render(l gopacket.Layer) string {
	switch l := l.(type) {
	case *layers.IGMPv1or2:
		return fmt.Sprintf("type=%d mrt=%d ck=%d group=%s ver=%d contents=%s payload=%s", uint8(l.Type), int64(l.MaxResponseTime),
			l.Checksum, lib.Hex(l.GroupAddress), l.Version, lib.Hex(l.Contents), lib.Hex(l.Payload))
	case *layers.IGMP:
		var srcs, recs []string
		for _, s := range l.SourceAddresses {
			srcs = append(srcs, lib.Hex(s))
		}
		for _, g := range l.GroupRecords {
			var ss []string
			for _, s := range g.SourceAddresses {
				ss = append(ss, lib.Hex(s))
			}
			recs = append(recs, fmt.Sprintf("%d/%d/%d/%s/%s/%d", uint8(g.Type), g.AuxDataLen, g.NumberOfSources, lib.Hex(g.MulticastAddress), listOr(ss, ";"), g.AuxData))
		}
		return fmt.Sprintf("type=%d mrt=%d ck=%d group=%s s=%s qrv=%d qqi=%d nsrc=%d srcs=%s nrec=%d recs=%s ver=%d contents=%s payload=%s",
			uint8(l.Type), int64(l.MaxResponseTime), l.Checksum, lib.Hex(l.GroupAddress), b01(l.SupressRouterProcessing), l.RobustnessValue,
			int64(l.IntervalTime), l.NumberOfSources, listOr(srcs, ","), l.NumberOfGroupRecords, listOr(recs, ","), l.Version,
			lib.Hex(l.Contents), lib.Hex(l.Payload))
	case *layers.IPSecAH:
		return fmt.Sprintf("nh=%d hl=%d al=%d res=%d spi=%d seq=%d auth=%s contents=%s payload=%s next=%d", uint8(l.NextHeader), l.HeaderLength,
			l.ActualLength, l.Reserved, l.SPI, l.Seq, lib.Hex(l.AuthenticationData), lib.Hex(l.Contents), lib.Hex(l.Payload), int(l.NextLayerType()))
	case *layers.IPSecESP:
		return fmt.Sprintf("spi=%d seq=%d enc=%s contents=%s payload=%s", l.SPI, l.Seq, lib.Hex(l.Encrypted), lib.Hex(l.Contents), lib.Hex(l.Payload))
	case *layers.GTPv2:
		var ies []string
		for _, e := range l.IEs {
			ies = append(ies, fmt.Sprintf("%d:%s", e.Type, lib.Hex(e.Content)))
		}
		return fmt.Sprintf("ver=%d p=%s t=%s prio=%d mt=%d ml=%d teid=%d seq=%d spare=%d ies=%s contents=%s payload=%s", l.Version,
			b01(l.PiggybackingFlag), b01(l.TEIDflag), l.MessagePriority, l.MessageType, l.MessageLength, l.TEID, l.SequenceNumber, l.Spare,
			listOr(ies, ","), lib.Hex(l.Contents), lib.Hex(l.Payload))
	}
	return "?"
}

func renderGtpBig(l *layers.GTPv2) string {
	var ies []string
	for i, e := range l.IEs {
		if i < 6 {
			ies = append(ies, fmt.Sprintf("%d:%d", e.Type, len(e.Content)))
		}
	}
	return fmt.Sprintf("ver=%d t=%s mt=%d ml=%d teid=%d seq=%d spare=%d nies=%d ies=%s contents=%d payload=%d", l.Version, b01(l.TEIDflag), l.MessageType,
		l.MessageLength, l.TEID, l.SequenceNumber, l.Spare, len(l.IEs), listOr(ies, ","), len(l.Contents), len(l.Payload))
}

func renderAny(l gopacket.Layer) string { return kindOf(l) + " " + render(l) }

// differingField names the first rendered field (key of a `key=value` token; incl. contents/payload) in which
// two layers differ ("" when none, "type" when the structs differ).
func differingField(a, b gopacket.Layer) string {
	if kindOf(a) != kindOf(b) {
		return "type"
	}
	ta, tb := strings.Fields(render(a)), strings.Fields(render(b))
	for i := range ta {
		if i >= len(tb) || ta[i] != tb[i] {
			return strings.SplitN(ta[i], "=", 2)[0]
		}
	}
	return ""
}

// inBuf places data at the start of a backing array with `len(foreign)` spare bytes of capacity holding
// the foreign bytes, and returns the slice data[:len] with cap = len + len(foreign).
func inBuf(data, foreign []byte) []byte {
	back := make([]byte, len(data)+len(foreign))
	copy(back, data)
	copy(back[len(data):], foreign)
	return back[:len(data)]
}

func exact(data []byte) []byte { // cap == len
	c := make([]byte, len(data))
	copy(c, data)
	return c[:len(data):len(data)]
}

func isOurSite(site string) bool {
	for _, f := range []string{"layers/igmp.go", "layers/ipsec.go", "layers/gtp2.go", "layers/base.go"} {
		if strings.HasPrefix(site, f) {
			return true
		}
	}
	return false
}

var lastSite, lastMsg string

func protect(f func() string) (reply string, panicked bool) {
	defer func() {
		if v := recover(); v != nil {
			lastMsg = fmt.Sprint(v)
			lastSite = siteOf(string(debug.Stack()))
			reply = "panic " + lib.PanicKind(v)
			panicked = true
		}
	}()
	return f(), false
}

// siteOf: the top-most stack frame inside the repository under test (which may be a scratch tree).
func siteOf(stack string) string {
	root := os.Getenv("VERIF_REPO")
	if root == "" {
		root = "/repo"
	}
	root = strings.TrimRight(root, "/") + "/"
	for _, l := range strings.Split(stack, "\n") {
		l = strings.TrimSpace(l)
		if !strings.Contains(l, ".go:") {
			continue
		}
		f := strings.Fields(l)[0]
		if strings.HasPrefix(f, root) {
			return f[len(root):]
		}
		if j := strings.LastIndex(f, "gopacket/"); j >= 0 && !strings.Contains(f, "/verif/") {
			return f[j+len("gopacket/"):]
		}
	}
	return "?"
}

// guarded runs f; a panic is reported as a C19 finding with its site and returned as "panic <kind>".
func guarded(what string, f func() string) string {
	reply, panicked := protect(f)
	if panicked {
		lib.Finding("C19", "ligmp:panic:"+lastSite, what+" panicked: "+lastMsg)
		lib.Stat("panic")
	}
	return reply
}

// ---------------------------------------------------------------- DecodeFromBytes ops

func decInto(obj dlayer, data []byte) (string, error, bool) {
	fb := &feedback{}
	err := obj.DecodeFromBytes(data, fb)
	if err != nil {
		return "err trunc=" + b01(fb.truncated) + " | " + render(obj), err, fb.truncated
	}
	return "ok " + render(obj) + " trunc=" + b01(fb.truncated), nil, fb.truncated
}

func statDec(kind string, obj gopacket.Layer, err error) {
	if err != nil {
		lib.Stat(kind + ":dec:err")
		return
	}
	lib.Stat(kind + ":dec:ok")
	lib.Nontrivial()
	switch l := obj.(type) {
	case *layers.IGMPv1or2:
		switch l.Type {
		case 0x11, 0x12, 0x16, 0x17, 0x22:
			lib.Stat(fmt.Sprintf("igmp12:dec:type=%#x:ver=%d", uint8(l.Type), l.Version))
		default:
			lib.Stat(fmt.Sprintf("igmp12:dec:type=other:ver=%d", l.Version))
		}
	case *layers.IGMP:
		if l.Type == layers.IGMPMembershipQuery {
			lib.Stat(fmt.Sprintf("igmp3:dec:query:srcs=%d", min(len(l.SourceAddresses), 4)))
		} else {
			ns := 0
			for _, g := range l.GroupRecords {
				ns += len(g.SourceAddresses)
			}
			lib.Stat(fmt.Sprintf("igmp3:dec:report:recs=%d", min(len(l.GroupRecords), 4)))
			lib.Stat(fmt.Sprintf("igmp3:dec:report:srcs=%d", min(ns, 4)))
		}
	case *layers.IPSecAH:
		lib.Stat(fmt.Sprintf("ah:dec:hl=%d", min(int(l.HeaderLength), 8)))
		if l.NextLayerType() != gopacket.LayerTypeZero {
			lib.Stat("ah:dec:known-next")
		}
	case *layers.IPSecESP:
		if len(l.Encrypted) > 0 {
			lib.Stat("esp:dec:with-data")
		}
	case *layers.GTPv2:
		lib.Stat(fmt.Sprintf("gtp2:dec:teid=%s:ies=%d", b01(l.TEIDflag), min(len(l.IEs), 4)))
	}
}

func opDec(kind string, extra int, foreign, data []byte) string {
	if newObj(kind) == nil {
		return "bad-op"
	}
	return guarded(kind+".DecodeFromBytes", func() string {
		obj := newObj(kind)
		cur[kind] = obj
		reply, err, _ := decInto(obj, inBuf(data, foreign))
		statDec(kind, obj, err)
		lt, _ := fnLayerType(kind)
		if got := obj.CanDecode(); got != gopacket.LayerClass(lt) {
			lib.Finding("C05", "ligmp:candecode:"+kind, "CanDecode is not the layer's own type")
		}
		// C05/C04 oracle: the same bytes in a buffer with cap == len
		ref := newObj(kind)
		refReply, _, _ := decInto(ref, exact(data))
		if reply != refReply {
			lib.Finding("C05", "ligmp:cap-dependent", kind+" decode depends on spare capacity / foreign bytes: "+reply+" vs "+refReply)
		}
		if extra > 0 {
			lib.Stat(kind + ":dec:spare-cap")
		}
		return reply
	})
}

func opRedec(kind string, data []byte) string {
	if newObj(kind) == nil {
		return "bad-op"
	}
	return guarded(kind+".DecodeFromBytes", func() string {
		obj := cur[kind]
		reply, err, tr := decInto(obj, exact(data))
		statDec(kind, obj, err)
		lib.Stat(kind + ":redec")
		fresh := newObj(kind)
		fb := &feedback{}
		ferr := fresh.DecodeFromBytes(exact(data), fb)
		if (ferr != nil) != (err != nil) {
			lib.Finding("C05", "ligmp:stale:error", kind+": reused object and fresh object disagree on the error")
		} else {
			if err == nil {
				if f := differingField(obj, fresh); f != "" {
					lib.Finding("C05", "ligmp:stale:"+kind+"."+f, kind+"."+f+" differs between a reused and a fresh object: "+render(obj)+" vs "+render(fresh))
				}
			}
			if fb.truncated != tr {
				lib.Finding("C05", "ligmp:stale:Truncated", kind+": truncation flag differs between a reused and a fresh object")
			}
		}
		return reply
	})
}

// ---------------------------------------------------------------- tracing PacketBuilder (does not recurse)

type tracer struct {
	acts  []string
	tail  string
	added gopacket.Layer
}

func (t *tracer) SetTruncated() { t.acts = append(t.acts, "trunc") }
func (t *tracer) AddLayer(l gopacket.Layer) {
	t.acts = append(t.acts, fmt.Sprintf("add:%d", int(l.LayerType())))
	t.added = l
}
func (t *tracer) SetLinkLayer(gopacket.LinkLayer)               { t.acts = append(t.acts, "link") }
func (t *tracer) SetNetworkLayer(gopacket.NetworkLayer)         { t.acts = append(t.acts, "net") }
func (t *tracer) SetTransportLayer(gopacket.TransportLayer)     { t.acts = append(t.acts, "transport") }
func (t *tracer) SetApplicationLayer(gopacket.ApplicationLayer) { t.acts = append(t.acts, "app") }
func (t *tracer) SetErrorLayer(gopacket.ErrorLayer)             { t.acts = append(t.acts, "errlayer") }
func (t *tracer) DumpPacketData()                               {}
func (t *tracer) DecodeOptions() *gopacket.DecodeOptions        { return &gopacket.DecodeOptions{} }
func (t *tracer) NextDecoder(next gopacket.Decoder) error {
	switch d := next.(type) {
	case gopacket.LayerType:
		t.tail = fmt.Sprintf("lt:%d", int(d))
	case nil:
		t.tail = "nil"
	default:
		t.tail = "other"
	}
	return nil
}

func (t *tracer) render(err error) string {
	tail := t.tail
	if err != nil {
		tail = "fail"
	} else if tail == "" {
		tail = "done"
	}
	s := "acts=" + listOr(t.acts, ",") + " tail=" + tail
	if t.added != nil {
		if kindOf(t.added) == "igmp12" || kindOf(t.added) == "igmp3" {
			s += " | " + renderAny(t.added)
		} else {
			s += " | " + render(t.added)
		}
	}
	return s
}

func decodeWith(lt gopacket.LayerType, in []byte) (*tracer, error) {
	t := &tracer{}
	err := lt.Decode(in, t)
	return t, err
}

// igmpChoice: which struct decodeIGMP is documented to choose (independent oracle from the RFC rules quoted in
// its comment): "" = neither.
func igmpChoice(data []byte) string {
	if len(data) < 1 {
		return ""
	}
	switch data[0] {
	case 0x11:
		if len(data) >= 12 {
			return "igmp3"
		}
		if len(data) == 8 {
			return "igmp12"
		}
		return ""
	case 0x22:
		return "igmp3"
	case 0x12, 0x16, 0x17:
		return "igmp12"
	}
	return ""
}

func directKind(kind string, data []byte) string {
	if kind == "igmp" {
		return igmpChoice(data)
	}
	return kind
}

// opFn: the decoder function registered for the kind's LayerType, on a tracing builder.
func opFn(kind string, extra int, foreign, data []byte) string {
	lt, ok := fnLayerType(kind)
	if !ok || kind == "igmp12" || kind == "igmp3" {
		return "bad-op"
	}
	return guarded("decoder function of "+kind, func() string {
		t, err := decodeWith(lt, inBuf(data, foreign))
		reply := t.render(err)
		if t.added != nil {
			lib.Nontrivial()
			lib.Stat("fn:" + kind + ":added:" + kindOf(t.added))
		} else {
			lib.Stat("fn:" + kind + ":fail")
		}
		if extra > 0 {
			lib.Stat("fn:" + kind + ":spare-cap")
		}
		t2, err2 := decodeWith(lt, exact(data))
		if ref := t2.render(err2); ref != reply {
			lib.Finding("C05", "ligmp:cap-dependent", kind+": decoder function depends on spare capacity / foreign bytes: "+reply+" vs "+ref)
		}
		// C05 oracle: the layer added to the packet = a direct fresh DecodeFromBytes into the struct chosen
		dk := directKind(kind, data)
		if dk == "" {
			if t.added != nil {
				lib.Finding("C05", "ligmp:pkt-differs", "decodeIGMP added a layer for a message it documents as undeterminable")
			}
			return reply
		}
		obj := newObj(dk)
		rerr := obj.DecodeFromBytes(exact(data), &feedback{})
		switch {
		case (rerr != nil) != (t.added == nil):
			lib.Finding("C05", "ligmp:pkt-differs", kind+": the registered decoder adds a layer iff DecodeFromBytes succeeds — violated")
		case rerr == nil && differingField(t.added, obj) != "":
			lib.Finding("C05", "ligmp:pkt-differs:"+dk+"."+differingField(t.added, obj), kind+": layer added by the registered decoder differs from a direct fresh DecodeFromBytes: "+render(t.added)+" vs "+render(obj))
		}
		return reply
	})
}

// ---------------------------------------------------------------- NewPacket / DecodingLayerParser

func opPkt(kind, mode string, extra int, foreign, data []byte) string {
	first, ok := fnLayerType(kind)
	if !ok || kind == "igmp12" || kind == "igmp3" || len(foreign) != extra || (mode != "copy" && mode != "nocopy" && mode != "lazy" && mode != "pool") {
		return "bad-op"
	}
	if len(data) == 0 {
		return "empty"
	}
	type obs struct {
		first string
		typ   gopacket.LayerType
		n     int
		trunc bool
	}
	build := func(skipRecovery bool) obs {
		opts := gopacket.DecodeOptions{SkipDecodeRecovery: skipRecovery}
		in := exact(data)
		switch mode {
		case "nocopy":
			opts.NoCopy = true
			in = inBuf(data, foreign)
		case "lazy":
			opts.Lazy = true
		case "pool":
			opts.Pool = true
		}
		p := gopacket.NewPacket(in, first, opts)
		var o obs
		ls := p.Layers()
		o.n = len(ls)
		if len(ls) > 0 {
			o.typ = ls[0].LayerType()
			if kind == "igmp" {
				o.first = renderAny(ls[0])
			} else {
				o.first = render(ls[0])
			}
		}
		o.trunc = p.Metadata().Truncated
		return o
	}
	var o obs
	_, panicked := protect(func() string { o = build(true); return "" })
	if panicked {
		if isOurSite(lastSite) {
			lib.Finding("C19", "ligmp:panic:"+lastSite, "NewPacket(SkipDecodeRecovery) panicked in this layer: "+lastMsg)
			return "panic " + lib.PanicKind(lastMsg)
		}
		// a decoder of a LATER layer panicked (other engines' business): observe this layer with recovery on
		lib.Stat("pkt:later-layer-panic:" + lastSite)
		o = build(false)
	}
	lib.Stat("pkt:" + kind + ":" + mode)
	t, _ := decodeWith(first, exact(data))
	if o.n == 0 || o.typ != first {
		lib.Stat("pkt:fail")
		if t.added != nil {
			lib.Finding("C05", "ligmp:pkt-differs", "NewPacket("+mode+") shows no "+kind+" layer although the registered decoder adds one")
		}
		return "fail trunc=" + b01(o.trunc)
	}
	want := ""
	if t.added != nil {
		want = render(t.added)
		if kind == "igmp" {
			want = renderAny(t.added)
		}
	}
	if want != o.first {
		lib.Finding("C05", "ligmp:pkt-differs", "first layer built by NewPacket("+mode+") differs from a direct call of the registered decoder")
	}
	lib.Nontrivial()
	return "ok " + o.first
}

func opDlp(re bool, variant, kind string, data []byte) string {
	if variant != "v3" && variant != "v12" {
		return "bad-op"
	}
	first, ok := fnLayerType(kind)
	if !ok || kind == "igmp12" || kind == "igmp3" {
		return "bad-op"
	}
	if !re {
		newParser()
	}
	parser := parsers[variant+"/"+kind]
	return guarded("DecodingLayerParser.DecodeLayers", func() string {
		var decoded []gopacket.LayerType
		err := parser.DecodeLayers(exact(data), &decoded)
		code := 0
		var unsup gopacket.UnsupportedLayerType
		if errors.As(err, &unsup) {
			code = 2
		} else if err != nil {
			code = 1
		}
		ds := make([]string, len(decoded))
		for i, t := range decoded {
			ds[i] = lib.Itoa(int(t))
		}
		lib.Stat(fmt.Sprintf("dlp:%s:%s:layers=%d:code=%d", variant, kind, min(len(decoded), 4), code))
		if len(decoded) >= 1 {
			lib.Nontrivial()
		}
		var ig gopacket.Layer = pIgmp3
		if variant == "v12" {
			ig = pIgmp12
		}
		// C05 oracle: the run equals the leading run of NewPacket's layers with equal fields
		if len(data) > 0 {
			var pl []gopacket.Layer
			var ptr bool
			_, pk := protect(func() string {
				pk := gopacket.NewPacket(exact(data), first, gopacket.DecodeOptions{})
				pl = pk.Layers()
				ptr = pk.Metadata().Truncated
				return ""
			})
			if !pk {
				objs := map[gopacket.LayerType]gopacket.Layer{layers.LayerTypeIGMP: ig, layers.LayerTypeIPSecAH: pAh, layers.LayerTypeIPSecESP: pEsp, layers.LayerTypeGTPv2: pGtp}
				variantFinding := func(what string) {
					lib.Stat("dlp:igmp-variant-differs")
					lib.Finding("C05", "ligmp:dlp-differs:igmp-variant", what)
				}
				for i, t := range decoded {
					if i >= len(pl) || pl[i].LayerType() != t {
						if t == layers.LayerTypeIGMP {
							variantFinding("the parser (holding " + kindOf(ig) + ") decoded an IGMP layer where decodeIGMP refuses the message")
						} else {
							lib.Finding("C05", "ligmp:dlp-differs", "parser run is not a prefix of the packet's layers")
						}
						break
					}
					if kindOf(pl[i]) != kindOf(objs[t]) {
						variantFinding("the parser holds " + kindOf(objs[t]) + " for LayerTypeIGMP, decodeIGMP chose " + kindOf(pl[i]) + " for these bytes")
						continue
					}
					// the parser owns ONE object per type: in a chain AH > AH > … it holds the LAST AH header decoded
					// (or the half-updated state of a failed one), the packet has one layer object per header
					later := false
					for _, t2 := range decoded[i+1:] {
						later = later || t2 == t
					}
					if later || (code == 1 && t == layers.LayerTypeIPSecAH) {
						lib.Stat("dlp:ah-chain")
						continue
					}
					if f := differingField(pl[i], objs[t]); f != "" {
						lib.Finding("C05", "ligmp:dlp-differs:"+kindOf(pl[i])+"."+f, "parser's layer differs from the packet's: "+render(objs[t])+" vs "+render(pl[i]))
					}
				}
				n := len(decoded)
				if n < len(pl) {
					if k := kindOf(pl[n]); k != "" {
						switch {
						case code == 1 && (k == "igmp12" || k == "igmp3") && k != kindOf(ig):
							variantFinding("the parser (holding " + kindOf(ig) + ") reports an error where decodeIGMP decodes the message as " + k)
						case code == 1:
							lib.Finding("C05", "ligmp:dlp-differs", "parser reports a decode error for a layer the packet has")
						default:
							lib.Finding("C05", "ligmp:dlp-differs", "parser stopped before a layer of a type in its set")
						}
					}
				}
				if parser.Truncated && !ptr {
					lib.Finding("C05", "ligmp:dlp-differs", "parser reports truncation, the packet does not")
				}
			}
		}
		return fmt.Sprintf("code=%d decoded=%s trunc=%s | %s | %s | %s | %s", code, listOr(ds, ","), b01(parser.Truncated), render(ig), render(pAh), render(pEsp), render(pGtp))
	})
}

// ---------------------------------------------------------------- very large GTPv2 inputs (child process)

func parsePatches(s string) ([][2]interface{}, bool) {
	if s == "-" {
		return nil, true
	}
	var out [][2]interface{}
	for _, w := range strings.Split(s, ",") {
		p := strings.SplitN(w, ":", 2)
		if len(p) != 2 {
			return nil, false
		}
		off, ok1 := lib.Atoi(p[0])
		b, ok2 := lib.UnHex(p[1])
		if !ok1 || !ok2 || off < 0 {
			return nil, false
		}
		out = append(out, [2]interface{}{off, b})
	}
	return out, true
}

func bigInput(n int, patches [][2]interface{}) ([]byte, bool) {
	if n < 0 || n > 200000 {
		return nil, false
	}
	data := make([]byte, n)
	for _, p := range patches {
		off, b := p[0].(int), p[1].([]byte)
		if off+len(b) > n {
			return nil, false
		}
		copy(data[off:], b)
	}
	return data, true
}

// child: decode one large GTPv2 input in a process of its own, so that a decoder that never returns (and
// allocates without bound) can be killed.  Prints the reply line; exit 3 = runaway heap.
func child() {
	in := bufio.NewScanner(os.Stdin)
	in.Buffer(make([]byte, 1<<20), 1<<24)
	if !in.Scan() {
		os.Exit(2)
	}
	f := strings.Fields(in.Text())
	n, _ := lib.Atoi(f[0])
	patches, _ := parsePatches(f[1])
	data, ok := bigInput(n, patches)
	if !ok {
		fmt.Println("bad-op")
		return
	}
	go func() {
		var ms runtime.MemStats
		for {
			time.Sleep(5 * time.Millisecond)
			runtime.ReadMemStats(&ms)
			if ms.HeapAlloc > 512<<20 {
				os.Exit(3)
			}
		}
	}()
	reply, panicked := protect(func() string {
		g := &layers.GTPv2{}
		fb := &feedback{}
		if err := g.DecodeFromBytes(data, fb); err != nil {
			return "err trunc=" + b01(fb.truncated) + " | " + renderGtpBig(g)
		}
		return "ok " + renderGtpBig(g) + " trunc=" + b01(fb.truncated)
	})
	if panicked {
		fmt.Println(reply + " @" + lastSite + " " + strings.ReplaceAll(lastMsg, "\n", " "))
		return
	}
	fmt.Println(reply)
}

func opGtp2Big(n int, ps string) string {
	patches, ok := parsePatches(ps)
	if !ok {
		return "bad-op"
	}
	if _, ok := bigInput(n, patches); !ok {
		return "bad-op"
	}
	exe, err := os.Executable()
	if err != nil {
		return "bad-op"
	}
	cmd := exec.Command(exe, "child-gtp2")
	cmd.Stdin = strings.NewReader(strconv.Itoa(n) + " " + ps + "\n")
	var out strings.Builder
	cmd.Stdout = &out
	if err := cmd.Start(); err != nil {
		return "bad-op"
	}
	done := make(chan error, 1)
	go func() { done <- cmd.Wait() }()
	hang := func(why string) string {
		lib.Stat("gtp2big:hang")
		lib.Finding("C19", "ligmp:hang:layers/gtp2.go", "GTPv2.DecodeFromBytes does not return on a "+strconv.Itoa(n)+"-byte input ("+why+")")
		return "hang"
	}
	select {
	case err := <-done:
		if ee, ok := err.(*exec.ExitError); ok && ee.ExitCode() == 3 {
			return hang("the heap grew beyond 512 MiB")
		}
	case <-time.After(20 * time.Second):
		cmd.Process.Kill()
		<-done
		return hang("killed after 20 s")
	}
	reply := strings.TrimSpace(out.String())
	lib.Stat("gtp2big")
	if strings.HasPrefix(reply, "panic ") {
		f := strings.Fields(reply)
		site := "?"
		if len(f) >= 3 {
			site = strings.TrimPrefix(f[2], "@")
		}
		lib.Finding("C19", "ligmp:panic:"+site, "GTPv2.DecodeFromBytes panicked on a "+strconv.Itoa(n)+"-byte input: "+reply)
		return f[0] + " " + f[1]
	}
	if strings.HasPrefix(reply, "ok ") {
		lib.Nontrivial()
	}
	return reply
}

// ---------------------------------------------------------------- tables

func opIpTab() string {
	xs := make([]string, 256)
	for i := 0; i < 256; i++ {
		xs[i] = lib.Itoa(int(layers.IPProtocol(i).LayerType()))
	}
	lib.Stat("iptab")
	return fmt.Sprintf("ok %s lt=%d,%d,%d,%d,%d", strings.Join(xs, ","), int(layers.LayerTypeIGMP), int(layers.LayerTypeIPSecAH),
		int(layers.LayerTypeIPSecESP), int(layers.LayerTypeGTPv2), int(gopacket.LayerTypePayload))
}

// opTime: igmpTimeDecode over all 256 codes, observed through IGMPv1or2.MaxResponseTime.
func opTime() string {
	xs := make([]string, 256)
	for t := 0; t < 256; t++ {
		l := &layers.IGMPv1or2{}
		if err := l.DecodeFromBytes([]byte{0x11, byte(t), 0, 0, 0, 0, 0, 0}, &feedback{}); err != nil {
			return "err"
		}
		xs[t] = strconv.FormatInt(int64(l.MaxResponseTime), 10)
	}
	lib.Stat("time")
	return "ok " + strings.Join(xs, " ")
}

// ---------------------------------------------------------------- dispatcher

func triple(a []string) (int, []byte, []byte, bool) {
	extra, ok1 := lib.Atoi(a[0])
	foreign, ok2 := lib.UnHex(a[1])
	data, ok3 := lib.UnHex(a[2])
	if !ok1 || !ok2 || !ok3 || extra < 0 || len(foreign) != extra {
		return 0, nil, nil, false
	}
	return extra, foreign, data, true
}

func exec1(a []string) string {
	if len(a) < 2 || a[0] != "ligmp" {
		return "bad-op"
	}
	switch a[1] {
	case "dec":
		if len(a) != 6 {
			return "bad-op"
		}
		extra, foreign, data, ok := triple(a[3:])
		if !ok {
			return "bad-op"
		}
		return opDec(a[2], extra, foreign, data)
	case "redec":
		if len(a) != 4 {
			return "bad-op"
		}
		data, ok := lib.UnHex(a[3])
		if !ok {
			return "bad-op"
		}
		return opRedec(a[2], data)
	case "fn":
		if len(a) != 6 {
			return "bad-op"
		}
		extra, foreign, data, ok := triple(a[3:])
		if !ok {
			return "bad-op"
		}
		return opFn(a[2], extra, foreign, data)
	case "pkt":
		if len(a) != 7 {
			return "bad-op"
		}
		extra, foreign, data, ok := triple(a[4:])
		if !ok {
			return "bad-op"
		}
		return opPkt(a[2], a[3], extra, foreign, data)
	case "dlp", "redlp":
		if len(a) != 5 {
			return "bad-op"
		}
		data, ok := lib.UnHex(a[4])
		if !ok {
			return "bad-op"
		}
		return opDlp(a[1] == "redlp", a[2], a[3], data)
	case "gtp2big":
		if len(a) != 4 {
			return "bad-op"
		}
		n, ok := lib.Atoi(a[2])
		if !ok {
			return "bad-op"
		}
		return opGtp2Big(n, a[3])
	case "iptab":
		if len(a) != 2 {
			return "bad-op"
		}
		return opIpTab()
	case "time":
		if len(a) != 2 {
			return "bad-op"
		}
		return opTime()
	}
	return "bad-op"
}

func main() {
	if len(os.Args) >= 2 && os.Args[1] == "child-gtp2" {
		child()
		return
	}
	reset()
	lib.Main(lib.Engine{Name: "ligmp", Gen: gen, Reset: reset, Exec: exec1})
}
