// gp-cksum: correspondence adapter for engine `cksum` (property C08).
//
// Drives the REAL checksum code: gopacket.ComputeChecksum / FoldChecksum, the pseudo-header sums
// (through TCP.ComputeChecksum), the ComputeChecksums blocks of IPv4/TCP/UDP/ICMPv4/ICMPv6/GRE
// SerializeTo, the VerifyChecksum methods after a real DecodeFromBytes, and Packet.VerifyChecksums.
// Monitors compare everything with an independent RFC 1071 implementation (ref.go).
package main

import (
	"fmt"
	"net"
	"strconv"
	"strings"

	"github.com/gopacket/gopacket"
	"github.com/gopacket/gopacket/layers"
	"verif/harness/lib"
)

const maxBytes = 1100000

// ---------------------------------------------------------------- state

type state struct {
	proto string
	ipver string // "4", "6" or "-"
	src   []byte
	dst   []byte
	bytes []byte
}

var st state

// distinct RFC 1071 outcomes reached per protocol/ip version over the whole run (evidence histogram)
var seenOutcome = map[string]bool{}

func reset() { st = state{} }

// ---------------------------------------------------------------- parsing

// bytesSpec: "-", hex, or r<count>x<hex>+<hex|->
func bytesSpec(s string) ([]byte, bool) {
	if strings.HasPrefix(s, "r") {
		parts := strings.Split(s[1:], "x")
		if len(parts) != 2 {
			return nil, false
		}
		pt := strings.Split(parts[1], "+")
		if len(pt) != 2 {
			return nil, false
		}
		n, ok := lib.Atou(parts[0])
		pat, ok2 := lib.UnHex(pt[0])
		tail, ok3 := lib.UnHex(pt[1])
		if !ok || !ok2 || !ok3 || strings.HasPrefix(parts[0], "+") {
			return nil, false
		}
		if n > maxBytes || n*uint64(len(pat))+uint64(len(tail)) > maxBytes {
			return nil, false
		}
		out := make([]byte, 0, int(n)*len(pat)+len(tail))
		for i := uint64(0); i < n; i++ {
			out = append(out, pat...)
		}
		return append(out, tail...), true
	}
	return lib.UnHex(s)
}

func fnv32(b []byte) uint32 {
	h := uint32(2166136261)
	for _, x := range b {
		h = (h ^ uint32(x)) * 16777619
	}
	return h
}

func showBytes(b []byte) string {
	if len(b) <= 2048 {
		return lib.Hex(b)
	}
	return fmt.Sprintf("%s..len=%d,fnv=%d", lib.Hex(b[:64]), len(b), fnv32(b))
}

func nats(ss []string, lims ...uint64) ([]uint64, bool) {
	out := make([]uint64, len(ss))
	for i, s := range ss {
		if s == "" || s[0] == '+' || s[0] == '-' {
			return nil, false
		}
		v, err := strconv.ParseUint(s, 10, 64)
		if err != nil {
			return nil, false
		}
		if i < len(lims) && v >= lims[i] {
			return nil, false
		}
		out[i] = v
	}
	return out, true
}

// parseNet: ("-","-","-") -> no network layer; ("4"|"6", srchex, dsthex)
func parseNet(v, s, d string) (ipver string, src, dst []byte, ok bool) {
	if v == "-" {
		return "-", nil, nil, s == "-" && d == "-"
	}
	src, ok1 := lib.UnHex(s)
	dst, ok2 := lib.UnHex(d)
	if !ok1 || !ok2 {
		return "", nil, nil, false
	}
	if v == "4" && len(src) == 4 && len(dst) == 4 {
		return v, src, dst, true
	}
	if v == "6" && len(src) == 16 && len(dst) == 16 {
		return v, src, dst, true
	}
	return "", nil, nil, false
}

func netLayer(ipver string, src, dst []byte, proto layers.IPProtocol) gopacket.NetworkLayer {
	if ipver == "4" {
		return &layers.IPv4{Version: 4, IHL: 5, TTL: 64, Protocol: proto, SrcIP: net.IP(append([]byte(nil), src...)), DstIP: net.IP(append([]byte(nil), dst...))}
	}
	return &layers.IPv6{Version: 6, HopLimit: 64, NextHeader: proto, SrcIP: net.IP(append([]byte(nil), src...)), DstIP: net.IP(append([]byte(nil), dst...))}
}

// ---------------------------------------------------------------- building layers from field values

type optSpec struct {
	nnop  int
	kind  int
	odata []byte
}

func (o optSpec) length() int {
	n := o.nnop
	if o.kind != 0 {
		n += 2 + len(o.odata)
	}
	return (n + 3) / 4 * 4
}

func (o optSpec) valid() bool {
	return o.kind < 256 && o.kind != 1 && o.nnop <= 64 && len(o.odata) <= 64 && o.length() <= 40
}

type ip4F struct {
	tos, id, ff, ttl, proto uint64
	src, dst                []byte
	opt                     optSpec
	pad                     []byte // IPv4.Padding: what a decoded header kept from the option alignment area
}

// rawLen: bytes of the option list before alignment
func (o optSpec) rawLen() int {
	n := o.nnop
	if o.kind != 0 {
		n += 2 + len(o.odata)
	}
	return n
}

func buildIp4(f ip4F, payload []byte, csum bool) ([]byte, error) {
	ip := &layers.IPv4{Version: 4, TOS: uint8(f.tos), Id: uint16(f.id), Flags: layers.IPv4Flag(f.ff >> 13), FragOffset: uint16(f.ff & 0x1fff),
		TTL: uint8(f.ttl), Protocol: layers.IPProtocol(f.proto), SrcIP: net.IP(f.src), DstIP: net.IP(f.dst)}
	for i := 0; i < f.opt.nnop; i++ {
		ip.Options = append(ip.Options, layers.IPv4Option{OptionType: 1, OptionLength: 1})
	}
	if f.opt.kind != 0 {
		ip.Options = append(ip.Options, layers.IPv4Option{OptionType: uint8(f.opt.kind), OptionLength: uint8(2 + len(f.opt.odata)), OptionData: f.opt.odata})
	}
	ip.Padding = f.pad
	buf := gopacket.NewSerializeBuffer()
	err := gopacket.SerializeLayers(buf, gopacket.SerializeOptions{FixLengths: true, ComputeChecksums: csum}, ip, gopacket.Payload(payload))
	return buf.Bytes(), err
}

type tcpF struct {
	sport, dport, seq, ack, flags, win, urg uint64
	opt                                     optSpec
}

func buildTcp(ipver string, src, dst []byte, f tcpF, payload []byte, csum bool) ([]byte, error) {
	t := &layers.TCP{SrcPort: layers.TCPPort(f.sport), DstPort: layers.TCPPort(f.dport), Seq: uint32(f.seq), Ack: uint32(f.ack), Window: uint16(f.win), Urgent: uint16(f.urg),
		FIN: f.flags&1 != 0, SYN: f.flags&2 != 0, RST: f.flags&4 != 0, PSH: f.flags&8 != 0, ACK: f.flags&16 != 0, URG: f.flags&32 != 0,
		ECE: f.flags&64 != 0, CWR: f.flags&128 != 0, NS: f.flags&256 != 0}
	for i := 0; i < f.opt.nnop; i++ {
		t.Options = append(t.Options, layers.TCPOption{OptionType: layers.TCPOptionKindNop, OptionLength: 1})
	}
	if f.opt.kind != 0 {
		t.Options = append(t.Options, layers.TCPOption{OptionType: layers.TCPOptionKind(f.opt.kind), OptionLength: uint8(2 + len(f.opt.odata)), OptionData: f.opt.odata})
	}
	if err := t.SetNetworkLayerForChecksum(netLayer(ipver, src, dst, layers.IPProtocolTCP)); err != nil {
		return nil, err
	}
	buf := gopacket.NewSerializeBuffer()
	err := gopacket.SerializeLayers(buf, gopacket.SerializeOptions{FixLengths: true, ComputeChecksums: csum}, t, gopacket.Payload(payload))
	return buf.Bytes(), err
}

func buildUdp(ipver string, src, dst []byte, sport, dport uint64, payload []byte, csum bool) ([]byte, error) {
	u := &layers.UDP{SrcPort: layers.UDPPort(sport), DstPort: layers.UDPPort(dport)}
	if err := u.SetNetworkLayerForChecksum(netLayer(ipver, src, dst, layers.IPProtocolUDP)); err != nil {
		return nil, err
	}
	buf := gopacket.NewSerializeBuffer()
	err := gopacket.SerializeLayers(buf, gopacket.SerializeOptions{FixLengths: true, ComputeChecksums: csum}, u, gopacket.Payload(payload))
	return buf.Bytes(), err
}

func buildIcmp4(ty, co, id, seq uint64, payload []byte, csum bool) ([]byte, error) {
	i := &layers.ICMPv4{TypeCode: layers.CreateICMPv4TypeCode(uint8(ty), uint8(co)), Id: uint16(id), Seq: uint16(seq)}
	buf := gopacket.NewSerializeBuffer()
	err := gopacket.SerializeLayers(buf, gopacket.SerializeOptions{FixLengths: true, ComputeChecksums: csum}, i, gopacket.Payload(payload))
	return buf.Bytes(), err
}

func buildIcmp6(ipver string, src, dst []byte, ty, co uint64, payload []byte, csum bool) ([]byte, error) {
	i := &layers.ICMPv6{TypeCode: layers.CreateICMPv6TypeCode(uint8(ty), uint8(co))}
	if err := i.SetNetworkLayerForChecksum(netLayer(ipver, src, dst, layers.IPProtocolICMPv6)); err != nil {
		return nil, err
	}
	buf := gopacket.NewSerializeBuffer()
	err := gopacket.SerializeLayers(buf, gopacket.SerializeOptions{FixLengths: true, ComputeChecksums: csum}, i, gopacket.Payload(payload))
	return buf.Bytes(), err
}

type greF struct {
	c, k, s, a                                      bool
	recur, flags, ver, proto, offset, key, seq, ack uint64
}

func buildGre(f greF, payload []byte, csum bool) ([]byte, error) {
	g := &layers.GRE{ChecksumPresent: f.c, KeyPresent: f.k, SeqPresent: f.s, AckPresent: f.a, RecursionControl: uint8(f.recur), Flags: uint8(f.flags),
		Version: uint8(f.ver), Protocol: layers.EthernetType(f.proto), Offset: uint16(f.offset), Key: uint32(f.key), Seq: uint32(f.seq), Ack: uint32(f.ack)}
	buf := gopacket.NewSerializeBuffer()
	err := gopacket.SerializeLayers(buf, gopacket.SerializeOptions{FixLengths: true, ComputeChecksums: csum}, g, gopacket.Payload(payload))
	return buf.Bytes(), err
}

// ---------------------------------------------------------------- verification through the real decoders

var ipProto = map[string]layers.IPProtocol{"tcp": layers.IPProtocolTCP, "udp": layers.IPProtocolUDP, "icmp4": layers.IPProtocolICMPv4,
	"icmp6": layers.IPProtocolICMPv6, "gre": layers.IPProtocolGRE}

var ckOffset = map[string]int{"ip4": 10, "tcp": 16, "udp": 6, "icmp4": 2, "icmp6": 2, "gre": 4}

func wantsNet(proto string) bool { return proto == "tcp" || proto == "udp" || proto == "icmp6" }

// tcpOptsUnmodelled mirrors Gp.CksumEmit.tcpOptsCheck: true when the walk over the options area reaches an
// MPTCP option (kind 30) before an error / end of list.  Those segments belong to engine ltcp.
func tcpOptsUnmodelled(data []byte) bool {
	if len(data) < 20 {
		return false
	}
	doff := int(data[12] >> 4)
	if doff < 5 || doff*4 > len(data) {
		return false
	}
	o := data[20 : doff*4]
	for fuel := 64; fuel > 0 && len(o) > 0; fuel-- {
		switch {
		case o[0] == 0:
			return false
		case o[0] == 1:
			o = o[1:]
		case o[0] == 30:
			return true
		default:
			if len(o) < 2 || o[1] < 2 || int(o[1]) > len(o) {
				return false
			}
			o = o[o[1]:]
		}
	}
	return false
}

type verdict struct {
	err      bool
	valid    bool
	correct  uint32
	actual   uint32
	covered  []byte // Contents ++ Payload of the decoded layer (what the checksum covers)
	noCksum  bool   // the protocol's "no checksum" encoding is in effect
	unmodel  bool
	errStage string
}

// decodeAndVerify: real DecodeFromBytes on a fresh layer, attach the network layer, real VerifyChecksum.
func decodeAndVerify(proto, ipver string, src, dst, data []byte) verdict {
	data = append([]byte(nil), data...) // VerifyChecksum appends in place into the decoded buffer
	var l gopacket.LayerWithChecksum
	var base *layers.BaseLayer
	var err error
	noCk := false
	switch proto {
	case "ip4":
		x := &layers.IPv4{}
		err = x.DecodeFromBytes(data, gopacket.NilDecodeFeedback)
		l, base = x, &x.BaseLayer
	case "tcp":
		if tcpOptsUnmodelled(data) {
			return verdict{unmodel: true}
		}
		x := &layers.TCP{}
		err = x.DecodeFromBytes(data, gopacket.NilDecodeFeedback)
		if err == nil {
			err = x.SetNetworkLayerForChecksum(netLayer(ipver, src, dst, layers.IPProtocolTCP))
		}
		l, base = x, &x.BaseLayer
	case "udp":
		x := &layers.UDP{}
		err = x.DecodeFromBytes(data, gopacket.NilDecodeFeedback)
		if err == nil {
			err = x.SetNetworkLayerForChecksum(netLayer(ipver, src, dst, layers.IPProtocolUDP))
			noCk = x.Checksum == 0
		}
		l, base = x, &x.BaseLayer
	case "icmp4":
		x := &layers.ICMPv4{}
		err = x.DecodeFromBytes(data, gopacket.NilDecodeFeedback)
		l, base = x, &x.BaseLayer
	case "icmp6":
		x := &layers.ICMPv6{}
		err = x.DecodeFromBytes(data, gopacket.NilDecodeFeedback)
		if err == nil {
			err = x.SetNetworkLayerForChecksum(netLayer(ipver, src, dst, layers.IPProtocolICMPv6))
		}
		l, base = x, &x.BaseLayer
	case "gre":
		x := &layers.GRE{}
		err = x.DecodeFromBytes(data, gopacket.NilDecodeFeedback)
		if err == nil {
			noCk = !x.ChecksumPresent
		}
		l, base = x, &x.BaseLayer
	}
	if err != nil {
		return verdict{err: true, errStage: "decode"}
	}
	covered := append(append([]byte(nil), base.Contents...), base.Payload...)
	if proto == "ip4" {
		covered = append([]byte(nil), base.Contents...)
	}
	verr, res := l.VerifyChecksum()
	if verr != nil {
		return verdict{err: true, errStage: "verify"}
	}
	return verdict{valid: res.Valid, correct: res.Correct, actual: res.Actual, covered: covered, noCksum: noCk}
}

// monitorVerify: the real verdict against the independent reference on the bytes the layer covers.
func monitorVerify(proto, ipver string, src, dst []byte, v verdict, flipped bool) {
	if v.err || v.unmodel {
		return
	}
	off := ckOffset[proto]
	if len(v.covered) < off+2 {
		return
	}
	if proto == "gre" && v.noCksum {
		// no checksum field is defined; nothing to compare (Valid must be true)
		if !v.valid {
			lib.Finding("C08", "cksum:verify-rejects:gre:absent", "GRE without ChecksumPresent reported invalid")
		}
		return
	}
	ph, ok := pseudoBytes(proto, ipver, src, dst, len(v.covered))
	if !ok {
		return
	}
	ref := uint32(refChecksum(ph, v.covered, off))
	if proto == "udp" && ref == 0 {
		ref = 0xffff
	}
	stored := uint32(v.covered[off])<<8 | uint32(v.covered[off+1])
	if v.actual != stored {
		lib.Finding("C08", "cksum:actual:"+proto, fmt.Sprintf("Actual=%d but the stored field is %d", v.actual, stored))
	}
	if proto == "udp" && stored == 0 {
		lib.Stat("verify:udp-stored-zero")
		if !v.valid {
			lib.Finding("C08", "cksum:verify-rejects:udp:none", "UDP datagram without checksum (stored 0) reported invalid")
		}
		return
	}
	if stored == ref {
		lib.Stat("verify:" + proto + ":stored-correct")
		if !v.valid || v.correct != ref {
			cse := "plain"
			if stored == 0xffff {
				cse = "ffff"
			} else if stored == 0 {
				cse = "zero"
			}
			lib.Finding("C08", "cksum:verify-rejects:"+proto+":"+cse,
				fmt.Sprintf("stored checksum %#04x equals the RFC 1071 reference but VerifyChecksum says {Valid:%v Correct:%#04x}", stored, v.valid, v.correct))
		}
		return
	}
	lib.Stat("verify:" + proto + ":stored-wrong")
	if v.valid || v.correct != ref {
		lib.Finding("C08", "cksum:bitflip:"+proto,
			fmt.Sprintf("stored checksum %#04x, reference %#04x, but VerifyChecksum says {Valid:%v Correct:%#04x} (flipped=%v)", stored, ref, v.valid, v.correct, flipped))
	}
}

func showVerdict(v verdict) string {
	switch {
	case v.unmodel:
		return "unmodelled"
	case v.err:
		return "err"
	case v.valid:
		return fmt.Sprintf("valid %d %d", v.correct, v.actual)
	default:
		return fmt.Sprintf("invalid %d %d", v.correct, v.actual)
	}
}

func flipBit(b []byte, i int) []byte {
	out := append([]byte(nil), b...)
	out[i/8] ^= 0x80 >> uint(i%8)
	return out
}

func flipClass(proto string, i, n int) string {
	off := ckOffset[proto]
	by := i / 8
	switch {
	case by == off || by == off+1:
		return "cksum-field"
	case proto == "udp" && (by == 4 || by == 5):
		return "udp-length"
	case proto == "tcp" && by == 12 && i%8 < 4:
		return "tcp-doff"
	case proto == "ip4" && by == 0:
		return "ip-vihl"
	case proto == "ip4" && (by == 2 || by == 3):
		return "ip-length"
	case proto == "gre" && by < 2:
		return "gre-flags"
	}
	hdr := map[string]int{"ip4": 20, "tcp": 20, "udp": 8, "icmp4": 8, "icmp6": 4, "gre": 4}[proto]
	if by < hdr {
		return "header"
	}
	if by == n-1 {
		return "last-byte"
	}
	return "payload"
}

// pverify: Packet.VerifyChecksums on [IP header from the real serializer][seg]
func pverify(seg []byte) string {
	if len(seg) > 60000 {
		return "bad-op"
	}
	proto := st.proto
	// guard: decodability of the segment itself (same classification as `verify`)
	v := decodeAndVerify(proto, st.ipver, st.src, st.dst, seg)
	if v.unmodel {
		return "unmodelled"
	}
	if v.err && v.errStage == "decode" {
		return "err"
	}
	ipver, src, dst := st.ipver, st.src, st.dst
	if ipver == "-" {
		ipver, src, dst = "4", []byte{10, 0, 0, 1}, []byte{10, 0, 0, 2}
	}
	nl := netLayer(ipver, src, dst, ipProto[proto])
	buf := gopacket.NewSerializeBuffer()
	if err := gopacket.SerializeLayers(buf, gopacket.SerializeOptions{FixLengths: true, ComputeChecksums: true}, nl.(gopacket.SerializableLayer), gopacket.Payload(seg)); err != nil {
		return "err"
	}
	first := layers.LayerTypeIPv4
	if ipver == "6" {
		first = layers.LayerTypeIPv6
	}
	p := gopacket.NewPacket(buf.Bytes(), first, gopacket.Default)
	// API precondition (layers/tcpip.go, examples/): the caller attaches the network layer to TCP/UDP/ICMPv6
	// with SetNetworkLayerForChecksum before asking for a checksum; decoding does not do it.
	if ls := p.Layers(); len(ls) > 1 && p.NetworkLayer() != nil {
		if s, ok := ls[1].(interface {
			SetNetworkLayerForChecksum(gopacket.NetworkLayer) error
		}); ok {
			_ = s.SetNetworkLayerForChecksum(p.NetworkLayer())
		}
	}
	err, mm := p.VerifyChecksums()
	if err != nil {
		lib.Stat("pverify:error")
		if !v.err {
			lib.Finding("C08", "cksum:packet-verify:"+proto, "Packet.VerifyChecksums returns an error on a decoded packet (network layer attached) whose layers verify individually: "+firstWords(err.Error(), 12))
		}
		return "err"
	}
	var sb strings.Builder
	n := 0
	for _, m := range mm {
		if m.LayerIndex <= 1 {
			n++
			fmt.Fprintf(&sb, " %d:%d:%d", m.LayerIndex, m.Correct, m.Actual)
		}
	}
	// monitor: the packet-level verdict for layer 1 must be the layer-level one
	got := true
	for _, m := range mm {
		if m.LayerIndex == 1 {
			got = false
			if !v.err && (v.valid || m.Correct != v.correct) {
				lib.Finding("C08", "cksum:packet-verify-differs:"+proto, "Packet.VerifyChecksums disagrees with the layer's VerifyChecksum")
			}
		}
	}
	if !v.err && got != v.valid {
		lib.Finding("C08", "cksum:packet-verify-differs:"+proto, "Packet.VerifyChecksums disagrees with the layer's VerifyChecksum")
	}
	lib.Stat("pverify:ok")
	return fmt.Sprintf("ok %d%s", n, sb.String())
}

func firstWords(s string, n int) string {
	f := strings.Fields(s)
	if len(f) > n {
		f = f[:n]
	}
	return strings.Join(f, " ")
}

// ---------------------------------------------------------------- Exec

func emitReply(proto, ipver string, src, dst, out []byte, err error, hasCk bool) string {
	if err != nil {
		return "err"
	}
	st = state{proto: proto, ipver: ipver, src: src, dst: dst, bytes: append([]byte(nil), out...)}
	off := ckOffset[proto]
	ck := "none"
	covered := out
	if proto == "ip4" {
		covered = out[:int(out[0]&0x0f)*4]
	}
	if hasCk && len(out) >= off+2 {
		got := uint16(out[off])<<8 | uint16(out[off+1])
		ck = strconv.Itoa(int(got))
		if ph, ok := pseudoBytes(proto, ipver, src, dst, len(covered)); ok {
			ref := refChecksum(ph, covered, off)
			raw := ref
			if proto == "udp" && ref == 0 {
				ref = 0xffff
			}
			key := proto + ipver + strconv.Itoa(int(raw))
			if !seenOutcome[key] {
				seenOutcome[key] = true
				lib.Stat("emit:" + proto + ":v" + ipver + ":distinct-outcomes")
			}
			switch {
			case raw == 0:
				lib.Stat("emit:" + proto + ":outcome-0000")
			case raw == 0xffff:
				lib.Stat("emit:" + proto + ":outcome-ffff")
			}
			if got != ref {
				lib.Finding("C08", "cksum:emit:"+proto, fmt.Sprintf("%s over IPv%s, %d bytes: written checksum %#04x, RFC 1071 reference %#04x", proto, ipver, len(covered), got, ref))
			}
		}
	}
	par := "even"
	if len(covered)%2 == 1 {
		par = "odd"
	}
	lib.Stat("emit:" + proto + ":v" + ipver + ":" + par)
	if len(out) > 131072 {
		lib.Stat("emit:" + proto + ":over-128KiB")
	}
	lib.Nontrivial()
	return "ok " + ck + " " + showBytes(out)
}

func exec(a []string) string {
	if len(a) < 2 || a[0] != "cksum" {
		return "bad-op"
	}
	switch a[1] {
	case "fold":
		if len(a) != 3 {
			return "bad-op"
		}
		v, ok := nats(a[2:3], 1<<32)
		if !ok {
			return "bad-op"
		}
		got := gopacket.FoldChecksum(uint32(v[0]))
		if got != refFold(uint64(v[0])) {
			lib.Finding("C08", "cksum:fold", fmt.Sprintf("FoldChecksum(%#x)=%#04x, reference %#04x", v[0], got, refFold(uint64(v[0]))))
		}
		lib.Stat("fold")
		return "ok " + strconv.Itoa(int(got))
	case "foldsweep":
		// exhaustive comparison of the real FoldChecksum with the closed form over [lo, hi); the model side
		// answers `ok` by theorem C08.fold_spec.
		if len(a) != 4 {
			return "bad-op"
		}
		v, ok := nats(a[2:4], 1<<32+1, 1<<32+1)
		if !ok || v[0] > v[1] {
			return "bad-op"
		}
		for c := v[0]; c < v[1]; c++ {
			if gopacket.FoldChecksum(uint32(c)) != refFold(c) {
				lib.Finding("C08", "cksum:fold", fmt.Sprintf("FoldChecksum(%#x)=%#04x, reference %#04x", c, gopacket.FoldChecksum(uint32(c)), refFold(c)))
				return "mismatch " + strconv.FormatUint(c, 10)
			}
		}
		lib.Stat("foldsweep")
		for i := v[0]; i < v[1]; i += 1 << 24 {
			lib.Stat("foldsweep:2^24-values")
		}
		lib.Nontrivial()
		return "ok"
	case "sum":
		if len(a) != 4 {
			return "bad-op"
		}
		d, ok := bytesSpec(a[2])
		v, ok2 := nats(a[3:4], 1<<32)
		if !ok || !ok2 {
			return "bad-op"
		}
		got := gopacket.ComputeChecksum(d, uint32(v[0]))
		total := refWordSum(d) + v[0]
		if gopacket.FoldChecksum(got) != refFold(total) {
			lib.Finding("C08", "cksum:sum-wrap", fmt.Sprintf("ComputeChecksum over %d bytes from %#x folds to %#04x, RFC 1071 value is %#04x (true sum %#x)",
				len(d), v[0], gopacket.FoldChecksum(got), refFold(total), total))
		}
		if total >= 1<<32 {
			lib.Stat("sum:true-sum>=2^32")
		} else {
			lib.Stat("sum:true-sum<2^32")
		}
		if len(d)%2 == 1 {
			lib.Stat("sum:odd-length")
		}
		if len(d) > 0 {
			lib.Nontrivial()
		}
		return "ok " + strconv.FormatUint(uint64(got), 10)
	case "pseudo4", "pseudo6":
		if len(a) != 4 {
			return "bad-op"
		}
		ver := a[1][6:]
		ipver, src, dst, ok := parseNet(ver, a[2], a[3])
		if !ok {
			return "bad-op"
		}
		// TCP.ComputeChecksum on an empty segment returns Fold(pseudo + 6 + 0): recover the pseudo-header sum
		// directly instead: computeChecksum is unexported, so drive it through a zero-length UDP-less TCP
		// layer and undo protocol and length words with the reference arithmetic.
		t := &layers.TCP{}
		if err := t.SetNetworkLayerForChecksum(netLayer(ipver, src, dst, layers.IPProtocolTCP)); err != nil {
			return "err"
		}
		folded, err := t.ComputeChecksum()
		if err != nil {
			return "err"
		}
		want := refWordSum(src) + refWordSum(dst)
		if folded != refFold(want+6) {
			lib.Finding("C08", "cksum:pseudo"+ver, fmt.Sprintf("pseudo-header sum folds to %#04x, reference %#04x", folded, refFold(want+6)))
			return "ok differs"
		}
		lib.Stat("pseudo" + ver)
		return "ok " + strconv.FormatUint(want, 10)
	case "emit":
		return execEmit(a)
	case "verify":
		if len(a) != 7 {
			return "bad-op"
		}
		ipver, src, dst, ok := parseNet(a[3], a[4], a[5])
		b, ok2 := bytesSpec(a[6])
		if !ok || !ok2 {
			return "bad-op"
		}
		if _, known := ckOffset[a[2]]; !known || wantsNet(a[2]) != (ipver != "-") {
			return "bad-op"
		}
		v := decodeAndVerify(a[2], ipver, src, dst, b)
		monitorVerify(a[2], ipver, src, dst, v, false)
		lib.Stat("verify:" + a[2] + ":" + strings.Fields(showVerdict(v))[0])
		lib.Nontrivial()
		return showVerdict(v)
	case "vlast":
		if len(a) != 2 || st.proto == "" {
			return "bad-op"
		}
		v := decodeAndVerify(st.proto, st.ipver, st.src, st.dst, st.bytes)
		monitorVerify(st.proto, st.ipver, st.src, st.dst, v, false)
		lib.Stat("vlast:" + st.proto + ":" + strings.Fields(showVerdict(v))[0])
		return showVerdict(v)
	case "flip":
		if len(a) != 3 || st.proto == "" {
			return "bad-op"
		}
		i, ok := nats(a[2:3], uint64(8*len(st.bytes)))
		if !ok {
			return "bad-op"
		}
		fb := flipBit(st.bytes, int(i[0]))
		v := decodeAndVerify(st.proto, st.ipver, st.src, st.dst, fb)
		monitorVerify(st.proto, st.ipver, st.src, st.dst, v, true)
		lib.Stat("flip:" + st.proto + ":" + flipClass(st.proto, int(i[0]), len(st.bytes)) + ":" + strings.Fields(showVerdict(v))[0])
		return showVerdict(v)
	case "pverify":
		if len(a) != 3 || st.proto == "" || st.proto == "ip4" {
			return "bad-op"
		}
		seg := st.bytes
		if a[2] != "-" {
			i, ok := nats(a[2:3], uint64(8*len(st.bytes)))
			if !ok {
				return "bad-op"
			}
			seg = flipBit(st.bytes, int(i[0]))
		}
		return pverify(seg)
	}
	return "bad-op"
}

func parseOpt(a []string) (optSpec, bool) {
	v, ok := nats(a[0:2], 1000, 256)
	od, ok2 := lib.UnHex(a[2])
	if !ok || !ok2 {
		return optSpec{}, false
	}
	o := optSpec{nnop: int(v[0]), kind: int(v[1]), odata: od}
	return o, o.valid()
}

func bools(ss []string) ([]bool, bool) {
	out := make([]bool, len(ss))
	for i, s := range ss {
		if s != "0" && s != "1" {
			return nil, false
		}
		out[i] = s == "1"
	}
	return out, true
}

func execEmit(a []string) string {
	if len(a) < 6 {
		return "bad-op"
	}
	proto := a[2]
	ipver, src, dst, ok := parseNet(a[3], a[4], a[5])
	switch proto {
	case "ip4":
		if len(a) != 15 || a[3] != "-" {
			return "bad-op"
		}
		s, ok1 := lib.UnHex(a[4])
		d, ok2 := lib.UnHex(a[5])
		v, ok3 := nats(a[6:11], 256, 65536, 65536, 256, 256)
		o, ok4 := parseOpt(a[11:14])
		pl, ok5 := bytesSpec(a[14])
		if !ok1 || !ok2 || !ok3 || !ok4 || !ok5 || len(s) != 4 || len(d) != 4 {
			return "bad-op"
		}
		out, err := buildIp4(ip4F{v[0], v[1], v[2], v[3], v[4], s, d, o, nil}, pl, true)
		return emitReply("ip4", "-", nil, nil, out, err, true)
	case "ip4p": // IPv4 with a Padding field (bytes kept from the option alignment area of a decoded header)
		if len(a) != 16 || a[3] != "-" {
			return "bad-op"
		}
		s, ok1 := lib.UnHex(a[4])
		d, ok2 := lib.UnHex(a[5])
		v, ok3 := nats(a[6:11], 256, 65536, 65536, 256, 256)
		o, ok4 := parseOpt(a[11:14])
		pad, ok6 := lib.UnHex(a[14])
		pl, ok5 := bytesSpec(a[15])
		if !ok1 || !ok2 || !ok3 || !ok4 || !ok5 || !ok6 || len(s) != 4 || len(d) != 4 || len(pad) > 8 || (o.rawLen()+len(pad)+3)/4*4 > 40 {
			return "bad-op"
		}
		lib.Stat("emit:ip4:with-padding")
		out, err := buildIp4(ip4F{v[0], v[1], v[2], v[3], v[4], s, d, o, pad}, pl, true)
		return emitReply("ip4", "-", nil, nil, out, err, true)
	case "tcp":
		if len(a) != 17 || !ok || ipver == "-" {
			return "bad-op"
		}
		v, ok3 := nats(a[6:13], 65536, 65536, 1<<32, 1<<32, 512, 65536, 65536)
		o, ok4 := parseOpt(a[13:16])
		pl, ok5 := bytesSpec(a[16])
		if !ok3 || !ok4 || !ok5 || o.kind == 30 {
			return "bad-op"
		}
		out, err := buildTcp(ipver, src, dst, tcpF{v[0], v[1], v[2], v[3], v[4], v[5], v[6], o}, pl, true)
		return emitReply("tcp", ipver, src, dst, out, err, true)
	case "udp":
		if len(a) != 9 || !ok || ipver == "-" {
			return "bad-op"
		}
		v, ok3 := nats(a[6:8], 65536, 65536)
		pl, ok5 := bytesSpec(a[8])
		if !ok3 || !ok5 {
			return "bad-op"
		}
		out, err := buildUdp(ipver, src, dst, v[0], v[1], pl, true)
		return emitReply("udp", ipver, src, dst, out, err, true)
	case "icmp4":
		if len(a) != 11 || !ok || ipver != "-" {
			return "bad-op"
		}
		v, ok3 := nats(a[6:10], 256, 256, 65536, 65536)
		pl, ok5 := bytesSpec(a[10])
		if !ok3 || !ok5 {
			return "bad-op"
		}
		out, err := buildIcmp4(v[0], v[1], v[2], v[3], pl, true)
		return emitReply("icmp4", "-", nil, nil, out, err, true)
	case "icmp6":
		if len(a) != 9 || !ok || ipver == "-" {
			return "bad-op"
		}
		v, ok3 := nats(a[6:8], 256, 256)
		pl, ok5 := bytesSpec(a[8])
		if !ok3 || !ok5 {
			return "bad-op"
		}
		out, err := buildIcmp6(ipver, src, dst, v[0], v[1], pl, true)
		return emitReply("icmp6", ipver, src, dst, out, err, true)
	case "gre":
		if len(a) != 19 || !ok || ipver != "-" {
			return "bad-op"
		}
		b, ok2 := bools(a[6:10])
		v, ok3 := nats(a[10:18], 8, 32, 8, 65536, 65536, 1<<32, 1<<32, 1<<32)
		pl, ok5 := bytesSpec(a[18])
		if !ok2 || !ok3 || !ok5 {
			return "bad-op"
		}
		f := greF{b[0], b[1], b[2], b[3], v[0], v[1], v[2], v[3], v[4], v[5], v[6], v[7]}
		out, err := buildGre(f, pl, true)
		return emitReply("gre", "-", nil, nil, out, err, f.c)
	}
	return "bad-op"
}

func main() {
	lib.Main(lib.Engine{Name: "cksum", Gen: gen, Reset: reset, Exec: exec})
}
