package main

import (
	"fmt"
	"strings"

	"verif/harness/lib"
)

// ---------------------------------------------------------------- generator
//
// Every emission case is SOLVED: the fields are drawn at random, the segment is built once with the
// real serializer (checksums off, one aligned 16-bit "slot" field zero), the reference sum S of the covered
// bytes is taken, and the slot is set to the word w that makes the RFC 1071 checksum equal a chosen
// target T:  rep(S + w) = 0xffff - T.   T = 0xffff (sum +0) needs an all-zero packet and is produced
// where the protocol allows one (ICMPv4); T = 0 (sum 0xffff) is the UDP "transmit as all ones" case.

type combo struct {
	proto, ipver string
}

var combos = []combo{{"udp", "4"}, {"udp", "6"}, {"icmp4", "-"}, {"ip4", "-"}, {"tcp", "4"}, {"tcp", "6"}, {"icmp6", "6"}, {"icmp6", "4"}, {"gre", "-"}}

func randAddr(r *lib.Rand, ipver string) ([]byte, []byte) {
	n := 4
	if ipver == "6" {
		n = 16
	}
	switch r.Intn(12) {
	case 0:
		return make([]byte, n), make([]byte, n)
	case 1:
		a, b := make([]byte, n), make([]byte, n)
		for i := range a {
			a[i], b[i] = 0xff, 0xff
		}
		return a, b
	}
	return r.Bytes(n), r.Bytes(n)
}

func randPayload(r *lib.Rand, odd bool, max int) []byte {
	n := r.Pick([]int{0, 1, 2, 3, 4, 5, 8, 9, 16, 17, 31, 32})
	if r.Chance(10) {
		n = r.Intn(max + 1)
	}
	if (n%2 == 1) != odd {
		n++
	}
	p := r.Bytes(n)
	switch r.Intn(10) {
	case 0:
		for i := range p {
			p[i] = 0
		}
	case 1:
		for i := range p {
			p[i] = 0xff
		}
	}
	return p
}

func randOpt(r *lib.Rand, minData int) optSpec {
	switch r.Intn(4) {
	case 0, 1:
		return optSpec{}
	case 2:
		return optSpec{nnop: r.Intn(9)}
	}
	k := 2 + r.Intn(250)
	if k == 30 {
		k = 31
	}
	return optSpec{nnop: r.Intn(4), kind: k, odata: r.Bytes(minData + r.Intn(8))}
}

// solveWord: the slot value w with rep(S + w) = 0xffff - T; ok=false when T cannot be reached.
func solveWord(S uint64, T uint16) (uint16, bool) {
	X := uint64(0xffff - T)
	if X == 0 {
		return 0, S == 0
	}
	w := (X + 65535 - S%65535) % 65535
	if S+w == 0 {
		w = 65535
	}
	return uint16(w), true
}

func netStr(ipver string, src, dst []byte) string {
	if ipver == "-" {
		return "- - -"
	}
	return ipver + " " + lib.Hex(src) + " " + lib.Hex(dst)
}

func optStr(o optSpec) string { return fmt.Sprintf("%d %d %s", o.nnop, o.kind, lib.Hex(o.odata)) }

// emitLine builds one solved `cksum emit` line; returns the line, the emitted length in bytes and
// whether the target was reached by construction.
func emitLine(r *lib.Rand, c combo, T uint16, odd bool, maxPayload int) (string, int) {
	src, dst := randAddr(r, c.ipver)
	zeroPkt := T == 0xffff
	switch c.proto {
	case "ip4":
		s4, d4 := randAddr(r, "4")
		f := ip4F{tos: uint64(r.Intn(256)), id: 0, ff: uint64(r.Intn(65536)), ttl: uint64(r.Intn(256)), proto: uint64(r.Intn(256)), src: s4, dst: d4, opt: randOpt(r, 1)}
		pl := randPayload(r, odd, maxPayload)
		// a header that keeps non-zero bytes in its option alignment area (IPv4.Padding of a decoded header)
		hdrOpts := f.opt.length()
		if r.Chance(40) {
			pad := r.Bytes(1 + r.Intn(4))
			if n := (f.opt.rawLen() + len(pad) + 3) / 4 * 4; n <= 40 {
				f.pad, hdrOpts = pad, n
			}
		}
		if b, err := buildIp4(f, pl, false); err == nil {
			hl := int(b[0]&0xf) * 4
			if w, ok := solveWord(refWordSum(b[:hl]), T); ok {
				f.id = uint64(w)
			}
		}
		if f.pad != nil {
			return fmt.Sprintf("cksum emit ip4p - %s %s %d %d %d %d %d %s %s %s", lib.Hex(s4), lib.Hex(d4), f.tos, f.id, f.ff, f.ttl, f.proto, optStr(f.opt), lib.Hex(f.pad), lib.Hex(pl)), 20 + hdrOpts + len(pl)
		}
		return fmt.Sprintf("cksum emit ip4 - %s %s %d %d %d %d %d %s %s", lib.Hex(s4), lib.Hex(d4), f.tos, f.id, f.ff, f.ttl, f.proto, optStr(f.opt), lib.Hex(pl)), 20 + f.opt.length() + len(pl)
	case "tcp":
		f := tcpF{sport: uint64(r.Intn(65536)), dport: uint64(r.Intn(65536)), seq: r.U64() & 0xffffffff, ack: r.U64() & 0xffffffff, flags: uint64(r.Intn(512)), win: 0, urg: uint64(r.Intn(65536)), opt: randOpt(r, 0)}
		pl := randPayload(r, odd, maxPayload)
		if b, err := buildTcp(c.ipver, src, dst, f, pl, false); err == nil {
			if ph, ok := pseudoBytes("tcp", c.ipver, src, dst, len(b)); ok {
				if w, ok := solveWord(refWordSum(ph)+refWordSum(b), T); ok {
					f.win = uint64(w)
				}
			}
		}
		return fmt.Sprintf("cksum emit tcp %s %d %d %d %d %d %d %d %s %s", netStr(c.ipver, src, dst), f.sport, f.dport, f.seq, f.ack, f.flags, f.win, f.urg, optStr(f.opt), lib.Hex(pl)), 20 + f.opt.length() + len(pl)
	case "udp":
		pl := randPayload(r, odd, maxPayload)
		sport, dport := uint64(10000+r.Intn(50000)), uint64(10000+r.Intn(50000))
		useSport := len(pl) < 2 || r.Chance(20)
		if useSport {
			sport = 0
		} else {
			pl[0], pl[1] = 0, 0
		}
		if b, err := buildUdp(c.ipver, src, dst, sport, dport, pl, false); err == nil {
			if ph, ok := pseudoBytes("udp", c.ipver, src, dst, len(b)); ok {
				if w, ok := solveWord(refWordSum(ph)+refWordSum(b), T); ok {
					if useSport {
						sport = uint64(w)
					} else {
						pl[0], pl[1] = byte(w>>8), byte(w)
					}
				}
			}
		}
		return fmt.Sprintf("cksum emit udp %s %d %d %s", netStr(c.ipver, src, dst), sport, dport, lib.Hex(pl)), 8 + len(pl)
	case "icmp4":
		pl := randPayload(r, odd, maxPayload)
		ty, co, id, seq := uint64(r.Intn(256)), uint64(r.Intn(256)), uint64(r.Intn(65536)), uint64(0)
		if zeroPkt {
			ty, co, id = 0, 0, 0
			for i := range pl {
				pl[i] = 0
			}
		}
		if b, err := buildIcmp4(ty, co, id, seq, pl, false); err == nil {
			if w, ok := solveWord(refWordSum(b), T); ok {
				seq = uint64(w)
			}
		}
		return fmt.Sprintf("cksum emit icmp4 - - - %d %d %d %d %s", ty, co, id, seq, lib.Hex(pl)), 8 + len(pl)
	case "icmp6":
		pl := randPayload(r, odd, maxPayload)
		ty, co := uint64(r.Intn(256)), uint64(r.Intn(256))
		usePl := len(pl) >= 2
		if usePl {
			pl[0], pl[1] = 0, 0
		} else {
			ty, co = 0, 0
		}
		if b, err := buildIcmp6(c.ipver, src, dst, ty, co, pl, false); err == nil {
			if ph, ok := pseudoBytes("icmp6", c.ipver, src, dst, len(b)); ok {
				if w, ok := solveWord(refWordSum(ph)+refWordSum(b), T); ok {
					if usePl {
						pl[0], pl[1] = byte(w>>8), byte(w)
					} else {
						ty, co = uint64(w>>8), uint64(w&0xff)
					}
				}
			}
		}
		return fmt.Sprintf("cksum emit icmp6 %s %d %d %s", netStr(c.ipver, src, dst), ty, co, lib.Hex(pl)), 4 + len(pl)
	case "gre":
		pl := randPayload(r, odd, maxPayload)
		// gre.go writes Flags<<3 over the AckPresent bit (Flags is data[1]>>3 on decode): keep the two consistent
		ackP := r.Chance(25)
		f := greF{c: !r.Chance(10), k: r.Bool(), s: r.Bool(), a: ackP, recur: uint64(r.Intn(8)), flags: uint64(r.Intn(16) + 16*boolInt(ackP)), ver: uint64(r.Intn(2)),
			proto: uint64(r.Pick([]int{0x0800, 0x86dd, 0x6558, 0x880b, 0, 0xffff, 0x1234})), offset: 0, key: r.U64() & 0xffffffff, seq: r.U64() & 0xffffffff, ack: r.U64() & 0xffffffff}
		if f.c {
			if b, err := buildGre(f, pl, false); err == nil {
				if w, ok := solveWord(refWordSum(b), T); ok {
					f.offset = uint64(w)
				}
			}
		}
		n := 4 + len(pl)
		for _, b := range []bool{f.c, f.k, f.s, f.a} {
			if b {
				n += 4
			}
		}
		b := func(x bool) int { return boolInt(x) }
		return fmt.Sprintf("cksum emit gre - - - %d %d %d %d %d %d %d %d %d %d %d %d %s", b(f.c), b(f.k), b(f.s), b(f.a), f.recur, f.flags, f.ver, f.proto, f.offset, f.key, f.seq, f.ack, lib.Hex(pl)), n
	}
	return "", 0
}

func boolInt(b bool) int {
	if b {
		return 1
	}
	return 0
}

// targetedBit: a bit inside an interesting field of the emitted bytes
func targetedBit(r *lib.Rand, proto string, n int) int {
	by := ckOffset[proto]
	switch r.Intn(3) {
	case 0:
		by += r.Intn(2) // checksum field
	case 1:
		switch proto {
		case "udp":
			by = 4 + r.Intn(2)
		case "tcp":
			by = 12
		case "ip4":
			by = r.Pick([]int{0, 2, 3})
		case "gre":
			by = r.Intn(2)
		default:
			by = r.Intn(n)
		}
	default:
		by = n - 1 // last byte (odd/even tail)
	}
	if by >= n {
		by = n - 1
	}
	return by*8 + r.Intn(8)
}

func emitCase(r *lib.Rand, emit func(string), c combo, T uint16, odd bool, flips int, pv bool) {
	line, n := emitLine(r, c, T, odd, 64)
	if line == "" {
		return
	}
	emit("reset")
	emit(line)
	emit("cksum vlast")
	for i := 0; i < flips && n > 0; i++ {
		if r.Chance(40) {
			emit(fmt.Sprintf("cksum flip %d", targetedBit(r, c.proto, n)))
		} else {
			emit(fmt.Sprintf("cksum flip %d", r.Intn(8*n)))
		}
	}
	if pv && c.proto != "ip4" {
		emit("cksum pverify -")
		if n > 0 {
			emit(fmt.Sprintf("cksum pverify %d", r.Intn(8*n)))
		}
	}
}

var foldBoundaries = []uint64{0, 1, 2, 0xfffe, 0xffff, 0x10000, 0x10001, 0x1fffe, 0x1ffff, 0x20000, 0xfffe0001, 0xfffeffff, 0xffff0000, 0xffff0001,
	0xfffffffe, 0xffffffff, 0x7fffffff, 0x80000000, 0x0000ffff * 2, 0xffff * 65535, 0xffff*65537 - 1, 0x00010000 * 0xffff}

func gen(r *lib.Rand, tier string, emit func(string)) {
	thorough := tier == "thorough"

	// ---- GRE "no checksum" encodings: C clear with every combination of the other header bits, in particular
	// R set / C clear (the checksum word is present but does not carry a checksum); payload = zero words so that a
	// routing walk ends at once.  `verify` on hand-built headers, `emit` + flips of the R, K, S bits.
	for hb := 0; hb < 16; hb++ { // C R K S in the top nibble of byte 0
		for _, tail := range []string{"0000000000000000", "00000000000000000000000000000000", "1234000000000000000000000000"} {
			emit("reset")
			emit(fmt.Sprintf("cksum verify gre - - - %02x000800%s", hb<<4, tail))
		}
	}
	for _, k := range []int{0, 1} {
		for _, sq := range []int{0, 1} {
			emit("reset")
			emit(fmt.Sprintf("cksum emit gre - - - 0 %d %d 0 0 0 0 2048 0 7 9 0 0000000000000000", k, sq))
			emit("cksum vlast")
			emit("cksum flip 1") // R bit
			emit("cksum flip 2")
			emit("cksum flip 3")
		}
	}

	// ---- fold: boundary accumulators, random, and the Go-side exhaustive sweep against the closed form
	emit("reset")
	for _, c := range foldBoundaries {
		emit(fmt.Sprintf("cksum fold %d", c))
	}
	for i := 0; i < 2000; i++ {
		c := r.U64() & 0xffffffff
		switch r.Intn(4) {
		case 0:
			c &= 0x1ffff
		case 1:
			c = (c & 0xffff) * 65535 // multiples of 0xffff
		}
		emit(fmt.Sprintf("cksum fold %d", c))
	}
	emit("reset")
	if thorough {
		for lo := uint64(0); lo < 1<<32; lo += 1 << 28 {
			emit(fmt.Sprintf("cksum foldsweep %d %d", lo, lo+1<<28))
		}
	} else {
		emit(fmt.Sprintf("cksum foldsweep 0 %d", 1<<22))
		emit(fmt.Sprintf("cksum foldsweep %d %d", uint64(1<<32-1<<22), uint64(1<<32)))
		lo := (r.U64() & 0xffffffff) &^ (1<<22 - 1)
		emit(fmt.Sprintf("cksum foldsweep %d %d", lo, lo+1<<22))
	}

	// ---- sum: short strings of every small length, boundary accumulators, long inputs around the uint32 wrap
	emit("reset")
	accs := []uint64{0, 1, 0xffff, 0x10000, 0xfffe0000, 0xffff0000, 0xffffff00, 0xfffffffe, 0xffffffff}
	for n := 0; n <= 9; n++ {
		for _, c := range accs {
			emit(fmt.Sprintf("cksum sum %s %d", lib.Hex(r.Bytes(n)), c))
		}
	}
	emit("cksum sum ffff 4294967295")
	emit("cksum sum 0001 4294967295")
	emit("cksum sum ff 4294901760")
	nsum := 2000
	if thorough {
		nsum = 40000
	}
	for i := 0; i < nsum; i++ {
		c := r.U64() & 0xffffffff
		if r.Chance(60) {
			c &= 0xfffff
		}
		emit(fmt.Sprintf("cksum sum %s %d", lib.Hex(r.Bytes(r.Intn(80))), c))
	}
	emit("reset")
	// 65537 words of 0xffff is the largest all-ones input a uint32 holds; one more word wraps
	for _, l := range []string{"r65536xffff+-", "r65537xffff+-", "r65538xffff+-", "r65538xffff+ff", "r65539xffff+-", "r131072xffff+-", "r131076xffff+01",
		"r131074xff+-", "r131075xff+-", "r131076xff+-", "r131077xff+-", "r262144xff+-", "r266240xfe+-", "r65538xfffe+-", "r70000xfff0+0f"} {
		emit("cksum sum " + l + " 0")
		emit("cksum sum " + l + " 65535")
	}
	nlong := 24
	if thorough {
		nlong = 300
	}
	for i := 0; i < nlong; i++ {
		pat := r.Bytes(r.Pick([]int{1, 2, 2, 3, 4, 8}))
		if r.Chance(50) {
			for j := range pat {
				pat[j] |= 0xf0
			}
		}
		total := 131072 + r.Intn(135168) // 128 KiB .. 260 KiB
		tail := r.Bytes(r.Intn(4))
		emit(fmt.Sprintf("cksum sum r%dx%s+%s %d", total/len(pat), lib.Hex(pat), lib.Hex(tail), r.Pick([]int{0, 0, 17, 0xffff, 0x1fffe})))
	}

	// ---- pseudo-header sums
	emit("reset")
	for i := 0; i < 300; i++ {
		s, d := randAddr(r, "4")
		emit(fmt.Sprintf("cksum pseudo4 %s %s", lib.Hex(s), lib.Hex(d)))
		s, d = randAddr(r, "6")
		emit(fmt.Sprintf("cksum pseudo6 %s %s", lib.Hex(s), lib.Hex(d)))
	}

	// ---- emission + verification + bit flips, every checksum outcome
	full := map[string]bool{"udp": true, "icmp4": true}
	boundary := []uint16{0, 1, 2, 0x00ff, 0x0100, 0x7fff, 0x8000, 0xff00, 0xfffe, 0xffff}
	for _, c := range combos {
		if thorough || full[c.proto] {
			for T := 0; T < 65536; T++ {
				flips := 1
				if T%8 == 0 || T < 4 || T > 65531 {
					flips = 3
				}
				emitCase(r, emit, c, uint16(T), (T>>1)&1 == 1, flips, T%16 == 0 || T < 2 || T > 65533)
			}
			continue
		}
		for _, T := range boundary {
			emitCase(r, emit, c, T, false, 4, true)
			emitCase(r, emit, c, T, true, 4, true)
		}
		for i := 0; i < 4096; i++ {
			emitCase(r, emit, c, uint16(r.Intn(65536)), r.Bool(), 2, i%8 == 0)
		}
	}

	// ---- every single bit of a few emitted packets
	nall := 6
	if thorough {
		nall = 60
	}
	for _, c := range combos {
		for i := 0; i < nall; i++ {
			line, n := emitLine(r, c, uint16(r.Pick([]int{0, 1, 0x1234, 0xfffe, 0xffff, r.Intn(65536)})), i%2 == 1, 24)
			emit("reset")
			emit(line)
			emit("cksum vlast")
			for b := 0; b < 8*n; b++ {
				emit(fmt.Sprintf("cksum flip %d", b))
			}
		}
	}

	// ---- large segments: lengths above 64 KiB (length word >> 16) and above 128 KiB (sum beyond 2^32)
	big := []string{"r35000xffff+-", "r35000xffff+ff", "r65530xffff+-", "r65540xffff+-", "r65540xffff+ff", "r100000xfffe+-", "r131072xffff+-", "r140000xf1f2f3+00"}
	if thorough {
		for i := 0; i < 40; i++ {
			pat := r.Bytes(2)
			pat[0] |= 0xf0
			big = append(big, fmt.Sprintf("r%dx%s+%s", 60000+r.Intn(80000), lib.Hex(pat), lib.Hex(r.Bytes(r.Intn(2)))))
		}
	}
	for _, pl := range big {
		s6, d6 := randAddr(r, "6")
		for _, l := range []string{
			fmt.Sprintf("cksum emit udp 6 %s %s %d %d %s", lib.Hex(s6), lib.Hex(d6), 1024+r.Intn(60000), 1024+r.Intn(60000), pl),
			fmt.Sprintf("cksum emit tcp 6 %s %s %d %d %d %d 16 %d 0 0 0 - %s", lib.Hex(s6), lib.Hex(d6), r.Intn(65536), r.Intn(65536), r.Intn(1<<31), r.Intn(1<<31), r.Intn(65536), pl),
			fmt.Sprintf("cksum emit icmp6 6 %s %s 128 0 %s", lib.Hex(s6), lib.Hex(d6), pl),
			fmt.Sprintf("cksum emit icmp4 - - - 8 0 %d %d %s", r.Intn(65536), r.Intn(65536), pl),
			fmt.Sprintf("cksum emit gre - - - 1 0 0 0 0 0 0 2048 0 0 0 0 %s", pl),
		} {
			emit("reset")
			emit(l)
			emit("cksum vlast")
			emit(fmt.Sprintf("cksum flip %d", r.Intn(64)))
			emit(fmt.Sprintf("cksum flip %d", 64+r.Intn(8*60000)))
		}
	}
	// UDP over IPv4 with a payload that does not fit the 16-bit length field (no reference value: correspondence only)
	emit("reset")
	emit("cksum emit udp 4 0a000001 0a000002 1000 2000 r32764xabcd+-")
	emit("cksum vlast")

	// ---- verification of arbitrary / truncated / malformed segments (decoder delimitation, error paths)
	nmal := 3000
	if thorough {
		nmal = 40000
	}
	for i := 0; i < nmal; i++ {
		c := combos[r.Intn(len(combos))]
		src, dst := randAddr(r, c.ipver)
		var b []byte
		if r.Chance(50) {
			// a well-formed segment, truncated / extended / with a few mutated header bytes
			line, _ := emitLine(r, c, uint16(r.Intn(65536)), r.Bool(), 40)
			b = segOfLine(line)
			switch r.Intn(4) {
			case 0:
				if len(b) > 0 {
					b = b[:r.Intn(len(b)+1)]
				}
			case 1:
				b = append(b, r.Bytes(1+r.Intn(6))...)
			case 2:
				for k := 0; k < 1+r.Intn(3) && len(b) > 0; k++ {
					b[r.Intn(min(len(b), 24))] = byte(r.Intn(256))
				}
			}
		} else {
			b = r.Bytes(r.Intn(48))
			if c.proto == "ip4" && len(b) > 0 {
				b[0] = 0x40 | byte(r.Pick([]int{5, 5, 5, 6, 7, 4, 15}))
			}
			if c.proto == "tcp" && len(b) > 12 {
				b[12] = byte(r.Pick([]int{5, 5, 6, 7, 8, 4, 15}))<<4 | b[12]&0xf
			}
		}
		if i%50 == 0 {
			emit("reset")
		}
		emit(fmt.Sprintf("cksum verify %s %s %s", c.proto, netStr(c.ipver, src, dst), lib.Hex(b)))
	}

	// ---- unparseable operations
	emit("reset")
	for _, l := range []string{"cksum", "cksum fold", "cksum fold 4294967296", "cksum fold -1", "cksum sum zz 0", "cksum sum 00 4294967296", "cksum pseudo4 010203 01020304",
		"cksum emit udp 4 01020304 0506070809 1 2 -", "cksum emit udp 5 01020304 05060708 1 2 -", "cksum emit tcp 4 01020304 05060708 1 2 3 4 5 6 7 41 0 - -",
		"cksum emit tcp 4 01020304 05060708 1 2 3 4 5 6 7 0 30 0000 -", "cksum emit ip4 - 01020304 05060708 0 0 0 0 0 0 1 00 -", "cksum flip 0", "cksum vlast", "cksum pverify -",
		"cksum verify foo - - - 00", "cksum verify tcp - - - 00", "cksum verify icmp4 4 01020304 05060708 00", "cksum emit gre - - - 1 0 0 0 8 0 0 0 0 0 0 0 -", "cksum nothing"} {
		emit(l)
	}
}

// segOfLine executes an emit line on the real code and returns the emitted bytes (generator-side helper
// for the mutation stream).
func segOfLine(line string) []byte {
	saved := st
	defer func() { st = saved }()
	reply, _ := lib.Protect(func() string { return exec(strings.Fields(line)) })
	if !strings.HasPrefix(reply, "ok ") {
		return nil
	}
	return append([]byte(nil), st.bytes...)
}
