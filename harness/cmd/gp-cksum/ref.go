package main

// Independent reference implementation of the Internet checksum (RFC 1071), used by the monitors and
// by the generator's solver.  Deliberately written differently from checksum.go: the words are added
// into a uint64 (cannot overflow below 2^48 words) and the carries are folded back at the end.

// refWordSum: plain sum of the big-endian 16-bit words; an odd trailing byte is padded with zero.
func refWordSum(b []byte) uint64 {
	var s uint64
	n := len(b)
	for i := 0; i+1 < n; i += 2 {
		s += uint64(b[i])<<8 | uint64(b[i+1])
	}
	if n%2 == 1 {
		s += uint64(b[n-1]) << 8
	}
	return s
}

// refFold: one's-complement fold of a sum to 16 bits (end-around carry), complemented.
func refFold(s uint64) uint16 {
	for s>>16 != 0 {
		s = (s & 0xffff) + (s >> 16)
	}
	return ^uint16(s)
}

// refChecksum: RFC 1071 checksum of pseudo ++ seg where the 16-bit field at seg[off:off+2] counts as zero.
func refChecksum(pseudo, seg []byte, off int) uint16 {
	s := refWordSum(pseudo) + refWordSum(seg)
	if off+1 < len(seg) && off%2 == 0 {
		s -= uint64(seg[off])<<8 | uint64(seg[off+1])
	}
	return refFold(s)
}

var protoNum = map[string]byte{"tcp": 6, "udp": 17, "icmp6": 58}

// pseudoBytes: the pseudo-header byte string a checksum of `proto` over IPv<ipver> covers for an
// upper-layer length n; empty for protocols without pseudo-header; ok=false when the length does not
// fit the pseudo-header's length field (no reference value is defined then).
func pseudoBytes(proto, ipver string, src, dst []byte, n int) ([]byte, bool) {
	p, has := protoNum[proto]
	if !has {
		return nil, true
	}
	switch ipver {
	case "4":
		if n > 0xffff {
			return nil, false
		}
		out := append(append([]byte{}, src...), dst...)
		return append(out, 0, p, byte(n>>8), byte(n)), true
	case "6":
		if uint64(n) > 0xffffffff {
			return nil, false
		}
		out := append(append([]byte{}, src...), dst...)
		return append(out, byte(n>>24), byte(n>>16), byte(n>>8), byte(n), 0, 0, 0, p), true
	}
	return nil, false
}
