// gp-leap: correspondence adapter + monitors for engine `leap`
// (layers/eap.go, layers/eapol.go: DecodeFromBytes, SerializeTo, NextLayerType, CanDecode of EAP, EAPOL and
// EAPOLKey, decodeEAP/decodeEAPOL/decodeEAPOLKey, and the DecodingLayerParser over {EAPOL, EAP}).
//
// Properties served: C19 (no panics), C05 (no stale state / capacity independence / packet path =
// preallocated path), C06 (round trip), C07 (serializer totality, buffer independence, idempotence).
// None of the three layers exposes a flow (C17 has no instance here).
package main

import (
	"bytes"
	"errors"
	"fmt"
	"os"
	"runtime/debug"
	"sort"
	"strings"

	"github.com/gopacket/gopacket"
	"github.com/gopacket/gopacket/layers"
	"verif/harness/lib"
)

// ---------------------------------------------------------------- state of one case

// codec: what the three layer types have in common.  (*EAPOLKey is NOT a gopacket.DecodingLayer: its
// CanDecode returns gopacket.LayerType instead of gopacket.LayerClass.)
type codec interface {
	gopacket.Layer
	DecodeFromBytes([]byte, gopacket.DecodeFeedback) error
	NextLayerType() gopacket.LayerType
	SerializeTo(gopacket.SerializeBuffer, gopacket.SerializeOptions) error
}

var (
	cur     map[string]codec // objects re-used by `redec`
	pEapol  *layers.EAPOL    // objects owned by the DecodingLayerParsers
	pEap    *layers.EAP
	parsers map[string]*gopacket.DecodingLayerParser
)

var kinds = []string{"eap", "eapol", "eapolkey"}
var dlpKinds = []string{"eapol", "eap"}

func newObj(kind string) codec {
	switch kind {
	case "eap":
		return &layers.EAP{}
	case "eapol":
		return &layers.EAPOL{}
	case "eapolkey":
		return &layers.EAPOLKey{}
	}
	return nil
}

func layerTypeOf(kind string) gopacket.LayerType {
	switch kind {
	case "eap":
		return layers.LayerTypeEAP
	case "eapol":
		return layers.LayerTypeEAPOL
	}
	return layers.LayerTypeEAPOLKey
}

func reset() {
	cur = map[string]codec{}
	for _, k := range kinds {
		cur[k] = newObj(k)
	}
	newParser()
}

func newParser() {
	pEapol, pEap = &layers.EAPOL{}, &layers.EAP{}
	parsers = map[string]*gopacket.DecodingLayerParser{}
	for _, k := range dlpKinds {
		p := gopacket.NewDecodingLayerParser(layerTypeOf(k), pEapol, pEap)
		p.IgnorePanic = true // let panics through (C19: "a layer parser that lets panics through")
		parsers[k] = p
	}
}

type feedback struct{ truncated bool }

func (f *feedback) SetTruncated() { f.truncated = true }

func b01(b bool) string {
	if b {
		return "1"
	}
	return "0"
}

func keyFlags(l *layers.EAPOLKey) string {
	return b01(l.Install) + b01(l.KeyACK) + b01(l.KeyMIC) + b01(l.Secure) + b01(l.MICError) + b01(l.Request) +
		b01(l.HasEncryptedKeyData) + b01(l.SMKMessage)
}

func render(l gopacket.Layer) string {
	switch l := l.(type) {
	case *layers.EAP:
		return fmt.Sprintf("code=%d id=%d len=%d type=%d data=%s contents=%s payload=%s next=%d",
			uint8(l.Code), l.Id, l.Length, uint8(l.Type), lib.Hex(l.TypeData), lib.Hex(l.Contents), lib.Hex(l.Payload), int(l.NextLayerType()))
	case *layers.EAPOL:
		return fmt.Sprintf("ver=%d type=%d len=%d contents=%s payload=%s next=%d", l.Version, uint8(l.Type), l.Length,
			lib.Hex(l.Contents), lib.Hex(l.Payload), int(l.NextLayerType()))
	case *layers.EAPOLKey:
		return fmt.Sprintf("kdt=%d ver=%d kt=%d ki=%d flags=%s klen=%d rc=%d nonce=%s iv=%s rsc=%d id=%d mic=%s kdl=%d ekd=%s contents=%s payload=%s next=%d",
			uint8(l.KeyDescriptorType), uint8(l.KeyDescriptorVersion), uint8(l.KeyType), l.KeyIndex, keyFlags(l), l.KeyLength,
			l.ReplayCounter, lib.Hex(l.Nonce), lib.Hex(l.IV), l.RSC, l.ID, lib.Hex(l.MIC), l.KeyDataLength,
			lib.Hex(l.EncryptedKeyData), lib.Hex(l.Contents), lib.Hex(l.Payload), int(l.NextLayerType()))
	}
	return "?"
}

// differingField names the first public field (incl. Contents/Payload) in which two layers differ.
func differingField(a, b gopacket.Layer) string {
	switch x := a.(type) {
	case *layers.EAP:
		y, ok := b.(*layers.EAP)
		switch {
		case !ok:
			return "type"
		case x.Code != y.Code:
			return "Code"
		case x.Id != y.Id:
			return "Id"
		case x.Length != y.Length:
			return "Length"
		case x.Type != y.Type:
			return "Type"
		case !bytes.Equal(x.TypeData, y.TypeData):
			return "TypeData"
		case !bytes.Equal(x.Contents, y.Contents):
			return "Contents"
		case !bytes.Equal(x.Payload, y.Payload):
			return "Payload"
		}
	case *layers.EAPOL:
		y, ok := b.(*layers.EAPOL)
		switch {
		case !ok:
			return "type"
		case x.Version != y.Version:
			return "Version"
		case x.Type != y.Type:
			return "Type"
		case x.Length != y.Length:
			return "Length"
		case !bytes.Equal(x.Contents, y.Contents):
			return "Contents"
		case !bytes.Equal(x.Payload, y.Payload):
			return "Payload"
		}
	case *layers.EAPOLKey:
		y, ok := b.(*layers.EAPOLKey)
		switch {
		case !ok:
			return "type"
		case x.KeyDescriptorType != y.KeyDescriptorType:
			return "KeyDescriptorType"
		case x.KeyDescriptorVersion != y.KeyDescriptorVersion:
			return "KeyDescriptorVersion"
		case x.KeyType != y.KeyType:
			return "KeyType"
		case x.KeyIndex != y.KeyIndex:
			return "KeyIndex"
		case x.Install != y.Install:
			return "Install"
		case x.KeyACK != y.KeyACK:
			return "KeyACK"
		case x.KeyMIC != y.KeyMIC:
			return "KeyMIC"
		case x.Secure != y.Secure:
			return "Secure"
		case x.MICError != y.MICError:
			return "MICError"
		case x.Request != y.Request:
			return "Request"
		case x.HasEncryptedKeyData != y.HasEncryptedKeyData:
			return "HasEncryptedKeyData"
		case x.SMKMessage != y.SMKMessage:
			return "SMKMessage"
		case x.KeyLength != y.KeyLength:
			return "KeyLength"
		case x.ReplayCounter != y.ReplayCounter:
			return "ReplayCounter"
		case !bytes.Equal(x.Nonce, y.Nonce):
			return "Nonce"
		case !bytes.Equal(x.IV, y.IV):
			return "IV"
		case x.RSC != y.RSC:
			return "RSC"
		case x.ID != y.ID:
			return "ID"
		case !bytes.Equal(x.MIC, y.MIC):
			return "MIC"
		case x.KeyDataLength != y.KeyDataLength:
			return "KeyDataLength"
		case !bytes.Equal(x.EncryptedKeyData, y.EncryptedKeyData):
			return "EncryptedKeyData"
		case !bytes.Equal(x.Contents, y.Contents):
			return "Contents"
		case !bytes.Equal(x.Payload, y.Payload):
			return "Payload"
		}
	default:
		return "type"
	}
	return ""
}

// inBuf places data at the start of a backing array with `len(foreign)` spare bytes of capacity holding
// the foreign bytes, and returns the slice data[:len] with cap = len + len(foreign).
func inBuf(data, foreign []byte) []byte {
	back := make([]byte, len(data)+len(foreign))
	copy(back, data)
	copy(back[len(data):], foreign)
	return back[:len(data)]
}

func exact(data []byte) []byte { // cap == len
	c := make([]byte, len(data))
	copy(c, data)
	return c[:len(data):len(data)]
}

func isOurSite(site string) bool {
	return strings.HasPrefix(site, "layers/eap.go") || strings.HasPrefix(site, "layers/eapol.go") ||
		strings.HasPrefix(site, "layers/base.go")
}

// protect is lib.Protect with a panic-site extraction that also works when the repository under test
// is a scratch tree (VERIF_REPO): the site is the top-most stack frame inside the repository.
var lastSite, lastMsg string

func protect(f func() string) (reply string, panicked bool) {
	defer func() {
		if v := recover(); v != nil {
			lastMsg = fmt.Sprint(v)
			lastSite = siteOf(string(debug.Stack()))
			reply = "panic " + lib.PanicKind(v)
			panicked = true
		}
	}()
	return f(), false
}

func siteOf(stack string) string {
	root := os.Getenv("VERIF_REPO")
	if root == "" {
		root = "/repo"
	}
	root = strings.TrimRight(root, "/") + "/"
	for _, l := range strings.Split(stack, "\n") {
		l = strings.TrimSpace(l)
		if !strings.Contains(l, ".go:") {
			continue
		}
		f := strings.Fields(l)[0]
		if strings.HasPrefix(f, root) {
			return f[len(root):]
		}
		if j := strings.LastIndex(f, "gopacket/"); j >= 0 && !strings.Contains(f, "/verif/") {
			return f[j+len("gopacket/"):]
		}
	}
	return "?"
}

// guarded runs f; a panic is reported as a C19 finding with its site and returned as "panic <kind>".
func guarded(what string, f func() string) string {
	reply, panicked := protect(f)
	if panicked {
		lib.Finding("C19", "leap:panic:"+lastSite, what+" panicked: "+lastMsg)
		lib.Stat("panic")
	}
	return reply
}

// ---------------------------------------------------------------- decode ops

// decInto: DecodeFromBytes into obj; the reply renders the receiver on an error too (what the failed call left).
func decInto(obj codec, data []byte) (string, error, bool) {
	fb := &feedback{}
	err := obj.DecodeFromBytes(data, fb)
	if err != nil {
		return "err trunc=" + b01(fb.truncated) + " | " + render(obj), err, fb.truncated
	}
	return "ok " + render(obj) + " trunc=" + b01(fb.truncated), nil, fb.truncated
}

func statDec(kind string, obj codec, err error, tr bool) {
	if err != nil {
		if tr {
			lib.Stat(kind + ":dec:err-trunc")
		} else {
			lib.Stat(kind + ":dec:err")
		}
		return
	}
	lib.Stat(kind + ":dec:ok")
	lib.Nontrivial()
	switch l := obj.(type) {
	case *layers.EAP:
		if l.Length == 4 {
			lib.Stat("eap:dec:no-type")
		} else {
			lib.Stat("eap:dec:with-type")
			if len(l.TypeData) == 0 {
				lib.Stat("eap:dec:type-without-data")
			}
		}
		if len(l.Payload) > 0 {
			lib.Stat("eap:dec:trailing-bytes")
		}
	case *layers.EAPOL:
		if l.NextLayerType() != gopacket.LayerTypeZero {
			lib.Stat(fmt.Sprintf("eapol:dec:next=%d", int(l.NextLayerType())))
		} else {
			lib.Stat("eapol:dec:no-next")
		}
	case *layers.EAPOLKey:
		switch {
		case l.HasEncryptedKeyData && l.KeyDataLength > 0:
			lib.Stat("eapolkey:dec:encrypted-keydata")
		case l.HasEncryptedKeyData:
			lib.Stat("eapolkey:dec:encrypted-empty")
		case l.KeyDataLength > 0:
			lib.Stat("eapolkey:dec:plain-keydata")
		default:
			lib.Stat("eapolkey:dec:no-keydata")
		}
		if len(l.Payload) > int(l.KeyDataLength) || (l.HasEncryptedKeyData && len(l.Payload) > 0) {
			lib.Stat("eapolkey:dec:trailing-bytes")
		}
	}
}

func checkCanDecode(kind string, obj codec) {
	ok := false
	switch l := obj.(type) {
	case *layers.EAP:
		ok = l.CanDecode() == gopacket.LayerClass(layers.LayerTypeEAP)
	case *layers.EAPOL:
		ok = l.CanDecode() == gopacket.LayerClass(layers.LayerTypeEAPOL)
	case *layers.EAPOLKey:
		ok = l.CanDecode() == layers.LayerTypeEAPOLKey
	}
	if !ok {
		lib.Finding("C05", "leap:candecode:"+kind, "CanDecode is not the layer's own type")
	}
}

func opDec(kind string, extra int, foreign, data []byte) string {
	if len(foreign) != extra || newObj(kind) == nil {
		return "bad-op"
	}
	return guarded(kind+".DecodeFromBytes", func() string {
		obj := newObj(kind)
		cur[kind] = obj
		reply, err, tr := decInto(obj, inBuf(data, foreign))
		statDec(kind, obj, err, tr)
		checkCanDecode(kind, obj)
		// C05/C04 oracle: the same bytes in a buffer with cap == len
		ref := newObj(kind)
		refReply, _, _ := decInto(ref, exact(data))
		if reply != refReply {
			lib.Finding("C05", "leap:cap-dependent", kind+" decode depends on spare capacity / foreign bytes: "+reply+" vs "+refReply)
		}
		if extra > 0 {
			lib.Stat(kind + ":dec:spare-cap")
		}
		return reply
	})
}

func opRedec(kind string, data []byte) string {
	if newObj(kind) == nil {
		return "bad-op"
	}
	return guarded(kind+".DecodeFromBytes", func() string {
		obj := cur[kind]
		reply, err, tr := decInto(obj, exact(data))
		statDec(kind, obj, err, tr)
		lib.Stat(kind + ":redec")
		fresh := newObj(kind)
		fb := &feedback{}
		ferr := fresh.DecodeFromBytes(exact(data), fb)
		if (ferr != nil) != (err != nil) {
			lib.Finding("C05", "leap:stale:error", kind+": reused object and fresh object disagree on the error")
		} else {
			if err == nil {
				if f := differingField(obj, fresh); f != "" {
					lib.Finding("C05", "leap:stale:"+f, kind+"."+f+" differs between a reused and a fresh object")
				}
			}
			if fb.truncated != tr {
				lib.Finding("C05", "leap:stale:Truncated", kind+": truncation flag differs between a reused and a fresh object")
			}
		}
		return reply
	})
}

// ---------------------------------------------------------------- serialize ops

const dirtyFill = 200

func mkBuffer(hist string) (gopacket.SerializeBuffer, bool) {
	switch {
	case hist == "fresh":
		return gopacket.NewSerializeBuffer(), true
	case strings.HasPrefix(hist, "dirty"):
		v, ok := lib.Atoi(hist[5:])
		if !ok || v < 0 || v > 255 {
			return nil, false
		}
		b := gopacket.NewSerializeBuffer()
		s, _ := b.AppendBytes(dirtyFill)
		for i := range s {
			s[i] = byte(v)
		}
		s, _ = b.PrependBytes(dirtyFill)
		for i := range s {
			s[i] = byte(v)
		}
		b.Clear()
		return b, true
	case strings.HasPrefix(hist, "sized"):
		n, ok := lib.Atoi(hist[5:])
		if !ok || n < 0 || n >= 100000 {
			return nil, false
		}
		return gopacket.NewSerializeBufferExpectedSize(n, n), true
	}
	return nil, false
}

func parsePayload(s string) ([]byte, bool) {
	if strings.HasPrefix(s, "z") {
		parts := strings.Split(s[1:], "x")
		if len(parts) != 2 {
			return nil, false
		}
		n, ok := lib.Atoi(parts[0])
		v, ok2 := lib.UnHex(parts[1])
		if !ok || !ok2 || len(v) != 1 || n < 0 || n > 200000 {
			return nil, false
		}
		return bytes.Repeat(v, n), true
	}
	return lib.UnHex(s)
}

func parseBool(s string) (bool, bool) {
	switch s {
	case "1":
		return true, true
	case "0":
		return false, true
	}
	return false, false
}

func atoiBelow(s string, bound uint64) (uint64, bool) {
	n, ok := lib.Atou(s)
	if !ok || n >= bound {
		return 0, false
	}
	return n, true
}

func putPayload(b gopacket.SerializeBuffer, p []byte) {
	gopacket.Payload(p).SerializeTo(b, gopacket.SerializeOptions{})
}

// serOnce serialises layer l over payload p into buffer b; returns (bytes, error?) and converts a
// panic into a C07 finding.
func serOnce(l codec, b gopacket.SerializeBuffer, p []byte, opts gopacket.SerializeOptions) (out []byte, failed bool, panicked bool) {
	reply, pk := protect(func() string {
		putPayload(b, p)
		if err := l.SerializeTo(b, opts); err != nil {
			return "err"
		}
		return "ok"
	})
	if pk {
		lib.Finding("C07", "leap:ser-panic:"+lastSite, "SerializeTo panicked: "+lastMsg)
		return nil, false, true
	}
	if reply == "err" {
		return nil, true, false
	}
	return append([]byte(nil), b.Bytes()...), false, false
}

// serMonitors: the C07 oracles on the real code for one (layer, payload, options).
// mk must return a NEW layer object with the same public field values on every call.
func serMonitors(name string, mk func() codec, p []byte, opts gopacket.SerializeOptions, got []byte, gotErr bool) {
	// (a) buffer independence: fresh, dirty 0xA5 / 0x5A, pre-sized
	for _, h := range []string{"fresh", "dirty165", "dirty90", "sized7", "sized2000"} {
		b, _ := mkBuffer(h)
		out, failed, pk := serOnce(mk(), b, p, opts)
		if pk {
			return
		}
		if failed != gotErr || (!failed && !bytes.Equal(out, got)) {
			lib.Finding("C07", "leap:dirty-buffer", name+": output differs between buffer histories ("+h+")")
			return
		}
	}
	// (b) idempotence: the same (mutated) object again over the same payload
	l := mk()
	o1, f1, pk := serOnce(l, gopacket.NewSerializeBuffer(), p, opts)
	if pk {
		return
	}
	o2, f2, pk := serOnce(l, gopacket.NewSerializeBuffer(), p, opts)
	if pk {
		return
	}
	if f1 != f2 || !bytes.Equal(o1, o2) {
		what := "bytes differ"
		if f1 != f2 {
			what = fmt.Sprintf("first call error=%v, second call error=%v", f1, f2)
		}
		lib.Finding("C07", "leap:not-idempotent", name+": serialising the same layer twice differs: "+what)
	}
}

func cp(b []byte) []byte { return append([]byte{}, b...) }

// parseEap: code id length type typedata
func parseEap(a []string) (func() codec, bool) {
	if len(a) != 5 {
		return nil, false
	}
	code, ok1 := atoiBelow(a[0], 256)
	id, ok2 := atoiBelow(a[1], 256)
	ln, ok3 := atoiBelow(a[2], 65536)
	typ, ok4 := atoiBelow(a[3], 256)
	td, ok5 := parsePayload(a[4]) // hex or z<n>x<hh>
	if !(ok1 && ok2 && ok3 && ok4 && ok5) {
		return nil, false
	}
	return func() codec {
		return &layers.EAP{Code: layers.EAPCode(code), Id: uint8(id), Length: uint16(ln), Type: layers.EAPType(typ), TypeData: cp(td)}
	}, true
}

// parseEapol: version type length
func parseEapol(a []string) (func() codec, bool) {
	if len(a) != 3 {
		return nil, false
	}
	ver, ok1 := atoiBelow(a[0], 256)
	typ, ok2 := atoiBelow(a[1], 256)
	ln, ok3 := atoiBelow(a[2], 65536)
	if !(ok1 && ok2 && ok3) {
		return nil, false
	}
	return func() codec {
		return &layers.EAPOL{Version: uint8(ver), Type: layers.EAPOLType(typ), Length: uint16(ln)}
	}, true
}

// parseKey: kdt ver kt ki flags klen rc nonce iv rsc id mic kdl ekd
func parseKey(a []string) (func() codec, bool) {
	if len(a) != 14 {
		return nil, false
	}
	kdt, ok1 := atoiBelow(a[0], 256)
	ver, ok2 := atoiBelow(a[1], 256)
	kt, ok3 := atoiBelow(a[2], 256)
	ki, ok4 := atoiBelow(a[3], 256)
	fl := a[4]
	if len(fl) != 8 || strings.Trim(fl, "01") != "" {
		return nil, false
	}
	klen, ok5 := atoiBelow(a[5], 65536)
	rc, ok6 := lib.Atou(a[6])
	nonce, ok7 := lib.UnHex(a[7])
	iv, ok8 := lib.UnHex(a[8])
	rsc, ok9 := lib.Atou(a[9])
	id, ok10 := lib.Atou(a[10])
	mic, ok11 := lib.UnHex(a[11])
	kdl, ok12 := atoiBelow(a[12], 65536)
	ekd, ok13 := lib.UnHex(a[13])
	if !(ok1 && ok2 && ok3 && ok4 && ok5 && ok6 && ok7 && ok8 && ok9 && ok10 && ok11 && ok12 && ok13) {
		return nil, false
	}
	f := func(i int) bool { return fl[i] == '1' }
	return func() codec {
		return &layers.EAPOLKey{KeyDescriptorType: layers.EAPOLKeyDescriptorType(kdt), KeyDescriptorVersion: layers.EAPOLKeyDescriptorVersion(ver),
			KeyType: layers.EAPOLKeyType(kt), KeyIndex: uint8(ki), Install: f(0), KeyACK: f(1), KeyMIC: f(2), Secure: f(3), MICError: f(4),
			Request: f(5), HasEncryptedKeyData: f(6), SMKMessage: f(7), KeyLength: uint16(klen), ReplayCounter: rc, Nonce: cp(nonce), IV: cp(iv),
			RSC: rsc, ID: id, MIC: cp(mic), KeyDataLength: uint16(kdl), EncryptedKeyData: cp(ekd)}
	}, true
}

func parseLayer(kind string, fields []string) (func() codec, bool) {
	switch kind {
	case "eap":
		return parseEap(fields)
	case "eapol":
		return parseEapol(fields)
	case "eapolkey":
		return parseKey(fields)
	}
	return nil, false
}

func opSer(kind string, a []string) string {
	// fix csum hist <fields…> payload
	if len(a) < 5 {
		return "bad-op"
	}
	fix, ok1 := parseBool(a[0])
	csum, ok2 := parseBool(a[1])
	b, ok3 := mkBuffer(a[2])
	p, ok4 := parsePayload(a[len(a)-1])
	if !(ok1 && ok2 && ok3 && ok4) {
		return "bad-op"
	}
	mk, ok := parseLayer(kind, a[3:len(a)-1])
	if !ok {
		return "bad-op"
	}
	opts := gopacket.SerializeOptions{FixLengths: fix, ComputeChecksums: csum}
	l := mk()
	out, failed, pk := serOnce(l, b, p, opts)
	if pk {
		return "panic " + lib.PanicKind(lastMsg)
	}
	serMonitors(kind, mk, p, opts, out, failed)
	if a[2] != "fresh" {
		lib.Stat("ser:buf:" + strings.TrimRight(a[2], "0123456789"))
	}
	lib.Stat(fmt.Sprintf("ser:opts:fix%s-csum%s", a[0], a[1]))
	tail := ""
	switch x := l.(type) {
	case *layers.EAP:
		tail = fmt.Sprintf(" len=%d", x.Length) // the receiver after the call (FixLengths mutates it)
		if len(x.TypeData) == 0 && x.Type != 0 {
			lib.Stat("eap:ser:type-without-data")
		}
		if len(x.TypeData) > 65530 {
			lib.Stat("eap:ser:data>64k")
		}
	case *layers.EAPOLKey:
		if len(x.Nonce) < 32 || len(x.IV) < 16 || len(x.MIC) < 16 {
			lib.Stat("eapolkey:ser:short-field")
		}
		if len(x.Nonce) > 32 || len(x.IV) > 16 || len(x.MIC) > 16 {
			lib.Stat("eapolkey:ser:long-field")
		}
		if len(x.EncryptedKeyData) > 0 {
			lib.Stat("eapolkey:ser:keydata")
		}
	}
	if failed {
		lib.Stat(kind + ":ser:err")
		return "err" + tail
	}
	lib.Stat(kind + ":ser:ok")
	lib.Nontrivial()
	return "ok bytes=" + lib.Hex(out) + tail
}

// ---------------------------------------------------------------- round trip

var rtOpts = gopacket.SerializeOptions{FixLengths: true, ComputeChecksums: true}

func copyLayer(l codec) codec {
	switch x := l.(type) {
	case *layers.EAP:
		c := *x
		c.TypeData = cp(x.TypeData)
		return &c
	case *layers.EAPOL:
		c := *x
		return &c
	case *layers.EAPOLKey:
		c := *x
		c.Nonce, c.IV, c.MIC, c.EncryptedKeyData = cp(x.Nonce), cp(x.IV), cp(x.MIC), cp(x.EncryptedKeyData)
		return &c
	}
	return nil
}

// wfExpect: is the layer (over payload p) inside the round-trip claim, and what must come back (the layer after
// FixLengths).  Written independently of the serializers: EAP's Length is the length of the whole EAP packet (RFC 3748:
// Code, Id, Length [, Type, Type-Data]); EAPOL-Key has no FixLengths handling, so its length field must already say
// what is there.
func wfExpect(l codec, p []byte) (bool, codec) {
	w := copyLayer(l)
	switch x := w.(type) {
	case *layers.EAP:
		n := 4
		if x.Type != layers.EAPTypeNone || len(x.TypeData) > 0 {
			n = 5 + len(x.TypeData)
		}
		x.Length = uint16(n)
		return n <= 65535, x
	case *layers.EAPOL:
		return true, x
	case *layers.EAPOLKey:
		ok := x.KeyDescriptorVersion < 8 && x.KeyType < 2 && x.KeyIndex < 4 && len(x.Nonce) == 32 && len(x.IV) == 16 && len(x.MIC) == 16
		if x.HasEncryptedKeyData {
			ok = ok && int(x.KeyDataLength) == len(x.EncryptedKeyData)
		} else {
			ok = ok && len(x.EncryptedKeyData) == 0 && int(x.KeyDataLength) <= len(p)
		}
		return ok, x
	}
	return false, nil
}

// publicDiff compares the public protocol fields only (≈ of the property: Contents/Payload are ignored).
func publicDiff(a, b codec) string {
	ca, cb := copyLayer(a), copyLayer(b)
	clear := func(c codec) {
		switch x := c.(type) {
		case *layers.EAP:
			x.BaseLayer = layers.BaseLayer{}
		case *layers.EAPOL:
			x.BaseLayer = layers.BaseLayer{}
		case *layers.EAPOLKey:
			x.BaseLayer = layers.BaseLayer{}
		}
	}
	clear(ca)
	clear(cb)
	return differingField(ca, cb)
}

// rt: SerializeLayers(layer, payload) with fix+csum, decode, serialise the decoded layer again.
func rt(kind string, l codec, p []byte, decoded bool) string {
	wf, want := wfExpect(l, p)
	buf := gopacket.NewSerializeBuffer()
	if err := gopacket.SerializeLayers(buf, rtOpts, l.(gopacket.SerializableLayer), gopacket.Payload(p)); err != nil {
		lib.Stat(kind + ":rt:ser-err")
		if wf {
			lib.Finding("C06", "leap:roundtrip:ser-error", kind+": serialising a well-formed layer fails")
		}
		return "ser-err"
	}
	out := append([]byte(nil), buf.Bytes()...)
	d := newObj(kind)
	dreply, derr, dtr := decInto(d, exact(out))
	again := "none"
	if derr == nil {
		buf2 := gopacket.NewSerializeBuffer()
		pl := d.LayerPayload()
		if err := gopacket.SerializeLayers(buf2, rtOpts, d.(gopacket.SerializableLayer), gopacket.Payload(pl)); err != nil {
			again = "err"
		} else if bytes.Equal(buf2.Bytes(), out) {
			again = "same"
		} else {
			again = "diff"
		}
	}
	// C06 oracle (independent statement of the property for this layer)
	if wf {
		lib.Stat(kind + ":rt:wf")
		lib.Nontrivial()
		switch {
		case derr != nil:
			lib.Finding("C06", "leap:roundtrip:error", kind+": decoding the serialised well-formed layer fails")
		case dtr:
			lib.Finding("C06", "leap:roundtrip:Truncated", kind+": truncation flag set on a round trip")
		case publicDiff(d, want) != "":
			lib.Finding("C06", "leap:roundtrip:"+publicDiff(d, want), kind+"."+publicDiff(d, want)+" changed on a round trip")
		case !bytes.Equal(d.LayerPayload(), p):
			lib.Finding("C06", "leap:roundtrip:Payload", kind+": payload changed on a round trip")
		case again != "same":
			lib.Finding("C06", "leap:roundtrip:reserialize", kind+": serialising the decoded layer again gives "+again)
		}
	} else if decoded {
		// every decoded layer must be inside the claim
		lib.Finding("C06", "leap:roundtrip:decoded-not-wf", kind+": a decoded layer is outside the well-formedness predicate")
	} else {
		lib.Stat(kind + ":rt:not-wf")
	}
	return "ok bytes=" + lib.Hex(out) + " | " + dreply + " | again=" + again
}

func opRt(kind string, a []string) string {
	if len(a) < 2 {
		return "bad-op"
	}
	p, ok := parsePayload(a[len(a)-1])
	if !ok {
		return "bad-op"
	}
	mk, ok := parseLayer(kind, a[:len(a)-1])
	if !ok {
		return "bad-op"
	}
	l := mk()
	r, pk := protect(func() string { return rt(kind, l, p, false) })
	if pk {
		lib.Finding("C07", "leap:ser-panic:"+lastSite, "round trip panicked: "+lastMsg)
	}
	return r
}

func opRtDec(kind string, data []byte) string {
	if newObj(kind) == nil {
		return "bad-op"
	}
	return guarded("decode+round trip", func() string {
		l := newObj(kind)
		if err := l.DecodeFromBytes(exact(data), &feedback{}); err != nil {
			return "dec-err"
		}
		lib.Stat(kind + ":rtdec")
		return rt(kind, l, l.LayerPayload(), true)
	})
}

// ---------------------------------------------------------------- tracing PacketBuilder

type tracer struct {
	acts  []string
	tail  string
	added gopacket.Layer
}

func (t *tracer) SetTruncated() { t.acts = append(t.acts, "trunc") }
func (t *tracer) AddLayer(l gopacket.Layer) {
	t.acts = append(t.acts, fmt.Sprintf("add:%d", int(l.LayerType())))
	t.added = l
}
func (t *tracer) SetLinkLayer(gopacket.LinkLayer)               { t.acts = append(t.acts, "link") }
func (t *tracer) SetNetworkLayer(gopacket.NetworkLayer)         { t.acts = append(t.acts, "net") }
func (t *tracer) SetTransportLayer(gopacket.TransportLayer)     { t.acts = append(t.acts, "transport") }
func (t *tracer) SetApplicationLayer(gopacket.ApplicationLayer) { t.acts = append(t.acts, "app") }
func (t *tracer) SetErrorLayer(gopacket.ErrorLayer)             { t.acts = append(t.acts, "errlayer") }
func (t *tracer) DumpPacketData()                               {}
func (t *tracer) DecodeOptions() *gopacket.DecodeOptions        { return &gopacket.DecodeOptions{} }
func (t *tracer) NextDecoder(next gopacket.Decoder) error {
	switch d := next.(type) {
	case layers.EAPOLType:
		t.tail = fmt.Sprintf("eapoltype:%d", uint8(d))
	case gopacket.LayerType:
		t.tail = fmt.Sprintf("lt:%d", int(d))
	case nil:
		t.tail = "nil"
	default:
		t.tail = "other"
	}
	return nil
}

func opPb(kind string, data []byte) string {
	if newObj(kind) == nil {
		return "bad-op"
	}
	dec := layerTypeOf(kind)
	return guarded("decode function of "+kind, func() string {
		t := &tracer{}
		err := dec.Decode(exact(data), t)
		tail := t.tail
		if err != nil {
			tail = "fail"
		} else if tail == "" {
			tail = "done"
		}
		acts := "-"
		if len(t.acts) > 0 {
			acts = strings.Join(t.acts, ",")
		}
		lib.Stat("pb:" + kind + ":" + tail)
		s := "acts=" + acts + " tail=" + tail
		if t.added != nil {
			s += " | " + render(t.added)
			// C05 oracle: the layer added to the packet = a direct fresh DecodeFromBytes
			ref := newObj(kind)
			if rerr := ref.DecodeFromBytes(exact(data), &feedback{}); rerr != nil || differingField(t.added, ref) != "" {
				lib.Finding("C05", "leap:pkt-differs", kind+": layer added by the registered decoder differs from a direct fresh DecodeFromBytes")
			}
			lib.Nontrivial()
		}
		return s
	})
}

// ---------------------------------------------------------------- NewPacket / DecodingLayerParser

func opPkt(kind, mode string, extra int, foreign, data []byte) string {
	if len(foreign) != extra || (mode != "copy" && mode != "nocopy" && mode != "lazy" && mode != "pool") || newObj(kind) == nil {
		return "bad-op"
	}
	first := layerTypeOf(kind)
	if len(data) == 0 {
		return "empty"
	}
	build := func(skipRecovery bool) (gopacket.Packet, []gopacket.Layer) {
		opts := gopacket.DecodeOptions{SkipDecodeRecovery: skipRecovery}
		in := exact(data)
		switch mode {
		case "nocopy":
			opts.NoCopy = true
			in = inBuf(data, foreign)
		case "lazy":
			opts.Lazy = true
		case "pool":
			opts.Pool = true
		}
		p := gopacket.NewPacket(in, first, opts)
		return p, p.Layers()
	}
	var p gopacket.Packet
	var ls []gopacket.Layer
	_, panicked := protect(func() string { p, ls = build(true); return "" })
	if panicked {
		if isOurSite(lastSite) {
			lib.Finding("C19", "leap:panic:"+lastSite, "NewPacket(SkipDecodeRecovery) panicked in this layer: "+lastMsg)
			return "panic " + lib.PanicKind(lastMsg)
		}
		// a decoder of a LATER layer panicked (other engines' business): observe this layer with recovery on
		lib.Stat("pkt:later-layer-panic:" + lastSite)
		p, ls = build(false)
	}
	_ = p
	lib.Stat("pkt:" + kind + ":" + mode)
	if len(ls) == 0 || ls[0].LayerType() != first {
		return "fail"
	}
	// oracle: the leading layers of this engine equal direct fresh decodes chained by NextLayerType / LayerPayload
	in := exact(data)
	k := kind
	for i := 0; i < len(ls) && k != ""; i++ {
		if ls[i].LayerType() != layerTypeOf(k) {
			break
		}
		ref := newObj(k)
		if err := ref.DecodeFromBytes(in, &feedback{}); err != nil || differingField(ls[i], ref) != "" {
			lib.Finding("C05", "leap:pkt-differs", fmt.Sprintf("layer %d (%s) built by NewPacket(%s) differs from a direct fresh DecodeFromBytes", i, k, mode))
			break
		}
		if i > 0 {
			lib.Stat("pkt:second-layer:" + k)
		}
		in = ref.LayerPayload()
		switch ref.NextLayerType() {
		case layers.LayerTypeEAP:
			k = "eap"
		case layers.LayerTypeEAPOLKey:
			k = "eapolkey"
		default:
			k = ""
		}
		if len(in) == 0 {
			break
		}
	}
	lib.Nontrivial()
	return "ok " + render(ls[0])
}

func opDlp(re bool, kind string, data []byte) string {
	if kind != "eapol" && kind != "eap" {
		return "bad-op"
	}
	if !re {
		newParser()
	}
	parser := parsers[kind]
	first := layerTypeOf(kind)
	return guarded("DecodingLayerParser.DecodeLayers", func() string {
		var decoded []gopacket.LayerType
		err := parser.DecodeLayers(exact(data), &decoded)
		code := 0
		var unsup gopacket.UnsupportedLayerType
		if errors.As(err, &unsup) {
			code = 2
		} else if err != nil {
			code = 1
		}
		ds := make([]string, len(decoded))
		for i, t := range decoded {
			ds[i] = lib.Itoa(int(t))
		}
		dec := "-"
		if len(ds) > 0 {
			dec = strings.Join(ds, ",")
		}
		lib.Stat(fmt.Sprintf("dlp:%s:layers=%d:code=%d", kind, len(decoded), code))
		if len(decoded) >= 1 {
			lib.Nontrivial()
		}
		// C05 oracle: the run equals the leading run of NewPacket's layers with equal fields
		if len(data) > 0 {
			var pl []gopacket.Layer
			var ptr bool
			_, pk := protect(func() string {
				pk := gopacket.NewPacket(exact(data), first, gopacket.DecodeOptions{})
				pl = pk.Layers()
				ptr = pk.Metadata().Truncated
				return ""
			})
			if !pk {
				objs := map[gopacket.LayerType]gopacket.Layer{layers.LayerTypeEAPOL: pEapol, layers.LayerTypeEAP: pEap}
				for i, t := range decoded {
					if i >= len(pl) || pl[i].LayerType() != t {
						lib.Finding("C05", "leap:dlp-differs", "parser run is not a prefix of the packet's layers")
						break
					}
					if f := differingField(pl[i], objs[t]); f != "" {
						lib.Finding("C05", "leap:dlp-differs", "parser's layer differs from the packet's: "+f)
					}
				}
				// the packet has at least the parser's layers; when the parser stopped without error inside the set, the
				// packet must not have a further layer of the set
				if code == 0 && len(pl) > len(decoded) {
					if t := pl[len(decoded)].LayerType(); t == layers.LayerTypeEAPOL || t == layers.LayerTypeEAP {
						lib.Finding("C05", "leap:dlp-differs", "the packet has a further layer of the set that the parser did not report")
					}
				}
				// the truncation flag of the run: these layers set it only together with an error, and a packet
				// accumulates flags of later layers too, so only "parser truncated => packet truncated" is demanded
				if parser.Truncated && !ptr {
					lib.Finding("C05", "leap:dlp-differs", "parser reports truncation, the packet does not")
				}
			}
		}
		return fmt.Sprintf("code=%d decoded=%s trunc=%s | %s | %s", code, dec, b01(parser.Truncated), render(pEapol), render(pEap))
	})
}

func opNltTab() string {
	type row struct{ k, v int }
	var rs []row
	for i := 0; i < 256; i++ {
		if layers.EAPOLTypeMetadata[i].DecodeWith != nil {
			rs = append(rs, row{i, int(layers.EAPOLType(i).LayerType())})
		} else if layers.EAPOLType(i).LayerType() != gopacket.LayerTypeZero {
			rs = append(rs, row{i, -1})
		}
	}
	sort.Slice(rs, func(a, b int) bool { return rs[a].k < rs[b].k })
	var rows []string
	for _, r := range rs {
		rows = append(rows, fmt.Sprintf("%d:%d", r.k, r.v))
	}
	lib.Stat("nlttab")
	return "ok " + strings.Join(rows, ",")
}

// ---------------------------------------------------------------- dispatcher

func exec(a []string) string {
	if len(a) < 2 || a[0] != "leap" {
		return "bad-op"
	}
	switch a[1] {
	case "dec":
		if len(a) != 6 {
			return "bad-op"
		}
		extra, ok1 := lib.Atoi(a[3])
		foreign, ok2 := lib.UnHex(a[4])
		data, ok3 := lib.UnHex(a[5])
		if !ok1 || !ok2 || !ok3 || extra < 0 {
			return "bad-op"
		}
		return opDec(a[2], extra, foreign, data)
	case "redec":
		if len(a) != 4 {
			return "bad-op"
		}
		data, ok := lib.UnHex(a[3])
		if !ok {
			return "bad-op"
		}
		return opRedec(a[2], data)
	case "ser":
		if len(a) < 4 {
			return "bad-op"
		}
		return opSer(a[2], a[3:])
	case "rt":
		if len(a) < 4 {
			return "bad-op"
		}
		return opRt(a[2], a[3:])
	case "rtdec":
		if len(a) != 4 {
			return "bad-op"
		}
		data, ok := lib.UnHex(a[3])
		if !ok {
			return "bad-op"
		}
		return opRtDec(a[2], data)
	case "pb":
		if len(a) != 4 {
			return "bad-op"
		}
		data, ok := lib.UnHex(a[3])
		if !ok {
			return "bad-op"
		}
		return opPb(a[2], data)
	case "pkt":
		if len(a) != 7 {
			return "bad-op"
		}
		extra, ok1 := lib.Atoi(a[4])
		foreign, ok2 := lib.UnHex(a[5])
		data, ok3 := lib.UnHex(a[6])
		if !ok1 || !ok2 || !ok3 || extra < 0 {
			return "bad-op"
		}
		return opPkt(a[2], a[3], extra, foreign, data)
	case "dlp", "redlp":
		if len(a) != 4 {
			return "bad-op"
		}
		data, ok := lib.UnHex(a[3])
		if !ok {
			return "bad-op"
		}
		return opDlp(a[1] == "redlp", a[2], data)
	case "nlttab":
		if len(a) != 2 {
			return "bad-op"
		}
		return opNltTab()
	}
	return "bad-op"
}

func main() {
	reset()
	lib.Main(lib.Engine{Name: "leap", Gen: gen, Reset: reset, Exec: exec})
}
