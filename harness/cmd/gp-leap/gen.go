package main

import (
	"fmt"
	"go/ast"
	goparser "go/parser"
	"go/token"
	"net"
	"os"
	"path/filepath"
	"sort"
	"strconv"
	"strings"

	"github.com/gopacket/gopacket"
	"github.com/gopacket/gopacket/layers"
	"verif/harness/lib"
)

// ---------------------------------------------------------------- fixtures

// literals collects every `[]byte{…}` literal (all elements literal) from the repository's own
// layers/*_test.go files.
func literals() [][]byte {
	repo := os.Getenv("VERIF_REPO")
	if repo == "" {
		repo = "/repo"
	}
	files, _ := filepath.Glob(filepath.Join(repo, "layers", "*_test.go"))
	sort.Strings(files)
	var out [][]byte
	fset := token.NewFileSet()
	for _, fn := range files {
		f, err := goparser.ParseFile(fset, fn, nil, 0)
		if err != nil {
			continue
		}
		ast.Inspect(f, func(n ast.Node) bool {
			cl, ok := n.(*ast.CompositeLit)
			if !ok {
				return true
			}
			at, ok := cl.Type.(*ast.ArrayType)
			if !ok || at.Len != nil {
				return true
			}
			id, ok := at.Elt.(*ast.Ident)
			if !ok || (id.Name != "byte" && id.Name != "uint8") {
				return true
			}
			b := make([]byte, 0, len(cl.Elts))
			for _, e := range cl.Elts {
				bl, ok := e.(*ast.BasicLit)
				if !ok {
					return true
				}
				switch bl.Kind {
				case token.INT:
					v, err := strconv.ParseUint(bl.Value, 0, 8)
					if err != nil {
						return true
					}
					b = append(b, byte(v))
				case token.CHAR:
					s, err := strconv.Unquote(bl.Value)
					if err != nil || len(s) != 1 {
						return true
					}
					b = append(b, s[0])
				default:
					return true
				}
			}
			if len(b) >= 4 && len(b) <= 1600 {
				out = append(out, b)
			}
			return true
		})
	}
	return out
}

type fixtures struct{ eap, eapol, key [][]byte }

func (f *fixtures) of(kind string) [][]byte {
	switch kind {
	case "eap":
		return f.eap
	case "eapol":
		return f.eapol
	}
	return f.key
}

func (f *fixtures) set(kind string, v [][]byte) {
	switch kind {
	case "eap":
		f.eap = v
	case "eapol":
		f.eapol = v
	default:
		f.key = v
	}
}

// harvest decodes every test literal of the repository with several first decoders (recovery on) and
// keeps the bytes (contents ++ payload) of every EAP / EAPOL / EAPOLKey layer found in them.
func harvest(fx *fixtures) {
	seen := map[string]bool{}
	add := func(dst *[][]byte, b []byte) {
		if len(b) > 600 {
			b = b[:600]
		}
		k := string(b)
		if !seen[k] {
			seen[k] = true
			*dst = append(*dst, append([]byte(nil), b...))
		}
	}
	firsts := []gopacket.Decoder{layers.LayerTypeEthernet, layers.LayerTypeEAPOL, layers.LayerTypeRadioTap, layers.LayerTypeDot11,
		layers.LayerTypeLinuxSLL, layers.LayerTypeLLC, layers.LayerTypeSNAP}
	for _, lit := range literals() {
		for _, first := range firsts {
			func() {
				defer func() { recover() }()
				p := gopacket.NewPacket(lit, first, gopacket.DecodeOptions{})
				for _, l := range p.Layers() {
					all := append(append([]byte(nil), l.LayerContents()...), l.LayerPayload()...)
					switch l.LayerType() {
					case layers.LayerTypeEAP:
						add(&fx.eap, all)
					case layers.LayerTypeEAPOL:
						if first != layers.LayerTypeEAPOL || len(p.Layers()) > 1 {
							add(&fx.eapol, all)
						}
					case layers.LayerTypeEAPOLKey:
						add(&fx.key, all)
					}
				}
			}()
		}
	}
}

// keyFrame builds the 95-byte EAPOL-Key frame by hand (independent of the repository's serializer).
func keyFrame(r *lib.Rand, info uint16, kd []byte, kdl int) []byte {
	f := make([]byte, 95)
	f[0] = byte(r.Pick([]int{1, 2, 254, r.Intn(256)}))
	f[1], f[2] = byte(info>>8), byte(info)
	copy(f[3:], r.Bytes(90))
	f[93], f[94] = byte(kdl>>8), byte(kdl)
	return append(f, kd...)
}

// built fixtures: packets produced by the repository's own serializers + hand-made frames.
func built(r *lib.Rand, fx *fixtures) {
	ser := func(ls ...gopacket.SerializableLayer) (out []byte) {
		defer func() { // a panicking serializer must not kill the generator: the executor's monitors report it
			if recover() != nil {
				out = nil
			}
		}()
		b := gopacket.NewSerializeBuffer()
		if err := gopacket.SerializeLayers(b, gopacket.SerializeOptions{FixLengths: true, ComputeChecksums: true}, ls...); err != nil {
			return nil
		}
		return append([]byte(nil), b.Bytes()...)
	}
	eapBytes := func(code, id, typ int, data []byte, trailing int) []byte { // RFC 3748 framing, by hand
		n := 4
		var b []byte
		if typ >= 0 {
			n = 5 + len(data)
		}
		b = append(b, byte(code), byte(id), byte(n>>8), byte(n))
		if typ >= 0 {
			b = append(b, byte(typ))
			b = append(b, data...)
		}
		return append(b, r.Bytes(trailing)...)
	}
	for _, tr := range []int{0, 1, 9} {
		fx.eap = append(fx.eap,
			eapBytes(1, 1, 1, nil, tr),                  // Request/Identity, no data
			eapBytes(2, 1, 1, []byte("user@example"), tr), // Response/Identity
			eapBytes(1, 2, 4, r.Bytes(17), tr),          // MD5 challenge
			eapBytes(2, 2, 3, []byte{25}, tr),           // NAK
			eapBytes(3, 3, -1, nil, tr),                 // Success
			eapBytes(4, 3, -1, nil, tr),                 // Failure
			eapBytes(1, 7, 0, nil, tr),                  // a Type byte that is 0
			eapBytes(1, 9, 25, r.Bytes(300), tr),        // PEAP-sized
			eapBytes(r.Intn(256), r.Intn(256), r.Intn(256), r.Bytes(r.Intn(40)), tr))
	}
	for _, f := range append([][]byte(nil), fx.eap...) {
		n := len(f) - 4
		if n > 0xffff {
			continue
		}
		for _, ver := range []int{1, 2, 3} {
			fx.eapol = append(fx.eapol, append([]byte{byte(ver), 0, byte(len(f) >> 8), byte(len(f))}, f...))
		}
	}
	fx.eapol = append(fx.eapol, []byte{1, 1, 0, 0}, []byte{2, 2, 0, 0}, []byte{2, 4, 0, 3, 1, 2, 3}, []byte{2, 1, 0, 0, 0, 0, 0, 0, 0, 0},
		[]byte{1, 0, 0, 0}, []byte{1, 3, 0, 0}, []byte{2, 77, 0xff, 0xff, 1, 2})
	// EAPOL-Key frames: the four messages of a WPA2 handshake (info words 0x008a, 0x010a, 0x13ca, 0x030a) and variants
	ie := []byte{0xdd, 0x14, 0x00, 0x0f, 0xac, 0x04, 0x59, 0x2d, 0xa8, 0x80, 0x96, 0xc4, 0x61, 0xda, 0x24, 0x6c, 0x69, 0x00, 0x1e, 0x87, 0x7f, 0x3d}
	rsn := []byte{0x30, 0x14, 0x01, 0x00, 0x00, 0x0f, 0xac, 0x04, 0x01, 0x00, 0x00, 0x0f, 0xac, 0x04, 0x01, 0x00, 0x00, 0x0f, 0xac, 0x02, 0x00, 0x00}
	for _, tr := range []int{0, 3} {
		fx.key = append(fx.key,
			append(keyFrame(r, 0x008a, ie, len(ie)), r.Bytes(tr)...),
			append(keyFrame(r, 0x010a, rsn, len(rsn)), r.Bytes(tr)...),
			append(keyFrame(r, 0x13ca, r.Bytes(56), 56), r.Bytes(tr)...), // encrypted key data
			append(keyFrame(r, 0x030a, nil, 0), r.Bytes(tr)...),
			append(keyFrame(r, 0x1000, nil, 0), r.Bytes(tr)...), // encrypted flag, no key data
			append(keyFrame(r, 0x3fff, r.Bytes(5), 5), r.Bytes(tr)...),
			append(keyFrame(r, 0xffff, r.Bytes(1), 1), r.Bytes(tr)...),
			append(keyFrame(r, 0x0000, r.Bytes(2), 2), r.Bytes(tr)...),
			append(keyFrame(r, uint16(r.Intn(65536)), r.Bytes(20), 20), r.Bytes(tr)...))
	}
	for _, f := range append([][]byte(nil), fx.key...) {
		fx.eapol = append(fx.eapol, append([]byte{2, 3, byte(len(f) >> 8), byte(len(f))}, f...))
	}
	// the repository's serializers
	eth := &layers.Ethernet{SrcMAC: net.HardwareAddr{0, 0x1b, 0x21, 0x3c, 0xab, 0x10}, DstMAC: net.HardwareAddr{1, 0x80, 0xc2, 0, 0, 3}, EthernetType: layers.EthernetTypeEAPOL}
	if b := ser(eth, &layers.EAPOL{Version: 1, Type: layers.EAPOLTypeEAP, Length: 5}, &layers.EAP{Code: layers.EAPCodeRequest, Id: 1, Type: layers.EAPTypeIdentity}); len(b) > 14 {
		fx.eapol = append(fx.eapol, b[14:])
	}
	if b := ser(&layers.EAPOL{Version: 2, Type: layers.EAPOLTypeKey, Length: 95}, &layers.EAPOLKey{KeyDescriptorType: layers.EAPOLKeyDescriptorTypeDot11,
		KeyDescriptorVersion: 2, KeyType: 1, KeyACK: true, KeyLength: 16, ReplayCounter: 1, Nonce: r.Bytes(32), IV: make([]byte, 16), MIC: make([]byte, 16)}); b != nil {
		fx.eapol = append(fx.eapol, b)
		if len(b) > 4 {
			fx.key = append(fx.key, b[4:])
		}
	}
}

func hx(b []byte) string { return lib.Hex(b) }

func setByte(b []byte, off int, v int) []byte {
	c := append([]byte(nil), b...)
	if off < len(c) {
		c[off] = byte(v)
	}
	return c
}

// allowedClasses reads the optional trailing generator argument `ops=dec,rt,ser` (props/parts/*.leap.json
// "gen_args"): every property runs the op classes that bear on it, so that e.g. a defect of a serializer is
// reported under C06/C07 and not as a broken correspondence of C19.
func allowedClasses() map[string]bool {
	for _, a := range os.Args[1:] {
		if strings.HasPrefix(a, "ops=") {
			m := map[string]bool{}
			for _, c := range strings.Split(a[4:], ",") {
				m[c] = true
			}
			return m
		}
	}
	return nil
}

func classOf(op string) string {
	switch op {
	case "ser":
		return "ser"
	case "rt", "rtdec":
		return "rt"
	}
	return "dec"
}

// regressions: serializer / round-trip inputs of the defects fixed by leap-1 … leap-4 (run first for C06/C07; the decode
// regressions are in corpus/leap).
var regressions = []string{
	"reset",
	// leap-1: FixLengths stored len(TypeData)+1; an EAP with a Type but no TypeData lost its Type byte
	"leap rt eap 2 9 0 1 626f62 -",
	"leap rt eap 2 9 0 1 626f62 ee",
	"leap rt eap 1 7 5 1 - -",
	"leap rt eap 3 7 4 0 - -",
	"leap ser eap 1 1 fresh 1 7 0 1 - -",
	"leap ser eap 0 1 fresh 1 7 5 1 - -",
	"leap rtdec eap 0107000501",
	"leap rtdec eap 070000088598b125",
	"leap rtdec eap 00040004",
	// leap-2: TypeData ran over the trailing bytes (Ethernet padding)
	"leap rtdec eap 0209000801626f62000000",
	"leap rtdec eapol 0200000501070005010000000000",
	// leap-4: Nonce / IV / MIC shorter than their fields left stale buffer bytes in the frame
	"leap ser eapolkey 1 1 dirty165 2 0 0 0 00000000 0 0 - - 0 0 - 0 - -",
	"leap ser eapolkey 1 1 fresh 2 0 0 0 00000000 0 0 - - 0 0 - 0 - -",
	"leap ser eapolkey 0 0 dirty90 2 2 1 0 01000000 16 1 0102 03 0 0 04 0 - -",
}

// ---------------------------------------------------------------- generator

func gen(r *lib.Rand, tier string, emit0 func(string)) {
	thorough := tier == "thorough"
	allowed := allowedClasses()
	lastReset := false
	emit := func(l string) {
		if l == "reset" {
			if !lastReset {
				emit0(l)
			}
			lastReset = true
			return
		}
		w := strings.Fields(l)
		if allowed != nil && len(w) >= 2 && !allowed[classOf(w[1])] {
			return
		}
		lastReset = false
		emit0(l)
	}
	emit("reset")
	emit("leap nlttab")
	for _, l := range regressions {
		emit(l)
	}

	fx := &fixtures{}
	built(r, fx)
	harvest(fx)
	for _, k := range kinds { // never leave a kind empty
		var keep [][]byte
		for _, f := range fx.of(k) {
			if len(f) >= 4 {
				keep = append(keep, f)
			}
		}
		if len(keep) == 0 {
			keep = [][]byte{{1, 1, 0, 5, 1, 0xaa}}
		}
		fx.set(k, keep)
	}
	foreignOf := func(n int) []byte { return r.Bytes(n) }
	for _, k := range kinds {
		fs := fx.of(k)
		for i := len(fs) - 1; i > 0; i-- { // seeded shuffle: different seeds favour different fixtures
			j := r.Intn(i + 1)
			fs[i], fs[j] = fs[j], fs[i]
		}
	}
	lim := func(n, quick int) int {
		if !thorough && n > quick {
			return quick
		}
		return n
	}
	isDlp := func(k string) bool { return k == "eapol" || k == "eap" }

	// A. every fixture through every decode path
	for _, k := range kinds {
		fs := fx.of(k)
		for i := 0; i < lim(len(fs), 60); i++ {
			f := fs[i]
			emit("reset")
			emit(fmt.Sprintf("leap dec %s 0 - %s", k, hx(f)))
			n := 1 + r.Intn(40)
			emit(fmt.Sprintf("leap dec %s %d %s %s", k, n, hx(foreignOf(n)), hx(f)))
			emit(fmt.Sprintf("leap pb %s %s", k, hx(f)))
			emit(fmt.Sprintf("leap pkt %s copy 0 - %s", k, hx(f)))
			emit(fmt.Sprintf("leap pkt %s nocopy %d %s %s", k, n, hx(foreignOf(n)), hx(f)))
			emit(fmt.Sprintf("leap pkt %s lazy 0 - %s", k, hx(f)))
			emit(fmt.Sprintf("leap pkt %s pool 0 - %s", k, hx(f)))
			if isDlp(k) {
				emit(fmt.Sprintf("leap dlp %s %s", k, hx(f)))
			}
			emit(fmt.Sprintf("leap rtdec %s %s", k, hx(f)))
			// the same bytes as every other type of this engine
			for _, k2 := range kinds {
				if k2 != k {
					emit(fmt.Sprintf("leap dec %s %d %s %s", k2, n, hx(foreignOf(n)), hx(f)))
					emit(fmt.Sprintf("leap rtdec %s %s", k2, hx(f)))
				}
			}
		}
	}

	// B. truncations 0…len of each fixture (all for short ones, head and tail otherwise), with spare capacity
	for _, k := range kinds {
		fs := fx.of(k)
		for i := 0; i < lim(len(fs), 30); i++ {
			f := fs[i]
			emit("reset")
			for n := 0; n <= len(f); n++ {
				if !(n <= 16 || (n >= 90 && n <= 100) || n >= len(f)-2 || (thorough && len(f) <= 600) || r.Chance(8)) {
					continue
				}
				t := f[:n]
				c := r.Intn(12)
				emit(fmt.Sprintf("leap dec %s %d %s %s", k, c, hx(foreignOf(c)), hx(t)))
				if n <= 8 || r.Chance(20) {
					emit(fmt.Sprintf("leap pb %s %s", k, hx(t)))
					emit(fmt.Sprintf("leap pkt %s nocopy %d %s %s", k, c, hx(foreignOf(c)), hx(t)))
					if isDlp(k) {
						emit(fmt.Sprintf("leap redlp %s %s", k, hx(t)))
					}
					emit(fmt.Sprintf("leap redec %s %s", k, hx(t)))
				}
			}
		}
	}

	// C. single-field mutations to boundary values
	// EAP: the Length field against the bytes present
	for i := 0; i < lim(len(fx.eap), 25); i++ {
		f := fx.eap[i]
		if len(f) < 4 {
			continue
		}
		emit("reset")
		cand := []int{0, 1, 2, 3, 4, 5, 6, 7, 255, 256, 257, len(f) - 2, len(f) - 1, len(f), len(f) + 1, len(f) + 2, 0x7fff, 0x8000, 0xfffe, 0xffff}
		for _, v := range cand {
			if v < 0 || v > 0xffff {
				continue
			}
			m := setByte(setByte(f, 2, v>>8), 3, v)
			c := r.Intn(9)
			emit(fmt.Sprintf("leap dec eap %d %s %s", c, hx(foreignOf(c)), hx(m)))
			emit("leap redec eap " + hx(m))
			emit("leap rtdec eap " + hx(m))
			if r.Chance(40) {
				emit("leap redlp eap " + hx(m))
				emit("leap pb eap " + hx(m))
				emit(fmt.Sprintf("leap pkt eap nocopy %d %s %s", c, hx(foreignOf(c)), hx(m)))
				emit("leap redlp eapol " + hx(append([]byte{1, 0, byte(len(m) >> 8), byte(len(m))}, m...)))
			}
		}
		for _, off := range []int{0, 1, 4} { // Code, Id, Type
			for _, v := range []int{0, 1, 2, 3, 4, 5, 6, 127, 128, 254, 255} {
				m := setByte(f, off, v)
				emit("leap redec eap " + hx(m))
				if r.Chance(30) {
					emit("leap rtdec eap " + hx(m))
				}
			}
		}
	}
	// every Length value against one 12-byte input (thorough: all 65536; quick: the region around the limit + a sample)
	{
		base := append([]byte{1, 2, 0, 0}, r.Bytes(8)...)
		emit("reset")
		for v := 0; v < 65536; v++ {
			if thorough || v <= 20 || v >= 65530 || (v&0xff) == 0 && v < 0x1000 || r.Chance(1) && r.Chance(20) {
				emit("leap redec eap " + hx(setByte(setByte(base, 2, v>>8), 3, v)))
			}
		}
	}
	// EAPOL: every value of the Type byte (the next-layer table), Version, Length
	{
		emit("reset")
		inner := []byte{1, 7, 0, 5, 1, 0xaa}
		for v := 0; v < 256; v++ {
			h := append([]byte{2, byte(v), 0, byte(len(inner))}, inner...)
			emit("leap redec eapol " + hx(h))
			emit("leap pb eapol " + hx(h))
			if v < 8 || v%32 == 3 || thorough {
				emit("leap redlp eapol " + hx(h))
				emit("leap rtdec eapol " + hx(h))
				emit("leap pkt eapol copy 0 - " + hx(h))
				emit("leap redec eapol " + hx([]byte{byte(v), 0, byte(v), byte(255 - v)}))
			}
		}
	}
	// EAPOL-Key: every value of each key-information byte over three backgrounds; KeyDataLength against the bytes present
	for bi, bg := range [][]byte{keyFrame(r, 0, r.Bytes(6), 6), keyFrame(r, 0xffff, r.Bytes(6), 6), append(make([]byte, 95), 1, 2, 3)} {
		emit("reset")
		for _, off := range []int{1, 2} {
			for v := 0; v < 256; v++ {
				if !thorough && !(v < 4 || v > 251 || v&(v-1) == 0 || r.Chance(15)) {
					continue
				}
				m := setByte(bg, off, v)
				emit("leap redec eapolkey " + hx(m))
				if thorough || r.Chance(40) {
					emit("leap rtdec eapolkey " + hx(m))
				}
				if r.Chance(10) {
					emit("leap pb eapolkey " + hx(m))
				}
			}
		}
		rem := len(bg) - 95
		for _, enc := range []int{0, 0x10} {
			for _, v := range []int{0, 1, 2, rem - 1, rem, rem + 1, rem + 2, 255, 256, 0x7fff, 0xffff} {
				if v < 0 {
					continue
				}
				m := setByte(setByte(setByte(bg, 93, v>>8), 94, v), 1, (int(bg[1])&^0x10)|enc)
				c := r.Intn(9)
				emit(fmt.Sprintf("leap dec eapolkey %d %s %s", c, hx(foreignOf(c)), hx(m)))
				emit("leap redec eapolkey " + hx(m))
				emit("leap rtdec eapolkey " + hx(m))
				emit("leap pb eapolkey " + hx(m))
				if bi == 0 {
					emit(fmt.Sprintf("leap pkt eapolkey nocopy %d %s %s", c, hx(foreignOf(c)), hx(m)))
				}
			}
		}
		// each header byte to a few values (KeyDescriptorType, lengths, counters)
		for off := 0; off < 95; off++ {
			if !thorough && !(off < 13 || off >= 90 || r.Chance(10)) {
				continue
			}
			for _, v := range []int{0, 1, 0x80, 0xff} {
				emit("leap redec eapolkey " + hx(setByte(bg, off, v)))
			}
		}
	}

	// D. stale-state sequences: ordered pairs…quintuples into the same objects (direct and via the parser)
	nseq := 200
	if thorough {
		nseq = 4000
	}
	pick := func(k string) []byte {
		fs := fx.of(k)
		f := fs[r.Intn(len(fs))]
		switch r.Intn(8) {
		case 0:
			return f[:r.Intn(len(f)+1)] // truncated (maybe an error)
		case 1:
			if k == "eap" && len(f) >= 4 {
				v := r.Pick([]int{0, 3, 4, 5, len(f) - 1, len(f), len(f) + 1})
				return setByte(setByte(f, 2, v>>8), 3, v) // Length changed: the other error paths, Type reset
			}
			if k == "eapolkey" && len(f) >= 95 {
				return setByte(f, 1, int(f[1])^0x10) // the encrypted flag flipped: key data moves between field and payload
			}
			return f[:r.Intn(len(f)+1)]
		case 2:
			return f[:r.Intn(4)] // always an error
		case 3:
			return r.Bytes(r.Intn(120))
		}
		return f
	}
	for c := 0; c < nseq; c++ {
		emit("reset")
		n := 2 + r.Intn(4)
		for i := 0; i < n; i++ {
			k := kinds[r.Intn(3)]
			if r.Chance(40) {
				k = "eapolkey" // the layer with a field assigned on one path only
			}
			f := pick(k)
			if len(f) > 400 {
				f = f[:400]
			}
			emit(fmt.Sprintf("leap redec %s %s", k, hx(f)))
			if isDlp(k) {
				emit(fmt.Sprintf("leap redlp %s %s", k, hx(f)))
			}
		}
	}

	// E. serialisation: in-range and out-of-range layer values, all four option sets, buffer histories
	psizes := []int{0, 1, 2, 3, 17, 18, 19, 101, 1480, 1499, 1500, 1501, 1520}
	hists := []string{"fresh", "dirty165", "dirty90", "dirty255", "sized0", "sized8", "sized60", "sized3000"}
	nser := 400
	if thorough {
		nser = 12000
	}
	payloadTok := func(n int) string {
		if n > 200 && r.Chance(70) {
			return fmt.Sprintf("z%dx%02x", n, r.Intn(256))
		}
		return hx(r.Bytes(n))
	}
	eapFields := func() string {
		code, id, typ := 1+r.Intn(4), r.Intn(256), r.Pick([]int{0, 1, 1, 2, 3, 4, 13, 25, r.Intn(256)})
		n := r.Pick([]int{0, 0, 1, 2, 16, r.Intn(60), 250, 251, 252, 1000})
		if code >= 3 && r.Chance(70) {
			typ, n = 0, 0 // Success / Failure: no Type
		}
		if r.Chance(10) {
			code = r.Intn(256)
		}
		ln := 4
		if typ != 0 || n > 0 {
			ln = 5 + n
		}
		if r.Chance(40) { // a Length field that disagrees (FixLengths must repair it)
			ln = r.Pick([]int{0, 1, 4, 5, n + 1, n + 4, r.Intn(65536)})
		}
		return fmt.Sprintf("%d %d %d %d %s", code, id, ln, typ, hx(r.Bytes(n)))
	}
	eapolFields := func() string {
		return fmt.Sprintf("%d %d %d", r.Pick([]int{1, 2, 3, r.Intn(256)}), r.Pick([]int{0, 1, 2, 3, 4, r.Intn(256)}), r.Pick([]int{0, 5, 95, 117, r.Intn(65536)}))
	}
	fieldLen := func(n int) int {
		switch r.Intn(12) {
		case 0:
			return 0
		case 1:
			return r.Intn(n)
		case 2:
			return n + 1 + r.Intn(8)
		}
		return n
	}
	u64 := func() uint64 {
		switch r.Intn(5) {
		case 0:
			return 0
		case 1:
			return uint64(r.Intn(1000))
		case 2:
			return ^uint64(0)
		}
		return r.U64()
	}
	// keyFields returns the field tokens and a payload length suitable for the layer (KeyDataLength ≤ payload when the
	// key data is not encrypted)
	keyFields := func(pn int) string {
		ver, kt, ki := r.Intn(8), r.Intn(2), r.Intn(4)
		if r.Chance(12) { // out of range: not masked by the serializer, spills into the neighbouring bits
			switch r.Intn(3) {
			case 0:
				ver = 8 + r.Intn(248)
			case 1:
				kt = 2 + r.Intn(254)
			default:
				ki = 4 + r.Intn(252)
			}
		}
		flags := ""
		for i := 0; i < 8; i++ {
			flags += b01(r.Chance(40))
		}
		enc := flags[6] == '1'
		kdn := r.Pick([]int{0, 0, 1, 16, 22, 56, r.Intn(200), 1400})
		ekd := []byte{}
		kdl := 0
		if enc {
			ekd = r.Bytes(kdn)
			kdl = kdn
			if r.Chance(12) {
				kdl = r.Pick([]int{0, kdn + 1, r.Intn(65536)}) // disagrees with the data: not well-formed
			}
		} else {
			if pn > 0 {
				kdl = r.Intn(pn + 1)
			}
			if r.Chance(8) {
				kdl = pn + 1 + r.Intn(5) // more key data announced than there is payload
			}
			if r.Chance(6) {
				ekd = r.Bytes(1 + r.Intn(9)) // key data without the encrypted flag
			}
		}
		return fmt.Sprintf("%d %d %d %d %s %d %d %s %s %d %d %s %d %s", r.Pick([]int{1, 2, 254, r.Intn(256)}), ver, kt, ki, flags,
			r.Pick([]int{0, 5, 16, 32, r.Intn(65536)}), u64(), hx(r.Bytes(fieldLen(32))), hx(r.Bytes(fieldLen(16))), u64(), u64(),
			hx(r.Bytes(fieldLen(16))), kdl, hx(ekd))
	}
	for c := 0; c < nser; c++ {
		emit("reset")
		n := r.Pick(psizes)
		if r.Chance(25) {
			n = r.Intn(1600)
		}
		ef := eapFields()
		emit(fmt.Sprintf("leap ser eap %d %d %s %s %s", r.Intn(2), r.Intn(2), hists[r.Intn(len(hists))], ef, payloadTok(n)))
		if r.Chance(70) {
			emit(fmt.Sprintf("leap rt eap %s %s", ef, payloadTok(r.Pick([]int{0, 0, 1, 42, n}))))
		}
		lf := eapolFields()
		emit(fmt.Sprintf("leap ser eapol %d %d %s %s %s", r.Intn(2), r.Intn(2), hists[r.Intn(len(hists))], lf, payloadTok(r.Pick(psizes))))
		if r.Chance(50) {
			emit(fmt.Sprintf("leap rt eapol %s %s", lf, payloadTok(r.Pick(psizes))))
		}
		pn := r.Pick([]int{0, 0, 1, 22, 60, n})
		kf := keyFields(pn)
		emit(fmt.Sprintf("leap ser eapolkey %d %d %s %s %s", r.Intn(2), r.Intn(2), hists[r.Intn(len(hists))], kf, payloadTok(pn)))
		if r.Chance(70) {
			emit(fmt.Sprintf("leap rt eapolkey %s %s", kf, payloadTok(pn)))
		}
	}
	// every {fix,csum} x every history on fixed shapes
	zeros32, zeros16 := strings.Repeat("00", 32), strings.Repeat("00", 16)
	for _, shape := range [][2]string{
		{"eap", "1 7 5 1 -"},                   // Request/Identity without data
		{"eap", "2 7 0 1 757365724065"},        // Length to be fixed
		{"eap", "3 7 4 0 -"},                   // Success
		{"eap", "4 7 77 0 -"},                  // Failure with a wrong Length
		{"eap", "1 7 9 0 01020304"},            // Type 0 with data
		{"eapol", "2 3 117"},                   //
		{"eapolkey", "2 2 1 0 01000000 16 1 " + zeros32 + " " + zeros16 + " 0 0 " + zeros16 + " 0 -"},                  // message 1 without key data
		{"eapolkey", "2 2 1 0 01110010 16 2 " + zeros32 + " " + zeros16 + " 0 0 " + zeros16 + " 4 deadbeef"},           // encrypted key data
		{"eapolkey", "2 0 0 0 00000000 0 0 - - 0 0 - 0 -"},                                                            // every slice nil
		{"eapolkey", "254 7 1 3 11111111 65535 18446744073709551615 0102 03 18446744073709551615 1 04 0 -"},           // short Nonce/IV/MIC
		{"eapolkey", "1 255 255 255 00000000 0 0 " + zeros32 + "ff " + zeros16 + "ff 0 0 " + zeros16 + "ff 0 -"},     // long slices, out-of-range bit fields
	} {
		for _, n := range []int{0, 5, 1500} {
			for fix := 0; fix < 2; fix++ {
				for cs := 0; cs < 2; cs++ {
					emit("reset")
					for _, h := range hists {
						emit(fmt.Sprintf("leap ser %s %d %d %s %s %s", shape[0], fix, cs, h, shape[1], payloadTok(n)))
					}
				}
			}
			emit(fmt.Sprintf("leap rt %s %s %s", shape[0], shape[1], payloadTok(n)))
		}
	}
	// EAP TypeData around the 16-bit limit of the Length field; payloads beyond 64 KiB
	big := []int{65529, 65530, 65531, 65535, 65536, 70000}
	if !thorough {
		big = []int{65530, 65531}
	}
	for _, n := range big {
		emit("reset")
		td := fmt.Sprintf("z%dx5a", n)
		emit(fmt.Sprintf("leap ser eap 1 1 dirty165 2 1 0 13 %s ee", td))
		emit(fmt.Sprintf("leap rt eap 2 1 0 13 %s ee", td))
	}
	for _, n := range []int{65537} {
		emit("reset")
		emit(fmt.Sprintf("leap rt eap 2 1 0 1 626f62 z%dx5a", n))
		emit(fmt.Sprintf("leap rt eapol 2 0 8 z%dx5a", n))
		emit(fmt.Sprintf("leap rt eapolkey 2 2 1 0 01000000 16 1 %s %s 0 0 %s 65535 - z%dx5a", zeros32, zeros16, zeros16, n))
		emit(fmt.Sprintf("leap ser eapolkey 1 1 dirty90 2 2 1 0 01000000 16 1 %s %s 0 0 %s 65535 - z%dx5a", zeros32, zeros16, zeros16, n))
	}

	// F. malformed stream: random bytes of every small length, as every type
	nmal := 300
	if thorough {
		nmal = 10000
	}
	for c := 0; c < nmal; c++ {
		emit("reset")
		n := r.Intn(40)
		if r.Chance(30) {
			n = 90 + r.Intn(30)
		}
		if r.Chance(10) {
			n = r.Intn(1100)
		}
		d := r.Bytes(n)
		if n >= 4 && r.Chance(60) { // plausible EAP/EAPOL length
			v := r.Pick([]int{n - 4, n - 1, n, n + 1, 4, 5, r.Intn(n + 1)})
			if v < 0 {
				v = 0
			}
			d[2], d[3] = byte(v>>8), byte(v)
			if r.Chance(50) {
				d[1] = byte(r.Pick([]int{0, 0, 3, 3, 1}))
			}
		}
		if n >= 95 && r.Chance(60) { // plausible key data length
			v := r.Pick([]int{0, n - 95, n - 94, r.Intn(n - 94)})
			d[93], d[94] = byte(v>>8), byte(v)
		}
		sp := r.Intn(20)
		for _, k := range kinds {
			emit(fmt.Sprintf("leap dec %s %d %s %s", k, sp, hx(foreignOf(sp)), hx(d)))
			if isDlp(k) {
				emit(fmt.Sprintf("leap dlp %s %s", k, hx(d)))
			}
			emit(fmt.Sprintf("leap rtdec %s %s", k, hx(d)))
			if r.Chance(30) {
				emit(fmt.Sprintf("leap pkt %s nocopy %d %s %s", k, sp, hx(foreignOf(sp)), hx(d)))
				emit(fmt.Sprintf("leap pb %s %s", k, hx(d)))
			}
		}
	}
	// unparseable ops: both sides answer bad-op
	emit("reset")
	emit("leap dec eap x - 00")
	emit("leap dec fddi 0 - 00")
	emit("leap ser eap 1 1 fresh 1 2 3")
	emit("leap ser eapolkey 1 1 fresh 2 0 0 0 0000000 0 0 - - 0 0 - 0 - -")
	emit("leap dlp eapolkey 00")
	emit("leap nonsense")
}
