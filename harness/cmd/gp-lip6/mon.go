package main

// Implementation-side property monitors (independent Go oracles on the REAL code).
//
//	C19  lip6:panic:<file:line>                 DecodeFromBytes / decode function / NewPacket(SkipDecodeRecovery) / parser(IgnorePanic) panicked in ip6.go
//	C05  lip6:stale:<kind>:<Field>              decoding into a reused object differs from decoding into a fresh one
//	C05  lip6:cap-dependent:<kind>              result depends on spare capacity / foreign bytes behind the data
//	C05  lip6:dlp-vs-packet:<Field>             DecodingLayerParser (reused IPv6 object) differs from NewPacket's IPv6 layer
//	C06  lip6:roundtrip:<kind>:<what>           serialize(fix) then decode differs (constructed in-range layers and decoded layers)
//	C06  lip6:refix:<kind>                      serializing the decoded layer again gives different bytes
//	C07  lip6:ser-panic:<file:line>             SerializeTo panicked
//	C07  lip6:dirty-buffer:<kind>               output differs between fresh / dirty / pre-sized buffers
//	C07  lip6:dirty-buffer-inconsistent:<kind>  same, for layers no decoder produces (OptionLength ≠ len(OptionData) without FixLengths, short Reserved, bad IP length)
//	C07  lip6:not-idempotent:<kind>             serializing the (mutated) layer again gives different bytes
//	C17  lip6:flow:<what>                       NetworkFlow bytes ≠ address bytes of the input / reversed direction not reversed

import (
	"bytes"
	"fmt"
	"strings"

	"github.com/gopacket/gopacket"
	"github.com/gopacket/gopacket/layers"
	"verif/harness/lib"
)

// ---------------------------------------------------------------- field comparison

func nonPad(os []tlv) []tlv {
	var r []tlv
	for _, o := range os {
		if o.Type > 1 {
			r = append(r, o)
		}
	}
	return r
}

// diffOpts compares option lists in order, ignoring padding options (Pad1/PadN) and the
// derived/hint fields ActualLength and OptionAlignment.
func diffOpts(a, b []tlv) string {
	a, b = nonPad(a), nonPad(b)
	if len(a) != len(b) {
		return "Options.len"
	}
	for i := range a {
		if a[i].Type != b[i].Type {
			return "Options.Type"
		}
		if a[i].Len != b[i].Len {
			return "Options.Length"
		}
		if !bytes.Equal(a[i].Data, b[i].Data) {
			return "Options.Data"
		}
	}
	return ""
}

// exactOpts compares everything decoding sets (used for stale-state detection).
func exactOpts(a, b []tlv) string {
	if len(a) != len(b) {
		return "Options.len"
	}
	for i := range a {
		if tlvR(a[i]) != tlvR(b[i]) {
			return "Options"
		}
	}
	return ""
}

func diffHbhRT(a, b *layers.IPv6HopByHop) string {
	if a.NextHeader != b.NextHeader {
		return "NextHeader"
	}
	if a.HeaderLength != b.HeaderLength {
		return "HeaderLength"
	}
	return diffOpts(hbhOpts(a.Options), hbhOpts(b.Options))
}

func diffIP6RT(a, b *layers.IPv6) string {
	switch {
	case a.Version != b.Version:
		return "Version"
	case a.TrafficClass != b.TrafficClass:
		return "TrafficClass"
	case a.FlowLabel != b.FlowLabel:
		return "FlowLabel"
	case a.Length != b.Length:
		return "Length"
	case a.NextHeader != b.NextHeader:
		return "NextHeader"
	case a.HopLimit != b.HopLimit:
		return "HopLimit"
	case !bytes.Equal(a.SrcIP, b.SrcIP):
		return "SrcIP"
	case !bytes.Equal(a.DstIP, b.DstIP):
		return "DstIP"
	case (a.HopByHop == nil) != (b.HopByHop == nil):
		return "HopByHop"
	}
	if a.HopByHop != nil {
		if d := diffHbhRT(a.HopByHop, b.HopByHop); d != "" {
			return "HopByHop." + d
		}
	}
	return ""
}

// firstDiffField names the first differing `key=` of two canonical renderings (stale detection).
func firstDiffField(x, y string) string {
	fx, fy := strings.Split(x, ","), strings.Split(y, ",")
	for i := 0; i < len(fx) && i < len(fy); i++ {
		if fx[i] != fy[i] {
			k := fx[i]
			if j := strings.Index(k, "="); j >= 0 {
				k = k[:j]
			}
			if j := strings.LastIndex(k, "{"); j >= 0 {
				k = k[j+1:]
			}
			return k
		}
	}
	return "len"
}

// ---------------------------------------------------------------- C05

func monCapIndependent(kind string, d []byte, reply string) {
	obj := freshObj(kind)
	r2, _, _, p := decodeInto(kind, obj, withCap(d, nil))
	if p {
		return
	}
	if r2 != reply {
		lib.Finding("C05", "lip6:cap-dependent:"+kind, "decode result depends on spare capacity/foreign bytes: field "+firstDiffField(reply, r2))
	}
}

func monStale(kind string, d []byte, reply string, err error) {
	if err != nil {
		return // the contract speaks about successful decodes
	}
	obj := freshObj(kind)
	r2, err2, _, p := decodeInto(kind, obj, withCap(d, nil))
	if p || err2 != nil {
		if err2 != nil {
			lib.Finding("C05", "lip6:stale:"+kind+":error", "reused object decodes, fresh object fails")
		}
		return
	}
	lib.Stat("redec-compared:" + kind)
	lib.Nontrivial()
	if r2 != reply {
		lib.Finding("C05", "lip6:stale:"+kind+":"+firstDiffField(reply, r2), "decode into a reused object differs from decode into a fresh object")
	}
}

// ---------------------------------------------------------------- decoded layers: C17, C06

func monDecoded(kind string, obj interface{}, d []byte, err error, tr bool) {
	if err != nil {
		return
	}
	if kind == "ip6" {
		monFlow(obj.(*layers.IPv6), d)
	}
	if tr {
		return
	}
	lib.Nontrivial()
	switch kind {
	case "ip6":
		l := &layers.IPv6{}
		if l.DecodeFromBytes(append([]byte{}, d...), &feedback{}) != nil {
			return
		}
		lib.Stat("rt-decoded:ip6")
		jumbo := l.Length == 0 && l.HopByHop != nil
		tag := "ip6"
		if jumbo {
			tag = "ip6:jumbo"
		}
		payload := append([]byte{}, l.Payload...)
		roundTripIP6("roundtrip:"+tag, l, payload)
	case "hbh":
		l := &layers.IPv6HopByHop{}
		if l.DecodeFromBytes(append([]byte{}, d...), &feedback{}) != nil {
			return
		}
		lib.Stat("rt-decoded:hbh")
		roundTripExt("hbh", l, nil, append([]byte{}, l.Payload...))
	case "dst":
		l := &layers.IPv6Destination{}
		if l.DecodeFromBytes(append([]byte{}, d...), &feedback{}) != nil {
			return
		}
		lib.Stat("rt-decoded:dst")
		roundTripExt("dst", nil, l, append([]byte{}, l.Payload...))
	}
}

func serializeOver(l gopacket.SerializableLayer, payload []byte) ([]byte, error, bool) {
	b := gopacket.NewSerializeBuffer()
	if len(payload) > 0 {
		p, _ := b.PrependBytes(len(payload))
		copy(p, payload)
	}
	var err error
	_, panicked := protectS(func() string {
		err = l.SerializeTo(b, gopacket.SerializeOptions{FixLengths: true, ComputeChecksums: true})
		return ""
	})
	if panicked {
		lib.Finding("C07", "lip6:ser-panic:"+lastSite, "SerializeTo panicked: "+lastMsg)
		return nil, nil, true
	}
	if err != nil {
		return nil, err, false
	}
	return append([]byte{}, b.Bytes()...), nil, false
}

// roundTripIP6: l is serialized (fix+csum) over payload, decoded again and compared with the fixed l.
func roundTripIP6(sig string, l *layers.IPv6, payload []byte) {
	out, err, p := serializeOver(l, payload)
	if p {
		return
	}
	if err != nil {
		lib.Finding("C06", "lip6:"+sig+":ser-error", "serializing an in-range/decoded IPv6 layer fails: "+err.Error())
		return
	}
	l2 := &layers.IPv6{}
	fb := &feedback{}
	var derr error
	if _, p := protectS(func() string { derr = l2.DecodeFromBytes(append([]byte{}, out...), fb); return "" }); p {
		return
	}
	if derr != nil {
		what := "dec-error"
		if len(payload) == 0 && l.HopByHop == nil {
			what = "empty-payload"
		}
		lib.Finding("C06", "lip6:"+sig+":"+what, "decoding the serialized layer fails: "+derr.Error())
		return
	}
	if fb.tr {
		lib.Finding("C06", "lip6:"+sig+":truncated", "decoding the serialized layer sets the truncation flag")
	}
	if d := diffIP6RT(l, l2); d != "" {
		lib.Finding("C06", "lip6:"+sig+":"+d, "field differs after serialize+decode: "+d)
	}
	if !bytes.Equal(l2.Payload, payload) {
		lib.Finding("C06", "lip6:"+sig+":Payload", fmt.Sprintf("payload differs after serialize+decode (%d vs %d bytes)", len(l2.Payload), len(payload)))
		return
	}
	// reserialize fixpoint
	out2, err2, p2 := serializeOver(l2, append([]byte{}, l2.Payload...))
	if p2 {
		return
	}
	if err2 != nil || !bytes.Equal(out, out2) {
		lib.Finding("C06", "lip6:refix:ip6", "serializing the decoded layer again does not reproduce the bytes")
	}
}

func roundTripExt(kind string, h *layers.IPv6HopByHop, dl *layers.IPv6Destination, payload []byte) {
	var l gopacket.SerializableLayer
	if kind == "hbh" {
		l = h
	} else {
		l = dl
	}
	out, err, p := serializeOver(l, payload)
	if p {
		return
	}
	sig := "roundtrip:" + kind
	if err != nil {
		lib.Finding("C06", "lip6:"+sig+":ser-error", "serializing an in-range/decoded extension header fails: "+err.Error())
		return
	}
	fb := &feedback{}
	var derr error
	var d, pay2 string
	var nh2 layers.IPProtocol
	var hl2 uint8
	var o1, o2 []tlv
	var payloadBack []byte
	if kind == "hbh" {
		l2 := &layers.IPv6HopByHop{}
		derr = l2.DecodeFromBytes(append([]byte{}, out...), fb)
		nh2, hl2, o2, payloadBack = l2.NextHeader, l2.HeaderLength, hbhOpts(l2.Options), l2.Payload
		o1 = hbhOpts(h.Options)
		if derr == nil {
			if h.NextHeader != nh2 {
				d = "NextHeader"
			} else if h.HeaderLength != hl2 {
				d = "HeaderLength"
			} else {
				d = diffOpts(o1, o2)
			}
			out2, err2, _ := serializeOver(l2, append([]byte{}, l2.Payload...))
			if err2 != nil || !bytes.Equal(out, out2) {
				lib.Finding("C06", "lip6:refix:hbh", "serializing the decoded layer again does not reproduce the bytes")
			}
		}
	} else {
		l2 := &layers.IPv6Destination{}
		derr = l2.DecodeFromBytes(append([]byte{}, out...), fb)
		nh2, hl2, o2, payloadBack = l2.NextHeader, l2.HeaderLength, dstOpts(l2.Options), l2.Payload
		o1 = dstOpts(dl.Options)
		if derr == nil {
			if dl.NextHeader != nh2 {
				d = "NextHeader"
			} else if dl.HeaderLength != hl2 {
				d = "HeaderLength"
			} else {
				d = diffOpts(o1, o2)
			}
			out2, err2, _ := serializeOver(l2, append([]byte{}, l2.Payload...))
			if err2 != nil || !bytes.Equal(out, out2) {
				lib.Finding("C06", "lip6:refix:dst", "serializing the decoded layer again does not reproduce the bytes")
			}
		}
	}
	_ = pay2
	if derr != nil {
		lib.Finding("C06", "lip6:"+sig+":dec-error", "decoding the serialized extension header fails: "+derr.Error())
		return
	}
	if fb.tr {
		lib.Finding("C06", "lip6:"+sig+":truncated", "decoding the serialized layer sets the truncation flag")
	}
	if d != "" {
		lib.Finding("C06", "lip6:"+sig+":"+d, "field differs after serialize+decode: "+d)
	}
	if !bytes.Equal(payloadBack, payload) {
		lib.Finding("C06", "lip6:"+sig+":Payload", "payload differs after serialize+decode")
	}
}

// ---------------------------------------------------------------- C17

func monFlow(l *layers.IPv6, d []byte) {
	if len(d) < 40 {
		return
	}
	lib.Stat("flow-checked")
	f := l.NetworkFlow()
	s, t := f.Endpoints()
	if f.EndpointType() != layers.EndpointIPv6 || !bytes.Equal(s.Raw(), d[8:24]) || !bytes.Equal(t.Raw(), d[24:40]) {
		lib.Finding("C17", "lip6:flow:bytes", "NetworkFlow does not carry the address bytes of the input")
	}
	// the other direction of the conversation: same packet with the addresses swapped
	r := append([]byte{}, d...)
	copy(r[8:24], d[24:40])
	copy(r[24:40], d[8:24])
	l2 := &layers.IPv6{}
	if l2.DecodeFromBytes(r, &feedback{}) != nil {
		lib.Finding("C17", "lip6:flow:reverse-decode", "packet with swapped addresses does not decode")
		return
	}
	f2 := l2.NetworkFlow()
	if f2 != f.Reverse() || f2.Reverse() != f {
		lib.Finding("C17", "lip6:flow:reverse", "flows of the two directions are not mutually reversed")
	}
	if f2.FastHash() != f.FastHash() {
		lib.Finding("C17", "lip6:flow:hash", "FastHash differs between the two directions")
	}
}

// ---------------------------------------------------------------- C19 (+C05): NewPacket and the parser

func ownSite(site string) bool { return strings.HasPrefix(site, "layers/ip6.go") }

func monPacket(kind string, lt gopacket.LayerType, flags int, d []byte) {
	opts := gopacket.DecodeOptions{Lazy: flags&1 != 0, NoCopy: flags&2 != 0, DecodeStreamsAsDatagrams: flags&4 != 0, SkipDecodeRecovery: true}
	var pkt gopacket.Packet
	_, panicked := protectS(func() string {
		pkt = gopacket.NewPacket(withCap(d, []byte{0xde, 0xad, 0xbe, 0xef, 0xde, 0xad, 0xbe, 0xef}), lt, opts)
		_ = pkt.Layers() // forces lazy decoding
		return ""
	})
	if panicked {
		if ownSite(lastSite) {
			lib.Finding("C19", "lip6:panic:"+lastSite, "NewPacket(SkipDecodeRecovery) panicked: "+lastMsg)
		} else {
			lib.Stat("foreign-panic:" + lastSite)
		}
		return
	}
	lib.Stat(fmt.Sprintf("pkt:%s:layers=%d", kind, min(len(pkt.Layers()), 6)))
	if pkt.ErrorLayer() != nil {
		lib.Stat("pkt:" + kind + ":errorlayer")
	}
	// recovery on: rendering must not panic (observed only; C01 belongs to engine pkt)
	if _, p := protectS(func() string {
		p2 := gopacket.NewPacket(d, lt, gopacket.Default)
		_ = p2.String()
		_ = p2.Dump()
		return ""
	}); p {
		lib.Stat("render-panic:" + lastSite)
	}
	if kind != "ip6" {
		return
	}
	// DecodingLayerParser with panics let through, objects reused across the ops of a case
	if st.dlp == nil {
		st.dlp = gopacket.NewDecodingLayerParser(layers.LayerTypeIPv6, &st.pIP6, &st.pSkip, &st.pPay)
		st.dlp.IgnorePanic = true
		st.dlp.IgnoreUnsupported = true
	}
	var decoded []gopacket.LayerType
	_, panicked = protectS(func() string {
		_ = st.dlp.DecodeLayers(withCap(d, nil), &decoded)
		return ""
	})
	if panicked {
		if ownSite(lastSite) {
			lib.Finding("C19", "lip6:panic:"+lastSite, "DecodingLayerParser(IgnorePanic) panicked: "+lastMsg)
		}
		return
	}
	lib.Stat(fmt.Sprintf("dlp:layers=%d", min(len(decoded), 6)))
	// C05: the parser's IPv6 (reused object) equals the packet's IPv6 layer
	n6 := 0
	for _, t := range decoded {
		if t == layers.LayerTypeIPv6 {
			n6++
		}
	}
	if n6 == 1 && decoded[0] == layers.LayerTypeIPv6 { // (a nested IPv6 would be decoded into the same object)
		p3 := gopacket.NewPacket(d, lt, gopacket.Default)
		m6 := 0
		for _, x := range p3.Layers() {
			if x.LayerType() == layers.LayerTypeIPv6 {
				m6++
			}
		}
		if l, ok := p3.Layer(layers.LayerTypeIPv6).(*layers.IPv6); ok && m6 == 1 && p3.Layers()[0] == gopacket.Layer(l) {
			a, b := ip6R(&st.pIP6), ip6R(l)
			lib.Stat("dlp-compared")
			if a != b {
				lib.Finding("C05", "lip6:dlp-vs-packet:"+firstDiffField(a, b), "IPv6 decoded by DecodingLayerParser into a reused object differs from NewPacket's layer")
			}
		}
	}
}

// ---------------------------------------------------------------- C07 / C06 on serialization

func totalOptLen(os []tlv) int {
	n := 2
	for _, o := range os {
		n += 2 + len(o.Data)
		n += int(o.X) + int(o.Y) // worst-case alignment padding
	}
	return n + 8
}

func jumboOptsOK(os []tlv) bool {
	for _, o := range os {
		if o.Type == layers.IPv6HopByHopOptionJumbogram && len(o.Data) != 4 {
			return false
		}
	}
	return true
}

// wfRoundTrip: the in-range domain on which C06 is claimed for constructed layers.
func wfRoundTrip(s *serSpec, l gopacket.SerializableLayer) bool {
	if !s.fix || !s.consistent || len(s.lays) != 0 {
		return false
	}
	switch v := l.(type) {
	case *layers.IPv6:
		if v.Version > 15 || v.FlowLabel > 0xfffff {
			return false
		}
		if v.HopByHop == nil {
			return v.NextHeader != layers.IPProtocolIPv6HopByHop || len(s.payload) > 65535
		}
		os := hbhOpts(v.HopByHop.Options)
		if len(s.payload) <= 65535 {
			for _, o := range os { // a jumbo option is in range only on a jumbogram
				if o.Type == layers.IPv6HopByHopOptionJumbogram {
					return false
				}
			}
		}
		if len(s.payload) <= 65535 && len(s.payload)+totalOptLen(os) > 65535 {
			return false // does not fit, and the serializer only switches to a jumbogram for the payload proper
		}
		return totalOptLen(os) <= 2048 && jumboOptsOK(os)
	case *layers.IPv6HopByHop:
		return totalOptLen(hbhOpts(v.Options)) <= 2048
	case *layers.IPv6Destination:
		return totalOptLen(dstOpts(v.Options)) <= 2048
	case *layers.IPv6Routing:
		return v.RoutingType == 0 && len(v.SourceRoutingIPs) <= 127
	case *layers.IPv6Fragment:
		return v.FragmentOffset < 8192 && v.Reserved2 < 4
	}
	return false
}

func monSerError(s *serSpec, err error) {
	if wfRoundTrip(s, s.mk()) {
		lib.Finding("C06", "lip6:roundtrip:"+s.kind+":ser-error", "serializing an in-range layer fails: "+err.Error())
	}
}

func monSer(s *serSpec, l gopacket.SerializableLayer, out []byte) {
	lib.Nontrivial()
	// C07: other buffer histories
	hists := []string{"fresh", "dirty165", "dirty90", fmt.Sprintf("sized%d", len(s.payload)+64)}
	for _, h := range hists {
		if h == s.hist {
			continue
		}
		o2, e2, p2 := s.run(s.mk(), h)
		if p2 {
			lib.Finding("C07", "lip6:ser-panic:"+lastSite, "SerializeTo panicked on buffer "+h+": "+lastMsg)
			continue
		}
		if e2 != nil || !bytes.Equal(o2, out) {
			sig := "lip6:dirty-buffer:" + s.kind
			if !s.consistent {
				sig = "lip6:dirty-buffer-inconsistent:" + s.kind
			}
			lib.Finding("C07", sig, fmt.Sprintf("output on buffer %s differs from output on buffer %s", h, s.hist))
			break
		}
	}
	// C07: repeat with the mutated layer
	o3, e3, p3 := s.run(l, s.hist)
	if p3 {
		lib.Finding("C07", "lip6:ser-panic:"+lastSite, "second SerializeTo panicked: "+lastMsg)
	} else if e3 != nil || !bytes.Equal(o3, out) {
		lib.Finding("C07", "lip6:not-idempotent:"+s.kind, "serializing the same layer again gives different bytes")
	}
	// C06: constructed in-range layers
	if !wfRoundTrip(s, l) {
		return
	}
	lib.Stat("rt-constructed:" + s.kind)
	switch s.kind {
	case "ip6":
		tag := "ip6"
		if len(s.payload) > 65535 {
			tag = "ip6:jumbo"
		}
		roundTripIP6("roundtrip:"+tag, s.mk().(*layers.IPv6), s.payload)
	case "hbh":
		roundTripExt("hbh", s.mk().(*layers.IPv6HopByHop), nil, s.payload)
	case "dst":
		roundTripExt("dst", nil, s.mk().(*layers.IPv6Destination), s.payload)
	case "rt":
		rec := &recorder{}
		var r2 *layers.IPv6Routing
		ok := false
		if layers.LayerTypeIPv6Routing.Decode(out, rec) == nil && len(rec.lays) == 1 {
			r2, ok = rec.lays[0].(*layers.IPv6Routing)
		}
		r1 := l.(*layers.IPv6Routing)
		if !ok {
			lib.Finding("C06", "lip6:roundtrip:rt:dec-error", "serialized routing header does not decode")
			return
		}
		d := ""
		switch {
		case r1.NextHeader != r2.NextHeader:
			d = "NextHeader"
		case r1.RoutingType != r2.RoutingType:
			d = "RoutingType"
		case r1.SegmentsLeft != r2.SegmentsLeft:
			d = "SegmentsLeft"
		case !bytes.Equal(r1.Reserved, r2.Reserved):
			d = "Reserved"
		case ipsR(r1.SourceRoutingIPs) != ipsR(r2.SourceRoutingIPs):
			d = "SourceRoutingIPs"
		case !bytes.Equal(r2.Payload, s.payload):
			d = "Payload"
		case rec.tr:
			d = "truncated"
		}
		if d != "" {
			lib.Finding("C06", "lip6:roundtrip:rt:"+d, "routing header differs after serialize+decode: "+d)
		}
	case "frag":
		rec := &recorder{}
		var f2 *layers.IPv6Fragment
		ok := false
		if layers.LayerTypeIPv6Fragment.Decode(out, rec) == nil && len(rec.lays) == 1 {
			f2, ok = rec.lays[0].(*layers.IPv6Fragment)
		}
		f1 := l.(*layers.IPv6Fragment)
		if !ok {
			lib.Finding("C06", "lip6:roundtrip:frag:dec-error", "serialized fragment header does not decode")
			return
		}
		a, b := *f1, *f2
		a.BaseLayer, b.BaseLayer = layers.BaseLayer{}, layers.BaseLayer{}
		if fragR(&a) != fragR(&b) {
			lib.Finding("C06", "lip6:roundtrip:frag:"+firstDiffField(fragR(&a), fragR(&b)), "fragment header differs after serialize+decode")
		}
		if !bytes.Equal(f2.Payload, s.payload) || rec.tr {
			lib.Finding("C06", "lip6:roundtrip:frag:Payload", "fragment payload differs after serialize+decode")
		}
	}
}
