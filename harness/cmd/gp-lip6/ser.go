package main

import (
	"bytes"
	"fmt"
	"net"
	"strings"

	"github.com/gopacket/gopacket"
	"github.com/gopacket/gopacket/layers"
	"verif/harness/lib"
)

const (
	dirtyLen = 2200
	dirtyApp = 64
)

// mkBuf builds the serialize buffer named by hist (fresh | dirty<byte> | sized<n>).
func mkBuf(hist string) (gopacket.SerializeBuffer, bool) {
	switch {
	case hist == "fresh":
		return gopacket.NewSerializeBuffer(), true
	case strings.HasPrefix(hist, "dirty"):
		v, ok := lib.Atoi(hist[5:])
		if !ok || v < 0 || v > 255 {
			return nil, false
		}
		b := gopacket.NewSerializeBuffer()
		p, _ := b.PrependBytes(dirtyLen)
		for i := range p {
			p[i] = byte(v)
		}
		q, _ := b.AppendBytes(dirtyApp)
		for i := range q {
			q[i] = byte(v)
		}
		// the earlier use also recorded a layer stack (as SerializeLayers / SerializePacket do); Clear must forget it:
		// IPv6.SerializeTo consults b.Layers() to decide whether its hop-by-hop header was already written
		b.PushLayer(gopacket.LayerTypePayload)
		b.PushLayer(layers.LayerTypeIPv6HopByHop)
		b.PushLayer(layers.LayerTypeIPv6)
		b.Clear()
		return b, true
	case strings.HasPrefix(hist, "sized"):
		n, ok := lib.Atoi(hist[5:])
		if !ok || n < 0 || n > 200000 {
			return nil, false
		}
		return gopacket.NewSerializeBufferExpectedSize(n, n), true
	}
	return nil, false
}

func prepBuf(hist string, lays []int, payload []byte) (gopacket.SerializeBuffer, bool) {
	b, ok := mkBuf(hist)
	if !ok {
		return nil, false
	}
	if len(payload) > 0 {
		p, _ := b.PrependBytes(len(payload))
		copy(p, payload)
	}
	for _, t := range lays {
		b.PushLayer(gopacket.LayerType(t))
	}
	return b, true
}

// serSpec is a parsed `ser` op: it can build a fresh copy of the layer any number of times.
type serSpec struct {
	kind    string
	fix     bool
	csum    bool
	hist    string
	lays    []int
	payload []byte
	mk      func() gopacket.SerializableLayer
	render  func(gopacket.SerializableLayer) string
	// consistent: the layer is one that decoding can produce / in-range construction yields
	// (OptionLength = len(OptionData) or FixLengths, 16-byte addresses, 4 reserved bytes)
	consistent bool
}

func (s *serSpec) opts() gopacket.SerializeOptions {
	return gopacket.SerializeOptions{FixLengths: s.fix, ComputeChecksums: s.csum}
}

func optsConsistent(os []tlv, fix bool) bool {
	for _, o := range os {
		if len(o.Data) > 255 {
			return false
		}
		if !fix && int(o.Len) != len(o.Data) {
			return false
		}
	}
	return true
}

func parseSer(a []string) (*serSpec, bool) {
	if len(a) < 9 {
		return nil, false
	}
	s := &serSpec{kind: a[2], hist: a[5]}
	var ok1, ok2, ok3, ok4 bool
	s.fix, ok1 = boolArg(a[3])
	s.csum, ok2 = boolArg(a[4])
	s.lays, ok3 = layersArg(a[6])
	s.payload, ok4 = bytesArg(a[len(a)-1])
	if !(ok1 && ok2 && ok3 && ok4) {
		return nil, false
	}
	if _, ok := mkBuf(s.hist); !ok {
		return nil, false
	}
	f := a[7 : len(a)-1]
	switch s.kind {
	case "ip6":
		if len(f) != 9 {
			return nil, false
		}
		v, o1 := u8Arg(f[0])
		tc, o2 := u8Arg(f[1])
		fl, o3 := lib.Atou(f[2])
		ln, o4 := lib.Atou(f[3])
		nh, o5 := u8Arg(f[4])
		hl, o6 := u8Arg(f[5])
		src, o7 := lib.UnHex(f[6])
		dst, o8 := lib.UnHex(f[7])
		if !(o1 && o2 && o3 && o4 && o5 && o6 && o7 && o8) || fl > 0xffffffff || ln > 0xffff {
			return nil, false
		}
		var e *extSpec
		if f[8] != "nil" {
			x, ok := extArg(f[8])
			if !ok {
				return nil, false
			}
			e = &x
		}
		s.consistent = len(src) == 16 && len(dst) == 16 && (e == nil || optsConsistent(e.Opts, s.fix))
		s.mk = func() gopacket.SerializableLayer {
			l := &layers.IPv6{Version: v, TrafficClass: tc, FlowLabel: uint32(fl), Length: uint16(ln), NextHeader: layers.IPProtocol(nh),
				HopLimit: hl, SrcIP: net.IP(cloneB(src)), DstIP: net.IP(cloneB(dst))}
			if len(src) == 0 {
				l.SrcIP = nil
			}
			if len(dst) == 0 {
				l.DstIP = nil
			}
			if e != nil {
				l.HopByHop = e.hbh()
			}
			return l
		}
		s.render = func(l gopacket.SerializableLayer) string { return ip6R(l.(*layers.IPv6)) }
	case "hbh", "dst":
		if len(f) != 1 {
			return nil, false
		}
		e, ok := extArg(f[0])
		if !ok {
			return nil, false
		}
		s.consistent = optsConsistent(e.Opts, s.fix)
		if s.kind == "hbh" {
			s.mk = func() gopacket.SerializableLayer { return e.hbh() }
			s.render = func(l gopacket.SerializableLayer) string { return hbhR(l.(*layers.IPv6HopByHop)) }
		} else {
			s.mk = func() gopacket.SerializableLayer { return e.dst() }
			s.render = func(l gopacket.SerializableLayer) string { return dstR(l.(*layers.IPv6Destination)) }
		}
	case "rt":
		if len(f) != 5 {
			return nil, false
		}
		nh, o1 := u8Arg(f[0])
		typ, o2 := u8Arg(f[1])
		segs, o3 := u8Arg(f[2])
		res, o4 := lib.UnHex(f[3])
		ips, o5 := ipsArg(f[4])
		if !(o1 && o2 && o3 && o4 && o5) {
			return nil, false
		}
		s.consistent = len(res) == 4
		for _, ip := range ips {
			if len(ip) != 16 {
				s.consistent = false
			}
		}
		s.mk = func() gopacket.SerializableLayer {
			r := &layers.IPv6Routing{RoutingType: typ, SegmentsLeft: segs, Reserved: cloneB(res)}
			if len(res) == 0 {
				r.Reserved = nil
			}
			r.NextHeader = layers.IPProtocol(nh)
			for _, ip := range ips {
				r.SourceRoutingIPs = append(r.SourceRoutingIPs, net.IP(cloneB(ip)))
			}
			return r
		}
		s.render = func(l gopacket.SerializableLayer) string { return rtR(l.(*layers.IPv6Routing)) }
	case "frag":
		if len(f) != 6 {
			return nil, false
		}
		nh, o1 := u8Arg(f[0])
		r1, o2 := u8Arg(f[1])
		off, o3 := lib.Atou(f[2])
		r2, o4 := u8Arg(f[3])
		mf, o5 := boolArg(f[4])
		id, o6 := lib.Atou(f[5])
		if !(o1 && o2 && o3 && o4 && o5 && o6) || off > 0xffff || id > 0xffffffff {
			return nil, false
		}
		s.consistent = true
		s.mk = func() gopacket.SerializableLayer {
			return &layers.IPv6Fragment{NextHeader: layers.IPProtocol(nh), Reserved1: r1, FragmentOffset: uint16(off), Reserved2: r2,
				MoreFragments: mf, Identification: uint32(id)}
		}
		s.render = func(l gopacket.SerializableLayer) string { return fragR(l.(*layers.IPv6Fragment)) }
	default:
		return nil, false
	}
	return s, true
}

// run serializes layer l into a buffer with history hist; returns (out, err, panicked).
func (s *serSpec) run(l gopacket.SerializableLayer, hist string) (out []byte, err error, panicked bool) {
	b, _ := prepBuf(hist, s.lays, s.payload)
	_, panicked = protectS(func() string {
		err = l.SerializeTo(b, s.opts())
		return ""
	})
	if panicked {
		return nil, nil, true
	}
	if err == nil {
		out = append([]byte{}, b.Bytes()...)
	}
	return
}

func execSer(a []string) string {
	s, ok := parseSer(a)
	if !ok {
		return "bad-op"
	}
	l := s.mk()
	out, err, panicked := s.run(l, s.hist)
	if panicked {
		lib.Finding("C07", "lip6:ser-panic:"+lastSite, fmt.Sprintf("SerializeTo(%s) panicked: %s", s.kind, lastMsg))
		lib.Stat("ser:" + s.kind + ":panic")
		return "panic " + lib.PanicKind(lastMsg)
	}
	if err != nil {
		lib.Stat("ser:" + s.kind + ":err")
		monSerError(s, err)
		return "err"
	}
	lib.Stat("ser:" + s.kind + ":ok")
	if len(s.payload) > 65535 {
		lib.Stat("ser:" + s.kind + ":jumbo-ok")
	}
	monSer(s, l, out)
	return "ok out=" + bytesR(out) + " l=" + s.render(l)
}

func sameBytes(a, b []byte) bool { return bytes.Equal(a, b) }
