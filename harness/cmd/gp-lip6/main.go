// gp-lip6: correspondence adapter for engine `lip6` = the codec of layers/ip6.go
// (IPv6, IPv6HopByHop, IPv6Destination, IPv6ExtensionSkipper, IPv6Routing, IPv6Fragment).
//
// Ops (first word `lip6`; byte arguments are `+`-joined parts: hex | `-` | pat:<a>:<n>):
//
//	lip6 protomap <proto>:<layertype> ...          enums.go IPProtocol -> LayerType table (model parameter)
//	lip6 dec <kind> <extra-cap> <foreign> <data>   DecodeFromBytes into a FRESH object; the data slice has
//	                                               <extra-cap> spare capacity holding <foreign>   kind: ip6|hbh|dst|skip
//	lip6 redec <kind> <data>                       DecodeFromBytes into the SAME object as the previous dec/redec
//	lip6 bld <kind> <data>                         the registered decode function on a recording PacketBuilder  kind: ip6|hbh|dst|rt|frag
//	lip6 pkt <kind> <flags> <data>                 NewPacket (SkipDecodeRecovery) + DecodingLayerParser (IgnorePanic): monitors only
//	lip6 ser <kind> <fix> <csum> <bufhist> <layers> <fields…> <payload>   SerializeTo   kind: ip6|hbh|dst|rt|frag
//
// Replies: `ok|err|panic <kind>` followed by `tr=<0|1>` and the canonical rendering of ALL public
// fields (dec/redec/bld) or `out=<bytes>` and the mutated layer (ser).
package main

import (
	"fmt"
	"os"
	"strings"
	"sync/atomic"
	"time"

	"github.com/gopacket/gopacket"
	"github.com/gopacket/gopacket/layers"
	"verif/harness/lib"
)

type feedback struct{ tr bool }

func (f *feedback) SetTruncated() { f.tr = true }

type state struct {
	pm   map[int]int
	ip6  *layers.IPv6
	hbh  *layers.IPv6HopByHop
	dst  *layers.IPv6Destination
	skip *layers.IPv6ExtensionSkipper
	// parser path (objects reused across the ops of a case)
	pIP6  layers.IPv6
	pSkip layers.IPv6ExtensionSkipper
	pPay  gopacket.Payload
	dlp   *gopacket.DecodingLayerParser
}

var st *state
var opStart atomic.Int64

func reset() {
	st = &state{pm: map[int]int{}, ip6: &layers.IPv6{}, hbh: &layers.IPv6HopByHop{}, dst: &layers.IPv6Destination{}, skip: &layers.IPv6ExtensionSkipper{}}
}

func resStr(err error) string {
	if err != nil {
		return "err"
	}
	return "ok"
}

func trStr(b bool) string { return "tr=" + b01(b) }

// withCap returns a slice holding d with exactly len(foreign) spare capacity filled with foreign.
func withCap(d, foreign []byte) []byte {
	buf := make([]byte, len(d)+len(foreign))
	copy(buf, d)
	copy(buf[len(d):], foreign)
	return buf[:len(d):len(buf)]
}

func flowR(l *layers.IPv6) string {
	r, p := protectS(func() string {
		f := l.NetworkFlow()
		s, d := f.Endpoints()
		return fmt.Sprintf("flow=%d:%s:%s", int(f.EndpointType()), bytesR(s.Raw()), bytesR(d.Raw()))
	})
	if p {
		return "flow=panic"
	}
	return r
}

// decodeInto runs DecodeFromBytes of the object selected by kind; returns the reply line.
func decodeInto(kind string, obj interface{}, data []byte) (reply string, err error, tr bool, panicked bool) {
	fb := &feedback{}
	reply, panicked = protectS(func() string {
		switch kind {
		case "ip6":
			l := obj.(*layers.IPv6)
			err = l.DecodeFromBytes(data, fb)
			return strings.Join([]string{resStr(err), trStr(fb.tr), ip6R(l), fmt.Sprintf("nlt=%d", int(l.NextLayerType())), flowR(l)}, " ")
		case "hbh":
			l := obj.(*layers.IPv6HopByHop)
			err = l.DecodeFromBytes(data, fb)
			return strings.Join([]string{resStr(err), trStr(fb.tr), hbhR(l)}, " ")
		case "dst":
			l := obj.(*layers.IPv6Destination)
			err = l.DecodeFromBytes(data, fb)
			return strings.Join([]string{resStr(err), trStr(fb.tr), dstR(l)}, " ")
		case "skip":
			l := obj.(*layers.IPv6ExtensionSkipper)
			err = l.DecodeFromBytes(data, fb)
			return strings.Join([]string{resStr(err), trStr(fb.tr), skipR(l), fmt.Sprintf("nlt=%d", int(l.NextLayerType()))}, " ")
		}
		return "bad-op"
	})
	if panicked {
		lib.Finding("C19", "lip6:panic:"+lastSite, fmt.Sprintf("DecodeFromBytes(%s) panicked: %s", kind, lastMsg))
	}
	return reply, err, fb.tr, panicked
}

func freshObj(kind string) interface{} {
	switch kind {
	case "ip6":
		return &layers.IPv6{}
	case "hbh":
		return &layers.IPv6HopByHop{}
	case "dst":
		return &layers.IPv6Destination{}
	case "skip":
		return &layers.IPv6ExtensionSkipper{}
	}
	return nil
}

func (s *state) setObj(kind string, o interface{}) {
	switch kind {
	case "ip6":
		s.ip6 = o.(*layers.IPv6)
	case "hbh":
		s.hbh = o.(*layers.IPv6HopByHop)
	case "dst":
		s.dst = o.(*layers.IPv6Destination)
	case "skip":
		s.skip = o.(*layers.IPv6ExtensionSkipper)
	}
}
func (s *state) getObj(kind string) interface{} {
	switch kind {
	case "ip6":
		return s.ip6
	case "hbh":
		return s.hbh
	case "dst":
		return s.dst
	case "skip":
		return s.skip
	}
	return nil
}

var ltByKind = map[string]gopacket.LayerType{}

func initKinds() {
	ltByKind["ip6"] = layers.LayerTypeIPv6
	ltByKind["hbh"] = layers.LayerTypeIPv6HopByHop
	ltByKind["dst"] = layers.LayerTypeIPv6Destination
	ltByKind["rt"] = layers.LayerTypeIPv6Routing
	ltByKind["frag"] = layers.LayerTypeIPv6Fragment
}

func exec(a []string) string {
	opStart.Store(time.Now().UnixNano())
	defer opStart.Store(0)
	if len(a) < 2 || a[0] != "lip6" {
		return "bad-op"
	}
	switch a[1] {
	case "protomap":
		pm := map[int]int{}
		for _, e := range a[2:] {
			f := strings.Split(e, ":")
			if len(f) != 2 {
				return "bad-op"
			}
			p, ok1 := lib.Atoi(f[0])
			t, ok2 := lib.Atoi(f[1])
			if !ok1 || !ok2 || p < 0 {
				return "bad-op"
			}
			pm[p] = t
		}
		// the table must be the real one (it parametrises the model)
		for p := 0; p < 256; p++ {
			if int(layers.IPProtocol(p).LayerType()) != pm[p] {
				return "err"
			}
		}
		st.pm = pm
		return "ok"
	case "dec":
		if len(a) != 6 {
			return "bad-op"
		}
		xc, ok1 := lib.Atoi(a[3])
		foreign, ok2 := bytesArg(a[4])
		d, ok3 := bytesArg(a[5])
		obj := freshObj(a[2])
		if !ok1 || !ok2 || !ok3 || obj == nil || len(foreign) != xc {
			return "bad-op"
		}
		data := withCap(d, foreign)
		reply, err, tr, panicked := decodeInto(a[2], obj, data)
		st.setObj(a[2], obj)
		lib.Stat("dec:" + a[2] + ":" + strings.Fields(reply)[0])
		if !panicked {
			monCapIndependent(a[2], d, reply)
			monDecoded(a[2], obj, d, err, tr)
		}
		return reply
	case "redec":
		if len(a) != 4 {
			return "bad-op"
		}
		d, ok := bytesArg(a[3])
		obj := st.getObj(a[2])
		if !ok || obj == nil {
			return "bad-op"
		}
		data := withCap(d, nil)
		reply, err, _, panicked := decodeInto(a[2], obj, data)
		lib.Stat("redec:" + a[2] + ":" + strings.Fields(reply)[0])
		if !panicked {
			monStale(a[2], d, reply, err)
		}
		return reply
	case "bld":
		if len(a) != 4 {
			return "bad-op"
		}
		lt, okk := ltByKind[a[2]]
		d, ok := bytesArg(a[3])
		if !ok || !okk {
			return "bad-op"
		}
		rec := &recorder{}
		var err error
		reply, panicked := protectS(func() string {
			err = lt.Decode(withCap(d, nil), rec)
			return strings.Join(append([]string{resStr(err), trStr(rec.tr)}, rec.evs...), " ")
		})
		if panicked {
			lib.Finding("C19", "lip6:panic:"+lastSite, fmt.Sprintf("decode function of %s panicked: %s", a[2], lastMsg))
		}
		lib.Stat("bld:" + a[2] + ":" + strings.Fields(reply)[0])
		return reply
	case "pkt":
		if len(a) != 5 {
			return "bad-op"
		}
		lt, okk := ltByKind[a[2]]
		flags, ok1 := lib.Atoi(a[3])
		d, ok2 := bytesArg(a[4])
		if !okk || !ok1 || !ok2 || flags < 0 {
			return "bad-op"
		}
		monPacket(a[2], lt, flags, d)
		return "ok"
	case "ser":
		return execSer(a)
	}
	return "bad-op"
}

// ---------------------------------------------------------------- recording PacketBuilder

type recorder struct {
	tr   bool
	evs  []string
	lays []gopacket.Layer
}

func (r *recorder) SetTruncated() { r.tr = true }
func (r *recorder) AddLayer(l gopacket.Layer) {
	r.lays = append(r.lays, l)
	switch v := l.(type) {
	case *layers.IPv6:
		r.evs = append(r.evs, "add:"+ip6R(v))
	case *layers.IPv6HopByHop:
		r.evs = append(r.evs, "add:hbh:"+hbhR(v))
	case *layers.IPv6Destination:
		r.evs = append(r.evs, "add:dst:"+dstR(v))
	case *layers.IPv6Routing:
		r.evs = append(r.evs, "add:"+rtR(v))
	case *layers.IPv6Fragment:
		r.evs = append(r.evs, "add:"+fragR(v))
	default:
		r.evs = append(r.evs, fmt.Sprintf("add:other:%d", int(l.LayerType())))
	}
}
func (r *recorder) SetLinkLayer(gopacket.LinkLayer)               { r.evs = append(r.evs, "setlink") }
func (r *recorder) SetNetworkLayer(gopacket.NetworkLayer)         { r.evs = append(r.evs, "setnet") }
func (r *recorder) SetTransportLayer(gopacket.TransportLayer)     { r.evs = append(r.evs, "settransport") }
func (r *recorder) SetApplicationLayer(gopacket.ApplicationLayer) { r.evs = append(r.evs, "setapp") }
func (r *recorder) SetErrorLayer(gopacket.ErrorLayer)             { r.evs = append(r.evs, "seterr") }
func (r *recorder) DumpPacketData()                               {}
func (r *recorder) DecodeOptions() *gopacket.DecodeOptions        { return &gopacket.DecodeOptions{} }
func (r *recorder) NextDecoder(next gopacket.Decoder) error {
	switch v := next.(type) {
	case gopacket.LayerType:
		r.evs = append(r.evs, fmt.Sprintf("next:lt:%d", int(v)))
	case layers.IPProtocol:
		r.evs = append(r.evs, fmt.Sprintf("next:ipproto:%d", int(v)))
	case gopacket.DecodeFunc:
		// the only DecodeFunc ip6.go hands over is gopacket.DecodeFragment
		if fmt.Sprintf("%p", v) == fmt.Sprintf("%p", gopacket.DecodeFragment) {
			r.evs = append(r.evs, "next:fragment")
		} else {
			r.evs = append(r.evs, "next:func")
		}
	default:
		r.evs = append(r.evs, "next:other")
	}
	return nil
}

func main() {
	initKinds()
	reset()
	go func() { // watchdog: a single op must not hang
		for {
			time.Sleep(2 * time.Second)
			if t := opStart.Load(); t != 0 && time.Now().UnixNano()-t > int64(60*time.Second) {
				fmt.Fprintln(os.Stderr, "fatal error: lip6 op exceeded 60s (hang)")
				os.Exit(3)
			}
		}
	}()
	lib.Main(lib.Engine{Name: "lip6", Gen: gen, Reset: reset, Exec: exec})
}
