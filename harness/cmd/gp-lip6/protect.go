package main

import (
	"fmt"
	"runtime/debug"
	"strings"

	"verif/harness/lib"
)

var repoRoot = repoDir()

// siteOf: top-most frame inside the gopacket module (relative file:line) of a stack dump.
// (lib.LastPanicSite only recognises /repo/…; the scratch worktree lives elsewhere.)
func siteOf(stack string) string {
	for _, l := range strings.Split(stack, "\n") {
		l = strings.TrimSpace(l)
		if !strings.HasPrefix(l, repoRoot+"/") {
			continue
		}
		f := strings.Fields(l[len(repoRoot)+1:])
		if len(f) > 0 && strings.Contains(f[0], ".go:") {
			return f[0]
		}
	}
	return "?"
}

var lastSite, lastMsg string


// protectS has the signature of lib.Protect but records the site relative to the module actually built against.
func protectS(f func() string) (reply string, panicked bool) {
	defer func() {
		if v := recover(); v != nil {
			lastMsg = fmt.Sprint(v)
			lastSite = siteOf(string(debug.Stack()))
			reply = "panic " + lib.PanicKind(v)
			panicked = true
		}
	}()
	return f(), false
}
