package main

// Canonical rendering and argument parsing shared by exec, monitors and generator.
// The Lean driver (lean/Driver/Lip6.lean) implements exactly the same text formats.

import (
	"fmt"
	"net"
	"strconv"
	"strings"

	"github.com/gopacket/gopacket/layers"
	"verif/harness/lib"
)

func digest(b []byte) uint32 {
	h := uint32(5381)
	for _, c := range b {
		h = h*33 + uint32(c)
	}
	return h
}

func bytesR(b []byte) string {
	if len(b) <= 128 {
		return lib.Hex(b)
	}
	return fmt.Sprintf("#%d.%d", len(b), digest(b))
}

type tlv struct {
	Type, Len uint8
	ALen      int
	Data      []byte
	X, Y      uint8
}

func tlvR(o tlv) string {
	d := "nil"
	if o.Data != nil {
		d = bytesR(o.Data)
	}
	return fmt.Sprintf("%d:%d:%d:%s:%d:%d", o.Type, o.Len, o.ALen, d, o.X, o.Y)
}

func hbhOpts(os []*layers.IPv6HopByHopOption) []tlv {
	var r []tlv
	for _, o := range os {
		r = append(r, tlv{o.OptionType, o.OptionLength, o.ActualLength, o.OptionData, o.OptionAlignment[0], o.OptionAlignment[1]})
	}
	return r
}
func dstOpts(os []*layers.IPv6DestinationOption) []tlv {
	var r []tlv
	for _, o := range os {
		r = append(r, tlv{o.OptionType, o.OptionLength, o.ActualLength, o.OptionData, o.OptionAlignment[0], o.OptionAlignment[1]})
	}
	return r
}

func optsR(os []tlv) string {
	if len(os) == 0 {
		return "e"
	}
	s := make([]string, len(os))
	for i, o := range os {
		s[i] = tlvR(o)
	}
	return strings.Join(s, "|")
}

func extR(nh layers.IPProtocol, hlen uint8, alen int, c, p []byte, os []tlv) string {
	return fmt.Sprintf("ext{nh=%d,hlen=%d,alen=%d,c=%s,p=%s,opts=%s}", nh, hlen, alen, bytesR(c), bytesR(p), optsR(os))
}
func hbhR(h *layers.IPv6HopByHop) string {
	return extR(h.NextHeader, h.HeaderLength, h.ActualLength, h.Contents, h.Payload, hbhOpts(h.Options))
}
func dstR(h *layers.IPv6Destination) string {
	return extR(h.NextHeader, h.HeaderLength, h.ActualLength, h.Contents, h.Payload, dstOpts(h.Options))
}

func ip6R(l *layers.IPv6) string {
	h := "nil"
	if l.HopByHop != nil {
		h = hbhR(l.HopByHop)
	}
	return fmt.Sprintf("ip6{v=%d,tc=%d,fl=%d,len=%d,nh=%d,hl=%d,src=%s,dst=%s,hbh=%s,c=%s,p=%s}",
		l.Version, l.TrafficClass, l.FlowLabel, l.Length, l.NextHeader, l.HopLimit,
		bytesR(l.SrcIP), bytesR(l.DstIP), h, bytesR(l.Contents), bytesR(l.Payload))
}

func skipR(s *layers.IPv6ExtensionSkipper) string {
	return fmt.Sprintf("skip{nh=%d,c=%s,p=%s}", s.NextHeader, bytesR(s.Contents), bytesR(s.Payload))
}

func ipsR(ips []net.IP) string {
	if len(ips) == 0 {
		return "e"
	}
	s := make([]string, len(ips))
	for i, ip := range ips {
		s[i] = bytesR(ip)
	}
	return strings.Join(s, "|")
}

func rtR(r *layers.IPv6Routing) string {
	return fmt.Sprintf("rt{nh=%d,hlen=%d,alen=%d,c=%s,p=%s,type=%d,segs=%d,res=%s,ips=%s}",
		r.NextHeader, r.HeaderLength, r.ActualLength, bytesR(r.Contents), bytesR(r.Payload),
		r.RoutingType, r.SegmentsLeft, bytesR(r.Reserved), ipsR(r.SourceRoutingIPs))
}

func b01(b bool) string {
	if b {
		return "1"
	}
	return "0"
}

func fragR(f *layers.IPv6Fragment) string {
	return fmt.Sprintf("frag{nh=%d,r1=%d,off=%d,r2=%d,mf=%s,id=%d,c=%s,p=%s}",
		f.NextHeader, f.Reserved1, f.FragmentOffset, f.Reserved2, b01(f.MoreFragments), f.Identification,
		bytesR(f.Contents), bytesR(f.Payload))
}

// ---------------------------------------------------------------- parsing

const maxBytesArg = 300000

func partBytes(s string) ([]byte, bool) {
	if strings.HasPrefix(s, "pat:") {
		f := strings.Split(s, ":")
		if len(f) != 3 {
			return nil, false
		}
		a, ok1 := lib.Atoi(f[1])
		n, ok2 := lib.Atoi(f[2])
		if !ok1 || !ok2 || a < 0 || n < 0 || n > maxBytesArg {
			return nil, false
		}
		b := make([]byte, n)
		for i := range b {
			b[i] = byte((a + i) % 251)
		}
		return b, true
	}
	return lib.UnHex(s)
}

func bytesArg(s string) ([]byte, bool) {
	out := []byte{}
	for _, p := range strings.Split(s, "+") {
		b, ok := partBytes(p)
		if !ok {
			return nil, false
		}
		out = append(out, b...)
		if len(out) > maxBytesArg {
			return nil, false
		}
	}
	return out, true
}

func u8Arg(s string) (uint8, bool) {
	n, err := strconv.ParseUint(s, 10, 8)
	return uint8(n), err == nil
}

func tlvArg(s string) (tlv, bool) {
	f := strings.Split(s, ":")
	if len(f) != 6 {
		return tlv{}, false
	}
	t, ok1 := u8Arg(f[0])
	l, ok2 := u8Arg(f[1])
	a, ok3 := lib.Atoi(f[2])
	x, ok4 := u8Arg(f[4])
	y, ok5 := u8Arg(f[5])
	if !(ok1 && ok2 && ok3 && ok4 && ok5) || a < 0 {
		return tlv{}, false
	}
	var d []byte
	if f[3] != "nil" {
		b, ok := lib.UnHex(f[3])
		if !ok {
			return tlv{}, false
		}
		d = b
	}
	return tlv{t, l, a, d, x, y}, true
}

func optsArg(s string) ([]tlv, bool) {
	if s == "e" {
		return nil, true
	}
	var r []tlv
	for _, p := range strings.Split(s, "|") {
		o, ok := tlvArg(p)
		if !ok {
			return nil, false
		}
		r = append(r, o)
	}
	return r, true
}

type extSpec struct {
	NH, HLen uint8
	Opts     []tlv
}

func extArg(s string) (extSpec, bool) {
	f := strings.Split(s, "/")
	if len(f) != 3 {
		return extSpec{}, false
	}
	nh, ok1 := u8Arg(f[0])
	hl, ok2 := u8Arg(f[1])
	os, ok3 := optsArg(f[2])
	if !(ok1 && ok2 && ok3) {
		return extSpec{}, false
	}
	return extSpec{nh, hl, os}, true
}

func (e extSpec) String() string { return fmt.Sprintf("%d/%d/%s", e.NH, e.HLen, optsR(e.Opts)) }

func (e extSpec) hbh() *layers.IPv6HopByHop {
	h := &layers.IPv6HopByHop{}
	h.NextHeader = layers.IPProtocol(e.NH)
	h.HeaderLength = e.HLen
	for _, o := range e.Opts {
		h.Options = append(h.Options, &layers.IPv6HopByHopOption{OptionType: o.Type, OptionLength: o.Len, ActualLength: o.ALen,
			OptionData: cloneB(o.Data), OptionAlignment: [2]uint8{o.X, o.Y}})
	}
	return h
}
func (e extSpec) dst() *layers.IPv6Destination {
	h := &layers.IPv6Destination{}
	h.NextHeader = layers.IPProtocol(e.NH)
	h.HeaderLength = e.HLen
	for _, o := range e.Opts {
		h.Options = append(h.Options, &layers.IPv6DestinationOption{OptionType: o.Type, OptionLength: o.Len, ActualLength: o.ALen,
			OptionData: cloneB(o.Data), OptionAlignment: [2]uint8{o.X, o.Y}})
	}
	return h
}

func cloneB(b []byte) []byte {
	if b == nil {
		return nil
	}
	return append([]byte{}, b...)
}

func ipsArg(s string) ([]net.IP, bool) {
	if s == "e" {
		return nil, true
	}
	var r []net.IP
	for _, p := range strings.Split(s, "|") {
		b, ok := lib.UnHex(p)
		if !ok {
			return nil, false
		}
		r = append(r, net.IP(b))
	}
	return r, true
}

func layersArg(s string) ([]int, bool) {
	if s == "-" {
		return nil, true
	}
	var r []int
	for _, p := range strings.Split(s, ",") {
		n, ok := lib.Atoi(p)
		if !ok {
			return nil, false
		}
		r = append(r, n)
	}
	return r, true
}

func boolArg(s string) (bool, bool) {
	switch s {
	case "1":
		return true, true
	case "0":
		return false, true
	}
	return false, false
}
