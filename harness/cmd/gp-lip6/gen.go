package main

// Generator of the ops stream (see ENGINE_GUIDE §7): corpus/fixtures first, exhaustive small scope,
// structured mostly-valid random inputs built from the repository's own types, malformed stream.

import (
	"encoding/binary"
	"fmt"
	"net"
	"os"
	"path/filepath"
	"regexp"
	"runtime/debug"
	"sort"
	"strconv"
	"strings"

	"github.com/gopacket/gopacket"
	"github.com/gopacket/gopacket/layers"
	"verif/harness/lib"
)

func protomapLine() string {
	var sb strings.Builder
	sb.WriteString("lip6 protomap")
	for p := 0; p < 256; p++ {
		if t := int(layers.IPProtocol(p).LayerType()); t != 0 {
			fmt.Fprintf(&sb, " %d:%d", p, t)
		}
	}
	return sb.String()
}

// repoDir: directory of the gopacket module this binary was built against.
func repoDir() string {
	if bi, ok := debug.ReadBuildInfo(); ok {
		for _, d := range bi.Deps {
			if d.Path == "github.com/gopacket/gopacket" && d.Replace != nil {
				return d.Replace.Path
			}
		}
	}
	return "/repo"
}

var byteLit = regexp.MustCompile(`(?s)\[\]byte\{([^{}]*)\}`)
var hexTok = regexp.MustCompile(`0[xX][0-9a-fA-F]{1,2}`)

// harvestIPv6 collects the IPv6 packets (from the IPv6 header on) among the []byte literals of
// layers/*_test.go.
func harvestIPv6() [][]byte {
	var out [][]byte
	files, _ := filepath.Glob(filepath.Join(repoDir(), "layers", "*_test.go"))
	sort.Strings(files)
	seen := map[string]bool{}
	for _, f := range files {
		src, err := os.ReadFile(f)
		if err != nil {
			continue
		}
		for _, m := range byteLit.FindAllSubmatch(src, -1) {
			toks := hexTok.FindAll(m[1], -1)
			if len(toks) < 40 || len(toks) > 2000 {
				continue
			}
			b := make([]byte, len(toks))
			for i, t := range toks {
				v, _ := strconv.ParseUint(string(t[2:]), 16, 8)
				b[i] = byte(v)
			}
			var ip []byte
			switch {
			case len(b) >= 54 && b[12] == 0x86 && b[13] == 0xdd:
				ip = b[14:]
			case len(b) >= 58 && b[12] == 0x81 && b[13] == 0x00 && b[16] == 0x86 && b[17] == 0xdd:
				ip = b[18:]
			case b[0]>>4 == 6 && len(b) >= 40 && int(binary.BigEndian.Uint16(b[4:6]))+40 <= len(b)+8:
				ip = b
			}
			if ip != nil && len(ip) >= 40 && !seen[string(ip)] {
				seen[string(ip)] = true
				out = append(out, ip)
			}
		}
	}
	return out
}

var src6 = net.ParseIP("2001:db8::1")
var dst6 = net.ParseIP("fe80::2:3:4")

func mustSer(ls ...gopacket.SerializableLayer) []byte {
	b := gopacket.NewSerializeBuffer()
	if err := gopacket.SerializeLayers(b, gopacket.SerializeOptions{FixLengths: true, ComputeChecksums: true}, ls...); err != nil {
		return nil
	}
	return append([]byte{}, b.Bytes()...)
}

// builtFixtures: packets built with the repository's own serializers.
func builtFixtures() [][]byte {
	var out [][]byte
	add := func(b []byte) {
		if b != nil {
			out = append(out, b)
		}
	}
	ip := func(nh layers.IPProtocol) *layers.IPv6 {
		return &layers.IPv6{Version: 6, TrafficClass: 0xb8, FlowLabel: 0x12345, NextHeader: nh, HopLimit: 64, SrcIP: src6, DstIP: dst6}
	}
	udp := &layers.UDP{SrcPort: 1000, DstPort: 2000}
	i1 := ip(layers.IPProtocolUDP)
	udp.SetNetworkLayerForChecksum(i1)
	add(mustSer(i1, udp, gopacket.Payload([]byte("hello world"))))
	// hop-by-hop inside IPv6
	i2 := ip(layers.IPProtocolIPv6HopByHop)
	h := &layers.IPv6HopByHop{}
	h.NextHeader = layers.IPProtocolNoNextHeader
	h.Options = []*layers.IPv6HopByHopOption{{OptionType: 5, OptionData: []byte{0, 0}}, {OptionType: 1, OptionData: []byte{}}}
	i2.HopByHop = h
	add(mustSer(i2, gopacket.Payload([]byte{1, 2, 3, 4, 5})))
	// destination options, routing, fragment as separate layers
	i3 := ip(layers.IPProtocolIPv6Destination)
	d := &layers.IPv6Destination{}
	d.NextHeader = layers.IPProtocolNoNextHeader
	d.Options = []*layers.IPv6DestinationOption{{OptionType: 0x1e, OptionData: []byte{1, 2, 3, 4}}}
	add(mustSer(i3, d, gopacket.Payload([]byte{9, 9, 9})))
	i4 := ip(layers.IPProtocolIPv6Routing)
	rt := &layers.IPv6Routing{RoutingType: 0, SegmentsLeft: 2, Reserved: []byte{0, 0, 0, 0}, SourceRoutingIPs: []net.IP{src6, dst6}}
	rt.NextHeader = layers.IPProtocolNoNextHeader
	add(mustSer(i4, rt, gopacket.Payload([]byte{7})))
	i5 := ip(layers.IPProtocolIPv6Fragment)
	fr := &layers.IPv6Fragment{NextHeader: layers.IPProtocolUDP, FragmentOffset: 185, MoreFragments: true, Identification: 0xdeadbeef}
	add(mustSer(i5, fr, gopacket.Payload([]byte{1, 2, 3, 4, 5, 6, 7, 8})))
	// no-next-header with one byte
	add(mustSer(ip(layers.IPProtocolNoNextHeader), gopacket.Payload([]byte{0xaa})))
	return out
}

var hardFixtures = [][]byte{
	// testPacketIPv6HopByHop0 / Destination0 / Jumbogram header of layers/ip6_test.go (fallback when harvesting fails)
	{0x60, 0, 0, 0, 0, 8, 0, 0x40, 0x20, 1, 0x0d, 0xb8, 0, 0, 0, 0, 0, 0, 0, 0, 0, 0, 0, 1, 0x20, 1, 0x0d, 0xb8, 0, 0, 0, 0, 0, 0, 0, 0, 0, 0, 0, 2, 0x3b, 0, 1, 4, 0, 0, 0, 0},
	{0x60, 0, 0, 0, 0, 8, 0x3c, 0x40, 0x20, 1, 0x0d, 0xb8, 0, 0, 0, 0, 0, 0, 0, 0, 0, 0, 0, 1, 0x20, 1, 0x0d, 0xb8, 0, 0, 0, 0, 0, 0, 0, 0, 0, 0, 0, 2, 0x3b, 0, 1, 4, 0, 0, 0, 0},
}

var jumboHeader = []byte{0x60, 0, 0, 0, 0, 0, 0, 0x40, 0x20, 1, 0x0d, 0xb8, 0, 0, 0, 0, 0, 0, 0, 0, 0, 0, 0, 1, 0x20, 1, 0x0d, 0xb8, 0, 0, 0, 0, 0, 0, 0, 0, 0, 0, 0, 2, 0x3b, 0, 0xc2, 4, 0, 1, 0, 8}

type g struct {
	r    *lib.Rand
	emit func(string)
	pm   string
}

func (g *g) start() {
	g.emit("reset")
	g.emit(g.pm)
}

func (g *g) foreign(n int) string {
	if n == 0 {
		return "-"
	}
	if g.r.Bool() {
		return lib.Hex(bytesOf(0xee, n))
	}
	return lib.Hex(g.r.Bytes(n))
}

func bytesOf(v byte, n int) []byte {
	b := make([]byte, n)
	for i := range b {
		b[i] = v
	}
	return b
}

func (g *g) dec(kind string, d []byte) {
	xc := g.r.Pick([]int{0, 0, 1, 8, 64})
	g.emit(fmt.Sprintf("lip6 dec %s %d %s %s", kind, xc, g.foreign(xc), lib.Hex(d)))
}

// decCont: the spare capacity holds the real continuation of the packet (a NoCopy slice of a larger buffer)
func (g *g) decCont(kind string, whole []byte, n int) {
	rest := whole[n:]
	if len(rest) > 64 {
		rest = rest[:64]
	}
	g.emit(fmt.Sprintf("lip6 dec %s %d %s %s", kind, len(rest), lib.Hex(rest), lib.Hex(whole[:n])))
}

// ---------------------------------------------------------------- extension-header bytes

type optGen struct {
	b []byte
}

// genOptArea: a TLV option area of (roughly) the wanted size; malformed with probability bad%.
func (g *g) genOptArea(bad int) []byte {
	var b []byte
	n := g.r.Intn(5)
	for i := 0; i < n; i++ {
		switch g.r.Intn(8) {
		case 0:
			b = append(b, 0) // Pad1
		case 1:
			k := g.r.Intn(6)
			b = append(b, 1, byte(k))
			b = append(b, make([]byte, k)...)
		case 2: // jumbo
			ln := 4
			if g.r.Chance(30) {
				ln = g.r.Pick([]int{0, 1, 2, 3, 5, 6})
			}
			v := uint32(g.r.Pick([]int{0, 1, 65535, 65536, 65544, 70000, 1 << 31}))
			var d [8]byte
			binary.BigEndian.PutUint32(d[:], v)
			b = append(b, 0xc2, byte(ln))
			b = append(b, d[:ln]...)
		default:
			k := g.r.Intn(9)
			b = append(b, byte(2+g.r.Intn(254)), byte(k))
			b = append(b, g.r.Bytes(k)...)
		}
	}
	if g.r.Chance(bad) {
		// malformed tail: length 0/1 at the edge, or a length beyond the remaining bytes
		switch g.r.Intn(3) {
		case 0:
			b = append(b, byte(2+g.r.Intn(200)))
		case 1:
			b = append(b, byte(2+g.r.Intn(200)), byte(200+g.r.Intn(56)))
		case 2:
			b = append(b, byte(2+g.r.Intn(200)), byte(g.r.Intn(20)), 1)
		}
	}
	return b
}

// genExt: a whole extension header (next header, hdr ext len, options), padded to 8n unless malformed.
func (g *g) genExt(bad int) []byte {
	area := g.genOptArea(bad)
	total := 2 + len(area)
	if g.r.Chance(100 - bad) {
		for total%8 != 0 {
			pad := 8 - total%8
			if pad == 1 || g.r.Chance(20) {
				area = append(area, 0)
				total++
			} else {
				area = append(area, 1, byte(pad-2))
				area = append(area, make([]byte, pad-2)...)
				total += pad
			}
		}
	}
	hl := total/8 - 1
	if total < 8 {
		hl = 0
	}
	if g.r.Chance(bad) {
		hl = g.r.Pick([]int{0, 1, hl + 1, 255, 31, 32})
	}
	nh := g.r.Pick([]int{6, 17, 58, 59, 59, 0, 43, 44, 60, 41, 200})
	return append([]byte{byte(nh), byte(hl)}, area...)
}

func ip6Header(nh byte, length int, r *lib.Rand) []byte {
	h := make([]byte, 40)
	h[0] = 0x60 | byte(r.Intn(16))
	h[1] = byte(r.Intn(256))
	h[2], h[3] = byte(r.Intn(256)), byte(r.Intn(256))
	binary.BigEndian.PutUint16(h[4:], uint16(length))
	h[6] = nh
	h[7] = byte(r.Intn(256))
	copy(h[8:], r.Bytes(32))
	return h
}

// ---------------------------------------------------------------- serialization specs

func (g *g) genTlv(fix bool, wild bool) tlv {
	o := tlv{}
	switch g.r.Intn(10) {
	case 0:
		o.Type = 0
	case 1:
		o.Type = 1
	case 2:
		o.Type = 0xc2
	default:
		o.Type = byte(2 + g.r.Intn(254))
	}
	n := g.r.Pick([]int{0, 1, 2, 3, 4, 4, 5, 6, 7, 8, 10, 12, 16, 30})
	if g.r.Chance(3) {
		n = g.r.Pick([]int{254, 255})
	}
	if wild && g.r.Chance(10) {
		n = g.r.Pick([]int{256, 257, 300})
	}
	if o.Type == 0xc2 && !wild {
		n = 4
	}
	o.Data = g.r.Bytes(n)
	if n == 0 && g.r.Bool() {
		o.Data = nil
	}
	if o.Type == 0 && g.r.Chance(70) {
		o.Data = nil
	}
	o.Len = byte(len(o.Data))
	if wild && g.r.Chance(30) {
		o.Len = byte(g.r.Intn(256))
	}
	o.ALen = int(o.Len) + 2
	if g.r.Chance(40) {
		o.X = byte(g.r.Pick([]int{2, 4, 4, 8, 8, 3, 16}))
		o.Y = byte(g.r.Intn(int(o.X)))
		if wild && g.r.Chance(30) {
			o.X, o.Y = byte(g.r.Intn(256)), byte(g.r.Intn(256))
		}
	}
	return o
}

func (g *g) genExtSpec(fix bool, wild bool) extSpec {
	e := extSpec{NH: byte(g.r.Pick([]int{6, 17, 58, 59, 0, 60, 43})), HLen: byte(g.r.Pick([]int{0, 0, 1, 2, 255}))}
	n := g.r.Intn(5)
	if g.r.Chance(2) {
		n = 40 + g.r.Intn(40)
	}
	for i := 0; i < n; i++ {
		e.Opts = append(e.Opts, g.genTlv(fix, wild))
	}
	return e
}

func (g *g) hist() string {
	return pickS(g.r, []string{"fresh", "fresh", "dirty165", "dirty0", "dirty90", "sized0", "sized100", "sized3000"})
}

func (g *g) payloadArg(jumboOK bool) string {
	switch g.r.Intn(12) {
	case 0:
		return "-"
	case 1:
		return "ab"
	case 2:
		return lib.Hex(g.r.Bytes(3))
	case 3:
		return fmt.Sprintf("pat:%d:%d", g.r.Intn(251), 1480+g.r.Intn(41))
	case 4:
		return fmt.Sprintf("pat:%d:%d", g.r.Intn(251), g.r.Pick([]int{65487, 65527, 65535 - 8, 65535}))
	case 5:
		if jumboOK {
			return fmt.Sprintf("pat:%d:%d", g.r.Intn(251), g.r.Pick([]int{65536, 65537, 70001}))
		}
		return lib.Hex(g.r.Bytes(9))
	default:
		return lib.Hex(g.r.Bytes(g.r.Intn(24)))
	}
}

func (g *g) layersArg() string {
	if g.r.Chance(90) {
		return "-"
	}
	return pickS(g.r, []string{"46", "2,46", "2", "45,2", "49"})
}

func fixcs(i int) string { return fmt.Sprintf("%d %d", i&1, (i>>1)&1) }

func (g *g) serIP6(fc int, wild bool, payload string) {
	fix := fc&1 == 1
	v := 6
	if g.r.Chance(15) {
		v = g.r.Pick([]int{0, 4, 15})
	}
	fl := g.r.Intn(1 << 20)
	if wild && g.r.Chance(20) {
		v = g.r.Intn(256)
		fl = int(g.r.U64() & 0xffffffff)
	}
	nh := g.r.Pick([]int{6, 17, 58, 59, 43, 44, 60})
	src, dst := lib.Hex(g.r.Bytes(16)), lib.Hex(g.r.Bytes(16))
	if wild && g.r.Chance(20) {
		src = lib.Hex(g.r.Bytes(g.r.Pick([]int{0, 4, 15, 17})))
	}
	if wild && g.r.Chance(10) {
		dst = lib.Hex(g.r.Bytes(g.r.Pick([]int{0, 4, 15, 17})))
	}
	hbh := "nil"
	if g.r.Chance(55) {
		hbh = g.genExtSpec(fix, wild).String()
		if g.r.Chance(70) {
			nh = 0
		}
	} else if wild && g.r.Chance(10) {
		nh = 0
	}
	g.emit(fmt.Sprintf("lip6 ser ip6 %s %s %s %d %d %d %d %d %d %s %s %s %s", fixcs(fc), g.hist(), g.layersArg(),
		v, g.r.Intn(256), fl, g.r.Intn(65536), nh, g.r.Intn(256), src, dst, hbh, payload))
}

func (g *g) serExt(kind string, fc int, wild bool) {
	g.emit(fmt.Sprintf("lip6 ser %s %s %s %s %s %s", kind, fixcs(fc), g.hist(), g.layersArg(), g.genExtSpec(fc&1 == 1, wild).String(), g.payloadArg(false)))
}

func (g *g) serRt(fc int, wild bool) {
	n := g.r.Intn(4)
	if g.r.Chance(3) {
		n = g.r.Pick([]int{127, 128, 130})
	}
	ips := make([]string, n)
	for i := range ips {
		k := 16
		if wild && g.r.Chance(15) {
			k = g.r.Pick([]int{0, 4, 5, 17})
		}
		ips[i] = lib.Hex(g.r.Bytes(k))
	}
	is := "e"
	if n > 0 {
		is = strings.Join(ips, "|")
	}
	res := 4
	if wild && g.r.Chance(25) {
		res = g.r.Pick([]int{0, 1, 3, 6})
	}
	typ := 0
	if wild && g.r.Chance(20) {
		typ = g.r.Intn(256)
	}
	g.emit(fmt.Sprintf("lip6 ser rt %s %s %s %d %d %d %s %s %s", fixcs(fc), g.hist(), g.layersArg(),
		g.r.Pick([]int{6, 17, 59, 43}), typ, g.r.Intn(256), lib.Hex(g.r.Bytes(res)), is, g.payloadArg(false)))
}

func (g *g) serFrag(fc int, wild bool) {
	off := g.r.Intn(8192)
	r2 := g.r.Intn(4)
	if wild && g.r.Chance(30) {
		off = g.r.Intn(65536)
		r2 = g.r.Intn(256)
	}
	g.emit(fmt.Sprintf("lip6 ser frag %s %s %s %d %d %d %d %d %d %s", fixcs(fc), g.hist(), g.layersArg(),
		g.r.Pick([]int{6, 17, 59, 44}), g.r.Intn(256), off, r2, g.r.Intn(2), g.r.U64()&0xffffffff, g.payloadArg(false)))
}

// serOfDecoded: a `ser ip6` op whose fields are those of the layer the REAL decoder produced.
func (g *g) serOfDecoded(d []byte, fc int) {
	l := &layers.IPv6{}
	if l.DecodeFromBytes(append([]byte{}, d...), &feedback{}) != nil {
		return
	}
	hbh := "nil"
	if l.HopByHop != nil {
		e := extSpec{NH: byte(l.HopByHop.NextHeader), HLen: l.HopByHop.HeaderLength, Opts: hbhOpts(l.HopByHop.Options)}
		if len(e.Opts) > 60 {
			return
		}
		hbh = e.String()
	}
	if len(l.Payload) > 2000 {
		return
	}
	g.emit(fmt.Sprintf("lip6 ser ip6 %s %s - %d %d %d %d %d %d %s %s %s %s", fixcs(fc), g.hist(),
		l.Version, l.TrafficClass, l.FlowLabel, l.Length, l.NextHeader, l.HopLimit, lib.Hex(l.SrcIP), lib.Hex(l.DstIP), hbh, lib.Hex(l.Payload)))
}

// ---------------------------------------------------------------- the stream

func gen(r *lib.Rand, tier string, emit func(string)) {
	initKinds()
	g := &g{r: r, emit: emit, pm: protomapLine()}
	thorough := tier == "thorough"

	fixtures := append(append(harvestIPv6(), builtFixtures()...), hardFixtures...)
	emit(fmt.Sprintf("# %d fixtures (%d harvested from %s/layers/*_test.go)", len(fixtures), len(harvestIPv6()), repoDir()))

	// 1. fixtures: whole, reuse pairs, every truncation, single-byte mutations, NewPacket/parser, reserialisation
	for fi, f := range fixtures {
		g.start()
		g.dec("ip6", f)
		g.emit("lip6 redec ip6 " + lib.Hex(fixtures[(fi+1)%len(fixtures)]))
		g.emit("lip6 redec ip6 " + lib.Hex(f))
		g.emit("lip6 bld ip6 " + lib.Hex(f))
		for fl := 0; fl < 8; fl++ {
			g.emit(fmt.Sprintf("lip6 pkt ip6 %d %s", fl, lib.Hex(f)))
		}
		for fc := 0; fc < 4; fc++ {
			g.serOfDecoded(f, fc)
		}
		// the extension header / upper part on its own
		if len(f) > 40 {
			rest := f[40:]
			switch f[6] {
			case 0:
				g.dec("hbh", rest)
				g.dec("skip", rest)
				g.emit("lip6 bld hbh " + lib.Hex(rest))
				g.emit("lip6 pkt hbh 0 " + lib.Hex(rest))
			case 60:
				g.dec("dst", rest)
				g.dec("skip", rest)
				g.emit("lip6 redec dst " + lib.Hex(rest))
				g.emit("lip6 bld dst " + lib.Hex(rest))
				g.emit("lip6 pkt dst 0 " + lib.Hex(rest))
			case 43:
				g.dec("skip", rest)
				g.emit("lip6 bld rt " + lib.Hex(rest))
				g.emit("lip6 pkt rt 0 " + lib.Hex(rest))
			case 44:
				g.emit("lip6 bld frag " + lib.Hex(rest))
				g.emit("lip6 pkt frag 0 " + lib.Hex(rest))
			}
		}
		// truncations
		g.start()
		for n := 0; n <= len(f); n++ {
			if len(f) > 160 && n > 100 && n < len(f)-24 && !thorough {
				continue
			}
			if n%2 == 0 {
				g.dec("ip6", f[:n])
			} else {
				g.decCont("ip6", f, n)
			}
			if n%7 == 0 {
				g.emit("lip6 bld ip6 " + lib.Hex(f[:n]))
				g.emit(fmt.Sprintf("lip6 pkt ip6 %d %s", r.Intn(8), lib.Hex(f[:n])))
			}
			if n > 40 {
				switch f[6] {
				case 0:
					g.decCont("hbh", f[40:], n-40)
				case 60:
					g.decCont("dst", f[40:], n-40)
					g.emit("lip6 bld dst " + lib.Hex(f[40:n]))
				case 43:
					g.emit("lip6 bld rt " + lib.Hex(f[40:n]))
				case 44:
					g.emit("lip6 bld frag " + lib.Hex(f[40:n]))
				}
			}
		}
		// single-byte mutations of the headers
		g.start()
		lim := len(f)
		if lim > 72 {
			lim = 72
		}
		for i := 0; i < lim; i++ {
			for _, v := range []byte{0x00, 0x01, 0xff, f[i] ^ 0x80, f[i] + 1} {
				if v == f[i] {
					continue
				}
				if i >= 8 && i < 40 && v != 0xff {
					continue // address bytes: one mutation is enough
				}
				m := append([]byte{}, f...)
				m[i] = v
				g.dec("ip6", m)
				if i < 8 || i >= 40 {
					g.emit("lip6 redec ip6 " + lib.Hex(f))
				}
				if i == 6 || i >= 40 {
					g.emit("lip6 bld ip6 " + lib.Hex(m))
					g.emit(fmt.Sprintf("lip6 pkt ip6 %d %s", r.Intn(8), lib.Hex(m)))
				}
			}
		}
		// boundary values of the length field
		for _, ln := range []int{0, 1, len(f) - 41, len(f) - 40, len(f) - 39, len(f) - 32, 0xffff} {
			if ln < 0 {
				continue
			}
			m := append([]byte{}, f...)
			binary.BigEndian.PutUint16(m[4:], uint16(ln))
			g.dec("ip6", m)
		}
	}

	// 2. jumbograms (> 65535)
	{
		g.start()
		g.emit("lip6 dec ip6 0 - " + lib.Hex(jumboHeader) + "+pat:7:65536")
		g.emit("lip6 redec ip6 " + lib.Hex(fixtures[0]))
		g.emit("lip6 redec ip6 " + lib.Hex(jumboHeader) + "+pat:7:65536")
		g.emit("lip6 bld ip6 " + lib.Hex(jumboHeader) + "+pat:7:65536")
		g.emit("lip6 pkt ip6 0 " + lib.Hex(jumboHeader) + "+pat:7:65536")
		g.emit("lip6 dec ip6 0 - " + lib.Hex(jumboHeader) + "+pat:7:65535") // one byte short: truncated
		g.emit("lip6 dec ip6 0 - " + lib.Hex(jumboHeader) + "+pat:7:65600") // trailing bytes
		j2 := append([]byte{}, jumboHeader...)
		j2[5] = 9 // jumbo option and non-zero length
		g.emit("lip6 dec ip6 0 - " + lib.Hex(j2) + "+pat:7:65536")
		j3 := append([]byte{}, jumboHeader...)
		copy(j3[44:], []byte{0, 0, 0xff, 0xff}) // jumbo length ≤ 65535
		g.emit("lip6 dec ip6 0 - " + lib.Hex(j3) + "+pat:7:100")
		// jumbogram over a hop-by-hop header that already holds a (malformed) jumbo option
		for _, o := range []string{"194:2:4:0000:0:0", "194:0:2:-:0:0", "194:0:2:nil:0:0", "194:6:8:000000000000:4:2", "194:4:6:00010008:4:2", "5:2:4:0000:0:0|194:3:5:010203:0:0"} {
			g.start()
			for fc := 0; fc < 4; fc++ {
				g.emit(fmt.Sprintf("lip6 ser ip6 %s fresh - 6 0 0 0 0 64 %s %s 59/0/%s pat:3:65536", fixcs(fc), lib.Hex(src6), lib.Hex(dst6), o))
			}
		}
		nj := 6
		if thorough {
			nj = 40
		}
		for i := 0; i < nj; i++ {
			g.start()
			g.serIP6(1+2*(i&1), false, fmt.Sprintf("pat:%d:%d", r.Intn(251), r.Pick([]int{65536, 65537, 70001})))
			g.serIP6(2*(i&1), false, fmt.Sprintf("pat:%d:%d", r.Intn(251), r.Pick([]int{65536, 70001})))
			g.serIP6(i&3, true, fmt.Sprintf("pat:%d:%d", r.Intn(251), r.Pick([]int{65536, 70001})))
			g.serIP6(1, true, fmt.Sprintf("pat:%d:%d", r.Intn(251), 65536))
		}
	}

	// 3. exhaustive small scope: every 6-byte option area over a small alphabet inside an 8-byte header
	alpha := []byte{0, 1, 3, 0xc2}
	if thorough {
		alpha = []byte{0, 1, 2, 4, 5, 0xc2}
	}
	idx := make([]int, 6)
	cnt := 0
	for {
		ext := []byte{59, 0}
		for _, k := range idx {
			ext = append(ext, alpha[k])
		}
		if cnt%64 == 0 {
			g.start()
		}
		cnt++
		whole := append(append([]byte{}, ext...), 0xaa, 0xbb, 0xcc, 0xdd, 0x01, 0x02, 0x03, 0x04)
		g.emit("lip6 dec hbh 0 - " + lib.Hex(whole))
		if cnt%4 == 0 {
			g.emit("lip6 redec dst " + lib.Hex(whole))
			h := ip6Header(0, len(whole), r)
			g.emit("lip6 dec ip6 0 - " + lib.Hex(append(h, whole...)))
		}
		i := 5
		for i >= 0 {
			idx[i]++
			if idx[i] < len(alpha) {
				break
			}
			idx[i] = 0
			i--
		}
		if i < 0 {
			break
		}
	}

	// 4. structured random extension headers, stand-alone and inside IPv6; reuse sequences
	nExt := 1200
	if thorough {
		nExt = 20000
	}
	for c := 0; c < nExt; c++ {
		g.start()
		bad := r.Pick([]int{0, 0, 10, 40})
		ext := g.genExt(bad)
		pay := r.Bytes(r.Pick([]int{0, 1, 8, 13, 40}))
		whole := append(append([]byte{}, ext...), pay...)
		if r.Chance(10) && len(whole) > 0 {
			whole = whole[:r.Intn(len(whole))]
		}
		kind := pickS(r, []string{"hbh", "dst", "hbh", "dst", "skip"})
		g.dec(kind, whole)
		// reuse the same object for further packets
		for k := 0; k < r.Intn(3); k++ {
			e2 := append(g.genExt(bad), r.Bytes(r.Intn(9))...)
			g.emit("lip6 redec " + kind + " " + lib.Hex(e2))
		}
		g.emit("lip6 redec " + kind + " " + lib.Hex(whole))
		if kind != "skip" {
			g.emit("lip6 bld " + kind + " " + lib.Hex(whole))
			g.emit(fmt.Sprintf("lip6 pkt %s %d %s", kind, r.Intn(8), lib.Hex(whole)))
		}
		// inside IPv6
		ln := len(whole)
		switch r.Intn(8) {
		case 0:
			ln = 0
		case 1:
			ln = len(whole) + 1 + r.Intn(4)
		case 2:
			if len(whole) > 0 {
				ln = r.Intn(len(whole))
			}
		case 3:
			ln = len(pay)
		}
		pkt := append(ip6Header(0, ln, r), whole...)
		if r.Chance(15) {
			pkt = append(pkt, r.Bytes(1+r.Intn(6))...) // trailing bytes after the datagram
		}
		g.dec("ip6", pkt)
		if r.Bool() {
			p2 := append(ip6Header(byte(r.Pick([]int{0, 6, 59})), len(pay), r), pay...)
			g.emit("lip6 redec ip6 " + lib.Hex(p2))
			g.emit("lip6 redec ip6 " + lib.Hex(pkt))
		}
		g.emit("lip6 bld ip6 " + lib.Hex(pkt))
		g.emit(fmt.Sprintf("lip6 pkt ip6 %d %s", r.Intn(8), lib.Hex(pkt)))
		// routing / fragment headers
		if r.Chance(30) {
			n := r.Intn(4)
			rt := []byte{byte(r.Pick([]int{6, 59, 43})), byte(2 * n), 0, byte(n), 0, 0, 0, 0}
			rt = append(rt, r.Bytes(16*n)...)
			if r.Chance(30) {
				rt[r.Intn(4)] = byte(r.Intn(256))
			}
			rt = append(rt, r.Bytes(r.Intn(5))...)
			if r.Chance(15) {
				rt = rt[:r.Intn(len(rt)+1)]
			}
			g.emit("lip6 bld rt " + lib.Hex(rt))
			g.emit(fmt.Sprintf("lip6 pkt rt %d %s", r.Intn(8), lib.Hex(rt)))
			g.dec("skip", rt)
		}
		if r.Chance(30) {
			fr := append(r.Bytes(8), r.Bytes(r.Intn(12))...)
			if r.Chance(20) {
				fr = fr[:r.Intn(len(fr)+1)]
			}
			g.emit("lip6 bld frag " + lib.Hex(fr))
			g.emit(fmt.Sprintf("lip6 pkt frag %d %s", r.Intn(8), lib.Hex(fr)))
		}
	}

	// 5. serialization: in-range random layers, all four option combinations, buffer histories
	nSer := 500
	if thorough {
		nSer = 8000
	}
	for c := 0; c < nSer; c++ {
		g.start()
		wild := c%4 == 3 // every fourth case: arbitrary public-field values
		for fc := 0; fc < 4; fc++ {
			g.serIP6(fc, wild, g.payloadArg(c%25 == 0))
			g.serExt("hbh", fc, wild)
			g.serExt("dst", fc, wild)
			g.serRt(fc, wild)
			g.serFrag(fc, wild)
		}
	}

	// 6. malformed stream: random bytes as every kind
	nBad := 300
	if thorough {
		nBad = 6000
	}
	for c := 0; c < nBad; c++ {
		g.start()
		d := r.Bytes(r.Pick([]int{0, 1, 2, 7, 8, 9, 39, 40, 41, 48, 60, 100}))
		if len(d) >= 7 && r.Bool() {
			d[6] = byte(r.Pick([]int{0, 43, 44, 60}))
		}
		for _, k := range []string{"ip6", "hbh", "dst", "skip"} {
			g.dec(k, d)
			g.emit("lip6 redec " + k + " " + lib.Hex(r.Bytes(r.Intn(60))))
		}
		for _, k := range []string{"ip6", "hbh", "dst", "rt", "frag"} {
			g.emit("lip6 bld " + k + " " + lib.Hex(d))
			g.emit(fmt.Sprintf("lip6 pkt %s %d %s", k, r.Intn(8), lib.Hex(d)))
		}
	}
}

func pickS(r *lib.Rand, xs []string) string { return xs[r.Intn(len(xs))] }
