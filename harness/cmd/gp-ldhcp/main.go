// gp-ldhcp: correspondence adapter + monitors for engine `ldhcp`
// (layers/dhcpv4.go: DHCPv4.DecodeFromBytes, DHCPOption.decode/encode, Len, SerializeTo, NewDHCPOption,
// NextLayerType, CanDecode, decodeDHCPv4, and the DecodingLayerParser over {DHCPv4}).
//
// Properties served: C19 (no panics), C05 (no stale state / capacity independence / packet path =
// preallocated path), C06 (round trip), C07 (serializer totality, buffer independence, idempotence).
// DHCPv4 exposes no flow (C17 has no instance here).
package main

import (
	"bytes"
	"errors"
	"fmt"
	"net"
	"os"
	"runtime/debug"
	"strings"

	"github.com/gopacket/gopacket"
	"github.com/gopacket/gopacket/layers"
	"verif/harness/lib"
)

// ---------------------------------------------------------------- state of one case

var (
	cur    *layers.DHCPv4 // object re-used by `redec`
	pObj   *layers.DHCPv4 // object owned by the DecodingLayerParser
	parser *gopacket.DecodingLayerParser
)

func reset() {
	cur = &layers.DHCPv4{}
	newParser()
}

func newParser() {
	pObj = &layers.DHCPv4{}
	parser = gopacket.NewDecodingLayerParser(layers.LayerTypeDHCPv4, pObj)
	parser.IgnorePanic = true // let panics through (C19: "a layer parser that lets panics through")
}

type feedback struct{ truncated bool }

func (f *feedback) SetTruncated() { f.truncated = true }

func b01(b bool) string {
	if b {
		return "1"
	}
	return "0"
}

func renderOpts(os []layers.DHCPOption) string {
	if len(os) == 0 {
		return "-"
	}
	parts := make([]string, len(os))
	for i, o := range os {
		parts[i] = fmt.Sprintf("%d:%d:%s", byte(o.Type), o.Length, lib.Hex(o.Data))
	}
	return strings.Join(parts, ",")
}

func render(l *layers.DHCPv4) string {
	return fmt.Sprintf("op=%d ht=%d hlen=%d hops=%d xid=%d secs=%d flags=%d cip=%s yip=%s sip=%s gip=%s chaddr=%s sname=%s file=%s opts=%s contents=%s payload=%s next=%d",
		byte(l.Operation), uint8(l.HardwareType), l.HardwareLen, l.RelayHops, l.Xid, l.Secs, l.Flags,
		lib.Hex(l.ClientIP), lib.Hex(l.YourClientIP), lib.Hex(l.NextServerIP), lib.Hex(l.RelayAgentIP),
		lib.Hex(l.ClientHWAddr), lib.Hex(l.ServerName), lib.Hex(l.File), renderOpts(l.Options),
		lib.Hex(l.Contents), lib.Hex(l.Payload), int(l.NextLayerType()))
}

// differingField names the first public field (incl. Contents/Payload unless base is false) in which two layers differ.
func differingField(x, y *layers.DHCPv4, base bool) string {
	switch {
	case x.Operation != y.Operation:
		return "Operation"
	case x.HardwareType != y.HardwareType:
		return "HardwareType"
	case x.HardwareLen != y.HardwareLen:
		return "HardwareLen"
	case x.RelayHops != y.RelayHops:
		return "RelayHops"
	case x.Xid != y.Xid:
		return "Xid"
	case x.Secs != y.Secs:
		return "Secs"
	case x.Flags != y.Flags:
		return "Flags"
	case !bytes.Equal(x.ClientIP, y.ClientIP):
		return "ClientIP"
	case !bytes.Equal(x.YourClientIP, y.YourClientIP):
		return "YourClientIP"
	case !bytes.Equal(x.NextServerIP, y.NextServerIP):
		return "NextServerIP"
	case !bytes.Equal(x.RelayAgentIP, y.RelayAgentIP):
		return "RelayAgentIP"
	case !bytes.Equal(x.ClientHWAddr, y.ClientHWAddr):
		return "ClientHWAddr"
	case !bytes.Equal(x.ServerName, y.ServerName):
		return "ServerName"
	case !bytes.Equal(x.File, y.File):
		return "File"
	case len(x.Options) != len(y.Options):
		return "Options"
	}
	for i := range x.Options {
		a, b := x.Options[i], y.Options[i]
		if a.Type != b.Type || a.Length != b.Length || !bytes.Equal(a.Data, b.Data) {
			return "Options"
		}
	}
	if base {
		switch {
		case !bytes.Equal(x.Contents, y.Contents):
			return "Contents"
		case !bytes.Equal(x.Payload, y.Payload):
			return "Payload"
		}
	}
	return ""
}

// inBuf places data at the start of a backing array with `len(foreign)` spare bytes of capacity holding
// the foreign bytes, and returns the slice data[:len] with cap = len + len(foreign).
func inBuf(data, foreign []byte) []byte {
	back := make([]byte, len(data)+len(foreign))
	copy(back, data)
	copy(back[len(data):], foreign)
	return back[:len(data)]
}

func exact(data []byte) []byte { // cap == len
	c := make([]byte, len(data))
	copy(c, data)
	return c[:len(data):len(data)]
}

func isOurSite(site string) bool {
	return strings.HasPrefix(site, "layers/dhcpv4.go")
}

// protect is lib.Protect with a panic-site extraction that also works when the repository under test
// is a scratch tree (VERIF_REPO): the site is the top-most stack frame inside the repository.
var lastSite, lastMsg string

func protect(f func() string) (reply string, panicked bool) {
	defer func() {
		if v := recover(); v != nil {
			lastMsg = fmt.Sprint(v)
			lastSite = siteOf(string(debug.Stack()))
			reply = "panic " + lib.PanicKind(v)
			panicked = true
		}
	}()
	return f(), false
}

func siteOf(stack string) string {
	root := os.Getenv("VERIF_REPO")
	if root == "" {
		root = "/repo"
	}
	root = strings.TrimRight(root, "/") + "/"
	for _, l := range strings.Split(stack, "\n") {
		l = strings.TrimSpace(l)
		if !strings.Contains(l, ".go:") {
			continue
		}
		f := strings.Fields(l)[0]
		if strings.HasPrefix(f, root) {
			return f[len(root):]
		}
		if j := strings.LastIndex(f, "gopacket/"); j >= 0 && !strings.Contains(f, "/verif/") {
			return f[j+len("gopacket/"):]
		}
	}
	return "?"
}

// guarded runs f; a panic is reported as a C19 finding with its site and returned as "panic <kind>".
func guarded(what string, f func() string) string {
	reply, panicked := protect(f)
	if panicked {
		lib.Finding("C19", "ldhcp:panic:"+lastSite, what+" panicked: "+lastMsg)
		lib.Stat("panic")
	}
	return reply
}

// ---------------------------------------------------------------- decode ops

// decInto: DecodeFromBytes into obj; the reply renders the receiver on an error too (what the failed call left).
func decInto(obj *layers.DHCPv4, data []byte) (string, error, bool) {
	fb := &feedback{}
	err := obj.DecodeFromBytes(data, fb)
	if err != nil {
		return "err trunc=" + b01(fb.truncated) + " | " + render(obj), err, fb.truncated
	}
	return "ok " + render(obj) + " trunc=" + b01(fb.truncated), nil, fb.truncated
}

func statDec(obj *layers.DHCPv4, data []byte, err error) {
	if err != nil {
		switch {
		case len(data) < 240:
			lib.Stat("dec:err:short")
		case data[2] > 16:
			lib.Stat("dec:err:hwlen")
		case !bytes.Equal(data[236:240], []byte{0x63, 0x82, 0x53, 0x63}):
			lib.Stat("dec:err:magic")
		default:
			lib.Stat("dec:err:option")
		}
		return
	}
	lib.Stat("dec:ok")
	lib.Nontrivial()
	if len(data) == 240 {
		lib.Stat("dec:ok:no-options-240")
	}
	pads, other := 0, 0
	for _, o := range obj.Options {
		if o.Type == layers.DHCPOptPad {
			pads++
		} else {
			other++
			if o.Length == 0 {
				lib.Stat("dec:opt:len0")
			}
			if o.Length == 255 {
				lib.Stat("dec:opt:len255")
			}
		}
	}
	if pads > 0 {
		lib.Stat("dec:opt:pad")
	}
	if other > 0 {
		lib.Stat("dec:opt:tlv")
	}
	used := 240
	for _, o := range obj.Options {
		if o.Type == layers.DHCPOptPad {
			used++
		} else {
			used += 2 + len(o.Data)
		}
	}
	switch {
	case len(data) > 240 && used == len(data):
		lib.Stat("dec:ok:no-end-option")
	case used+1 < len(data):
		lib.Stat("dec:ok:bytes-after-end")
	}
	if obj.HardwareLen == 16 {
		lib.Stat("dec:hwlen16")
	}
	if obj.HardwareLen == 0 {
		lib.Stat("dec:hwlen0")
	}
}

func opDec(extra int, foreign, data []byte) string {
	if len(foreign) != extra {
		return "bad-op"
	}
	return guarded("DHCPv4.DecodeFromBytes", func() string {
		obj := &layers.DHCPv4{}
		cur = obj
		reply, err, _ := decInto(obj, inBuf(data, foreign))
		statDec(obj, data, err)
		if got := obj.CanDecode(); got != gopacket.LayerClass(layers.LayerTypeDHCPv4) {
			lib.Finding("C05", "ldhcp:candecode", "CanDecode is not the layer's own type")
		}
		// C05/C04 oracle: the same bytes in a buffer with cap == len
		ref := &layers.DHCPv4{}
		refReply, _, _ := decInto(ref, exact(data))
		if reply != refReply {
			lib.Finding("C05", "ldhcp:cap-dependent", "decode depends on spare capacity / foreign bytes: "+reply+" vs "+refReply)
		}
		if extra > 0 {
			lib.Stat("dec:spare-cap")
		}
		if err == nil {
			// renderers on whatever the decoder produced (recovered by `guarded`)
			_ = obj.Options.String()
		}
		return reply
	})
}

func opRedec(data []byte) string {
	return guarded("DHCPv4.DecodeFromBytes", func() string {
		obj := cur
		reply, err, tr := decInto(obj, exact(data))
		statDec(obj, data, err)
		lib.Stat("redec")
		fresh := &layers.DHCPv4{}
		fb := &feedback{}
		ferr := fresh.DecodeFromBytes(exact(data), fb)
		if (ferr != nil) != (err != nil) {
			lib.Finding("C05", "ldhcp:stale:error", "reused object and fresh object disagree on the error")
		} else {
			if err == nil {
				if f := differingField(obj, fresh, true); f != "" {
					lib.Finding("C05", "ldhcp:stale:"+f, "DHCPv4."+f+" differs between a reused and a fresh object")
				}
			}
			if fb.truncated != tr {
				lib.Finding("C05", "ldhcp:stale:Truncated", "truncation flag differs between a reused and a fresh object")
			}
		}
		return reply
	})
}

// ---------------------------------------------------------------- serialize ops

const dirtyFill = 1024

func mkBuffer(hist string) (gopacket.SerializeBuffer, bool) {
	switch {
	case hist == "fresh":
		return gopacket.NewSerializeBuffer(), true
	case strings.HasPrefix(hist, "dirty"):
		v, ok := lib.Atoi(hist[5:])
		if !ok || v < 0 || v > 255 {
			return nil, false
		}
		b := gopacket.NewSerializeBuffer()
		s, _ := b.AppendBytes(dirtyFill)
		for i := range s {
			s[i] = byte(v)
		}
		s, _ = b.PrependBytes(dirtyFill)
		for i := range s {
			s[i] = byte(v)
		}
		b.Clear()
		return b, true
	case strings.HasPrefix(hist, "sized"):
		n, ok := lib.Atoi(hist[5:])
		if !ok || n < 0 || n >= 100000 {
			return nil, false
		}
		return gopacket.NewSerializeBufferExpectedSize(n, n), true
	}
	return nil, false
}

func parsePayload(s string) ([]byte, bool) {
	if strings.HasPrefix(s, "z") {
		parts := strings.Split(s[1:], "x")
		if len(parts) != 2 {
			return nil, false
		}
		n, ok := lib.Atoi(parts[0])
		v, ok2 := lib.UnHex(parts[1])
		if !ok || !ok2 || len(v) != 1 || n < 0 || n > 200000 {
			return nil, false
		}
		return bytes.Repeat(v, n), true
	}
	return lib.UnHex(s)
}

func parseBool(s string) (bool, bool) {
	switch s {
	case "1":
		return true, true
	case "0":
		return false, true
	}
	return false, false
}

func atoiBelow(s string, bound int64) (int64, bool) {
	n, ok := lib.Atou(s)
	if !ok || int64(n) < 0 || int64(n) >= bound {
		return 0, false
	}
	return int64(n), true
}

func parseOpt(s string) (layers.DHCPOption, bool) {
	p := strings.Split(s, ":")
	if len(p) != 3 {
		return layers.DHCPOption{}, false
	}
	t, ok1 := atoiBelow(p[0], 256)
	l, ok2 := atoiBelow(p[1], 256)
	d, ok3 := lib.UnHex(p[2])
	if !(ok1 && ok2 && ok3) {
		return layers.DHCPOption{}, false
	}
	return layers.DHCPOption{Type: layers.DHCPOpt(t), Length: uint8(l), Data: d}, true
}

// parseOpts: `-`, `t:l:hex,…` or `r<n>x<t:l:hex>` (n copies of one option).
func parseOpts(s string) ([]layers.DHCPOption, bool) {
	if s == "-" {
		return nil, true
	}
	if strings.HasPrefix(s, "r") {
		p := strings.Split(s[1:], "x")
		if len(p) != 2 {
			return nil, false
		}
		n, ok := lib.Atoi(p[0])
		o, ok2 := parseOpt(p[1])
		if !ok || !ok2 || n < 0 || n > 2000 {
			return nil, false
		}
		out := make([]layers.DHCPOption, n)
		for i := range out {
			out[i] = o
		}
		return out, true
	}
	var out []layers.DHCPOption
	for _, t := range strings.Split(s, ",") {
		o, ok := parseOpt(t)
		if !ok {
			return nil, false
		}
		out = append(out, o)
	}
	return out, true
}

func cp(b []byte) []byte { return append([]byte{}, b...) }

func cpOpts(os []layers.DHCPOption) layers.DHCPOptions {
	if os == nil {
		return nil
	}
	out := make(layers.DHCPOptions, len(os))
	for i, o := range os {
		out[i] = layers.DHCPOption{Type: o.Type, Length: o.Length, Data: cp(o.Data)}
	}
	return out
}

// parseLayer: op ht hlen hops xid secs flags cip yip sip gip chaddr sname file opts
func parseLayer(a []string) (func() *layers.DHCPv4, bool) {
	if len(a) != 15 {
		return nil, false
	}
	op, ok1 := atoiBelow(a[0], 256)
	ht, ok2 := atoiBelow(a[1], 256)
	hlen, ok3 := atoiBelow(a[2], 256)
	hops, ok4 := atoiBelow(a[3], 256)
	xid, ok5 := atoiBelow(a[4], 1<<32)
	secs, ok6 := atoiBelow(a[5], 65536)
	flags, ok7 := atoiBelow(a[6], 65536)
	if !(ok1 && ok2 && ok3 && ok4 && ok5 && ok6 && ok7) {
		return nil, false
	}
	var bs [7][]byte
	for i := 0; i < 7; i++ {
		b, ok := lib.UnHex(a[7+i])
		if !ok {
			return nil, false
		}
		bs[i] = b
	}
	opts, ok := parseOpts(a[14])
	if !ok {
		return nil, false
	}
	return func() *layers.DHCPv4 {
		return &layers.DHCPv4{Operation: layers.DHCPOp(op), HardwareType: layers.LinkType(ht), HardwareLen: uint8(hlen),
			RelayHops: uint8(hops), Xid: uint32(xid), Secs: uint16(secs), Flags: uint16(flags),
			ClientIP: net.IP(cp(bs[0])), YourClientIP: net.IP(cp(bs[1])), NextServerIP: net.IP(cp(bs[2])), RelayAgentIP: net.IP(cp(bs[3])),
			ClientHWAddr: net.HardwareAddr(cp(bs[4])), ServerName: cp(bs[5]), File: cp(bs[6]), Options: cpOpts(opts)}
	}, true
}

func putPayload(b gopacket.SerializeBuffer, p []byte) {
	gopacket.Payload(p).SerializeTo(b, gopacket.SerializeOptions{})
}

// serOnce serialises layer l over payload p into buffer b; returns (bytes, error?) and converts a
// panic into a C07 finding.
func serOnce(l *layers.DHCPv4, b gopacket.SerializeBuffer, p []byte, opts gopacket.SerializeOptions) (out []byte, failed bool, panicked bool) {
	reply, pk := protect(func() string {
		putPayload(b, p)
		if err := l.SerializeTo(b, opts); err != nil {
			return "err"
		}
		return "ok"
	})
	if pk {
		lib.Finding("C07", "ldhcp:ser-panic:"+lastSite, "SerializeTo panicked: "+lastMsg)
		return nil, false, true
	}
	if reply == "err" {
		return nil, true, false
	}
	return append([]byte(nil), b.Bytes()...), false, false
}

// serMonitors: the C07 oracles on the real code for one (layer, payload, options).
// mk must return a NEW layer object with the same public field values on every call.
func serMonitors(mk func() *layers.DHCPv4, p []byte, opts gopacket.SerializeOptions, got []byte, gotErr bool) {
	// (a) buffer independence: fresh, dirty 0xA5 / 0x5A, pre-sized
	for _, h := range []string{"fresh", "dirty165", "dirty90", "sized7", "sized2000"} {
		b, _ := mkBuffer(h)
		out, failed, pk := serOnce(mk(), b, p, opts)
		if pk {
			return
		}
		if failed != gotErr || (!failed && !bytes.Equal(out, got)) {
			lib.Finding("C07", "ldhcp:dirty-buffer", "output differs between buffer histories ("+h+")")
			return
		}
	}
	// (b) idempotence: the same (mutated) object again over the same payload
	l := mk()
	o1, f1, pk := serOnce(l, gopacket.NewSerializeBuffer(), p, opts)
	if pk {
		return
	}
	o2, f2, pk := serOnce(l, gopacket.NewSerializeBuffer(), p, opts)
	if pk {
		return
	}
	if f1 != f2 || !bytes.Equal(o1, o2) {
		what := "bytes differ"
		if f1 != f2 {
			what = fmt.Sprintf("first call error=%v, second call error=%v", f1, f2)
		}
		lib.Finding("C07", "ldhcp:not-idempotent", "serialising the same layer twice differs: "+what)
	}
}

func statLayer(l *layers.DHCPv4) {
	for _, ip := range []net.IP{l.ClientIP, l.YourClientIP, l.NextServerIP, l.RelayAgentIP} {
		switch {
		case len(ip) == 4:
		case len(ip) == 16 && ip.To4() != nil:
			lib.Stat("ser:ip:v4-mapped")
		case len(ip) == 0:
			lib.Stat("ser:ip:nil")
		default:
			lib.Stat("ser:ip:not-v4")
		}
	}
	switch {
	case len(l.ClientHWAddr) > 16:
		lib.Stat("ser:chaddr>16")
	case len(l.ClientHWAddr) < 16:
		lib.Stat("ser:chaddr<16")
	}
	if len(l.ServerName) != 64 {
		lib.Stat("ser:sname!=64")
	}
	if len(l.File) != 128 {
		lib.Stat("ser:file!=128")
	}
	for _, o := range l.Options {
		switch {
		case o.Type == layers.DHCPOptPad:
			lib.Stat("ser:opt:pad")
		case o.Type == layers.DHCPOptEnd:
			lib.Stat("ser:opt:explicit-end")
		case int(o.Length) < len(o.Data):
			lib.Stat("ser:opt:length<data")
		case int(o.Length) > len(o.Data):
			lib.Stat("ser:opt:length>data")
		}
	}
}

func opSer(a []string) string {
	// fix csum hist <15 fields> payload
	if len(a) != 19 {
		return "bad-op"
	}
	fix, ok1 := parseBool(a[0])
	csum, ok2 := parseBool(a[1])
	b, ok3 := mkBuffer(a[2])
	p, ok4 := parsePayload(a[18])
	mk, ok5 := parseLayer(a[3:18])
	if !(ok1 && ok2 && ok3 && ok4 && ok5) {
		return "bad-op"
	}
	opts := gopacket.SerializeOptions{FixLengths: fix, ComputeChecksums: csum}
	l := mk()
	statLayer(l)
	out, failed, pk := serOnce(l, b, p, opts)
	if pk {
		return "panic " + lib.PanicKind(lastMsg)
	}
	serMonitors(mk, p, opts, out, failed)
	if a[2] != "fresh" {
		lib.Stat("ser:buf:" + strings.TrimRight(a[2], "0123456789"))
	}
	lib.Stat(fmt.Sprintf("ser:opts:fix%s-csum%s", a[0], a[1]))
	tail := fmt.Sprintf(" hlen=%d", l.HardwareLen) // the receiver after the call (FixLengths mutates it)
	if failed {
		lib.Stat("ser:err")
		return "err" + tail
	}
	lib.Stat("ser:ok")
	lib.Nontrivial()
	return "ok bytes=" + lib.Hex(out) + tail
}

// ---------------------------------------------------------------- round trip

var rtOpts = gopacket.SerializeOptions{FixLengths: true, ComputeChecksums: true}

func copyLayer(x *layers.DHCPv4) *layers.DHCPv4 {
	c := *x
	c.ClientIP, c.YourClientIP, c.NextServerIP, c.RelayAgentIP = cp(x.ClientIP), cp(x.YourClientIP), cp(x.NextServerIP), cp(x.RelayAgentIP)
	c.ClientHWAddr, c.ServerName, c.File = cp(x.ClientHWAddr), cp(x.ServerName), cp(x.File)
	c.Options = cpOpts(x.Options)
	return &c
}

// wfExpect: is the layer inside the round-trip claim, and what must come back (the layer after FixLengths).
func wfExpect(l *layers.DHCPv4) (bool, *layers.DHCPv4) {
	w := copyLayer(l)
	ok := len(w.ClientIP) == 4 && len(w.YourClientIP) == 4 && len(w.NextServerIP) == 4 && len(w.RelayAgentIP) == 4 &&
		len(w.ClientHWAddr) <= 16 && len(w.ServerName) == 64 && len(w.File) == 128
	for _, o := range w.Options {
		switch o.Type {
		case layers.DHCPOptEnd:
			ok = false
		case layers.DHCPOptPad:
			if o.Length != 0 || len(o.Data) != 0 {
				ok = false
			}
		default:
			if int(o.Length) != len(o.Data) {
				ok = false
			}
		}
	}
	w.HardwareLen = uint8(len(w.ClientHWAddr))
	return ok, w
}

// rt: SerializeLayers(layer, payload) with fix+csum, decode, serialise the decoded layer again.
func rt(l *layers.DHCPv4, p []byte, decoded bool) string {
	wf, want := wfExpect(l)
	buf := gopacket.NewSerializeBuffer()
	if err := gopacket.SerializeLayers(buf, rtOpts, l, gopacket.Payload(p)); err != nil {
		lib.Stat("rt:ser-err")
		if wf {
			lib.Finding("C06", "ldhcp:roundtrip:ser-error", "serialising a well-formed layer fails")
		}
		return "ser-err"
	}
	out := append([]byte(nil), buf.Bytes()...)
	d := &layers.DHCPv4{}
	dreply, derr, dtr := decInto(d, exact(out))
	again := "none"
	if derr == nil {
		buf2 := gopacket.NewSerializeBuffer()
		pl := d.LayerPayload()
		if err := gopacket.SerializeLayers(buf2, rtOpts, d, gopacket.Payload(pl)); err != nil {
			again = "err"
		} else if bytes.Equal(buf2.Bytes(), out) {
			again = "same"
		} else {
			again = "diff"
		}
	}
	// C06 oracle (independent statement of the property for this layer).  DHCPv4 is a leaf: the message format has
	// no payload (options run to the end of the message), so the claim is made for the empty payload only; what
	// happens to bytes written behind the End option is recorded in the histogram.
	if wf {
		lib.Stat("rt:wf")
		lib.Nontrivial()
		switch {
		case derr != nil:
			lib.Finding("C06", "ldhcp:roundtrip:error", "decoding the serialised well-formed layer fails")
		case dtr:
			lib.Finding("C06", "ldhcp:roundtrip:Truncated", "truncation flag set on a round trip")
		case differingField(d, want, false) != "":
			f := differingField(d, want, false)
			lib.Finding("C06", "ldhcp:roundtrip:"+f, "DHCPv4."+f+" changed on a round trip")
		case len(p) == 0 && len(d.LayerPayload()) != 0:
			lib.Finding("C06", "ldhcp:roundtrip:Payload", "payload changed on a round trip")
		case len(p) == 0 && again != "same":
			lib.Finding("C06", "ldhcp:roundtrip:reserialize", "serialising the decoded layer again gives "+again)
		}
		if len(p) > 0 {
			lib.Stat("rt:payload-behind-end-option")
		}
	} else if decoded {
		// every decoded layer must be inside the claim
		lib.Finding("C06", "ldhcp:roundtrip:decoded-not-wf", "a decoded layer is outside the well-formedness predicate")
	} else {
		lib.Stat("rt:not-wf")
	}
	return "ok bytes=" + lib.Hex(out) + " | " + dreply + " | again=" + again
}

func opRt(a []string) string {
	if len(a) != 16 {
		return "bad-op"
	}
	p, ok := parsePayload(a[15])
	mk, ok2 := parseLayer(a[:15])
	if !ok || !ok2 {
		return "bad-op"
	}
	r, pk := protect(func() string { return rt(mk(), p, false) })
	if pk {
		lib.Finding("C07", "ldhcp:ser-panic:"+lastSite, "round trip panicked: "+lastMsg)
	}
	return r
}

func opRtDec(data []byte) string {
	return guarded("decode+round trip", func() string {
		l := &layers.DHCPv4{}
		if err := l.DecodeFromBytes(exact(data), &feedback{}); err != nil {
			return "dec-err"
		}
		lib.Stat("rtdec")
		return rt(l, l.LayerPayload(), true)
	})
}

// ---------------------------------------------------------------- tracing PacketBuilder

type tracer struct {
	acts  []string
	tail  string
	added gopacket.Layer
}

func (t *tracer) SetTruncated() { t.acts = append(t.acts, "trunc") }
func (t *tracer) AddLayer(l gopacket.Layer) {
	t.acts = append(t.acts, fmt.Sprintf("add:%d", int(l.LayerType())))
	t.added = l
}
func (t *tracer) SetLinkLayer(gopacket.LinkLayer)               { t.acts = append(t.acts, "link") }
func (t *tracer) SetNetworkLayer(gopacket.NetworkLayer)         { t.acts = append(t.acts, "net") }
func (t *tracer) SetTransportLayer(gopacket.TransportLayer)     { t.acts = append(t.acts, "transport") }
func (t *tracer) SetApplicationLayer(gopacket.ApplicationLayer) { t.acts = append(t.acts, "app") }
func (t *tracer) SetErrorLayer(gopacket.ErrorLayer)             { t.acts = append(t.acts, "errlayer") }
func (t *tracer) DumpPacketData()                               {}
func (t *tracer) DecodeOptions() *gopacket.DecodeOptions        { return &gopacket.DecodeOptions{} }
func (t *tracer) NextDecoder(next gopacket.Decoder) error {
	switch d := next.(type) {
	case gopacket.LayerType:
		t.tail = fmt.Sprintf("lt:%d", int(d))
	case nil:
		t.tail = "nil"
	default:
		t.tail = "other"
	}
	return nil
}

func opPb(data []byte) string {
	return guarded("decode function of DHCPv4", func() string {
		t := &tracer{}
		err := layers.LayerTypeDHCPv4.Decode(exact(data), t)
		tail := t.tail
		if err != nil {
			tail = "fail"
		} else if tail == "" {
			tail = "done"
		}
		acts := "-"
		if len(t.acts) > 0 {
			acts = strings.Join(t.acts, ",")
		}
		lib.Stat("pb:" + strings.SplitN(tail, ":", 2)[0])
		s := "acts=" + acts + " tail=" + tail
		if t.added != nil {
			got, _ := t.added.(*layers.DHCPv4)
			if got == nil {
				return s + " | ?"
			}
			s += " | " + render(got)
			// C05 oracle: the layer added to the packet = a direct fresh DecodeFromBytes
			ref := &layers.DHCPv4{}
			if rerr := ref.DecodeFromBytes(exact(data), &feedback{}); rerr != nil || differingField(got, ref, true) != "" {
				lib.Finding("C05", "ldhcp:pkt-differs", "layer added by the registered decoder differs from a direct fresh DecodeFromBytes")
			}
			lib.Nontrivial()
		}
		return s
	})
}

// ---------------------------------------------------------------- NewPacket / DecodingLayerParser

func opPkt(mode string, extra int, foreign, data []byte) string {
	if len(foreign) != extra || (mode != "copy" && mode != "nocopy" && mode != "lazy" && mode != "pool") {
		return "bad-op"
	}
	if len(data) == 0 {
		return "empty"
	}
	build := func(skipRecovery bool) (gopacket.Packet, []gopacket.Layer) {
		opts := gopacket.DecodeOptions{SkipDecodeRecovery: skipRecovery}
		in := exact(data)
		switch mode {
		case "nocopy":
			opts.NoCopy = true
			in = inBuf(data, foreign)
		case "lazy":
			opts.Lazy = true
		case "pool":
			opts.Pool = true
		}
		p := gopacket.NewPacket(in, layers.LayerTypeDHCPv4, opts)
		return p, p.Layers()
	}
	var p gopacket.Packet
	var ls []gopacket.Layer
	_, panicked := protect(func() string { p, ls = build(true); return "" })
	if panicked {
		if isOurSite(lastSite) {
			lib.Finding("C19", "ldhcp:panic:"+lastSite, "NewPacket(SkipDecodeRecovery) panicked in this layer: "+lastMsg)
			return "panic " + lib.PanicKind(lastMsg)
		}
		// a decoder of a LATER layer panicked (other engines' business): observe this layer with recovery on
		lib.Stat("pkt:later-layer-panic:" + lastSite)
		p, ls = build(false)
	}
	lib.Stat("pkt:" + mode)
	tr := b01(p.Metadata().Truncated)
	if len(ls) == 0 || ls[0].LayerType() != layers.LayerTypeDHCPv4 {
		if p.ErrorLayer() == nil {
			lib.Finding("C05", "ldhcp:pkt-differs", "NewPacket("+mode+") has no DHCPv4 layer and no error layer")
		}
		return "fail trunc=" + tr
	}
	got := ls[0].(*layers.DHCPv4)
	// oracle: the first layer equals a direct fresh decode, and it is the only layer
	ref := &layers.DHCPv4{}
	if err := ref.DecodeFromBytes(exact(data), &feedback{}); err != nil || differingField(got, ref, true) != "" {
		lib.Finding("C05", "ldhcp:pkt-differs", "first layer built by NewPacket("+mode+") differs from a direct fresh DecodeFromBytes")
	}
	if len(ls) != 1 || p.ErrorLayer() != nil {
		lib.Finding("C05", "ldhcp:pkt-differs", "NewPacket("+mode+") built more than the DHCPv4 layer")
	}
	// read-only accessors on the packet (C01 territory; recovered by the runner if they panic)
	_ = p.String()
	lib.Nontrivial()
	return "ok " + render(got) + " trunc=" + tr
}

func opDlp(re bool, data []byte) string {
	if !re {
		newParser()
	}
	return guarded("DecodingLayerParser.DecodeLayers", func() string {
		var decoded []gopacket.LayerType
		err := parser.DecodeLayers(exact(data), &decoded)
		code := 0
		var unsup gopacket.UnsupportedLayerType
		if errors.As(err, &unsup) {
			code = 2
		} else if err != nil {
			code = 1
		}
		ds := make([]string, len(decoded))
		for i, t := range decoded {
			ds[i] = lib.Itoa(int(t))
		}
		dec := "-"
		if len(ds) > 0 {
			dec = strings.Join(ds, ",")
		}
		lib.Stat(fmt.Sprintf("dlp:layers=%d:code=%d", len(decoded), code))
		if len(decoded) >= 1 {
			lib.Nontrivial()
		}
		// C05 oracle: the run equals the leading run of NewPacket's layers with equal fields and truncation flag
		if len(data) > 0 {
			var pl []gopacket.Layer
			var ptr bool
			_, pk := protect(func() string {
				pk := gopacket.NewPacket(exact(data), layers.LayerTypeDHCPv4, gopacket.DecodeOptions{})
				pl = pk.Layers()
				ptr = pk.Metadata().Truncated
				return ""
			})
			if !pk {
				for i, t := range decoded {
					if i >= len(pl) || pl[i].LayerType() != t {
						lib.Finding("C05", "ldhcp:dlp-differs", "parser run is not a prefix of the packet's layers")
						break
					}
					if f := differingField(pl[i].(*layers.DHCPv4), pObj, true); f != "" {
						lib.Finding("C05", "ldhcp:dlp-differs", "parser's layer differs from the packet's: "+f)
					}
				}
				if len(decoded) == 0 && len(pl) > 0 && pl[0].LayerType() == layers.LayerTypeDHCPv4 {
					lib.Finding("C05", "ldhcp:dlp-differs", "the packet has a DHCPv4 layer, the parser run is empty")
				}
				if code == 2 {
					lib.Finding("C05", "ldhcp:dlp-differs", "parser reports an unsupported next layer, the packet ends after DHCPv4")
				}
				if parser.Truncated != ptr {
					lib.Finding("C05", "ldhcp:dlp-differs", "truncation flag differs between parser and packet")
				}
			}
		}
		return fmt.Sprintf("code=%d decoded=%s trunc=%s | %s", code, dec, b01(parser.Truncated), render(pObj))
	})
}

// ---------------------------------------------------------------- small pure functions

func opLen(s string) string {
	os, ok := parseOpts(s)
	if !ok {
		return "bad-op"
	}
	l := &layers.DHCPv4{Options: os}
	lib.Stat("len")
	n := l.Len()
	exactN := 241
	for _, o := range os {
		if o.Type == layers.DHCPOptPad {
			exactN++
		} else {
			exactN += 2 + int(o.Length)
		}
	}
	if exactN > 65535 {
		lib.Stat("len:wrapped")
	}
	return fmt.Sprintf("ok %d", n)
}

func opNewOpt(t, d string) string {
	tv, ok := atoiBelow(t, 256)
	if !ok {
		return "bad-op"
	}
	var data []byte
	if d != "nil" {
		var ok2 bool
		data, ok2 = parsePayload(d)
		if !ok2 {
			return "bad-op"
		}
		if data == nil {
			data = []byte{}
		}
	}
	o := layers.NewDHCPOption(layers.DHCPOpt(tv), data)
	lib.Stat("newopt")
	return fmt.Sprintf("ok %d:%d:%s", byte(o.Type), o.Length, lib.Hex(o.Data))
}

func opTo4(h string) string {
	ip, ok := lib.UnHex(h)
	if !ok {
		return "bad-op"
	}
	lib.Stat("to4")
	return "ok " + lib.Hex(net.IP(ip).To4())
}

// ---------------------------------------------------------------- dispatcher

func exec(a []string) string {
	if len(a) < 2 || a[0] != "ldhcp" {
		return "bad-op"
	}
	switch a[1] {
	case "dec":
		if len(a) != 5 {
			return "bad-op"
		}
		extra, ok1 := lib.Atoi(a[2])
		foreign, ok2 := lib.UnHex(a[3])
		data, ok3 := lib.UnHex(a[4])
		if !ok1 || !ok2 || !ok3 || extra < 0 {
			return "bad-op"
		}
		return opDec(extra, foreign, data)
	case "redec":
		if len(a) != 3 {
			return "bad-op"
		}
		data, ok := lib.UnHex(a[2])
		if !ok {
			return "bad-op"
		}
		return opRedec(data)
	case "ser":
		return opSer(a[2:])
	case "rt":
		return opRt(a[2:])
	case "rtdec":
		if len(a) != 3 {
			return "bad-op"
		}
		data, ok := lib.UnHex(a[2])
		if !ok {
			return "bad-op"
		}
		return opRtDec(data)
	case "pb":
		if len(a) != 3 {
			return "bad-op"
		}
		data, ok := lib.UnHex(a[2])
		if !ok {
			return "bad-op"
		}
		return opPb(data)
	case "pkt":
		if len(a) != 6 {
			return "bad-op"
		}
		extra, ok1 := lib.Atoi(a[3])
		foreign, ok2 := lib.UnHex(a[4])
		data, ok3 := lib.UnHex(a[5])
		if !ok1 || !ok2 || !ok3 || extra < 0 {
			return "bad-op"
		}
		return opPkt(a[2], extra, foreign, data)
	case "dlp", "redlp":
		if len(a) != 3 {
			return "bad-op"
		}
		data, ok := lib.UnHex(a[2])
		if !ok {
			return "bad-op"
		}
		return opDlp(a[1] == "redlp", data)
	case "len":
		if len(a) != 3 {
			return "bad-op"
		}
		return opLen(a[2])
	case "newopt":
		if len(a) != 4 {
			return "bad-op"
		}
		return opNewOpt(a[2], a[3])
	case "to4":
		if len(a) != 3 {
			return "bad-op"
		}
		return opTo4(a[2])
	}
	return "bad-op"
}

func main() {
	reset()
	lib.Main(lib.Engine{Name: "ldhcp", Gen: gen, Reset: reset, Exec: exec})
}
