package main

import (
	"fmt"
	"go/ast"
	goparser "go/parser"
	"go/token"
	"net"
	"os"
	"path/filepath"
	"sort"
	"strconv"
	"strings"

	"github.com/gopacket/gopacket"
	"github.com/gopacket/gopacket/layers"
	"verif/harness/lib"
)

// ---------------------------------------------------------------- fixtures

// literals collects every `[]byte{…}` literal (all elements literal) from the repository's own
// layers/*_test.go files.
func literals() [][]byte {
	repo := os.Getenv("VERIF_REPO")
	if repo == "" {
		repo = "/repo"
	}
	files, _ := filepath.Glob(filepath.Join(repo, "layers", "*_test.go"))
	sort.Strings(files)
	var out [][]byte
	fset := token.NewFileSet()
	for _, fn := range files {
		f, err := goparser.ParseFile(fset, fn, nil, 0)
		if err != nil {
			continue
		}
		ast.Inspect(f, func(n ast.Node) bool {
			cl, ok := n.(*ast.CompositeLit)
			if !ok {
				return true
			}
			at, ok := cl.Type.(*ast.ArrayType)
			if !ok || at.Len != nil {
				return true
			}
			id, ok := at.Elt.(*ast.Ident)
			if !ok || (id.Name != "byte" && id.Name != "uint8") {
				return true
			}
			b := make([]byte, 0, len(cl.Elts))
			for _, e := range cl.Elts {
				bl, ok := e.(*ast.BasicLit)
				if !ok {
					return true
				}
				switch bl.Kind {
				case token.INT:
					v, err := strconv.ParseUint(bl.Value, 0, 8)
					if err != nil {
						return true
					}
					b = append(b, byte(v))
				case token.CHAR:
					s, err := strconv.Unquote(bl.Value)
					if err != nil || len(s) != 1 {
						return true
					}
					b = append(b, s[0])
				default:
					return true
				}
			}
			if len(b) >= 240 && len(b) <= 2000 {
				out = append(out, b)
			}
			return true
		})
	}
	return out
}

// harvest decodes every test literal of the repository with several first decoders (recovery on) and
// keeps the bytes (contents ++ payload) of every DHCPv4 layer found in them.
func harvest() [][]byte {
	seen := map[string]bool{}
	var out [][]byte
	firsts := []gopacket.Decoder{layers.LayerTypeEthernet, layers.LayerTypeRadioTap, layers.LayerTypeLinuxSLL, layers.LayerTypeIPv4,
		layers.LayerTypeUDP, layers.LayerTypeDHCPv4}
	for _, lit := range literals() {
		for _, first := range firsts {
			func() {
				defer func() { recover() }()
				p := gopacket.NewPacket(lit, first, gopacket.DecodeOptions{})
				for _, l := range p.Layers() {
					if l.LayerType() != layers.LayerTypeDHCPv4 {
						continue
					}
					all := append(append([]byte(nil), l.LayerContents()...), l.LayerPayload()...)
					if len(all) > 700 {
						all = all[:700]
					}
					if !seen[string(all)] {
						seen[string(all)] = true
						out = append(out, all)
					}
				}
			}()
		}
	}
	return out
}

var macA = []byte{0x00, 0x1b, 0x21, 0x3c, 0xab, 0x10}

func baseLayer(r *lib.Rand, hw int) *layers.DHCPv4 {
	return &layers.DHCPv4{Operation: layers.DHCPOpRequest, HardwareType: layers.LinkTypeEthernet, Xid: uint32(r.U64()), Secs: uint16(r.Intn(65536)),
		Flags: uint16(r.Pick([]int{0, 0x8000})), ClientIP: net.IP{0, 0, 0, 0}, YourClientIP: net.IP{192, 168, 0, 123},
		NextServerIP: net.IP{192, 168, 0, 1}, RelayAgentIP: net.IP{10, 0, 0, 1}, ClientHWAddr: r.Bytes(hw),
		ServerName: append([]byte("srv"), make([]byte, 61)...), File: append([]byte("boot/pxe.0"), make([]byte, 118)...)}
}

// built fixtures: packets produced by the repository's own serializer.
func built(r *lib.Rand) [][]byte {
	ser := func(l *layers.DHCPv4) (out []byte) {
		defer func() { // a panicking serializer must not kill the generator: the executor's monitors report it
			if recover() != nil {
				out = nil
			}
		}()
		b := gopacket.NewSerializeBuffer()
		if err := gopacket.SerializeLayers(b, gopacket.SerializeOptions{FixLengths: true, ComputeChecksums: true}, l); err != nil {
			return nil
		}
		return append([]byte(nil), b.Bytes()...)
	}
	var out [][]byte
	add := func(l *layers.DHCPv4) { out = append(out, ser(l)) }
	// discover
	l := baseLayer(r, 6)
	l.Options = layers.DHCPOptions{
		layers.NewDHCPOption(layers.DHCPOptMessageType, []byte{byte(layers.DHCPMsgTypeDiscover)}),
		layers.NewDHCPOption(layers.DHCPOptHostname, []byte("example.com")),
		layers.NewDHCPOption(layers.DHCPOptPad, nil),
		layers.NewDHCPOption(layers.DHCPOptParamsRequest, []byte{1, 28, 2, 3, 15, 6, 119, 12, 44, 26, 121, 42}),
		layers.NewDHCPOption(layers.DHCPOptClientID, append([]byte{1}, macA...)),
	}
	add(l)
	// offer
	l = baseLayer(r, 6)
	l.Operation = layers.DHCPOpReply
	l.Options = layers.DHCPOptions{
		layers.NewDHCPOption(layers.DHCPOptMessageType, []byte{byte(layers.DHCPMsgTypeOffer)}),
		layers.NewDHCPOption(layers.DHCPOptSubnetMask, []byte{255, 255, 255, 0}),
		layers.NewDHCPOption(layers.DHCPOptPad, nil), layers.NewDHCPOption(layers.DHCPOptPad, nil),
		layers.NewDHCPOption(layers.DHCPOptT1, []byte{0, 0, 0x0e, 0x10}),
		layers.NewDHCPOption(layers.DHCPOptLeaseTime, []byte{0, 0, 0x0e, 0x10}),
		layers.NewDHCPOption(layers.DHCPOptServerID, []byte{192, 168, 0, 1}),
	}
	add(l)
	// no options at all, every hardware length of interest
	for _, hw := range []int{0, 1, 6, 8, 15, 16} {
		add(baseLayer(r, hw))
	}
	// zero-length and maximum-length options
	l = baseLayer(r, 16)
	l.Options = layers.DHCPOptions{layers.NewDHCPOption(layers.DHCPOptDomainSearch, []byte{}), layers.NewDHCPOption(layers.DHCPOptVendorOption, r.Bytes(255)),
		layers.NewDHCPOption(layers.DHCPOptMessage, r.Bytes(254))}
	add(l)
	// only pads
	l = baseLayer(r, 6)
	l.Options = layers.DHCPOptions{layers.NewDHCPOption(layers.DHCPOptPad, nil), layers.NewDHCPOption(layers.DHCPOptPad, nil), layers.NewDHCPOption(layers.DHCPOptPad, nil)}
	add(l)
	// one of each renderer class (String() branches)
	l = baseLayer(r, 6)
	l.Options = layers.DHCPOptions{layers.NewDHCPOption(layers.DHCPOptMessageType, []byte{1, 2}), layers.NewDHCPOption(layers.DHCPOptSubnetMask, []byte{1, 2, 3}),
		layers.NewDHCPOption(layers.DHCPOptT1, []byte{1}), layers.NewDHCPOption(layers.DHCPOptRequestIP, r.Bytes(4)), layers.NewDHCPOption(200, r.Bytes(3))}
	add(l)
	var keep [][]byte
	for _, f := range out {
		if len(f) >= 240 {
			keep = append(keep, f)
		}
	}
	// hand-made: bytes behind the End option, no End option, a BOOTP-style 300-byte message
	if len(keep) > 0 {
		f := keep[0]
		keep = append(keep, append(append([]byte(nil), f...), 0, 0, 0, 9, 9))
		keep = append(keep, append([]byte(nil), f[:len(f)-1]...))
		keep = append(keep, append(append([]byte(nil), f...), make([]byte, 300-len(f)%300)...))
	}
	return keep
}

func hx(b []byte) string { return lib.Hex(b) }

func setByte(b []byte, off int, v int) []byte {
	c := append([]byte(nil), b...)
	if off < len(c) {
		c[off] = byte(v)
	}
	return c
}

// header240 is a valid 240-byte BOOTP header + magic cookie.
func header240(r *lib.Rand, hw int) []byte {
	h := r.Bytes(240)
	h[0], h[1], h[2] = 1, 1, byte(hw)
	h[236], h[237], h[238], h[239] = 0x63, 0x82, 0x53, 0x63
	return h
}

// optionOffsets walks the option area of a well-formed message: offsets of (type byte) of every TLV option.
func optionOffsets(f []byte) []int {
	var offs []int
	i := 240
	for i < len(f) {
		switch f[i] {
		case 0:
			i++
		case 255:
			return offs
		default:
			if i+1 >= len(f) {
				return offs
			}
			offs = append(offs, i)
			i += 2 + int(f[i+1])
		}
	}
	return offs
}

// ---------------------------------------------------------------- generator

func gen(r *lib.Rand, tier string, emit func(string)) {
	thorough := tier == "thorough"
	fx := append(built(r), harvest()...)
	if len(fx) == 0 { // never leave the run without fixtures (broken serializer and no test literal)
		fx = [][]byte{append(header240(r, 6), 53, 1, 1, 255)}
	}
	for i := len(fx) - 1; i > 0; i-- { // seeded shuffle: different seeds favour different fixtures
		j := r.Intn(i + 1)
		fx[i], fx[j] = fx[j], fx[i]
	}
	foreignOf := func(n int) []byte { return r.Bytes(n) }
	lim := func(n, quick int) int {
		if !thorough && n > quick {
			return quick
		}
		return n
	}

	// 0. pure functions: Len() (uint16 wrap), NewDHCPOption (uint8 wrap), To4
	emit("reset")
	for _, s := range []string{"-", "0:0:-", "0:0:-,0:0:-", "53:1:01", "53:1:01,0:0:-,255:0:-", "60:255:-", "60:0:aabb", "r256x60:254:-", "r255x60:255:-", "r256x60:255:-",
		"r2000x60:255:-", "r2000x0:9:-", "r1999x60:31:-", "255:7:-"} {
		emit("ldhcp len " + s)
	}
	for i := 0; i < lim(200, 40); i++ {
		n := r.Intn(12)
		var parts []string
		for j := 0; j < n; j++ {
			parts = append(parts, fmt.Sprintf("%d:%d:%s", r.Pick([]int{0, 1, 53, 255, r.Intn(256)}), r.Intn(256), hx(r.Bytes(r.Intn(4)))))
		}
		if n == 0 {
			parts = []string{fmt.Sprintf("r%dx%d:%d:-", r.Intn(2001), r.Intn(256), r.Intn(256))}
		}
		emit("ldhcp len " + strings.Join(parts, ","))
	}
	for _, d := range []string{"nil", "-", "00", "z255x41", "z256x41", "z257x41", "z300x41", "z511x00", "z512x00"} {
		emit("ldhcp newopt 60 " + d)
		emit("ldhcp newopt 0 " + d)
		emit("ldhcp newopt 255 " + d)
	}
	for _, ip := range [][]byte{nil, {1, 2, 3, 4}, {1, 2, 3}, {1, 2, 3, 4, 5}, net.ParseIP("1.2.3.4"), net.ParseIP("fe80::1"), make([]byte, 16), r.Bytes(16), r.Bytes(17),
		{0, 0, 0, 0, 0, 0, 0, 0, 0, 0, 0xff, 0xfe, 1, 2, 3, 4}, {0, 0, 0, 0, 0, 0, 0, 0, 0, 1, 0xff, 0xff, 1, 2, 3, 4}, {0, 0, 0, 0, 0, 0, 0, 0, 0, 0, 0xfe, 0xff, 1, 2, 3, 4}} {
		emit("ldhcp to4 " + hx(ip))
	}

	// A. every fixture through every decode path
	for i := 0; i < lim(len(fx), 40); i++ {
		f := fx[i]
		emit("reset")
		emit(fmt.Sprintf("ldhcp dec 0 - %s", hx(f)))
		n := 1 + r.Intn(40)
		emit(fmt.Sprintf("ldhcp dec %d %s %s", n, hx(foreignOf(n)), hx(f)))
		emit("ldhcp pb " + hx(f))
		emit(fmt.Sprintf("ldhcp pkt copy 0 - %s", hx(f)))
		emit(fmt.Sprintf("ldhcp pkt nocopy %d %s %s", n, hx(foreignOf(n)), hx(f)))
		emit(fmt.Sprintf("ldhcp pkt lazy 0 - %s", hx(f)))
		emit(fmt.Sprintf("ldhcp pkt pool 0 - %s", hx(f)))
		emit("ldhcp dlp " + hx(f))
		emit("ldhcp rtdec " + hx(f))
		emit("ldhcp redec " + hx(f[:240])) // the no-options message into the object that just held options
		emit("ldhcp redlp " + hx(f[:240]))
	}

	// B. truncations 0…len of each fixture (head, the region around 240 and the whole option area; all in thorough)
	for i := 0; i < lim(len(fx), 12); i++ {
		f := fx[i]
		emit("reset")
		for n := 0; n <= len(f); n++ {
			if !(n <= 8 || (n >= 232 && n <= 320) || n >= len(f)-3 || thorough || r.Chance(3)) {
				continue
			}
			t := f[:n]
			c := r.Intn(12)
			emit(fmt.Sprintf("ldhcp dec %d %s %s", c, hx(foreignOf(c)), hx(t)))
			if n <= 4 || (n >= 238 && n <= 250) || r.Chance(15) {
				emit("ldhcp pb " + hx(t))
				emit(fmt.Sprintf("ldhcp pkt nocopy %d %s %s", c, hx(foreignOf(c)), hx(t)))
				emit("ldhcp redlp " + hx(t))
				emit("ldhcp redec " + hx(t))
				emit("ldhcp rtdec " + hx(t))
			}
		}
	}

	// C. single-field mutations to boundary values
	for i := 0; i < lim(len(fx), 10); i++ {
		f := fx[i]
		emit("reset")
		// hardware length: every value (quick: around the limit + powers of two)
		for v := 0; v < 256; v++ {
			if !thorough && !(v <= 18 || v >= 226 || v&(v-1) == 0 || r.Chance(5)) {
				continue
			}
			m := setByte(f, 2, v)
			c := r.Intn(9)
			emit(fmt.Sprintf("ldhcp dec %d %s %s", c, hx(foreignOf(c)), hx(m)))
			emit("ldhcp redec " + hx(m))
			if v <= 17 || r.Chance(10) {
				emit("ldhcp rtdec " + hx(m))
				emit("ldhcp redlp " + hx(m))
				emit("ldhcp pb " + hx(m))
			}
		}
		// the magic cookie, one byte at a time
		for off := 236; off < 240; off++ {
			for _, v := range []int{0, int(f[off]) ^ 1, int(f[off]) ^ 0x80, 0xff} {
				emit("ldhcp redec " + hx(setByte(f, off, v)))
			}
		}
		// every other header byte to 0x00 / 0xff (quick: a sample)
		for off := 0; off < 236; off++ {
			if thorough || off < 28 || r.Chance(8) {
				emit("ldhcp redec " + hx(setByte(f, off, r.Pick([]int{0, 0xff, r.Intn(256)}))))
			}
		}
		// option length bytes relative to the bytes that follow; option types to Pad / End
		for _, off := range optionOffsets(f) {
			rest := len(f) - off - 2
			for _, v := range []int{0, 1, 2, int(f[off+1]) - 1, int(f[off+1]) + 1, rest - 1, rest, rest + 1, 127, 128, 254, 255} {
				if v < 0 || v > 255 {
					continue
				}
				m := setByte(f, off+1, v)
				c := r.Intn(9)
				emit(fmt.Sprintf("ldhcp dec %d %s %s", c, hx(foreignOf(c)), hx(m)))
				emit("ldhcp redec " + hx(m))
				emit("ldhcp rtdec " + hx(m))
				if r.Chance(25) {
					emit("ldhcp redlp " + hx(m))
					emit(fmt.Sprintf("ldhcp pkt nocopy %d %s %s", c, hx(foreignOf(c)), hx(m)))
				}
			}
			for _, v := range []int{0, 255, 1, 254} {
				m := setByte(f, off, v)
				emit("ldhcp redec " + hx(m))
				emit("ldhcp rtdec " + hx(m))
			}
		}
	}
	// option areas of every kind: exhaustive over a byte alphabet up to length 4 (quick: up to 3 + a sample of 4)
	{
		alpha := []int{0, 1, 2, 53, 255}
		h := header240(r, 6)
		emit("reset")
		var rec func(cur []byte, depth int)
		rec = func(cur []byte, depth int) {
			if len(cur) > 0 {
				if thorough || len(cur) <= 3 || r.Chance(20) {
					m := append(append([]byte(nil), h...), cur...)
					c := r.Intn(6)
					emit(fmt.Sprintf("ldhcp dec %d %s %s", c, hx(foreignOf(c)), hx(m)))
					emit("ldhcp redec " + hx(m))
					if len(cur) <= 2 || r.Chance(20) {
						emit("ldhcp rtdec " + hx(m))
						emit("ldhcp redlp " + hx(m))
					}
				}
			}
			if depth == 0 {
				return
			}
			for _, a := range alpha {
				rec(append(cur, byte(a)), depth-1)
			}
		}
		rec(nil, 4)
	}
	// structured random option lists incl. malformed lengths (0, 1, > remaining)
	nopt := 150
	if thorough {
		nopt = 5000
	}
	for c := 0; c < nopt; c++ {
		h := header240(r, r.Pick([]int{0, 6, 16, 17, r.Intn(20)}))
		if c%2 == 0 {
			emit("reset")
		}
		n := r.Intn(6)
		area := []byte{}
		for j := 0; j < n; j++ {
			switch r.Intn(7) {
			case 0:
				area = append(area, 0)
			case 1:
				area = append(area, 255)
			default:
				dl := r.Pick([]int{0, 1, 2, 4, 11, 200, 255})
				ll := dl
				if r.Chance(20) {
					ll = r.Pick([]int{0, 1, dl + 1, 255, r.Intn(256)}) // malformed
				}
				area = append(area, byte(1+r.Intn(254)), byte(ll))
				area = append(area, r.Bytes(dl)...)
			}
		}
		if r.Chance(60) {
			area = append(area, 255)
		}
		if r.Chance(30) {
			area = append(area, r.Bytes(r.Intn(5))...)
		}
		m := append(h, area...)
		sp := r.Intn(10)
		emit(fmt.Sprintf("ldhcp dec %d %s %s", sp, hx(foreignOf(sp)), hx(m)))
		emit("ldhcp redec " + hx(m))
		emit("ldhcp rtdec " + hx(m))
		if r.Chance(40) {
			emit("ldhcp redlp " + hx(m))
			emit("ldhcp pb " + hx(m))
			emit(fmt.Sprintf("ldhcp pkt %s %d %s %s", pickS(r, "copy", "nocopy", "lazy", "pool"), sp, hx(foreignOf(sp)), hx(m)))
		}
	}

	// D. stale-state sequences: ordered pairs…quintuples into the same object (direct and via the parser)
	nseq := 150
	if thorough {
		nseq = 3000
	}
	pick := func() []byte {
		f := fx[r.Intn(len(fx))]
		switch r.Intn(10) {
		case 0:
			return f[:r.Intn(len(f)+1)] // truncated (maybe an error)
		case 1, 2:
			return f[:240] // no options: the path that returns before the option loop
		case 3:
			return setByte(f, 2, 17+r.Intn(239)) // hardware length error after three assignments
		case 4:
			return setByte(f, 236+r.Intn(4), 0) // bad magic after most assignments
		case 5:
			offs := optionOffsets(f)
			if len(offs) > 0 {
				return setByte(f, offs[r.Intn(len(offs))]+1, 255) // malformed option after some appends
			}
			return f
		case 6:
			return r.Bytes(r.Intn(300))
		case 7:
			return header240(r, r.Intn(17))
		}
		return f
	}
	for c := 0; c < nseq; c++ {
		emit("reset")
		n := 2 + r.Intn(4)
		for i := 0; i < n; i++ {
			f := pick()
			emit("ldhcp redec " + hx(f))
			emit("ldhcp redlp " + hx(f))
		}
	}

	// E. serialisation: in-range and out-of-range layer values, all four option sets, buffer histories
	psizes := []int{0, 0, 0, 1, 2, 3, 17, 101, 1480, 1499, 1500, 1501, 1520}
	hists := []string{"fresh", "dirty165", "dirty90", "dirty255", "sized0", "sized8", "sized300", "sized3000"}
	nser := 300
	if thorough {
		nser = 9000
	}
	payloadTok := func(n int) string {
		if n > 200 && r.Chance(70) {
			return fmt.Sprintf("z%dx%02x", n, r.Intn(256))
		}
		return hx(r.Bytes(n))
	}
	ipTok := func() string {
		switch r.Intn(12) {
		case 0:
			return "-"
		case 1:
			return hx(append([]byte{0, 0, 0, 0, 0, 0, 0, 0, 0, 0, 0xff, 0xff}, r.Bytes(4)...)) // IPv4-mapped
		case 2:
			return hx(r.Bytes(16)) // an IPv6 address: To4() is nil
		case 3:
			return hx(r.Bytes(r.Pick([]int{1, 3, 5, 15, 17})))
		}
		return hx(r.Bytes(4))
	}
	sized := func(want int) string {
		switch r.Intn(8) {
		case 0:
			return "-"
		case 1:
			return hx(r.Bytes(r.Intn(want)))
		case 2:
			return hx(r.Bytes(want + 1 + r.Intn(40)))
		}
		return hx(r.Bytes(want))
	}
	optTok := func() string {
		switch r.Intn(14) {
		case 0:
			return "0:0:-"
		case 1:
			return fmt.Sprintf("0:%d:%s", r.Intn(256), hx(r.Bytes(r.Intn(3)))) // pad carrying a length / data
		case 2:
			return fmt.Sprintf("255:%d:%s", r.Pick([]int{0, 0, 3}), hx(r.Bytes(r.Pick([]int{0, 0, 3})))) // explicit End inside the list
		case 3:
			n := r.Intn(20)
			return fmt.Sprintf("%d:%d:%s", 1+r.Intn(254), r.Pick([]int{0, n + 1, 255, r.Intn(256)}), hx(r.Bytes(n))) // Length ≠ len(Data)
		case 4:
			n := r.Pick([]int{256, 257, 300})
			return fmt.Sprintf("%d:%d:%s", 1+r.Intn(254), n%256, hx(r.Bytes(n))) // NewDHCPOption with > 255 bytes
		case 5:
			return fmt.Sprintf("%d:255:%s", 1+r.Intn(254), hx(r.Bytes(255)))
		case 6:
			return fmt.Sprintf("%d:0:-", 1+r.Intn(254))
		}
		n := r.Pick([]int{1, 1, 2, 4, 4, 6, 11, 40})
		return fmt.Sprintf("%d:%d:%s", r.Pick([]int{1, 3, 6, 12, 50, 51, 53, 54, 55, 61, 1 + r.Intn(254)}), n, hx(r.Bytes(n)))
	}
	optsTok := func() string {
		switch r.Intn(12) {
		case 0:
			return "-"
		case 1:
			if !thorough && r.Chance(60) {
				return fmt.Sprintf("r%dx60:255:%s", r.Pick([]int{3, 17}), hx(r.Bytes(255)))
			}
			return fmt.Sprintf("r%dx60:255:%s", r.Pick([]int{254, 255, 256, 300}), hx(r.Bytes(255))) // around 65535 bytes, where Len() wraps
		case 2:
			return fmt.Sprintf("r%dx0:0:-", r.Pick([]int{1, 59, 1000, 2000}))
		}
		n := 1 + r.Intn(6)
		parts := make([]string, n)
		for i := range parts {
			parts[i] = optTok()
		}
		return strings.Join(parts, ",")
	}
	layerTok := func(wellFormed bool) string {
		if wellFormed {
			hw := r.Pick([]int{0, 1, 6, 6, 6, 8, 16})
			n := r.Intn(6)
			parts := []string{}
			for i := 0; i < n; i++ {
				if r.Chance(20) {
					parts = append(parts, "0:0:-")
				} else {
					k := r.Pick([]int{0, 1, 4, 4, 12, 255})
					parts = append(parts, fmt.Sprintf("%d:%d:%s", 1+r.Intn(254), k, hx(r.Bytes(k))))
				}
			}
			opts := "-"
			if n > 0 {
				opts = strings.Join(parts, ",")
			}
			return fmt.Sprintf("%d %d %d %d %d %d %d %s %s %s %s %s %s %s %s", r.Intn(256), r.Intn(256), r.Pick([]int{hw, r.Intn(256)}), r.Intn(256), r.U64()%(1<<32),
				r.Intn(65536), r.Intn(65536), hx(r.Bytes(4)), hx(r.Bytes(4)), hx(r.Bytes(4)), hx(r.Bytes(4)), hx(r.Bytes(hw)), hx(r.Bytes(64)), hx(r.Bytes(128)), opts)
		}
		hw := r.Pick([]int{0, 6, 6, 16, 17, 20, 255, 256, 300})
		return fmt.Sprintf("%d %d %d %d %d %d %d %s %s %s %s %s %s %s %s", r.Intn(256), r.Intn(256), r.Intn(256), r.Intn(256), r.U64()%(1<<32),
			r.Intn(65536), r.Intn(65536), ipTok(), ipTok(), ipTok(), ipTok(), hx(r.Bytes(hw)), sized(64), sized(128), optsTok())
	}
	for c := 0; c < nser; c++ {
		emit("reset")
		n := r.Pick(psizes)
		lt := layerTok(r.Chance(40))
		emit(fmt.Sprintf("ldhcp ser %d %d %s %s %s", r.Intn(2), r.Intn(2), hists[r.Intn(len(hists))], lt, payloadTok(n)))
		if r.Chance(70) {
			emit(fmt.Sprintf("ldhcp rt %s %s", lt, payloadTok(r.Pick([]int{0, 0, 0, n}))))
		}
	}
	// every {fix,csum} x every history on fixed shapes
	sn, fl := strings.Repeat("41", 64), strings.Repeat("42", 128)
	for _, shape := range []string{
		"1 1 6 0 305419896 0 32768 00000000 c0a8007b c0a80001 0a000001 001b213cab10 " + sn + " " + fl + " 53:1:01,12:3:616263,0:0:-,55:4:01030f06", // consistent
		"2 1 99 3 1 2 3 - - - - 010203 6162 63 53:1:02",                                                                                           // short fixed-size fields (bytes requested, only partly written)
		"1 1 6 0 7 0 0 00000000000000000000ffff01020304 000000000000000000000000000000ff 0102 0a000001 " + strings.Repeat("ab", 20) + " " + strings.Repeat("43", 70) + " " + strings.Repeat("44", 130) + " -", // long fields
		"1 1 6 0 7 0 0 00000000 00000000 00000000 00000000 001b213cab10 " + sn + " " + fl + " 255:0:-,53:1:01",                                    // explicit End first
		"1 1 6 0 7 0 0 00000000 00000000 00000000 00000000 001b213cab10 " + sn + " " + fl + " 60:0:0102030405060708090a",                          // Length < len(Data)
		"1 1 6 0 7 0 0 00000000 00000000 00000000 00000000 001b213cab10 " + sn + " " + fl + " 60:10:01,53:1:05",                                   // Length > len(Data)
		"1 1 6 0 7 0 0 00000000 00000000 00000000 00000000 001b213cab10 " + sn + " " + fl + " r300x60:255:" + strings.Repeat("5a", 255),           // Len() wraps
	} {
		for _, n := range []int{0, 5} {
			for fix := 0; fix < 2; fix++ {
				for cs := 0; cs < 2; cs++ {
					emit("reset")
					hs := hists
					if strings.Contains(shape, "r300x") { // 77 KB of options: two histories, one payload size (model time)
						if n != 0 {
							continue
						}
						hs = []string{"fresh", "dirty165"}
					}
					for _, h := range hs {
						emit(fmt.Sprintf("ldhcp ser %d %d %s %s %s", fix, cs, h, shape, payloadTok(n)))
					}
					emit(fmt.Sprintf("ldhcp rt %s %s", shape, payloadTok(n)))
				}
			}
		}
	}
	// payloads around the MTU and beyond 64 KiB behind a DHCP message
	big := []int{1500, 65535, 65536, 70000}
	if !thorough {
		big = []int{1500, 65537}
	}
	for _, n := range big {
		emit("reset")
		emit(fmt.Sprintf("ldhcp ser 1 1 dirty165 1 1 6 0 7 0 0 00000000 00000000 00000000 00000000 001b213cab10 %s %s 53:1:01 z%dx5a", sn, fl, n))
		emit(fmt.Sprintf("ldhcp rt 1 1 6 0 7 0 0 00000000 00000000 00000000 00000000 001b213cab10 %s %s 53:1:01 z%dx5a", sn, fl, n))
	}

	// F. malformed stream: random bytes of every small length and around the header size
	nmal := 200
	if thorough {
		nmal = 6000
	}
	for c := 0; c < nmal; c++ {
		emit("reset")
		n := r.Intn(40)
		switch r.Intn(4) {
		case 0:
			n = 236 + r.Intn(12)
		case 1:
			n = 240 + r.Intn(300)
		}
		d := r.Bytes(n)
		if n >= 240 && r.Chance(80) {
			d[236], d[237], d[238], d[239] = 0x63, 0x82, 0x53, 0x63
			if r.Chance(80) {
				d[2] = byte(r.Intn(17))
			}
		}
		sp := r.Intn(20)
		emit(fmt.Sprintf("ldhcp dec %d %s %s", sp, hx(foreignOf(sp)), hx(d)))
		emit("ldhcp dlp " + hx(d))
		emit("ldhcp rtdec " + hx(d))
		if r.Chance(30) {
			emit(fmt.Sprintf("ldhcp pkt %s %d %s %s", pickS(r, "copy", "nocopy", "lazy", "pool"), sp, hx(foreignOf(sp)), hx(d)))
			emit("ldhcp pb " + hx(d))
		}
	}
	// unparseable ops: both sides answer bad-op
	emit("reset")
	emit("ldhcp dec x - 00")
	emit("ldhcp dec 1 - 00")
	emit("ldhcp ser 1 1 fresh 1 2 3")
	emit("ldhcp len 1:2")
	emit("ldhcp nonsense")
}

func pickS(r *lib.Rand, xs ...string) string { return xs[r.Intn(len(xs))] }
