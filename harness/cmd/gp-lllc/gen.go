package main

import (
	"fmt"
	"go/ast"
	goparser "go/parser"
	"go/token"
	"net"
	"os"
	"path/filepath"
	"sort"
	"strconv"
	"strings"

	"github.com/gopacket/gopacket"
	"github.com/gopacket/gopacket/layers"
	"verif/harness/lib"
)

// ---------------------------------------------------------------- fixtures

// harvestLiterals collects every `[]byte{…}` literal (all elements literal) from the repository's own
// layers/*_test.go files.
func harvestLiterals() [][]byte {
	repo := os.Getenv("VERIF_REPO")
	if repo == "" {
		repo = "/repo"
	}
	files, _ := filepath.Glob(filepath.Join(repo, "layers", "*_test.go"))
	sort.Strings(files)
	var out [][]byte
	fset := token.NewFileSet()
	for _, fn := range files {
		f, err := goparser.ParseFile(fset, fn, nil, 0)
		if err != nil {
			continue
		}
		ast.Inspect(f, func(n ast.Node) bool {
			cl, ok := n.(*ast.CompositeLit)
			if !ok {
				return true
			}
			at, ok := cl.Type.(*ast.ArrayType)
			if !ok || at.Len != nil {
				return true
			}
			id, ok := at.Elt.(*ast.Ident)
			if !ok || (id.Name != "byte" && id.Name != "uint8") {
				return true
			}
			b := make([]byte, 0, len(cl.Elts))
			for _, e := range cl.Elts {
				bl, ok := e.(*ast.BasicLit)
				if !ok {
					return true
				}
				switch bl.Kind {
				case token.INT:
					v, err := strconv.ParseUint(bl.Value, 0, 8)
					if err != nil {
						return true
					}
					b = append(b, byte(v))
				case token.CHAR:
					s, err := strconv.Unquote(bl.Value)
					if err != nil || len(s) != 1 {
						return true
					}
					b = append(b, s[0])
				default:
					return true
				}
			}
			if len(b) >= 3 && len(b) <= 1600 {
				out = append(out, b)
			}
			return true
		})
	}
	return out
}

type fixtures struct{ llc, snap, stp [][]byte }

// harvest decodes every literal of the repository's tests with the repository's own decoders (as an
// Ethernet frame, a RadioTap / 802.11 capture, and directly as each of the three layers) and keeps the
// bytes of every LLC, SNAP and STP layer found (contents ++ payload = the decoder's input).
func harvest() fixtures {
	var fx fixtures
	seen := map[string]bool{}
	add := func(dst *[][]byte, b []byte) {
		if len(b) == 0 || len(b) > 1600 || seen[string(b)] {
			return
		}
		seen[string(b)] = true
		*dst = append(*dst, append([]byte(nil), b...))
	}
	for _, lit := range harvestLiterals() {
		for _, first := range []gopacket.LayerType{layers.LayerTypeEthernet, layers.LayerTypeRadioTap, layers.LayerTypeDot11, layers.LayerTypeSTP} {
			func() {
				defer func() { recover() }()
				p := gopacket.NewPacket(lit, first, gopacket.Default)
				for _, l := range p.Layers() {
					whole := append(append([]byte(nil), l.LayerContents()...), l.LayerPayload()...)
					switch l.LayerType() {
					case layers.LayerTypeLLC:
						add(&fx.llc, whole)
					case layers.LayerTypeSNAP:
						add(&fx.snap, whole)
					case layers.LayerTypeSTP:
						if first != layers.LayerTypeSTP || len(lit) == 35 {
							add(&fx.stp, whole)
						}
					}
				}
			}()
		}
	}
	return fx
}

var (
	macA = []byte{0x00, 0x1b, 0x21, 0x3c, 0xab, 0x10}
	macB = []byte{0x01, 0x80, 0xc2, 0x00, 0x00, 0x00}
)

// built fixtures: byte strings produced by the repository's own serializers.
func built(r *lib.Rand, fx *fixtures) {
	ser := func(ls ...gopacket.SerializableLayer) []byte {
		b := gopacket.NewSerializeBuffer()
		if err := gopacket.SerializeLayers(b, gopacket.SerializeOptions{FixLengths: true, ComputeChecksums: true}, ls...); err != nil {
			return nil
		}
		return append([]byte(nil), b.Bytes()...)
	}
	stp := func() *layers.STP {
		return &layers.STP{Version: uint8(r.Intn(4)), Type: uint8(r.Pick([]int{0, 2, 0x80})), TC: r.Bool(), TCA: r.Bool(),
			RouteID:  layers.STPSwitchID{Priority: uint16(4096 * (1 + r.Intn(15))), SysID: uint16(r.Intn(4096)), HwAddr: net.HardwareAddr(macA)},
			Cost:     uint32(r.U64()),
			BridgeID: layers.STPSwitchID{Priority: uint16(4096 * (1 + r.Intn(15))), SysID: uint16(r.Intn(4096)), HwAddr: net.HardwareAddr(r.Bytes(6))},
			PortID:   uint16(r.Intn(65536)), MessageAge: uint16(r.Intn(65536)), MaxAge: 20 * 256, HelloTime: 2 * 256, FDelay: 15 * 256}
	}
	for _, n := range []int{0, 1, 7, 38, 100} {
		for _, ty := range []layers.EthernetType{layers.EthernetTypeIPv4, layers.EthernetTypeARP, layers.EthernetTypeCiscoDiscovery, layers.EthernetTypeLLC, 0x1234} {
			snap := &layers.SNAP{OrganizationalCode: []byte{0, 0, 0x0c}, Type: ty}
			if b := ser(snap, gopacket.Payload(r.Bytes(n))); b != nil {
				fx.snap = append(fx.snap, b)
			}
			if b := ser(&layers.LLC{DSAP: 0xaa, SSAP: 0xaa, Control: 3}, snap, gopacket.Payload(r.Bytes(n))); b != nil {
				fx.llc = append(fx.llc, b)
			}
		}
		if b := ser(stp(), gopacket.Payload(r.Bytes(n))); b != nil {
			fx.stp = append(fx.stp, b)
		}
		if b := ser(&layers.LLC{DSAP: 0x42, SSAP: 0x42, Control: 3}, stp(), gopacket.Payload(r.Bytes(n))); b != nil {
			fx.llc = append(fx.llc, b)
		}
		// I / S format control fields (two octets), group / response bits, unknown SAPs
		for _, ctl := range []uint16{0x0100, 0x0503, 0xfe00, 0x0200, 0x1234} {
			if b := ser(&layers.LLC{DSAP: uint8(2 * r.Intn(128)), IG: r.Bool(), SSAP: uint8(2 * r.Intn(128)), CR: r.Bool(), Control: ctl}, gopacket.Payload(r.Bytes(n))); b != nil {
				fx.llc = append(fx.llc, b)
			}
		}
		// LLC / SNAP(type LLC) / LLC / STP: the parser's single LLC object is written twice in one run
		if b := ser(&layers.LLC{DSAP: 0xaa, SSAP: 0xaa, Control: 3}, &layers.SNAP{OrganizationalCode: []byte{1, 2, 3}, Type: layers.EthernetTypeLLC},
			&layers.LLC{DSAP: 0x42, SSAP: 0x42, Control: 3}, stp(), gopacket.Payload(r.Bytes(n))); b != nil {
			fx.llc = append(fx.llc, b)
		}
	}
	// hand-made I-format frames whose first control octet is zero (N(S) = 0)
	fx.llc = append(fx.llc, []byte{0xaa, 0xaa, 0x00, 0x00, 1, 2, 3}, []byte{0x42, 0x43, 0x00, 0x03}, []byte{0xf0, 0xf1, 0x00, 0x02, 9},
		[]byte{0x00, 0x00, 0x01, 0x00}, []byte{0xfe, 0xff, 0xff})
	// BPDUs with priority 0 (the best possible bridge priority) and with every flag bit set
	z := make([]byte, 35)
	fx.stp = append(fx.stp, z)
	f := append([]byte(nil), z...)
	f[4], f[5], f[6], f[17], f[18] = 0xff, 0x0f, 0xff, 0xf0, 0x00
	fx.stp = append(fx.stp, append(f, 0xde, 0xad))
}

func hx(b []byte) string { return lib.Hex(b) }

func setAt(b []byte, off int, vs ...byte) []byte {
	c := append([]byte(nil), b...)
	for i, v := range vs {
		if off+i < len(c) {
			c[off+i] = v
		}
	}
	return c
}

func shuffle(r *lib.Rand, xs [][]byte) {
	for i := len(xs) - 1; i > 0; i-- {
		j := r.Intn(i + 1)
		xs[i], xs[j] = xs[j], xs[i]
	}
}

// ---------------------------------------------------------------- serialisation value generators

func b2i(b bool) int {
	if b {
		return 1
	}
	return 0
}

func llcFields(r *lib.Rand) string {
	dsap, ssap := 2*r.Intn(128), 2*r.Intn(128)
	switch r.Intn(6) {
	case 0:
		dsap, ssap = 0xaa, 0xaa
	case 1:
		dsap, ssap = 0x42, 0x42
	}
	if r.Chance(8) {
		dsap |= 1 // invalid: flag bit inside the address
	}
	if r.Chance(8) {
		ssap |= 1
	}
	ctl := r.Pick([]int{0, 1, 2, 3, 0x03, 0x13, 0x7f, 0xaf, 0xe3, 0xff, 0x00fc, 0x00fd, 0x0100, 0x0103, 0x0300, 0x0303, 0x0703, 0x7f00, 0xfe00, 0xff00, 0xfeff, 0xffff})
	if r.Chance(40) {
		ctl = r.Intn(65536)
	}
	if r.Chance(20) {
		ctl = r.Intn(256)
	}
	return fmt.Sprintf("%d %d %d %d %d", dsap, r.Intn(2), ssap, r.Intn(2), ctl)
}

func snapFields(r *lib.Rand) string {
	n := 3
	if r.Chance(25) {
		n = r.Pick([]int{0, 1, 2, 4, 5, 16})
	}
	ty := r.Pick([]int{0, 0x0800, 0x0806, 0x2000, 0x86dd, 0x8100, 0x01a2, 0xffff})
	if r.Chance(30) {
		ty = r.Intn(65536)
	}
	return fmt.Sprintf("%s %d", hx(r.Bytes(n)), ty)
}

func switchFields(r *lib.Rand) string {
	prio := 4096 * r.Intn(16)
	if r.Chance(12) {
		prio = r.Pick([]int{1, 4095, 4097, 32769, 65535, r.Intn(65536)})
	}
	sys := r.Intn(4096)
	if r.Chance(10) {
		sys = r.Pick([]int{4095, 4096, 4097, 65535, r.Intn(65536)})
	}
	n := 6
	if r.Chance(20) {
		n = r.Pick([]int{0, 1, 5, 7, 8, 20})
	}
	return fmt.Sprintf("%d %d %s", prio, sys, hx(r.Bytes(n)))
}

func stpFields(r *lib.Rand) string {
	u16 := func() int {
		if r.Chance(30) {
			return r.Pick([]int{0, 1, 255, 256, 0x8001, 65535})
		}
		return r.Intn(65536)
	}
	cost := r.U64() & 0xffffffff
	if r.Chance(30) {
		cost = uint64(r.Pick([]int{0, 1, 4, 19, 100, 0x7fffffff, 0xffffffff}))
	}
	return fmt.Sprintf("%d %d %d %d %d %s %d %s %d %d %d %d %d", u16(), r.Intn(256), r.Pick([]int{0, 2, 0x80, r.Intn(256)}), r.Intn(2), r.Intn(2),
		switchFields(r), cost, switchFields(r), u16(), u16(), u16(), u16(), u16())
}

// ---------------------------------------------------------------- generator

// opClass: "dec" = everything that only decodes, "rt" = serialize+decode round trips, "ser" = SerializeTo.
func opClass(line string) string {
	f := strings.Fields(line)
	if len(f) < 2 {
		return ""
	}
	switch f[1] {
	case "rt", "rtdec":
		return "rt"
	case "ser":
		return "ser"
	}
	return "dec"
}

// allowedClasses reads the optional trailing generator argument `ops=dec,rt,ser` (props/parts/*.lllc.json
// "gen_args"): every property runs the op classes that bear on it, so that e.g. a defect of a serializer
// is reported by C06/C07 and not as a broken correspondence of C19/C05.  Default: all classes.
func allowedClasses() map[string]bool {
	for _, a := range os.Args {
		if strings.HasPrefix(a, "ops=") {
			m := map[string]bool{}
			for _, c := range strings.Split(a[4:], ",") {
				m[c] = true
			}
			return m
		}
	}
	return map[string]bool{"dec": true, "rt": true, "ser": true}
}

// regressions: serializer / round-trip inputs that once failed (decode-only ones are in corpus/lllc/).
var regressions = []string{
	"reset",
	// lllc-1: I-format control field whose first octet is 0 (Control < 0x100 after decoding)
	"lllc rtdec llc aaaa0000010203", "lllc rtdec llc 42420000", "lllc rtdec llc 10210003ff",
	"lllc rt llc 170 0 170 0 0 010203", "lllc rt llc 66 1 66 1 2 -", "lllc ser llc 0 0 dirty165 0 0 0 0 0 -",
	"lllc rt llc 170 0 170 0 3 0001", "lllc rt llc 170 1 170 1 65279 0001", "lllc rt llc 0 0 0 0 768 07",
	"reset",
	// lllc-2: SNAP with a short OrganizationalCode (zero value included)
	"lllc ser snap 1 1 fresh - 0 -", "lllc ser snap 0 0 dirty165 0102 2048 aa", "lllc ser snap 0 1 sized5 01 2048 -",
	"lllc rt snap 010203 2048 aabb", "lllc rt snap 01020304 2048 aabb",
	"reset",
	// lllc-3: STP with short addresses over dirty buffers
	"lllc ser stp 0 0 fresh 0 0 0 0 0 4096 1 0102 0 8192 0 - 0 0 0 0 0 -",
	"lllc ser stp 0 0 dirty165 0 0 0 0 0 4096 1 0102 0 8192 0 - 0 0 0 0 0 -",
	"lllc ser stp 1 1 dirty90 0 0 0 1 1 0 0 - 0 0 0 - 0 0 0 0 0 0a0b",
	"reset",
	// lllc-4: bridge priority 0
	"lllc rtdec stp 0000000000000000000000000000000000000000000000000000000000000000000000",
	"lllc rtdec stp 000000008100010102030405060000000400010102030405068001000014000200000fdead",
	"lllc rt stp 0 0 0 0 0 0 0 010203040506 0 0 0 010203040506 0 0 0 0 0 -",
}

func gen(r *lib.Rand, tier string, emit0 func(string)) {
	thorough := tier == "thorough"
	allowed := allowedClasses()
	emit := func(line string) {
		if line == "reset" || allowed[opClass(line)] {
			emit0(line)
		}
	}
	for _, l := range regressions {
		emit(l)
	}
	emit("reset")
	emit("lllc nlttab")

	fx := harvest()
	built(r, &fx)
	shuffle(r, fx.llc)
	shuffle(r, fx.snap)
	shuffle(r, fx.stp)
	all := map[string][][]byte{"llc": fx.llc, "snap": fx.snap, "stp": fx.stp}
	kinds := []string{"llc", "snap", "stp"}
	foreignOf := func(n int) []byte { return r.Bytes(n) }

	// A. every fixture through every decode path
	for _, k := range kinds {
		lim := 60
		if thorough {
			lim = 1 << 30
		}
		for i, f := range all[k] {
			if i >= lim {
				break
			}
			emit("reset")
			emit(fmt.Sprintf("lllc dec %s 0 - %s", k, hx(f)))
			n := 1 + r.Intn(40)
			emit(fmt.Sprintf("lllc dec %s %d %s %s", k, n, hx(foreignOf(n)), hx(f)))
			emit(fmt.Sprintf("lllc pb %s %s", k, hx(f)))
			emit(fmt.Sprintf("lllc pkt %s copy 0 - %s", k, hx(f)))
			emit(fmt.Sprintf("lllc pkt %s nocopy %d %s %s", k, n, hx(foreignOf(n)), hx(f)))
			emit(fmt.Sprintf("lllc pkt %s lazy 0 - %s", k, hx(f)))
			emit(fmt.Sprintf("lllc rtdec %s %s", k, hx(f)))
			if k == "llc" {
				emit("lllc dlp " + hx(f))
			}
		}
	}

	// B. truncations 0…len (all of them up to 48 bytes, head and tail beyond)
	for _, k := range kinds {
		lim := 25
		if thorough {
			lim = 1 << 30
		}
		for i, f := range all[k] {
			if i >= lim {
				break
			}
			emit("reset")
			for n := 0; n <= len(f); n++ {
				if !(n <= 48 || n >= len(f)-2 || (thorough && len(f) <= 160) || r.Chance(3)) {
					continue
				}
				t := f[:n]
				c := r.Intn(8)
				emit(fmt.Sprintf("lllc dec %s %d %s %s", k, c, hx(foreignOf(c)), hx(t)))
				if n <= 40 || r.Chance(20) {
					emit(fmt.Sprintf("lllc pb %s %s", k, hx(t)))
					emit(fmt.Sprintf("lllc pkt %s nocopy %d %s %s", k, c, hx(foreignOf(c)), hx(t)))
					emit(fmt.Sprintf("lllc redec %s %s", k, hx(t)))
					if k == "llc" {
						emit("lllc redlp " + hx(t))
					}
				}
			}
		}
	}

	// C. single-field mutations to boundary values
	bb := []byte{0, 1, 2, 3, 0x41, 0x42, 0x43, 0x7f, 0x80, 0xa9, 0xaa, 0xab, 0xfc, 0xfd, 0xfe, 0xff}
	{
		// LLC: every value of the first control octet x a few second octets, with and without a 4th byte
		emit("reset")
		for c := 0; c < 256; c++ {
			for _, c2 := range []byte{0x00, 0x03, 0x80, 0xff} {
				if !thorough && c2 != 0x03 && c%5 != 0 && c > 8 {
					continue
				}
				emit("lllc redec llc " + hx([]byte{0xaa, 0xaa, byte(c), c2, 0x11, 0x22}))
				emit("lllc rtdec llc " + hx([]byte{0x42, 0x42, byte(c), c2, 0x11, 0x22}))
			}
			emit("lllc redec llc " + hx([]byte{0xaa, 0xaa, byte(c)}))
			emit("lllc rtdec llc " + hx([]byte{0x10, 0x21, byte(c)}))
			emit("lllc rtdec llc " + hx([]byte{0x10, 0x21, 0x00, byte(c), 0x77}))
		}
		// SAP octets
		emit("reset")
		for _, d := range bb {
			for _, s := range bb {
				f := []byte{d, s, 0x03, 1, 2, 3, 4, 5, 6, 7}
				emit("lllc redec llc " + hx(f))
				emit("lllc pb llc " + hx(f))
				if r.Chance(30) {
					emit("lllc rtdec llc " + hx(f))
					emit("lllc redlp " + hx(f))
				}
			}
		}
		// SNAP: type field over the whole table (thorough: all 65536) and organisation codes
		emit("reset")
		base := []byte{0, 0, 0x0c, 0, 0, 0xde, 0xad, 0xbe, 0xef}
		for v := 0; v < 65536; v++ {
			if thorough || v < 16 || v%0x0100 == 0 || layers.EthernetTypeMetadata[v].DecodeWith != nil || r.Chance(1) {
				m := setAt(base, 3, byte(v>>8), byte(v))
				emit("lllc redec snap " + hx(m))
				if thorough || r.Chance(25) {
					emit("lllc pb snap " + hx(m))
					emit("lllc rtdec snap " + hx(m))
				}
			}
		}
		// STP: priority / system id words, flags octet
		emit("reset")
		var sb []byte
		if len(fx.stp) > 0 {
			sb = append([]byte(nil), fx.stp[0]...)
		}
		if len(sb) < 35 {
			sb = make([]byte, 35)
		}
		for v := 0; v < 65536; v++ {
			if thorough || v%0x1000 == 0 || v%0x1000 == 0xfff || v < 4 || r.Chance(1) {
				emit("lllc redec stp " + hx(setAt(sb, 5, byte(v>>8), byte(v))))
				emit("lllc rtdec stp " + hx(setAt(sb, 5, byte(v>>8), byte(v))))
				emit("lllc rtdec stp " + hx(setAt(sb, 17, byte(v>>8), byte(v))))
			}
		}
		for v := 0; v < 256; v++ {
			emit("lllc redec stp " + hx(setAt(sb, 4, byte(v))))
			if thorough || v%7 == 0 || v == 0x81 || v == 0x80 || v == 1 {
				emit("lllc rtdec stp " + hx(setAt(sb, 4, byte(v))))
			}
		}
		for off := 0; off < 35; off++ {
			for _, v := range []byte{0, 1, 0x7f, 0x80, 0xff} {
				emit("lllc redec stp " + hx(setAt(sb, off, v)))
				if r.Chance(40) {
					emit("lllc rtdec stp " + hx(setAt(sb, off, v)))
				}
			}
		}
	}

	// D. stale-state sequences: ordered pairs/triples into the same objects (direct and via the parser)
	nseq := 150
	if thorough {
		nseq = 3000
	}
	pick := func(k string) []byte {
		fs := all[k]
		f := fs[r.Intn(len(fs))]
		if len(f) > 300 {
			f = f[:300]
		}
		switch r.Intn(8) {
		case 0:
			return f[:r.Intn(len(f)+1)] // truncated (maybe an error)
		case 1:
			return setAt(f, r.Intn(6), byte(r.Pick([]int{0, 1, 3, 0x42, 0xaa, 0xff})))
		case 2:
			return f[:r.Intn(4)] // (almost) always an error
		}
		return f
	}
	for c := 0; c < nseq; c++ {
		emit("reset")
		n := 2 + r.Intn(3)
		for i := 0; i < n; i++ {
			for _, k := range kinds {
				emit(fmt.Sprintf("lllc redec %s %s", k, hx(pick(k))))
			}
			emit("lllc redlp " + hx(pick("llc")))
		}
	}

	// E. serialisation: in-range and out-of-range layer values, all four option sets, buffer histories
	psizes := []int{0, 1, 3, 7, 45, 101, 1480, 1499, 1500, 1501, 1520}
	hists := []string{"fresh", "dirty165", "dirty90", "dirty255", "sized0", "sized5", "sized35", "sized3000"}
	nser := 500
	if thorough {
		nser = 15000
	}
	payloadTok := func(n int) string {
		if n > 200 && r.Chance(70) {
			return fmt.Sprintf("z%dx%02x", n, r.Intn(256))
		}
		return hx(r.Bytes(n))
	}
	fieldsOf := map[string]func(*lib.Rand) string{"llc": llcFields, "snap": snapFields, "stp": stpFields}
	for c := 0; c < nser; c++ {
		emit("reset")
		for _, k := range kinds {
			f := fieldsOf[k](r)
			n := r.Pick(psizes)
			if r.Chance(25) {
				n = r.Intn(1600)
			}
			p := payloadTok(n)
			emit(fmt.Sprintf("lllc ser %s %d %d %s %s %s", k, r.Intn(2), r.Intn(2), hists[r.Intn(len(hists))], f, p))
			if r.Chance(60) {
				emit(fmt.Sprintf("lllc rt %s %s %s", k, f, p))
			}
		}
	}
	// every {fix,csum} x every history on fixed shapes (incl. the zero-value layers)
	shapes := map[string][]string{
		"llc":  {"170 0 170 0 3", "66 1 66 1 0", "0 0 0 0 256", "2 0 4 1 7"},
		"snap": {"00000c 8192", "- 0", "0102 2048", "01020304 2048"},
		"stp": {"0 0 0 0 0 0 0 - 0 0 0 - 0 0 0 0 0", "0 0 0 1 0 32768 1 aabbcc000100 4 32768 1 aabbcc000100 32769 0 5120 512 3840",
			"0 2 2 1 1 4096 4095 0102 0 61440 0 01 1 2 3 4 5", "0 0 0 0 0 4097 0 010203040506 0 4096 0 010203040506 0 0 0 0 0"},
	}
	for _, k := range kinds {
		for _, f := range shapes[k] {
			for _, n := range []int{0, 5} {
				for fix := 0; fix < 2; fix++ {
					for cs := 0; cs < 2; cs++ {
						emit("reset")
						p := payloadTok(n)
						for _, h := range hists {
							emit(fmt.Sprintf("lllc ser %s %d %d %s %s %s", k, fix, cs, h, f, p))
						}
						emit(fmt.Sprintf("lllc rt %s %s %s", k, f, p))
					}
				}
			}
		}
	}
	// payloads beyond 64 KiB (none of the three layers has a length field)
	big := []int{65535, 65536, 65537, 70000}
	if !thorough {
		big = []int{65537}
	}
	for _, n := range big {
		emit("reset")
		emit(fmt.Sprintf("lllc ser llc 1 1 dirty165 170 0 170 0 3 z%dx5a", n))
		emit(fmt.Sprintf("lllc rt llc 170 0 170 0 768 z%dx5a", n))
		emit(fmt.Sprintf("lllc rt snap 00000c 2048 z%dx5a", n))
		emit(fmt.Sprintf("lllc rt stp 0 0 0 1 0 32768 1 aabbcc000100 4 32768 1 aabbcc000100 32769 0 5120 512 3840 z%dx5a", n))
	}

	// F. malformed stream: random bytes of every small length
	nmal := 300
	if thorough {
		nmal = 10000
	}
	for c := 0; c < nmal; c++ {
		emit("reset")
		n := r.Intn(48)
		if r.Chance(10) {
			n = r.Intn(1700)
		}
		d := r.Bytes(n)
		if n >= 2 && r.Chance(50) {
			v := byte(r.Pick([]int{0xaa, 0x42}))
			d[0], d[1] = v, v
		}
		sp := r.Intn(20)
		for _, k := range kinds {
			emit(fmt.Sprintf("lllc dec %s %d %s %s", k, sp, hx(foreignOf(sp)), hx(d)))
			emit(fmt.Sprintf("lllc rtdec %s %s", k, hx(d)))
		}
		emit("lllc dlp " + hx(d))
		emit("lllc pb llc " + hx(d))
	}
}
