// gp-lllc: correspondence adapter + monitors for engine `lllc`
// (layers/llc.go and layers/stp.go: LLC, SNAP, STP — DecodeFromBytes, SerializeTo, NextLayerType,
// decodeLLC/decodeSNAP/decodeSTP, and the DecodingLayerParser over these three layers).
//
// Properties served: C19 (no panics), C05 (no stale state / capacity independence), C06 (round trip),
// C07 (serializer totality, buffer independence, idempotence).  None of the layers exposes a flow (no C17).
package main

import (
	"bytes"
	"errors"
	"fmt"
	"net"
	"os"
	"runtime/debug"
	"sort"
	"strings"

	"github.com/gopacket/gopacket"
	"github.com/gopacket/gopacket/layers"
	"verif/harness/lib"
)

// ---------------------------------------------------------------- the three layer kinds

type layer interface {
	gopacket.Layer
	gopacket.DecodingLayer
	gopacket.SerializableLayer
}

type kindT struct {
	name   string
	lt     gopacket.LayerType
	fresh  func() layer
	render func(layer) string
	// diff returns the name of the first field (incl. Contents/Payload) in which a and b differ, or "".
	diff func(a, b layer) string
	// wf: in-range field values (the round-trip claim's precondition), stated independently of the model
	wf func(l layer) bool
	// clone returns a NEW object with the same public field values (BaseLayer left empty)
	clone func(l layer) layer
	nf    int // number of field tokens in ser/rt ops
	parse func(f []string) (layer, bool)
}

func b01(b bool) string {
	if b {
		return "1"
	}
	return "0"
}

var kLLC = &kindT{
	name:  "llc",
	lt:    layers.LayerTypeLLC,
	fresh: func() layer { return &layers.LLC{} },
	render: func(x layer) string {
		l := x.(*layers.LLC)
		return fmt.Sprintf("dsap=%d ig=%s ssap=%d cr=%s control=%d contents=%s payload=%s next=%d",
			l.DSAP, b01(l.IG), l.SSAP, b01(l.CR), l.Control, lib.Hex(l.Contents), lib.Hex(l.Payload), int(l.NextLayerType()))
	},
	diff: func(x, y layer) string {
		a, b := x.(*layers.LLC), y.(*layers.LLC)
		switch {
		case a.DSAP != b.DSAP:
			return "DSAP"
		case a.IG != b.IG:
			return "IG"
		case a.SSAP != b.SSAP:
			return "SSAP"
		case a.CR != b.CR:
			return "CR"
		case a.Control != b.Control:
			return "Control"
		case !bytes.Equal(a.Contents, b.Contents):
			return "Contents"
		case !bytes.Equal(a.Payload, b.Payload):
			return "Payload"
		}
		return ""
	},
	wf: func(x layer) bool {
		l := x.(*layers.LLC)
		// SAP addresses without their flag bit; a two-octet control field must not start like a U-format one
		return l.DSAP&1 == 0 && l.SSAP&1 == 0 && (l.Control < 256 || (l.Control>>8)&3 != 3)
	},
	clone: func(x layer) layer {
		l := x.(*layers.LLC)
		return &layers.LLC{DSAP: l.DSAP, IG: l.IG, SSAP: l.SSAP, CR: l.CR, Control: l.Control}
	},
	nf: 5,
	parse: func(f []string) (layer, bool) {
		dsap, ok1 := lib.Atoi(f[0])
		ig, ok2 := parseBool(f[1])
		ssap, ok3 := lib.Atoi(f[2])
		cr, ok4 := parseBool(f[3])
		ctl, ok5 := lib.Atoi(f[4])
		if !(ok1 && ok2 && ok3 && ok4 && ok5) || dsap < 0 || dsap > 255 || ssap < 0 || ssap > 255 || ctl < 0 || ctl > 65535 {
			return nil, false
		}
		return &layers.LLC{DSAP: uint8(dsap), IG: ig, SSAP: uint8(ssap), CR: cr, Control: uint16(ctl)}, true
	},
}

var kSNAP = &kindT{
	name:  "snap",
	lt:    layers.LayerTypeSNAP,
	fresh: func() layer { return &layers.SNAP{} },
	render: func(x layer) string {
		l := x.(*layers.SNAP)
		return fmt.Sprintf("org=%s type=%d contents=%s payload=%s next=%d",
			lib.Hex(l.OrganizationalCode), uint16(l.Type), lib.Hex(l.Contents), lib.Hex(l.Payload), int(l.NextLayerType()))
	},
	diff: func(x, y layer) string {
		a, b := x.(*layers.SNAP), y.(*layers.SNAP)
		switch {
		case !bytes.Equal(a.OrganizationalCode, b.OrganizationalCode):
			return "OrganizationalCode"
		case a.Type != b.Type:
			return "Type"
		case !bytes.Equal(a.Contents, b.Contents):
			return "Contents"
		case !bytes.Equal(a.Payload, b.Payload):
			return "Payload"
		}
		return ""
	},
	wf: func(x layer) bool { return len(x.(*layers.SNAP).OrganizationalCode) == 3 },
	clone: func(x layer) layer {
		l := x.(*layers.SNAP)
		return &layers.SNAP{OrganizationalCode: append([]byte(nil), l.OrganizationalCode...), Type: l.Type}
	},
	nf: 2,
	parse: func(f []string) (layer, bool) {
		org, ok1 := lib.UnHex(f[0])
		ty, ok2 := lib.Atoi(f[1])
		if !(ok1 && ok2) || ty < 0 || ty > 65535 {
			return nil, false
		}
		if len(org) == 0 {
			org = nil
		}
		return &layers.SNAP{OrganizationalCode: org, Type: layers.EthernetType(ty)}, true
	},
}

func renderSwitch(p string, s layers.STPSwitchID) string {
	return fmt.Sprintf("%sprio=%d %ssys=%d %shw=%s", p, s.Priority, p, s.SysID, p, lib.Hex(s.HwAddr))
}

func wfSwitch(s layers.STPSwitchID) bool {
	return s.Priority%4096 == 0 && s.SysID < 4096 && len(s.HwAddr) == 6
}

var kSTP = &kindT{
	name:  "stp",
	lt:    layers.LayerTypeSTP,
	fresh: func() layer { return &layers.STP{} },
	render: func(x layer) string {
		l := x.(*layers.STP)
		return fmt.Sprintf("pid=%d ver=%d type=%d tc=%s tca=%s %s cost=%d %s port=%d age=%d max=%d hello=%d fdelay=%d contents=%s payload=%s next=%d",
			l.ProtocolID, l.Version, l.Type, b01(l.TC), b01(l.TCA), renderSwitch("r", l.RouteID), l.Cost, renderSwitch("b", l.BridgeID),
			l.PortID, l.MessageAge, l.MaxAge, l.HelloTime, l.FDelay, lib.Hex(l.Contents), lib.Hex(l.Payload), int(l.NextLayerType()))
	},
	diff: func(x, y layer) string {
		a, b := x.(*layers.STP), y.(*layers.STP)
		switch {
		case a.ProtocolID != b.ProtocolID:
			return "ProtocolID"
		case a.Version != b.Version:
			return "Version"
		case a.Type != b.Type:
			return "Type"
		case a.TC != b.TC:
			return "TC"
		case a.TCA != b.TCA:
			return "TCA"
		case a.RouteID.Priority != b.RouteID.Priority:
			return "RouteID.Priority"
		case a.RouteID.SysID != b.RouteID.SysID:
			return "RouteID.SysID"
		case !bytes.Equal(a.RouteID.HwAddr, b.RouteID.HwAddr):
			return "RouteID.HwAddr"
		case a.Cost != b.Cost:
			return "Cost"
		case a.BridgeID.Priority != b.BridgeID.Priority:
			return "BridgeID.Priority"
		case a.BridgeID.SysID != b.BridgeID.SysID:
			return "BridgeID.SysID"
		case !bytes.Equal(a.BridgeID.HwAddr, b.BridgeID.HwAddr):
			return "BridgeID.HwAddr"
		case a.PortID != b.PortID:
			return "PortID"
		case a.MessageAge != b.MessageAge:
			return "MessageAge"
		case a.MaxAge != b.MaxAge:
			return "MaxAge"
		case a.HelloTime != b.HelloTime:
			return "HelloTime"
		case a.FDelay != b.FDelay:
			return "FDelay"
		case !bytes.Equal(a.Contents, b.Contents):
			return "Contents"
		case !bytes.Equal(a.Payload, b.Payload):
			return "Payload"
		}
		return ""
	},
	wf: func(x layer) bool {
		l := x.(*layers.STP)
		return wfSwitch(l.RouteID) && wfSwitch(l.BridgeID)
	},
	clone: func(x layer) layer {
		l := x.(*layers.STP)
		c := *l
		c.BaseLayer = layers.BaseLayer{}
		c.RouteID.HwAddr = append(net.HardwareAddr(nil), l.RouteID.HwAddr...)
		c.BridgeID.HwAddr = append(net.HardwareAddr(nil), l.BridgeID.HwAddr...)
		return &c
	},
	nf: 17,
	parse: func(f []string) (layer, bool) {
		// pid ver type tc tca rprio rsys rhw cost bprio bsys bhw port age max hello fdelay
		num := func(s string, max uint64) (uint64, bool) {
			v, ok := lib.Atou(s)
			return v, ok && v <= max
		}
		pid, ok1 := num(f[0], 65535)
		ver, ok2 := num(f[1], 255)
		ty, ok3 := num(f[2], 255)
		tc, ok4 := parseBool(f[3])
		tca, ok5 := parseBool(f[4])
		rprio, ok6 := num(f[5], 65535)
		rsys, ok7 := num(f[6], 65535)
		rhw, ok8 := lib.UnHex(f[7])
		cost, ok9 := num(f[8], 0xffffffff)
		bprio, ok10 := num(f[9], 65535)
		bsys, ok11 := num(f[10], 65535)
		bhw, ok12 := lib.UnHex(f[11])
		port, ok13 := num(f[12], 65535)
		age, ok14 := num(f[13], 65535)
		mx, ok15 := num(f[14], 65535)
		hello, ok16 := num(f[15], 65535)
		fd, ok17 := num(f[16], 65535)
		if !(ok1 && ok2 && ok3 && ok4 && ok5 && ok6 && ok7 && ok8 && ok9 && ok10 && ok11 && ok12 && ok13 && ok14 && ok15 && ok16 && ok17) {
			return nil, false
		}
		hw := func(b []byte) net.HardwareAddr {
			if len(b) == 0 {
				return nil
			}
			return net.HardwareAddr(b)
		}
		return &layers.STP{ProtocolID: uint16(pid), Version: uint8(ver), Type: uint8(ty), TC: tc, TCA: tca,
			RouteID: layers.STPSwitchID{Priority: uint16(rprio), SysID: uint16(rsys), HwAddr: hw(rhw)}, Cost: uint32(cost),
			BridgeID: layers.STPSwitchID{Priority: uint16(bprio), SysID: uint16(bsys), HwAddr: hw(bhw)}, PortID: uint16(port),
			MessageAge: uint16(age), MaxAge: uint16(mx), HelloTime: uint16(hello), FDelay: uint16(fd)}, true
	},
}

func kindOf(s string) *kindT {
	switch s {
	case "llc":
		return kLLC
	case "snap":
		return kSNAP
	case "stp":
		return kSTP
	}
	return nil
}

// pubDiff: first differing PUBLIC field (ignores Contents/Payload), for the round-trip oracle.
func pubDiff(k *kindT, a, b layer) string {
	return k.diff(k.clone(a), k.clone(b))
}

func payloadOf(l layer) []byte { return l.LayerPayload() }

// ---------------------------------------------------------------- state of one case

var (
	cur    = map[string]layer{}
	pLLC   *layers.LLC
	pSNAP  *layers.SNAP
	pSTP   *layers.STP
	parser *gopacket.DecodingLayerParser
)

func reset() {
	cur = map[string]layer{"llc": kLLC.fresh(), "snap": kSNAP.fresh(), "stp": kSTP.fresh()}
	newParser()
}

func newParser() {
	pLLC, pSNAP, pSTP = &layers.LLC{}, &layers.SNAP{}, &layers.STP{}
	parser = gopacket.NewDecodingLayerParser(layers.LayerTypeLLC, pLLC, pSNAP, pSTP)
	parser.IgnorePanic = true // let panics through (C19: "a layer parser that lets panics through")
}

type feedback struct{ truncated bool }

func (f *feedback) SetTruncated() { f.truncated = true }

// inBuf places data at the start of a backing array with `len(foreign)` spare bytes of capacity holding
// the foreign bytes, and returns the slice data[:len] with cap = len + len(foreign).
func inBuf(data, foreign []byte) []byte {
	back := make([]byte, len(data)+len(foreign))
	copy(back, data)
	copy(back[len(data):], foreign)
	return back[:len(data)]
}

func exact(data []byte) []byte { // cap == len
	c := make([]byte, len(data))
	copy(c, data)
	return c[:len(data):len(data)]
}

func isOurSite(site string) bool {
	return strings.HasPrefix(site, "layers/llc.go") || strings.HasPrefix(site, "layers/stp.go")
}

// protect is lib.Protect with a panic-site extraction that also works when the repository under test
// is a scratch tree (VERIF_REPO): the site is the top-most stack frame inside the repository.
var lastSite, lastMsg string

func protect(f func() string) (reply string, panicked bool) {
	defer func() {
		if v := recover(); v != nil {
			lastMsg = fmt.Sprint(v)
			lastSite = siteOf(string(debug.Stack()))
			reply = "panic " + lib.PanicKind(v)
			panicked = true
		}
	}()
	return f(), false
}

func siteOf(stack string) string {
	root := os.Getenv("VERIF_REPO")
	if root == "" {
		root = "/repo"
	}
	root = strings.TrimRight(root, "/") + "/"
	for _, l := range strings.Split(stack, "\n") {
		l = strings.TrimSpace(l)
		if !strings.Contains(l, ".go:") {
			continue
		}
		f := strings.Fields(l)[0]
		if strings.HasPrefix(f, root) {
			return f[len(root):]
		}
		if j := strings.LastIndex(f, "gopacket/"); j >= 0 && !strings.Contains(f, "/verif/") {
			return f[j+len("gopacket/"):]
		}
	}
	return "?"
}

// guarded runs f; a panic is reported as a C19 finding with its site and returned as "panic <kind>".
func guarded(what string, f func() string) string {
	reply, panicked := protect(f)
	if panicked {
		lib.Finding("C19", "lllc:panic:"+lastSite, what+" panicked: "+lastMsg)
		lib.Stat("panic")
	}
	return reply
}

// ---------------------------------------------------------------- decode ops

func decInto(k *kindT, obj layer, data []byte) (string, error, bool) {
	fb := &feedback{}
	err := obj.DecodeFromBytes(data, fb)
	if err != nil {
		return "err trunc=" + b01(fb.truncated), err, fb.truncated
	}
	return "ok " + k.render(obj) + " trunc=" + b01(fb.truncated), nil, fb.truncated
}

func statDec(k *kindT, obj layer, err error) {
	if err != nil {
		lib.Stat(k.name + ":dec:err")
		return
	}
	lib.Nontrivial()
	switch l := obj.(type) {
	case *layers.LLC:
		ctl := "ctl1"
		if len(l.Contents) == 4 {
			ctl = "ctl2"
			if l.Control < 256 {
				ctl = "ctl2-hi0"
			}
		}
		lib.Stat("llc:dec:" + ctl)
		switch l.NextLayerType() {
		case layers.LayerTypeSNAP:
			lib.Stat("llc:next:snap")
		case layers.LayerTypeSTP:
			lib.Stat("llc:next:stp")
		default:
			lib.Stat("llc:next:zero")
		}
	case *layers.SNAP:
		if l.NextLayerType() == gopacket.LayerTypeZero {
			lib.Stat("snap:dec:unknown-type")
		} else {
			lib.Stat("snap:dec:known-type")
		}
	case *layers.STP:
		if l.RouteID.Priority == 0 || l.BridgeID.Priority == 0 {
			lib.Stat("stp:dec:prio0")
		} else {
			lib.Stat("stp:dec:ok")
		}
	}
}

func opDec(k *kindT, extra int, foreign, data []byte) string {
	if len(foreign) != extra {
		return "bad-op"
	}
	return guarded(k.name+" DecodeFromBytes", func() string {
		obj := k.fresh()
		cur[k.name] = obj
		reply, err, _ := decInto(k, obj, inBuf(data, foreign))
		statDec(k, obj, err)
		// C05/C04 oracle: the same bytes in a buffer with cap == len
		refReply, _, _ := decInto(k, k.fresh(), exact(data))
		if reply != refReply {
			lib.Finding("C05", "lllc:cap-dependent", k.name+" decode depends on spare capacity / foreign bytes: "+reply+" vs "+refReply)
		}
		if extra > 0 {
			lib.Stat(k.name + ":dec:spare-cap")
		}
		return reply
	})
}

func opRedec(k *kindT, data []byte) string {
	return guarded(k.name+" DecodeFromBytes", func() string {
		obj := cur[k.name]
		reply, err, tr := decInto(k, obj, exact(data))
		statDec(k, obj, err)
		lib.Stat(k.name + ":redec")
		fresh := k.fresh()
		fb := &feedback{}
		ferr := fresh.DecodeFromBytes(exact(data), fb)
		if (ferr != nil) != (err != nil) {
			lib.Finding("C05", "lllc:stale:error", k.name+": reused object and fresh object disagree on the error")
		} else if err == nil {
			if f := k.diff(obj, fresh); f != "" {
				lib.Finding("C05", "lllc:stale:"+f, k.name+"."+f+" differs between a reused and a fresh object")
			}
			if fb.truncated != tr {
				lib.Finding("C05", "lllc:stale:Truncated", k.name+": truncation flag differs between a reused and a fresh object")
			}
		}
		return reply
	})
}

// ---------------------------------------------------------------- serialize ops

func mkBuffer(hist string) (gopacket.SerializeBuffer, bool) {
	switch {
	case hist == "fresh":
		return gopacket.NewSerializeBuffer(), true
	case strings.HasPrefix(hist, "dirty"):
		v, ok := lib.Atoi(hist[5:])
		if !ok || v < 0 || v > 255 {
			return nil, false
		}
		b := gopacket.NewSerializeBuffer()
		s, _ := b.AppendBytes(64)
		for i := range s {
			s[i] = byte(v)
		}
		s, _ = b.PrependBytes(64)
		for i := range s {
			s[i] = byte(v)
		}
		b.Clear()
		return b, true
	case strings.HasPrefix(hist, "sized"):
		n, ok := lib.Atoi(hist[5:])
		if !ok || n < 0 || n >= 100000 {
			return nil, false
		}
		return gopacket.NewSerializeBufferExpectedSize(n, n), true
	}
	return nil, false
}

func parsePayload(s string) ([]byte, bool) {
	if strings.HasPrefix(s, "z") {
		parts := strings.Split(s[1:], "x")
		if len(parts) != 2 {
			return nil, false
		}
		n, ok := lib.Atoi(parts[0])
		v, ok2 := lib.UnHex(parts[1])
		if !ok || !ok2 || len(v) != 1 || n < 0 || n > 200000 {
			return nil, false
		}
		return bytes.Repeat(v, n), true
	}
	return lib.UnHex(s)
}

func parseBool(s string) (bool, bool) {
	switch s {
	case "1":
		return true, true
	case "0":
		return false, true
	}
	return false, false
}

func putPayload(b gopacket.SerializeBuffer, p []byte) {
	gopacket.Payload(p).SerializeTo(b, gopacket.SerializeOptions{})
}

// serOnce serialises layer l over payload p into buffer b; returns (bytes, error?) and converts a
// panic into a C07 finding.
func serOnce(l gopacket.SerializableLayer, b gopacket.SerializeBuffer, p []byte, opts gopacket.SerializeOptions) (out []byte, failed bool, panicked bool) {
	reply, pk := protect(func() string {
		putPayload(b, p)
		if err := l.SerializeTo(b, opts); err != nil {
			return "err"
		}
		return "ok"
	})
	if pk {
		lib.Finding("C07", "lllc:ser-panic:"+lastSite, "SerializeTo panicked: "+lastMsg)
		lib.Stat("ser-panic")
		return nil, false, true
	}
	if reply == "err" {
		return nil, true, false
	}
	return append([]byte(nil), b.Bytes()...), false, false
}

// serMonitors: the C07 oracles on the real code for one (layer, payload, options).
func serMonitors(k *kindT, proto layer, p []byte, opts gopacket.SerializeOptions, got []byte, gotErr bool) {
	// (a) buffer independence: fresh, dirty 0xA5 / 0x5A, pre-sized
	for _, h := range []string{"fresh", "dirty165", "dirty90", "sized7", "sized2000"} {
		b, _ := mkBuffer(h)
		out, failed, pk := serOnce(k.clone(proto), b, p, opts)
		if pk {
			return
		}
		if failed != gotErr || (!failed && !bytes.Equal(out, got)) {
			lib.Finding("C07", "lllc:dirty-buffer", k.name+": output differs between buffer histories ("+h+")")
			return
		}
	}
	// (b) idempotence: the same (possibly mutated) object again over the same payload
	l := k.clone(proto)
	o1, f1, pk := serOnce(l, gopacket.NewSerializeBuffer(), p, opts)
	if pk {
		return
	}
	o2, f2, pk := serOnce(l, gopacket.NewSerializeBuffer(), p, opts)
	if pk {
		return
	}
	if f1 != f2 || !bytes.Equal(o1, o2) {
		what := "bytes differ"
		if f1 != f2 {
			what = fmt.Sprintf("first call error=%v, second call error=%v", f1, f2)
		}
		lib.Finding("C07", "lllc:not-idempotent", k.name+": serialising the same layer twice differs: "+what)
	}
	if pubDiff(k, l, proto) != "" {
		lib.Stat(k.name + ":ser:mutates-receiver")
	}
}

func opSer(k *kindT, a []string) string {
	// fix csum hist <fields…> payload
	if len(a) != 3+k.nf+1 {
		return "bad-op"
	}
	fix, ok1 := parseBool(a[0])
	csum, ok2 := parseBool(a[1])
	b, ok3 := mkBuffer(a[2])
	proto, ok4 := k.parse(a[3 : 3+k.nf])
	p, ok5 := parsePayload(a[3+k.nf])
	if !(ok1 && ok2 && ok3 && ok4 && ok5) {
		return "bad-op"
	}
	opts := gopacket.SerializeOptions{FixLengths: fix, ComputeChecksums: csum}
	out, failed, pk := serOnce(k.clone(proto), b, p, opts)
	if pk {
		return "panic " + lib.PanicKind(lastMsg)
	}
	serMonitors(k, proto, p, opts, out, failed)
	if a[2] != "fresh" {
		lib.Stat("ser:buf:" + strings.TrimRight(a[2], "0123456789"))
	}
	if failed {
		lib.Stat(k.name + ":ser:err")
		return "err"
	}
	if k.wf(proto) {
		lib.Stat(k.name + ":ser:wf")
		lib.Nontrivial()
	} else {
		lib.Stat(k.name + ":ser:not-wf-accepted")
	}
	return "ok bytes=" + lib.Hex(out)
}

// ---------------------------------------------------------------- round trip

var rtOpts = gopacket.SerializeOptions{FixLengths: true, ComputeChecksums: true}

// roundTrip: SerializeLayers(l, payload) with fix+csum, decode, serialise the decoded layer again.
// `inClaim` = the layer is inside the C06 claim (well-formed by the independent rule, or obtained by decoding).
func roundTrip(k *kindT, proto layer, p []byte, decoded bool) string {
	inClaim := decoded || k.wf(proto)
	if decoded && !k.wf(proto) {
		lib.Finding("C06", "lllc:roundtrip:decoded-not-wf", k.name+": a decoded layer has out-of-range field values")
	}
	l := k.clone(proto)
	buf := gopacket.NewSerializeBuffer()
	if err := gopacket.SerializeLayers(buf, rtOpts, l, gopacket.Payload(p)); err != nil {
		lib.Stat(k.name + ":rt:ser-err")
		if inClaim {
			lib.Finding("C06", "lllc:roundtrip:ser-error", k.name+": a layer inside the round-trip claim (decoded / in-range) cannot be serialised: "+err.Error())
		}
		return "ser-err"
	}
	out := append([]byte(nil), buf.Bytes()...)
	d := k.fresh()
	dreply, derr, dtr := decInto(k, d, exact(out))
	again := "none"
	if derr == nil {
		buf2 := gopacket.NewSerializeBuffer()
		if err := gopacket.SerializeLayers(buf2, rtOpts, d, gopacket.Payload(payloadOf(d))); err != nil {
			again = "err"
		} else if bytes.Equal(buf2.Bytes(), out) {
			again = "same"
		} else {
			again = "diff"
		}
	}
	if inClaim {
		lib.Stat(k.name + ":rt:in-claim")
		lib.Nontrivial()
		switch {
		case derr != nil:
			lib.Finding("C06", "lllc:roundtrip:error", k.name+": decoding the serialised well-formed layer fails")
		case dtr:
			lib.Finding("C06", "lllc:roundtrip:Truncated", k.name+": truncation flag set on a round trip")
		case pubDiff(k, d, proto) != "":
			f := pubDiff(k, d, proto)
			lib.Finding("C06", "lllc:roundtrip:"+f, k.name+"."+f+" changed on a round trip")
		case !bytes.Equal(payloadOf(d), p):
			lib.Finding("C06", "lllc:roundtrip:Payload", fmt.Sprintf("%s payload changed on a round trip (%d -> %d bytes)", k.name, len(p), len(payloadOf(d))))
		case again != "same":
			lib.Finding("C06", "lllc:roundtrip:reserialize", k.name+": serialising the decoded layer again gives "+again)
		}
	} else {
		lib.Stat(k.name + ":rt:not-wf")
	}
	return "ok bytes=" + lib.Hex(out) + " | " + dreply + " | again=" + again
}

// ---------------------------------------------------------------- tracing PacketBuilder

type tracer struct {
	acts  []string
	tail  string
	added gopacket.Layer
}

func (t *tracer) SetTruncated() { t.acts = append(t.acts, "trunc") }
func (t *tracer) AddLayer(l gopacket.Layer) {
	t.acts = append(t.acts, fmt.Sprintf("add:%d", int(l.LayerType())))
	t.added = l
}
func (t *tracer) SetLinkLayer(gopacket.LinkLayer)               { t.acts = append(t.acts, "link") }
func (t *tracer) SetNetworkLayer(gopacket.NetworkLayer)         { t.acts = append(t.acts, "net") }
func (t *tracer) SetTransportLayer(gopacket.TransportLayer)     { t.acts = append(t.acts, "transport") }
func (t *tracer) SetApplicationLayer(gopacket.ApplicationLayer) { t.acts = append(t.acts, "app") }
func (t *tracer) SetErrorLayer(gopacket.ErrorLayer)             { t.acts = append(t.acts, "errlayer") }
func (t *tracer) DumpPacketData()                               {}
func (t *tracer) DecodeOptions() *gopacket.DecodeOptions        { return &gopacket.DecodeOptions{} }
func (t *tracer) NextDecoder(next gopacket.Decoder) error {
	switch d := next.(type) {
	case layers.EthernetType:
		t.tail = fmt.Sprintf("eth:%d", uint16(d))
	case gopacket.LayerType:
		t.tail = fmt.Sprintf("lt:%d", int(d))
	case nil:
		t.tail = "nil"
	default:
		t.tail = "other"
	}
	return nil
}

func opPb(k *kindT, data []byte) string {
	return guarded("decode function of "+k.name, func() string {
		t := &tracer{}
		err := k.lt.Decode(exact(data), t)
		tail := t.tail
		if err != nil {
			tail = "fail"
		} else if tail == "" {
			tail = "done"
		}
		acts := "-"
		if len(t.acts) > 0 {
			acts = strings.Join(t.acts, ",")
		}
		lib.Stat("pb:" + k.name + ":" + strings.SplitN(tail, ":", 2)[0])
		s := "acts=" + acts + " tail=" + tail
		if l, ok := t.added.(layer); ok {
			s += " | " + k.render(l)
		}
		return s
	})
}

// ---------------------------------------------------------------- NewPacket / DecodingLayerParser

func opPkt(k *kindT, mode string, extra int, foreign, data []byte) string {
	if len(foreign) != extra || (mode != "copy" && mode != "nocopy" && mode != "lazy") {
		return "bad-op"
	}
	if len(data) == 0 {
		return "empty"
	}
	build := func(skipRecovery bool) (gopacket.Packet, []gopacket.Layer) {
		opts := gopacket.DecodeOptions{SkipDecodeRecovery: skipRecovery}
		in := exact(data)
		switch mode {
		case "nocopy":
			opts.NoCopy = true
			in = inBuf(data, foreign)
		case "lazy":
			opts.Lazy = true
		}
		p := gopacket.NewPacket(in, k.lt, opts)
		return p, p.Layers()
	}
	var ls []gopacket.Layer
	_, panicked := protect(func() string { _, ls = build(true); return "" })
	if panicked {
		if isOurSite(lastSite) {
			lib.Finding("C19", "lllc:panic:"+lastSite, "NewPacket(SkipDecodeRecovery) panicked in this layer: "+lastMsg)
			return "panic " + lib.PanicKind(lastMsg)
		}
		// a decoder of a LATER layer panicked (other engines' business): observe this layer with recovery on
		lib.Stat("pkt:later-layer-panic")
		_, ls = build(false)
	}
	lib.Stat("pkt:" + k.name + ":" + mode)
	if len(ls) == 0 || ls[0].LayerType() != k.lt {
		return "fail"
	}
	l, ok := ls[0].(layer)
	if !ok {
		return "fail"
	}
	// oracle: the first layer equals a direct fresh decode
	ref := k.fresh()
	if err := ref.DecodeFromBytes(exact(data), &feedback{}); err != nil || k.diff(l, ref) != "" {
		lib.Finding("C05", "lllc:pkt-differs", "first layer built by NewPacket("+mode+") differs from a direct fresh DecodeFromBytes")
	}
	return "ok " + k.render(l)
}

func opDlp(re bool, data []byte) string {
	if !re {
		newParser()
	}
	return guarded("DecodingLayerParser.DecodeLayers", func() string {
		var decoded []gopacket.LayerType
		err := parser.DecodeLayers(exact(data), &decoded)
		code := 0
		var unsup gopacket.UnsupportedLayerType
		if errors.As(err, &unsup) {
			code = 2
		} else if err != nil {
			code = 1
		}
		ds := make([]string, len(decoded))
		for i, t := range decoded {
			ds[i] = lib.Itoa(int(t))
		}
		dec := "-"
		if len(ds) > 0 {
			dec = strings.Join(ds, ",")
		}
		lib.Stat(fmt.Sprintf("dlp:layers=%d", len(decoded)))
		if len(decoded) >= 2 {
			lib.Nontrivial()
		}
		// C05 oracle: the run equals the leading run of NewPacket's layers with equal fields
		if len(data) > 0 {
			var pl []gopacket.Layer
			_, pk := protect(func() string {
				pl = gopacket.NewPacket(exact(data), layers.LayerTypeLLC, gopacket.DecodeOptions{}).Layers()
				return ""
			})
			if !pk {
				lastOf := map[gopacket.LayerType]int{}
				for i, t := range decoded {
					lastOf[t] = i
				}
				// The parser owns ONE object per type.  When the run ended with a decode error, the failing
				// decode was attempted INTO the object of its type (LLC.DecodeFromBytes assigns five fields
				// before its second length check), so that object no longer describes an earlier layer of
				// the same type (LLC / SNAP type 0 / LLC): it is not compared.
				if code == 1 && len(decoded) > 0 {
					var ft gopacket.LayerType = -1
					switch decoded[len(decoded)-1] {
					case layers.LayerTypeLLC:
						ft = pLLC.NextLayerType()
					case layers.LayerTypeSNAP:
						ft = pSNAP.NextLayerType()
					case layers.LayerTypeSTP:
						ft = pSTP.NextLayerType()
					}
					if _, ok := lastOf[ft]; ok {
						lastOf[ft] = -1
						lib.Stat("dlp:failed-redecode-of-same-type")
					}
				}
				for i, t := range decoded {
					if i >= len(pl) || pl[i].LayerType() != t {
						lib.Finding("C05", "lllc:dlp-differs", "parser run is not a prefix of the packet's layers")
						break
					}
					if lastOf[t] != i {
						continue // the parser owns ONE object per type: after the run it holds the LAST layer of that type
					}
					var f string
					switch l := pl[i].(type) {
					case *layers.LLC:
						f = kLLC.diff(l, pLLC)
					case *layers.SNAP:
						f = kSNAP.diff(l, pSNAP)
					case *layers.STP:
						f = kSTP.diff(l, pSTP)
					}
					if f != "" {
						lib.Finding("C05", "lllc:dlp-differs", "parser's "+t.String()+" differs from the packet's: "+f)
					}
				}
			}
		}
		return fmt.Sprintf("code=%d decoded=%s trunc=%s | %s | %s | %s", code, dec, b01(parser.Truncated),
			kLLC.render(pLLC), kSNAP.render(pSNAP), kSTP.render(pSTP))
	})
}

func opNltTab() string {
	var rows []string
	type row struct{ k, v int }
	var rs []row
	for i := 0; i < 65536; i++ {
		if layers.EthernetTypeMetadata[i].DecodeWith != nil {
			rs = append(rs, row{i, int(layers.EthernetType(i).LayerType())})
		} else if layers.EthernetType(i).LayerType() != gopacket.LayerTypeZero {
			rs = append(rs, row{i, -1})
		}
	}
	sort.Slice(rs, func(a, b int) bool { return rs[a].k < rs[b].k })
	for _, r := range rs {
		rows = append(rows, fmt.Sprintf("%d:%d", r.k, r.v))
	}
	lib.Stat("nlttab")
	return "ok " + strings.Join(rows, ",")
}

// ---------------------------------------------------------------- dispatcher

func exec(a []string) string {
	if len(a) < 2 || a[0] != "lllc" {
		return "bad-op"
	}
	switch a[1] {
	case "dec":
		if len(a) != 6 {
			return "bad-op"
		}
		k := kindOf(a[2])
		extra, ok1 := lib.Atoi(a[3])
		foreign, ok2 := lib.UnHex(a[4])
		data, ok3 := lib.UnHex(a[5])
		if k == nil || !ok1 || !ok2 || !ok3 || extra < 0 {
			return "bad-op"
		}
		return opDec(k, extra, foreign, data)
	case "redec":
		if len(a) != 4 {
			return "bad-op"
		}
		k := kindOf(a[2])
		data, ok := lib.UnHex(a[3])
		if k == nil || !ok {
			return "bad-op"
		}
		return opRedec(k, data)
	case "ser":
		if len(a) < 4 {
			return "bad-op"
		}
		k := kindOf(a[2])
		if k == nil {
			return "bad-op"
		}
		return opSer(k, a[3:])
	case "rt":
		if len(a) < 4 {
			return "bad-op"
		}
		k := kindOf(a[2])
		if k == nil || len(a) != 3+k.nf+1 {
			return "bad-op"
		}
		proto, ok1 := k.parse(a[3 : 3+k.nf])
		p, ok2 := parsePayload(a[3+k.nf])
		if !ok1 || !ok2 {
			return "bad-op"
		}
		r, pk := protect(func() string { return roundTrip(k, proto, p, false) })
		if pk {
			lib.Finding("C07", "lllc:ser-panic:"+lastSite, "round trip panicked: "+lastMsg)
		}
		return r
	case "rtdec":
		if len(a) != 4 {
			return "bad-op"
		}
		k := kindOf(a[2])
		data, ok := lib.UnHex(a[3])
		if k == nil || !ok {
			return "bad-op"
		}
		return guarded("decode+round trip", func() string {
			l := k.fresh()
			if err := l.DecodeFromBytes(exact(data), &feedback{}); err != nil {
				return "dec-err"
			}
			lib.Stat(k.name + ":rtdec")
			return roundTrip(k, l, payloadOf(l), true)
		})
	case "pb":
		if len(a) != 4 {
			return "bad-op"
		}
		k := kindOf(a[2])
		data, ok := lib.UnHex(a[3])
		if k == nil || !ok {
			return "bad-op"
		}
		return opPb(k, data)
	case "pkt":
		if len(a) != 7 {
			return "bad-op"
		}
		k := kindOf(a[2])
		extra, ok1 := lib.Atoi(a[4])
		foreign, ok2 := lib.UnHex(a[5])
		data, ok3 := lib.UnHex(a[6])
		if k == nil || !ok1 || !ok2 || !ok3 || extra < 0 {
			return "bad-op"
		}
		return opPkt(k, a[3], extra, foreign, data)
	case "dlp", "redlp":
		if len(a) != 3 {
			return "bad-op"
		}
		data, ok := lib.UnHex(a[2])
		if !ok {
			return "bad-op"
		}
		return opDlp(a[1] == "redlp", data)
	case "nlttab":
		if len(a) != 2 {
			return "bad-op"
		}
		return opNltTab()
	}
	return "bad-op"
}

func main() {
	reset()
	lib.Main(lib.Engine{Name: "lllc", Gen: gen, Reset: reset, Exec: exec})
}
