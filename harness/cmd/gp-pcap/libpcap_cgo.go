//go:build cgo

package main

import (
	"fmt"
	"os"
	"path/filepath"

	"github.com/gopacket/gopacket/pcap"
	"verif/harness/lib"
)

var tmpDir string

// libpcapMonitor (C14, optional oracle): libpcap must read the same packets from the file.
// libpcap treats a snap length of 0 or above 262144 specially, so only files inside that
// range are compared; pcap.OpenOffline keeps the file's timestamp resolution.
func libpcapMonitor(ns bool, snaplen uint32, lt uint16, exp []out, file []byte) {
	if snaplen == 0 || snaplen > 262144 || len(file) > 1<<20 {
		lib.Stat("libpcap:skipped")
		return
	}
	for _, e := range exp {
		if e.sec >= 1<<31 {
			lib.Stat("libpcap:skipped")
			return
		}
	}
	if tmpDir == "" {
		d, err := os.MkdirTemp("", "gp-pcap")
		if err != nil {
			return
		}
		tmpDir = d
	}
	path := filepath.Join(tmpDir, "f.pcap")
	if err := os.WriteFile(path, file, 0o600); err != nil {
		return
	}
	defer os.Remove(path)
	h, err := pcap.OpenOffline(path)
	if err != nil {
		lib.Finding("C14", "pcap:libpcap-mismatch", fmt.Sprintf("libpcap rejects the written file (snaplen %d, linktype %d): %v", snaplen, lt, err))
		return
	}
	defer h.Close()
	if int(h.LinkType()) != int(lt) {
		// libpcap maps a few LINKTYPE_ values to different DLT_ values; not a property of the writer
		lib.Stat("libpcap:linktype-mapped")
	}
	for i, e := range exp {
		data, ci, err := h.ReadPacketData()
		if err != nil {
			lib.Finding("C14", "pcap:libpcap-mismatch", fmt.Sprintf("libpcap: packet %d of %d: %v", i, len(exp), err))
			return
		}
		us := e.nsec
		if string(data) != string(e.data) || ci.CaptureLength != e.caplen || ci.Length != e.length ||
			ci.Timestamp.Unix() != e.sec || ci.Timestamp.Nanosecond() != us {
			lib.Finding("C14", "pcap:libpcap-mismatch", fmt.Sprintf("libpcap: packet %d differs: got caplen %d len %d ts %d.%09d, written caplen %d len %d ts %d.%09d",
				i, ci.CaptureLength, ci.Length, ci.Timestamp.Unix(), ci.Timestamp.Nanosecond(), e.caplen, e.length, e.sec, us))
			return
		}
	}
	if _, _, err := h.ReadPacketData(); err == nil {
		lib.Finding("C14", "pcap:libpcap-mismatch", "libpcap returns more packets than were written")
		return
	}
	lib.Stat("libpcap:same")
}
