// gp-pcap: correspondence adapter for engine `pcap` (C14, C15): drives the real classic
// pcap Writer (pcapgo/write.go) and Reader (pcapgo/read.go).
//
// Ops (first word `pcap`):
//
//	write <ns 0|1> <snaplen> <linktype> {<sec> <nsec> <caplen> <len> <hex>}*
//	      real Writer; reply `ok <file hex> <per-packet 1/0 flags>`; the output becomes the current file
//	file <hex>                               set the current file; reply `ok`
//	read <pattern> <cut> <eof|fail> {snap <i> <n>}*
//	      real Reader on the first <cut> bytes of the current file, the stream then ends with
//	      io.EOF (`eof`) or an injected I/O error (`fail`); <pattern> is a word over z/c (zero-copy /
//	      copying call), cycled; `snap i n` calls SetSnaplen(n) before the i-th read call.
//	      reply `open <outcome>` or `hdr <linktype> <snaplen> <ns|us> | <outcome> | …` where an
//	      outcome is `p <sec> <nsec> <caplen> <len> <hex>`, `err`, `eof`, `ueof`, `ioerr`, `panic <kind>`;
//	      reading stops at the first eof/ueof/ioerr/panic.
//	readhex <pattern> <hex>                  = file + read <pattern> <len> eof
//	readgz <pattern>                         the current file gzip-compressed, read completely
//
// Monitors (implementation side): C14 round trip / every-prefix / libpcap on `write`;
// C15 panic, hang, allocation, |data| = caplen ≤ len on every read call, chunking
// independence and injected I/O errors on complete reads.
package main

import (
	"bytes"
	"compress/gzip"
	"encoding/binary"
	"fmt"
	"io"
	"strings"
	"time"

	"github.com/gopacket/gopacket"
	"github.com/gopacket/gopacket/layers"
	"github.com/gopacket/gopacket/pcapgo"
	"verif/harness/cmd/gp-pcap/strm"
	"verif/harness/lib"
)

var curFile []byte

func reset() { curFile = nil }

// ---------------------------------------------------------------- reading with the real Reader

type out struct {
	kind   string // p, err, eof, ueof, ioerr, panic <k>, huge
	sec    int64
	nsec   int
	caplen int
	length int
	data   []byte
}

func (o out) String() string {
	if o.kind == "p" {
		return fmt.Sprintf("p %d %d %d %d %s", o.sec, o.nsec, o.caplen, o.length, lib.Hex(o.data))
	}
	return o.kind
}

func (o out) final() bool { return o.kind != "p" && o.kind != "err" }

type result struct {
	maxAlloc uint64 // largest allocation predicted by the shadow walk
	suspect  bool   // the cheap allocation counter exceeded the bound: confirm with the exact one
	open     string // non-empty: NewReader failed with this outcome
	lt       int
	snap     uint32
	ns       bool
	outs     []out
}

func (r result) String() string {
	if r.open != "" {
		return "open " + r.open
	}
	res := "us"
	if r.ns {
		res = "ns"
	}
	var sb strings.Builder
	fmt.Fprintf(&sb, "hdr %d %d %s", r.lt, r.snap, res)
	for _, o := range r.outs {
		sb.WriteString(" | ")
		sb.WriteString(o.String())
	}
	return sb.String()
}

func (r result) pkts() []out {
	var ps []out
	for _, o := range r.outs {
		if o.kind == "p" {
			ps = append(ps, o)
		}
	}
	return ps
}

// shadow: an independent walk over the plain bytes, used only to predict the size of the
// next allocation (protective cap: requests above 256 MiB are not executed).
type shadow struct {
	data []byte
	pos  int
	be   bool
	cap  uint64
}

func newShadow(plain []byte) *shadow {
	s := &shadow{data: plain, pos: 24}
	if len(plain) >= 4 {
		s.be = (plain[0] == 0xa1 && plain[1] == 0xb2)
	}
	return s
}

func (s *shadow) u32(b []byte) uint64 {
	if s.be {
		return uint64(b[0])<<24 | uint64(b[1])<<16 | uint64(b[2])<<8 | uint64(b[3])
	}
	return uint64(b[3])<<24 | uint64(b[2])<<16 | uint64(b[1])<<8 | uint64(b[0])
}

func (s *shadow) next(zc bool, snap uint32) uint64 {
	if s.pos > len(s.data) {
		s.pos = len(s.data)
	}
	if len(s.data)-s.pos < 16 {
		s.pos = len(s.data)
		return 0
	}
	h := s.data[s.pos : s.pos+16]
	s.pos += 16
	caplen, ln := s.u32(h[8:12]), s.u32(h[12:16])
	if caplen > uint64(snap) || caplen > ln {
		return 0
	}
	var alloc uint64
	if zc {
		if s.cap < caplen {
			n := uint64(snap)
			if n < caplen {
				n = caplen
			}
			s.cap, alloc = n, n
		}
	} else {
		alloc = caplen
	}
	adv := uint64(len(s.data) - s.pos)
	if caplen < adv {
		adv = caplen
	}
	s.pos += int(adv)
	return alloc
}

const hugeAlloc = 1 << 24

// allocSlack: the runtime's allocation counter is flushed per span, so a delta can contain
// up to a few hundred KiB of earlier small allocations; the "+ const" of the property.
const allocSlack = 1 << 18

type readCfg struct {
	stream  []byte // bytes delivered to NewReader
	plain   []byte // the same after gzip decompression (= stream when not gzip)
	fail    bool
	pat     string
	snaps   [][2]uint64
	chunk   func() int
	sticky  bool
	monitor bool // C15 per-call monitors (base run only)
	precise bool // confirmation run: exact allocation counters, allocation monitor only
}

var lastSite, lastMsg string

func sigSite(prefix string) string { return prefix + ":panic:" + lastSite }

// protect runs a call into the real code; a panic becomes the reply "panic <kind>".
func protect(f func()) (string, bool) {
	rep, site, msg := strm.Protect(lib.PanicKind, f)
	if rep != "" {
		lastSite, lastMsg = site, msg
		return rep, true
	}
	return "", false
}

func runRead(c readCfg) result {
	res := runRead1(c)
	if res.suspect && !c.precise {
		c.precise = true
		runRead1(c)
	}
	return res
}

func runRead1(c readCfg) result {
	allocated := strm.Allocated
	if c.precise {
		allocated = strm.AllocatedPrecise
	}
	st := &strm.Stream{Data: c.stream, Fail: c.fail, Chunk: c.chunk, Sticky: c.sticky}
	var res result
	var r *pcapgo.Reader
	var err error
	a0 := allocated()
	rep, panicked := protect(func() { r, err = pcapgo.NewReader(st) })
	a1 := allocated()
	if panicked {
		res.open = rep
		if c.monitor && !c.precise {
			lib.Finding("C15", sigSite("pcap"), "NewReader panicked: "+lastMsg)
		}
		return res
	}
	if c.monitor && a1-a0 > uint64(len(c.stream))+allocSlack {
		res.suspect = true
	}
	if c.monitor && c.precise && a1-a0 > uint64(len(c.stream))+allocSlack {
		lib.Finding("C15", "pcap:alloc:NewReader", fmt.Sprintf("NewReader allocated %d bytes for a %d-byte stream", a1-a0, len(c.stream)))
	}
	if err != nil {
		res.open = strm.Classify(err)
		return res
	}
	res.lt, res.snap = int(r.LinkType()), r.Snaplen()
	res.ns = r.Resolution() == gopacket.TimestampResolutionNanosecond
	sh := newShadow(c.plain)
	limit := len(c.plain)/16 + 8
	for i := 0; i < limit; i++ {
		for _, s := range c.snaps {
			if s[0] == uint64(i) {
				r.SetSnaplen(uint32(s[1]))
			}
		}
		zc := c.pat[i%len(c.pat)] == 'z'
		pa := sh.next(zc, r.Snaplen())
		if pa > hugeAlloc {
			res.outs = append(res.outs, out{kind: "huge"})
			if c.monitor && !c.precise {
				lib.Stat("read:huge-skipped")
			}
			break
		}
		if pa > res.maxAlloc {
			res.maxAlloc = pa
		}
		var data []byte
		var ci gopacket.CaptureInfo
		b0 := allocated()
		rep, panicked := protect(func() {
			if zc {
				data, ci, err = r.ZeroCopyReadPacketData()
			} else {
				data, ci, err = r.ReadPacketData()
			}
		})
		b1 := allocated()
		if panicked {
			res.outs = append(res.outs, out{kind: rep})
			if c.monitor && !c.precise {
				lib.Finding("C15", sigSite("pcap"), "read call panicked: "+lastMsg)
			}
			break
		}
		if c.monitor && b1-b0 > uint64(len(c.stream))+uint64(r.Snaplen())+allocSlack {
			res.suspect = true
		}
		if c.monitor && c.precise && b1-b0 > uint64(len(c.stream))+uint64(r.Snaplen())+allocSlack {
			lib.Finding("C15", "pcap:alloc:read", fmt.Sprintf("read call allocated %d bytes; stream %d bytes, snaplen %d", b1-b0, len(c.stream), r.Snaplen()))
		}
		k := strm.Classify(err)
		if k == "ok" {
			o := out{kind: "p", sec: ci.Timestamp.Unix(), nsec: ci.Timestamp.Nanosecond(), caplen: ci.CaptureLength, length: ci.Length, data: append([]byte(nil), data...)}
			if c.monitor && !c.precise {
				if len(data) != ci.CaptureLength {
					lib.Finding("C15", "pcap:datalen", fmt.Sprintf("returned %d bytes with CaptureLength %d", len(data), ci.CaptureLength))
				}
				if ci.CaptureLength > ci.Length {
					lib.Finding("C15", "pcap:caplen-gt-len", fmt.Sprintf("CaptureLength %d > Length %d", ci.CaptureLength, ci.Length))
				}
				lib.Stat("read:pkt")
			}
			res.outs = append(res.outs, o)
			continue
		}
		if c.monitor && !c.precise {
			lib.Stat("read:" + k)
		}
		o := out{kind: k}
		res.outs = append(res.outs, o)
		if o.final() {
			break
		}
	}
	return res
}

func sameOuts(a, b []out) bool {
	if len(a) != len(b) {
		return false
	}
	for i := range a {
		if a[i].String() != b[i].String() {
			return false
		}
	}
	return true
}

// chunkingAndErrors: C15 run-time monitors on a complete plain read.
func chunkingAndErrors(c readCfg, base result) {
	baseStr := base.String()
	if strings.Contains(baseStr, "huge") || base.maxAlloc > 1<<16 {
		lib.Stat("mon:skipped-large-buffers")
		return
	}
	mx := strm.NewMix(c.stream, uint64(len(c.pat)))
	variants := []struct {
		name   string
		chunk  func() int
		sticky bool
	}{
		{"1", func() int { return 1 }, false},
		{"2", func() int { return 2 }, false},
		{"3", func() int { return 3 }, true},
		{"7", func() int { return 7 }, false},
		{"rand", func() int { return 1 + mx.Intn(23) }, mx.Intn(2) == 0},
		{"whole-sticky", nil, true},
	}
	for _, v := range variants {
		cc := c
		cc.chunk, cc.sticky, cc.monitor = v.chunk, v.sticky, false
		if got := runRead(cc).String(); got != baseStr {
			lib.Finding("C15", "pcap:chunking", fmt.Sprintf("chunking %s changes the result: %s vs %s", v.name, clip(got), clip(baseStr)))
			break
		}
	}
	lib.Stat("mon:chunking")
	// injected I/O error after p bytes
	var positions []int
	n := len(c.stream)
	if n <= 96 && base.maxAlloc <= 4096 {
		for p := 0; p <= n; p++ {
			positions = append(positions, p)
		}
	} else {
		for _, p := range []int{0, 1, 2, 23, 24, 25, 39, 40, 41, n - 1, n} {
			if p >= 0 && p <= n {
				positions = append(positions, p)
			}
		}
		extra := 12
		if base.maxAlloc > 4096 {
			extra = 2 // every rerun allocates the large zero-copy buffer again
		}
		for i := 0; i < extra; i++ {
			positions = append(positions, mx.Intn(n+1))
		}
	}
	for _, p := range positions {
		cf := c
		cf.stream, cf.plain, cf.fail, cf.monitor = c.stream[:p], c.plain[:p], true, false
		if p%3 == 1 {
			cf.chunk = func() int { return 1 + mx.Intn(9) }
		}
		ce := cf
		ce.fail, ce.chunk = false, nil
		rf, re := runRead(cf), runRead(ce)
		ok := true
		if rf.open != "" || re.open != "" {
			// open failed: eof/ueof must have become ioerr; own errors (bad magic…) may stay
			ok = rf.open == "ioerr" || (rf.open == re.open && re.open == "err")
		} else {
			nf, ne := len(rf.outs), len(re.outs)
			ok = nf == ne && nf > 0 && sameOuts(rf.outs[:nf-1], re.outs[:ne-1]) && rf.outs[nf-1].kind == "ioerr"
		}
		if !ok {
			lib.Finding("C15", "pcap:ioerr", fmt.Sprintf("I/O error injected after %d bytes does not surface as that error: %s (clean cut: %s)", p, clip(rf.String()), clip(re.String())))
			break
		}
	}
	lib.Stat("mon:ioerr")
}

func clip(s string) string {
	if len(s) > 160 {
		return s[:160] + "…"
	}
	return s
}

func gzipBytes(b []byte) []byte {
	var buf bytes.Buffer
	w := gzip.NewWriter(&buf)
	w.Write(b)
	w.Close()
	return buf.Bytes()
}

// gzipMonitors: corrupted / truncated gzip streams must produce errors, never panics.
func gzipMonitors(plain, gz []byte, pat string) {
	mx := strm.NewMix(gz, 77)
	try := func(stream []byte, what string) {
		// what the reader will see: skip variants declaring a large snap length (protective cap)
		if zr, err := gzip.NewReader(bytes.NewReader(stream)); err == nil {
			seen, _ := io.ReadAll(io.LimitReader(zr, 1<<16))
			if len(seen) >= 20 && (binary.LittleEndian.Uint32(seen[16:20]) > 1<<20 || binary.BigEndian.Uint32(seen[16:20]) > 1<<20) {
				return
			}
		}
		st := &strm.Stream{Data: stream}
		_, panicked := protect(func() {
			r, err := pcapgo.NewReader(st)
			if err != nil {
				return
			}
			for i := 0; i < len(plain)/16+8; i++ {
				var err error
				if pat[i%len(pat)] == 'z' {
					_, _, err = r.ZeroCopyReadPacketData()
				} else {
					_, _, err = r.ReadPacketData()
				}
				if err != nil {
					return
				}
			}
		})
		if panicked {
			lib.Finding("C15", sigSite("pcap")+":gzip", "reader panicked on a "+what+" gzip stream: "+lastMsg)
		}
	}
	for i := 0; i < 6; i++ {
		try(gz[:mx.Intn(len(gz)+1)], "truncated")
		m := append([]byte(nil), gz...)
		m[mx.Intn(len(m))] ^= byte(1 << mx.Intn(8))
		try(m, "corrupted")
	}
	lib.Stat("mon:gzip")
}

// ---------------------------------------------------------------- writing with the real Writer

type wpkt struct {
	sec    int64
	nsec   int64
	caplen int64
	length int64
	data   []byte
}

func parsePkts(a []string) ([]wpkt, bool) {
	if len(a)%5 != 0 {
		return nil, false
	}
	var ps []wpkt
	for i := 0; i < len(a); i += 5 {
		var v [4]int64
		for j := 0; j < 4; j++ {
			if strings.HasPrefix(a[i+j], "+") {
				return nil, false
			}
			n, err := parseInt(a[i+j])
			if !err {
				return nil, false
			}
			v[j] = n
		}
		d, ok := lib.UnHex(a[i+4])
		if !ok {
			return nil, false
		}
		if v[0] < -8589934592 || v[0] > 1099511627776 || v[1] < 0 || v[1] >= 1000000000 ||
			v[2] < -1099511627776 || v[2] > 1099511627776 || v[3] < -1099511627776 || v[3] > 1099511627776 {
			return nil, false
		}
		if strings.HasPrefix(a[i+1], "-") {
			return nil, false
		}
		ps = append(ps, wpkt{v[0], v[1], v[2], v[3], d})
	}
	return ps, true
}

func parseInt(s string) (int64, bool) {
	if s == "" || s == "-" {
		return 0, false
	}
	neg := false
	t := s
	if t[0] == '-' {
		neg, t = true, t[1:]
	}
	if t == "" || len(t) > 15 {
		return 0, false
	}
	var n int64
	for _, c := range t {
		if c < '0' || c > '9' {
			return 0, false
		}
		n = n*10 + int64(c-'0')
	}
	if neg {
		n = -n
	}
	return n, true
}

func doWrite(ns bool, snaplen uint32, lt uint16, ps []wpkt) string {
	var buf bytes.Buffer
	var w *pcapgo.Writer
	if ns {
		w = pcapgo.NewWriterNanos(&buf)
	} else {
		w = pcapgo.NewWriter(&buf)
	}
	if err := w.WriteFileHeader(snaplen, layers.LinkType(lt)); err != nil {
		return "err"
	}
	flags := make([]byte, len(ps))
	for i, p := range ps {
		ci := gopacket.CaptureInfo{Timestamp: time.Unix(p.sec, p.nsec), CaptureLength: int(p.caplen), Length: int(p.length)}
		if err := w.WritePacket(ci, p.data); err != nil {
			flags[i] = '0'
			lib.Stat("write:err")
		} else {
			flags[i] = '1'
			lib.Stat("write:ok")
		}
	}
	curFile = append([]byte(nil), buf.Bytes()...)
	monitorC14(ns, snaplen, lt, ps, string(flags))
	fl := string(flags)
	if fl == "" {
		fl = "-"
	}
	return "ok " + lib.Hex(curFile) + " " + fl
}

// monitorC14: the property checked directly on the real code: round trip (both read calls),
// every prefix (or a sample), libpcap.
func monitorC14(ns bool, snaplen uint32, lt uint16, ps []wpkt, flags string) {
	var exp []out
	offs := []int{24}
	for i, p := range ps {
		accepted := p.caplen == int64(len(p.data)) && p.caplen <= p.length
		if accepted != (flags[i] == '1') {
			lib.Finding("C14", "pcap:write-accept", fmt.Sprintf("WritePacket accepted=%v for caplen %d len %d |data| %d", flags[i] == '1', p.caplen, p.length, len(p.data)))
			return
		}
		if !accepted {
			continue
		}
		// well-formedness of the property's quantifier: representable timestamp and lengths,
		// capture length within the declared snap length
		if p.sec < 0 || p.sec >= 1<<32 || p.length >= 1<<32 || p.caplen > int64(snaplen) {
			lib.Stat("c14:skip-not-wf")
			return
		}
		nsec := int(p.nsec)
		if !ns {
			nsec = nsec / 1000 * 1000
		}
		exp = append(exp, out{kind: "p", sec: p.sec, nsec: nsec, caplen: int(p.caplen), length: int(p.length), data: p.data})
		offs = append(offs, offs[len(offs)-1]+16+len(p.data))
	}
	if snaplen > hugeAlloc {
		lib.Stat("c14:skip-huge-snaplen")
		return
	}
	file := curFile
	if len(file) != offs[len(offs)-1] {
		lib.Finding("C14", "pcap:write-size", fmt.Sprintf("file has %d bytes, expected %d", len(file), offs[len(offs)-1]))
		return
	}
	if len(exp) >= 2 {
		lib.Nontrivial()
	}
	mx := strm.NewMix(file, 5)
	var cuts []int
	if len(file) <= 400 {
		for k := 0; k <= len(file); k++ {
			cuts = append(cuts, k)
		}
	} else {
		for _, o := range offs {
			cuts = append(cuts, o-1, o, o+1, o+15, o+16, o+17)
		}
		for i := 0; i < 24; i++ {
			cuts = append(cuts, mx.Intn(len(file)+1))
		}
		cuts = append(cuts, 0, 1, 2, 3, 23, len(file))
	}
	for ci, k := range cuts {
		if k < 0 || k > len(file) {
			continue
		}
		pat := []string{"c", "z", "zc"}[ci%3]
		if k == len(file) {
			pat = []string{"c", "z"}[ci%2]
		} else if snaplen > 4096 && ci%8 != 0 {
			pat = "c" // a zero-copy reader allocates snaplen bytes per instance
		}
		res := runRead(readCfg{stream: file[:k], plain: file[:k], pat: pat})
		want := 0
		for j := 1; j < len(offs); j++ {
			if offs[j] <= k {
				want = j
			}
		}
		if k < 24 {
			if res.open != "eof" && res.open != "ueof" {
				lib.Finding("C14", "pcap:prefix:header", fmt.Sprintf("file cut at %d (inside the file header): NewReader → %s", k, res.open))
				return
			}
			continue
		}
		sig := "pcap:prefix"
		if k == len(file) {
			sig = "pcap:roundtrip"
		}
		if res.open != "" {
			lib.Finding("C14", sig, fmt.Sprintf("cut %d: NewReader failed: %s", k, res.open))
			return
		}
		if k == len(file) && (res.lt != int(lt) || res.snap != snaplen || res.ns != ns) {
			lib.Finding("C14", "pcap:roundtrip:header", fmt.Sprintf("header read back as lt=%d snap=%d ns=%v, written lt=%d snap=%d ns=%v", res.lt, res.snap, res.ns, lt, snaplen, ns))
			return
		}
		got := res.outs
		okc := len(got) == want+1 && sameOuts(got[:want], exp[:want]) && (got[want].kind == "eof" || got[want].kind == "ueof")
		if k == len(file) {
			okc = okc && got[want].kind == "eof"
		}
		if !okc {
			lib.Finding("C14", sig, fmt.Sprintf("cut %d of %d (pattern %s): want %d packet(s) then eof/ueof, got %s", k, len(file), pat, want, clip(res.String())))
			return
		}
	}
	lib.Stat("c14:roundtrip+prefix")
	libpcapMonitor(ns, snaplen, lt, exp, file)
}

// ---------------------------------------------------------------- exec

func parsePat(s string) bool {
	if s == "" {
		return false
	}
	for _, c := range s {
		if c != 'z' && c != 'c' {
			return false
		}
	}
	return true
}

func doRead(pat string, data []byte, fail bool, snaps [][2]uint64, full bool) string {
	if len(data) >= 2 && data[0] == 0x1f && data[1] == 0x8b {
		// gzip input: compress/gzip is outside the model; run it for the monitors only
		runRead(readCfg{stream: data, plain: data, fail: fail, pat: pat, monitor: true})
		lib.Stat("read:gzip-magic")
		return "open gzip"
	}
	c := readCfg{stream: data, plain: data, fail: fail, pat: pat, snaps: snaps, monitor: true}
	res := runRead(c)
	if len(res.pkts()) >= 2 {
		lib.Nontrivial()
	}
	if res.open != "" {
		lib.Stat("open:" + res.open)
	}
	if full && !fail {
		chunkingAndErrors(c, res)
	}
	return res.String()
}

func exec(a []string) string {
	rep, ok := strm.WithTimeout(60*time.Second, func() string {
		r, _ := lib.Protect(func() string { return exec1(a) })
		return r
	})
	if !ok {
		lib.Finding("C15", "pcap:hang", "operation did not finish within 60 s")
		return "hang"
	}
	return rep
}

func exec1(a []string) string {
	if len(a) < 2 || a[0] != "pcap" {
		return "bad-op"
	}
	switch a[1] {
	case "write":
		if len(a) < 5 {
			return "bad-op"
		}
		ns, ok1 := lib.Atou(a[2])
		snap, ok2 := lib.Atou(a[3])
		lt, ok3 := lib.Atou(a[4])
		if !ok1 || !ok2 || !ok3 || ns > 1 || snap >= 1<<32 || lt >= 1<<16 {
			return "bad-op"
		}
		ps, ok := parsePkts(a[5:])
		if !ok {
			return "bad-op"
		}
		return doWrite(ns == 1, uint32(snap), uint16(lt), ps)
	case "file":
		if len(a) != 3 {
			return "bad-op"
		}
		b, ok := lib.UnHex(a[2])
		if !ok {
			return "bad-op"
		}
		curFile = b
		return "ok"
	case "read":
		if len(a) < 5 || (len(a)-5)%3 != 0 || !parsePat(a[2]) {
			return "bad-op"
		}
		cut, ok := lib.Atou(a[3])
		if !ok || (a[4] != "eof" && a[4] != "fail") {
			return "bad-op"
		}
		var snaps [][2]uint64
		for i := 5; i < len(a); i += 3 {
			x, ok1 := lib.Atou(a[i+1])
			y, ok2 := lib.Atou(a[i+2])
			if a[i] != "snap" || !ok1 || !ok2 || y >= 1<<32 {
				return "bad-op"
			}
			snaps = append(snaps, [2]uint64{x, y})
		}
		data := curFile
		full := true
		if cut < uint64(len(data)) {
			data, full = data[:cut], false
		}
		return doRead(a[2], data, a[4] == "fail", snaps, full && len(snaps) == 0)
	case "readhex":
		if len(a) != 4 || !parsePat(a[2]) {
			return "bad-op"
		}
		b, ok := lib.UnHex(a[3])
		if !ok {
			return "bad-op"
		}
		curFile = b
		return doRead(a[2], b, false, nil, true)
	case "readgz":
		if len(a) != 3 || !parsePat(a[2]) {
			return "bad-op"
		}
		gz := gzipBytes(curFile)
		c := readCfg{stream: gz, plain: curFile, pat: a[2], monitor: true}
		res := runRead(c)
		// chunked delivery of the compressed stream must not matter either
		cc := c
		cc.monitor = false
		mx := strm.NewMix(gz, 3)
		cc.chunk = func() int { return 1 + mx.Intn(11) }
		if got := runRead(cc).String(); got != res.String() {
			lib.Finding("C15", "pcap:chunking:gzip", "chunked gzip stream changes the result: "+clip(got)+" vs "+clip(res.String()))
		}
		gzipMonitors(curFile, gz, a[2])
		lib.Stat("read:gzip")
		return res.String()
	}
	return "bad-op"
}

func main() {
	lib.Main(lib.Engine{Name: "pcap", Gen: gen, Reset: reset, Exec: exec})
}
