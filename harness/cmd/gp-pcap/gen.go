package main

import (
	"encoding/binary"
	"fmt"
	"strings"

	"verif/harness/lib"
)

// ---------------------------------------------------------------- generator

type gpkt struct {
	sec, nsec, caplen, length int64
	data                      []byte
}

func (p gpkt) accepted() bool { return p.caplen == int64(len(p.data)) && p.caplen <= p.length }

func writeLine(ns int, snap uint32, lt int, ps []gpkt) string {
	var sb strings.Builder
	fmt.Fprintf(&sb, "pcap write %d %d %d", ns, snap, lt)
	for _, p := range ps {
		fmt.Fprintf(&sb, " %d %d %d %d %s", p.sec, p.nsec, p.caplen, p.length, lib.Hex(p.data))
	}
	return sb.String()
}

func fileLen(ps []gpkt) int {
	n := 24
	for _, p := range ps {
		if p.accepted() {
			n += 16 + len(p.data)
		}
	}
	return n
}

var secChoices = []int64{0, 1, 1500000000, 1<<31 - 1, 1 << 31, 1<<32 - 1}
var nsecChoices = []int64{0, 1, 999, 1000, 1001, 999999, 1000000, 999999000, 999999999}

func randPkt(r *lib.Rand, maxData int) gpkt {
	n := r.Intn(maxData + 1)
	if r.Chance(15) {
		n = 0
	}
	p := gpkt{data: r.Bytes(n), caplen: int64(n), length: int64(n)}
	if r.Chance(40) {
		p.length += int64(r.Pick([]int{1, 2, 100, 65535, 1 << 20}))
	}
	if r.Chance(4) {
		p.length = 1<<32 - 1
	}
	if r.Chance(60) {
		p.sec = secChoices[r.Intn(len(secChoices))]
	} else {
		p.sec = int64(r.U64() % (1 << 32))
	}
	if r.Chance(60) {
		p.nsec = nsecChoices[r.Intn(len(nsecChoices))]
	} else {
		p.nsec = int64(r.U64() % 1000000000)
	}
	return p
}

// malformPkt makes a packet outside the property's quantifier (writer error or
// unrepresentable value).
func malformPkt(r *lib.Rand, p gpkt) gpkt {
	switch r.Intn(7) {
	case 0:
		p.caplen++ // caplen != len(data)
	case 1:
		if p.caplen > 0 {
			p.caplen--
		} else {
			p.caplen = 5
		}
	case 2:
		p.length = p.caplen - 1 // caplen > length (also negative length)
	case 3:
		p.sec = -1 - int64(r.Intn(1000))
	case 4:
		p.sec = 1<<32 + int64(r.Intn(1000))
	case 5:
		p.length = 1<<32 + int64(r.Intn(70000))
	case 6:
		p.caplen, p.length = -1, -1
	}
	return p
}

var patterns = []string{"c", "z", "zc", "cz", "zzc"}

func emitValidCase(r *lib.Rand, emit func(string), ns int, snap uint32, lt int, ps []gpkt, allCuts bool, extra bool) {
	emit("reset")
	emit(writeLine(ns, snap, lt, ps))
	n := fileLen(ps)
	if allCuts {
		for k := 0; k <= n; k++ {
			term := "eof"
			if r.Chance(20) {
				term = "fail"
			}
			emit(fmt.Sprintf("pcap read %s %d %s", patterns[r.Intn(3)], k, term))
		}
	} else {
		off := 24
		var cuts []int
		for _, p := range ps {
			if p.accepted() {
				cuts = append(cuts, off, off+1, off+15, off+16, off+17, off+16+len(p.data)-1)
				off += 16 + len(p.data)
			}
		}
		cuts = append(cuts, 0, 1, 2, 23, n-1)
		for i := 0; i < 6; i++ {
			cuts = append(cuts, r.Intn(n+1))
		}
		for _, k := range cuts {
			if k < 0 || k > n {
				continue
			}
			term := "eof"
			if r.Chance(20) {
				term = "fail"
			}
			emit(fmt.Sprintf("pcap read %s %d %s", patterns[r.Intn(len(patterns))], k, term))
		}
	}
	emit(fmt.Sprintf("pcap read c %d eof", n))
	emit(fmt.Sprintf("pcap read z %d eof", n))
	if extra {
		emit(fmt.Sprintf("pcap read %s %d eof", patterns[2+r.Intn(3)], n))
		emit("pcap readgz " + patterns[r.Intn(3)])
		// SetSnaplen: shrink below the largest packet, enlarge again
		emit(fmt.Sprintf("pcap read %s %d eof snap 0 %d", patterns[r.Intn(3)], n, r.Pick([]int{0, 1, 3, 8, 40})))
		emit(fmt.Sprintf("pcap read %s %d eof snap 1 %d snap 2 %d", patterns[r.Intn(3)], n, r.Pick([]int{0, 2, 5}), 65535))
	}
}

// ---- hand encoder (all four dialects), for the mutation and hostile streams

type rec struct {
	sec, frac, caplen, length uint32
	data                      []byte
}

type layout struct {
	be                      bool
	magic                   uint32
	vmaj, vmin              uint16
	tz, sig, snaplen, ltype uint32
	recs                    []rec
}

func (l layout) order() binary.ByteOrder {
	if l.be {
		return binary.BigEndian
	}
	return binary.LittleEndian
}

func (l layout) encode() []byte {
	o := l.order()
	b := make([]byte, 24)
	binary.LittleEndian.PutUint32(b[0:], l.magic) // the magic is always compared little-endian
	o.PutUint16(b[4:], l.vmaj)
	o.PutUint16(b[6:], l.vmin)
	o.PutUint32(b[8:], l.tz)
	o.PutUint32(b[12:], l.sig)
	o.PutUint32(b[16:], l.snaplen)
	o.PutUint32(b[20:], l.ltype)
	for _, r := range l.recs {
		h := make([]byte, 16)
		o.PutUint32(h[0:], r.sec)
		o.PutUint32(h[4:], r.frac)
		o.PutUint32(h[8:], r.caplen)
		o.PutUint32(h[12:], r.length)
		b = append(b, h...)
		b = append(b, r.data...)
	}
	return b
}

// the four magics as the reader sees them (little-endian load of the first four bytes)
var magics = []struct {
	v  uint32
	be bool
	ns bool
}{
	{0xA1B2C3D4, false, false}, {0xA1B23C4D, false, true}, {0xD4C3B2A1, true, false}, {0x4D3CB2A1, true, true},
}

func randLayout(r *lib.Rand, nrec, maxData int) layout {
	m := magics[r.Intn(4)]
	l := layout{be: m.be, magic: m.v, vmaj: 2, vmin: 4, snaplen: uint32(r.Pick([]int{65535, 262144, 64, 1 << 20})), ltype: uint32(r.Pick([]int{1, 0, 101, 113, 228}))}
	for i := 0; i < nrec; i++ {
		n := r.Intn(maxData + 1)
		rc := rec{sec: uint32(r.U64()), frac: uint32(r.Intn(1000000)), caplen: uint32(n), length: uint32(n + r.Pick([]int{0, 0, 1, 60})), data: r.Bytes(n)}
		if m.ns {
			rc.frac = uint32(r.Intn(1000000000))
		}
		l.recs = append(l.recs, rc)
	}
	return l
}

func boundary(r *lib.Rand, around uint32) []uint32 {
	return []uint32{0, 1, around - 1, around, around + 1, 1<<31 - 1, 1 << 31, 1<<31 + 1, 1<<32 - 1, 1 << 16, 1<<16 - 1, 4294968, 4294967, uint32(r.U64())}
}

func emitHex(emit func(string), r *lib.Rand, b []byte) {
	emit("reset")
	emit(fmt.Sprintf("pcap readhex %s %s", patterns[r.Intn(len(patterns))], lib.Hex(b)))
}

// mutations: every header field and every record field of a valid file → boundary values
func emitMutations(r *lib.Rand, emit func(string), l layout, sampleOnly bool) {
	base := l.encode()
	total := uint32(len(base))
	emitHex(emit, r, base)
	try := func(mod func(l *layout, v uint32), around uint32) {
		vals := boundary(r, around)
		if sampleOnly {
			vals = []uint32{vals[r.Intn(len(vals))], vals[r.Intn(len(vals))]}
		}
		for _, v := range vals {
			m := l
			m.recs = append([]rec(nil), l.recs...)
			mod(&m, v)
			emitHex(emit, r, m.encode())
		}
	}
	try(func(m *layout, v uint32) { m.magic = v }, l.magic)
	try(func(m *layout, v uint32) { m.vmaj = uint16(v) }, 2)
	try(func(m *layout, v uint32) { m.vmin = uint16(v) }, 4)
	try(func(m *layout, v uint32) { m.tz = v }, total)
	try(func(m *layout, v uint32) { m.sig = v }, total)
	try(func(m *layout, v uint32) { m.snaplen = v }, maxCap(l))
	try(func(m *layout, v uint32) { m.ltype = v }, 1<<16)
	for i := range l.recs {
		i := i
		rc := l.recs[i]
		try(func(m *layout, v uint32) { m.recs[i].sec = v }, total)
		try(func(m *layout, v uint32) { m.recs[i].frac = v }, 1000000)
		try(func(m *layout, v uint32) { m.recs[i].caplen = v }, rc.caplen)
		try(func(m *layout, v uint32) { m.recs[i].length = v }, rc.caplen)
		try(func(m *layout, v uint32) { m.recs[i].caplen = v }, l.snaplen)
		// caplen and length together
		try(func(m *layout, v uint32) { m.recs[i].caplen, m.recs[i].length = v, v }, rc.caplen)
	}
	// the other magics / byte orders on the same body
	for _, mg := range magics {
		m := l
		m.magic = mg.v
		emitHex(emit, r, m.encode())
		m.be = mg.be
		emitHex(emit, r, m.encode())
	}
}

func maxCap(l layout) uint32 {
	var m uint32
	for _, r := range l.recs {
		if r.caplen > m {
			m = r.caplen
		}
	}
	return m
}

func gen(r *lib.Rand, tier string, emit func(string)) {
	thorough := tier == "thorough"
	// 1. exhaustive small scope: ≤ 2 packets with data lengths 0..2, both resolutions, every cut
	lens := []int{0, 1, 2}
	for ns := 0; ns <= 1; ns++ {
		emitValidCase(r, emit, ns, 65535, 1, nil, true, true)
		for _, a := range lens {
			pa := gpkt{sec: 1, nsec: 123456789, caplen: int64(a), length: int64(a + 1), data: r.Bytes(a)}
			emitValidCase(r, emit, ns, 65535, 1, []gpkt{pa}, true, false)
			for _, b := range lens {
				pb := gpkt{sec: 1<<32 - 1, nsec: 999999999, caplen: int64(b), length: int64(b), data: r.Bytes(b)}
				emitValidCase(r, emit, ns, uint32(2), 1, []gpkt{pa, pb}, true, a == b)
			}
		}
	}
	// 2. valid files from random packet sequences
	nValid, nBig := 250, 12
	if thorough {
		nValid, nBig = 4000, 150
	}
	for c := 0; c < nValid; c++ {
		np := r.Intn(5)
		maxData := r.Pick([]int{3, 8, 20, 40})
		var ps []gpkt
		big := 0
		for i := 0; i < np; i++ {
			p := randPkt(r, maxData)
			if r.Chance(8) {
				p = malformPkt(r, p)
			}
			if len(p.data) > big && p.accepted() {
				big = len(p.data)
			}
			ps = append(ps, p)
		}
		snap := uint32(r.Pick([]int{65535, 262144, 1 << 20, big, big, 1<<32 - 1, 1 << 31}))
		if r.Chance(6) && big > 0 {
			snap = uint32(big - 1) // a packet above the declared snap length (outside wf)
		}
		lt := r.Pick([]int{1, 1, 0, 101, 113, 127, 255, 256, 65535})
		emitValidCase(r, emit, r.Intn(2), snap, lt, ps, fileLen(ps) <= 150 || (thorough && fileLen(ps) <= 400), r.Chance(50))
	}
	// larger files: data crossing the 4096-byte bufio buffer, many packets; sampled cuts
	for c := 0; c < nBig; c++ {
		np := 1 + r.Intn(6)
		var ps []gpkt
		for i := 0; i < np; i++ {
			ps = append(ps, randPkt(r, r.Pick([]int{100, 1500, 4080, 4096, 5000, 9000})))
		}
		emitValidCase(r, emit, r.Intn(2), uint32(r.Pick([]int{65535, 262144, 9000})), 1, ps, false, true)
	}
	// 3. mutations of valid files (all four dialects)
	nMut, nMutSample := 10, 60
	if thorough {
		nMut, nMutSample = 120, 1500
	}
	for c := 0; c < nMut; c++ {
		emitMutations(r, emit, randLayout(r, 1+r.Intn(3), r.Pick([]int{0, 4, 9, 33})), false)
	}
	for c := 0; c < nMutSample; c++ {
		emitMutations(r, emit, randLayout(r, r.Intn(5), r.Pick([]int{0, 4, 9, 33, 200})), true)
	}
	// legitimate large buffers (snaplen 64 MiB with zero-copy reads), and requests that are
	// skipped by the protective cap
	for _, snap := range []uint32{1 << 26, 1<<28 + 1, 1<<32 - 1} {
		l := randLayout(r, 2, 8)
		l.snaplen = snap
		emit("reset")
		emit("pcap readhex z " + lib.Hex(l.encode()))
		emit("pcap read c 100000 eof")
		l.recs[0].caplen, l.recs[0].length = snap, snap
		emit("pcap readhex c " + lib.Hex(l.encode()))
		emit("pcap read z 100000 eof")
	}
	// 4. garbage
	nGarb := 400
	if thorough {
		nGarb = 20000
	}
	for c := 0; c < nGarb; c++ {
		var b []byte
		switch r.Intn(4) {
		case 0:
			b = r.Bytes(r.Intn(90))
		case 1: // valid header, garbage records
			l := randLayout(r, 0, 0)
			l.snaplen = uint32(r.Pick([]int{0, 16, 65535, 1 << 24}))
			b = append(l.encode(), r.Bytes(r.Intn(120))...)
		case 2: // valid magic, garbage rest
			b = r.Bytes(4 + r.Intn(60))
			binary.LittleEndian.PutUint32(b, magics[r.Intn(4)].v)
		case 3: // gzip magic and whatever
			b = append([]byte{0x1f, 0x8b}, r.Bytes(r.Intn(40))...)
		}
		emitHex(emit, r, b)
		if r.Chance(30) {
			emit(fmt.Sprintf("pcap read %s %d fail", patterns[r.Intn(3)], r.Intn(len(b)+1)))
		}
	}
	// bad ops (both sides must agree on rejecting them)
	emit("reset")
	for _, l := range []string{"pcap", "pcap read", "pcap read x 0 eof", "pcap read z 0 maybe", "pcap write 2 0 0", "pcap write 0 4294967296 1",
		"pcap write 0 1 65536", "pcap write 0 1 1 0 0 0 0", "pcap write 0 1 1 0 1000000000 0 0 -", "pcap file zz", "pcap readhex c 0", "pcap readgz q",
		"pcap read z 0 eof snap 1", "pcap write 0 1 1 0 -1 0 0 -", "pcap nothing"} {
		emit(l)
	}
}
