//go:build !cgo

package main

import "verif/harness/lib"

func libpcapMonitor(ns bool, snaplen uint32, lt uint16, exp []out, file []byte) {
	lib.Stat("libpcap:unavailable")
}
