// Package strm: io.Reader wrappers and measurement helpers shared by the pcap and snoop
// adapters (C14/C15): scripted streams (cut, chunking, injected error), allocation meter,
// watchdog.
package strm

import (
	"errors"
	"fmt"
	"io"
	"runtime"
	"runtime/debug"
	"runtime/metrics"
	"strings"
	"time"
)

// ErrInjected is the I/O error delivered by a failing stream.
var ErrInjected = errors.New("verif: injected I/O error")

// Stream delivers data in chunks and then its terminal condition for ever.
type Stream struct {
	Data   []byte
	Pos    int
	Fail   bool       // terminal condition: ErrInjected instead of io.EOF
	Chunk  func() int // size of the next chunk (>=1); nil = everything available
	Reads  int
	Sticky bool // deliver the last bytes together with the terminal condition (n>0, err)
	// Guard, when set, is asked before every Read (position, requested length); answering true
	// makes the stream fail with ErrGuard from then on (protective cap of an adapter).
	Guard   func(pos, want int) bool
	Guarded bool
}

// ErrGuard is delivered by a stream whose Guard refused to continue.
var ErrGuard = errors.New("verif: protective cap")

func (s *Stream) term() error {
	if s.Fail {
		return ErrInjected
	}
	return io.EOF
}

func (s *Stream) Read(p []byte) (int, error) {
	s.Reads++
	if len(p) == 0 {
		return 0, nil
	}
	if s.Guarded || (s.Guard != nil && s.Guard(s.Pos, len(p))) {
		s.Guarded = true
		return 0, ErrGuard
	}
	if s.Pos >= len(s.Data) {
		return 0, s.term()
	}
	n := len(s.Data) - s.Pos
	if n > len(p) {
		n = len(p)
	}
	if s.Chunk != nil {
		if c := s.Chunk(); c >= 1 && c < n {
			n = c
		}
	}
	copy(p, s.Data[s.Pos:s.Pos+n])
	s.Pos += n
	if s.Sticky && s.Pos >= len(s.Data) {
		return n, s.term()
	}
	return n, nil
}

// Classify maps an error to the canonical outcome word.
func Classify(err error) string {
	switch {
	case err == nil:
		return "ok"
	case err == io.EOF:
		return "eof"
	case err == io.ErrUnexpectedEOF:
		return "ueof"
	case errors.Is(err, ErrInjected):
		return "ioerr"
	default:
		return "err"
	}
}

var sample = []metrics.Sample{{Name: "/gc/heap/allocs:bytes"}}

// Allocated returns the cumulative number of heap bytes allocated by the process.
func Allocated() uint64 {
	metrics.Read(sample)
	return sample[0].Value.Uint64()
}

// AllocatedPrecise is the exact cumulative number of heap bytes allocated (stops the world,
// flushes the per-P caches); used to confirm a suspicious delta of Allocated, whose counters
// are flushed lazily (a garbage collection can add megabytes of earlier small allocations).
func AllocatedPrecise() uint64 {
	var m runtime.MemStats
	runtime.ReadMemStats(&m)
	return m.TotalAlloc
}

// WithTimeout runs f in a goroutine; ok=false when it did not finish in time
// (the goroutine is abandoned).
func WithTimeout(d time.Duration, f func() string) (res string, ok bool) {
	ch := make(chan string, 1)
	go func() { ch <- f() }()
	select {
	case r := <-ch:
		return r, true
	case <-time.After(d):
		return "", false
	}
}

// Mix is a small deterministic hash used to derive per-input pseudo-random choices
// (chunk sizes, sampled offsets) from the input itself, so that replays are exact.
type Mix struct{ s uint64 }

func NewMix(data []byte, salt uint64) *Mix {
	h := uint64(1469598103934665603) ^ salt
	for _, b := range data {
		h ^= uint64(b)
		h *= 1099511628211
	}
	return &Mix{h}
}
func (m *Mix) Next() uint64 {
	m.s += 0x9E3779B97F4A7C15
	z := m.s
	z = (z ^ (z >> 30)) * 0xBF58476D1CE4E5B9
	z = (z ^ (z >> 27)) * 0x94D049BB133111EB
	return z ^ (z >> 31)
}
func (m *Mix) Intn(n int) int {
	if n <= 0 {
		return 0
	}
	return int(m.Next() % uint64(n))
}

// Protect runs f; on a panic it returns the canonical reply "panic <kind>", the panic site
// inside the repository's pcapgo package ("pcapgo/file.go:line") and the message.
func Protect(kindOf func(interface{}) string, f func()) (reply string, site string, msg string) {
	defer func() {
		if v := recover(); v != nil {
			reply = "panic " + kindOf(v)
			msg = fmt.Sprint(v)
			site = "?"
			for _, l := range strings.Split(string(debug.Stack()), "\n") {
				l = strings.TrimSpace(l)
				if i := strings.Index(l, "/pcapgo/"); i >= 0 && strings.Contains(l, ".go:") && !strings.Contains(l, "/verif/") {
					site = strings.Fields(l[i+1:])[0]
					break
				}
			}
		}
	}()
	f()
	return "", "", ""
}
