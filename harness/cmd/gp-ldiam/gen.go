package main

import (
	"encoding/binary"
	"fmt"
	"go/ast"
	goparser "go/parser"
	"go/token"
	"os"
	"path/filepath"
	"sort"
	"strconv"
	"strings"

	"github.com/gopacket/gopacket"
	"github.com/gopacket/gopacket/layers"
	"verif/harness/lib"
)

// literals collects every `[]byte{…}` literal (all elements literal) from layers/diameter*_test.go.
func literals() [][]byte {
	repo := os.Getenv("VERIF_REPO")
	if repo == "" {
		repo = "/repo"
	}
	files, _ := filepath.Glob(filepath.Join(repo, "layers", "diameter*_test.go"))
	sort.Strings(files)
	var out [][]byte
	fset := token.NewFileSet()
	for _, fn := range files {
		f, err := goparser.ParseFile(fset, fn, nil, 0)
		if err != nil {
			continue
		}
		ast.Inspect(f, func(n ast.Node) bool {
			cl, ok := n.(*ast.CompositeLit)
			if !ok {
				return true
			}
			at, ok := cl.Type.(*ast.ArrayType)
			if !ok || at.Len != nil {
				return true
			}
			id, ok := at.Elt.(*ast.Ident)
			if !ok || (id.Name != "byte" && id.Name != "uint8") {
				return true
			}
			b := make([]byte, 0, len(cl.Elts))
			for _, e := range cl.Elts {
				bl, ok := e.(*ast.BasicLit)
				if !ok {
					return true
				}
				switch bl.Kind {
				case token.INT:
					v, err := strconv.ParseUint(bl.Value, 0, 8)
					if err != nil {
						return true
					}
					b = append(b, byte(v))
				case token.CHAR:
					s, err := strconv.Unquote(bl.Value)
					if err != nil || len(s) != 1 {
						return true
					}
					b = append(b, s[0])
				default:
					return true
				}
			}
			if len(b) >= 4 && len(b) <= 1600 {
				out = append(out, b)
			}
			return true
		})
	}
	return out
}

// rawAVP builds the bytes of one AVP by hand: announced length `alen` (may lie), data, zero padding to 4.
func rawAVP(code uint32, flags byte, alen int, vendor uint32, withVendor bool, data []byte, pad bool) []byte {
	b := make([]byte, 8)
	binary.BigEndian.PutUint32(b, code)
	b[4] = flags
	b[5], b[6], b[7] = byte(alen>>16), byte(alen>>8), byte(alen)
	if withVendor {
		v := make([]byte, 4)
		binary.BigEndian.PutUint32(v, vendor)
		b = append(b, v...)
	}
	b = append(b, data...)
	for pad && len(b)%4 != 0 {
		b = append(b, 0)
	}
	return b
}

func goodAVP(code uint32, flags byte, vendor uint32, data []byte) []byte {
	wv := flags&0x80 != 0
	h := 8
	if wv {
		h = 12
	}
	return rawAVP(code, flags, h+len(data), vendor, wv, data, true)
}

func message(flags byte, cc uint32, avps []byte, ml int) []byte {
	b := make([]byte, 20)
	b[0] = 1
	if ml < 0 {
		ml = 20 + len(avps)
	}
	b[1], b[2], b[3] = byte(ml>>16), byte(ml>>8), byte(ml)
	b[4] = flags
	b[5], b[6], b[7] = byte(cc>>16), byte(cc>>8), byte(cc)
	binary.BigEndian.PutUint32(b[8:], 0x01000023)
	binary.BigEndian.PutUint32(b[12:], 0xdeadbeef)
	binary.BigEndian.PutUint32(b[16:], 0x00c0ffee)
	return append(b, avps...)
}

func cat(bs ...[]byte) []byte {
	var out []byte
	for _, b := range bs {
		out = append(out, b...)
	}
	return out
}

func hx(b []byte) string { return lib.Hex(b) }

func setByte(b []byte, off int, v int) []byte {
	c := append([]byte(nil), b...)
	if off < len(c) {
		c[off] = byte(v)
	}
	return c
}

func avpTok(code uint32, v, m, p bool, length uint32, vendor uint32, data string) string {
	return fmt.Sprintf("%d:%s%s%s:%d:%d:%s", code, b01(v), b01(m), b01(p), length, vendor, data)
}

func fixturesOf(r *lib.Rand) [][]byte {
	var fx [][]byte
	seen := map[string]bool{}
	add := func(b []byte) {
		if len(b) > 0 && !seen[string(b)] {
			seen[string(b)] = true
			fx = append(fx, b)
		}
	}
	for _, lit := range literals() {
		if len(lit) >= 20 && lit[0] == 1 {
			add(lit)
		}
	}
	// built with the repository's own serializer
	ser := func(d *layers.Diameter) (out []byte) {
		defer func() {
			if recover() != nil {
				out = nil
			}
		}()
		buf := gopacket.NewSerializeBuffer()
		if err := gopacket.SerializeLayers(buf, gopacket.SerializeOptions{FixLengths: true}, d); err != nil {
			return nil
		}
		return append([]byte(nil), buf.Bytes()...)
	}
	add(ser(&layers.Diameter{Version: 1, CommandCode: 257, CommandFlags: layers.DiameterCommandFlags{Request: true}}))
	add(ser(&layers.Diameter{Version: 1, CommandCode: 280, ApplicationID: 7, HopByHopID: 1, EndToEndID: 2, AVPs: []layers.DiameterAVP{
		{Code: 264, Flags: layers.DiameterAVPFlags{Mandatory: true}, Data: []byte("host.example.org")},
		{Code: 296, Flags: layers.DiameterAVPFlags{Mandatory: true}, Data: []byte("realm")},
		{Code: 268, Flags: layers.DiameterAVPFlags{Mandatory: true}, Data: []byte{0, 0, 7, 0xd1}},
		{Code: 1, Flags: layers.DiameterAVPFlags{Vendor: true, Protected: true}, VendorID: 10415, Data: []byte("u")},
	}}))
	// grouped AVPs: standard, vendor, nested three deep, grouped with garbage inside, empty grouped
	inner := cat(goodAVP(266, 0x40, 0, []byte{0, 0, 0x28, 0xaf}), goodAVP(258, 0x40, 0, []byte{1, 0, 0, 0x23}))
	add(message(0x80, 316, goodAVP(260, 0x40, 0, inner), -1))
	add(message(0xc0, 272, cat(goodAVP(263, 0x40, 0, []byte("sess;1;2")), goodAVP(443, 0xc0, 10415, cat(goodAVP(450, 0xc0, 10415, []byte{0, 0, 0, 0}), goodAVP(444, 0xc0, 10415, []byte("4915112345"))))), -1))
	add(message(0x00, 300, goodAVP(279, 0, 0, goodAVP(284, 0x20, 0, goodAVP(297, 0, 0, goodAVP(298, 0, 0, []byte{0, 0, 0x13, 0x89})))), -1))
	add(message(0x20, 301, cat(goodAVP(279, 0x40, 0, []byte{1, 2, 3, 4, 5, 6, 7, 8, 9}), goodAVP(284, 0, 0, nil), goodAVP(629, 0x80, 13019, cat(goodAVP(630, 0x80, 13019, []byte{0, 0, 0, 1}), []byte{0xff, 0xff, 0xff}))), -1))
	// bytes behind MessageLength, a trailing fragment shorter than an AVP header
	add(cat(message(0x10, 258, goodAVP(25, 0, 0, []byte{0xaa}), -1), []byte{9, 9, 9, 9, 9}))
	add(message(0x80, 257, cat(goodAVP(1, 0x40, 0, []byte("abc")), []byte{1, 2, 3, 4}), -1))
	for i := len(fx) - 1; i > 0; i-- {
		j := r.Intn(i + 1)
		fx[i], fx[j] = fx[j], fx[i]
	}
	return fx
}

func gen(r *lib.Rand, tier string, emit func(string)) {
	thorough := tier == "thorough"
	fx := fixturesOf(r)
	lim := func(n, quick int) int {
		if !thorough && n > quick {
			return quick
		}
		return n
	}
	foreign := func(n int) []byte { return r.Bytes(n) }
	decAll := func(b []byte) {
		emit("ldiam dec 0 - " + hx(b))
		n := 1 + r.Intn(40)
		emit(fmt.Sprintf("ldiam dec %d %s %s", n, hx(foreign(n)), hx(b)))
	}

	// A. every fixture through every path
	for i, f := range fx {
		emit("reset")
		decAll(f)
		emit("ldiam redec " + hx(fx[(i+1)%len(fx)]))
		emit("ldiam redec " + hx(f[:len(f)/2]))
		emit("ldiam redec " + hx(f))
		emit("ldiam pb " + hx(f))
		for _, m := range []string{"copy", "nocopy", "lazy"} {
			n := 8 + r.Intn(24)
			emit(fmt.Sprintf("ldiam pkt %s %d %s %s", m, n, hx(foreign(n)), hx(f)))
		}
		emit("ldiam dlp " + hx(f))
		emit("ldiam redlp " + hx(fx[(i+2)%len(fx)]))
		emit("ldiam redlp " + hx(f[:len(f)-1]))
		emit("ldiam rtdec " + hx(f))
	}

	// B. every truncation of every fixture (and the cut-off message with MessageLength corrected)
	for _, f := range fx {
		for n := 0; n <= len(f); n++ {
			if !thorough && n > 64 && n < len(f)-12 && n%7 != 0 {
				continue
			}
			emit("reset")
			emit("ldiam dec 0 - " + hx(f[:n]))
			if n >= 20 {
				g := append([]byte(nil), f[:n]...)
				g[1], g[2], g[3] = byte(n>>16), byte(n>>8), byte(n)
				decAll(g)
				emit("ldiam redec " + hx(f))
				emit("ldiam pkt nocopy 16 " + hx(foreign(16)) + " " + hx(g))
				emit("ldiam dlp " + hx(g))
				if n%3 == 0 {
					emit("ldiam rtdec " + hx(g))
				}
			}
		}
	}

	// C. single-field mutations to boundary values
	bvals := []int{0, 1, 2, 7, 8, 9, 11, 12, 13, 19, 20, 21, 0x7f, 0x80, 0xfe, 0xff}
	for fi := 0; fi < lim(len(fx), 6); fi++ {
		f := fx[fi]
		for off := 0; off < len(f) && off < lim(len(f), 48); off++ {
			for _, v := range bvals {
				emit("reset")
				g := setByte(f, off, v)
				emit("ldiam dec 0 - " + hx(g))
				emit("ldiam redec " + hx(f))
				if v == 8 || v == 0xff {
					emit("ldiam pkt copy 0 - " + hx(g))
					emit("ldiam dlp " + hx(g))
				}
			}
		}
		// MessageLength around the real length
		for _, ml := range []int{0, 19, 20, 21, 27, 28, 29, len(f) - 1, len(f), len(f) + 1, 1<<24 - 1} {
			g := append([]byte(nil), f...)
			g[1], g[2], g[3] = byte(ml>>16), byte(ml>>8), byte(ml)
			emit("reset")
			decAll(g)
			emit("ldiam pb " + hx(g))
			emit("ldiam rtdec " + hx(g))
		}
	}

	// D. AVP lists of every kind, malformed lengths
	datas := [][]byte{nil, {1}, {1, 2}, {1, 2, 3}, {1, 2, 3, 4}, {1, 2, 3, 4, 5}, r.Bytes(16), r.Bytes(17)}
	for _, wv := range []bool{false, true} {
		h := 8
		fl := byte(0x40)
		if wv {
			h = 12
			fl = 0xc0
		}
		for _, code := range []uint32{1, 260, 443} {
			for _, d := range datas {
				real := h + len(d)
				for _, alen := range []int{0, 1, 7, 8, 9, 10, 11, 12, 13, real - 1, real, real + 1, real + 3, real + 4, real + 5, 0xffffff} {
					if alen < 0 {
						continue
					}
					if !thorough && r.Intn(3) != 0 {
						continue
					}
					for _, pad := range []bool{true, false} {
						a := rawAVP(code, fl, alen, 10415, wv, d, pad)
						emit("reset")
						decAll(message(0x80, 257, a, -1))
						decAll(message(0x80, 257, cat(goodAVP(264, 0x40, 0, []byte("h")), a, goodAVP(268, 0, 0, []byte{0, 0, 7, 0xd1})), -1))
						emit("ldiam dec 0 - " + hx(message(0, 1, goodAVP(279, 0, 0, cat(goodAVP(1, 0, 0, []byte("x")), a)), -1)))
						emit("ldiam redec " + hx(fx[0]))
					}
				}
			}
		}
	}

	// E. random AVP streams behind a valid header; random bytes
	for i := 0; i < lim(3000, 400); i++ {
		emit("reset")
		var body []byte
		for k := r.Intn(6); k > 0; k-- {
			code := uint32(r.Pick([]int{1, 25, 260, 263, 264, 279, 284, 297, 443, 600, 610, 629, 1263, int(r.Intn(70000))}))
			fl := byte(r.Pick([]int{0, 0x40, 0x80, 0xc0, 0xe0, 0x20, 0xff}))
			vend := uint32(r.Pick([]int{0, 10415, 13019, 9}))
			var d []byte
			if r.Chance(40) {
				d = goodAVP(uint32(r.Pick([]int{1, 260, 443, 297})), byte(r.Pick([]int{0, 0x80})), vend, r.Bytes(r.Intn(9)))
				if r.Chance(30) {
					d = append(d, goodAVP(5, 0, 0, r.Bytes(r.Intn(5)))...)
				}
			} else {
				d = r.Bytes(r.Intn(20))
			}
			a := goodAVP(code, fl, vend, d)
			if r.Chance(15) && len(a) > 8 {
				a[7] = byte(r.Intn(256))
			}
			if r.Chance(5) {
				a = a[:r.Intn(len(a))]
			}
			body = append(body, a...)
		}
		m := message(byte(r.Intn(256)), uint32(r.Intn(1<<24)), body, -1)
		if r.Chance(10) {
			m = append(m, r.Bytes(r.Intn(9))...)
		}
		decAll(m)
		emit("ldiam redec " + hx(fx[r.Intn(len(fx))]))
		emit("ldiam redec " + hx(m))
		emit("ldiam pkt " + []string{"copy", "nocopy", "lazy"}[r.Intn(3)] + " 4 01020304 " + hx(m))
		emit("ldiam dlp " + hx(m))
		emit("ldiam rtdec " + hx(m))
	}
	for i := 0; i < lim(2000, 300); i++ {
		emit("reset")
		b := r.Bytes(r.Intn(60))
		if len(b) > 4 && r.Chance(70) {
			b[0] = 1
			b[1], b[2] = 0, 0
			b[3] = byte(r.Intn(len(b) + 2))
		}
		decAll(b)
		emit("ldiam pb " + hx(b))
		emit("ldiam dlp " + hx(b))
	}

	// F. serialization: in-range and out-of-range field values × {fix,csum}² × buffer histories
	hists := []string{"fresh", "dirty165", "dirty0", "dirty255", "sized0", "sized16", "sized4096"}
	payloads := []string{"-", "00", "010203", "z1479xab", "z1480xab", "z1500x00", "z1519xff", "z1520x01"}
	if thorough {
		payloads = append(payloads, "z65536x5a", "z70001x00")
	}
	big := []uint32{0, 1, 255, 256, 65535, 65536, 1<<24 - 1, 1 << 24, 1<<24 + 5, 1<<32 - 1}
	randAVPs := func() string {
		n := r.Intn(5)
		if n == 0 {
			return "-"
		}
		var ts []string
		for ; n > 0; n-- {
			v := r.Bool()
			dl := r.Pick([]int{0, 1, 2, 3, 4, 5, 7, 8, 13, 64})
			d := hx(r.Bytes(dl))
			if r.Chance(5) {
				d = "z70000x11"
			}
			ts = append(ts, avpTok(uint32(r.Pick([]int{0, 1, 260, 443, 1 << 20, 1<<32 - 1})), v, r.Bool(), r.Bool(), uint32(big[r.Intn(len(big))]), uint32(r.Pick([]int{0, 9, 10415, 1<<32 - 1})), d))
		}
		return strings.Join(ts, ";")
	}
	nser := lim(2500, 350)
	for i := 0; i < nser; i++ {
		emit("reset")
		fl := fmt.Sprintf("%d%d%d%d", r.Intn(2), r.Intn(2), r.Intn(2), r.Intn(2))
		fields := fmt.Sprintf("%d %d %s %d %d %d %d %s", r.Pick([]int{1, 1, 1, 0, 2, 255}), big[r.Intn(len(big))], fl, big[r.Intn(len(big))],
			big[r.Intn(len(big))], uint32(r.U64()), uint32(r.U64()), randAVPs())
		pl := payloads[r.Intn(len(payloads))]
		for fc := 0; fc < 4; fc++ {
			emit(fmt.Sprintf("ldiam ser %d %d %s %s %s", fc>>1, fc&1, hists[r.Intn(len(hists))], fields, pl))
		}
		emit(fmt.Sprintf("ldiam rt %s %s", fields, pl))
	}

	// G. round trips of well-formed layers
	for i := 0; i < lim(2000, 300); i++ {
		emit("reset")
		var ts []string
		for n := r.Intn(5); n > 0; n-- {
			v := r.Bool()
			h := 8
			vend := uint32(0)
			if v {
				h = 12
				vend = uint32(r.Pick([]int{0, 9, 10415, 13019, 1<<32 - 1}))
			}
			var d []byte
			if r.Chance(30) {
				d = goodAVP(uint32(r.Pick([]int{1, 260})), 0, 0, r.Bytes(r.Intn(6)))
			} else {
				d = r.Bytes(r.Pick([]int{0, 1, 2, 3, 4, 5, 8, 21}))
			}
			ts = append(ts, avpTok(uint32(r.Pick([]int{1, 260, 264, 279, 443, 629, 1<<32 - 1})), v, r.Bool(), r.Bool(), uint32(h+len(d)), vend, hx(d)))
		}
		avps := "-"
		if len(ts) > 0 {
			avps = strings.Join(ts, ";")
		}
		fl := fmt.Sprintf("%d%d%d%d", r.Intn(2), r.Intn(2), r.Intn(2), r.Intn(2))
		fields := fmt.Sprintf("1 %d %s %d %d %d %d %s", big[r.Intn(len(big))], fl, r.Intn(1<<24), uint32(r.U64()), uint32(r.U64()), uint32(r.U64()), avps)
		emit(fmt.Sprintf("ldiam rt %s %s", fields, payloads[r.Intn(len(payloads))]))
		emit(fmt.Sprintf("ldiam ser 1 1 %s %s -", hists[r.Intn(len(hists))], fields))
	}

	// H. the Grouped table of GetDiameterAVPType
	emit("reset")
	vendors := []uint32{0, 10415, 13019, 1}
	maxc := 1400
	if thorough {
		vendors = []uint32{0, 1, 9, 94, 193, 2011, 10415, 12645, 13019, 1<<32 - 1}
		maxc = 4096
	}
	for _, v := range vendors {
		for c := 0; c < maxc; c++ {
			emit(fmt.Sprintf("ldiam grp %d %d", c, v))
		}
		emit(fmt.Sprintf("ldiam grp %d %d", uint32(1<<32-1), v))
	}
}
