// gp-ldiam: correspondence adapter + monitors for engine `ldiam`
// (layers/diameter.go, layers/diameter_avp_decoders.go: Diameter.DecodeFromBytes, decodeDiameterAVP,
// SerializeTo, SerializeDiameterAVP, SerializedAVPLength, NextLayerType, CanDecode, decodeDiameter,
// GetDiameterAVPType as "is Grouped", and the DecodingLayerParser holding a Diameter).
//
// Properties served: C19 (no panics), C05 (no stale state / capacity independence / packet path =
// preallocated path), C06 (round trip), C07 (serializer totality, buffer independence, idempotence).
// Diameter exposes no flow (C17 has no instance here).
package main

import (
	"bytes"
	"errors"
	"fmt"
	"os"
	"runtime/debug"
	"strings"

	"github.com/gopacket/gopacket"
	"github.com/gopacket/gopacket/layers"
	"verif/harness/lib"
)

var (
	cur    *layers.Diameter // object re-used by redec
	pObj   *layers.Diameter // object owned by the parser
	parser *gopacket.DecodingLayerParser
)

func reset() {
	cur = &layers.Diameter{}
	newParser()
}

func newParser() {
	pObj = &layers.Diameter{}
	parser = gopacket.NewDecodingLayerParser(layers.LayerTypeDiameter, pObj)
	parser.IgnorePanic = true // panics propagate to the adapter's monitor
}

type feedback struct{ truncated bool }

func (f *feedback) SetTruncated() { f.truncated = true }

func b01(b bool) string {
	if b {
		return "1"
	}
	return "0"
}

func renderAVP(sb *strings.Builder, a *layers.DiameterAVP) {
	fmt.Fprintf(sb, "{%d,%s%s%s,%d,%d,%s,", a.Code, b01(a.Flags.Vendor), b01(a.Flags.Mandatory), b01(a.Flags.Protected),
		a.Length, a.VendorID, lib.Hex(a.Data))
	if a.GroupedAVPs == nil {
		sb.WriteString("n")
	} else {
		sb.WriteString("[")
		for i := range a.GroupedAVPs {
			renderAVP(sb, &a.GroupedAVPs[i])
			sb.WriteString(";")
		}
		sb.WriteString("]")
	}
	sb.WriteString("}")
}

func renderAVPs(as []layers.DiameterAVP) string {
	var sb strings.Builder
	for i := range as {
		renderAVP(&sb, &as[i])
		sb.WriteString(";")
	}
	return sb.String()
}

func render(d *layers.Diameter) string {
	f := d.CommandFlags
	return fmt.Sprintf("ver=%d ml=%d fl=%s%s%s%s cc=%d app=%d hbh=%d e2e=%d avps=[%s] contents=%s payload=%s next=%d",
		d.Version, d.MessageLength, b01(f.Request), b01(f.Proxiable), b01(f.Error), b01(f.Retransmitted), d.CommandCode,
		d.ApplicationID, d.HopByHopID, d.EndToEndID, renderAVPs(d.AVPs), lib.Hex(d.LayerContents()), lib.Hex(d.LayerPayload()),
		int(d.NextLayerType()))
}

// differingField names the first public field in which two layers differ ("" = equal).
func differingField(a, b *layers.Diameter, withBase bool) string {
	switch {
	case a.Version != b.Version:
		return "Version"
	case a.MessageLength != b.MessageLength:
		return "MessageLength"
	case a.CommandFlags != b.CommandFlags:
		return "CommandFlags"
	case a.CommandCode != b.CommandCode:
		return "CommandCode"
	case a.ApplicationID != b.ApplicationID:
		return "ApplicationID"
	case a.HopByHopID != b.HopByHopID:
		return "HopByHopID"
	case a.EndToEndID != b.EndToEndID:
		return "EndToEndID"
	case renderAVPs(a.AVPs) != renderAVPs(b.AVPs):
		return "AVPs"
	}
	if withBase {
		if !bytes.Equal(a.Contents, b.Contents) {
			return "Contents"
		}
		if !bytes.Equal(a.BaseLayer.Payload, b.BaseLayer.Payload) {
			return "Payload"
		}
	}
	return ""
}

func inBuf(data, foreign []byte) []byte {
	back := make([]byte, len(data)+len(foreign))
	copy(back, data)
	copy(back[len(data):], foreign)
	return back[:len(data)]
}

func exact(data []byte) []byte { // cap == len
	c := make([]byte, len(data))
	copy(c, data)
	return c[:len(data):len(data)]
}

var lastSite, lastMsg string

func protect(f func() string) (reply string, panicked bool) {
	defer func() {
		if v := recover(); v != nil {
			lastMsg = fmt.Sprint(v)
			lastSite = siteOf(string(debug.Stack()))
			reply = "panic " + lib.PanicKind(v)
			panicked = true
		}
	}()
	return f(), false
}

func siteOf(stack string) string {
	root := os.Getenv("VERIF_REPO")
	if root == "" {
		root = "/repo"
	}
	root = strings.TrimRight(root, "/") + "/"
	for _, l := range strings.Split(stack, "\n") {
		l = strings.TrimSpace(l)
		if !strings.Contains(l, ".go:") {
			continue
		}
		f := strings.Fields(l)[0]
		if strings.HasPrefix(f, root) {
			return f[len(root):]
		}
		if j := strings.LastIndex(f, "gopacket/"); j >= 0 && !strings.Contains(f, "/verif/") {
			return f[j+len("gopacket/"):]
		}
	}
	return "?"
}

func guarded(what string, f func() string) string {
	reply, panicked := protect(f)
	if panicked {
		lib.Finding("C19", "ldiam:panic:"+lastSite, what+" panicked: "+lastMsg)
		lib.Stat("panic")
	}
	return reply
}

// ---------------------------------------------------------------- decode ops

func decInto(obj *layers.Diameter, data []byte) (string, error, bool) {
	fb := &feedback{}
	err := obj.DecodeFromBytes(data, fb)
	if err != nil {
		return "err trunc=" + b01(fb.truncated) + " | " + render(obj), err, fb.truncated
	}
	return "ok " + render(obj) + " trunc=" + b01(fb.truncated), nil, fb.truncated
}

func depth(as []layers.DiameterAVP) int {
	d := 0
	for i := range as {
		if as[i].GroupedAVPs != nil {
			if k := 1 + depth(as[i].GroupedAVPs); k > d {
				d = k
			}
		}
	}
	return d
}

func statDec(obj *layers.Diameter, err error, tr bool) {
	if err != nil {
		lib.Stat("dec:err")
		return
	}
	lib.Nontrivial()
	n := len(obj.AVPs)
	if n > 3 {
		n = 3
	}
	lib.Stat(fmt.Sprintf("dec:ok:avps=%d+:trunc=%s", n, b01(tr)))
	lib.Stat(fmt.Sprintf("dec:ok:group-depth=%d", depth(obj.AVPs)))
	for i := range obj.AVPs {
		if obj.AVPs[i].Flags.Vendor {
			lib.Stat("dec:avp:vendor")
		}
		if obj.AVPs[i].Length%4 != 0 {
			lib.Stat("dec:avp:padded")
		}
	}
	if int(obj.MessageLength) < len(obj.Contents)+0 || len(obj.Contents) != int(obj.MessageLength) {
		lib.Stat("dec:ok:contents-ne-ml")
	}
}

func opDec(extra int, foreign, data []byte) string {
	if len(foreign) != extra {
		return "bad-op"
	}
	return guarded("Diameter.DecodeFromBytes", func() string {
		obj := &layers.Diameter{}
		cur = obj
		reply, err, tr := decInto(obj, inBuf(data, foreign))
		statDec(obj, err, tr)
		if got := obj.CanDecode(); got != gopacket.LayerClass(layers.LayerTypeDiameter) {
			lib.Finding("C05", "ldiam:candecode", "CanDecode is not the layer's own type")
		}
		ref := &layers.Diameter{}
		refReply, _, _ := decInto(ref, exact(data))
		if reply != refReply {
			lib.Finding("C05", "ldiam:cap-dependent", "decode depends on spare capacity / foreign bytes: "+reply+" vs "+refReply)
		}
		if extra > 0 {
			lib.Stat("dec:spare-cap")
		}
		return reply
	})
}

func opRedec(data []byte) string {
	return guarded("Diameter.DecodeFromBytes", func() string {
		obj := cur
		reply, err, tr := decInto(obj, exact(data))
		statDec(obj, err, tr)
		lib.Stat("redec")
		fresh := &layers.Diameter{}
		fb := &feedback{}
		ferr := fresh.DecodeFromBytes(exact(data), fb)
		if (ferr != nil) != (err != nil) {
			lib.Finding("C05", "ldiam:stale:error", "reused object and fresh object disagree on the error")
		} else {
			if err == nil {
				if f := differingField(obj, fresh, true); f != "" {
					lib.Finding("C05", "ldiam:stale:"+f, "Diameter."+f+" differs between a reused and a fresh object")
				}
			}
			if fb.truncated != tr {
				lib.Finding("C05", "ldiam:stale:Truncated", "truncation flag differs between a reused and a fresh object")
			}
		}
		return reply
	})
}

// ---------------------------------------------------------------- serialize ops

func mkBuffer(hist string) (gopacket.SerializeBuffer, bool) {
	switch {
	case hist == "fresh":
		return gopacket.NewSerializeBuffer(), true
	case strings.HasPrefix(hist, "dirty"):
		v, ok := lib.Atoi(hist[5:])
		if !ok || v < 0 || v > 255 {
			return nil, false
		}
		b := gopacket.NewSerializeBuffer()
		s, _ := b.AppendBytes(64)
		for i := range s {
			s[i] = byte(v)
		}
		s, _ = b.PrependBytes(64)
		for i := range s {
			s[i] = byte(v)
		}
		b.Clear()
		return b, true
	case strings.HasPrefix(hist, "sized"):
		n, ok := lib.Atoi(hist[5:])
		if !ok || n < 0 || n >= 100000 {
			return nil, false
		}
		return gopacket.NewSerializeBufferExpectedSize(n, n), true
	}
	return nil, false
}

func parsePayload(s string) ([]byte, bool) {
	if strings.HasPrefix(s, "z") {
		parts := strings.Split(s[1:], "x")
		if len(parts) != 2 {
			return nil, false
		}
		n, ok := lib.Atoi(parts[0])
		v, ok2 := lib.UnHex(parts[1])
		if !ok || !ok2 || len(v) != 1 || n < 0 || n > 200000 {
			return nil, false
		}
		return bytes.Repeat(v, n), true
	}
	return lib.UnHex(s)
}

func parseBool(s string) (bool, bool) {
	switch s {
	case "1":
		return true, true
	case "0":
		return false, true
	}
	return false, false
}

func u32(s string) (uint32, bool) {
	n, ok := lib.Atou(s)
	if !ok || n >= 1<<32 {
		return 0, false
	}
	return uint32(n), true
}

func parseAVP(s string) (layers.DiameterAVP, bool) {
	var a layers.DiameterAVP
	p := strings.Split(s, ":")
	if len(p) != 5 || len(p[1]) != 3 {
		return a, false
	}
	var ok [7]bool
	a.Code, ok[0] = u32(p[0])
	a.Flags.Vendor, ok[1] = parseBool(p[1][0:1])
	a.Flags.Mandatory, ok[2] = parseBool(p[1][1:2])
	a.Flags.Protected, ok[3] = parseBool(p[1][2:3])
	a.Length, ok[4] = u32(p[2])
	a.VendorID, ok[5] = u32(p[3])
	a.Data, ok[6] = parsePayload(p[4])
	for _, o := range ok {
		if !o {
			return a, false
		}
	}
	if a.Data == nil {
		a.Data = []byte{}
	}
	return a, true
}

// parseLayer: <ver> <ml> <fl4> <cc> <app> <hbh> <e2e> <avps>; returns a maker of NEW equal objects.
func parseLayer(a []string) (func() *layers.Diameter, bool) {
	if len(a) != 8 || len(a[2]) != 4 {
		return nil, false
	}
	var d layers.Diameter
	v, ok := lib.Atou(a[0])
	if !ok || v > 255 {
		return nil, false
	}
	d.Version = uint8(v)
	var oks [9]bool
	d.MessageLength, oks[0] = u32(a[1])
	d.CommandFlags.Request, oks[1] = parseBool(a[2][0:1])
	d.CommandFlags.Proxiable, oks[2] = parseBool(a[2][1:2])
	d.CommandFlags.Error, oks[3] = parseBool(a[2][2:3])
	d.CommandFlags.Retransmitted, oks[4] = parseBool(a[2][3:4])
	d.CommandCode, oks[5] = u32(a[3])
	d.ApplicationID, oks[6] = u32(a[4])
	d.HopByHopID, oks[7] = u32(a[5])
	d.EndToEndID, oks[8] = u32(a[6])
	for _, o := range oks {
		if !o {
			return nil, false
		}
	}
	var avps []layers.DiameterAVP
	if a[7] != "-" {
		for _, s := range strings.Split(a[7], ";") {
			x, ok := parseAVP(s)
			if !ok {
				return nil, false
			}
			avps = append(avps, x)
		}
	}
	return func() *layers.Diameter {
		c := d
		c.AVPs = make([]layers.DiameterAVP, len(avps))
		for i := range avps {
			c.AVPs[i] = avps[i]
			c.AVPs[i].Data = append([]byte{}, avps[i].Data...)
		}
		return &c
	}, true
}

func putPayload(b gopacket.SerializeBuffer, p []byte) {
	gopacket.Payload(p).SerializeTo(b, gopacket.SerializeOptions{})
}

func serOnce(l *layers.Diameter, b gopacket.SerializeBuffer, p []byte, opts gopacket.SerializeOptions) (out []byte, failed bool, panicked bool) {
	reply, pk := protect(func() string {
		putPayload(b, p)
		if err := l.SerializeTo(b, opts); err != nil {
			return "err"
		}
		return "ok"
	})
	if pk {
		lib.Finding("C07", "ldiam:ser-panic:"+lastSite, "SerializeTo panicked: "+lastMsg)
		return nil, false, true
	}
	if reply == "err" {
		return nil, true, false
	}
	return append([]byte(nil), b.Bytes()...), false, false
}

func serMonitors(mk func() *layers.Diameter, p []byte, opts gopacket.SerializeOptions, got []byte, gotErr bool) {
	for _, h := range []string{"fresh", "dirty165", "dirty90", "sized7", "sized2000"} {
		b, _ := mkBuffer(h)
		out, failed, pk := serOnce(mk(), b, p, opts)
		if pk {
			return
		}
		if failed != gotErr || (!failed && !bytes.Equal(out, got)) {
			lib.Finding("C07", "ldiam:dirty-buffer", "output differs between buffer histories ("+h+")")
			return
		}
	}
	l := mk()
	o1, f1, pk := serOnce(l, gopacket.NewSerializeBuffer(), p, opts)
	if pk {
		return
	}
	o2, f2, pk := serOnce(l, gopacket.NewSerializeBuffer(), p, opts)
	if pk {
		return
	}
	if f1 != f2 || !bytes.Equal(o1, o2) {
		lib.Finding("C07", "ldiam:not-idempotent", "serialising the same layer twice differs")
	}
}

func opSer(a []string) string {
	// <fix> <csum> <hist> <8 layer fields> <payload>
	if len(a) != 12 {
		return "bad-op"
	}
	fix, ok1 := parseBool(a[0])
	csum, ok2 := parseBool(a[1])
	b, ok3 := mkBuffer(a[2])
	mk, ok4 := parseLayer(a[3:11])
	p, ok5 := parsePayload(a[11])
	if !(ok1 && ok2 && ok3 && ok4 && ok5) {
		return "bad-op"
	}
	opts := gopacket.SerializeOptions{FixLengths: fix, ComputeChecksums: csum}
	l := mk()
	out, failed, pk := serOnce(l, b, p, opts)
	if pk {
		return "panic " + lib.PanicKind(lastMsg)
	}
	lib.Stat(fmt.Sprintf("ser:fix=%s:avps=%d", b01(fix), min(len(l.AVPs), 3)))
	if len(p) > 65535 {
		lib.Stat("ser:payload>65535")
	}
	lib.Nontrivial()
	serMonitors(mk, p, opts, out, failed)
	if failed {
		return fmt.Sprintf("err ml=%d", l.MessageLength)
	}
	return fmt.Sprintf("ok bytes=%s ml=%d", lib.Hex(out), l.MessageLength)
}

// ---------------------------------------------------------------- round trip

var rtOpts = gopacket.SerializeOptions{FixLengths: true, ComputeChecksums: true}

// wf: the explicit well-formedness predicate of the C06 theorem (Gp.Diam.wfDiam), restated in Go.
func wf(d *layers.Diameter) bool {
	total := 20
	for i := range d.AVPs {
		a := &d.AVPs[i]
		h := 8
		if a.Flags.Vendor {
			h = 12
		} else if a.VendorID != 0 {
			return false
		}
		if int(a.Length) != h+len(a.Data) || a.Length >= 1<<24 {
			return false
		}
		total += layers.SerializedAVPLength(a)
	}
	return d.Version == 1 && total < 1<<24 && d.CommandCode < 1<<24
}

func rt(mk func() *layers.Diameter, p []byte, decoded bool) string {
	l := mk()
	isWf := wf(l)
	buf := gopacket.NewSerializeBuffer()
	if err := gopacket.SerializeLayers(buf, rtOpts, l, gopacket.Payload(p)); err != nil {
		lib.Stat("rt:ser-err")
		if isWf {
			lib.Finding("C06", "ldiam:roundtrip:ser-error", "serialising a well-formed layer fails")
		}
		return "ser-err"
	}
	out := append([]byte(nil), buf.Bytes()...)
	d := &layers.Diameter{}
	dreply, derr, dtr := decInto(d, exact(out))
	again := "none"
	if derr == nil {
		buf2 := gopacket.NewSerializeBuffer()
		if err := gopacket.SerializeLayers(buf2, rtOpts, d, gopacket.Payload(p)); err != nil {
			again = "err"
		} else if bytes.Equal(buf2.Bytes(), out) {
			again = "same"
		} else {
			again = "diff"
		}
	}
	if isWf {
		lib.Stat("rt:wf")
		lib.Nontrivial()
		want := mk()
		total := 20
		for i := range want.AVPs {
			total += layers.SerializedAVPLength(&want.AVPs[i])
		}
		want.MessageLength = uint32(total)
		// GroupedAVPs is derived from Data by the decoder and ignored by the serializer: compare the rest
		strip := func(x *layers.Diameter) *layers.Diameter {
			c := *x
			c.AVPs = append([]layers.DiameterAVP(nil), x.AVPs...)
			for i := range c.AVPs {
				c.AVPs[i].GroupedAVPs = nil
			}
			return &c
		}
		switch f := differingField(strip(d), strip(want), false); {
		case derr != nil:
			lib.Finding("C06", "ldiam:roundtrip:error", "decoding the serialised well-formed layer fails")
		case dtr:
			lib.Finding("C06", "ldiam:roundtrip:Truncated", "truncation flag set on a round trip")
		case f != "":
			lib.Finding("C06", "ldiam:roundtrip:"+f, "Diameter."+f+" changed on a round trip")
		case again != "same":
			lib.Finding("C06", "ldiam:roundtrip:reserialize", "serialising the decoded layer again gives "+again)
		}
	} else if decoded {
		lib.Finding("C06", "ldiam:roundtrip:decoded-not-wf", "a decoded layer is outside the well-formedness predicate")
	} else {
		lib.Stat("rt:not-wf")
	}
	return "ok bytes=" + lib.Hex(out) + " | " + dreply + " | again=" + again
}

func opRt(a []string) string {
	if len(a) != 9 {
		return "bad-op"
	}
	mk, ok := parseLayer(a[:8])
	p, ok2 := parsePayload(a[8])
	if !ok || !ok2 {
		return "bad-op"
	}
	return guarded("round trip", func() string { return rt(mk, p, false) })
}

func opRtDec(data []byte) string {
	return guarded("round trip", func() string {
		d := &layers.Diameter{}
		if err := d.DecodeFromBytes(exact(data), &feedback{}); err != nil {
			return "dec-err"
		}
		mk := func() *layers.Diameter {
			c := *d
			c.BaseLayer = layers.BaseLayer{}
			c.AVPs = append([]layers.DiameterAVP(nil), d.AVPs...)
			return &c
		}
		return rt(mk, d.LayerPayload(), true)
	})
}

// ---------------------------------------------------------------- tracing PacketBuilder

type tracer struct {
	acts  []string
	tail  string
	added gopacket.Layer
}

func (t *tracer) SetTruncated() { t.acts = append(t.acts, "trunc") }
func (t *tracer) AddLayer(l gopacket.Layer) {
	t.acts = append(t.acts, fmt.Sprintf("add:%d", int(l.LayerType())))
	t.added = l
}
func (t *tracer) SetLinkLayer(gopacket.LinkLayer)               { t.acts = append(t.acts, "link") }
func (t *tracer) SetNetworkLayer(gopacket.NetworkLayer)         { t.acts = append(t.acts, "net") }
func (t *tracer) SetTransportLayer(gopacket.TransportLayer)     { t.acts = append(t.acts, "transport") }
func (t *tracer) SetApplicationLayer(gopacket.ApplicationLayer) { t.acts = append(t.acts, "app") }
func (t *tracer) SetErrorLayer(gopacket.ErrorLayer)             { t.acts = append(t.acts, "errlayer") }
func (t *tracer) DumpPacketData()                               {}
func (t *tracer) DecodeOptions() *gopacket.DecodeOptions        { return &gopacket.DecodeOptions{} }
func (t *tracer) NextDecoder(next gopacket.Decoder) error {
	t.tail = "next"
	return nil
}

func opPb(data []byte) string {
	return guarded("decodeDiameter", func() string {
		t := &tracer{}
		err := layers.LayerTypeDiameter.Decode(exact(data), t)
		tail := t.tail
		if err != nil {
			tail = "fail"
		} else if tail == "" {
			tail = "done"
		}
		acts := "-"
		if len(t.acts) > 0 {
			acts = strings.Join(t.acts, ",")
		}
		lib.Stat("pb:" + tail)
		s := "acts=" + acts + " tail=" + tail
		if t.added != nil {
			ad := t.added.(*layers.Diameter)
			s += " | " + render(ad)
			ref := &layers.Diameter{}
			if rerr := ref.DecodeFromBytes(exact(data), &feedback{}); rerr != nil || differingField(ad, ref, true) != "" {
				lib.Finding("C05", "ldiam:pkt-differs", "layer added by the registered decoder differs from a direct fresh DecodeFromBytes")
			}
			lib.Nontrivial()
		}
		return s
	})
}

func opPkt(mode string, extra int, foreign, data []byte) string {
	if len(foreign) != extra || (mode != "copy" && mode != "nocopy" && mode != "lazy") {
		return "bad-op"
	}
	if len(data) == 0 {
		return "empty"
	}
	return guarded("NewPacket(SkipDecodeRecovery)", func() string {
		opts := gopacket.DecodeOptions{SkipDecodeRecovery: true}
		in := exact(data)
		switch mode {
		case "nocopy":
			opts.NoCopy = true
			in = inBuf(data, foreign)
		case "lazy":
			opts.Lazy = true
		}
		p := gopacket.NewPacket(in, layers.LayerTypeDiameter, opts)
		ls := p.Layers()
		lib.Stat("pkt:" + mode)
		if len(ls) == 0 || ls[0].LayerType() != layers.LayerTypeDiameter {
			return "fail"
		}
		d := ls[0].(*layers.Diameter)
		ref := &layers.Diameter{}
		if err := ref.DecodeFromBytes(exact(data), &feedback{}); err != nil || differingField(d, ref, true) != "" {
			lib.Finding("C05", "ldiam:pkt-differs", "first layer built by NewPacket("+mode+") differs from a direct fresh DecodeFromBytes")
		}
		if p.ApplicationLayer() != ls[0] {
			lib.Finding("C05", "ldiam:pkt-differs", "the Diameter layer is not the packet's application layer")
		}
		lib.Nontrivial()
		return "ok " + render(d) + " trunc=" + b01(p.Metadata().Truncated)
	})
}

func opDlp(re bool, data []byte) string {
	if !re {
		newParser()
	}
	return guarded("DecodingLayerParser.DecodeLayers", func() string {
		var decoded []gopacket.LayerType
		err := parser.DecodeLayers(exact(data), &decoded)
		code := 0
		var unsup gopacket.UnsupportedLayerType
		if errors.As(err, &unsup) {
			code = 2
		} else if err != nil {
			code = 1
		}
		ds := make([]string, len(decoded))
		for i, t := range decoded {
			ds[i] = lib.Itoa(int(t))
		}
		dec := "-"
		if len(ds) > 0 {
			dec = strings.Join(ds, ",")
		}
		lib.Stat(fmt.Sprintf("dlp:layers=%d:code=%d", len(decoded), code))
		if len(decoded) >= 1 {
			lib.Nontrivial()
			ref := &layers.Diameter{}
			fb := &feedback{}
			if rerr := ref.DecodeFromBytes(exact(data), fb); rerr != nil || differingField(pObj, ref, true) != "" || fb.truncated != parser.Truncated {
				lib.Finding("C05", "ldiam:dlp-differs", "the parser's layer differs from a direct fresh DecodeFromBytes")
			}
		}
		return fmt.Sprintf("code=%d decoded=%s trunc=%s | %s", code, dec, b01(parser.Truncated), render(pObj))
	})
}

func opGrp(c, v uint32) string {
	t, ok := layers.GetDiameterAVPType(c, v)
	return b01(ok && t == layers.DiameterAVPTypeGrouped)
}

func exec(a []string) string {
	if len(a) < 2 || a[0] != "ldiam" {
		return "bad-op"
	}
	hexArg := func(s string) ([]byte, bool) { return lib.UnHex(s) }
	switch a[1] {
	case "dec":
		if len(a) != 5 {
			return "bad-op"
		}
		n, ok := lib.Atoi(a[2])
		f, ok2 := hexArg(a[3])
		d, ok3 := hexArg(a[4])
		if !ok || !ok2 || !ok3 || n < 0 {
			return "bad-op"
		}
		return opDec(n, f, d)
	case "redec":
		if len(a) != 3 {
			return "bad-op"
		}
		d, ok := hexArg(a[2])
		if !ok {
			return "bad-op"
		}
		return opRedec(d)
	case "ser":
		return opSer(a[2:])
	case "rt":
		return opRt(a[2:])
	case "rtdec":
		if len(a) != 3 {
			return "bad-op"
		}
		d, ok := hexArg(a[2])
		if !ok {
			return "bad-op"
		}
		return opRtDec(d)
	case "pb":
		if len(a) != 3 {
			return "bad-op"
		}
		d, ok := hexArg(a[2])
		if !ok {
			return "bad-op"
		}
		return opPb(d)
	case "pkt":
		if len(a) != 6 {
			return "bad-op"
		}
		n, ok := lib.Atoi(a[3])
		f, ok2 := hexArg(a[4])
		d, ok3 := hexArg(a[5])
		if !ok || !ok2 || !ok3 || n < 0 {
			return "bad-op"
		}
		return opPkt(a[2], n, f, d)
	case "dlp", "redlp":
		if len(a) != 3 {
			return "bad-op"
		}
		d, ok := hexArg(a[2])
		if !ok {
			return "bad-op"
		}
		return opDlp(a[1] == "redlp", d)
	case "grp":
		if len(a) != 4 {
			return "bad-op"
		}
		c, ok := u32(a[2])
		v, ok2 := u32(a[3])
		if !ok || !ok2 {
			return "bad-op"
		}
		return opGrp(c, v)
	}
	return "bad-op"
}

func main() {
	reset()
	lib.Main(lib.Engine{Name: "ldiam", Gen: gen, Reset: reset, Exec: exec})
}
