// gp-lgre: correspondence adapter + monitors for engine `lgre` = the codec of layers/gre.go
// (GRE.DecodeFromBytes, SerializeTo, NextLayerType, VerifyChecksum, decodeGRE).
//
// ops (replies are canonical `field=value` renderings, see render()):
//
//	lgre dec <foreign-hex> <hex>   decode <hex> into a FRESH *GRE; the bytes sit in a buffer whose spare
//	                               capacity holds <foreign-hex> (cap = len+|foreign|)
//	                               -> ok <layer> trunc=<0|1> next=<LayerType> vc=<valid>.<correct>.<actual>
//	                                  | err trunc=<0|1> | panic <kind>
//	lgre redec <hex>               decode into the SAME object as the previous dec/redec of this case
//	lgre pkt <hex>                 run the registered decoder (LayerTypeGRE.Decode) on a tracing PacketBuilder
//	                               -> ok <layer> trunc= sets=<Set*Layer calls|-> next=<type> np=<hex> | next=none
//	lgre ser  <fix> <csum> <hist> <layer…> <payload-hex>   -> ok <bytes-hex> csum=<g.Checksum after> | err
//	lgre ser2 …                    serialize, then serialize the mutated object again (fresh buffer) -> as ser
//	lgre rt   …                    serialize, then decode the bytes into a fresh layer -> as dec
//	<layer…> = <cp rp kp sp ssr ap: six 0/1 chars> rc flags ver proto csum off key seq ack <routing>
//	<routing> = - | af.off.len.hex[,af.off.len.hex…]      <hist> = fresh | dirty:<byte>:<n> | sized:<pre>:<app>
//
// Monitors (independent oracles on the real code; property / signature):
//
//	C19 lgre:panic:<site>            DecodeFromBytes, NewPacket(SkipDecodeRecovery), parser(IgnorePanic) panicked in gre.go
//	C19 lgre:hang                    a decode did not return
//	C05 lgre:stale:<Field>           decode into a reused object differs from decode into a fresh one
//	C05 lgre:cap-dependent           spare capacity / NoCopy / Pool changes the result
//	C05 lgre:dlp-differs:<Field>     DecodingLayerParser result differs from NewPacket's GRE layer
//	C06 lgre:roundtrip:<Field>       well-formed layer does not come back from serialize+decode (fix+csum on)
//	C06 lgre:roundtrip:reserialize   serializing the decoded layer again gives other bytes
//	C07 lgre:ser-panic:<site>        SerializeTo panicked
//	C07 lgre:dirty-buffer            output differs between fresh / dirty / pre-sized buffers
//	C07 lgre:not-idempotent          serializing the same object twice gives different bytes
//	C17 lgre:flow:<what>             GRE started to expose / set a flow-carrying layer (model says: none)
package main

import (
	"bytes"
	"fmt"
	"os"
	"runtime/debug"
	"strconv"
	"strings"
	"time"

	"github.com/gopacket/gopacket"
	"github.com/gopacket/gopacket/layers"
	"verif/harness/lib"
)

// ---------------------------------------------------------------- rendering

func b01(b bool) string {
	if b {
		return "1"
	}
	return "0"
}

type field struct{ name, val string }

func fieldsOf(g *layers.GRE) []field {
	var parts []string
	n := 0
	for r := g.GRERouting; r != nil; r = r.Next {
		parts = append(parts, fmt.Sprintf("%d.%d.%d.%s", r.AddressFamily, r.SREOffset, r.SRELength, lib.Hex(r.RoutingInformation)))
		n++
		if n > 1<<20 { // cyclic chain guard
			parts = append(parts, "cycle")
			break
		}
	}
	rt := "-"
	if len(parts) > 0 {
		rt = strings.Join(parts, ",")
	}
	u := func(v uint64) string { return strconv.FormatUint(v, 10) }
	return []field{
		{"cp", b01(g.ChecksumPresent)}, {"rp", b01(g.RoutingPresent)}, {"kp", b01(g.KeyPresent)},
		{"sp", b01(g.SeqPresent)}, {"ssr", b01(g.StrictSourceRoute)}, {"ap", b01(g.AckPresent)},
		{"rc", u(uint64(g.RecursionControl))}, {"fl", u(uint64(g.Flags))}, {"ver", u(uint64(g.Version))},
		{"proto", u(uint64(g.Protocol))}, {"csum", u(uint64(g.Checksum))}, {"off", u(uint64(g.Offset))},
		{"key", u(uint64(g.Key))}, {"seq", u(uint64(g.Seq))}, {"ack", u(uint64(g.Ack))},
		{"rt", rt}, {"c", lib.Hex(g.Contents)}, {"p", lib.Hex(g.Payload)},
	}
}

var fieldNames = map[string]string{"cp": "ChecksumPresent", "rp": "RoutingPresent", "kp": "KeyPresent", "sp": "SeqPresent",
	"ssr": "StrictSourceRoute", "ap": "AckPresent", "rc": "RecursionControl", "fl": "Flags", "ver": "Version",
	"proto": "Protocol", "csum": "Checksum", "off": "Offset", "key": "Key", "seq": "Seq", "ack": "Ack",
	"rt": "GRERouting", "c": "Contents", "p": "Payload"}

func render(g *layers.GRE) string {
	var sb strings.Builder
	for i, f := range fieldsOf(g) {
		if i > 0 {
			sb.WriteByte(' ')
		}
		sb.WriteString(f.name)
		sb.WriteByte('=')
		sb.WriteString(f.val)
	}
	return sb.String()
}

// firstDiff names the first public field on which a and b differ ("" if none). skipBase ignores Contents/Payload.
func firstDiff(a, b *layers.GRE, skipBase bool) string {
	fa, fb := fieldsOf(a), fieldsOf(b)
	for i := range fa {
		if skipBase && (fa[i].name == "c" || fa[i].name == "p") {
			continue
		}
		if fa[i].val != fb[i].val {
			return fieldNames[fa[i].name]
		}
	}
	return ""
}

type feedback struct{ truncated bool }

func (f *feedback) SetTruncated() { f.truncated = true }

func renderDec(g *layers.GRE, err error, trunc bool) string {
	if err != nil {
		return "err trunc=" + b01(trunc)
	}
	_, vr := g.VerifyChecksum()
	return fmt.Sprintf("ok %s trunc=%s next=%d vc=%s.%d.%d", render(g), b01(trunc), int(g.NextLayerType()), b01(vr.Valid), vr.Correct, vr.Actual)
}

// ---------------------------------------------------------------- watchdog

var dead bool // a decode hung: answer the remaining ops without touching the code any more

func withWatchdog(f func() string) string {
	if dead {
		return "skipped"
	}
	ch := make(chan string, 1)
	go func() {
		r, _ := protect(func() string { return f() })
		ch <- r
	}()
	select {
	case r := <-ch:
		return r
	case <-time.After(5 * time.Second):
		dead = true
		lib.Finding("C19", "lgre:hang", "a GRE operation did not return within 5s (runaway loop)")
		lib.Finding("C07", "lgre:hang", "a GRE operation did not return within 5s (runaway loop)")
		return "hang"
	}
}

// ---------------------------------------------------------------- decode ops + monitors

var obj *layers.GRE // the object reused by redec

func reset() { obj = nil }

func inGre(site string) bool { return strings.Contains(site, "layers/gre.go") || strings.Contains(site, "layers/base.go") }

var lastSite, lastMsg string

// protect is lib.Protect with a panic site that does not depend on where the repository is checked out:
// the top-most frame below the panic that lies in the repository's layers/ directory (else the first
// non-runtime frame), as `layers/<file>.go:<line>`.
func protect(f func() string) (reply string, panicked bool) {
	defer func() {
		if v := recover(); v != nil {
			lastMsg = fmt.Sprint(v)
			lastSite = siteOf(string(debug.Stack()))
			reply = "panic " + lib.PanicKind(v)
			panicked = true
		}
	}()
	return f(), false
}

func siteOf(stack string) string {
	first := ""
	seenPanic := false
	for _, l := range strings.Split(stack, "\n") {
		l = strings.TrimSpace(l)
		if strings.HasPrefix(l, "panic(") {
			seenPanic = true
			continue
		}
		if !seenPanic || !strings.Contains(l, ".go:") || !strings.HasPrefix(l, "/") {
			continue
		}
		f := strings.Fields(l)[0]
		if strings.Contains(f, "/runtime/") || strings.Contains(f, "/harness/") {
			continue
		}
		if i := strings.LastIndex(f, "/layers/"); i >= 0 {
			return f[i+1:]
		}
		if first == "" {
			first = f[strings.LastIndex(f, "/")+1:]
		}
	}
	if first == "" {
		return "?"
	}
	return first
}

// decodeDirect calls DecodeFromBytes and reports a panic as a C19 finding.
func decodeDirect(g *layers.GRE, data []byte, what string) (reply string, err error, trunc bool, panicked bool) {
	df := &feedback{}
	reply, panicked = protect(func() string {
		err = g.DecodeFromBytes(data, df)
		return renderDec(g, err, df.truncated)
	})
	if panicked {
		lib.Finding("C19", "lgre:panic:"+lastSite, fmt.Sprintf("%s panicked (%s) on %s", what, lastMsg, lib.Hex(data)))
	}
	return reply, err, df.truncated, panicked
}

func withCap(d, foreign []byte) []byte {
	buf := make([]byte, len(d)+len(foreign))
	copy(buf, d)
	copy(buf[len(d):], foreign)
	return buf[:len(d):len(buf)]
}

func exact(d []byte) []byte {
	out := make([]byte, len(d))
	copy(out, d)
	return out[:len(d):len(d)]
}

func packetGRE(p gopacket.Packet) *layers.GRE {
	ls := p.Layers()
	if len(ls) == 0 {
		return nil
	}
	g, _ := ls[0].(*layers.GRE)
	return g
}

func decodeMonitors(d, foreign []byte, direct *layers.GRE, derr error, dreply string) {
	hexd := lib.Hex(d)
	// (a) exact-capacity decode must agree with the spare-capacity decode (C05/C04: depends only on the bytes)
	if len(foreign) > 0 {
		g2 := &layers.GRE{}
		r2, _, _, p2 := decodeDirect(g2, exact(d), "DecodeFromBytes(cap=len)")
		if !p2 && r2 != dreply {
			lib.Finding("C05", "lgre:cap-dependent", fmt.Sprintf("decode of %s differs with %d spare bytes: %s vs %s", hexd, len(foreign), dreply, r2))
		}
		lib.Stat("dec:spare-cap")
	}
	// (b) NewPacket with the layer as first decoder, recovery ON: first layer equals the direct decode
	var pg *layers.GRE
	var perr bool
	_, rpan := protect(func() string {
		p := gopacket.NewPacket(exact(d), layers.LayerTypeGRE, gopacket.Default)
		pg = packetGRE(p)
		perr = p.ErrorLayer() != nil
		if derr == nil {
			if pg == nil {
				lib.Finding("C05", "lgre:dlp-differs:missing", "DecodeFromBytes succeeds but NewPacket has no GRE layer: "+hexd)
			} else if f := firstDiff(pg, direct, false); f != "" {
				lib.Finding("C05", "lgre:dlp-differs:"+f, fmt.Sprintf("NewPacket GRE layer differs from DecodeFromBytes in %s on %s", f, hexd))
			}
		} else if pg != nil || !perr {
			lib.Finding("C05", "lgre:dlp-differs:error", "DecodeFromBytes fails but NewPacket reports a GRE layer / no error: "+hexd)
		}
		// read-only use afterwards must not panic (C01 rows of this layer)
		_ = p.String()
		_ = p.Dump()
		for _, l := range p.Layers() {
			_ = gopacket.LayerString(l)
			_ = gopacket.LayerDump(l)
			_ = gopacket.LayerGoString(l)
		}
		p.VerifyChecksums()
		return ""
	})
	if rpan { // recovery is ON here: a panic means a renderer/accessor panicked (C01 rows of this layer)
		lib.Finding("C01", "lgre:render-panic:"+lastSite, "NewPacket/String/Dump/LayerString/VerifyChecksums panicked ("+lastMsg+") on "+hexd)
	}
	// (c) NoCopy / Pool on a buffer with spare capacity: same GRE layer
	for _, o := range []gopacket.DecodeOptions{{NoCopy: true}, {Pool: true}, {Lazy: true, NoCopy: true}} {
		o := o
		_, pan := protect(func() string {
			p := gopacket.NewPacket(withCap(d, foreign), layers.LayerTypeGRE, o)
			g := packetGRE(p)
			if (g == nil) != (pg == nil) || (g != nil && firstDiff(g, pg, false) != "") {
				lib.Finding("C05", "lgre:cap-dependent", fmt.Sprintf("NewPacket %+v result differs from the copying decode on %s", o, hexd))
			}
			if pp, ok := p.(gopacket.PooledPacket); ok && o.Pool {
				pp.Dispose()
			}
			return ""
		})
		if pan && inGre(lastSite) {
			lib.Finding("C19", "lgre:panic:"+lastSite, "NewPacket panicked in gre.go on "+hexd)
		}
	}
	// (d) recovery OFF: a panic inside gre.go is a C19 violation (panics of inner decoders are theirs)
	_, pan := protect(func() string {
		gopacket.NewPacket(exact(d), layers.LayerTypeGRE, gopacket.DecodeOptions{SkipDecodeRecovery: true})
		return ""
	})
	if pan {
		if inGre(lastSite) {
			lib.Finding("C19", "lgre:panic:"+lastSite, "NewPacket(SkipDecodeRecovery) panicked in gre.go on "+hexd)
		} else {
			lib.Stat("inner-decoder-panic:" + lastSite)
		}
	}
	// (e) DecodingLayerParser over {GRE}, IgnorePanic: same fields/truncation as packet decoding (C05), no panic (C19)
	var dl layers.GRE
	parser := gopacket.NewDecodingLayerParser(layers.LayerTypeGRE, &dl)
	parser.IgnorePanic = true
	parser.IgnoreUnsupported = true
	var decoded []gopacket.LayerType
	var perr2 error
	_, pan = protect(func() string { perr2 = parser.DecodeLayers(exact(d), &decoded); return "" })
	if pan {
		lib.Finding("C19", "lgre:panic:"+lastSite, "DecodingLayerParser(IgnorePanic) panicked on "+hexd)
	} else if derr == nil {
		if perr2 != nil || len(decoded) != 1 || decoded[0] != layers.LayerTypeGRE {
			lib.Finding("C05", "lgre:dlp-differs:run", "parser over {GRE} does not report exactly [GRE] on "+hexd)
		} else if f := firstDiff(&dl, direct, false); f != "" {
			lib.Finding("C05", "lgre:dlp-differs:"+f, "parser layer differs from DecodeFromBytes in "+f+" on "+hexd)
		}
		if parser.Truncated {
			lib.Finding("C05", "lgre:dlp-differs:Truncated", "parser sets Truncated on a successful GRE decode of "+hexd)
		}
	} else if perr2 == nil || len(decoded) != 0 {
		lib.Finding("C05", "lgre:dlp-differs:error", "parser over {GRE} reports layers/no error where DecodeFromBytes fails: "+hexd)
	}
}

func classifyDec(g *layers.GRE, err error, l int) {
	if err != nil {
		lib.Stat("dec:err")
		return
	}
	lib.Stat("dec:ok")
	n := 0
	for r := g.GRERouting; r != nil; r = r.Next {
		n++
	}
	if g.RoutingPresent {
		switch {
		case n == 0:
			lib.Stat("dec:routing:0")
		case n == 1:
			lib.Stat("dec:routing:1")
		default:
			lib.Stat("dec:routing:2+")
		}
	}
	if g.ChecksumPresent {
		lib.Stat("dec:csum")
	}
	if g.KeyPresent {
		lib.Stat("dec:key")
	}
	if g.SeqPresent {
		lib.Stat("dec:seq")
	}
	if g.AckPresent {
		lib.Stat("dec:ack")
	}
	if g.Version == 1 {
		lib.Stat("dec:v1")
	}
	if len(g.Payload) == 0 {
		lib.Stat("dec:empty-payload")
	}
	if g.ChecksumPresent || g.RoutingPresent || g.KeyPresent || g.SeqPresent || g.AckPresent {
		lib.Nontrivial()
	}
}

func opDec(foreign, d []byte) string {
	g := &layers.GRE{}
	data := withCap(d, foreign)
	reply, err, _, panicked := decodeDirect(g, data, "DecodeFromBytes")
	obj = g
	if panicked {
		return reply
	}
	classifyDec(g, err, len(d))
	decodeMonitors(d, foreign, g, err, reply)
	return reply
}

func opRedec(d []byte) string {
	if obj == nil {
		obj = &layers.GRE{}
	}
	before := render(obj)
	reply, err, _, panicked := decodeDirect(obj, exact(d), "DecodeFromBytes(reused)")
	if panicked {
		return reply
	}
	fresh := &layers.GRE{}
	fr, ferr, _, fp := decodeDirect(fresh, exact(d), "DecodeFromBytes")
	if !fp && err == nil && ferr == nil && fr != reply {
		f := firstDiff(obj, fresh, false)
		if f == "" {
			f = "derived"
		}
		lib.Finding("C05", "lgre:stale:"+f, fmt.Sprintf("decode of %s into an object that held {%s} gives %s, fresh gives %s", lib.Hex(d), before, reply, fr))
	}
	if (err == nil) != (ferr == nil) {
		lib.Finding("C05", "lgre:stale:error", "reused object changes whether decoding fails on "+lib.Hex(d))
	}
	lib.Stat("redec")
	if err == nil {
		lib.Nontrivial()
	}
	return reply
}

// ---------------------------------------------------------------- tracing PacketBuilder

type tracer struct {
	added []gopacket.Layer
	sets  []string
	next  []gopacket.LayerType
	other int
	trunc bool
	opts  gopacket.DecodeOptions
}

func (t *tracer) SetTruncated()                              { t.trunc = true }
func (t *tracer) AddLayer(l gopacket.Layer)                  { t.added = append(t.added, l) }
func (t *tracer) SetLinkLayer(gopacket.LinkLayer)            { t.sets = append(t.sets, "link") }
func (t *tracer) SetNetworkLayer(gopacket.NetworkLayer)      { t.sets = append(t.sets, "network") }
func (t *tracer) SetTransportLayer(gopacket.TransportLayer)  { t.sets = append(t.sets, "transport") }
func (t *tracer) SetApplicationLayer(gopacket.ApplicationLayer) {
	t.sets = append(t.sets, "application")
}
func (t *tracer) SetErrorLayer(gopacket.ErrorLayer) { t.sets = append(t.sets, "error") }
func (t *tracer) NextDecoder(next gopacket.Decoder) error {
	if lt, ok := next.(gopacket.LayerType); ok {
		t.next = append(t.next, lt)
	} else {
		t.other++
	}
	return nil
}
func (t *tracer) DumpPacketData()                        {}
func (t *tracer) DecodeOptions() *gopacket.DecodeOptions { return &t.opts }

func opPkt(d []byte) string {
	t := &tracer{}
	var err error
	reply, panicked := protect(func() string {
		err = layers.LayerTypeGRE.Decode(exact(d), t)
		return ""
	})
	if panicked {
		lib.Finding("C19", "lgre:panic:"+lastSite, "decodeGRE panicked on "+lib.Hex(d))
		return reply
	}
	// C17: the GRE layer carries no flow and must not claim a link/network/transport slot
	for _, s := range t.sets {
		lib.Finding("C17", "lgre:flow:set-"+s, "decodeGRE called Set"+s+"Layer (the model says it sets none)")
	}
	var li interface{} = &layers.GRE{}
	if _, ok := li.(gopacket.LinkLayer); ok {
		lib.Finding("C17", "lgre:flow:LinkFlow", "*GRE now implements LinkLayer; the model has no flow for it")
	}
	if _, ok := li.(gopacket.NetworkLayer); ok {
		lib.Finding("C17", "lgre:flow:NetworkFlow", "*GRE now implements NetworkLayer; the model has no flow for it")
	}
	if _, ok := li.(gopacket.TransportLayer); ok {
		lib.Finding("C17", "lgre:flow:TransportFlow", "*GRE now implements TransportLayer; the model has no flow for it")
	}
	if err != nil {
		if len(t.added) != 0 || len(t.next) != 0 {
			return fmt.Sprintf("err-but-added trunc=%s", b01(t.trunc))
		}
		lib.Stat("pkt:err")
		return "err trunc=" + b01(t.trunc)
	}
	if len(t.added) != 1 || t.other != 0 || len(t.next) > 1 {
		return fmt.Sprintf("odd added=%d next=%d other=%d", len(t.added), len(t.next), t.other)
	}
	g, ok := t.added[0].(*layers.GRE)
	if !ok {
		return "odd layer-type"
	}
	sets := "-"
	if len(t.sets) > 0 {
		sets = strings.Join(t.sets, ",")
	}
	tail := "next=none"
	if len(t.next) == 1 {
		tail = fmt.Sprintf("next=%d np=%s", int(t.next[0]), lib.Hex(g.LayerPayload()))
		lib.Stat("pkt:next")
	} else {
		lib.Stat("pkt:done")
	}
	lib.Nontrivial()
	return fmt.Sprintf("ok %s trunc=%s sets=%s %s", render(g), b01(t.trunc), sets, tail)
}

// ---------------------------------------------------------------- serialize ops + monitors

type serArgs struct {
	fix, csum bool
	hist      string
	g         layers.GRE // template (routing chain is rebuilt for every use)
	sres      []layers.GRERouting
	payload   []byte
}

func parseRouting(s string) ([]layers.GRERouting, bool) {
	if s == "-" {
		return nil, true
	}
	var out []layers.GRERouting
	for _, e := range strings.Split(s, ",") {
		p := strings.Split(e, ".")
		if len(p) != 4 {
			return nil, false
		}
		af, ok1 := lib.Atou(p[0])
		so, ok2 := lib.Atou(p[1])
		sl, ok3 := lib.Atou(p[2])
		ri, ok4 := lib.UnHex(p[3])
		if !ok1 || !ok2 || !ok3 || !ok4 || af > 0xffff || so > 0xff || sl > 0xff {
			return nil, false
		}
		var info []byte
		if len(ri) > 0 {
			info = ri
		}
		out = append(out, layers.GRERouting{AddressFamily: uint16(af), SREOffset: uint8(so), SRELength: uint8(sl), RoutingInformation: info})
	}
	return out, true
}

func parseSer(a []string) (*serArgs, bool) {
	if len(a) != 15 {
		return nil, false
	}
	s := &serArgs{}
	if (a[0] != "0" && a[0] != "1") || (a[1] != "0" && a[1] != "1") {
		return nil, false
	}
	s.fix, s.csum = a[0] == "1", a[1] == "1"
	s.hist = a[2]
	bits := a[3]
	if len(bits) != 6 || strings.Trim(bits, "01") != "" {
		return nil, false
	}
	nums := make([]uint64, 9)
	bounds := []uint64{256, 256, 256, 65536, 65536, 65536, 1 << 32, 1 << 32, 1 << 32}
	for i := 0; i < 9; i++ {
		v, ok := lib.Atou(a[4+i])
		if !ok || v >= bounds[i] {
			return nil, false
		}
		nums[i] = v
	}
	rt, ok := parseRouting(a[13])
	if !ok {
		return nil, false
	}
	p, ok := lib.UnHex(a[14])
	if !ok {
		return nil, false
	}
	s.g = layers.GRE{
		ChecksumPresent: bits[0] == '1', RoutingPresent: bits[1] == '1', KeyPresent: bits[2] == '1', SeqPresent: bits[3] == '1',
		StrictSourceRoute: bits[4] == '1', AckPresent: bits[5] == '1',
		RecursionControl: uint8(nums[0]), Flags: uint8(nums[1]), Version: uint8(nums[2]), Protocol: layers.EthernetType(nums[3]),
		Checksum: uint16(nums[4]), Offset: uint16(nums[5]), Key: uint32(nums[6]), Seq: uint32(nums[7]), Ack: uint32(nums[8]),
	}
	s.sres = rt
	s.payload = p
	if _, ok := mkBuf(s.hist); !ok {
		return nil, false
	}
	return s, true
}

// layer builds a new object (with its own routing chain) from the template.
func (s *serArgs) layer() *layers.GRE {
	g := s.g
	var head *layers.GRERouting
	tail := &head
	for i := range s.sres {
		r := s.sres[i]
		r.RoutingInformation = append([]byte(nil), r.RoutingInformation...)
		if len(r.RoutingInformation) == 0 {
			r.RoutingInformation = nil
		}
		rr := r
		*tail = &rr
		tail = &rr.Next
	}
	g.GRERouting = head
	return &g
}

func mkBuf(hist string) (gopacket.SerializeBuffer, bool) {
	p := strings.Split(hist, ":")
	switch {
	case len(p) == 1 && p[0] == "fresh":
		return gopacket.NewSerializeBuffer(), true
	case len(p) == 3 && p[0] == "dirty":
		v, ok1 := lib.Atou(p[1])
		n, ok2 := lib.Atou(p[2])
		if !ok1 || !ok2 || v > 255 || n >= 1000000 {
			return nil, false
		}
		b := gopacket.NewSerializeBuffer()
		s, _ := b.PrependBytes(int(n))
		for i := range s {
			s[i] = byte(v)
		}
		b.Clear()
		return b, true
	case len(p) == 3 && p[0] == "sized":
		pre, ok1 := lib.Atou(p[1])
		app, ok2 := lib.Atou(p[2])
		if !ok1 || !ok2 || pre >= 1000000 || app >= 1000000 {
			return nil, false
		}
		return gopacket.NewSerializeBufferExpectedSize(int(pre), int(app)), true
	}
	return nil, false
}

// serializeOnce: payload first (as gopacket.Payload does), then GRE.SerializeTo.
func serializeOnce(g *layers.GRE, hist string, payload []byte, opts gopacket.SerializeOptions) (out []byte, err error, panicked bool) {
	b, _ := mkBuf(hist)
	_, panicked = protect(func() string {
		pb, _ := b.PrependBytes(len(payload))
		copy(pb, payload)
		err = g.SerializeTo(b, opts)
		out = append([]byte(nil), b.Bytes()...)
		return ""
	})
	return
}

// wfGo: the in-range / consistent layer values for which the round trip is claimed (independent of the Lean text):
// every field fits its wire width, absent optional fields are zero, Flags bit 4 aliases the Ack bit,
// every SRE has SRELength == len(RoutingInformation) and is not the NULL terminator, no routing chain without the R bit.
func wfGo(s *serArgs) bool {
	g := &s.g
	if g.RecursionControl > 7 || g.Flags > 31 || g.Version > 7 {
		return false
	}
	if (g.Flags >= 16) != g.AckPresent {
		return false
	}
	if !(g.ChecksumPresent || g.RoutingPresent) && (g.Checksum != 0 || g.Offset != 0) {
		return false
	}
	if (!g.KeyPresent && g.Key != 0) || (!g.SeqPresent && g.Seq != 0) || (!g.AckPresent && g.Ack != 0) {
		return false
	}
	if !g.RoutingPresent && len(s.sres) != 0 {
		return false
	}
	for _, r := range s.sres {
		if int(r.SRELength) != len(r.RoutingInformation) || (r.AddressFamily == 0 && r.SRELength == 0) {
			return false
		}
	}
	return true
}

func serMonitors(s *serArgs, first []byte, mutated *layers.GRE, opts gopacket.SerializeOptions) {
	// C07 buffer independence: fresh / two dirty patterns / pre-sized buffers
	total := len(first) + 64
	for _, h := range []string{"fresh", fmt.Sprintf("dirty:165:%d", total), fmt.Sprintf("dirty:90:%d", total/2+1), "dirty:255:9", fmt.Sprintf("sized:%d:0", total), "sized:3:5"} {
		out, err, pan := serializeOnce(s.layer(), h, s.payload, opts)
		if pan {
			lib.Finding("C07", "lgre:ser-panic:"+lastSite, "SerializeTo panicked ("+lastMsg+") with buffer history "+h)
			continue
		}
		if err != nil || !bytes.Equal(out, first) {
			lib.Finding("C07", "lgre:dirty-buffer", fmt.Sprintf("buffer history %s gives %s, requested history gives %s", h, lib.Hex(out), lib.Hex(first)))
			break
		}
	}
	// C07 idempotence: the same (mutated) object again, over the same payload and the same buffer history
	out2, err2, pan2 := serializeOnce(mutated, s.hist, s.payload, opts)
	if pan2 {
		lib.Finding("C07", "lgre:ser-panic:"+lastSite, "second SerializeTo panicked")
	} else if err2 != nil || !bytes.Equal(out2, first) {
		lib.Finding("C07", "lgre:not-idempotent", fmt.Sprintf("second serialization gives %s, first %s", lib.Hex(out2), lib.Hex(first)))
	}
	// C06 round trip (as the property states it: FixLengths and ComputeChecksums on, well-formed layer)
	if s.fix && s.csum && wfGo(s) {
		lib.Stat("ser:roundtrip-checked")
		d := &layers.GRE{}
		df := &feedback{}
		var derr error
		_, pan := protect(func() string { derr = d.DecodeFromBytes(exact(first), df); return "" })
		switch {
		case pan:
			lib.Finding("C19", "lgre:panic:"+lastSite, "decode of serialized bytes panicked")
		case derr != nil:
			lib.Finding("C06", "lgre:roundtrip:error", "serialized well-formed layer does not decode: "+lib.Hex(first))
		case df.truncated:
			lib.Finding("C06", "lgre:roundtrip:Truncated", "decode of serialized layer sets the truncation flag")
		default:
			if _, vr := d.VerifyChecksum(); !vr.Valid { // C08 row of this layer: a written checksum verifies
				lib.Finding("C08", "lgre:written-checksum-invalid", "VerifyChecksum rejects the checksum SerializeTo computed: "+lib.Hex(first))
			}
			if f := firstDiff(d, mutated, true); f != "" {
				lib.Finding("C06", "lgre:roundtrip:"+f, fmt.Sprintf("wrote {%s}, read back {%s}", render(mutated), render(d)))
			} else if !bytes.Equal(d.Payload, s.payload) {
				lib.Finding("C06", "lgre:roundtrip:Payload", "payload differs after the round trip")
			} else {
				out3, err3, pan3 := serializeOnce(d, "fresh", d.Payload, opts)
				if pan3 || err3 != nil || !bytes.Equal(out3, first) {
					lib.Finding("C06", "lgre:roundtrip:reserialize", fmt.Sprintf("reserialized decoded layer gives %s, first %s", lib.Hex(out3), lib.Hex(first)))
				}
				// through NewPacket as well: first layer is GRE with the same fields
				protect(func() string {
					p := gopacket.NewPacket(first, layers.LayerTypeGRE, gopacket.Default)
					pg := packetGRE(p)
					if pg == nil || firstDiff(pg, mutated, true) != "" {
						lib.Finding("C06", "lgre:roundtrip:packet", "NewPacket on the serialized bytes does not give the layer back")
					}
					return ""
				})
			}
		}
	}
}

func classifySer(s *serArgs) {
	lib.Stat("ser")
	if s.g.RoutingPresent {
		lib.Stat(fmt.Sprintf("ser:routing:%d", min(len(s.sres), 3)))
		if s.g.AckPresent {
			lib.Stat("ser:routing+ack")
		}
	}
	if s.g.ChecksumPresent {
		lib.Stat("ser:csum")
	}
	if wfGo(s) {
		lib.Stat("ser:wf")
	} else {
		lib.Stat("ser:non-wf")
	}
	for _, r := range s.sres {
		if int(r.SRELength) > len(r.RoutingInformation) {
			lib.Stat("ser:sre-short-info")
		} else if int(r.SRELength) < len(r.RoutingInformation) {
			lib.Stat("ser:sre-long-info")
		}
	}
	switch {
	case len(s.payload) == 0:
		lib.Stat("ser:payload:0")
	case len(s.payload) > 65535:
		lib.Stat("ser:payload:>64k")
	case len(s.payload) >= 1480:
		lib.Stat("ser:payload:mtu")
	case len(s.payload)%2 == 1:
		lib.Stat("ser:payload:odd")
	}
	lib.Stat("ser:hist:" + strings.Split(s.hist, ":")[0])
	if s.g.RoutingPresent || s.g.ChecksumPresent || s.g.KeyPresent || s.g.SeqPresent || s.g.AckPresent {
		lib.Nontrivial()
	}
}

func opSer(kind string, a []string) string {
	s, ok := parseSer(a)
	if !ok {
		return "bad-op"
	}
	opts := gopacket.SerializeOptions{FixLengths: s.fix, ComputeChecksums: s.csum}
	g := s.layer()
	out, err, pan := serializeOnce(g, s.hist, s.payload, opts)
	if pan {
		lib.Finding("C07", "lgre:ser-panic:"+lastSite, "SerializeTo panicked ("+lastMsg+")")
		return "panic " + lib.PanicKind(lastMsg)
	}
	if err != nil {
		lib.Stat("ser:err")
		return "err"
	}
	classifySer(s)
	serMonitors(s, out, g, opts)
	switch kind {
	case "ser":
		return fmt.Sprintf("ok %s csum=%d", lib.Hex(out), g.Checksum)
	case "ser2":
		out2, err2, pan2 := serializeOnce(g, "fresh", s.payload, opts)
		if pan2 {
			return "panic " + lib.PanicKind(lastMsg)
		}
		if err2 != nil {
			return "err"
		}
		return fmt.Sprintf("ok %s csum=%d", lib.Hex(out2), g.Checksum)
	default: // rt
		d := &layers.GRE{}
		reply, _, _, _ := decodeDirect(d, exact(out), "DecodeFromBytes(serialized)")
		return reply
	}
}

func exec(a []string) string {
	if len(a) < 2 || a[0] != "lgre" {
		return "bad-op"
	}
	switch a[1] {
	case "dec":
		if len(a) != 4 {
			return "bad-op"
		}
		f, ok1 := lib.UnHex(a[2])
		d, ok2 := lib.UnHex(a[3])
		if !ok1 || !ok2 {
			return "bad-op"
		}
		return withWatchdog(func() string { return opDec(f, d) })
	case "redec":
		if len(a) != 3 {
			return "bad-op"
		}
		d, ok := lib.UnHex(a[2])
		if !ok {
			return "bad-op"
		}
		return withWatchdog(func() string { return opRedec(d) })
	case "pkt":
		if len(a) != 3 {
			return "bad-op"
		}
		d, ok := lib.UnHex(a[2])
		if !ok {
			return "bad-op"
		}
		return withWatchdog(func() string { return opPkt(d) })
	case "ser", "ser2", "rt":
		return withWatchdog(func() string { return opSer(a[1], a[2:]) })
	}
	return "bad-op"
}

func main() {
	_ = os.Args
	lib.Main(lib.Engine{Name: "lgre", Gen: gen, Reset: reset, Exec: exec})
}
