package main

import (
	"encoding/hex"
	"fmt"
	"os"
	"strings"

	"github.com/gopacket/gopacket"
	"github.com/gopacket/gopacket/layers"
	"verif/harness/lib"
)

// ---------------------------------------------------------------- fixtures

// GRE portions of the repo's own test packets (layers/gre_test.go testPacketGRE[34:],
// testPacketEthernetOverGRE[34:], layers/decode_test.go testPPPGREIPv4IPv6VLAN[78:]) and the three
// inputs of TestGREDecodeFromBytesTruncatedOptionalFields.
var harvested = []string{
	"0000080045000054048840004001dafeac100101ac100201080082c412740001c892a35400000000380c000000000000101112131415161718191a1b1c1d1e1f202122232425262728292a2b2c2d2e2f3031323334353637",
	"00006558aa6a36e6c6306e323ec79def080045000054d970400040010715ac100101ac10010208003f150f02000182d9b15400000000b5e6010000000000101112131415161718191a1b1c1d1e1f202122232425262728292a2b2c2d2e2f3031323334353637",
	"3081880b0067178000068fb100083a76ff03002145000063000040003c115667ac102c03080808089f400035004ffb9fa62c01000001000000000000357871742d6465746563742d6d6f6465322d39373731326538382d313637612d343562392d393365652d39313331343065373636373800001c0001",
	"80000800",
	"00800800",
	"400008000000000000010010",
}

func mustHex(s string) []byte {
	b, err := hex.DecodeString(s)
	if err != nil {
		panic(err)
	}
	return b
}

// built with the repo's own types: GRE (all optional fields, two SREs) over IPv4/UDP/payload.
func builtFixtures() [][]byte {
	var out [][]byte
	mk := func(g *layers.GRE, inner ...gopacket.SerializableLayer) {
		b := gopacket.NewSerializeBuffer()
		ls := append([]gopacket.SerializableLayer{g}, inner...)
		if err := gopacket.SerializeLayers(b, gopacket.SerializeOptions{FixLengths: true, ComputeChecksums: true}, ls...); err == nil {
			out = append(out, append([]byte(nil), b.Bytes()...))
		}
	}
	ip := func() *layers.IPv4 {
		return &layers.IPv4{Version: 4, IHL: 5, TTL: 64, Protocol: layers.IPProtocolUDP, SrcIP: []byte{10, 0, 0, 1}, DstIP: []byte{10, 0, 0, 2}}
	}
	udp := func(i *layers.IPv4) *layers.UDP {
		u := &layers.UDP{SrcPort: 4000, DstPort: 53}
		u.SetNetworkLayerForChecksum(i)
		return u
	}
	i1 := ip()
	mk(&layers.GRE{Protocol: layers.EthernetTypeIPv4, ChecksumPresent: true, KeyPresent: true, SeqPresent: true, Key: 0xdeadbeef, Seq: 7},
		i1, udp(i1), gopacket.Payload([]byte("hello gre")))
	i2 := ip()
	mk(&layers.GRE{Protocol: layers.EthernetTypeIPv4, RoutingPresent: true, StrictSourceRoute: true, Offset: 4,
		GRERouting: &layers.GRERouting{AddressFamily: 0x0800, SREOffset: 4, SRELength: 8, RoutingInformation: []byte{10, 1, 1, 1, 10, 2, 2, 2},
			Next: &layers.GRERouting{AddressFamily: 0xfffe, SREOffset: 0, SRELength: 2, RoutingInformation: []byte{0x12, 0x34}}}},
		i2, udp(i2), gopacket.Payload([]byte{1, 2, 3}))
	i3 := ip()
	mk(&layers.GRE{Protocol: layers.EthernetTypeIPv4, ChecksumPresent: true, RoutingPresent: true, KeyPresent: true, SeqPresent: true, AckPresent: true,
		Flags: 16, Version: 1, Key: 1, Seq: 2, Ack: 3, RecursionControl: 5,
		GRERouting: &layers.GRERouting{AddressFamily: 1, SREOffset: 9, SRELength: 0}},
		i3, udp(i3), gopacket.Payload([]byte{0xff}))
	mk(&layers.GRE{Protocol: layers.EthernetTypePPP, KeyPresent: true, SeqPresent: true, AckPresent: true, Flags: 16, Version: 1, Key: 0x00100020, Seq: 1, Ack: 0xffffffff},
		gopacket.Payload([]byte{0xff, 0x03, 0x00, 0x21, 0x45}))
	mk(&layers.GRE{Protocol: layers.EthernetTypeIPv6}, gopacket.Payload(nil))
	return out
}

func fixtures() [][]byte {
	var out [][]byte
	for _, h := range harvested {
		out = append(out, mustHex(h))
	}
	return append(out, builtFixtures()...)
}

// headerLen: length of the GRE header of a decodable fixture (via the repo's decoder), else len.
func headerLen(d []byte) int {
	var g layers.GRE
	n := len(d)
	protect(func() string {
		if err := g.DecodeFromBytes(d, &feedback{}); err == nil {
			n = len(g.Contents)
		}
		return ""
	})
	return n
}

// ---------------------------------------------------------------- layer specs for ser ops

type sre struct {
	af, so, sl int
	ri         []byte
}

type spec struct {
	cp, rp, kp, sp, ssr, ap              bool
	rc, fl, ver, proto, cs, off          int
	key, seq, ack                        uint64
	rt                                   []sre
}

func (s *spec) String() string {
	bits := b01(s.cp) + b01(s.rp) + b01(s.kp) + b01(s.sp) + b01(s.ssr) + b01(s.ap)
	rt := "-"
	if len(s.rt) > 0 {
		var p []string
		for _, r := range s.rt {
			p = append(p, fmt.Sprintf("%d.%d.%d.%s", r.af, r.so, r.sl, lib.Hex(r.ri)))
		}
		rt = strings.Join(p, ",")
	}
	return fmt.Sprintf("%s %d %d %d %d %d %d %d %d %d %s", bits, s.rc, s.fl, s.ver, s.proto, s.cs, s.off, s.key, s.seq, s.ack, rt)
}

var protos = []int{0x0800, 0x86dd, 0x6558, 0x880b, 0, 0x0806, 0x8100, 0x8847, 0x88be, 0xffff, 0x1234, 0x8863, 0x8864, 0x9000, 0x2000, 0x01a2, 0x88cc, 0x8848, 0x888e, 0x88a8, 0x0712}

func pickU32(r *lib.Rand) uint64 {
	switch r.Intn(6) {
	case 0:
		return 0
	case 1:
		return 0xffffffff
	case 2:
		return 1
	case 3:
		return 0x80000000
	}
	return r.U64() & 0xffffffff
}

func pickU16(r *lib.Rand) int {
	switch r.Intn(6) {
	case 0:
		return 0
	case 1:
		return 0xffff
	case 2:
		return 1
	case 3:
		return 0x0100
	}
	return r.Intn(65536)
}

func randSRE(r *lib.Rand, wf bool) sre {
	n := r.Pick([]int{0, 1, 2, 3, 4, 8, 16, 255, r.Intn(40)})
	s := sre{af: r.Pick([]int{1, 0x0800, 0xffff, 0, r.Intn(65536)}), so: r.Pick([]int{0, 4, 255, r.Intn(256)}), sl: n, ri: r.Bytes(n)}
	if wf {
		if s.af == 0 && s.sl == 0 {
			s.af = 1 + r.Intn(65535)
		}
		return s
	}
	switch r.Intn(5) {
	case 0: // RoutingInformation shorter than SRELength (bytes requested, not covered by the slice)
		s.ri = s.ri[:r.Intn(len(s.ri)+1)]
		if s.sl == 0 {
			s.sl = 1 + r.Intn(6)
			s.ri = nil
		}
	case 1: // longer
		s.ri = append(s.ri, r.Bytes(1+r.Intn(5))...)
		if len(s.ri) > 300 {
			s.ri = s.ri[:300]
		}
	case 2: // looks like the terminator
		s.af, s.sl, s.ri = 0, 0, nil
	}
	return s
}

// randSpec: wf=true gives an in-range, consistent layer; otherwise any value of the public fields.
func randSpec(r *lib.Rand, wf bool) *spec {
	s := &spec{cp: r.Bool(), rp: r.Chance(40), kp: r.Bool(), sp: r.Bool(), ssr: r.Bool(), ap: r.Bool(),
		proto: r.Pick(protos)}
	if wf {
		s.rc, s.ver = r.Intn(8), r.Pick([]int{0, 1, 7, r.Intn(8)})
		s.fl = r.Intn(16)
		if s.ap {
			s.fl += 16
		}
		if s.cp || s.rp {
			s.cs, s.off = pickU16(r), pickU16(r)
		}
		if s.kp {
			s.key = pickU32(r)
		}
		if s.sp {
			s.seq = pickU32(r)
		}
		if s.ap {
			s.ack = pickU32(r)
		}
		if s.rp {
			for k := r.Pick([]int{0, 1, 1, 2, 3, 5}); k > 0; k-- {
				s.rt = append(s.rt, randSRE(r, true))
			}
		}
		return s
	}
	s.rc, s.fl, s.ver = r.Pick([]int{0, 7, 8, 255, r.Intn(256)}), r.Pick([]int{0, 15, 16, 31, 32, 255, r.Intn(256)}), r.Pick([]int{0, 1, 7, 8, 255, r.Intn(256)})
	s.cs, s.off = pickU16(r), pickU16(r)
	s.key, s.seq, s.ack = pickU32(r), pickU32(r), pickU32(r)
	if s.rp || r.Chance(30) {
		for k := r.Pick([]int{0, 1, 2, 3}); k > 0; k-- {
			s.rt = append(s.rt, randSRE(r, r.Bool()))
		}
	}
	return s
}

func randPayload(r *lib.Rand, big bool) []byte {
	if big {
		return r.Bytes(r.Pick([]int{1480, 1499, 1500, 1501, 1520, 65535, 65536, 70001}))
	}
	return r.Bytes(r.Pick([]int{0, 0, 1, 2, 3, 7, 20, 33, 64, r.Intn(100)}))
}

func randHist(r *lib.Rand, total int) string {
	switch r.Intn(7) {
	case 0, 1:
		return "fresh"
	case 2:
		return fmt.Sprintf("dirty:%d:%d", r.Pick([]int{0xA5, 0x5A, 0xFF, 1}), total+r.Intn(64))
	case 3:
		return fmt.Sprintf("dirty:%d:%d", r.Pick([]int{0xA5, 0x5A, 0xFF, 1}), 1+r.Intn(total+1))
	case 4:
		return fmt.Sprintf("sized:%d:%d", total+r.Intn(32), r.Intn(16))
	case 5:
		return fmt.Sprintf("sized:%d:%d", r.Intn(12), r.Intn(12))
	}
	return "dirty:165:4096"
}

func specSize(s *spec) int {
	n := 24
	for _, r := range s.rt {
		n += 4 + r.sl
	}
	return n
}

// ---------------------------------------------------------------- generator

func propFocus() string {
	for _, a := range os.Args {
		if len(a) == 3 && a[0] == 'C' {
			return a
		}
	}
	return ""
}

func gen(r *lib.Rand, tier string, emit func(string)) {
	focus := propFocus()
	dec := focus == "" || focus == "C19" || focus == "C05" || focus == "C01" || focus == "C02"
	ser := focus == "" || focus == "C06" || focus == "C07"
	scale := 1
	if tier == "thorough" {
		scale = 12
	}
	light := func(n int) int { // sections outside the focus still run, at a tenth of the volume
		return max(1, n/10)
	}
	fx := fixtures()
	foreignFor := func(rest []byte, k int) string {
		switch k % 4 {
		case 0:
			return "-"
		case 1: // the real continuation of the packet (NoCopy slice of a larger capture)
			if len(rest) > 64 {
				rest = rest[:64]
			}
			return lib.Hex(rest)
		case 2:
			return strings.Repeat("ee", 24)
		}
		return lib.Hex(r.Bytes(1 + r.Intn(300)))
	}

	// 1. fixtures as they are, through every op kind
	for _, f := range fx {
		emit("reset")
		emit("lgre dec - " + lib.Hex(f))
		emit("lgre redec " + lib.Hex(f))
		emit("lgre pkt " + lib.Hex(f))
	}
	// registered next-layer table: every EthernetType the enum knows plus neighbours
	emit("reset")
	for _, p := range protos {
		for _, q := range []int{p, p + 1} {
			emit(fmt.Sprintf("lgre pkt 0000%04x4500", q&0xffff))
			emit(fmt.Sprintf("lgre pkt 0000%04x", q&0xffff))
		}
	}
	if !dec && !ser { // C17: nothing else to do for a layer without flows
		return
	}

	// 2. every truncation of every fixture, with and without spare capacity
	nTrunc := 0
	for _, f := range fx {
		h := headerLen(f)
		top := min(len(f), h+6)
		emit("reset")
		for n := 0; n <= top; n++ {
			for k := 0; k < 3; k++ {
				emit("lgre dec " + foreignFor(f[n:], k) + " " + lib.Hex(f[:n]))
				nTrunc++
			}
		}
		emit("lgre dec - " + lib.Hex(f))
	}

	// 3. single-field mutations of the fixtures to boundary values (flag bits, lengths)
	for _, f := range fx {
		h := min(headerLen(f)+2, len(f))
		emit("reset")
		for i := 0; i < h && i < 40; i++ {
			for _, v := range []int{0x00, 0xff, int(f[i]) ^ 0x80, int(f[i]) ^ 0x01, int(f[i]) + 1, int(f[i]) - 1} {
				m := append([]byte(nil), f...)
				m[i] = byte(v)
				emit("lgre dec " + foreignFor(nil, r.Intn(4)) + " " + lib.Hex(m))
				if i < 2 {
					for _, n := range []int{4, 7, 8, 11, 12, 15, 16, 19, 20, 23, 24} {
						if n <= len(m) {
							emit("lgre dec " + foreignFor(m[n:], 1) + " " + lib.Hex(m[:n]))
						}
					}
				}
			}
		}
	}

	// 4. exhaustive flag byte x selected version/flags bytes over a patterned tail (small SRE lengths)
	tail := mustHex("0800" + "00010002" + "00000003" + "00000004" + "00010102aabb" + "ffff0001cc" + "00000000" + "00000005" + "deadbeef")
	step := 1
	if !dec {
		step = 16
	}
	for b0 := 0; b0 < 256; b0 += step {
		emit("reset")
		for _, b1 := range []int{0x00, 0x80, 0x01, 0xf9, 0x7f} {
			pk := append([]byte{byte(b0), byte(b1)}, tail...)
			emit("lgre dec - " + lib.Hex(pk))
			for _, n := range []int{3, 4, 8, 12, 16, 20, 22, 27, 31, 35} {
				emit("lgre dec " + foreignFor(pk[n:], b1&1) + " " + lib.Hex(pk[:n]))
			}
		}
	}

	// 5. routing SRE lists of every kind, including malformed lengths (0, 1, > remaining) and odd terminators
	nRoute := 1500 * scale
	if !dec {
		nRoute = light(nRoute)
	}
	for c := 0; c < nRoute; c++ {
		emit("reset")
		b0 := 0x40 | (r.Intn(256) &^ 0x40)
		if r.Chance(10) {
			b0 = r.Intn(256)
		}
		b1 := r.Pick([]int{0, 0x80, 0x81, 0x01, r.Intn(256)})
		pk := []byte{byte(b0), byte(b1), 0x08, 0x00}
		pk = append(pk, byte(r.Intn(2)*r.Intn(256)), byte(r.Intn(256)), 0, byte(r.Intn(8))) // checksum, offset
		if b0&0x20 != 0 {
			pk = append(pk, r.Bytes(4)...)
		}
		if b0&0x10 != 0 {
			pk = append(pk, r.Bytes(4)...)
		}
		bounds := []int{len(pk)}
		for k := r.Pick([]int{0, 1, 2, 3, 6}); k > 0; k-- {
			sl := r.Pick([]int{0, 1, 2, 4, 8, 255, r.Intn(20)})
			af := r.Pick([]int{1, 0x0800, 0, 0xffff})
			if af == 0 && sl == 0 && r.Chance(70) {
				af = 2
			}
			pk = append(pk, byte(af>>8), byte(af), byte(r.Pick([]int{0, 4, 255})), byte(sl))
			have := sl
			if r.Chance(8) { // length overruns what follows
				have = r.Intn(sl + 1)
			}
			pk = append(pk, r.Bytes(have)...)
			bounds = append(bounds, len(pk))
		}
		switch r.Intn(8) {
		case 0: // no terminator at all
		case 1: // AF = 0 but a length: not a terminator
			pk = append(pk, 0, 0, 0, 3, 1, 2, 3, 0, 0, 0, 0)
		case 2: // terminator with a non-zero SRE offset byte
			pk = append(pk, 0, 0, 0x55, 0)
		default:
			pk = append(pk, 0, 0, 0, 0)
		}
		bounds = append(bounds, len(pk))
		if b1&0x80 != 0 {
			pk = append(pk, r.Bytes(4)...)
			bounds = append(bounds, len(pk))
		}
		pk = append(pk, r.Bytes(r.Pick([]int{0, 1, 5, 20}))...)
		emit("lgre dec " + foreignFor(nil, r.Intn(4)) + " " + lib.Hex(pk))
		emit("lgre pkt " + lib.Hex(pk))
		for _, bd := range bounds {
			for _, d := range []int{-1, 0, 1, 3} {
				if n := bd + d; n >= 0 && n <= len(pk) {
					emit("lgre dec " + foreignFor(pk[n:], 1+r.Intn(3)) + " " + lib.Hex(pk[:n]))
				}
			}
		}
	}

	// 6. ordered sequences decoded into the SAME object (stale-state search)
	nSeq := 1500 * scale
	if !dec {
		nSeq = light(nSeq)
	}
	var pool [][]byte
	pool = append(pool, fx...)
	for i := 0; i < 60; i++ {
		s := randSpec(r, true)
		pool = append(pool, buildWire(s, randPayload(r, false)))
	}
	for c := 0; c < nSeq; c++ {
		emit("reset")
		emit("lgre dec " + foreignFor(nil, r.Intn(4)) + " " + lib.Hex(pool[r.Intn(len(pool))]))
		for k := 1 + r.Intn(4); k > 0; k-- {
			p := pool[r.Intn(len(pool))]
			if r.Chance(25) {
				p = p[:r.Intn(len(p)+1)]
			}
			emit("lgre redec " + lib.Hex(p))
		}
	}

	// 7. serialization: systematic flag combinations x routing shapes x options x buffer histories
	strideS := 1
	if !ser {
		strideS = 8
	}
	shapes := [][]sre{nil, {{1, 2, 3, []byte{0xaa, 0xbb, 0xcc}}}, {{0x0800, 4, 4, []byte{10, 0, 0, 1}}, {0xffff, 0, 0, nil}}}
	hists := []string{"fresh", "dirty:165:96", "dirty:90:7", "sized:64:0"}
	idx := 0
	for bits := 0; bits < 64; bits += strideS {
		emit("reset")
		for si, sh := range shapes {
			s := &spec{cp: bits&32 != 0, rp: bits&16 != 0, kp: bits&8 != 0, sp: bits&4 != 0, ssr: bits&2 != 0, ap: bits&1 != 0,
				rc: bits % 8, ver: (bits / 8) % 8, fl: bits % 16, proto: protos[bits%len(protos)]}
			if s.ap {
				s.fl += 16
			}
			if s.cp || s.rp {
				s.off = 0x0102
				if !s.cp {
					s.cs = 0xbeef
				}
			}
			if s.kp {
				s.key = 0x01020304
			}
			if s.sp {
				s.seq = 0xfffffffe
			}
			if s.ap {
				s.ack = 0x80000001
			}
			if s.rp {
				s.rt = sh
			} else if si > 0 {
				continue
			}
			for _, pay := range []string{"-", "ab", "0102030405"} {
				for o := 0; o < 4; o++ {
					h := hists[idx%len(hists)]
					idx++
					emit(fmt.Sprintf("lgre ser %d %d %s %s %s", o>>1, o&1, h, s, pay))
				}
				emit(fmt.Sprintf("lgre rt 1 1 %s %s %s", hists[idx%len(hists)], s, pay))
				emit(fmt.Sprintf("lgre ser2 1 1 %s %s %s", hists[(idx+1)%len(hists)], s, pay))
			}
		}
	}

	// 8. random layer values: in-range ones (round trip) and arbitrary public field values (totality)
	nSer := 2500 * scale
	if !ser {
		nSer = light(nSer)
	}
	for c := 0; c < nSer; c++ {
		emit("reset")
		wf := r.Chance(60)
		s := randSpec(r, wf)
		pay := randPayload(r, r.Chance(2))
		h := randHist(r, specSize(s)+len(pay))
		o := r.Intn(4)
		if wf && r.Chance(50) {
			o = 3
		}
		args := fmt.Sprintf("%d %d %s %s %s", o>>1, o&1, h, s, lib.Hex(pay))
		emit("lgre ser " + args)
		if len(pay) < 2000 {
			emit("lgre rt " + args)
			if r.Chance(30) {
				emit("lgre ser2 " + args)
			}
		}
	}
}

// buildWire serializes a spec with the repo (used only to produce decode inputs for the stale-state search).
func buildWire(s *spec, payload []byte) []byte {
	a := strings.Fields("1 1 fresh " + s.String() + " " + lib.Hex(payload))
	sa, ok := parseSer(a)
	if !ok {
		return []byte{0, 0, 8, 0}
	}
	out, err, pan := serializeOnce(sa.layer(), "fresh", payload, gopacket.SerializeOptions{FixLengths: true, ComputeChecksums: true})
	if err != nil || pan || len(out) < 4 {
		return []byte{0, 0, 8, 0}
	}
	return out
}
