package main

import (
	"encoding/binary"
	"fmt"

	"verif/harness/lib"
)

// There is no snoop writer in the repository: valid files are crafted here after RFC 1761
// (16-byte file header; records of 24-byte header + included data + pad, record length =
// 24 + included length + pad) and then mutated.

type srec struct {
	orig, incl, reclen, drops, sec, usec uint32
	data                                 []byte // included data followed by the pad
}

type sfile struct {
	magic   uint64
	version uint32
	ltype   uint32
	recs    []srec
}

func (f sfile) encode() []byte {
	b := make([]byte, 16)
	binary.BigEndian.PutUint64(b[0:], f.magic)
	binary.BigEndian.PutUint32(b[8:], f.version)
	binary.BigEndian.PutUint32(b[12:], f.ltype)
	for _, r := range f.recs {
		h := make([]byte, 24)
		binary.BigEndian.PutUint32(h[0:], r.orig)
		binary.BigEndian.PutUint32(h[4:], r.incl)
		binary.BigEndian.PutUint32(h[8:], r.reclen)
		binary.BigEndian.PutUint32(h[12:], r.drops)
		binary.BigEndian.PutUint32(h[16:], r.sec)
		binary.BigEndian.PutUint32(h[20:], r.usec)
		b = append(b, h...)
		b = append(b, r.data...)
	}
	return b
}

const snoopMagic = 0x736e6f6f70000000

func randRec(r *lib.Rand, maxData int) srec {
	n := r.Intn(maxData + 1)
	if r.Chance(10) {
		n = 0
	}
	pad := (4 - n%4) % 4
	if r.Chance(15) {
		pad = r.Pick([]int{0, 1, 5, 8, 40})
	}
	rc := srec{incl: uint32(n), orig: uint32(n), reclen: uint32(24 + n + pad), drops: uint32(r.Intn(3)), sec: uint32(r.U64()), usec: uint32(r.Intn(1000000))}
	if r.Chance(35) { // truncated capture: included < original
		rc.orig = uint32(n + r.Pick([]int{1, 2, 60, 1400, 65535}))
	}
	if r.Chance(10) {
		rc.sec = uint32(r.Pick([]int{0, 1, 1<<31 - 1, 1 << 31, 1<<32 - 1}))
	}
	rc.data = append(r.Bytes(n), make([]byte, pad)...)
	return rc
}

func randFile(r *lib.Rand, nrec, maxData int) sfile {
	f := sfile{magic: snoopMagic, version: 2, ltype: uint32(r.Pick([]int{4, 4, 0, 2, 5, 8, 1, 3, 9, 10}))}
	for i := 0; i < nrec; i++ {
		f.recs = append(f.recs, randRec(r, maxData))
	}
	return f
}

var patterns = []string{"c", "z", "zc", "cz", "zzc"}

func emitHex(emit func(string), r *lib.Rand, b []byte) {
	emit("reset")
	emit(fmt.Sprintf("snoop readhex %s %s", patterns[r.Intn(len(patterns))], lib.Hex(b)))
}

func boundary(r *lib.Rand, around uint32) []uint32 {
	return []uint32{0, 1, around - 1, around, around + 1, 23, 24, 25, 4095, 4096, 4097, 1<<31 - 1, 1 << 31, 1<<31 + 1, 1<<32 - 1, 1<<32 - 24, 1<<32 - 25, 4294968, 1 << 16, uint32(r.U64())}
}

func emitMutations(r *lib.Rand, emit func(string), f sfile, sample bool) {
	base := f.encode()
	total := uint32(len(base))
	try := func(mod func(m *sfile, v uint32), around uint32) {
		vals := boundary(r, around)
		if sample {
			vals = []uint32{vals[r.Intn(len(vals))], vals[r.Intn(len(vals))]}
		}
		for _, v := range vals {
			m := f
			m.recs = append([]srec(nil), f.recs...)
			mod(&m, v)
			emitHex(emit, r, m.encode())
		}
	}
	try(func(m *sfile, v uint32) { m.magic = m.magic&^0xffffffff | uint64(v) }, 0)
	try(func(m *sfile, v uint32) { m.magic = uint64(v)<<32 | m.magic&0xffffffff }, 0x736e6f6f)
	try(func(m *sfile, v uint32) { m.version = v }, 2)
	try(func(m *sfile, v uint32) { m.ltype = v }, 10)
	for i := range f.recs {
		i := i
		rc := f.recs[i]
		try(func(m *sfile, v uint32) { m.recs[i].orig = v }, rc.incl)
		try(func(m *sfile, v uint32) { m.recs[i].incl = v }, rc.incl)
		try(func(m *sfile, v uint32) { m.recs[i].incl, m.recs[i].orig = v, v }, rc.incl)
		try(func(m *sfile, v uint32) { m.recs[i].reclen = v }, rc.reclen)
		try(func(m *sfile, v uint32) { m.recs[i].reclen = v }, 24+rc.incl)
		try(func(m *sfile, v uint32) { m.recs[i].reclen = v }, 24+rc.orig)
		try(func(m *sfile, v uint32) { m.recs[i].reclen = v }, total)
		try(func(m *sfile, v uint32) { m.recs[i].drops = v }, 0)
		try(func(m *sfile, v uint32) { m.recs[i].sec = v }, 0)
		try(func(m *sfile, v uint32) { m.recs[i].usec = v }, 1000000)
	}
}

func gen(r *lib.Rand, tier string, emit func(string)) {
	thorough := tier == "thorough"
	// 1. small scope: every cut of small valid files (0..2 records, data 0..5 bytes)
	for n1 := -1; n1 <= 5; n1++ {
		for n2 := -1; n2 <= 3; n2 += 2 {
			f := sfile{magic: snoopMagic, version: 2, ltype: 4}
			for _, n := range []int{n1, n2} {
				if n < 0 {
					continue
				}
				pad := (4 - n%4) % 4
				orig := n
				if n == 3 || n == 5 {
					orig = n + 1000 // truncated capture
				}
				f.recs = append(f.recs, srec{orig: uint32(orig), incl: uint32(n), reclen: uint32(24 + n + pad), sec: 1556002892, usec: 831815, data: append(r.Bytes(n), make([]byte, pad)...)})
			}
			b := f.encode()
			emit("reset")
			emit("snoop file " + lib.Hex(b))
			for k := 0; k <= len(b); k++ {
				term := "eof"
				if r.Chance(20) {
					term = "fail"
				}
				emit(fmt.Sprintf("snoop read %s %d %s", patterns[r.Intn(3)], k, term))
			}
			emit(fmt.Sprintf("snoop read c %d eof", len(b)))
			emit(fmt.Sprintf("snoop read z %d eof", len(b)))
		}
	}
	// 2. random valid files, sampled cuts
	nValid := 150
	if thorough {
		nValid = 4000
	}
	for c := 0; c < nValid; c++ {
		f := randFile(r, r.Intn(5), r.Pick([]int{3, 9, 40, 300, 4096}))
		b := f.encode()
		emit("reset")
		emit("snoop file " + lib.Hex(b))
		emit(fmt.Sprintf("snoop read %s %d eof", patterns[r.Intn(len(patterns))], len(b)))
		ncut := 12
		if len(b) <= 120 {
			ncut = len(b) + 1
		}
		for i := 0; i < ncut; i++ {
			k := i
			if len(b) > 120 {
				k = r.Intn(len(b) + 1)
			}
			term := "eof"
			if r.Chance(25) {
				term = "fail"
			}
			emit(fmt.Sprintf("snoop read %s %d %s", patterns[r.Intn(len(patterns))], k, term))
		}
	}
	// 3. mutations of every header / record field
	nMut, nSample := 8, 80
	if thorough {
		nMut, nSample = 100, 3000
	}
	for c := 0; c < nMut; c++ {
		emitMutations(r, emit, randFile(r, 1+r.Intn(3), r.Pick([]int{0, 4, 9, 33})), false)
	}
	for c := 0; c < nSample; c++ {
		emitMutations(r, emit, randFile(r, 1+r.Intn(4), r.Pick([]int{0, 4, 9, 33, 500})), true)
	}
	// 4. garbage
	nGarb := 300
	if thorough {
		nGarb = 20000
	}
	for c := 0; c < nGarb; c++ {
		var b []byte
		switch r.Intn(3) {
		case 0:
			b = r.Bytes(r.Intn(90))
		case 1:
			b = append(sfile{magic: snoopMagic, version: 2, ltype: uint32(r.Intn(12))}.encode(), r.Bytes(r.Intn(150))...)
		case 2: // plausible small lengths
			b = sfile{magic: snoopMagic, version: 2, ltype: 4}.encode()
			for i := 0; i < 1+r.Intn(3); i++ {
				h := make([]byte, 24)
				for j := 0; j < 12; j += 4 {
					binary.BigEndian.PutUint32(h[j:], uint32(r.Intn(64)))
				}
				b = append(b, h...)
				b = append(b, r.Bytes(r.Intn(40))...)
			}
		}
		emitHex(emit, r, b)
		if r.Chance(30) {
			emit(fmt.Sprintf("snoop read %s %d fail", patterns[r.Intn(3)], r.Intn(len(b)+1)))
		}
	}
	emit("reset")
	for _, l := range []string{"snoop", "snoop read", "snoop read x 0 eof", "snoop read z 0 maybe", "snoop file zz", "snoop readhex c 0", "snoop nothing", "snoop read z 1 eof extra"} {
		emit(l)
	}
}
