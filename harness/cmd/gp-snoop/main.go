// gp-snoop: correspondence adapter for engine `snoop` (C15): drives the real snoop reader
// (pcapgo/snoop.go).
//
// Ops (first word `snoop`):
//
//	file <hex>                         set the current file; reply `ok`
//	read <pattern> <cut> <eof|fail>    real SnoopReader on the first <cut> bytes of the current file; the
//	                                   stream then ends with io.EOF or an injected I/O error; <pattern> is a
//	                                   word over z/c (zero-copy / copying call), cycled
//	readhex <pattern> <hex>            = file + read <pattern> <len> eof
//
// Reply: `open <outcome>` or `hdr <linktype code> <mapped LinkType|none> | <outcome> | …` with outcomes
// `p <sec> <nsec> <caplen> <len> <hex>`, `err`, `eof`, `ueof`, `ioerr`, `panic <kind>`; reading stops at the
// first eof/ueof/ioerr/panic.
//
// Monitors (C15): panic (site-specific), hang, allocation out of proportion, |data| = caplen ≤ len,
// chunking independence, injected I/O errors.
package main

import (
	"encoding/binary"
	"fmt"
	"strings"
	"time"

	"github.com/gopacket/gopacket"
	"github.com/gopacket/gopacket/pcapgo"
	"verif/harness/cmd/gp-pcap/strm"
	"verif/harness/lib"
)

var curFile []byte

// defensive: set once the tree under test has made a single allocation above 64 MiB (only the
// unfixed snoop.go does): from then on a record header announcing a record length above 16 MiB
// is not delivered to the reader and the operation is answered `skipped`.
var defensive bool

func reset() { curFile = nil }

type out struct {
	kind   string
	sec    int64
	nsec   int
	caplen int
	length int
	data   []byte
}

func (o out) String() string {
	if o.kind == "p" {
		return fmt.Sprintf("p %d %d %d %d %s", o.sec, o.nsec, o.caplen, o.length, lib.Hex(o.data))
	}
	return o.kind
}

func (o out) final() bool { return o.kind != "p" && o.kind != "err" }

type result struct {
	skipped bool
	open    string
	code    uint32
	lt      string
	outs    []out
	suspect bool
}

func (r result) String() string {
	if r.skipped {
		return "skipped"
	}
	if r.open != "" {
		return "open " + r.open
	}
	var sb strings.Builder
	fmt.Fprintf(&sb, "hdr %d %s", r.code, r.lt)
	for _, o := range r.outs {
		sb.WriteString(" | ")
		sb.WriteString(o.String())
	}
	return sb.String()
}

type readCfg struct {
	stream  []byte
	fail    bool
	pat     string
	chunk   func() int
	sticky  bool
	monitor bool
	precise bool
}

// The capture length is bounded by maxCaptureLen = 4096: the snoop reader's "declared snap length".
const snoopSnaplen = 4096
const allocSlack = 1 << 18

var lastSite, lastMsg string

func protect(f func()) (string, bool) {
	rep, site, msg := strm.Protect(lib.PanicKind, f)
	if rep != "" {
		lastSite, lastMsg = site, msg
		return rep, true
	}
	return "", false
}

func runRead(c readCfg) result {
	res := runRead1(c)
	if res.suspect && !c.precise {
		c.precise = true
		runRead1(c)
	}
	return res
}

func runRead1(c readCfg) (res result) {
	allocated := strm.Allocated
	if c.precise {
		allocated = strm.AllocatedPrecise
	}
	mon := c.monitor && !c.precise
	st := &strm.Stream{Data: c.stream, Fail: c.fail, Chunk: c.chunk, Sticky: c.sticky}
	st.Guard = func(pos, want int) bool {
		return defensive && want == 24 && pos+12 <= len(c.stream) && binary.BigEndian.Uint32(c.stream[pos+8:]) > 1<<24
	}
	defer func() { res.skipped = st.Guarded }()
	var r *pcapgo.SnoopReader
	var err error
	rep, panicked := protect(func() { r, err = pcapgo.NewSnoopReader(st) })
	if panicked {
		res.open = rep
		if mon {
			lib.Finding("C15", "snoop:panic:"+lastSite, "NewSnoopReader panicked: "+lastMsg)
		}
		return res
	}
	if err != nil {
		res.open = strm.Classify(err)
		return res
	}
	if len(c.stream) >= 16 {
		res.code = binary.BigEndian.Uint32(c.stream[12:16])
	}
	res.lt = "none"
	rep, panicked = protect(func() {
		if lt, err := r.LinkType(); err == nil && lt != nil {
			res.lt = fmt.Sprint(int(*lt))
		}
	})
	if panicked {
		res.open = rep
		if mon {
			lib.Finding("C15", "snoop:panic:"+lastSite, "LinkType panicked: "+lastMsg)
		}
		return res
	}
	limit := len(c.stream)/24 + 8
	bound := uint64(len(c.stream)) + snoopSnaplen + allocSlack
	for i := 0; i < limit; i++ {
		zc := c.pat[i%len(c.pat)] == 'z'
		var data []byte
		var ci gopacket.CaptureInfo
		b0 := allocated()
		rep, panicked := protect(func() {
			if zc {
				data, ci, err = r.ZeroCopyReadPacketData()
			} else {
				data, ci, err = r.ReadPacketData()
			}
		})
		b1 := allocated()
		if b1-b0 > 1<<26 {
			defensive = true
		}
		if panicked {
			res.outs = append(res.outs, out{kind: rep})
			if mon {
				lib.Finding("C15", "snoop:panic:"+lastSite, "read call panicked: "+lastMsg)
			}
			break
		}
		if c.monitor && b1-b0 > bound {
			res.suspect = true
			if c.precise {
				lib.Finding("C15", "snoop:alloc", fmt.Sprintf("read call allocated %d bytes; stream %d bytes, max capture length %d", b1-b0, len(c.stream), snoopSnaplen))
			}
		}
		k := strm.Classify(err)
		if k == "ok" {
			o := out{kind: "p", sec: ci.Timestamp.Unix(), nsec: ci.Timestamp.Nanosecond(), caplen: ci.CaptureLength, length: ci.Length, data: append([]byte(nil), data...)}
			if mon {
				if len(data) != ci.CaptureLength {
					lib.Finding("C15", "snoop:datalen", fmt.Sprintf("returned %d bytes with CaptureLength %d", len(data), ci.CaptureLength))
				}
				if ci.CaptureLength > ci.Length {
					lib.Finding("C15", "snoop:caplen-gt-len", fmt.Sprintf("CaptureLength %d > Length %d", ci.CaptureLength, ci.Length))
				}
				lib.Stat("read:pkt")
				if ci.CaptureLength < ci.Length {
					lib.Stat("read:pkt-truncated-capture")
				}
			}
			res.outs = append(res.outs, o)
			continue
		}
		if mon {
			lib.Stat("read:" + k)
		}
		o := out{kind: k}
		res.outs = append(res.outs, o)
		if o.final() {
			break
		}
	}
	return res
}

func sameOuts(a, b []out) bool {
	if len(a) != len(b) {
		return false
	}
	for i := range a {
		if a[i].String() != b[i].String() {
			return false
		}
	}
	return true
}

func clip(s string) string {
	if len(s) > 160 {
		return s[:160] + "…"
	}
	return s
}

func chunkingAndErrors(c readCfg, base result) {
	baseStr := base.String()
	if strings.Contains(baseStr, "panic") || base.skipped {
		return
	}
	mx := strm.NewMix(c.stream, uint64(len(c.pat)))
	variants := []struct {
		name   string
		chunk  func() int
		sticky bool
	}{
		{"1", func() int { return 1 }, false},
		{"2", func() int { return 2 }, true},
		{"3", func() int { return 3 }, false},
		{"7", func() int { return 7 }, false},
		{"rand", func() int { return 1 + mx.Intn(29) }, mx.Intn(2) == 0},
		{"whole-sticky", nil, true},
	}
	for _, v := range variants {
		cc := c
		cc.chunk, cc.sticky, cc.monitor = v.chunk, v.sticky, false
		rv := runRead(cc)
		if rv.skipped {
			return
		}
		if got := rv.String(); got != baseStr {
			lib.Finding("C15", "snoop:chunking", fmt.Sprintf("chunking %s changes the result: %s vs %s", v.name, clip(got), clip(baseStr)))
			break
		}
	}
	lib.Stat("mon:chunking")
	var positions []int
	n := len(c.stream)
	if n <= 120 {
		for p := 0; p <= n; p++ {
			positions = append(positions, p)
		}
	} else {
		for _, p := range []int{0, 1, 15, 16, 17, 39, 40, 41, n - 1, n} {
			positions = append(positions, p)
		}
		for i := 0; i < 14; i++ {
			positions = append(positions, mx.Intn(n+1))
		}
	}
	for _, p := range positions {
		cf := c
		cf.stream, cf.fail, cf.monitor = c.stream[:p], true, false
		if p%3 == 1 {
			cf.chunk = func() int { return 1 + mx.Intn(9) }
		}
		ce := cf
		ce.fail, ce.chunk = false, nil
		rf, re := runRead(cf), runRead(ce)
		ok := true
		if strings.Contains(re.String(), "panic") || rf.skipped || re.skipped {
			continue
		}
		if rf.open != "" || re.open != "" {
			ok = rf.open == "ioerr" || (rf.open == re.open && re.open == "err")
		} else {
			nf, ne := len(rf.outs), len(re.outs)
			ok = nf == ne && nf > 0 && sameOuts(rf.outs[:nf-1], re.outs[:ne-1]) && rf.outs[nf-1].kind == "ioerr"
		}
		if !ok {
			lib.Finding("C15", "snoop:ioerr", fmt.Sprintf("I/O error injected after %d bytes does not surface as that error: %s (clean cut: %s)", p, clip(rf.String()), clip(re.String())))
			break
		}
	}
	lib.Stat("mon:ioerr")
}

func doRead(pat string, data []byte, fail bool, full bool) string {
	c := readCfg{stream: data, fail: fail, pat: pat, monitor: true}
	res := runRead(c)
	if res.skipped {
		lib.Stat("skipped-after-huge-allocation")
	}
	n := 0
	for _, o := range res.outs {
		if o.kind == "p" {
			n++
		}
	}
	if n >= 2 {
		lib.Nontrivial()
	}
	if res.open != "" {
		lib.Stat("open:" + res.open)
	}
	if full && !fail {
		chunkingAndErrors(c, res)
	}
	return res.String()
}

func parsePat(s string) bool {
	if s == "" {
		return false
	}
	for _, c := range s {
		if c != 'z' && c != 'c' {
			return false
		}
	}
	return true
}

func exec(a []string) string {
	rep, ok := strm.WithTimeout(60*time.Second, func() string {
		r, _ := lib.Protect(func() string { return exec1(a) })
		return r
	})
	if !ok {
		lib.Finding("C15", "snoop:hang", "operation did not finish within 60 s")
		return "hang"
	}
	return rep
}

func exec1(a []string) string {
	if len(a) < 2 || a[0] != "snoop" {
		return "bad-op"
	}
	switch a[1] {
	case "file":
		if len(a) != 3 {
			return "bad-op"
		}
		b, ok := lib.UnHex(a[2])
		if !ok {
			return "bad-op"
		}
		curFile = b
		return "ok"
	case "read":
		if len(a) != 5 || !parsePat(a[2]) {
			return "bad-op"
		}
		cut, ok := lib.Atou(a[3])
		if !ok || (a[4] != "eof" && a[4] != "fail") {
			return "bad-op"
		}
		data, full := curFile, true
		if cut < uint64(len(data)) {
			data, full = data[:cut], false
		}
		return doRead(a[2], data, a[4] == "fail", full)
	case "readhex":
		if len(a) != 4 || !parsePat(a[2]) {
			return "bad-op"
		}
		b, ok := lib.UnHex(a[3])
		if !ok {
			return "bad-op"
		}
		curFile = b
		return doRead(a[2], b, false, true)
	}
	return "bad-op"
}

func main() {
	lib.Main(lib.Engine{Name: "snoop", Gen: gen, Reset: reset, Exec: exec})
}
