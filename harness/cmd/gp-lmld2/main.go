// gp-lmld2: correspondence adapter + monitors for engine `lmld2`
// (layers/mldv2.go: MLDv2MulticastListenerQueryMessage / MLDv2MulticastListenerReportMessage /
// MLDv2MulticastAddressRecord: DecodeFromBytes, SerializeTo, NextLayerType, MaximumResponseDelay, QQI, the
// registered decoders behind NewPacket and the DecodingLayerParser over {query, report}).
//
// Properties served: C19 (no panics), C05 (no stale state / capacity independence / packet path =
// preallocated path), C06 (round trip), C07 (serializer totality, buffer independence, idempotence).
// The ops protocol is specified in notes/lmld2.md.
package main

import (
	"bytes"
	"encoding/hex"
	"errors"
	"fmt"
	"net"
	"strconv"
	"strings"

	"github.com/gopacket/gopacket"
	"github.com/gopacket/gopacket/layers"
	"verif/harness/lib"
)

type (
	qmsg = layers.MLDv2MulticastListenerQueryMessage
	rmsg = layers.MLDv2MulticastListenerReportMessage
	mrec = layers.MLDv2MulticastAddressRecord
)

type codec interface {
	gopacket.Layer
	gopacket.DecodingLayer
	gopacket.SerializableLayer
}

// ---------------------------------------------------------------- state of one case

var (
	cur     map[string]codec // objects re-used by `redec`
	pQ      *qmsg            // objects owned by the DecodingLayerParsers
	pR      *rmsg
	parsers map[string]*gopacket.DecodingLayerParser
)

var kinds = []string{"query", "report"}

const maxItems = 70000       // items of one list (protocol)
const maxTotalItems = 200000 // items + records of one op (adapter's own allocation cap)

func newObj(kind string) codec {
	switch kind {
	case "query":
		return &qmsg{}
	case "report":
		return &rmsg{}
	}
	return nil
}

func layerTypeOf(kind string) gopacket.LayerType {
	if kind == "query" {
		return layers.LayerTypeMLDv2MulticastListenerQuery
	}
	return layers.LayerTypeMLDv2MulticastListenerReport
}

func reset() {
	cur = map[string]codec{}
	for _, k := range kinds {
		cur[k] = newObj(k)
	}
	newParser()
}

func newParser() {
	pQ = &qmsg{}
	pR = &rmsg{}
	parsers = map[string]*gopacket.DecodingLayerParser{}
	for _, k := range kinds {
		p := gopacket.NewDecodingLayerParser(layerTypeOf(k), pQ, pR)
		p.IgnorePanic = true // let panics through (C19)
		parsers[k] = p
	}
}

func parserObj(kind string) codec {
	if kind == "query" {
		return pQ
	}
	return pR
}

type feedback struct{ truncated bool }

func (f *feedback) SetTruncated() { f.truncated = true }

func b01(b bool) string {
	if b {
		return "1"
	}
	return "0"
}

// ---------------------------------------------------------------- rendering

func innerTok(b []byte) string { // inside lists / records: `_` for the empty byte string
	if len(b) == 0 {
		return "_"
	}
	return hex.EncodeToString(b)
}

func itemsTok(sb *strings.Builder, xs []net.IP) {
	if len(xs) == 0 {
		sb.WriteByte('.')
		return
	}
	for i, x := range xs {
		if i > 0 {
			sb.WriteByte(',')
		}
		sb.WriteString(innerTok(x))
	}
}

func recsTok(sb *strings.Builder, rs []mrec) {
	if len(rs) == 0 {
		sb.WriteByte('.')
		return
	}
	for i := range rs {
		if i > 0 {
			sb.WriteByte(';')
		}
		x := &rs[i]
		fmt.Fprintf(sb, "%d:%d:%d:%s:", uint8(x.RecordType), x.AuxDataLen, x.N, innerTok(x.MulticastAddress))
		itemsTok(sb, x.SourceAddresses)
		sb.WriteByte(':')
		sb.WriteString(innerTok(x.AuxiliaryData))
	}
}

func render(l gopacket.Layer) string {
	var sb strings.Builder
	switch x := l.(type) {
	case *qmsg:
		fmt.Fprintf(&sb, "mrc=%d addr=%s s=%s qrv=%d qqic=%d n=%d srcs=", x.MaximumResponseCode, lib.Hex(x.MulticastAddress),
			b01(x.SuppressRoutersideProcessing), x.QueriersRobustnessVariable, x.QueriersQueryIntervalCode, x.NumberOfSources)
		itemsTok(&sb, x.SourceAddresses)
		fmt.Fprintf(&sb, " mrd=%d qqi=%d contents=%s payload=%s next=%d", int64(x.MaximumResponseDelay()), int64(x.QQI()),
			lib.Hex(x.Contents), lib.Hex(x.Payload), int(x.NextLayerType()))
	case *rmsg:
		fmt.Fprintf(&sb, "nrec=%d recs=", x.NumberOfMulticastAddressRecords)
		recsTok(&sb, x.MulticastAddressRecords)
		fmt.Fprintf(&sb, " contents=%s payload=%s next=%d", lib.Hex(x.Contents), lib.Hex(x.Payload), int(x.NextLayerType()))
	default:
		return "?"
	}
	return sb.String()
}

func ipsEqual(a, b []net.IP) bool {
	if len(a) != len(b) {
		return false
	}
	for i := range a {
		if !bytes.Equal(a[i], b[i]) {
			return false
		}
	}
	return true
}

func recsEqual(a, b []mrec) bool {
	if len(a) != len(b) {
		return false
	}
	for i := range a {
		x, y := &a[i], &b[i]
		if x.RecordType != y.RecordType || x.AuxDataLen != y.AuxDataLen || x.N != y.N ||
			!bytes.Equal(x.MulticastAddress, y.MulticastAddress) || !ipsEqual(x.SourceAddresses, y.SourceAddresses) ||
			!bytes.Equal(x.AuxiliaryData, y.AuxiliaryData) {
			return false
		}
	}
	return true
}

// differingField names the first field in which two layers differ (base: also Contents / Payload).
func differingField(a, b gopacket.Layer, base bool) string {
	switch x := a.(type) {
	case *qmsg:
		y, ok := b.(*qmsg)
		switch {
		case !ok:
			return "type"
		case x.MaximumResponseCode != y.MaximumResponseCode:
			return "MaximumResponseCode"
		case !bytes.Equal(x.MulticastAddress, y.MulticastAddress):
			return "MulticastAddress"
		case x.SuppressRoutersideProcessing != y.SuppressRoutersideProcessing:
			return "SuppressRoutersideProcessing"
		case x.QueriersRobustnessVariable != y.QueriersRobustnessVariable:
			return "QueriersRobustnessVariable"
		case x.QueriersQueryIntervalCode != y.QueriersQueryIntervalCode:
			return "QueriersQueryIntervalCode"
		case x.NumberOfSources != y.NumberOfSources:
			return "NumberOfSources"
		case !ipsEqual(x.SourceAddresses, y.SourceAddresses):
			return "SourceAddresses"
		case base && !bytes.Equal(x.Contents, y.Contents):
			return "Contents"
		case base && !bytes.Equal(x.Payload, y.Payload):
			return "Payload"
		}
		return ""
	case *rmsg:
		y, ok := b.(*rmsg)
		switch {
		case !ok:
			return "type"
		case x.NumberOfMulticastAddressRecords != y.NumberOfMulticastAddressRecords:
			return "NumberOfMulticastAddressRecords"
		case !recsEqual(x.MulticastAddressRecords, y.MulticastAddressRecords):
			return "MulticastAddressRecords"
		case base && !bytes.Equal(x.Contents, y.Contents):
			return "Contents"
		case base && !bytes.Equal(x.Payload, y.Payload):
			return "Payload"
		}
		return ""
	}
	return "type"
}

// ---------------------------------------------------------------- buffers / copies

// inBuf places data at the start of a backing array with `len(foreign)` spare bytes of capacity holding
// the foreign bytes, and returns the slice data[:len] with cap = len + len(foreign).
func inBuf(data, foreign []byte) []byte {
	back := make([]byte, len(data)+len(foreign))
	copy(back, data)
	copy(back[len(data):], foreign)
	return back[:len(data)]
}

func exact(data []byte) []byte { // cap == len
	c := make([]byte, len(data))
	copy(c, data)
	return c[:len(data):len(data)]
}

func exactKeepNil(data []byte) []byte {
	if data == nil {
		return nil
	}
	return exact(data)
}

func cloneIPs(xs []net.IP) []net.IP {
	if xs == nil {
		return nil
	}
	out := make([]net.IP, len(xs))
	for i, x := range xs {
		out[i] = exactKeepNil(x)
	}
	return out
}

// clone: a deep copy of the public fields (every byte string its own allocation with cap == len).
func clone(l codec) codec {
	switch x := l.(type) {
	case *qmsg:
		c := &qmsg{MaximumResponseCode: x.MaximumResponseCode, MulticastAddress: exactKeepNil(x.MulticastAddress),
			SuppressRoutersideProcessing: x.SuppressRoutersideProcessing, QueriersRobustnessVariable: x.QueriersRobustnessVariable,
			QueriersQueryIntervalCode: x.QueriersQueryIntervalCode, NumberOfSources: x.NumberOfSources,
			SourceAddresses: cloneIPs(x.SourceAddresses)}
		c.Contents, c.Payload = exactKeepNil(x.Contents), exactKeepNil(x.Payload)
		return c
	case *rmsg:
		c := &rmsg{NumberOfMulticastAddressRecords: x.NumberOfMulticastAddressRecords}
		c.Contents, c.Payload = exactKeepNil(x.Contents), exactKeepNil(x.Payload)
		if x.MulticastAddressRecords != nil {
			c.MulticastAddressRecords = make([]mrec, len(x.MulticastAddressRecords))
			for i := range x.MulticastAddressRecords {
				s := &x.MulticastAddressRecords[i]
				c.MulticastAddressRecords[i] = mrec{RecordType: s.RecordType, AuxDataLen: s.AuxDataLen, N: s.N,
					MulticastAddress: exactKeepNil(s.MulticastAddress), SourceAddresses: cloneIPs(s.SourceAddresses),
					AuxiliaryData: exactKeepNil(s.AuxiliaryData)}
			}
		}
		return c
	}
	return nil
}

// guarded runs f; a panic is reported as a C19 finding with its site and returned as "panic <kind>".
func guarded(what string, f func() string) string {
	reply, panicked := lib.Protect(f)
	if panicked {
		lib.Finding("C19", "lmld2:panic:"+lib.LastPanicSite, what+" panicked: "+lib.LastPanicMsg)
		lib.Stat("panic")
	}
	return reply
}

// ---------------------------------------------------------------- decode ops

// decInto: DecodeFromBytes into obj; the reply renders the receiver on an error too (what the failed call left).
func decInto(obj codec, data []byte) (string, error, bool) {
	fb := &feedback{}
	err := obj.DecodeFromBytes(data, fb)
	if err != nil {
		return "err trunc=" + b01(fb.truncated) + " | " + render(obj), err, fb.truncated
	}
	return "ok " + render(obj) + " trunc=" + b01(fb.truncated), nil, fb.truncated
}

func bucket(n int) string {
	switch {
	case n <= 2:
		return lib.Itoa(n)
	case n <= 5:
		return "3-5"
	}
	return "6+"
}

func statDec(kind string, obj codec, err error, tr bool) {
	if err != nil {
		lib.Stat(kind + ":dec:err")
		if tr {
			lib.Stat(kind + ":dec:err:truncated")
		} else {
			lib.Stat(kind + ":dec:err:not-truncated")
		}
		return
	}
	lib.Stat(kind + ":dec:ok")
	lib.Nontrivial()
	if len(obj.LayerPayload()) > 0 {
		lib.Stat(kind + ":dec:with-payload")
	}
	switch x := obj.(type) {
	case *qmsg:
		lib.Stat("query:dec:sources=" + bucket(len(x.SourceAddresses)))
		if x.MaximumResponseCode >= 0x8000 {
			lib.Stat("query:dec:mrc-float")
		}
		if x.QueriersQueryIntervalCode >= 128 {
			lib.Stat("query:dec:qqic-float")
		}
	case *rmsg:
		lib.Stat("report:dec:records=" + bucket(len(x.MulticastAddressRecords)))
		for i := range x.MulticastAddressRecords {
			rc := &x.MulticastAddressRecords[i]
			if len(rc.AuxiliaryData) > 0 {
				lib.Stat("report:dec:aux-present")
			}
			lib.Stat("report:dec:record-sources=" + bucket(len(rc.SourceAddresses)))
		}
	}
}

func opDec(kind string, extra int, foreign, data []byte) string {
	if len(foreign) != extra || newObj(kind) == nil {
		return "bad-op"
	}
	return guarded(kind+".DecodeFromBytes", func() string {
		obj := newObj(kind)
		cur[kind] = obj
		reply, err, tr := decInto(obj, inBuf(data, foreign))
		statDec(kind, obj, err, tr)
		if got := obj.CanDecode(); got != gopacket.LayerClass(layerTypeOf(kind)) || obj.LayerType() != layerTypeOf(kind) {
			lib.Finding("C05", "lmld2:candecode:"+kind, "CanDecode / LayerType is not the layer's own type")
		}
		// C05 oracle: the same bytes in a buffer with cap == len
		ref := newObj(kind)
		refReply, _, _ := decInto(ref, exact(data))
		if reply != refReply {
			lib.Finding("C05", "lmld2:cap-dependent", kind+" decode depends on spare capacity / foreign bytes: "+clip(reply)+" vs "+clip(refReply))
		}
		if extra > 0 {
			lib.Stat(kind + ":dec:spare-cap")
		}
		return reply
	})
}

func clip(s string) string {
	if len(s) > 300 {
		return s[:300] + "…"
	}
	return s
}

func opRedec(kind string, data []byte) string {
	if newObj(kind) == nil {
		return "bad-op"
	}
	return guarded(kind+".DecodeFromBytes", func() string {
		obj := cur[kind]
		reply, err, tr := decInto(obj, exact(data))
		statDec(kind, obj, err, tr)
		lib.Stat(kind + ":redec")
		fresh := newObj(kind)
		fb := &feedback{}
		ferr := fresh.DecodeFromBytes(exact(data), fb)
		if (ferr != nil) != (err != nil) {
			lib.Finding("C05", "lmld2:stale:error", kind+": reused object and fresh object disagree on the error")
		} else {
			if err == nil {
				if f := differingField(obj, fresh, true); f != "" {
					lib.Finding("C05", "lmld2:stale:"+f, kind+"."+f+" differs between a reused and a fresh object")
				}
			}
			if fb.truncated != tr {
				lib.Finding("C05", "lmld2:stale:Truncated", kind+": truncation flag differs between a reused and a fresh object")
			}
		}
		return reply
	})
}

// ---------------------------------------------------------------- parsing of layer values

// parseNat: decimal digits only (as Lean's String.toNat?), value ≤ max.
func parseNat(s string, max int) (int, bool) {
	if s == "" || len(s) > 9 {
		return 0, false
	}
	for i := 0; i < len(s); i++ {
		if s[i] < '0' || s[i] > '9' {
			return 0, false
		}
	}
	v, err := strconv.Atoi(s)
	if err != nil || v > max {
		return 0, false
	}
	return v, true
}

func parseBool(s string) (bool, bool) {
	switch s {
	case "1":
		return true, true
	case "0":
		return false, true
	}
	return false, false
}

// strictHex: non-empty lower/upper hex (no `-`).
func strictHex(s string) ([]byte, bool) {
	if s == "" {
		return nil, false
	}
	b, err := hex.DecodeString(s)
	if err != nil {
		return nil, false
	}
	return exact(b), true
}

// parseInner: hex | `_` (nil).
func parseInner(s string) ([]byte, bool) {
	if s == "_" {
		return nil, true
	}
	return strictHex(s)
}

// parseTopAddr: hex | `-` | `_` (both nil).
func parseTopAddr(s string) (net.IP, bool) {
	if s == "-" || s == "_" {
		return nil, true
	}
	b, ok := strictHex(s)
	return b, ok
}

// parseItems: `.` | item{,item}; item = hex | `_` | r<n>x<item>
func parseItems(s string, budget *int) ([]net.IP, bool) {
	if s == "." {
		return nil, true
	}
	var out []net.IP
	for _, it := range strings.Split(s, ",") {
		if strings.HasPrefix(it, "r") {
			parts := strings.SplitN(it[1:], "x", 2)
			if len(parts) != 2 {
				return nil, false
			}
			n, ok := parseNat(parts[0], maxItems)
			b, ok2 := parseInner(parts[1])
			if !ok || !ok2 || len(out)+n > maxItems {
				return nil, false
			}
			*budget -= n
			if *budget < 0 {
				return nil, false
			}
			for i := 0; i < n; i++ {
				out = append(out, exactKeepNil(b))
			}
			continue
		}
		b, ok := parseInner(it)
		if !ok || len(out)+1 > maxItems {
			return nil, false
		}
		*budget--
		if *budget < 0 {
			return nil, false
		}
		out = append(out, b)
	}
	return out, true
}

// parseRepeat: z<n>x<hh>
func parseRepeat(s string) ([]byte, bool) {
	parts := strings.Split(s[1:], "x")
	if len(parts) != 2 {
		return nil, false
	}
	n, ok := parseNat(parts[0], 200000)
	v, ok2 := strictHex(parts[1])
	if !ok || !ok2 || len(v) != 1 {
		return nil, false
	}
	return exact(bytes.Repeat(v, n)), true
}

func parsePayload(s string) ([]byte, bool) {
	if strings.HasPrefix(s, "z") {
		return parseRepeat(s)
	}
	if s == "-" {
		return []byte{}, true
	}
	return strictHex(s)
}

func parseAux(s string) ([]byte, bool) {
	if strings.HasPrefix(s, "z") {
		return parseRepeat(s)
	}
	return parseInner(s)
}

func parseRecs(s string, budget *int) ([]mrec, bool) {
	if s == "." {
		return nil, true
	}
	var out []mrec
	for _, rs := range strings.Split(s, ";") {
		f := strings.Split(rs, ":")
		if len(f) != 6 {
			return nil, false
		}
		typ, ok1 := parseNat(f[0], 255)
		al, ok2 := parseNat(f[1], 255)
		n, ok3 := parseNat(f[2], 65535)
		addr, ok4 := parseInner(f[3])
		srcs, ok5 := parseItems(f[4], budget)
		aux, ok6 := parseAux(f[5])
		*budget--
		if !(ok1 && ok2 && ok3 && ok4 && ok5 && ok6) || *budget < 0 || len(out) >= maxItems {
			return nil, false
		}
		out = append(out, mrec{RecordType: layers.MLDv2MulticastAddressRecordType(typ), AuxDataLen: uint8(al), N: uint16(n),
			MulticastAddress: addr, SourceAddresses: srcs, AuxiliaryData: aux})
	}
	return out, true
}

// parseQuery: <mrc> <addr> <s> <qrv> <qqic> <n> <srcs>
func parseQuery(a []string) (*qmsg, bool) {
	if len(a) != 7 {
		return nil, false
	}
	budget := maxTotalItems
	mrc, ok1 := parseNat(a[0], 65535)
	addr, ok2 := parseTopAddr(a[1])
	s, ok3 := parseBool(a[2])
	qrv, ok4 := parseNat(a[3], 255)
	qqic, ok5 := parseNat(a[4], 255)
	n, ok6 := parseNat(a[5], 65535)
	srcs, ok7 := parseItems(a[6], &budget)
	if !(ok1 && ok2 && ok3 && ok4 && ok5 && ok6 && ok7) {
		return nil, false
	}
	return &qmsg{MaximumResponseCode: uint16(mrc), MulticastAddress: addr, SuppressRoutersideProcessing: s,
		QueriersRobustnessVariable: uint8(qrv), QueriersQueryIntervalCode: uint8(qqic), NumberOfSources: uint16(n), SourceAddresses: srcs}, true
}

// parseReport: <nrec> <recs>
func parseReport(a []string) (*rmsg, bool) {
	if len(a) != 2 {
		return nil, false
	}
	budget := maxTotalItems
	nrec, ok1 := parseNat(a[0], 65535)
	recs, ok2 := parseRecs(a[1], &budget)
	if !(ok1 && ok2) {
		return nil, false
	}
	return &rmsg{NumberOfMulticastAddressRecords: uint16(nrec), MulticastAddressRecords: recs}, true
}

func parseLayer(kind string, a []string) (codec, bool) {
	switch kind {
	case "query":
		q, ok := parseQuery(a)
		return q, ok
	case "report":
		r, ok := parseReport(a)
		return r, ok
	}
	return nil, false
}

// ---------------------------------------------------------------- serialize ops

func mkBuffer(hist string) (gopacket.SerializeBuffer, bool) {
	switch {
	case hist == "fresh":
		return gopacket.NewSerializeBuffer(), true
	case strings.HasPrefix(hist, "dirty"):
		v, ok := parseNat(hist[5:], 255)
		if !ok {
			return nil, false
		}
		b := gopacket.NewSerializeBuffer()
		s, _ := b.AppendBytes(64)
		for i := range s {
			s[i] = byte(v)
		}
		s, _ = b.PrependBytes(64)
		for i := range s {
			s[i] = byte(v)
		}
		b.Clear()
		return b, true
	case strings.HasPrefix(hist, "sized"):
		n, ok := parseNat(hist[5:], 99999)
		if !ok {
			return nil, false
		}
		return gopacket.NewSerializeBufferExpectedSize(n, n), true
	}
	return nil, false
}

// serOnce serialises payload p and then layer l into buffer b; a panic becomes a C07 finding.
func serOnce(l gopacket.SerializableLayer, b gopacket.SerializeBuffer, p []byte, opts gopacket.SerializeOptions) (out []byte, failed bool, panicked bool) {
	reply, pk := lib.Protect(func() string {
		if err := gopacket.Payload(p).SerializeTo(b, opts); err != nil {
			return "err"
		}
		if err := l.SerializeTo(b, opts); err != nil {
			return "err"
		}
		return "ok"
	})
	if pk {
		lib.Finding("C07", "lmld2:ser-panic:"+lib.LastPanicSite, "SerializeTo panicked: "+lib.LastPanicMsg)
		lib.Stat("ser-panic")
		return nil, false, true
	}
	if reply == "err" {
		return nil, true, false
	}
	return append([]byte(nil), b.Bytes()...), false, false
}

func histKind(h string) string { return strings.TrimRight(h, "0123456789") }

func opSer(kind string, a []string) string {
	// fix csum hist <layer…> payload
	if len(a) < 5 || newObj(kind) == nil {
		return "bad-op"
	}
	fix, ok1 := parseBool(a[0])
	csum, ok2 := parseBool(a[1])
	b, ok3 := mkBuffer(a[2])
	l, ok4 := parseLayer(kind, a[3:len(a)-1])
	p, ok5 := parsePayload(a[len(a)-1])
	if !(ok1 && ok2 && ok3 && ok4 && ok5) {
		return "bad-op"
	}
	hist := a[2]
	opts := gopacket.SerializeOptions{FixLengths: fix, ComputeChecksums: csum}
	orig := clone(l)
	out, failed, pk := serOnce(l, b, p, opts)
	if pk {
		return "panic " + lib.PanicKind(lib.LastPanicMsg)
	}
	lib.Stat("ser:hist:" + histKind(hist))
	lib.Stat(fmt.Sprintf("ser:opts:fix%s-csum%s", a[0], a[1]))
	// C07 oracle (a): the outcome does not depend on the buffer's history
	if hist != "fresh" {
		ro, rf, rpk := serOnce(clone(orig), gopacket.NewSerializeBuffer(), p, opts)
		if !rpk && (rf != failed || (!rf && !bytes.Equal(ro, out))) {
			lib.Finding("C07", "lmld2:dirty-buffer", kind+": output differs between a fresh buffer and "+hist)
		}
	}
	if failed {
		lib.Stat(kind + ":ser:err")
		return "err | " + render(l)
	}
	lib.Stat(kind + ":ser:ok")
	lib.Nontrivial()
	if f := differingField(l, orig, false); f != "" {
		lib.Stat(kind + ":ser:mutated:" + f)
	}
	b2, _ := mkBuffer(hist)
	out2, failed2, pk2 := serOnce(l, b2, p, opts)
	if pk2 {
		return "panic " + lib.PanicKind(lib.LastPanicMsg)
	}
	again := "same"
	switch {
	case failed2:
		again = "err"
	case !bytes.Equal(out, out2):
		again = "diff"
	}
	// C07 oracle (b): idempotence
	if again != "same" {
		lib.Finding("C07", "lmld2:not-idempotent", kind+": serialising the same layer twice: again="+again)
	}
	return "ok bytes=" + lib.Hex(out) + " | " + render(l) + " | again=" + again
}

// ---------------------------------------------------------------- round trip

var rtOpts = gopacket.SerializeOptions{FixLengths: true, ComputeChecksums: true}

func all16(xs []net.IP) bool {
	for _, x := range xs {
		if len(x) != 16 {
			return false
		}
	}
	return true
}

// wf: is the layer inside the round-trip claim.
func wf(l codec) bool {
	switch x := l.(type) {
	case *qmsg:
		return len(x.MulticastAddress) == 16 && all16(x.SourceAddresses) && x.QueriersRobustnessVariable <= 7 && len(x.SourceAddresses) <= 65535
	case *rmsg:
		if len(x.MulticastAddressRecords) > 65535 {
			return false
		}
		for i := range x.MulticastAddressRecords {
			rc := &x.MulticastAddressRecords[i]
			if len(rc.MulticastAddress) != 16 || !all16(rc.SourceAddresses) || len(rc.SourceAddresses) > 65535 || len(rc.AuxiliaryData) > 1020 {
				return false
			}
		}
		return true
	}
	return false
}

// fixed: what the layer must be after FixLengths (independent of the serializer): the counters follow the lists,
// auxiliary data is zero-padded to whole 32-bit words.
func fixed(l codec) codec {
	c := clone(l)
	switch x := c.(type) {
	case *qmsg:
		x.NumberOfSources = uint16(len(x.SourceAddresses))
	case *rmsg:
		x.NumberOfMulticastAddressRecords = uint16(len(x.MulticastAddressRecords))
		for i := range x.MulticastAddressRecords {
			rc := &x.MulticastAddressRecords[i]
			rc.N = uint16(len(rc.SourceAddresses))
			for len(rc.AuxiliaryData)%4 != 0 {
				rc.AuxiliaryData = append(rc.AuxiliaryData, 0)
			}
			rc.AuxDataLen = uint8(len(rc.AuxiliaryData) / 4)
		}
	}
	return c
}

func serLayers(l gopacket.SerializableLayer, p []byte) (out []byte, failed, panicked bool) {
	reply, pk := lib.Protect(func() string {
		buf := gopacket.NewSerializeBuffer()
		if err := gopacket.SerializeLayers(buf, rtOpts, l, gopacket.Payload(p)); err != nil {
			return "err"
		}
		out = append([]byte(nil), buf.Bytes()...)
		return "ok"
	})
	if pk {
		lib.Finding("C07", "lmld2:ser-panic:"+lib.LastPanicSite, "SerializeLayers panicked: "+lib.LastPanicMsg)
		lib.Stat("ser-panic")
		return nil, false, true
	}
	return out, reply == "err", false
}

func opRt(kind string, a []string) string {
	// <layer…> payload
	if len(a) < 2 || newObj(kind) == nil {
		return "bad-op"
	}
	l, ok1 := parseLayer(kind, a[:len(a)-1])
	p, ok2 := parsePayload(a[len(a)-1])
	if !(ok1 && ok2) {
		return "bad-op"
	}
	isWf := wf(l)
	want := fixed(l)
	out, failed, pk := serLayers(l, p)
	if pk {
		return "panic " + lib.PanicKind(lib.LastPanicMsg)
	}
	if isWf {
		lib.Stat(kind + ":rt:wf")
	} else {
		lib.Stat(kind + ":rt:not-wf")
	}
	if failed {
		lib.Stat(kind + ":rt:ser-err")
		if isWf {
			lib.Finding("C06", "lmld2:roundtrip:ser-error", kind+": serialising a well-formed layer fails")
		}
		return "ser-err"
	}
	return guarded("decode of a serialised "+kind, func() string {
		d := newObj(kind)
		dreply, derr, dtr := decInto(d, exact(out))
		again := "none"
		if derr == nil {
			out2, f2, pk2 := serLayers(d, d.LayerPayload())
			switch {
			case pk2:
				return "panic " + lib.PanicKind(lib.LastPanicMsg)
			case f2:
				again = "err"
			case bytes.Equal(out2, out):
				again = "same"
			default:
				again = "diff"
			}
		}
		// C06 oracle (independent statement of the property for this layer)
		if isWf {
			lib.Nontrivial()
			switch {
			case derr != nil:
				lib.Finding("C06", "lmld2:roundtrip:error", kind+": decoding the serialised well-formed layer fails")
			case dtr:
				lib.Finding("C06", "lmld2:roundtrip:Truncated", kind+": truncation flag set on a round trip")
			case differingField(d, want, false) != "":
				f := differingField(d, want, false)
				lib.Finding("C06", "lmld2:roundtrip:"+f, kind+"."+f+" changed on a round trip")
			case differingField(l, want, false) != "":
				// the serialised layer itself (mutated by FixLengths / padding) must agree with what was decoded
				f := differingField(l, want, false)
				lib.Finding("C06", "lmld2:roundtrip:"+f, kind+"."+f+" of the serialised layer is not what FixLengths should leave")
			case !bytes.Equal(d.LayerPayload(), p):
				lib.Finding("C06", "lmld2:roundtrip:Payload", kind+": payload changed on a round trip")
			case again != "same":
				lib.Finding("C06", "lmld2:roundtrip:reserialize", kind+": serialising the decoded layer again gives "+again)
			}
		}
		return "ok bytes=" + lib.Hex(out) + " | " + dreply + " | again=" + again
	})
}

// ---------------------------------------------------------------- NewPacket / DecodingLayerParser

func opPkt(kind, mode string, extra int, foreign, data []byte) string {
	if len(foreign) != extra || (mode != "copy" && mode != "nocopy" && mode != "lazy") || newObj(kind) == nil {
		return "bad-op"
	}
	first := layerTypeOf(kind)
	return guarded("NewPacket("+mode+", SkipDecodeRecovery)", func() string {
		opts := gopacket.DecodeOptions{SkipDecodeRecovery: true}
		switch mode {
		case "nocopy":
			opts.NoCopy = true
		case "lazy":
			opts.Lazy = true
			opts.NoCopy = true
		}
		p := gopacket.NewPacket(inBuf(data, foreign), first, opts)
		ls := p.Layers()
		tr := p.Metadata().Truncated
		lib.Stat("pkt:" + kind + ":" + mode)
		ref := newObj(kind)
		refErr := ref.DecodeFromBytes(exact(data), &feedback{})
		if len(ls) == 0 || ls[0].LayerType() != first {
			lib.Stat("pkt:" + kind + ":fail")
			if refErr == nil {
				lib.Finding("C05", "lmld2:pkt-differs", "NewPacket("+mode+") has no "+kind+" layer although a direct fresh DecodeFromBytes succeeds")
			}
			return "fail trunc=" + b01(tr)
		}
		// C05 oracle: the first layer equals a direct fresh decode
		if refErr != nil || render(ls[0]) != render(ref) {
			lib.Finding("C05", "lmld2:pkt-differs", "first layer built by NewPacket("+mode+") differs from a direct fresh DecodeFromBytes")
		}
		lib.Nontrivial()
		lib.Stat(fmt.Sprintf("pkt:%s:layers=%d", kind, len(ls)))
		// read-only renderers on the decoded packet
		if _, pk := lib.Protect(func() string { _ = p.String(); return "" }); pk {
			lib.Finding("C19", "lmld2:panic:"+lib.LastPanicSite, "Packet.String panicked: "+lib.LastPanicMsg)
		}
		return "ok " + render(ls[0]) + " trunc=" + b01(tr) + " layers=" + lib.Itoa(len(ls))
	})
}

func opDlp(re bool, kind string, data []byte) string {
	if newObj(kind) == nil {
		return "bad-op"
	}
	if !re {
		newParser()
	}
	parser := parsers[kind]
	obj := parserObj(kind)
	first := layerTypeOf(kind)
	return guarded("DecodingLayerParser.DecodeLayers", func() string {
		var decoded []gopacket.LayerType
		err := parser.DecodeLayers(exact(data), &decoded)
		code := 0
		var unsup gopacket.UnsupportedLayerType
		if errors.As(err, &unsup) {
			code = 2
		} else if err != nil {
			code = 1
		}
		ds := make([]string, len(decoded))
		for i, t := range decoded {
			ds[i] = lib.Itoa(int(t))
		}
		dec := "-"
		if len(ds) > 0 {
			dec = strings.Join(ds, ",")
		}
		what := "dlp"
		if re {
			what = "redlp"
		}
		lib.Stat(fmt.Sprintf("%s:%s:layers=%d:code=%d", what, kind, len(decoded), code))
		if len(decoded) >= 1 {
			lib.Nontrivial()
			// C05 oracle: the parser's object equals a direct fresh decode of the same bytes
			if decoded[0] == first {
				ref := newObj(kind)
				if rerr := ref.DecodeFromBytes(exact(data), &feedback{}); rerr != nil {
					lib.Finding("C05", "lmld2:dlp-differs", kind+": the parser decoded a layer, a direct fresh DecodeFromBytes fails")
				} else if f := differingField(obj, ref, true); f != "" {
					lib.Finding("C05", "lmld2:dlp-differs", kind+": parser's layer differs from a direct fresh DecodeFromBytes: "+f)
				}
			} else {
				lib.Finding("C05", "lmld2:dlp-differs", kind+": the parser's first decoded layer is not its first type")
			}
		}
		return fmt.Sprintf("decoded=%s code=%d trunc=%s | %s", dec, code, b01(parser.Truncated), render(obj))
	})
}

// ---------------------------------------------------------------- dispatcher

func exec(a []string) string {
	if len(a) < 2 || a[0] != "lmld2" {
		return "bad-op"
	}
	switch a[1] {
	case "dec":
		if len(a) != 6 {
			return "bad-op"
		}
		extra, ok1 := parseNat(a[3], 1<<24)
		foreign, ok2 := lib.UnHex(a[4])
		data, ok3 := lib.UnHex(a[5])
		if !ok1 || !ok2 || !ok3 {
			return "bad-op"
		}
		return opDec(a[2], extra, foreign, data)
	case "redec":
		if len(a) != 4 {
			return "bad-op"
		}
		data, ok := lib.UnHex(a[3])
		if !ok {
			return "bad-op"
		}
		return opRedec(a[2], data)
	case "ser":
		if len(a) < 4 {
			return "bad-op"
		}
		return opSer(a[2], a[3:])
	case "rt":
		if len(a) < 4 {
			return "bad-op"
		}
		return opRt(a[2], a[3:])
	case "pkt":
		if len(a) != 7 {
			return "bad-op"
		}
		extra, ok1 := parseNat(a[4], 1<<24)
		foreign, ok2 := lib.UnHex(a[5])
		data, ok3 := lib.UnHex(a[6])
		if !ok1 || !ok2 || !ok3 {
			return "bad-op"
		}
		return opPkt(a[2], a[3], extra, foreign, data)
	case "dlp", "redlp":
		if len(a) != 4 {
			return "bad-op"
		}
		data, ok := lib.UnHex(a[3])
		if !ok {
			return "bad-op"
		}
		return opDlp(a[1] == "redlp", a[2], data)
	}
	return "bad-op"
}

func main() {
	reset()
	lib.Main(lib.Engine{Name: "lmld2", Gen: gen, Reset: reset, Exec: exec})
}
