package main

import (
	"fmt"
	"go/ast"
	goparser "go/parser"
	"go/token"
	"net"
	"os"
	"path/filepath"
	"strconv"
	"strings"

	"github.com/gopacket/gopacket"
	"github.com/gopacket/gopacket/layers"
	"verif/harness/lib"
)

// ---------------------------------------------------------------- fixtures

// literals collects every `[]byte{…}` literal (all elements literal) of layers/mldv2_test.go.
func literals() [][]byte {
	repo := os.Getenv("VERIF_REPO")
	if repo == "" {
		repo = "/repo"
	}
	var out [][]byte
	fset := token.NewFileSet()
	f, err := goparser.ParseFile(fset, filepath.Join(repo, "layers", "mldv2_test.go"), nil, 0)
	if err != nil {
		return nil
	}
	ast.Inspect(f, func(n ast.Node) bool {
		cl, ok := n.(*ast.CompositeLit)
		if !ok {
			return true
		}
		at, ok := cl.Type.(*ast.ArrayType)
		if !ok || at.Len != nil {
			return true
		}
		id, ok := at.Elt.(*ast.Ident)
		if !ok || (id.Name != "byte" && id.Name != "uint8") {
			return true
		}
		b := make([]byte, 0, len(cl.Elts))
		for _, e := range cl.Elts {
			bl, ok := e.(*ast.BasicLit)
			if !ok || bl.Kind != token.INT {
				return true
			}
			v, err := strconv.ParseUint(bl.Value, 0, 8)
			if err != nil {
				return true
			}
			b = append(b, byte(v))
		}
		if len(b) >= 4 && len(b) <= 1600 {
			out = append(out, b)
		}
		return true
	})
	return out
}

// fixtures: bodies of MLDv2 messages (what the MLDv2 decoders get).
type fixtures struct{ q, r [][]byte }

func (fx *fixtures) of(kind string) [][]byte {
	if kind == "query" {
		return fx.q
	}
	return fx.r
}

// harvest decodes the test literals of the repository as Ethernet (recovery on) and keeps the bodies behind ICMPv6.
func harvest(fx *fixtures) {
	for _, lit := range literals() {
		func() {
			defer func() { recover() }()
			p := gopacket.NewPacket(lit, layers.LayerTypeEthernet, gopacket.DecodeOptions{})
			for _, l := range p.Layers() {
				ic, ok := l.(*layers.ICMPv6)
				if !ok || ic == nil || len(ic.Payload) == 0 || len(ic.Payload) > 400 {
					continue
				}
				body := append([]byte(nil), ic.Payload...)
				switch ic.TypeCode.Type() {
				case 130:
					if len(body) >= 24 {
						fx.q = append(fx.q, body)
					}
				case 143:
					fx.r = append(fx.r, body)
				}
			}
		}()
	}
}

var addrs = []net.IP{
	net.ParseIP("::"), net.ParseIP("ff02::1"), net.ParseIP("ff02::db8:1122:3344"), net.ParseIP("ff05::1:3"),
	net.ParseIP("::ffff:224.0.0.1"), net.ParseIP("ffff:ffff:ffff:ffff:ffff:ffff:ffff:ffff"), net.ParseIP("2001:db8::1"),
}

func serFix(ls ...gopacket.SerializableLayer) (out []byte) {
	defer func() { // a panicking serializer must not kill the generator: the executor's monitors report it
		if recover() != nil {
			out = nil
		}
	}()
	b := gopacket.NewSerializeBuffer()
	if err := gopacket.SerializeLayers(b, gopacket.SerializeOptions{FixLengths: true}, ls...); err != nil {
		return nil
	}
	return append([]byte(nil), b.Bytes()...)
}

// built fixtures: messages produced by the repository's own serializers.
func built(r *lib.Rand, fx *fixtures) {
	ips := func(n int) []net.IP {
		out := make([]net.IP, n)
		for i := range out {
			out[i] = net.IP(r.Bytes(16))
		}
		return out
	}
	mrcs := []int{0, 1, 10000, 0x7fff, 0x8000, 0x8abc, 0xffff}
	qqics := []int{0, 1, 125, 127, 128, 0x9f, 255}
	for _, ns := range []int{0, 1, 2, 5} {
		for _, np := range []int{0, 1, 4, 7} {
			q := &qmsg{MaximumResponseCode: uint16(r.Pick(mrcs)), MulticastAddress: exact(addrs[r.Intn(len(addrs))]),
				SuppressRoutersideProcessing: r.Bool(), QueriersRobustnessVariable: uint8(r.Intn(8)),
				QueriersQueryIntervalCode: uint8(r.Pick(qqics)), SourceAddresses: ips(ns)}
			fx.q = append(fx.q, serFix(q, gopacket.Payload(r.Bytes(np))))
		}
	}
	for nr := 0; nr <= 4; nr++ {
		for _, np := range []int{0, 1, 4, 7} {
			m := &rmsg{}
			for i := 0; i < nr; i++ {
				m.MulticastAddressRecords = append(m.MulticastAddressRecords, mrec{
					RecordType: layers.MLDv2MulticastAddressRecordType(1 + r.Intn(6)), MulticastAddress: exact(addrs[r.Intn(len(addrs))]),
					SourceAddresses: ips(r.Intn(4)), AuxiliaryData: exact(r.Bytes(4 * r.Intn(3)))})
			}
			fx.r = append(fx.r, serFix(m, gopacket.Payload(r.Bytes(np))))
		}
	}
}

func hx(b []byte) string { return lib.Hex(b) }

func setU16(b []byte, off int, v int) []byte {
	c := append([]byte(nil), b...)
	if off+1 < len(c) {
		c[off] = byte(v >> 8)
		c[off+1] = byte(v)
	}
	return c
}

func setByte(b []byte, off int, v int) []byte {
	c := append([]byte(nil), b...)
	if off < len(c) {
		c[off] = byte(v)
	}
	return c
}

func u16At(b []byte, off int) int {
	if off+1 < len(b) {
		return int(b[off])<<8 | int(b[off+1])
	}
	return 0
}

// ---------------------------------------------------------------- token builders for ser / rt

type tokGen struct {
	r    *lib.Rand
	huge *int // how many 65535/65536-item lists may still be emitted (their replies are megabytes long)
}

var addrLens = []int{0, 1, 3, 4, 5, 15, 16, 17, 20}
var auxLens = []int{0, 1, 2, 3, 4, 5, 6, 7, 8, 1020, 1021, 1024, 1028}

func (g tokGen) inner(n int) string {
	if n == 0 {
		return "_"
	}
	return hx(g.r.Bytes(n))
}

// srcs: a list token and its length.
func (g tokGen) srcs(wf, huge bool) (string, int) {
	r := g.r
	if huge && *g.huge > 0 && r.Chance(3) {
		*g.huge--
		if wf || r.Bool() {
			return "r300x" + hx(r.Bytes(16)), 300 // (65535 items make the list-based model driver quadratic: minutes per op)
		}
		return "r65536x_", 65536
	}
	n := r.Intn(7)
	if n == 0 {
		return ".", 0
	}
	items := make([]string, n)
	for i := range items {
		l := 16
		if !wf && r.Chance(25) {
			l = r.Pick(addrLens)
		}
		items[i] = g.inner(l)
	}
	if r.Chance(8) { // the compact form inside a list
		items[r.Intn(n)] = "r2x" + g.inner(16)
		n++
	}
	return strings.Join(items, ","), n
}

func (g tokGen) count(actual, max int, consistent bool) int {
	r := g.r
	if consistent || r.Chance(55) {
		if actual > max {
			return max
		}
		return actual
	}
	switch r.Intn(5) {
	case 0:
		return 0
	case 1:
		return 1
	case 2:
		if actual+1 <= max {
			return actual + 1
		}
		return max
	case 3:
		return max
	}
	return r.Intn(max + 1)
}

func (g tokGen) aux(wf bool) (string, int) {
	r := g.r
	n := r.Pick(auxLens)
	if r.Chance(40) {
		n = r.Pick([]int{0, 0, 4, 8, 12})
	}
	if wf && n > 1020 {
		n = 1020
	}
	switch {
	case n == 0:
		return "_", 0
	case n > 64 && r.Chance(70):
		return fmt.Sprintf("z%dx%02x", n, r.Intn(256)), n
	}
	return hx(r.Bytes(n)), n
}

func (g tokGen) rec(wf, huge bool) string {
	r := g.r
	st, ns := g.srcs(wf, huge)
	at, na := g.aux(wf)
	al := (na + 3) / 4
	typ := 1 + r.Intn(6)
	if r.Chance(15) {
		typ = r.Pick([]int{0, 7, 255, r.Intn(256)})
	}
	alen := 16
	if !wf && r.Chance(20) {
		alen = r.Pick(addrLens)
	}
	return fmt.Sprintf("%d:%d:%d:%s:%s:%s", typ, g.count(al, 255, false), g.count(ns, 65535, false), g.inner(alen), st, at)
}

func (g tokGen) report(wf bool) string {
	r := g.r
	n := r.Intn(5)
	if r.Chance(5) {
		n = 5 + r.Intn(8)
	}
	recs := "."
	if n > 0 {
		rs := make([]string, n)
		for i := range rs {
			rs[i] = g.rec(wf, n <= 2)
		}
		recs = strings.Join(rs, ";")
	}
	return fmt.Sprintf("%d %s", g.count(n, 65535, false), recs)
}

func (g tokGen) query(wf bool) string {
	r := g.r
	mrc := r.Pick([]int{0, 1, 1000, 0x7fff, 0x8000, 0x8001, 0xffff, r.Intn(65536), r.Intn(65536)})
	addr := hx(r.Bytes(16))
	if r.Chance(30) {
		addr = hx(addrs[r.Intn(len(addrs))])
	}
	if !wf && r.Chance(35) {
		switch l := r.Pick(addrLens); {
		case l == 0 && r.Bool():
			addr = "-"
		case l == 0:
			addr = "_"
		default:
			addr = hx(r.Bytes(l))
		}
	}
	qrv := r.Intn(8)
	if !wf && r.Chance(25) {
		qrv = r.Pick([]int{8, 15, 16, 255, r.Intn(256)})
	}
	qqic := r.Pick([]int{0, 1, 127, 128, 129, 255, r.Intn(256), r.Intn(256)})
	st, ns := g.srcs(wf, true)
	return fmt.Sprintf("%d %s %d %d %d %d %s", mrc, addr, r.Intn(2), qrv, qqic, g.count(ns, 65535, false), st)
}

func (g tokGen) layer(kind string, wf bool) string {
	if kind == "query" {
		return g.query(wf)
	}
	return g.report(wf)
}

func (g tokGen) payload() string {
	r := g.r
	if r.Chance(3) {
		return fmt.Sprintf("z%dx%02x", r.Pick([]int{1480, 1500, 1520, 70000}), r.Intn(256))
	}
	n := r.Pick([]int{0, 0, 1, 3, 4, 7, r.Intn(65)})
	return hx(r.Bytes(n))
}

func (g tokGen) hist() string {
	r := g.r
	switch r.Intn(4) {
	case 0:
		return "fresh"
	case 1:
		return fmt.Sprintf("dirty%d", r.Intn(256))
	case 2:
		return fmt.Sprintf("sized%d", r.Pick([]int{0, 1, 8, 24, 60, 3000, r.Intn(500), r.Intn(99999)}))
	}
	return []string{"fresh", "dirty165", "dirty90", "dirty255", "sized0", "sized20", "sized60"}[r.Intn(7)]
}

// ---------------------------------------------------------------- generator

func gen(r *lib.Rand, tier string, emit func(string)) {
	thorough := tier == "thorough"
	scale := 1
	if thorough {
		scale = 30
	}
	emit("reset")

	fx := &fixtures{}
	built(r, fx)
	harvest(fx)
	clean := func(fs [][]byte, min int, dflt []byte) [][]byte { // drop fixtures the (possibly broken) serializers could not build
		var keep [][]byte
		for _, f := range fs {
			if len(f) >= min {
				keep = append(keep, f)
			}
		}
		if len(keep) == 0 {
			keep = [][]byte{dflt}
		}
		for i := len(keep) - 1; i > 0; i-- { // seeded shuffle: different seeds favour different fixtures
			j := r.Intn(i + 1)
			keep[i], keep[j] = keep[j], keep[i]
		}
		return keep
	}
	dfltQ := append(append([]byte{0x27, 0x10, 0, 0}, net.ParseIP("ff02::1")...), append([]byte{0x0a, 0x7d, 0, 1}, net.ParseIP("2001:db8::7")...)...)
	dfltR := append(append([]byte{0, 0, 0, 1, 4, 0, 0, 1}, net.ParseIP("ff02::db8:1")...), net.ParseIP("2001:db8::9")...)
	fx.q = clean(fx.q, 24, dfltQ)
	fx.r = clean(fx.r, 4, dfltR)
	other := func(k string) string {
		if k == "query" {
			return "report"
		}
		return "query"
	}
	lim := func(n, quick int) int {
		if !thorough && n > quick {
			return quick
		}
		return n
	}
	extras := []int{0, 7, 40}
	hugeBudget := 3 // for section F; section G gets its own
	if thorough {
		hugeBudget = 8
	}
	g := tokGen{r, &hugeBudget}

	// A. every fixture through every decode path
	for _, k := range kinds {
		for _, f := range fx.of(k) {
			emit("reset")
			emit(fmt.Sprintf("lmld2 dec %s 0 - %s", k, hx(f)))
			emit(fmt.Sprintf("lmld2 dec %s 7 %s %s", k, hx(r.Bytes(7)), hx(f)))
			emit(fmt.Sprintf("lmld2 dec %s 40 %s %s", k, hx(r.Bytes(40)), hx(f)))
			emit(fmt.Sprintf("lmld2 redec %s %s", k, hx(f)))
			emit(fmt.Sprintf("lmld2 pkt %s copy 0 - %s", k, hx(f)))
			emit(fmt.Sprintf("lmld2 pkt %s nocopy 7 %s %s", k, hx(r.Bytes(7)), hx(f)))
			emit(fmt.Sprintf("lmld2 pkt %s lazy 40 %s %s", k, hx(r.Bytes(40)), hx(f)))
			emit(fmt.Sprintf("lmld2 dlp %s %s", k, hx(f)))
			emit(fmt.Sprintf("lmld2 redlp %s %s", k, hx(f)))
			// the same bytes as the other kind
			emit(fmt.Sprintf("lmld2 dec %s 0 - %s", other(k), hx(f)))
			emit(fmt.Sprintf("lmld2 redlp %s %s", other(k), hx(f)))
		}
	}

	// B. every truncation 0…len of each fixture, with spare capacity holding foreign bytes
	for _, k := range kinds {
		fs := fx.of(k)
		for i := 0; i < lim(len(fs), 12); i++ {
			f := fs[i]
			emit("reset")
			for n := 0; n <= len(f); n++ {
				t := f[:n]
				c := extras[r.Intn(3)]
				emit(fmt.Sprintf("lmld2 dec %s %d %s %s", k, c, hx(r.Bytes(c)), hx(t)))
				if thorough || n%4 == 0 || r.Chance(20) {
					emit(fmt.Sprintf("lmld2 redec %s %s", k, hx(t)))
				}
				if thorough || n <= 4 || n%16 == 4 || n%16 == 8 || r.Chance(12) {
					c = extras[r.Intn(3)]
					emit(fmt.Sprintf("lmld2 pkt %s %s %d %s %s", k, []string{"copy", "nocopy", "lazy"}[r.Intn(3)], c, hx(r.Bytes(c)), hx(t)))
					emit(fmt.Sprintf("lmld2 redlp %s %s", k, hx(t)))
				}
			}
		}
	}

	// C. single-field mutations of the counters to boundary values
	mutQ := func(f []byte) [][]byte {
		n := u16At(f, 22)
		var out [][]byte
		for _, v := range []int{0, 1, n + 1, 255, 65535} {
			out = append(out, setU16(f, 22, v))
		}
		return out
	}
	mutR := func(f []byte) [][]byte {
		var out [][]byte
		nrec := u16At(f, 2)
		for _, v := range []int{0, 1, nrec + 1, 255, 65535} {
			out = append(out, setU16(f, 2, v))
		}
		if len(f) >= 24 { // the first record: AuxDataLen at 5, N at 6
			for _, v := range []int{0, 1, int(f[5]) + 1, 255} {
				out = append(out, setByte(f, 5, v))
			}
			for _, v := range []int{0, 1, u16At(f, 6) + 1, 255, 65535} {
				out = append(out, setU16(f, 6, v))
			}
			// the last record's counters, found by walking the records
			off := 4
			last := -1
			for i := 0; i < nrec && off+20 <= len(f); i++ {
				last = off
				off += 20 + 16*u16At(f, off+2) + 4*int(f[off+1])
			}
			if last > 4 && last+20 <= len(f) {
				for _, v := range []int{0, int(f[last+1]) + 1, 255} {
					out = append(out, setByte(f, last+1, v))
				}
				for _, v := range []int{0, u16At(f, last+2) + 1, 65535} {
					out = append(out, setU16(f, last+2, v))
				}
			}
		}
		return out
	}
	for _, k := range kinds {
		fs := fx.of(k)
		for i := 0; i < lim(len(fs), 16); i++ {
			f := fs[i]
			emit("reset")
			ms := mutR(f)
			if k == "query" {
				ms = mutQ(f)
			}
			for _, m := range ms {
				c := extras[r.Intn(3)]
				emit(fmt.Sprintf("lmld2 dec %s %d %s %s", k, c, hx(r.Bytes(c)), hx(m)))
				emit(fmt.Sprintf("lmld2 redec %s %s", k, hx(f)))
				emit(fmt.Sprintf("lmld2 redec %s %s", k, hx(m)))
				if r.Chance(50) {
					emit(fmt.Sprintf("lmld2 pkt %s nocopy %d %s %s", k, c, hx(r.Bytes(c)), hx(m)))
					emit(fmt.Sprintf("lmld2 redlp %s %s", k, hx(m)))
				}
			}
		}
	}
	// every value of the flag / code bytes of a query and of the type / auxlen bytes of a record
	{
		emit("reset")
		q := fx.q[0]
		for v := 0; v < 256; v++ {
			if thorough || v < 17 || v > 250 || v&(v-1) == 0 || r.Chance(8) {
				emit(fmt.Sprintf("lmld2 redec query %s", hx(setByte(q, 20, v))))
				emit(fmt.Sprintf("lmld2 redec query %s", hx(setByte(q, 21, v))))
				emit(fmt.Sprintf("lmld2 redec query %s", hx(setByte(setByte(q, 0, v), 1, r.Intn(256)))))
			}
		}
	}

	// D. stale-state sequences: 2…6 inputs with different list lengths into the same objects (direct and via the parser)
	pick := func(k string) []byte {
		fs := fx.of(k)
		f := fs[r.Intn(len(fs))]
		switch r.Intn(10) {
		case 0:
			return f[:r.Intn(len(f)+1)] // truncated (maybe an error)
		case 1:
			if k == "query" {
				return setU16(f, 22, r.Pick([]int{0, 1, u16At(f, 22) + 1, 2}))
			}
			return setU16(f, 2, r.Pick([]int{0, 1, u16At(f, 2) + 1, 2}))
		case 2:
			if k == "report" && len(f) >= 24 {
				if r.Bool() {
					return setU16(f, 6, r.Pick([]int{0, 1, u16At(f, 6) + 1}))
				}
				return setByte(f, 5, r.Pick([]int{0, 1, int(f[5]) + 1, 200}))
			}
		case 3:
			return r.Bytes(r.Intn(60))
		case 4:
			fo := fx.of(other(k))
			return fo[r.Intn(len(fo))]
		}
		return f
	}
	for c := 0; c < 330*scale; c++ {
		emit("reset")
		n := 2 + r.Intn(5)
		k := kinds[r.Intn(2)]
		for i := 0; i < n; i++ {
			if r.Chance(20) {
				k = other(k)
			}
			f := pick(k)
			switch r.Intn(4) {
			case 0:
				emit(fmt.Sprintf("lmld2 redlp %s %s", k, hx(f)))
			case 1:
				emit(fmt.Sprintf("lmld2 redec %s %s", k, hx(f)))
				emit(fmt.Sprintf("lmld2 redlp %s %s", k, hx(f)))
			default:
				emit(fmt.Sprintf("lmld2 redec %s %s", k, hx(f)))
			}
		}
	}

	// E. malformed stream: random bytes of random lengths, partly with small plausible counters
	for c := 0; c < 200*scale; c++ {
		emit("reset")
		n := r.Intn(121)
		d := r.Bytes(n)
		k := kinds[r.Intn(2)]
		if r.Chance(60) {
			if k == "query" && n >= 24 {
				d = setU16(d, 22, r.Intn(5))
			}
			if k == "report" && n >= 4 {
				d = setU16(d, 2, r.Intn(4))
				for off := 4; off+4 <= n; off += 20 + 16*r.Intn(3) + 4*r.Intn(3) {
					d[off+1] = byte(r.Intn(3))
					d[off+2], d[off+3] = 0, byte(r.Intn(3))
				}
			}
		}
		sp := extras[r.Intn(3)]
		emit(fmt.Sprintf("lmld2 dec %s %d %s %s", k, sp, hx(r.Bytes(sp)), hx(d)))
		emit(fmt.Sprintf("lmld2 dlp %s %s", k, hx(d)))
		emit(fmt.Sprintf("lmld2 pkt %s %s %d %s %s", k, []string{"copy", "nocopy", "lazy"}[r.Intn(3)], sp, hx(r.Bytes(sp)), hx(d)))
		if r.Chance(40) {
			emit(fmt.Sprintf("lmld2 dec %s 0 - %s", other(k), hx(d)))
			emit(fmt.Sprintf("lmld2 redlp %s %s", other(k), hx(d)))
		}
	}

	// F. serialisation: in-range and out-of-range layer values, all four option sets, buffer histories
	for c := 0; c < 500*scale; c++ {
		emit("reset")
		k := kinds[r.Intn(2)]
		l := g.layer(k, r.Chance(45))
		p := g.payload()
		fix, cs := r.Intn(2), r.Intn(2)
		emit(fmt.Sprintf("lmld2 ser %s %d %d %s %s %s", k, fix, cs, g.hist(), l, p))
		if r.Chance(35) { // the same value through another buffer history / option set
			emit(fmt.Sprintf("lmld2 ser %s %d %d %s %s %s", k, r.Intn(2), r.Intn(2), g.hist(), l, p))
		}
		if r.Chance(30) {
			emit(fmt.Sprintf("lmld2 rt %s %s %s", k, l, p))
		}
	}
	// every {fix,csum} x every history on fixed shapes
	hists := []string{"fresh", "dirty165", "dirty0", "sized0", "sized24", "sized3000"}
	for _, shape := range []string{
		"query 10000 ff0200000000000000000db811223344 1 2 125 0 .",
		"query 32768 00000000000000000000000000000000 0 7 255 7 20010db8000000000000000000000001,20010db8000000000000000000000002",
		"query 1 ff02 0 0 0 0 .",              // invalid address: error after 24 bytes were prepended
		"query 1 - 0 0 0 0 .",                 // no address
		"query 1 e00000fb 1 9 128 0 c0000201", // 4-byte addresses (mapped by To16), qrv out of range
		"query 0 ff0200000000000000000000000000fb 0 0 0 1 20010db8000000000000000000000001,abcd", // second source invalid
		"report 0 .",
		"report 1 4:0:0:ff0200000000000000000000000000fb:.:_",
		"report 0 1:0:0:ff0200000000000000000000000000fb:20010db8000000000000000000000001:0102030405", // aux of 5 bytes
		"report 2 2:9:9:ff0200000000000000000000000000fb:.:aabbcc;3:0:1:ff020000000000000000000000000001:_,20010db8000000000000000000000001:_",
		"report 1 1:0:0:_:.:_", // record without an address
		"report 1 1:0:0:ff0200000000000000000000000000fb:.:z1024x5a", // aux of 256 words: error with FixLengths
	} {
		for _, p := range []string{"-", "0102030405"} {
			for fix := 0; fix < 2; fix++ {
				for cs := 0; cs < 2; cs++ {
					emit("reset")
					f := strings.SplitN(shape, " ", 2)
					for _, h := range hists {
						emit(fmt.Sprintf("lmld2 ser %s %d %d %s %s %s", f[0], fix, cs, h, f[1], p))
					}
				}
			}
		}
	}

	// G. round trips: well-formed layers (the claim) and a few outside it
	hugeBudget = 2
	if thorough {
		hugeBudget = 5
	}
	for c := 0; c < 260*scale; c++ {
		emit("reset")
		k := kinds[r.Intn(2)]
		emit(fmt.Sprintf("lmld2 rt %s %s %s", k, g.layer(k, r.Chance(85)), g.payload()))
		if r.Chance(40) {
			k = other(k)
			emit(fmt.Sprintf("lmld2 rt %s %s %s", k, g.layer(k, true), g.payload()))
		}
	}

	// unparseable ops: both sides answer bad-op
	emit("reset")
	emit("lmld2 dec query x - 00")
	emit("lmld2 dec query 1 - 00")
	emit("lmld2 dec done 0 - 00")
	emit("lmld2 ser report 1 1 fresh 1")
	emit("lmld2 ser report 1 1 fresh 65536 . -")
	emit("lmld2 ser report 1 1 fresh 1 1:0:0:_:. -")
	emit("lmld2 ser query 1 1 fresh 1 - 0 0 0 0 r70001x_ -")
	emit("lmld2 ser query 1 1 stale 1 - 0 0 0 0 . -")
	emit("lmld2 ser query 1 2 fresh 1 - 0 0 0 0 . -")
	emit("lmld2 ser query 1 1 fresh 1 - 0 256 0 0 . -")
	emit("lmld2 rt query 65536 - 0 0 0 0 . -")
	emit("lmld2 pkt query eager 0 - 00")
	emit("lmld2 nonsense")
}
