package main

import (
	"encoding/binary"
	"fmt"
	"go/ast"
	goparser "go/parser"
	"go/token"
	"os"
	"path/filepath"
	"sort"
	"strconv"

	"github.com/gopacket/gopacket"
	"github.com/gopacket/gopacket/layers"
	"verif/harness/lib"
)

// ---------------------------------------------------------------- fixtures

// literals collects every `[]byte{…}` literal (all elements literal) from the repository's own
// layers/*_test.go files.
func literals() [][]byte {
	repo := os.Getenv("VERIF_REPO")
	if repo == "" {
		repo = "/repo"
	}
	files, _ := filepath.Glob(filepath.Join(repo, "layers", "*_test.go"))
	sort.Strings(files)
	var out [][]byte
	fset := token.NewFileSet()
	for _, fn := range files {
		f, err := goparser.ParseFile(fset, fn, nil, 0)
		if err != nil {
			continue
		}
		ast.Inspect(f, func(n ast.Node) bool {
			cl, ok := n.(*ast.CompositeLit)
			if !ok {
				return true
			}
			at, ok := cl.Type.(*ast.ArrayType)
			if !ok || at.Len != nil {
				return true
			}
			id, ok := at.Elt.(*ast.Ident)
			if !ok || (id.Name != "byte" && id.Name != "uint8") {
				return true
			}
			b := make([]byte, 0, len(cl.Elts))
			for _, e := range cl.Elts {
				bl, ok := e.(*ast.BasicLit)
				if !ok {
					return true
				}
				switch bl.Kind {
				case token.INT:
					v, err := strconv.ParseUint(bl.Value, 0, 8)
					if err != nil {
						return true
					}
					b = append(b, byte(v))
				case token.CHAR:
					s, err := strconv.Unquote(bl.Value)
					if err != nil || len(s) != 1 {
						return true
					}
					b = append(b, s[0])
				default:
					return true
				}
			}
			if len(b) >= 2 && len(b) <= 1600 {
				out = append(out, b)
			}
			return true
		})
	}
	return out
}

type fixtures map[string][][]byte

// harvest decodes every test literal of the repository as USB (recovery on) and keeps the bytes
// (contents ++ payload) of every layer of this engine found in them; the literals of usb_test.go are
// kept whole as well.
func harvest(fx fixtures) {
	seen := map[string]bool{}
	add := func(kind string, b []byte) {
		if len(b) > 300 {
			b = b[:300]
		}
		k := kind + string(b)
		if !seen[k] {
			seen[k] = true
			fx[kind] = append(fx[kind], append([]byte(nil), b...))
		}
	}
	for _, lit := range literals() {
		func() {
			defer func() { recover() }()
			p := gopacket.NewPacket(lit, layers.LayerTypeUSB, gopacket.DecodeOptions{})
			ls := p.Layers()
			if len(ls) > 0 && kindOf(ls[0]) == "usb" && len(lit) <= 120 {
				// only literals that look like usbmon records: a printable event type
				if u := ls[0].(*layers.USB); u.EventType == 'S' || u.EventType == 'C' || u.EventType == 'E' {
					add("usb", lit)
					for _, l := range ls[1:] {
						if k := kindOf(l); k != "" {
							add(k, append(append([]byte(nil), l.LayerContents()...), l.LayerPayload()...))
						}
					}
				}
			}
		}()
	}
}

func le16(v int) []byte    { b := make([]byte, 2); binary.LittleEndian.PutUint16(b, uint16(v)); return b }
func le32(v uint32) []byte { b := make([]byte, 4); binary.LittleEndian.PutUint32(b, v); return b }
func le64(v uint64) []byte { b := make([]byte, 8); binary.LittleEndian.PutUint64(b, v); return b }

func cat(bs ...[]byte) []byte {
	var out []byte
	for _, b := range bs {
		out = append(out, b...)
	}
	return out
}

// hdr builds a 40-byte usbmon header by hand (no layer of this engine can be serialised by the repository).
func hdr(r *lib.Rand, ev, tt, epdir, fsetup, fdata int, urbdlen uint32) []byte {
	return cat(le64(r.U64()), []byte{byte(ev), byte(tt), byte(epdir), byte(r.Intn(128))}, le16(r.Intn(65536)),
		[]byte{byte(fsetup), byte(fdata)}, le64(uint64(1400000000+r.Intn(1000000))), le32(uint32(r.Intn(1000000))),
		le32(uint32(int32(-r.Intn(120)))), le32(uint32(r.Intn(70000))), le32(urbdlen))
}

func built(r *lib.Rand, fx fixtures) {
	evs := []int{'S', 'C', 'E'}
	setupPkt := func(n int) []byte {
		return cat([]byte{byte(r.Pick([]int{0x80, 0x00, 0x21, 0xa1})), byte(r.Pick([]int{0, 1, 3, 5, 6, 7, 8, 9, 10, 0xfe}))}, le16(r.Intn(65536)), le16(r.Intn(4)), le16(n), r.Bytes(n))
	}
	for _, tt := range []int{0, 1, 2, 3, 4, 0x80, 0x82, 0xff} {
		for _, ep := range []int{0x00, 0x81, 0x02, 0xff} {
			// setup packet present (flag 0)
			for _, n := range []int{0, 4, 18} {
				fx["usb"] = append(fx["usb"], cat(hdr(r, r.Pick(evs), tt, ep, 0, r.Pick([]int{0, '<', '>'}), uint32(n)), setupPkt(n)))
			}
			// data present (flag 0), no setup: the payload is the last UrbDataLength bytes
			for _, n := range []int{0, 1, 8, 31} {
				rest := r.Bytes(n + r.Pick([]int{0, 0, 3, 24}))
				fx["usb"] = append(fx["usb"], cat(hdr(r, r.Pick(evs), tt, ep, '-', 0, uint32(n)), rest))
			}
			// neither
			fx["usb"] = append(fx["usb"], cat(hdr(r, r.Pick(evs), tt, ep, '-', r.Pick([]int{'<', '>', 1, 0xff}), uint32(r.Intn(9))), r.Bytes(r.Intn(20))))
		}
	}
	// header only; data length beyond / equal / one below the rest; 32-bit extremes
	fx["usb"] = append(fx["usb"], hdr(r, 'S', 2, 0x80, 0, 0, 0), hdr(r, 'C', 3, 0x02, '-', 0, 0), hdr(r, 'C', 1, 0x81, '-', '<', 0))
	for _, d := range []uint32{5, 6, 7, 8, 0x7fffffff, 0x80000000, 0xffffffff, 0xfffffff9, 0x100, 40, 46, 47} {
		fx["usb"] = append(fx["usb"], cat(hdr(r, 'C', 3, 0x81, '-', 0, d), r.Bytes(6)))
	}
	// signed fields at their extremes
	for _, pat := range []byte{0x00, 0x7f, 0x80, 0xff} {
		f := cat(hdr(r, 'C', 1, 0x81, '-', 0, 2), r.Bytes(2))
		for i := 16; i < 32; i++ {
			f[i] = 0xff
		}
		f[23], f[27], f[31] = pat, pat, pat
		fx["usb"] = append(fx["usb"], f)
	}
	for _, n := range []int{0, 1, 7, 8, 9, 20} {
		fx["setup"] = append(fx["setup"], r.Bytes(n))
	}
	fx["setup"] = append(fx["setup"], setupPkt(0), setupPkt(5), []byte{0xff, 0xff, 0xff, 0xff, 0xff, 0xff, 0xff, 0xff}, make([]byte, 8))
	for _, k := range []string{"control", "interrupt", "bulk"} {
		for _, n := range []int{1, 2, 8, 33} {
			fx[k] = append(fx[k], r.Bytes(n))
		}
	}
}

func hx(b []byte) string { return lib.Hex(b) }

func setByte(b []byte, off int, v int) []byte {
	c := append([]byte(nil), b...)
	if off < len(c) {
		c[off] = byte(v)
	}
	return c
}

// ---------------------------------------------------------------- generator

func gen(r *lib.Rand, tier string, emit func(string)) {
	thorough := tier == "thorough"
	emit("reset")
	emit("lusb nlttab")

	fx := fixtures{}
	harvest(fx)
	built(r, fx)
	for _, k := range allKinds {
		fs := fx[k]
		if len(fs) == 0 {
			fs = [][]byte{r.Bytes(48)}
		}
		for i := len(fs) - 1; i > 0; i-- { // seeded shuffle: different seeds favour different fixtures
			j := r.Intn(i + 1)
			fs[i], fs[j] = fs[j], fs[i]
		}
		fx[k] = fs
	}
	lim := func(n, quick int) int {
		if !thorough && n > quick {
			return quick
		}
		return n
	}
	modes := []string{"copy", "nocopy", "lazy", "pool"}
	spare := func() (int, []byte) { n := 1 + r.Intn(48); return n, r.Bytes(n) }

	// A. every fixture through every decode path
	for _, k := range allKinds {
		fs := fx[k]
		for i := 0; i < lim(len(fs), 90); i++ {
			f := fs[i]
			emit("reset")
			emit(fmt.Sprintf("lusb dec %s 0 - %s", k, hx(f)))
			n, fb := spare()
			emit(fmt.Sprintf("lusb dec %s %d %s %s", k, n, hx(fb), hx(f)))
			emit(fmt.Sprintf("lusb fn %s %d %s %s", k, n, hx(fb), hx(f)))
			emit(fmt.Sprintf("lusb fn %s 0 - %s", k, hx(f)))
			for _, m := range modes {
				if m == "nocopy" {
					emit(fmt.Sprintf("lusb pkt %s nocopy %d %s %s", k, n, hx(fb), hx(f)))
					emit(fmt.Sprintf("lusb chain %s nocopy %d %s %s", k, n, hx(fb), hx(f)))
				} else {
					emit(fmt.Sprintf("lusb pkt %s %s 0 - %s", k, m, hx(f)))
					emit(fmt.Sprintf("lusb chain %s %s 0 - %s", k, m, hx(f)))
				}
			}
			emit(fmt.Sprintf("lusb redec %s %s", k, hx(f)))
			// the same bytes as every other type of this engine
			for _, k2 := range allKinds {
				if k2 != k {
					emit(fmt.Sprintf("lusb dec %s %d %s %s", k2, n, hx(fb), hx(f)))
				}
			}
		}
	}

	// B. every truncation 0..len of each fixture, the real continuation as spare capacity
	for _, k := range []string{"usb", "setup"} {
		fs := fx[k]
		for i := 0; i < lim(len(fs), 14); i++ {
			f := fs[i]
			emit("reset")
			for cut := 0; cut <= len(f); cut++ {
				if !thorough && cut > 56 && cut < len(f)-4 {
					continue
				}
				rest := f[cut:]
				if len(rest) > 64 {
					rest = rest[:64]
				}
				emit(fmt.Sprintf("lusb dec %s %d %s %s", k, len(rest), hx(rest), hx(f[:cut])))
				emit(fmt.Sprintf("lusb fn %s %d %s %s", k, len(rest), hx(rest), hx(f[:cut])))
				if cut > 0 {
					emit(fmt.Sprintf("lusb chain %s nocopy %d %s %s", k, len(rest), hx(rest), hx(f[:cut])))
				}
				emit(fmt.Sprintf("lusb redec %s %s", k, hx(f[:cut])))
			}
		}
	}

	// C. single-field mutations to boundary values
	base := fx["usb"]
	for i := 0; i < lim(len(base), 6); i++ {
		f := base[i]
		if len(f) < 40 {
			continue
		}
		emit("reset")
		// the two presence flags x transfer type
		for _, fs := range []int{0, 1, '-', 0xff} {
			for _, fd := range []int{0, 1, '<', '>', 0xff} {
				for _, tt := range []int{0, 1, 2, 3, 4, 0x80, 0x83, 0xff} {
					g := setByte(setByte(setByte(f, 14, fs), 15, fd), 9, tt)
					emit(fmt.Sprintf("lusb dec usb 0 - %s", hx(g)))
					emit(fmt.Sprintf("lusb chain usb copy 0 - %s", hx(g)))
				}
			}
		}
		// every value of the endpoint/direction byte (first fixture), every transfer type
		if i == 0 || thorough {
			emit("reset")
			for v := 0; v < 256; v++ {
				emit(fmt.Sprintf("lusb dec usb 0 - %s", hx(setByte(f, 10, v))))
				emit(fmt.Sprintf("lusb fn usb 0 - %s", hx(setByte(setByte(f, 9, v), 14, 1))))
			}
		}
		// UrbDataLength around the bytes present, with the data flag on and the setup flag off
		emit("reset")
		rest := len(f) - 40
		for _, d := range []int64{0, 1, int64(rest) - 1, int64(rest), int64(rest) + 1, int64(rest) + 40, int64(len(f)), int64(len(f)) + 1, 0x7fffffff, 0x80000000, 0xffffffff, 0x100000000 - int64(rest), 0x100000000 - int64(len(f))} {
			if d < 0 {
				continue
			}
			g := setByte(setByte(f, 14, '-'), 15, 0)
			copy(g[36:40], le32(uint32(d)))
			n, fb := spare()
			emit(fmt.Sprintf("lusb dec usb %d %s %s", n, hx(fb), hx(g)))
			emit(fmt.Sprintf("lusb chain usb nocopy %d %s %s", n, hx(fb), hx(g)))
			emit(fmt.Sprintf("lusb redec usb %s", hx(g)))
		}
		// sign bits of the three signed fields
		for _, off := range []int{23, 27, 31} {
			for _, v := range []int{0x00, 0x7f, 0x80, 0xff} {
				emit(fmt.Sprintf("lusb dec usb 0 - %s", hx(setByte(f, off, v))))
			}
		}
	}

	// D. ordered sequences decoded into the SAME object (stale state), every kind
	nseq := 60
	if thorough {
		nseq = 1500
	}
	pool := map[string][][]byte{}
	for _, k := range allKinds {
		pool[k] = append(pool[k], fx[k]...)
		pool[k] = append(pool[k], nil, r.Bytes(1), r.Bytes(7), r.Bytes(39), r.Bytes(40), r.Bytes(41), r.Bytes(60))
	}
	// hand-picked USB inputs for the flag history: setup / data / neither
	for _, fl := range [][2]int{{0, 0}, {0, 1}, {1, 0}, {1, 1}} {
		pool["usb"] = append(pool["usb"], cat(hdr(r, 'S', r.Intn(5), r.Intn(256), fl[0], fl[1], uint32(r.Intn(12))), r.Bytes(12)))
	}
	for s := 0; s < nseq; s++ {
		for _, k := range allKinds {
			emit("reset")
			n := 2 + r.Intn(5)
			for j := 0; j < n; j++ {
				f := pool[k][r.Intn(len(pool[k]))]
				if j == 0 {
					emit(fmt.Sprintf("lusb dec %s 0 - %s", k, hx(f)))
				} else {
					emit(fmt.Sprintf("lusb redec %s %s", k, hx(f)))
				}
			}
			if k != "usb" && s > 8 && !thorough {
				break
			}
		}
	}

	// E. random / malformed bytes as every type
	nrand := 120
	if thorough {
		nrand = 6000
	}
	for s := 0; s < nrand; s++ {
		emit("reset")
		ln := r.Pick([]int{0, 1, 7, 8, 9, 39, 40, 41, 47, 48, 49, 64, 100})
		if r.Chance(40) {
			ln = r.Intn(120)
		}
		f := r.Bytes(ln)
		if ln >= 40 && r.Chance(70) { // mostly-valid: plausible flags and data length
			f[14] = byte(r.Pick([]int{0, 0, '-', 1}))
			f[15] = byte(r.Pick([]int{0, 0, '<', '>', 1}))
			f[9] = byte(r.Pick([]int{0, 1, 2, 3, 3, 2, 1, 4, 0x82}))
			copy(f[36:40], le32(uint32(r.Intn(ln-40+3))))
		}
		n, fb := spare()
		for _, k := range allKinds {
			emit(fmt.Sprintf("lusb dec %s %d %s %s", k, n, hx(fb), hx(f)))
			emit(fmt.Sprintf("lusb redec %s %s", k, hx(f)))
		}
		emit(fmt.Sprintf("lusb fn usb %d %s %s", n, hx(fb), hx(f)))
		m := modes[r.Intn(4)]
		if m == "nocopy" {
			emit(fmt.Sprintf("lusb chain usb nocopy %d %s %s", n, hx(fb), hx(f)))
		} else {
			emit(fmt.Sprintf("lusb chain usb %s 0 - %s", m, hx(f)))
		}
		emit(fmt.Sprintf("lusb pkt %s %s 0 - %s", allKinds[r.Intn(5)], modes[r.Intn(3)*0+r.Pick([]int{0, 2, 3})], hx(f)))
	}
}
