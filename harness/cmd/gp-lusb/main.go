// gp-lusb: correspondence adapter + monitors for engine `lusb`
// (layers/usb.go: USB, USBRequestBlockSetup, USBControl, USBInterrupt, USBBulk — DecodeFromBytes,
// NextLayerType, the registered decoder functions decodeUSB… and the packets NewPacket builds from them).
//
// None of the five layers has a SerializeTo method, a flow accessor or a CanDecode method: there is
// nothing to drive for C06 / C07 / C17 and the layers cannot be given to a DecodingLayerParser.
// Properties served: C19 (no panics), C05 (no stale state / capacity independence / packet path =
// direct in-place decode).
package main

import (
	"bytes"
	"fmt"
	"os"
	"runtime/debug"
	"strings"

	"github.com/gopacket/gopacket"
	"github.com/gopacket/gopacket/layers"
	"verif/harness/lib"
)

// ---------------------------------------------------------------- state of one case

// the in-place decoding surface the five types offer (they have no CanDecode)
type dlayer interface {
	gopacket.Layer
	DecodeFromBytes([]byte, gopacket.DecodeFeedback) error
	NextLayerType() gopacket.LayerType
}

var cur map[string]dlayer // objects re-used by `redec`

var allKinds = []string{"usb", "setup", "control", "interrupt", "bulk"}

func newObj(kind string) dlayer {
	switch kind {
	case "usb":
		return &layers.USB{}
	case "setup":
		return &layers.USBRequestBlockSetup{}
	case "control":
		return &layers.USBControl{}
	case "interrupt":
		return &layers.USBInterrupt{}
	case "bulk":
		return &layers.USBBulk{}
	}
	return nil
}

func layerTypeOf(kind string) (gopacket.LayerType, bool) {
	switch kind {
	case "usb":
		return layers.LayerTypeUSB, true
	case "setup":
		return layers.LayerTypeUSBRequestBlockSetup, true
	case "control":
		return layers.LayerTypeUSBControl, true
	case "interrupt":
		return layers.LayerTypeUSBInterrupt, true
	case "bulk":
		return layers.LayerTypeUSBBulk, true
	}
	return 0, false
}

func kindOf(l gopacket.Layer) string {
	switch l.(type) {
	case *layers.USB:
		return "usb"
	case *layers.USBRequestBlockSetup:
		return "setup"
	case *layers.USBControl:
		return "control"
	case *layers.USBInterrupt:
		return "interrupt"
	case *layers.USBBulk:
		return "bulk"
	}
	return ""
}

func reset() {
	cur = map[string]dlayer{}
	for _, k := range allKinds {
		cur[k] = newObj(k)
	}
}

type feedback struct{ truncated bool }

func (f *feedback) SetTruncated() { f.truncated = true }

func b01(b bool) string {
	if b {
		return "1"
	}
	return "0"
}

func render(l gopacket.Layer) string {
	switch l := l.(type) {
	case *layers.USB:
		return fmt.Sprintf("id=%d ev=%d tt=%d dir=%d ep=%d dev=%d bus=%d sec=%d usec=%d setup=%s data=%s status=%d urblen=%d urbdlen=%d ival=%d sframe=%d tflags=%d isond=%d contents=%s payload=%s next=%d",
			l.ID, uint8(l.EventType), uint8(l.TransferType), uint8(l.Direction), l.EndpointNumber, l.DeviceAddress, l.BusID,
			l.TimestampSec, l.TimestampUsec, b01(l.Setup), b01(l.Data), l.Status, l.UrbLength, l.UrbDataLength,
			l.UrbInterval, l.UrbStartFrame, l.UrbCopyOfTransferFlags, l.IsoNumDesc,
			lib.Hex(l.Contents), lib.Hex(l.Payload), int(l.NextLayerType()))
	case *layers.USBRequestBlockSetup:
		return fmt.Sprintf("rt=%d req=%d val=%d idx=%d len=%d contents=%s payload=%s next=%d",
			l.RequestType, uint8(l.Request), l.Value, l.Index, l.Length, lib.Hex(l.Contents), lib.Hex(l.Payload), int(l.NextLayerType()))
	case *layers.USBControl:
		return fmt.Sprintf("contents=%s payload=%s next=%d", lib.Hex(l.Contents), lib.Hex(l.Payload), int(l.NextLayerType()))
	case *layers.USBInterrupt:
		return fmt.Sprintf("contents=%s payload=%s next=%d", lib.Hex(l.Contents), lib.Hex(l.Payload), int(l.NextLayerType()))
	case *layers.USBBulk:
		return fmt.Sprintf("contents=%s payload=%s next=%d", lib.Hex(l.Contents), lib.Hex(l.Payload), int(l.NextLayerType()))
	}
	return "?"
}

// differingField names the first public field (incl. Contents/Payload) in which two layers differ.
func differingField(a, b gopacket.Layer) string {
	if kindOf(a) != kindOf(b) {
		return "type"
	}
	switch x := a.(type) {
	case *layers.USB:
		y := b.(*layers.USB)
		switch {
		case x.ID != y.ID:
			return "ID"
		case x.EventType != y.EventType:
			return "EventType"
		case x.TransferType != y.TransferType:
			return "TransferType"
		case x.Direction != y.Direction:
			return "Direction"
		case x.EndpointNumber != y.EndpointNumber:
			return "EndpointNumber"
		case x.DeviceAddress != y.DeviceAddress:
			return "DeviceAddress"
		case x.BusID != y.BusID:
			return "BusID"
		case x.TimestampSec != y.TimestampSec:
			return "TimestampSec"
		case x.TimestampUsec != y.TimestampUsec:
			return "TimestampUsec"
		case x.Setup != y.Setup:
			return "Setup"
		case x.Data != y.Data:
			return "Data"
		case x.Status != y.Status:
			return "Status"
		case x.UrbLength != y.UrbLength:
			return "UrbLength"
		case x.UrbDataLength != y.UrbDataLength:
			return "UrbDataLength"
		case x.UrbInterval != y.UrbInterval:
			return "UrbInterval"
		case x.UrbStartFrame != y.UrbStartFrame:
			return "UrbStartFrame"
		case x.UrbCopyOfTransferFlags != y.UrbCopyOfTransferFlags:
			return "UrbCopyOfTransferFlags"
		case x.IsoNumDesc != y.IsoNumDesc:
			return "IsoNumDesc"
		}
	case *layers.USBRequestBlockSetup:
		y := b.(*layers.USBRequestBlockSetup)
		switch {
		case x.RequestType != y.RequestType:
			return "RequestType"
		case x.Request != y.Request:
			return "Request"
		case x.Value != y.Value:
			return "Value"
		case x.Index != y.Index:
			return "Index"
		case x.Length != y.Length:
			return "Length"
		}
	}
	switch {
	case !bytes.Equal(a.LayerContents(), b.LayerContents()):
		return "Contents"
	case !bytes.Equal(a.LayerPayload(), b.LayerPayload()):
		return "Payload"
	}
	if d, ok := a.(dlayer); ok && d.NextLayerType() != b.(dlayer).NextLayerType() {
		return "NextLayerType"
	}
	return ""
}

// inBuf places data at the start of a backing array with `len(foreign)` spare bytes of capacity holding
// the foreign bytes, and returns the slice data[:len] with cap = len + len(foreign).
func inBuf(data, foreign []byte) []byte {
	back := make([]byte, len(data)+len(foreign))
	copy(back, data)
	copy(back[len(data):], foreign)
	return back[:len(data)]
}

func exact(data []byte) []byte { // cap == len
	c := make([]byte, len(data))
	copy(c, data)
	return c[:len(data):len(data)]
}

func isOurSite(site string) bool {
	for _, f := range []string{"layers/usb.go", "layers/base.go"} {
		if strings.HasPrefix(site, f) {
			return true
		}
	}
	return false
}

// protect is lib.Protect with a panic-site extraction that also works when the repository under test
// is a scratch tree (VERIF_REPO): the site is the top-most stack frame inside the repository.
var lastSite, lastMsg string

func protect(f func() string) (reply string, panicked bool) {
	defer func() {
		if v := recover(); v != nil {
			lastMsg = fmt.Sprint(v)
			lastSite = siteOf(string(debug.Stack()))
			reply = "panic " + lib.PanicKind(v)
			panicked = true
		}
	}()
	return f(), false
}

func siteOf(stack string) string {
	root := os.Getenv("VERIF_REPO")
	if root == "" {
		root = "/repo"
	}
	root = strings.TrimRight(root, "/") + "/"
	for _, l := range strings.Split(stack, "\n") {
		l = strings.TrimSpace(l)
		if !strings.Contains(l, ".go:") {
			continue
		}
		f := strings.Fields(l)[0]
		if strings.HasPrefix(f, root) {
			return f[len(root):]
		}
		if j := strings.LastIndex(f, "gopacket/"); j >= 0 && !strings.Contains(f, "/verif/") {
			return f[j+len("gopacket/"):]
		}
	}
	return "?"
}

// guarded runs f; a panic is reported as a C19 finding with its site and returned as "panic <kind>".
func guarded(what string, f func() string) string {
	reply, panicked := protect(f)
	if panicked {
		lib.Finding("C19", "lusb:panic:"+lastSite, what+" panicked: "+lastMsg)
		lib.Stat("panic")
	}
	return reply
}

// ---------------------------------------------------------------- DecodeFromBytes ops

// decInto: DecodeFromBytes into obj; the reply renders the receiver on an error too (what the failed call left).
func decInto(obj dlayer, data []byte) (string, error, bool) {
	fb := &feedback{}
	err := obj.DecodeFromBytes(data, fb)
	if err != nil {
		return "err trunc=" + b01(fb.truncated) + " | " + render(obj), err, fb.truncated
	}
	return "ok " + render(obj) + " trunc=" + b01(fb.truncated), nil, fb.truncated
}

func statDec(kind string, obj gopacket.Layer, err error, n int) {
	if err != nil {
		lib.Stat(kind + ":dec:err")
		if u, ok := obj.(*layers.USB); ok && n >= 40 {
			_ = u
			lib.Stat("usb:dec:err:datalen>rest")
		}
		return
	}
	lib.Stat(kind + ":dec:ok")
	lib.Nontrivial()
	if u, ok := obj.(*layers.USB); ok {
		switch {
		case u.Setup:
			lib.Stat("usb:dec:setup")
		case u.Data:
			lib.Stat("usb:dec:data")
			if int(u.UrbDataLength) < n-40 {
				lib.Stat("usb:dec:data:gap-before-payload")
			}
		default:
			lib.Stat("usb:dec:neither")
		}
		lib.Stat(fmt.Sprintf("usb:dec:next=%d", int(u.NextLayerType())))
		lib.Stat(fmt.Sprintf("usb:dec:dir=%d", uint8(u.Direction)))
		if u.TimestampSec < 0 || u.TimestampUsec < 0 || u.Status < 0 {
			lib.Stat("usb:dec:negative-signed-field")
		}
	}
}

func opDec(kind string, extra int, foreign, data []byte) string {
	if newObj(kind) == nil {
		return "bad-op"
	}
	return guarded(kind+".DecodeFromBytes", func() string {
		obj := newObj(kind)
		cur[kind] = obj
		reply, err, _ := decInto(obj, inBuf(data, foreign))
		statDec(kind, obj, err, len(data))
		// C05/C04 oracle: the same bytes in a buffer with cap == len
		ref := newObj(kind)
		refReply, _, _ := decInto(ref, exact(data))
		if reply != refReply {
			lib.Finding("C05", "lusb:cap-dependent", kind+" decode depends on spare capacity / foreign bytes: "+reply+" vs "+refReply)
		}
		if extra > 0 {
			lib.Stat(kind + ":dec:spare-cap")
		}
		return reply
	})
}

func opRedec(kind string, data []byte) string {
	if newObj(kind) == nil {
		return "bad-op"
	}
	return guarded(kind+".DecodeFromBytes", func() string {
		obj := cur[kind]
		reply, err, tr := decInto(obj, exact(data))
		statDec(kind, obj, err, len(data))
		lib.Stat(kind + ":redec")
		fresh := newObj(kind)
		fb := &feedback{}
		ferr := fresh.DecodeFromBytes(exact(data), fb)
		if (ferr != nil) != (err != nil) {
			lib.Finding("C05", "lusb:stale:error", kind+": reused object and fresh object disagree on the error")
		} else {
			if err == nil {
				if f := differingField(obj, fresh); f != "" {
					lib.Finding("C05", "lusb:stale:"+f, kind+"."+f+" differs between a reused and a fresh object")
				}
			}
			if fb.truncated != tr {
				lib.Finding("C05", "lusb:stale:Truncated", kind+": truncation flag differs between a reused and a fresh object")
			}
		}
		return reply
	})
}

// ---------------------------------------------------------------- tracing PacketBuilder (does not recurse)

type tracer struct {
	acts  []string
	tail  string
	added gopacket.Layer
	nadd  int
}

func (t *tracer) SetTruncated() { t.acts = append(t.acts, "trunc") }
func (t *tracer) AddLayer(l gopacket.Layer) {
	t.acts = append(t.acts, fmt.Sprintf("add:%d", int(l.LayerType())))
	t.added = l
	t.nadd++
}
func (t *tracer) SetLinkLayer(gopacket.LinkLayer)               { t.acts = append(t.acts, "link") }
func (t *tracer) SetNetworkLayer(gopacket.NetworkLayer)         { t.acts = append(t.acts, "net") }
func (t *tracer) SetTransportLayer(gopacket.TransportLayer)     { t.acts = append(t.acts, "transport") }
func (t *tracer) SetApplicationLayer(gopacket.ApplicationLayer) { t.acts = append(t.acts, "app") }
func (t *tracer) SetErrorLayer(gopacket.ErrorLayer)             { t.acts = append(t.acts, "errlayer") }
func (t *tracer) DumpPacketData()                               {}
func (t *tracer) DecodeOptions() *gopacket.DecodeOptions        { return &gopacket.DecodeOptions{} }
func (t *tracer) NextDecoder(next gopacket.Decoder) error {
	switch d := next.(type) {
	case gopacket.LayerType:
		t.tail = fmt.Sprintf("lt:%d", int(d))
	case nil:
		t.tail = "nil"
	default:
		t.tail = "other"
	}
	return nil
}

func (t *tracer) render(err error) string {
	tail := t.tail
	if err != nil {
		tail = "fail"
	} else if tail == "" {
		tail = "done"
	}
	acts := "-"
	if len(t.acts) > 0 {
		acts = strings.Join(t.acts, ",")
	}
	s := "acts=" + acts + " tail=" + tail
	if t.added != nil {
		s += " | " + render(t.added)
	}
	return s
}

func decodeWith(lt gopacket.LayerType, in []byte) (*tracer, error) {
	t := &tracer{}
	err := lt.Decode(in, t)
	return t, err
}

// opFn: the decoder function registered for the kind's LayerType, on a tracing builder, input in a buffer
// with spare capacity.
func opFn(kind string, extra int, foreign, data []byte) string {
	lt, ok := layerTypeOf(kind)
	if !ok {
		return "bad-op"
	}
	return guarded("decoder function of "+kind, func() string {
		t, err := decodeWith(lt, inBuf(data, foreign))
		reply := t.render(err)
		tail := "fail"
		if err == nil {
			tail = strings.SplitN(t.render(nil), "tail=", 2)[1]
			tail = strings.Fields(tail)[0]
		}
		lib.Stat("fn:" + kind + ":" + tail)
		if t.added != nil {
			lib.Nontrivial()
		}
		if extra > 0 {
			lib.Stat("fn:" + kind + ":spare-cap")
		}
		// C05/C04 oracle: the same bytes in a buffer with cap == len
		t2, err2 := decodeWith(lt, exact(data))
		ref := t2.render(err2)
		if ref != reply {
			lib.Finding("C05", "lusb:cap-dependent", kind+": decoder function depends on spare capacity / foreign bytes: "+reply+" vs "+ref)
		}
		// C05 oracle: the layer added to the packet = a direct fresh DecodeFromBytes
		obj := newObj(kind)
		rerr := obj.DecodeFromBytes(exact(data), &feedback{})
		switch {
		case (rerr != nil) != (t.added == nil):
			lib.Finding("C05", "lusb:pkt-differs", kind+": the registered decoder adds a layer iff DecodeFromBytes succeeds — violated")
		case rerr == nil && differingField(t.added, obj) != "":
			lib.Finding("C05", "lusb:pkt-differs", kind+": layer added by the registered decoder differs from a direct fresh DecodeFromBytes: "+differingField(t.added, obj))
		}
		return reply
	})
}

// ---------------------------------------------------------------- NewPacket

type obs struct {
	ls     []gopacket.Layer
	trunc  bool
	failed bool
	errl   gopacket.ErrorLayer
}

func buildPacket(first gopacket.LayerType, mode string, foreign, data []byte, skipRecovery bool) obs {
	opts := gopacket.DecodeOptions{SkipDecodeRecovery: skipRecovery}
	in := exact(data)
	switch mode {
	case "nocopy":
		opts.NoCopy = true
		in = inBuf(data, foreign)
	case "lazy":
		opts.Lazy = true
	case "pool":
		opts.Pool = true
	}
	p := gopacket.NewPacket(in, first, opts)
	var o obs
	o.ls = p.Layers()
	o.errl = p.ErrorLayer()
	o.failed = o.errl != nil
	o.trunc = p.Metadata().Truncated
	return o
}

func okMode(mode string) bool {
	return mode == "copy" || mode == "nocopy" || mode == "lazy" || mode == "pool"
}

func opPkt(kind, mode string, extra int, foreign, data []byte) string {
	first, ok := layerTypeOf(kind)
	if !ok || len(foreign) != extra || !okMode(mode) {
		return "bad-op"
	}
	if len(data) == 0 {
		return "empty"
	}
	var o obs
	_, panicked := protect(func() string { o = buildPacket(first, mode, foreign, data, true); return "" })
	if panicked {
		lib.Finding("C19", "lusb:panic:"+lastSite, "NewPacket(SkipDecodeRecovery) panicked: "+lastMsg)
		return "panic " + lib.PanicKind(lastMsg)
	}
	lib.Stat("pkt:" + kind + ":" + mode)
	if len(o.ls) == 0 || o.ls[0].LayerType() != first {
		lib.Stat("pkt:fail")
		// oracle: the packet reports a failure exactly when the registered decoder (direct call) adds no layer
		if t, _ := decodeWith(first, exact(data)); t.added != nil {
			lib.Finding("C05", "lusb:pkt-differs", "NewPacket("+mode+") shows no "+kind+" layer although the registered decoder adds one")
		}
		if !o.failed {
			lib.Finding("C05", "lusb:pkt-differs", "NewPacket("+mode+"): first layer missing but no error layer")
		}
		return "fail trunc=" + b01(o.trunc)
	}
	obj := newObj(kind)
	if err := obj.DecodeFromBytes(exact(data), &feedback{}); err != nil || differingField(o.ls[0], obj) != "" {
		lib.Finding("C05", "lusb:pkt-differs", "first layer built by NewPacket("+mode+") differs from a direct fresh DecodeFromBytes")
	}
	lib.Nontrivial()
	return "ok " + render(o.ls[0])
}

// opChain: every layer of the packet NewPacket builds (SkipDecodeRecovery on), with an independent oracle:
// each layer of this engine must equal a direct fresh DecodeFromBytes of the previous layer's payload, the
// chain must follow NextLayerType, and an error layer is present exactly when a decode returned an error.
func opChain(kind, mode string, extra int, foreign, data []byte) string {
	first, ok := layerTypeOf(kind)
	if !ok || len(foreign) != extra || !okMode(mode) {
		return "bad-op"
	}
	if len(data) == 0 {
		return "empty"
	}
	var o obs
	_, panicked := protect(func() string { o = buildPacket(first, mode, foreign, data, true); return "" })
	if panicked {
		lib.Finding("C19", "lusb:panic:"+lastSite, "NewPacket(SkipDecodeRecovery) panicked: "+lastMsg)
		return "panic " + lib.PanicKind(lastMsg)
	}
	parts := []string{fmt.Sprintf("layers=%d trunc=%s failed=%s", len(o.ls), b01(o.trunc), b01(o.failed))}
	input := exact(data)
	want := first
	shape := ""
	for i, l := range o.ls {
		switch x := l.(type) {
		case *gopacket.Payload:
			parts = append(parts, "payload "+lib.Hex(x.LayerContents()))
			shape += "P"
			if want != gopacket.LayerTypePayload || !bytes.Equal(x.LayerContents(), input) {
				lib.Finding("C05", "lusb:chain-differs", "Payload layer does not hold the previous layer's payload")
			}
			input, want = nil, gopacket.LayerTypeZero
		case *gopacket.DecodeFailure:
			parts = append(parts, "failure "+lib.Hex(x.LayerContents()))
			shape += "F"
			if i != len(o.ls)-1 || o.errl == nil || gopacket.Layer(o.errl) != l {
				lib.Finding("C05", "lusb:chain-differs", "a decode failure that is not the last layer / not the error layer")
			}
			// the failing decoder must fail on a direct call too
			if k := kindOfType(want); k != "" {
				if newObj(k).DecodeFromBytes(exact(input), &feedback{}) == nil {
					lib.Finding("C05", "lusb:chain-differs", "packet reports a decode failure where a direct DecodeFromBytes succeeds")
				}
			}
		default:
			k := kindOf(l)
			if k == "" {
				parts = append(parts, "other")
				shape += "?"
				continue
			}
			if k == "usb" || k == "setup" {
				parts = append(parts, k+" "+render(l))
			} else {
				parts = append(parts, fmt.Sprintf("raw%d %s", int(l.LayerType()), render(l)))
			}
			shape += strings.ToUpper(k[:1])
			if l.LayerType() != want {
				lib.Finding("C05", "lusb:chain-differs", "layer type does not follow the previous layer's NextLayerType")
			}
			obj := newObj(k)
			if err := obj.DecodeFromBytes(exact(input), &feedback{}); err != nil || differingField(l, obj) != "" {
				lib.Finding("C05", "lusb:chain-differs", k+" layer of the packet ("+mode+") differs from a direct fresh DecodeFromBytes of the previous payload: "+differingField(l, obj))
			}
			input, want = l.LayerPayload(), l.(dlayer).NextLayerType()
		}
	}
	if o.failed != strings.HasSuffix(shape, "F") {
		lib.Finding("C05", "lusb:chain-differs", "error layer present but the last layer is not a decode failure (or vice versa)")
	}
	lib.Stat("chain:" + kind + ":" + mode)
	lib.Stat("chain:shape:" + shape)
	if len(o.ls) > 0 && kindOf(o.ls[0]) != "" {
		lib.Nontrivial()
	}
	return strings.Join(parts, " | ")
}

func kindOfType(t gopacket.LayerType) string {
	for _, k := range allKinds {
		if lt, _ := layerTypeOf(k); lt == t {
			return k
		}
	}
	return ""
}

// ---------------------------------------------------------------- tables

func opNltTab() string {
	var rows []string
	for i := 0; i < 256; i++ {
		if lt := layers.USBTransportType(i).LayerType(); lt != gopacket.LayerTypeZero {
			rows = append(rows, fmt.Sprintf("%d:%d", i, int(lt)))
		}
		// the decoder registered in the table must be the one of the LayerType the table names
		if (&layers.USB{TransferType: layers.USBTransportType(i)}).NextLayerType() != layers.USBTransportType(i).LayerType() {
			lib.Finding("C05", "lusb:nlt-table", "USB.NextLayerType is not the table entry")
		}
	}
	lib.Stat("nlttab")
	return fmt.Sprintf("ok %s lt=%d,%d,%d,%d,%d,%d dir=%d,%d,%d", strings.Join(rows, ","),
		int(layers.LayerTypeUSB), int(layers.LayerTypeUSBRequestBlockSetup), int(layers.LayerTypeUSBControl),
		int(layers.LayerTypeUSBInterrupt), int(layers.LayerTypeUSBBulk), int(gopacket.LayerTypePayload),
		int(layers.USBDirectionTypeUnknown), int(layers.USBDirectionTypeIn), int(layers.USBDirectionTypeOut))
}

// ---------------------------------------------------------------- dispatcher

func triple(a []string) (int, []byte, []byte, bool) {
	extra, ok1 := lib.Atoi(a[0])
	foreign, ok2 := lib.UnHex(a[1])
	data, ok3 := lib.UnHex(a[2])
	if !ok1 || !ok2 || !ok3 || extra < 0 || len(foreign) != extra {
		return 0, nil, nil, false
	}
	return extra, foreign, data, true
}

func exec(a []string) string {
	if len(a) < 2 || a[0] != "lusb" {
		return "bad-op"
	}
	switch a[1] {
	case "dec", "fn":
		if len(a) != 6 {
			return "bad-op"
		}
		extra, foreign, data, ok := triple(a[3:])
		if !ok {
			return "bad-op"
		}
		if a[1] == "dec" {
			return opDec(a[2], extra, foreign, data)
		}
		return opFn(a[2], extra, foreign, data)
	case "redec":
		if len(a) != 4 {
			return "bad-op"
		}
		data, ok := lib.UnHex(a[3])
		if !ok {
			return "bad-op"
		}
		return opRedec(a[2], data)
	case "pkt", "chain":
		if len(a) != 7 {
			return "bad-op"
		}
		extra, foreign, data, ok := triple(a[4:])
		if !ok {
			return "bad-op"
		}
		if a[1] == "pkt" {
			return opPkt(a[2], a[3], extra, foreign, data)
		}
		return opChain(a[2], a[3], extra, foreign, data)
	case "nlttab":
		if len(a) != 2 {
			return "bad-op"
		}
		return opNltTab()
	}
	return "bad-op"
}

func main() {
	reset()
	lib.Main(lib.Engine{Name: "lusb", Gen: gen, Reset: reset, Exec: exec})
}
