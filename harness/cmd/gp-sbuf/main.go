// gp-sbuf: correspondence adapter for engine `sbuf` (C18; also used by C07):
// drives the real gopacket.SerializeBuffer (writer.go).
package main

import (
	"bytes"
	"errors"
	"fmt"
	"strings"

	"github.com/gopacket/gopacket"
	"verif/harness/lib"
)

var (
	buf    gopacket.SerializeBuffer
	slots  [][]byte
	expect []byte // independent oracle: abstract contents (fill-style spec)
	expLay []gopacket.LayerType
	lastCap int
)

func reset() {
	buf = gopacket.NewSerializeBuffer()
	slots = nil
	expect = nil
	expLay = nil
}

func checkContents(op string) {
	got := buf.Bytes()
	if !bytes.Equal(got, expect) {
		lib.Finding("C18", "sbuf:contents:"+op, fmt.Sprintf("after %s Bytes()=%s want %s", op, lib.Hex(got), lib.Hex(expect)))
		expect = append([]byte(nil), got...)
	}
}

func exec(a []string) string {
	if len(a) < 2 || a[0] != "sbuf" {
		return "bad-op"
	}
	switch a[1] {
	case "new":
		if len(a) != 4 {
			return "bad-op"
		}
		p, ok1 := lib.Atoi(a[2])
		q, ok2 := lib.Atoi(a[3])
		if !ok1 || !ok2 || p < 0 || q < 0 {
			return "bad-op"
		}
		if p == 0 && q == 0 {
			buf = gopacket.NewSerializeBuffer()
		} else {
			buf = gopacket.NewSerializeBufferExpectedSize(p, q)
		}
		slots, expect, expLay = nil, nil, nil
		return "ok " + lib.Hex(buf.Bytes())
	case "prepend", "append", "rawprepend", "rawappend":
		if len(a) < 3 {
			return "bad-op"
		}
		n, ok := lib.Atoi(a[2])
		if !ok || n < 0 {
			return "bad-op"
		}
		raw := strings.HasPrefix(a[1], "raw")
		var fill []byte
		if !raw {
			if len(a) != 4 {
				return "bad-op"
			}
			f, ok := lib.UnHex(a[3])
			if !ok || len(f) != n {
				return "bad-op"
			}
			fill = f
		}
		before := cap(buf.Bytes())
		var s []byte
		var err error
		if strings.HasSuffix(a[1], "prepend") {
			s, err = buf.PrependBytes(n)
		} else {
			s, err = buf.AppendBytes(n)
		}
		if err != nil {
			return "err"
		}
		if cap(buf.Bytes()) != before+boolInt(strings.HasSuffix(a[1], "prepend"))*n {
			lib.Stat("realloc-or-grow")
		}
		if len(s) != n {
			lib.Finding("C18", "sbuf:window-len", fmt.Sprintf("%s(%d) returned %d bytes", a[1], n, len(s)))
		}
		slots = append(slots, s)
		if !raw {
			copy(s, fill)
			if strings.HasSuffix(a[1], "prepend") {
				expect = append(append([]byte(nil), fill...), expect...)
			} else {
				expect = append(append([]byte(nil), expect...), fill...)
			}
			checkContents(a[1])
		} else {
			// unfilled bytes are indeterminate for the caller; only the rest is specified
			got := buf.Bytes()
			if strings.HasSuffix(a[1], "prepend") {
				if len(got) != n+len(expect) || !bytes.Equal(got[min(n, len(got)):], expect) {
					lib.Finding("C18", "sbuf:contents:rawprepend", "old contents do not follow the new window")
				}
			} else {
				if len(got) != n+len(expect) || !bytes.Equal(got[:min(len(expect), len(got))], expect) {
					lib.Finding("C18", "sbuf:contents:rawappend", "old contents do not precede the new window")
				}
			}
			expect = append([]byte(nil), got...)
		}
		lib.Stat(a[1])
		if len(expect) > 0 && len(slots) > 2 {
			lib.Nontrivial()
		}
		return "ok " + lib.Hex(buf.Bytes())
	case "clear":
		if err := buf.Clear(); err != nil {
			return "err"
		}
		expect = expect[:0]
		expLay = expLay[:0]
		checkContents("clear")
		if len(buf.Layers()) != 0 {
			lib.Finding("C18", "sbuf:clear-layers", "Layers() not empty after Clear")
		}
		lib.Stat("clear")
		return "ok " + lib.Hex(buf.Bytes())
	case "write":
		if len(a) != 5 {
			return "bad-op"
		}
		sl, ok1 := lib.Atoi(a[2])
		i, ok2 := lib.Atoi(a[3])
		v, ok3 := lib.Atoi(a[4])
		if !ok1 || !ok2 || !ok3 || sl < 0 || sl >= len(slots) || i < 0 || v < 0 || v > 255 {
			return "bad-op"
		}
		before := append([]byte(nil), buf.Bytes()...)
		slots[sl][i] = byte(v) // may panic: index
		after := buf.Bytes()
		diff := 0
		for k := range after {
			if k >= len(before) || after[k] != before[k] {
				diff++
				if after[k] != byte(v) {
					diff += 100
				}
			}
		}
		if len(after) != len(before) || diff > 1 {
			lib.Finding("C18", "sbuf:write-corrupts", "a write through a returned slice changed more than that byte")
		}
		expect = append([]byte(nil), after...)
		lib.Stat("write")
		return "ok " + lib.Hex(after)
	case "push":
		if len(a) != 3 {
			return "bad-op"
		}
		t, ok := lib.Atoi(a[2])
		if !ok {
			return "bad-op"
		}
		buf.PushLayer(gopacket.LayerType(t))
		expLay = append(expLay, gopacket.LayerType(t))
		return "ok"
	case "stack":
		return execStack(a[2:])
	case "layers":
		var sb strings.Builder
		sb.WriteString("ok")
		ls := buf.Layers()
		if len(ls) != len(expLay) {
			lib.Finding("C18", "sbuf:layers", "Layers() differs from pushed layers")
		}
		for i, t := range ls {
			if i < len(expLay) && expLay[i] != t {
				lib.Finding("C18", "sbuf:layers", "Layers() differs from pushed layers")
			}
			fmt.Fprintf(&sb, " %d", int(t))
		}
		return sb.String()
	case "bytes":
		return "ok " + lib.Hex(buf.Bytes())
	}
	return "bad-op"
}

// ---------------------------------------------------------------- SerializeLayers with scripted layers

// scriptLayer is a SerializableLayer that records the Layers() list it finds when SerializeTo is called,
// then fails or prepends h bytes computed from (type, index, payload length).
type scriptLayer struct {
	t, h int
	ok   bool
	seen *[][]gopacket.LayerType
}

func (s *scriptLayer) LayerType() gopacket.LayerType { return gopacket.LayerType(s.t) }
func (s *scriptLayer) SerializeTo(b gopacket.SerializeBuffer, opts gopacket.SerializeOptions) error {
	*s.seen = append(*s.seen, append([]gopacket.LayerType(nil), b.Layers()...))
	if !s.ok {
		return errors.New("scripted failure")
	}
	p := len(b.Bytes())
	bs, err := b.PrependBytes(s.h)
	if err != nil {
		return err
	}
	for j := range bs {
		bs[j] = byte((s.t*16 + j + p) % 256)
	}
	return nil
}

func showTypes(ls []gopacket.LayerType) string {
	if len(ls) == 0 {
		return "-"
	}
	w := make([]string, len(ls))
	for i, t := range ls {
		w[i] = lib.Itoa(int(t))
	}
	return strings.Join(w, ",")
}

func sameTypes(a, b []gopacket.LayerType) bool {
	if len(a) != len(b) {
		return false
	}
	for i := range a {
		if a[i] != b[i] {
			return false
		}
	}
	return true
}

// execStack: `sbuf stack <type>:<hdrlen>:<1|0> …` (outermost first) = gopacket.SerializeLayers on the current buffer.
func execStack(specs []string) string {
	var seen [][]gopacket.LayerType
	var ls []gopacket.SerializableLayer
	var sl []*scriptLayer
	for _, w := range specs {
		f := strings.Split(w, ":")
		if len(f) != 3 {
			return "bad-op"
		}
		t, ok1 := lib.Atoi(f[0])
		h, ok2 := lib.Atoi(f[1])
		o, ok3 := lib.Atoi(f[2])
		if !ok1 || !ok2 || !ok3 || t < 0 || h < 0 || o < 0 || o > 1 {
			return "bad-op"
		}
		l := &scriptLayer{t: t, h: h, ok: o == 1, seen: &seen}
		sl = append(sl, l)
		ls = append(ls, l)
	}
	err := gopacket.SerializeLayers(buf, gopacket.SerializeOptions{}, ls...)
	// independent oracle: innermost first, stop at the first failing layer
	var done []gopacket.LayerType
	var payload []byte
	failed := false
	ncalled := 0
	for i := len(sl) - 1; i >= 0; i-- {
		l := sl[i]
		ncalled++
		if ncalled > len(seen) || !sameTypes(seen[ncalled-1], done) {
			got := "never called"
			if ncalled <= len(seen) {
				got = showTypes(seen[ncalled-1])
			}
			lib.Finding("C18", "sbuf:stack:observed-layers", fmt.Sprintf("layer %d (type %d) of a %d-layer stack found Layers()=%s while being serialised; the layers already serialised are %s", i, l.t, len(sl), got, showTypes(done)))
		}
		if !l.ok {
			failed = true
			break
		}
		hdr := make([]byte, l.h)
		for j := range hdr {
			hdr[j] = byte((l.t*16 + j + len(payload)) % 256)
		}
		payload = append(hdr, payload...)
		done = append(done, gopacket.LayerType(l.t))
	}
	if len(seen) != ncalled {
		lib.Finding("C18", "sbuf:stack:calls", fmt.Sprintf("%d SerializeTo calls, expected %d", len(seen), ncalled))
	}
	if failed != (err != nil) {
		lib.Finding("C18", "sbuf:stack:error", "SerializeLayers error does not reflect the layers' results")
	}
	if !sameTypes(buf.Layers(), done) {
		what := "sbuf:stack:order"
		if failed {
			what = "sbuf:stack:recorded-on-error"
		}
		lib.Finding("C18", what, fmt.Sprintf("Layers()=%s after SerializeLayers, the layers actually serialised (innermost first) are %s", showTypes(buf.Layers()), showTypes(done)))
	}
	if !bytes.Equal(buf.Bytes(), payload) {
		lib.Finding("C18", "sbuf:stack:bytes", fmt.Sprintf("Bytes()=%s want %s (outermost layer first)", lib.Hex(buf.Bytes()), lib.Hex(payload)))
	}
	slots = nil
	expect = append([]byte(nil), buf.Bytes()...)
	expLay = append([]gopacket.LayerType(nil), buf.Layers()...)
	lib.Stat("stack")
	if failed {
		lib.Stat("stack:failed-layer")
	}
	if len(sl) >= 2 {
		lib.Nontrivial()
	}
	tag := "ok"
	if err != nil {
		tag = "err"
	}
	obs := make([]string, len(seen))
	for i, s := range seen {
		obs[i] = showTypes(s)
	}
	return fmt.Sprintf("%s L=%s O=%s B=%s", tag, showTypes(buf.Layers()), strings.Join(obs, ";"), lib.Hex(buf.Bytes()))
}

func boolInt(b bool) int {
	if b {
		return 1
	}
	return 0
}

// ---------------------------------------------------------------- generator

type opk struct {
	kind string
	n    int
}

func fillBytes(r *lib.Rand, n, tag int) string {
	b := make([]byte, n)
	for i := range b {
		b[i] = byte(tag*16+i) ^ byte(r.Intn(4)<<6)
	}
	return lib.Hex(b)
}

func emitCase(r *lib.Rand, emit func(string), pre, app int, ops []opk) {
	emit("reset")
	emit(fmt.Sprintf("sbuf new %d %d", pre, app))
	nslots := 0
	var slotLen []int
	for i, o := range ops {
		switch o.kind {
		case "prepend", "append":
			emit(fmt.Sprintf("sbuf %s %d %s", o.kind, o.n, fillBytes(r, o.n, i+1)))
			nslots++
			slotLen = append(slotLen, o.n)
		case "rawprepend", "rawappend":
			emit(fmt.Sprintf("sbuf %s %d", o.kind, o.n))
			nslots++
			slotLen = append(slotLen, o.n)
		case "clear":
			emit("sbuf clear")
		case "write":
			if nslots == 0 {
				continue
			}
			s := o.n % nslots
			idx := 0
			if slotLen[s] > 0 {
				idx = r.Intn(slotLen[s])
			}
			if r.Chance(3) {
				idx = slotLen[s] // out of range: Go panics
			}
			emit(fmt.Sprintf("sbuf write %d %d %d", s, idx, 0xE0+r.Intn(16)))
		case "push":
			emit(fmt.Sprintf("sbuf push %d", o.n))
			emit("sbuf layers")
		}
	}
	emit("sbuf layers")
}

func gen(r *lib.Rand, tier string, emit func(string)) {
	sizes := []int{0, 1, 2, 3, 5, 8}
	hints := []int{0, 1, 4}
	var alpha []opk
	for _, n := range sizes {
		alpha = append(alpha, opk{"prepend", n}, opk{"append", n})
	}
	alpha = append(alpha, opk{"clear", 0}, opk{"write", 0}, opk{"write", 1}, opk{"push", 7})
	depth := 3
	if tier == "thorough" {
		depth = 4
	}
	// exhaustive small scope
	idx := make([]int, depth)
	for {
		ops := make([]opk, depth)
		for i, k := range idx {
			ops[i] = alpha[k]
		}
		for _, p := range hints {
			for _, q := range hints {
				emitCase(r, emit, p, q, ops)
			}
		}
		i := depth - 1
		for i >= 0 {
			idx[i]++
			if idx[i] < len(alpha) {
				break
			}
			idx[i] = 0
			i--
		}
		if i < 0 {
			break
		}
	}
	// SerializeLayers with scripted layers: every stack of up to 3 layers over header sizes {0,1,3} and ok/fail,
	// on a fresh buffer, after a history, and twice in a row (the helper clears first)
	hs := []int{0, 1, 3}
	var stacks [][]string
	var rec func(cur []string, d int)
	rec = func(cur []string, d int) {
		if len(cur) > 0 {
			stacks = append(stacks, append([]string(nil), cur...))
		}
		if d == 3 {
			return
		}
		for _, h := range hs {
			for o := 0; o < 2; o++ {
				rec(append(cur, fmt.Sprintf("%d:%d:%d", d+1, h, o)), d+1)
			}
		}
	}
	rec(nil, 0)
	for i, st := range stacks {
		emit("reset")
		emit(fmt.Sprintf("sbuf new %d %d", hints[i%3], hints[(i/3)%3]))
		switch i % 3 {
		case 1:
			emit("sbuf append 2 a1a2")
			emit("sbuf push 9")
		case 2:
			emit("sbuf prepend 3 b1b2b3")
			emit("sbuf push 8")
			emit("sbuf push 9")
		}
		emit("sbuf stack " + strings.Join(st, " "))
		emit("sbuf layers")
		if i%2 == 0 {
			emit("sbuf stack " + strings.Join(stacks[(i*7+3)%len(stacks)], " "))
			emit("sbuf layers")
			emit("sbuf prepend 1 cc")
		}
	}
	nst := 300
	if tier == "thorough" {
		nst = 20000
	}
	for c := 0; c < nst; c++ {
		emit("reset")
		emit(fmt.Sprintf("sbuf new %d %d", r.Pick([]int{0, 0, 1, 4, 16, 64}), r.Pick([]int{0, 0, 1, 4, 16, 64})))
		for k := 0; k < 1+r.Intn(3); k++ {
			n := 1 + r.Intn(7)
			var st []string
			for j := 0; j < n; j++ {
				o := 1
				if r.Chance(12) {
					o = 0
				}
				st = append(st, fmt.Sprintf("%d:%d:%d", 1+r.Intn(40), r.Pick([]int{0, 1, 2, 4, 8, 20, 60}), o))
			}
			emit("sbuf stack " + strings.Join(st, " "))
			emit("sbuf layers")
			if r.Chance(30) {
				emit(fmt.Sprintf("sbuf append 2 %s", fillBytes(r, 2, k)))
			}
		}
	}
	// random long histories
	ncases, maxlen := 3000, 60
	if tier == "thorough" {
		ncases, maxlen = 60000, 200
	}
	kinds := []string{"prepend", "append", "prepend", "append", "clear", "write", "write", "push", "rawprepend", "rawappend"}
	for c := 0; c < ncases; c++ {
		l := 1 + r.Intn(maxlen)
		ops := make([]opk, l)
		for i := range ops {
			k := kinds[r.Intn(len(kinds))]
			n := r.Pick([]int{0, 1, 2, 3, 5, 8, 13, 40, 100})
			if k == "write" || k == "push" {
				n = r.Intn(50)
			}
			ops[i] = opk{k, n}
		}
		emitCase(r, emit, r.Pick([]int{0, 0, 1, 4, 16, 64}), r.Pick([]int{0, 0, 1, 4, 16, 64}), ops)
	}
}

func main() {
	lib.Main(lib.Engine{Name: "sbuf", Gen: gen, Reset: reset, Exec: exec})
}
